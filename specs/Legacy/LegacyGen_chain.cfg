\* exhaustive: A/AAAA answers that are in-order alias chains of 0..3 links with independently chosen TTLs
\* from {0, 5, 60, 300} (every order, including non-monotonic ones such as 300,300,5) followed by 1..2
\* addresses with TTLs from the same set; capacities 0..3
SPECIFICATION Spec
CONSTANTS
  Fams = {"A", "AAAA"}
  MaxAn = 5
  MaxAnX = 0
  MaxExtra = 0
  MaxCap = 3
  TTLs <- ChainTTLs
  Rich = FALSE
  Chain = TRUE
  Emit = TRUE
INVARIANTS
  InvCapacity
  InvExactlyInOrder
  InvTxt
  InvSoa
  InvStatus
  InvAnswerOnly
  InvTtlMin
  InvHost
  EmitVector
CHECK_DEADLOCK FALSE
