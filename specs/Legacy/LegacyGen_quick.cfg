\* exhaustive: every message of every family up to 3 answer RRs (+ <=1 authority/additional RR
\* on messages with <= 2 answer RRs); invariants of the views checked on each, each printed as a vector
SPECIFICATION Spec
CONSTANTS
  Fams = {"A", "AAAA", "NS", "PTR", "MX", "SRV", "TXT", "SOA", "CAA", "NAPTR", "URI"}
  MaxAn = 3
  MaxAnX = 2
  MaxExtra = 1
  MaxCap = 3
  TTLs <- QuickTTLs
  Rich = FALSE
  Chain = FALSE
  Emit = TRUE
INVARIANTS
  InvCapacity
  InvExactlyInOrder
  InvTxt
  InvSoa
  InvStatus
  InvAnswerOnly
  InvTtlMin
  InvHost
  EmitVector
CHECK_DEADLOCK FALSE
