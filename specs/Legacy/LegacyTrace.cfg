SPECIFICATION TSpec
CHECK_DEADLOCK FALSE
POSTCONDITION Consumed
