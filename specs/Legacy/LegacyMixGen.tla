---------------------------- MODULE LegacyMixGen ----------------------------
(***************************************************************************)
(* C18 -- message family "address records of both families in one answer". *)
(*                                                                         *)
(* ares_parse_a_reply / ares_parse_aaaa_reply turn the answer section into *)
(* a list of address nodes of BOTH families (in answer order) and then     *)
(* project it twice: ares_addrinfo2addrttl (the caller's array) and        *)
(* ares_addrinfo2hostent (h_addr_list) each pick the nodes of the wanted   *)
(* family.  The projections must neither drop, reorder nor misplace an     *)
(* address because a record of the other family stands before it or        *)
(* between two records of the wanted family.                               *)
(*                                                                         *)
(* Same state and RR constructors as LegacyGen.  An answer of this family  *)
(* is   alias^k  addr^j :                                                  *)
(*   * k = 0..MixLinks links of the regular chain n0 -> n1 -> n2 (fixed    *)
(*     TTLs 60, 300), then                                                 *)
(*   * j = 0..MixAddrs address records at the end of the chain, EVERY ONE  *)
(*     of them freely an A or an AAAA record: all 2^j family patterns, so  *)
(*     [AAAA, A], [A, AAAA, A], [AAAA, AAAA, A, A], [A, AAAA, AAAA, A] ... *)
(*     with and without aliases in front.  The n-th A (AAAA) record of an  *)
(*     answer carries the n-th address of V4s (V6s) and the n-th TTL of    *)
(*     MixTTLs: addresses are pairwise different, a dropped, repeated or   *)
(*     moved one shows in the items and in the hostent.                    *)
(* (LegacyGen's own box holds these patterns only up to 3 answer records   *)
(* with a single other-family symbol.)  Every message is checked against   *)
(* all view invariants of LegacyGen and printed with the call plan         *)
(* Calls(fam): both parsers, modes both / ttls / host, capacities          *)
(* 0..MaxCap -- for the A-family message the AAAA parser sees the same     *)
(* interleaving with the roles of the families exchanged.                  *)
(***************************************************************************)
EXTENDS LegacyGen

MixLinks == 2
MixAddrs == MaxAn - MixLinks          \* cfg: MaxAn = 7  ->  up to 5 address records

V4s == <<"10.0.0.1", "10.0.0.2", "10.0.0.3", "10.0.0.4", "10.0.0.5", "10.0.0.6">>
V6s == <<"2001:db8::1", "2001:db8::2", "2001:db8::3", "2001:db8::4", "2001:db8::5", "2001:db8::6">>
MixTTLs    == <<60, 5, 300, 60, 5, 300>>
MixLinkTTL == <<60, 300>>

NumOf(a, ty) == Len(SelectSeq(a, LAMBDA r : r.type = ty))

MixNext(a) ==
  LET nal == NumOf(a, "CNAME")
      n4  == NumOf(a, "A")
      n6  == NumOf(a, "AAAA")
      end == ChainNames[nal + 1]
  IN (IF n4 + n6 = 0 /\ nal < MixLinks
      THEN {CN(ChainNames[nal + 1], ChainNames[nal + 2], MixLinkTTL[nal + 1])} ELSE {})
     \cup (IF n4 + n6 < MixAddrs
           THEN {A4(end, V4s[n4 + 1], CIN, MixTTLs[n4 + 1]), A6(end, V6s[n6 + 1], CIN, MixTTLs[n6 + 1])}
           ELSE {})

MixAdd ==
  /\ Len(an) < MaxAn
  /\ \E r \in MixNext(an) : an' = Append(an, r)
  /\ UNCHANGED <<fam, ns, ar>>

MixSpec == Init /\ [][MixAdd]_vars

-----------------------------------------------------------------------------
\* the family really contains what it is for (checked by TLC on the finished run: POSTCONDITION would need
\* state; instead every state is classified and the check counts the classes from the printed vectors)
Families == [i \in DOMAIN an |-> an[i].type]

\* an answer in which a record of the other family stands before a record of the family wanted by fn
ForeignBefore(fn) ==
  \E i, j \in DOMAIN an : i < j /\ an[j].type = FnType(fn) /\ an[i].type \in {"A", "AAAA"} \ {FnType(fn)}

\* the views on this family: every address of the wanted family survives, in answer order, in the hostent
\* (never clipped) and -- up to the capacity -- in the array, whatever stands between them
InvMixComplete ==
  \A fn \in AddrFns :
    LET want == Map(Match(fn, Msg), LAMBDA r : r.a)
        vh   == View(fn, "host", 0, Msg)
        vt   == View(fn, "ttls", MaxAn, Msg)
    IN /\ (want # <<>> => vh.host.present = 1 /\ vh.host.addrs = want)
       /\ Map(vt.items, LAMBDA x : x.ip) = want

EmitMix == Emit => PrintT(ToJson([k |-> "vec", fam |-> fam, msg |-> Msg, calls |-> Calls(fam),
                                  mix |-> [a |-> IF ForeignBefore("a") THEN 1 ELSE 0,
                                           aaaa |-> IF ForeignBefore("aaaa") THEN 1 ELSE 0]]))

=============================================================================
