---------------------------- MODULE LegacyOomGen ----------------------------
(***************************************************************************)
(* C18 / C14 -- the message family for the allocation-failure dimension of *)
(* the legacy parsers.                                                     *)
(*                                                                         *)
(* Same state and RR constructors as LegacyGen; the answer section is a    *)
(* sequence WITHOUT repetition over a small per-family alphabet made of    *)
(*   * every class-IN record of the family's own type of LegacyGen's       *)
(*     alphabet (3-4 records with pairwise different field values; TXT     *)
(*     records with 1, 2 and 3 character-strings incl. an empty one),      *)
(*   * alias records (A/AAAA: the links n0 -> n1 -> n2, in any order, so   *)
(*     in-order chains of 1 and 2 links are members; others: one alias),   *)
(*   * one record of another type (A/AAAA: of the other address family).   *)
(* A state is emitted as a vector iff it holds at least one record the     *)
(* family's own parser reports (the "several records of the parser's type, *)
(* alias chains, multiple strings" cases; answers without such a record    *)
(* belong to the ordinary C18 space).  With every vector goes the plan of  *)
(* allocation-failure sweeps OomCalls(fam): the own entry point(s) of the  *)
(* family in every output mode.  The harness repeats each planned call     *)
(* failing exactly the n-th allocation request of the call for every n;    *)
(* LegacyTrace.tla (OomLabels) decides every recorded outcome.             *)
(* The view invariants of LegacyGen are checked on this space as well.     *)
(***************************************************************************)
EXTENDS LegacyGen

OomTTLs == {60}

OwnRecords(f) == {r \in Alphabet(f) : r.type = f /\ r.cls = CIN}

OomAlphabet(f) ==
  CASE f = "A"    -> {CN(N0, N1, 5), CN(N1, N2, 60), A4(N0, IP1, CIN, 60), A4(N1, IP2, CIN, 5), A4(N2, IP3, CIN, 300),
                      A6(N1, V61, CIN, 60)}
    [] f = "AAAA" -> {CN(N0, N1, 5), CN(N1, N2, 60), A6(N0, V61, CIN, 60), A6(N1, V62, CIN, 5), A6(N2, V69, CIN, 300),
                      A4(N1, IP1, CIN, 60)}
    [] OTHER      -> OwnRecords(f) \cup OneAlias \cup {IF f = "MX" THEN SRVr(N0, 1, 2, 3, N1, CIN) ELSE MXr(N0, 10, N1, CIN)}

Used == {an[i] : i \in DOMAIN an}

OomAdd ==
  /\ Len(an) < MaxAn
  /\ \E r \in OomAlphabet(fam) \ Used : an' = Append(an, r)
  /\ UNCHANGED <<fam, ns, ar>>

OomSpec == Init /\ [][OomAdd]_vars

-----------------------------------------------------------------------------
OwnFn(f) == CASE f = "A" -> "a" [] f = "AAAA" -> "aaaa" [] f = "NS" -> "ns" [] f = "PTR" -> "ptr" [] f = "MX" -> "mx"
              [] f = "SRV" -> "srv" [] f = "TXT" -> "txt" [] f = "SOA" -> "soa" [] f = "CAA" -> "caa"
              [] f = "NAPTR" -> "naptr" [] f = "URI" -> "uri"

\* the sweeps planned for a message of family f: the own entry point(s), every output mode
OomCalls(f) ==
  CASE f \in {"A", "AAAA"} -> One(OwnFn(f), "both", 2) \o One(OwnFn(f), "ttls", 1) \o One(OwnFn(f), "host", 0)
                              \o One(IF f = "A" THEN "aaaa" ELSE "a", "both", 2)
    [] f = "PTR"           -> One("ptr", "addr", 0) \o One("ptr", "noaddr", 0)
    [] f = "TXT"           -> One("txt", "-", 0) \o One("txt_ext", "-", 0)
    [] OTHER               -> One(OwnFn(f), "-", 0)

\* every planned sweep is on a message for which View prescribes a non-empty result (non-trivial truncation target),
\* except the cross-family call of A/AAAA (other-family / alias-only / no-data answers)
Emitted == Match(OwnFn(fam), Msg) # <<>>

InvOomPlan ==
  Emitted => \A i \in DOMAIN OomCalls(fam) :
               LET c == OomCalls(fam)[i]
                   v == View(c.fn, c.mode, c.cap, Msg)
               IN (c.fn = OwnFn(fam) \/ fam = "TXT") => v.st = "SUCCESS" /\ (v.items # <<>> \/ v.host.present = 1)

EmitOom == (Emit /\ Emitted) =>
             PrintT(ToJson([k |-> "vec", fam |-> fam, msg |-> Msg, calls |-> <<>>, oom |-> OomCalls(fam)]))

=============================================================================
