\* exhaustive: A/AAAA answers  alias^k addr^j  with k = 0..2 in-order links and j = 0..5 address records, each
\* of them freely an A or an AAAA record (all 2^j family patterns: records of the other family before / between
\* records of the wanted family); capacities 0..3
SPECIFICATION MixSpec
CONSTANTS
  Fams = {"A", "AAAA"}
  MaxAn = 7
  MaxAnX = 0
  MaxExtra = 0
  MaxCap = 3
  TTLs <- QuickTTLs
  Rich = FALSE
  Chain = FALSE
  Emit = TRUE
INVARIANTS
  InvCapacity
  InvExactlyInOrder
  InvTxt
  InvSoa
  InvStatus
  InvAnswerOnly
  InvTtlMin
  InvHost
  InvMixComplete
  EmitMix
CHECK_DEADLOCK FALSE
