----------------------------- MODULE LegacyTrace -----------------------------
(***************************************************************************)
(* C18 -- trace validation: what the real legacy parsers did (ndjson       *)
(* written by harness/legacy) against LegacyView.                          *)
(*                                                                         *)
(* One line = one byte string:                                             *)
(*   [e |-> "msg", id, mut, len, ok, pst, rec (if ok = 1), src (optional), *)
(*    calls |-> << [fn, mode, cap, st, items, n, guard, host, leak] ... >>]*)
(* ok/pst/rec are what ares_dns_parse and the record getters report for    *)
(* the bytes; src is the abstract message TLC generated (present only on   *)
(* unmutated vectors; added by the check from TLC's own output).           *)
(* A line is explained (TConform) iff for every call                        *)
(*   ok = 0:  the status is a malformed-message status (ARES_EBADRESP or   *)
(*            the record parser's own rejection status pst) and nothing is *)
(*            returned;                                                    *)
(*   ok = 1:  status, items, count, hostent are those of                   *)
(*            View(fn, mode, cap, rec), the count is within the capacity,  *)
(*            the guard elements behind the caller's array are intact and  *)
(*            the matching free function released every allocation.        *)
(* Allocation-failure dimension (the legacy-parser part of C14): a line    *)
(* with mut = "oom" is an allocation-failure sweep of ONE call on an       *)
(* intact message: the call was repeated with exactly the n-th allocation  *)
(* request of the call failing, n = 1, 2, ... ; every entry of calls has   *)
(* oom |-> n and hit |-> 1 (the n-th request was made and failed) or 0     *)
(* (the call made fewer than n requests: the failure-free run).  A call    *)
(* with hit = 1 is explained iff                                           *)
(*     status # SUCCESS  /\  nothing is returned                           *)
(*  \/ status, items, hostent = View(fn, mode, cap, rec)   (proceeded      *)
(*     correctly),                                                         *)
(* and in both cases nothing stays allocated after the matching free       *)
(* function and the guard elements are intact (OomLabels).  Never a        *)
(* success with a partial result.  A call with hit = 0 is an ordinary call.*)
(* A line that is not explained takes TDeviate, which prints the labelled  *)
(* reasons (the violation signatures) and goes on, so that one run reports *)
(* every deviation.  The trace is accepted iff every line was consumed and *)
(* ndev = 0.                                                               *)
(***************************************************************************)
EXTENDS LegacyView, Json, IOUtils

Tr == ndJsonDeserialize(IOEnv.TRACE)

VARIABLES l, ndev, seen          \* seen: labels already reported with full detail
tvars == <<l, ndev, seen>>

-----------------------------------------------------------------------------
OtherFamily(fn, m) ==
  \E i \in DOMAIN m.an : m.an[i].cls = CIN /\ m.an[i].type = (IF fn = "a" THEN "AAAA" ELSE "A")

\* the distinguishing condition of a status deviation (part of the signature)
Qual(fn, mode, m) ==
  IF m.an = <<>> THEN ".empty_answer"
  ELSE IF Match(fn, m) # <<>> THEN ".has_records"
  ELSE IF fn \in AddrFns
       THEN (IF Cnames(m) # <<>> THEN ".alias_only"
             ELSE IF OtherFamily(fn, m) THEN ".other_family_only"
             ELSE ".answers_of_other_types_only") \o ".mode_" \o mode
  ELSE ".answers_of_other_types_only"

HNameKind(fn, c, m) ==
  IF fn \in AddrFns /\ RegularChain(m) /\ Len(Cnames(m)) >= 2 /\ c.host.name = Cnames(m)[1].t
  THEN "first_alias_target_instead_of_chain_end"
  ELSE "unexpected"

HostLabels(fn, c, v, m) ==
  IF v.host.present = 0
  THEN (IF c.host.present = 0 THEN {} ELSE {fn \o ".host.unexpected"})
  ELSE IF c.host.present = 0 THEN {fn \o ".host.missing"}
  ELSE (IF c.host.name \in v.host.names THEN {} ELSE {fn \o ".host.name." \o HNameKind(fn, c, m)})
       \cup (IF c.host.aliases = v.host.aliases THEN {} ELSE {fn \o ".host.aliases"})
       \cup (IF c.host.addrs = v.host.addrs THEN {} ELSE {fn \o ".host.addrs"})
       \cup (IF c.host.addrtype = v.host.addrtype /\ c.host.length = v.host.length THEN {}
             ELSE {fn \o ".host.addrtype_or_length"})

ItemLabels(fn, c, v) ==
  IF c.items = v.items THEN {}
  ELSE IF Len(c.items) # Len(v.items) THEN {fn \o ".items.count"}
  ELSE {fn \o ".items.values_or_order"}

\* clauses that hold for every call, whatever the message
CommonLabels(c) ==
  (IF c.guard = 1 THEN {} ELSE {c.fn \o ".guard_overwritten"})
  \cup (IF c.leak = 0 THEN {} ELSE {c.fn \o ".leak_after_free"})
  \cup (IF c.fn \in AddrFns /\ c.n > c.cap THEN {c.fn \o ".capacity_exceeded"} ELSE {})
  \cup (IF c.n = Len(c.items) \/ (c.fn \in AddrFns /\ c.n > c.cap) THEN {} ELSE {c.fn \o ".count_mismatch"})

PlainCallLabels(ev, c) ==
  CommonLabels(c) \cup
  IF ev.ok = 0
  THEN \* rejected by the record parser: must be reported as malformed, nothing returned
       \* (the documented ARES_EBADRESP, or the record parser's own rejection status passed through)
       (IF c.st \in {"EBADRESP", ev.pst} THEN {} ELSE {c.fn \o ".rejected_message.status." \o c.st})
       \cup (IF c.items = <<>> /\ c.host.present = 0 /\ c.n = 0 THEN {}
             ELSE {c.fn \o ".rejected_message.output_present"})
  ELSE LET m == ev.rec
           v == View(c.fn, c.mode, c.cap, m)
       IN (IF c.st = v.st THEN {}
           ELSE {c.fn \o ".status." \o c.st \o "_for_" \o v.st \o Qual(c.fn, c.mode, m)})
          \cup ItemLabels(c.fn, c, v)
          \cup HostLabels(c.fn, c, v, m)

\* ---- exactly one allocation of the call failed (calls of a mut = "oom" line with hit = 1)
Faulted(c) == "oom" \in DOMAIN c /\ c.hit = 1

NoOutput(c) == c.items = <<>> /\ c.host.present = 0 /\ c.n = 0

\* the result is a proper part of what View prescribes (silent truncation) rather than something else
Partial(c, v) ==
  \/ Len(c.items) < Len(v.items)
  \/ /\ v.host.present = 1
     /\ \/ c.host.present = 0
        \/ Len(c.host.aliases) < Len(v.host.aliases)
        \/ Len(c.host.addrs) < Len(v.host.addrs)

\* distinguishing conditions of a leak under a failed allocation (part of the signature): how many blocks stay
\* allocated, and whether the answer holds a NAPTR record with an empty character-string (flags / services / regexp)
HasEmptyCharString(m) ==
  \E i \in DOMAIN m.an : m.an[i].type = "NAPTR" /\ (m.an[i].flags = "" \/ m.an[i].svc = "" \/ m.an[i].re = "")

NumStr(n) == IF n \in 0..9 THEN ToString(n) ELSE "many"

OomLeakLabels(ev, c) ==
  IF c.leak = 0 THEN {}
  ELSE {"oom." \o c.fn \o ".leak_after_free." \o NumStr(c.leak) \o "_block"
        \o (IF ev.ok = 1 /\ HasEmptyCharString(ev.rec) THEN ".message_with_empty_character_string" ELSE "")}

OomLabels(ev, c) ==
  LET P == "oom." \o c.fn IN
  {"oom." \o x : x \in CommonLabels([c EXCEPT !.leak = 0])}    \* oom.<fn>.guard_overwritten, .capacity_exceeded ...
  \cup OomLeakLabels(ev, c)
  \cup
  IF ev.ok = 0 THEN {"machinery.oom_sweep_on_rejected_message"}
  ELSE LET v == View(c.fn, c.mode, c.cap, ev.rec)
           asView == c.st = v.st /\ ItemLabels(c.fn, c, v) = {} /\ HostLabels(c.fn, c, v, ev.rec) = {}
       IN IF asView \/ (c.st # "SUCCESS" /\ NoOutput(c)) THEN {}
          ELSE IF c.st = "SUCCESS"
               THEN {P \o (IF Partial(c, v) THEN ".success_with_partial_result" ELSE ".success_with_wrong_result")}
          ELSE IF ~NoOutput(c) THEN {P \o ".error_status_with_output." \o c.st}
          ELSE {P \o ".status." \o c.st \o "_for_" \o v.st}      \* cannot happen (kept total)

CallLabels(ev, c) == IF Faulted(c) THEN OomLabels(ev, c) ELSE PlainCallLabels(ev, c)

MsgLabels(ev) ==
  IF "src" \in DOMAIN ev
  THEN (IF ev.ok = 0 THEN {"machinery.generated_message_rejected"}
        ELSE IF ev.src = ev.rec THEN {} ELSE {"machinery.roundtrip"})
  ELSE {}

EvLabels(ev) ==
  CASE ev.e = "msg" -> MsgLabels(ev) \cup UNION {CallLabels(ev, ev.calls[i]) : i \in DOMAIN ev.calls}
    [] ev.e = "end" -> (IF ev.live = 0 THEN {} ELSE {"leak.outstanding_allocations_at_exit"})
                       \cup (IF ev.lsan = 0 THEN {} ELSE {"leak.lsan_report"})
    \* the harness process was killed by a sanitizer while executing vector ev.id: no action explains it
    [] ev.e = "crash" -> IF "fn" \in DOMAIN ev THEN {"oom." \o ev.fn \o ".sanitizer." \o ev.sig}   \* inside a sweep
                         ELSE {"sanitizer." \o ev.sig}
    [] OTHER -> {"machinery.unknown_event"}

\* per-call detail printed for a deviating line
Detail(ev) ==
  IF ev.e # "msg" THEN <<>>
  ELSE LET bad == SelectSeq(ev.calls, LAMBDA c : CallLabels(ev, c) # {})
       IN [i \in 1..Len(bad) |->
             [fn |-> bad[i].fn, mode |-> bad[i].mode, cap |-> bad[i].cap,
              labels |-> CallLabels(ev, bad[i]), got |-> bad[i],
              want |-> IF ev.ok = 1 THEN View(bad[i].fn, bad[i].mode, bad[i].cap, ev.rec)
                       ELSE [st |-> {"EBADRESP", ev.pst}, items |-> <<>>, host |-> NoHost]]]

-----------------------------------------------------------------------------
TInit == l = 1 /\ ndev = 0 /\ seen = {}

TConform ==
  /\ l <= Len(Tr)
  /\ EvLabels(Tr[l]) = {}
  /\ l' = l + 1
  /\ UNCHANGED <<ndev, seen>>

TDeviate ==
  /\ l <= Len(Tr)
  /\ LET labs == EvLabels(Tr[l]) IN
       /\ labs # {}
       /\ PrintT(ToJson([k |-> "dev", line |-> l, id |-> IF "id" \in DOMAIN Tr[l] THEN Tr[l].id ELSE -1,
                         labels |-> labs,
                         detail |-> IF labs \subseteq seen THEN <<>> ELSE Detail(Tr[l])]))
       /\ seen' = seen \cup labs
  /\ l' = l + 1
  /\ ndev' = ndev + 1

TNext == TConform \/ TDeviate
TSpec == TInit /\ [][TNext]_tvars

\* every line consumed (cfg: POSTCONDITION)
Consumed == TLCGet("stats").diameter - 1 = Len(Tr)
\* the strict acceptance condition: violated = some line is not explained by View
NoDeviation == ndev = 0
=============================================================================
