----------------------------- MODULE LegacyView -----------------------------
(***************************************************************************)
(* C18 -- what each legacy ares_parse_*_reply() must return, written as a  *)
(* projection ("view") of the abstract DNS message that the record API     *)
(* (ares_dns_parse + getters) reports for the same bytes.                  *)
(*                                                                         *)
(* An abstract message is a record                                         *)
(*   [q  |-> [name, type],  an |-> <<rr...>>, ns |-> <<rr...>>,            *)
(*    ar |-> <<rr...>>]                                                    *)
(* and an abstract RR is a flat record [name, type, cls, ttl, ...rdata]:   *)
(*   A/AAAA: a          CNAME/NS/PTR: t          MX: pref, t               *)
(*   SRV: prio, weight, port, t      URI: prio, weight, uri                *)
(*   NAPTR: order, pref, flags, svc, re, repl    CAA: crit, tag, val(hex)  *)
(*   TXT: chunks (sequence of hex strings)                                 *)
(*   SOA: mname, rname, serial, refresh, retry, expire, minimum            *)
(*   any other type: no rdata fields                                       *)
(* 32-bit quantities (TTL, SOA counters) are the signed reinterpretation   *)
(* of the 32 wire bits (TLC integers are 32-bit).                          *)
(*                                                                         *)
(* This module is pure (no variables).  LegacyGen.tla enumerates messages  *)
(* and checks the invariants of the views; LegacyTrace.tla validates what  *)
(* the real code did against View().                                       *)
(***************************************************************************)
EXTENDS Naturals, Integers, Sequences, FiniteSets, TLC

CIN == 1
CCH == 3
CHS == 4

INTMAX == 2147483647

\* statuses by which a legacy parser may say "the message is malformed": the documented
\* ARES_EBADRESP, or the rejection status of the record parser itself passed through
Malformed == {"EBADRESP", "EBADNAME", "EFORMERR", "EBADSTR"}

ListFns == {"mx", "srv", "txt", "txt_ext", "soa", "caa", "naptr", "uri"}
AddrFns == {"a", "aaaa"}
HostFns == {"ns", "ptr"}
AllFns  == ListFns \cup AddrFns \cup HostFns

MinI(a, b) == IF a < b THEN a ELSE b
Map(s, F(_)) == [i \in 1..Len(s) |-> F(s[i])]
Clip(s, n) == SubSeq(s, 1, MinI(Len(s), n))
NoHost == [present |-> 0]

-----------------------------------------------------------------------------
(* Which answer-section records belong to a legacy function.  Only the    *)
(* answer section counts; the class filter is the one of the classic API  *)
(* (class IN; TXT and CAA also accept CHAOS) -- the result structures     *)
(* have no class field, so this is a modelling choice, see docs/C18.md.   *)

FnType(fn) == CASE fn = "a" -> "A"       [] fn = "aaaa" -> "AAAA"
                [] fn = "ns" -> "NS"     [] fn = "ptr" -> "PTR"
                [] fn = "mx" -> "MX"     [] fn = "srv" -> "SRV"
                [] fn = "txt" -> "TXT"   [] fn = "txt_ext" -> "TXT"
                [] fn = "soa" -> "SOA"   [] fn = "caa" -> "CAA"
                [] fn = "naptr" -> "NAPTR" [] fn = "uri" -> "URI"

FnClasses(fn) == IF fn \in {"txt", "txt_ext", "caa"} THEN {CIN, CCH} ELSE {CIN}

Match(fn, m) == SelectSeq(m.an, LAMBDA r : r.type = FnType(fn) /\ r.cls \in FnClasses(fn))

\* second, index-based formulation of the same thing (used by the invariants)
MatchIdx(fn, m) == {i \in DOMAIN m.an : m.an[i].type = FnType(fn) /\ m.an[i].cls \in FnClasses(fn)}

-----------------------------------------------------------------------------
(* Items of the list-returning parsers: one per record (TXT: one per      *)
(* character-string), in answer order, field by field.                    *)

MxItem(r)    == [host |-> r.t, priority |-> r.pref]
SrvItem(r)   == [host |-> r.t, priority |-> r.prio, weight |-> r.weight, port |-> r.port]
UriItem(r)   == [priority |-> r.prio, weight |-> r.weight, uri |-> r.uri, ttl |-> r.ttl]
NaptrItem(r) == [flags |-> r.flags, service |-> r.svc, regexp |-> r.re, replacement |-> r.repl,
                 order |-> r.order, preference |-> r.pref]
CaaItem(r)   == [critical |-> r.crit, property |-> r.tag, plength |-> Len(r.tag),
                 value |-> r.val, length |-> Len(r.val) \div 2]
SoaItem(r)   == [nsname |-> r.mname, hostmaster |-> r.rname, serial |-> r.serial, refresh |-> r.refresh,
                 retry |-> r.retry, expire |-> r.expire, minttl |-> r.minimum]

TxtChunks(r, ext) ==
  [j \in 1..Len(r.chunks) |->
     IF ext THEN [txt |-> r.chunks[j], length |-> Len(r.chunks[j]) \div 2,
                  record_start |-> IF j = 1 THEN 1 ELSE 0]
            ELSE [txt |-> r.chunks[j], length |-> Len(r.chunks[j]) \div 2]]

RECURSIVE TxtFlat(_, _)
TxtFlat(rrs, ext) == IF rrs = <<>> THEN <<>> ELSE TxtChunks(Head(rrs), ext) \o TxtFlat(Tail(rrs), ext)

ListItems(fn, m) ==
  LET s == Match(fn, m) IN
  CASE fn = "mx"      -> Map(s, MxItem)
    [] fn = "srv"     -> Map(s, SrvItem)
    [] fn = "uri"     -> Map(s, UriItem)
    [] fn = "naptr"   -> Map(s, NaptrItem)
    [] fn = "caa"     -> Map(s, CaaItem)
    [] fn = "txt"     -> TxtFlat(s, FALSE)
    [] fn = "txt_ext" -> TxtFlat(s, TRUE)
    [] fn = "soa"     -> IF s = <<>> THEN <<>> ELSE <<SoaItem(s[1])>>   \* the API returns one SOA: the first

\* "its documented no-data status when there are none": every man page documents ARES_ENODATA
ViewList(fn, m) ==
  [st    |-> IF Match(fn, m) = <<>> THEN "ENODATA" ELSE "SUCCESS",
   items |-> ListItems(fn, m),
   host  |-> NoHost]

-----------------------------------------------------------------------------
(* A / AAAA: address+TTL array (clipped to the caller's capacity) and      *)
(* hostent (not clipped).                                                  *)

Cnames(m) == SelectSeq(m.an, LAMBDA r : r.type = "CNAME" /\ r.cls = CIN)

SeqMin(s) == CHOOSE t \in {s[i] : i \in DOMAIN s} : \A i \in DOMAIN s : t <= s[i]

\* TTL reported for an address: the minimum of the record's own TTL and the TTLs of the
\* alias records of the answer (documented by the code and its tests: "TTL is reduced to match CNAME's")
MinCnameTTL(m) == LET c == Cnames(m) IN IF c = <<>> THEN INTMAX ELSE SeqMin(Map(c, LAMBDA r : r.ttl))
AddrTTL(r, m)  == MinI(r.ttl, MinCnameTTL(m))

\* the aliases form one chain question -> ... -> canonical name, in order, without loop
RegularChain(m) ==
  LET c == Cnames(m) IN
  /\ c # <<>>
  /\ c[1].name = m.q.name
  /\ \A i \in 1..(Len(c) - 1) : c[i + 1].name = c[i].t
  /\ \A i, j \in DOMAIN c : i # j => c[i].name # c[j].name
  /\ \A i \in DOMAIN c : c[Len(c)].t # c[i].name

\* h_name: "names after following aliases".  Where the alias records do not form a regular
\* chain (loop, out of order, unrelated aliases) nothing is documented: any name of the chain
\* material is allowed.
HNames(m) ==
  LET c == Cnames(m) IN
  IF c = <<>> THEN {m.q.name}
  ELSE IF RegularChain(m) THEN {c[Len(c)].t}
  ELSE {m.q.name} \cup {c[i].t : i \in DOMAIN c} \cup {c[i].name : i \in DOMAIN c}

ViewAddr(fn, mode, cap, m) ==
  LET recs     == Match(fn, m)
      cn       == Cnames(m)
      \* an alias-only answer is reported as success with an empty address list
      \* (upstream decision, commit 2c63440; modelling choice)
      nodata   == recs = <<>> /\ cn = <<>>
      all      == Map(recs, LAMBDA r : [ip |-> r.a, ttl |-> AddrTTL(r, m)])
      wantTtls == mode \in {"both", "ttls"}
      wantHost == mode \in {"both", "host"}
  IN [st    |-> IF nodata THEN "ENODATA" ELSE "SUCCESS",
      items |-> IF wantTtls /\ ~nodata THEN Clip(all, cap) ELSE <<>>,
      host  |-> IF wantHost /\ ~nodata
                THEN [present |-> 1, names |-> HNames(m),
                      aliases |-> Map(cn, LAMBDA r : r.name),
                      addrs |-> Map(recs, LAMBDA r : r.a),
                      addrtype |-> IF fn = "a" THEN "INET" ELSE "INET6",
                      length |-> IF fn = "a" THEN 4 ELSE 16]
                ELSE NoHost]

-----------------------------------------------------------------------------
(* NS / PTR: hostent with the names in h_aliases.                          *)

PtrAddr == "10.9.8.7"      \* the address the harness passes in mode "addr"

ViewNs(m) ==
  LET s == Match("ns", m) IN
  [st |-> IF s = <<>> THEN "ENODATA" ELSE "SUCCESS", items |-> <<>>,
   host |-> IF s = <<>> THEN NoHost
            ELSE [present |-> 1, names |-> {m.q.name}, aliases |-> Map(s, LAMBDA r : r.t),
                  addrs |-> <<>>, addrtype |-> "INET", length |-> 4]]

ViewPtr(mode, m) ==
  LET s == Match("ptr", m) IN
  [st |-> IF s = <<>> THEN "ENODATA" ELSE "SUCCESS", items |-> <<>>,
   host |-> IF s = <<>> THEN NoHost
            \* which of several PTR names becomes h_name is not documented: any of them
            ELSE [present |-> 1, names |-> {s[i].t : i \in DOMAIN s}, aliases |-> Map(s, LAMBDA r : r.t),
                  addrs |-> IF mode = "addr" THEN <<PtrAddr>> ELSE <<>>,
                  addrtype |-> "INET", length |-> IF mode = "addr" THEN 4 ELSE 0]]

-----------------------------------------------------------------------------
View(fn, mode, cap, m) ==
  CASE fn \in AddrFns -> ViewAddr(fn, mode, cap, m)
    [] fn = "ns"      -> ViewNs(m)
    [] fn = "ptr"     -> ViewPtr(mode, m)
    [] fn \in ListFns -> ViewList(fn, m)

\* number of caller-array elements written (A/AAAA) resp. list nodes returned
ViewCount(fn, mode, cap, m) == Len(View(fn, mode, cap, m).items)

=============================================================================
