\* allocation-failure family (quick): every repetition-free answer of <= 3 records over the per-family alphabet
SPECIFICATION OomSpec
CONSTANTS
  Fams = {"A", "AAAA", "NS", "PTR", "MX", "SRV", "TXT", "SOA", "CAA", "NAPTR", "URI"}
  MaxAn = 3
  MaxAnX = 0
  MaxExtra = 0
  MaxCap = 3
  TTLs <- OomTTLs
  Rich = FALSE
  Chain = FALSE
  Emit = TRUE
INVARIANTS
  InvCapacity
  InvExactlyInOrder
  InvTxt
  InvSoa
  InvStatus
  InvAnswerOnly
  InvTtlMin
  InvHost
  InvOomPlan
  EmitOom
CHECK_DEADLOCK FALSE
