\* thorough: random long messages (-simulate), larger alphabets, TTL extremes, capacities 0..5
SPECIFICATION Spec
CONSTANTS
  Fams = {"A", "AAAA", "NS", "PTR", "MX", "SRV", "TXT", "SOA", "CAA", "NAPTR", "URI"}
  MaxAn = 6
  MaxAnX = 6
  MaxExtra = 3
  MaxCap = 5
  TTLs <- RichTTLs
  Rich = TRUE
  Chain = FALSE
  Emit = TRUE
INVARIANTS
  InvCapacity
  InvExactlyInOrder
  InvTxt
  InvSoa
  InvStatus
  InvAnswerOnly
  InvTtlMin
  InvHost
  EmitVector
CHECK_DEADLOCK FALSE
