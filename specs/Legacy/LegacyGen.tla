------------------------------ MODULE LegacyGen ------------------------------
(***************************************************************************)
(* C18 -- the message space over which the legacy views are model-checked  *)
(* and from which the test vectors for the real code are generated.        *)
(*                                                                         *)
(* A state is one DNS response under construction: a family (which legacy  *)
(* parser the message is aimed at; it selects the RR alphabet and the      *)
(* question type) and the three sections.  Actions append one RR.  BFS     *)
(* enumerates every message up to the bounds; -simulate samples long ones. *)
(* Every state is a complete message: the invariants below are checked on  *)
(* it for every function, mode and capacity, and (Emit = TRUE) it is       *)
(* printed as a JSON vector for the harness.                               *)
(***************************************************************************)
EXTENDS LegacyView, Json

CONSTANTS Fams,        \* subset of AllFams
          MaxAn,       \* max answer RRs
          MaxAnX,      \* max answer RRs in messages that also have authority/additional RRs
          MaxExtra,    \* max RRs in authority + additional
          MaxCap,      \* capacities 0..MaxCap for the addrttl arrays
          TTLs,        \* TTL values used for the RRs whose TTL matters (A/AAAA/CNAME/URI)
          Rich,        \* TRUE: larger alphabets (thorough tier)
          Chain,       \* TRUE: A/AAAA answers are in-order alias chains of 0..3 links, every link with an
                       \*       independently chosen TTL (all orders, also non-monotonic), then 1..2 addresses
          Emit         \* TRUE: print vectors

\* TTL sets for the configs (a .cfg file cannot spell a negative number);  -1 = 0xFFFFFFFF on the wire
QuickTTLs == {5, 60}
RichTTLs  == {0, 5, 60, 300, 2147483647, -1}
ChainTTLs == {0, 5, 60, 300}

VARIABLES fam, an, ns, ar
vars == <<fam, an, ns, ar>>

AllFams == {"A", "AAAA", "NS", "PTR", "MX", "SRV", "TXT", "SOA", "CAA", "NAPTR", "URI"}

N0 == "n0.test"
N1 == "n1.test"
N2 == "n2.test"
N3 == "n3.test"

-----------------------------------------------------------------------------
\* RR constructors
CN(n, t, ttl)        == [name |-> n, type |-> "CNAME", cls |-> CIN, ttl |-> ttl, t |-> t]
A4(n, ip, c, ttl)    == [name |-> n, type |-> "A", cls |-> c, ttl |-> ttl, a |-> ip]
A6(n, ip, c, ttl)    == [name |-> n, type |-> "AAAA", cls |-> c, ttl |-> ttl, a |-> ip]
NSr(n, t, c)         == [name |-> n, type |-> "NS", cls |-> c, ttl |-> 60, t |-> t]
PTRr(n, t, c)        == [name |-> n, type |-> "PTR", cls |-> c, ttl |-> 60, t |-> t]
MXr(n, p, t, c)      == [name |-> n, type |-> "MX", cls |-> c, ttl |-> 60, pref |-> p, t |-> t]
SRVr(n, p, w, po, t, c) == [name |-> n, type |-> "SRV", cls |-> c, ttl |-> 60, prio |-> p, weight |-> w,
                            port |-> po, t |-> t]
URIr(n, p, w, u, c, ttl) == [name |-> n, type |-> "URI", cls |-> c, ttl |-> ttl, prio |-> p, weight |-> w, uri |-> u]
NAPTRr(n, o, p, f, s, re, rp, c) == [name |-> n, type |-> "NAPTR", cls |-> c, ttl |-> 60, order |-> o, pref |-> p,
                                     flags |-> f, svc |-> s, re |-> re, repl |-> rp]
CAAr(n, cr, tag, val, c) == [name |-> n, type |-> "CAA", cls |-> c, ttl |-> 60, crit |-> cr, tag |-> tag, val |-> val]
TXTr(n, ch, c)       == [name |-> n, type |-> "TXT", cls |-> c, ttl |-> 60, chunks |-> ch]
SOAr(n, mn, rn, se, rf, rt, ex, mi, c) == [name |-> n, type |-> "SOA", cls |-> c, ttl |-> 60, mname |-> mn,
                                           rname |-> rn, serial |-> se, refresh |-> rf, retry |-> rt,
                                           expire |-> ex, minimum |-> mi]
HINFOr(n)            == [name |-> n, type |-> "HINFO", cls |-> CIN, ttl |-> 60]

IP1 == "10.0.0.1"
IP2 == "10.0.0.2"
IP3 == "10.0.0.3"
IP9 == "10.0.0.9"
V61 == "2001:db8::1"
V62 == "2001:db8::2"
V69 == "2001:db8::9"

\* alias shapes: the regular chain N0 -> N1 -> N2, a loop back to the question, an alias hanging
\* off the chain / pointing to a name without data; (Rich) a third link
Aliases == {CN(N0, N1, t) : t \in TTLs} \cup {CN(N1, N2, t) : t \in TTLs} \cup {CN(N1, N0, t) : t \in TTLs}
           \cup {CN(N2, N3, t) : t \in TTLs}

AddrAlphabet(prim) ==
  LET P(n, ip, c, ttl) == IF prim = "A" THEN A4(n, ip, c, ttl) ELSE A6(n, ip, c, ttl)
      O(n, ip, c, ttl) == IF prim = "A" THEN A6(n, ip, c, ttl) ELSE A4(n, ip, c, ttl)
      p1 == IF prim = "A" THEN IP1 ELSE V61
      p2 == IF prim = "A" THEN IP2 ELSE V62
      o1 == IF prim = "A" THEN V61 ELSE IP1
  IN Aliases
     \cup {P(N0, p1, CIN, t) : t \in TTLs} \cup {P(N1, p2, CIN, t) : t \in TTLs}
     \cup {P(N2, p1, CIN, 60),             \* duplicate address, other owner
           O(N1, o1, CIN, 5),              \* the other address family
           P(N0, p2, CCH, 5),              \* foreign class
           MXr(N0, 10, N1, CIN)}           \* unrelated type
     \cup (IF Rich THEN {CN(N3, N1, 60), P(N3, p2, CHS, 0), HINFOr(N0), O(N2, o1, CIN, 60)} ELSE {})

OneAlias == {CN(N0, N1, 60)}

Alphabet(f) ==
  CASE f = "A"    -> AddrAlphabet("A")
    [] f = "AAAA" -> AddrAlphabet("AAAA")
    [] f = "NS"   -> {NSr(N0, N1, CIN), NSr(N0, N2, CIN), NSr(N1, N3, CIN), NSr(N0, N3, CHS), A4(N1, IP1, CIN, 60),
                      SOAr(N0, N1, N2, 1, 2, 3, 4, 5, CIN)} \cup OneAlias
    [] f = "PTR"  -> {PTRr(N0, N1, CIN), PTRr(N0, N2, CIN), PTRr(N3, N1, CIN), PTRr(N0, N3, CCH), CN(N0, N3, 60),
                      A4(N1, IP1, CIN, 60), NSr(N0, N1, CIN)}
    [] f = "MX"   -> {MXr(N0, 10, N1, CIN), MXr(N0, 20, N2, CIN), MXr(N1, 10, N1, CIN), MXr(N0, 0, N3, CHS),
                      MXr(N0, 65535, N3, CIN), A4(N1, IP1, CIN, 60), SRVr(N0, 1, 2, 3, N1, CIN)} \cup OneAlias
    [] f = "SRV"  -> {SRVr(N0, 1, 2, 3, N1, CIN), SRVr(N0, 4, 5, 6, N2, CIN), SRVr(N1, 65535, 0, 65534, N3, CIN),
                      SRVr(N0, 7, 8, 9, N1, CCH), MXr(N0, 10, N1, CIN), A6(N1, V61, CIN, 60)} \cup OneAlias
    [] f = "TXT"  -> {TXTr(N0, <<"61">>, CIN), TXTr(N0, <<"6263", "64">>, CIN), TXTr(N0, <<"", "6500ff">>, CIN),
                      TXTr(N1, <<"66", "", "6768">>, CIN), TXTr(N0, <<"76">>, CCH), TXTr(N0, <<"68">>, CHS),
                      MXr(N0, 10, N1, CIN)} \cup OneAlias
                     \cup (IF Rich THEN {TXTr(N0, <<"">>, CIN), TXTr(N0, <<"61", "62", "63", "64">>, CIN)} ELSE {})
    [] f = "SOA"  -> {SOAr(N0, N1, N2, 1, 2, 3, 4, 5, CIN), SOAr(N1, N2, N3, INTMAX, -1, 0, 60, -2147483647, CIN),
                      SOAr(N0, N3, N3, 9, 9, 9, 9, 9, CHS), NSr(N0, N1, CIN), MXr(N0, 10, N1, CIN)} \cup OneAlias
    [] f = "CAA"  -> {CAAr(N0, 0, "issue", "6c657473", CIN), CAAr(N0, 128, "iodef", "6d61696c746f3a61", CIN),
                      CAAr(N1, 1, "issuewild", "3b", CIN), CAAr(N0, 0, "issue", "6368", CCH),
                      CAAr(N0, 0, "issue", "6873", CHS), TXTr(N0, <<"61">>, CIN)} \cup OneAlias
    [] f = "NAPTR" -> {NAPTRr(N0, 1, 2, "S", "SIP+D2U", "!^.*$!sip:a@b.test!", N1, CIN),
                       NAPTRr(N0, 100, 10, "", "", "", N2, CIN),
                       NAPTRr(N1, 65535, 0, "A", "x", "", N3, CIN),
                       NAPTRr(N0, 3, 4, "U", "y", "!a!b!", N1, CCH), SRVr(N0, 1, 2, 3, N1, CIN)} \cup OneAlias
    [] f = "URI"  -> {URIr(N0, 1, 2, "http://a.test/", CIN, t) : t \in TTLs}
                     \cup {URIr(N0, 3, 4, "ftp://b.test/c", CIN, 60), URIr(N1, 65535, 65534, "x", CIN, 60),
                           URIr(N0, 5, 6, "http://hs.test/", CHS, 60), TXTr(N0, <<"61">>, CIN)} \cup OneAlias

\* records for the authority / additional sections: a record of the function's own type and an
\* alias -- neither may be reported nor influence TTLs, names or the status
Extra(f) ==
  {CN(N0, N3, 0)} \cup
  CASE f = "A"    -> {A4(N0, IP9, CIN, 0)}
    [] f = "AAAA" -> {A6(N0, V69, CIN, 0)}
    [] f = "NS"   -> {NSr(N0, N3, CIN)}
    [] f = "PTR"  -> {PTRr(N0, N3, CIN)}
    [] f = "MX"   -> {MXr(N0, 99, N3, CIN)}
    [] f = "SRV"  -> {SRVr(N0, 99, 98, 97, N3, CIN)}
    [] f = "TXT"  -> {TXTr(N0, <<"7a7a">>, CIN)}
    [] f = "SOA"  -> {SOAr(N0, N3, N3, 7, 7, 7, 7, 7, CIN)}
    [] f = "CAA"  -> {CAAr(N0, 0, "issue", "7a7a", CIN)}
    [] f = "NAPTR" -> {NAPTRr(N0, 9, 9, "Z", "z", "", N3, CIN)}
    [] f = "URI"  -> {URIr(N0, 9, 9, "http://z.test/", CIN, 0)}

\* Chain mode (A/AAAA): the next record of an answer that so far is  alias^k address^j :
\* the next link of the chain n0 -> n1 -> n2 -> n3 (while no address has been added, k < 3) or an
\* address at the current end of the chain (j < 2), each with any TTL of TTLs.
ChainNames == <<N0, N1, N2, N3>>
ChainNext(f, a) ==
  LET nal   == Len(SelectSeq(a, LAMBDA r : r.type = "CNAME"))
      naddr == Len(a) - nal
      ip    == IF f = "A" THEN (IF naddr = 0 THEN IP1 ELSE IP2) ELSE (IF naddr = 0 THEN V61 ELSE V62)
  IN (IF naddr = 0 /\ nal < 3 THEN {CN(ChainNames[nal + 1], ChainNames[nal + 2], t) : t \in TTLs} ELSE {})
     \cup (IF naddr < 2
           THEN {IF f = "A" THEN A4(ChainNames[nal + 1], ip, CIN, t) ELSE A6(ChainNames[nal + 1], ip, CIN, t) : t \in TTLs}
           ELSE {})

Msg == [q |-> [name |-> N0, type |-> fam], an |-> an, ns |-> ns, ar |-> ar]

-----------------------------------------------------------------------------
Init == fam \in Fams /\ an = <<>> /\ ns = <<>> /\ ar = <<>>

AddAnswer ==
  /\ Len(an) < MaxAn /\ ns = <<>> /\ ar = <<>>
  /\ \E r \in (IF Chain THEN ChainNext(fam, an) ELSE Alphabet(fam)) : an' = Append(an, r)
  /\ UNCHANGED <<fam, ns, ar>>

AddAuthority ==
  /\ Len(an) <= MaxAnX /\ Len(ns) + Len(ar) < MaxExtra /\ ar = <<>>
  /\ \E r \in Extra(fam) : ns' = Append(ns, r)
  /\ UNCHANGED <<fam, an, ar>>

AddAdditional ==
  /\ Len(an) <= MaxAnX /\ Len(ns) + Len(ar) < MaxExtra
  /\ \E r \in Extra(fam) : ar' = Append(ar, r)
  /\ UNCHANGED <<fam, an, ns>>

Next == AddAnswer \/ AddAuthority \/ AddAdditional
Spec == Init /\ [][Next]_vars

-----------------------------------------------------------------------------
(* The calls made on every message of a family (printed with the vector;  *)
(* the harness executes exactly these).                                    *)
Caps == 0..MaxCap
AddrCalls(fn) ==
  [i \in 1..(MaxCap + 1) |-> [fn |-> fn, mode |-> "both", cap |-> i - 1]]
  \o [i \in 1..(MaxCap + 1) |-> [fn |-> fn, mode |-> "ttls", cap |-> i - 1]]
  \o <<[fn |-> fn, mode |-> "host", cap |-> 0]>>
One(fn, mode, cap) == <<[fn |-> fn, mode |-> mode, cap |-> cap]>>
OtherCalls ==
  One("ns", "-", 0) \o One("ptr", "addr", 0) \o One("ptr", "noaddr", 0) \o One("mx", "-", 0) \o One("srv", "-", 0)
  \o One("txt", "-", 0) \o One("txt_ext", "-", 0) \o One("soa", "-", 0) \o One("caa", "-", 0)
  \o One("naptr", "-", 0) \o One("uri", "-", 0)
Calls(f) ==
  IF f \in {"A", "AAAA"} THEN AddrCalls("a") \o AddrCalls("aaaa") \o OtherCalls
  ELSE One("a", "both", 2) \o One("a", "ttls", 1) \o One("aaaa", "both", 1) \o One("aaaa", "ttls", 2) \o OtherCalls

Modes(fn) == IF fn \in AddrFns THEN {"both", "ttls", "host"} ELSE IF fn = "ptr" THEN {"addr", "noaddr"} ELSE {"-"}

-----------------------------------------------------------------------------
(* Invariants of the views over the whole message space (property C18 as   *)
(* statements about View).                                                 *)

\* never more array elements than the caller offered; clipping keeps a prefix
InvCapacity ==
  \A fn \in AddrFns : \A mode \in Modes(fn) : \A c \in Caps :
    LET v == View(fn, mode, c, Msg)
        w == View(fn, mode, MaxAn + 1, Msg)
    IN /\ Len(v.items) <= c
       /\ v.items = SubSeq(w.items, 1, Len(v.items))
       /\ (Len(v.items) < c => v.items = w.items)
       /\ v.st = w.st /\ v.host = w.host                 \* capacity influences nothing else
       /\ (mode = "host" => v.items = <<>>)

\* exactly the records of the function's type, in answer order (index formulation)
InvExactlyInOrder ==
  \A fn \in AllFns \ {"txt", "txt_ext", "soa"} :
    LET idx == MatchIdx(fn, Msg)
        big == MaxAn + 1
        v   == View(fn, IF fn \in AddrFns THEN "both" ELSE IF fn = "ptr" THEN "addr" ELSE "-", big, Msg)
        out == IF fn \in HostFns THEN (IF v.host.present = 1 THEN v.host.aliases ELSE <<>>)
               ELSE v.items
        Key(r) == CASE fn \in AddrFns -> r.a [] fn \in {"ns", "ptr", "mx", "srv"} -> r.t [] fn = "uri" -> r.uri
                    [] fn = "naptr" -> r.repl [] fn = "caa" -> r.val
        OutKey(o) == CASE fn \in AddrFns -> o.ip [] fn \in HostFns -> o [] fn \in {"mx", "srv"} -> o.host
                       [] fn = "uri" -> o.uri [] fn = "naptr" -> o.replacement [] fn = "caa" -> o.value
    IN /\ Len(out) = Cardinality(idx)
       /\ \E f \in [1..Len(out) -> idx] :
            /\ \A i, j \in 1..Len(out) : i < j => f[i] < f[j]
            /\ \A i \in 1..Len(out) : OutKey(out[i]) = Key(Msg.an[f[i]])

\* TXT: one item per character-string, record_start marks the first of each record
InvTxt ==
  LET s   == Match("txt", Msg)
      v   == View("txt", "-", 0, Msg).items
      x   == View("txt_ext", "-", 0, Msg).items
      tot == Cardinality({<<i, j>> \in (DOMAIN s) \X (1..8) : j <= Len(s[i].chunks)})
  IN /\ Len(v) = tot /\ Len(x) = tot
     /\ \A k \in DOMAIN v : v[k].txt = x[k].txt /\ v[k].length = x[k].length
     /\ Cardinality({k \in DOMAIN x : x[k].record_start = 1}) = Cardinality({i \in DOMAIN s : s[i].chunks # <<>>})
     /\ (x # <<>> => x[1].record_start = 1)

\* SOA: at most one, the first
InvSoa ==
  LET v == View("soa", "-", 0, Msg) IN
  /\ Len(v.items) <= 1
  /\ (MatchIdx("soa", Msg) # {} =>
        LET i == CHOOSE i \in MatchIdx("soa", Msg) : \A j \in MatchIdx("soa", Msg) : i <= j
        IN v.items = <<SoaItem(Msg.an[i])>>)

\* status: never a malformed-message status for a message the record parser accepts;
\* no-data exactly when there is nothing of the type (A/AAAA: and no alias)
InvStatus ==
  \A fn \in AllFns : \A mode \in Modes(fn) :
    LET v == View(fn, mode, MaxCap, Msg) IN
    /\ v.st \in {"SUCCESS", "ENODATA"}
    /\ v.st \notin Malformed
    /\ (fn \notin AddrFns => (v.st = "ENODATA" <=> MatchIdx(fn, Msg) = {}))
    /\ (fn \in AddrFns => (v.st = "ENODATA" <=> (MatchIdx(fn, Msg) = {} /\ Cnames(Msg) = <<>>)))
    /\ (v.st = "ENODATA" => v.items = <<>> /\ v.host.present = 0)
    /\ (fn \in ListFns /\ v.st = "SUCCESS" /\ fn \notin {"txt", "txt_ext"} => v.items # <<>>)

\* authority and additional records are never reported and influence nothing
InvAnswerOnly ==
  \A fn \in AllFns : \A mode \in Modes(fn) :
    View(fn, mode, MaxCap, Msg) = View(fn, mode, MaxCap, [Msg EXCEPT !.ns = <<>>, !.ar = <<>>])

\* address TTLs: never above the record's own TTL nor above any alias TTL, and one of them
InvTtlMin ==
  \A fn \in AddrFns :
    LET v == View(fn, "ttls", MaxAn + 1, Msg).items
        s == Match(fn, Msg)
        c == Cnames(Msg)
    IN \A i \in DOMAIN v :
         /\ v[i].ttl <= s[i].ttl
         /\ \A k \in DOMAIN c : v[i].ttl <= c[k].ttl
         /\ v[i].ttl \in {s[i].ttl} \cup {c[k].ttl : k \in DOMAIN c}

\* hostent: all addresses of the family (not clipped), h_name after following the aliases
InvHost ==
  \A fn \in AddrFns :
    LET v == View(fn, "both", 0, Msg) IN
    v.host.present = 1 =>
      /\ Len(v.host.addrs) = Cardinality(MatchIdx(fn, Msg))
      /\ v.host.names # {}
      /\ (Cnames(Msg) = <<>> => v.host.names = {Msg.q.name} /\ v.host.aliases = <<>>)
      /\ (RegularChain(Msg) =>
            /\ Cardinality(v.host.names) = 1
            /\ \A n \in v.host.names : \A i \in DOMAIN v.host.aliases : n # v.host.aliases[i]
            /\ v.host.aliases[1] = Msg.q.name)

EmitVector == Emit => PrintT(ToJson([k |-> "vec", fam |-> fam, msg |-> Msg, calls |-> Calls(fam)]))

=============================================================================
