\* thorough: <= 4 tokens / lines
SPECIFICATION Spec
CONSTANTS
  Kinds <- AllKinds
  MaxToks = 4
  Emit = TRUE
INVARIANTS InvFilesLineIndependent InvSettersInRange EmitScenario
CHECK_DEADLOCK FALSE
