\* thorough: <= 4 tokens / lines
SPECIFICATION Spec
CONSTANTS
  Kinds <- AllKinds
  MaxToks = 4
  NumMaxToks = 2
  Emit = TRUE
INVARIANTS InvFilesLineIndependent InvSettersInRange InvNumInRange EmitScenario
CHECK_DEADLOCK FALSE
