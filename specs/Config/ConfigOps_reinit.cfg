\* reinit points: 19 masks x value set 1 x 7 initial profiles, optional setter, one ares_reinit under each of the 7
\* profiles (observed), then stop or dup
SPECIFICATION Spec
CONSTANTS
  Stage = "reinit"
  MaskChoices <- MasksReinit
  ValChoices = {1}
  PortChoices = {"none"}
  SysChoices <- SysProfiles
  ServerLists <- ListsFew
  HostChoices <- HostsNone
  PlainInit = TRUE
  MaxReinit = 1
  Emit = TRUE
INVARIANTS UserWins UserWinsRotate DupEqFresh SaveInitFresh DupEqSettled CsvFixpoint MaskStable EmitScenario
CHECK_DEADLOCK FALSE
