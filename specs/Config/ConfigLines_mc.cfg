\* exhaustive: every resolv.conf of <= 3 lines over all classes; LineIndependent / InRange on the spec
SPECIFICATION Spec
CONSTANTS
  Alphabet <- Classes
  MaxLen = 3
  NssAlphabet <- NoClasses
  MaxNss = 0
  SvcAlphabet <- NoClasses
  MaxNetsvc = 0
  MaxSvc = 0
  LdSet <- LdNone
  RoSet <- RoNone
  Emit = FALSE
INVARIANTS TypeOK InvLineIndependent InvInRange InvChanInRange InvTwinChannel InvTwinReinit
CHECK_DEADLOCK FALSE
