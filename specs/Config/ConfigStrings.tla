--------------------------- MODULE ConfigStrings ---------------------------
(***************************************************************************)
(* C15, the other configuration texts: sortlist strings                    *)
(* (ares_set_sortlist), server lists (ares_set_servers_csv), the hosts     *)
(* file and the host-aliases file.  A text is a sequence of abstract       *)
(* tokens / lines; the specification says what the call may do:            *)
(*   - setters: all tokens valid -> SUCCESS and exactly the denoted list;  *)
(*     some token malformed -> an error and the channel unchanged (or, for *)
(*     a lenient parser, SUCCESS with the valid tokens only);              *)
(*   - files: junk lines change nothing: every lookup answers as for the   *)
(*     junk-free file.                                                     *)
(***************************************************************************)
EXTENDS Config, Json

CONSTANTS Kinds, MaxToks, NumMaxToks, Emit
VARIABLES kind, toks
vars == <<kind, toks>>

\* ---------------- sortlist strings
SortToks == {"s_cidr", "s_dotted", "s_nat", "s_v6", "s_empty", "s_badmask", "s_badaddr", "s_bin", "s_long"}
SortBad  == {"s_badmask", "s_badaddr", "s_bin", "s_long"}
SortEntry(t) == CASE t = "s_cidr" -> "10.0.0.0/8" [] t = "s_dotted" -> "130.155.160.0/20"
                  [] t = "s_nat" -> "130.155.0.0/16" [] t = "s_v6" -> "2001:db8::/32"
SortEntries(ts) == LET good == SelectSeq(ts, LAMBDA t : t \notin SortBad /\ t # "s_empty")
                   IN [k \in 1..Len(good) |-> SortEntry(good[k])]
SortExpect(ts) == [has_bad |-> \E k \in 1..Len(ts) : ts[k] \in SortBad, entries |-> SortEntries(ts)]

\* ---------------- server list strings
CsvToks == {"c_v4", "c_v4p", "c_v6", "c_v6p", "c_v6bare", "c_uri", "c_uri6", "c_ll", "c_dup", "c_empty",
            "c_badport", "c_badaddr", "c_badbr", "c_tls", "c_bin", "c_long", "c_badscope"}
\* c_badscope: link-local entry whose interface is unknown / over-long (classic and dns:// form): an error or ignored
CsvBad  == {"c_badport", "c_badaddr", "c_badbr", "c_tls", "c_bin", "c_long", "c_badscope"}
CsvDesc(t) == CASE t = "c_v4" -> Srv("10.0.0.1", 0, 0, "")      [] t = "c_v4p" -> Srv("10.0.0.2", 54, 54, "")
                [] t = "c_v6" -> Srv("2001:db8::1", 0, 0, "")   [] t = "c_v6p" -> Srv("2001:db8::2", 54, 54, "")
                [] t = "c_v6bare" -> Srv("2001:db8::3", 0, 0, "")
                [] t = "c_uri" -> Srv("10.0.0.3", 55, 56, "")   [] t = "c_uri6" -> Srv("2001:db8::4", 0, 0, "")
                [] t = "c_ll" -> Srv("fe80::1", 53, 53, "lo")   [] t = "c_dup" -> Srv("10.0.0.1", 53, 53, "")
CsvServers(ts) == LET good == SelectSeq(ts, LAMBDA t : t \notin CsvBad /\ t # "c_empty")
                  IN Resolve([k \in 1..Len(good) |-> CsvDesc(good[k])], 0, 0)
CsvExpect(ts) == [has_bad |-> \E k \in 1..Len(ts) : ts[k] \in CsvBad,
                  only_empty |-> \A k \in 1..Len(ts) : ts[k] = "c_empty",
                  servers |-> CsvServers(ts)]

\* ---------------- hosts file: address lists by name and family, in file order
HostToks == {"h_a", "h_a2", "h_b", "h_6", "h_g", "h_badip", "h_noname", "h_bin", "h_long", "h_comment", "h_binname"}
HostJunk == {"h_badip", "h_noname", "h_bin", "h_long", "h_comment", "h_binname"}
HostLine(t) == CASE t = "h_a"  -> [ip |-> "10.1.1.1", fam |-> 4, names |-> {"alpha"}]
                 [] t = "h_a2" -> [ip |-> "10.1.1.3", fam |-> 4, names |-> {"alpha"}]
                 [] t = "h_b"  -> [ip |-> "10.1.1.2", fam |-> 4, names |-> {"beta", "b2"}]
                 [] t = "h_6"  -> [ip |-> "2001:db8::5", fam |-> 6, names |-> {"alpha"}]
                 [] t = "h_g"  -> [ip |-> "10.1.1.4", fam |-> 4, names |-> {"gamma"}]     \* "# delta" is a comment
HostNames == {"alpha", "beta", "b2", "gamma", "delta", "omega", "zeta"}
HostAddrs(ts, n, fam) ==
  LET good == SelectSeq(ts, LAMBDA t : t \notin HostJunk)
      hit  == SelectSeq(good, LAMBDA t : n \in HostLine(t).names /\ HostLine(t).fam = fam)
  IN Dedup([k \in 1..Len(hit) |-> HostLine(hit[k]).ip], {})
HostExpect(ts) == [n \in HostNames |-> [v4 |-> HostAddrs(ts, n, 4), v6 |-> HostAddrs(ts, n, 6)]]

\* ---------------- host aliases: the first valid line for the name wins
AliasToks == {"a_alpha", "a_alpha2", "a_beta", "a_lone", "a_badfqdn", "a_bin", "a_long", "a_longname", "a_comment"}
AliasJunk == {"a_lone", "a_badfqdn", "a_bin", "a_long", "a_longname", "a_comment"}
AliasLine(t) == CASE t = "a_alpha" -> <<"alpha", "a.example.com">> [] t = "a_alpha2" -> <<"alpha", "other.example.com">>
                  [] t = "a_beta" -> <<"beta", "b.example.com">>
AliasNames == {"alpha", "beta", "gamma"}
AliasOf(ts, n) ==
  LET hit == SelectSeq(ts, LAMBDA t : t \notin AliasJunk /\ AliasLine(t)[1] = n)
  IN IF hit = <<>> THEN NoVal ELSE AliasLine(hit[1])[2]
AliasExpect(ts) == [n \in AliasNames |-> AliasOf(ts, n)]

(***************************************************************************)
(* Numeric extremes of the setters (ConfigNum.tla).  Three more kinds of   *)
(* text, whose tokens are GENERATED from the numerals and whose outcome is *)
(* COMPUTED from the rules:                                                *)
(*   csvnum   server lists: every nameserver form that carries a port x    *)
(*            every port numeral (token "uri4:123456")                     *)
(*   scope    server lists: link-local forms x interface names of every    *)
(*            length class (token "uri%qqqq...")                           *)
(*   sortnum  sortlist strings: address family x prefix numeral ("v4/033") *)
(* "ctx" is an ordinary valid token.  A token whose rule is "refused"      *)
(* makes the call fail and leave the channel unchanged, or (lenient        *)
(* parser) is skipped; a "..._or_refused" token may go either way, so a    *)
(* text has a SET of allowed outcomes (Alts).                              *)
(***************************************************************************)
NumKinds == {"csvnum", "scope", "sortnum"}

CsvNumPairs == NsForms \X PortNums
CsvNumName(f, n) == f \o ":" \o NumText(n)
CsvNumToks == {CsvNumName(p[1], p[2]) : p \in CsvNumPairs} \cup {"ctx"}
CsvNumTab == [t \in CsvNumToks \ {"ctx"} |-> CHOOSE p \in CsvNumPairs : CsvNumName(p[1], p[2]) = t]

ScopeForms == {"br", "bare", "uri"}
ScopeAddr(f) == CASE f = "br" -> "fe80::1" [] f = "bare" -> "fe80::2" [] f = "uri" -> "fe80::3"
ScopeText(f, nm) == CASE f = "br" -> "[fe80::1]:53%" \o nm [] f = "bare" -> "fe80::2%" \o nm
                      [] f = "uri" -> "dns://[fe80::3%" \o nm \o "]"
\* an interface id is a known name or "q*<k>" = the unknown name of k characters
ScopeIdOfLen(k) == "q*" \o ToString(k)
ScopeIds == KnownIfaces \cup {ScopeIdOfLen(k) : k \in ScopeLens}
ScopeIface(id) == IF id \in KnownIfaces THEN id ELSE UnknownIface(CHOOSE k \in ScopeLens : ScopeIdOfLen(k) = id)
ScopePairs == ScopeForms \X ScopeIds
ScopeName(f, id) == f \o "%" \o id
ScopeToks == {ScopeName(p[1], p[2]) : p \in ScopePairs} \cup {"ctx"}
ScopeTab == [t \in ScopeToks \ {"ctx"} |-> CHOOSE p \in ScopePairs : ScopeName(p[1], p[2]) = t]

SortNumAll == UNION {{<<f, n>> : n \in MaskNums(f)} : f \in SortFams}
SortNumTokName(f, n) == f \o "/" \o NumText(n)
SortNumToks == {SortNumTokName(p[1], p[2]) : p \in SortNumAll} \cup {"ctx"}
SortNumTokTab == [t \in SortNumToks \ {"ctx"} |-> CHOOSE p \in SortNumAll : SortNumTokName(p[1], p[2]) = t]

NumRule(k, t) ==
  IF t = "ctx" THEN "value"
  ELSE CASE k = "csvnum"  -> PortRule(CsvNumTab[t][2])
         [] k = "scope"   -> ScopeRule(ScopeIface(ScopeTab[t][2]))
         [] k = "sortnum" -> MaskRule(SortNumTokTab[t][1], SortNumTokTab[t][2])
\* the concrete text of a token
NumTokText(k, t) ==
  CASE k = "csvnum"  -> IF t = "ctx" THEN "10.0.1.9" ELSE NsFormText(CsvNumTab[t][1], NumText(CsvNumTab[t][2]))
    [] k = "scope"   -> IF t = "ctx" THEN "10.0.1.9" ELSE ScopeText(ScopeTab[t][1], ScopeIface(ScopeTab[t][2]))
    [] k = "sortnum" -> IF t = "ctx" THEN "11.0.0.0/8"
                        ELSE SortNumAddr(SortNumTokTab[t][1]) \o "/" \o NumText(SortNumTokTab[t][2])
\* what an accepted token contributes (server descriptor / sortlist entry as it reads back)
NumTokEntry(k, t) ==
  CASE k = "csvnum"  -> IF t = "ctx" THEN Srv("10.0.1.9", 0, 0, "") ELSE NsFormDesc(CsvNumTab[t][1], CsvNumTab[t][2].v)
    [] k = "scope"   -> IF t = "ctx" THEN Srv("10.0.1.9", 0, 0, "") ELSE Srv(ScopeAddr(ScopeTab[t][1]), 0, 0, ScopeIface(ScopeTab[t][2]))
    [] k = "sortnum" -> IF t = "ctx" THEN "11.0.0.0/8" ELSE SortNumEntry(SortNumTokTab[t][1], SortNumTokTab[t][2])

\* the tokens at the positions in keep, in order
SubSeqAt(ts, keep) == LET ix  == [j \in 1..Len(ts) |-> <<j, ts[j]>>]
                          sel == SelectSeq(ix, LAMBDA p : p[1] \in keep)
                      IN [j \in 1..Len(sel) |-> sel[j][2]]
NumResult(k, ts) == LET es == [j \in 1..Len(ts) |-> NumTokEntry(k, ts[j])]
                    IN IF k = "sortnum" THEN es ELSE Resolve(es, 0, 0)
\* allowed outcomes: refused = some token is (taken as) refused: an error and no change, or the others only
NumAlts(k, ts) ==
  LET idx == 1..Len(ts)
      R == {j \in idx : NumRule(k, ts[j]) = "refused"}
      E == {j \in idx : NumRule(k, ts[j]) \in {"value_or_refused", "default_or_refused"}}
  IN {[refused |-> (R \cup D) # {}, result |-> NumResult(k, SubSeqAt(ts, idx \ (R \cup D)))] : D \in SUBSET E}

Alphabet(k) == CASE k = "sortlist" -> SortToks [] k = "csv" -> CsvToks [] k = "hosts" -> HostToks
                 [] k = "aliases" -> AliasToks
                 [] k = "csvnum" -> CsvNumToks [] k = "scope" -> ScopeToks [] k = "sortnum" -> SortNumToks
JunkOf(k) == CASE k = "sortlist" -> SortBad [] k = "csv" -> CsvBad [] k = "hosts" -> HostJunk [] k = "aliases" -> AliasJunk
               [] k \in NumKinds -> {t \in Alphabet(k) : NumRule(k, t) = "refused"}
Clean(k, ts) == SelectSeq(ts, LAMBDA t : t \notin JunkOf(k))

Init == kind \in Kinds /\ toks = <<>>
Next == /\ Len(toks) < (IF kind \in NumKinds THEN NumMaxToks ELSE MaxToks)
        /\ \E t \in Alphabet(kind) : toks' = Append(toks, t)
        /\ UNCHANGED kind
Spec == Init /\ [][Next]_vars

AllKinds == {"sortlist", "csv", "hosts", "aliases"} \cup NumKinds

\* junk lines of the two files are invisible; malformed tokens never contribute an entry
InvFilesLineIndependent ==
  /\ kind = "hosts" => HostExpect(toks) = HostExpect(Clean(kind, toks))
  /\ kind = "aliases" => AliasExpect(toks) = AliasExpect(Clean(kind, toks))
InvSettersInRange ==
  /\ kind = "sortlist" => SortExpect(toks).entries = SortExpect(Clean(kind, toks)).entries
  /\ kind = "csv" => /\ CsvExpect(toks).servers = CsvExpect(Clean(kind, toks)).servers
                     /\ \A k \in 1..Len(CsvExpect(toks).servers) :
                          LET s == CsvExpect(toks).servers[k] IN s.u \in 1..65535 /\ s.t \in 1..65535

\* numeric kinds: a refused numeral never contributes an entry (the outcomes are those of the text without the
\* refused tokens); every port of every allowed outcome is a port, every prefix length fits the family
InvNumInRange ==
  kind \in NumKinds =>
    /\ {a.result : a \in NumAlts(kind, toks)} = {a.result : a \in NumAlts(kind, Clean(kind, toks))}
    /\ \A a \in NumAlts(kind, toks) :
         /\ kind # "sortnum" => \A j \in 1..Len(a.result) :
                                  /\ a.result[j].u \in 1..MaxPort /\ a.result[j].t \in 1..MaxPort
                                  /\ IsLinkLocal(a.result[j].a) => Len(a.result[j].i) \in 1..MaxIface
         /\ a.refused = FALSE => Len(a.result) > 0 \/ toks = <<>>

\* the address a token is about (to name the token that an observation does not agree with)
NumTokAddr(k, t) ==
  IF t = "ctx" THEN (IF k = "sortnum" THEN "11.0.0.0" ELSE "10.0.1.9")
  ELSE CASE k = "csvnum" -> NsFormAddr(CsvNumTab[t][1]) [] k = "scope" -> ScopeAddr(ScopeTab[t][1])
         [] k = "sortnum" -> SortNumAddr(SortNumTokTab[t][1])

EmitNum == PrintT(ToJson([kind |-> "c15s", what |-> kind, toks |-> toks,
                          texts |-> [j \in 1..Len(toks) |-> NumTokText(kind, toks[j])],
                          rules |-> [j \in 1..Len(toks) |-> NumRule(kind, toks[j])],
                          addrs |-> [j \in 1..Len(toks) |-> NumTokAddr(kind, toks[j])],
                          alts |-> NumAlts(kind, toks)]))

EmitScenario ==
  Emit => IF kind \in NumKinds THEN EmitNum ELSE PrintT(ToJson([kind |-> "c15s", what |-> kind, toks |-> toks, clean |-> Clean(kind, toks),
                         expect |-> CASE kind = "sortlist" -> SortExpect(toks) [] kind = "csv" -> CsvExpect(toks)
                                      [] kind = "hosts" -> HostExpect(toks) [] kind = "aliases" -> AliasExpect(toks)]))
=============================================================================
