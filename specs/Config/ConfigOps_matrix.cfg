\* init matrix: 34 option masks x 3 value sets x 2 port options x 7 system profiles x 2 hostnames (+ ares_init()),
\* optional local-binding / server-list setter, then dup | save+init | csv round trip
SPECIFICATION Spec
CONSTANTS
  Stage = "matrix"
  MaskChoices <- MasksQuick
  ValChoices = {1, 2, 3}
  PortChoices = {"none", "differ"}
  SysChoices <- SysProfiles
  ServerLists <- NoLists
  HostChoices <- HostsBoth
  PlainInit = TRUE
  MaxReinit = 0
  Emit = TRUE
INVARIANTS UserWins UserWinsRotate DupEqFresh SaveInitFresh DupEqSettled CsvFixpoint MaskStable EmitScenario
CHECK_DEADLOCK FALSE
