\* numeric extremes: every numeric class (nameserver forms x port numerals, options x numerals, sortlist x prefix
\* numerals; ConfigNum.tla) alone, before and after each of four ordinary lines (<= 2 lines, at most one numeric)
SPECIFICATION Spec
CONSTANTS
  Alphabet <- NumAlphabet
  MaxLen = 2
  NssAlphabet <- NoClasses
  MaxNss = 0
  SvcAlphabet <- NoClasses
  MaxNetsvc = 0
  MaxSvc = 0
  LdSet <- LdNone
  RoSet <- RoNone
  Emit = TRUE
INVARIANTS TypeOK InvLineIndependent InvInRange InvChanInRange InvTwinChannel InvTwinReinit EmitScenario
CHECK_DEADLOCK FALSE
