\* server sets: every list of <= 2 distinct servers out of 9 (v4/v6/link-local x default/equal/differing ports)
\* x 4 port options x {no flags, FLAGS} x 2 value sets, then dup | save+init | csv round trip
SPECIFICATION Spec
CONSTANTS
  Stage = "servers"
  MaskChoices <- MasksServers
  ValChoices = {1, 2}
  PortChoices = {"none", "equal", "differ", "udponly"}
  SysChoices = {"P_basic"}
  ServerLists <- ListsQuick
  HostChoices <- HostsNone
  PlainInit = FALSE
  MaxReinit = 0
  Emit = TRUE
INVARIANTS UserWins UserWinsRotate DupEqFresh SaveInitFresh DupEqSettled CsvFixpoint MaskStable EmitScenario
CHECK_DEADLOCK FALSE
