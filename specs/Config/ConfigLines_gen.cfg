\* quick tier: every resolv.conf of <= 3 lines over all 47 line classes, checked and printed
SPECIFICATION Spec
CONSTANTS
  Alphabet <- Classes
  MaxLen = 3
  NssAlphabet <- NoClasses
  MaxNss = 0
  SvcAlphabet <- NoClasses
  MaxNetsvc = 0
  MaxSvc = 0
  LdSet <- LdNone
  RoSet <- RoNone
  Emit = TRUE
INVARIANTS TypeOK InvLineIndependent InvInRange InvChanInRange InvTwinChannel InvTwinReinit EmitScenario
CHECK_DEADLOCK FALSE
