\* thorough tier: every resolv.conf of <= 4 lines over the 25-class MidAlphabet
SPECIFICATION Spec
CONSTANTS
  Alphabet <- MidAlphabet
  MaxLen = 4
  NssAlphabet <- NoClasses
  MaxNss = 0
  SvcAlphabet <- NoClasses
  MaxNetsvc = 0
  MaxSvc = 0
  LdSet <- LdNone
  RoSet <- RoNone
  Emit = TRUE
INVARIANTS TypeOK InvLineIndependent InvInRange InvChanInRange InvTwinChannel InvTwinReinit EmitScenario
CHECK_DEADLOCK FALSE
