---------------------------- MODULE ConfigTrace ----------------------------
(***************************************************************************)
(* Implementation -> specification: validates effective configurations     *)
(* recorded by harness/cfg (ndjson, one event per line) against Config.tla.*)
(* An event is                                                              *)
(*   {"e": "init" | "reinit", "resolv": [...], "nss": [...], "netsvc":      *)
(*    [...], "svc": [...], "ld": "...", "ro": "...", "obs": {flags, timeout,*)
(*    tries, ndots, rotate, servers, domains, lookups, sortlist}}           *)
(* "init": a fresh channel initialised under the given configuration text;  *)
(* "reinit": the channel initialised from BaseLines and re-initialised      *)
(* under it.  The run is accepted iff every event is explained             *)
(* (POSTCONDITION Accepted).                                               *)
(***************************************************************************)
EXTENDS Config, Json, IOUtils

Tr == ndJsonDeserialize(IOEnv.TRACE)

VARIABLE l

BaseLines == <<"ns_b", "search_b", "opt_ndots2">>
BaseChan  == InitChan(<<>>, {}, Sys(OnlyResolv(BaseLines), NoEnv), NoVal)

ChanOf(ev) ==
  LET files == [resolv |-> ev.resolv, nss |-> ev.nss, netsvc |-> ev.netsvc, svc |-> ev.svc]
      env   == [localdomain |-> ev.ld, res_options |-> ev.ro]
  IN IF ev.e = "init" THEN InitChan(<<>>, {}, Sys(files, env), NoVal) ELSE Reinit(BaseChan, Sys(files, env))

InAllowed(v, S) == v \in S \/ (AnyPos \in S /\ v >= 1)
SetOf(s) == {s[k] : k \in 1..Len(s)}
NoLL(servers) == SelectSeq(servers, LAMBDA s : ~IsLinkLocal(s.a))
Fallback(ev) == IF ev.e = "init" THEN <<Srv("127.0.0.1", 53, 53, "")>> ELSE BaseChan.servers

Explained(ev) ==
  LET c == ChanOf(ev)
      o == ev.obs
  IN /\ SetOf(o.flags) \in c.flags
     /\ InAllowed(o.timeout, c.timeout) /\ InAllowed(o.tries, c.tries) /\ InAllowed(o.ndots, c.ndots)
     /\ o.rotate = c.rotate
     /\ o.domains = c.domains /\ o.lookups = c.lookups /\ o.sortlist = c.sortlist
     /\ o.servers = c.servers

Init == l = 1
Next == l <= Len(Tr) /\ Explained(Tr[l]) /\ l' = l + 1
Spec == Init /\ [][Next]_l

Accepted == TLCGet("stats").diameter - 1 = Len(Tr)
=============================================================================
