------------------------------- MODULE Config -------------------------------
(***************************************************************************)
(* Configuration of a c-ares channel as data (properties C15 and C16).     *)
(*                                                                         *)
(*  - a resolv.conf is a sequence of abstract LINE CLASSES; Sys folds a    *)
(*    sequence of lines (plus the other files and the environment) into    *)
(*    an abstract system configuration;                                    *)
(*  - a channel is a record; ByOptions / ApplySys / Defaults build it the  *)
(*    way ares_init_options documents, ApplySys being guarded field by     *)
(*    field by the option mask;                                            *)
(*  - Save / InitFrom / Dup / SetServers / Reinit are functions over       *)
(*    channels (the state machines that use them are ConfigLines.tla for   *)
(*    C15 and ConfigOps.tla for C16).                                      *)
(*                                                                         *)
(* Scalars that the documentation does not pin down to one value are       *)
(* carried as SETS OF ALLOWED VALUES (field names ndots, tries, timeout);  *)
(* a deterministic value is a singleton.  AnyPos stands for "some positive *)
(* number" (numeric extremes: the text only demands a value in range).     *)
(***************************************************************************)
EXTENDS Naturals, Integers, Sequences, FiniteSets, TLC, ConfigNum

NoVal  == "unset"
NoSeq  == <<"unset">>              \* "not configured" for sequence-valued fields (TLC compares like with like)
AnyPos == -1                       \* some value >= 1 that the documents do not fix

Contains(s, x) == \E i \in 1..Len(s) : s[i] = x

RECURSIVE FoldL(_, _, _)
FoldL(Op(_, _), acc, s) == IF s = <<>> THEN acc ELSE FoldL(Op, Op(acc, Head(s)), Tail(s))

RECURSIVE Dedup(_, _)
Dedup(s, seen) ==          \* keep the first occurrence of every element
  IF s = <<>> THEN <<>>
  ELSE IF Head(s) \in seen THEN Dedup(Tail(s), seen)
       ELSE <<Head(s)>> \o Dedup(Tail(s), seen \cup {Head(s)})

(***************************************************************************)
(* Servers.  A descriptor is what a text form / API node says: address,    *)
(* udp and tcp port (0 = not given) and link-local interface.  A channel   *)
(* holds RESOLVED servers: ports filled from the channel's port options,   *)
(* then 53.                                                                *)
(***************************************************************************)
Srv(a, u, t, i) == [a |-> a, u |-> u, t |-> t, i |-> i]

IsLinkLocal(a) == a \in {"fe80::1", "fe80::2", "fe80::3", "fe80::4", "fe80::5", "fe80::6"}
IsBlacklisted(a) == a \in {"fec0::1"}
\* interfaces the harness promises: the real loopback and (virtual interface table installed through
\* ares_set_socket_functions_ex) one whose name has the maximum legal length of 15 characters
ValidIface(i) == i \in {"lo", "verylongiface01", "vif2"}

Port(p, chanport) == IF p # 0 THEN p ELSE IF chanport # 0 THEN chanport ELSE 53

ResolveOne(d, up, tp) == Srv(d.a, Port(d.u, up), Port(d.t, tp), IF IsLinkLocal(d.a) THEN d.i ELSE "")

Acceptable(d) == /\ ~IsBlacklisted(d.a)
                 /\ IsLinkLocal(d.a) => ValidIface(d.i)

SameServer(x, y) == x.a = y.a /\ x.u = y.u /\ x.t = y.t      \* the interface is not part of the identity

RECURSIVE DedupSrv(_, _)
DedupSrv(s, acc) ==
  IF s = <<>> THEN acc
  ELSE IF \E k \in 1..Len(acc) : SameServer(acc[k], Head(s)) THEN DedupSrv(Tail(s), acc)
       ELSE DedupSrv(Tail(s), Append(acc, Head(s)))

\* descriptors -> the ordered server list of a channel with port options up/tp
Resolve(descs, up, tp) ==
  LET ok == SelectSeq(descs, Acceptable)
      rs == [k \in 1..Len(ok) |-> ResolveOne(ok[k], up, tp)]
  IN DedupSrv(rs, <<>>)

(***************************************************************************)
(* resolv.conf line classes.  kind "valid": a directive that must take     *)
(* effect; "junk": unrecognised / malformed, must change nothing;          *)
(* "extreme": numeric extreme, either ignored or brought into range.       *)
(* LineText is the reference text (the harness binds every junk / extreme  *)
(* class to several further concrete strings).                             *)
(***************************************************************************)
NsClasses == {"ns_a", "ns_b", "ns_6", "ns_ap", "ns_6p", "ns_ll", "ns_uri_d", "ns_uri_6"}
NsDesc(c) == CASE c = "ns_a"  -> Srv("10.0.0.1", 0, 0, "")
               [] c = "ns_b"  -> Srv("10.0.0.2", 0, 0, "")
               [] c = "ns_6"  -> Srv("2001:db8::1", 0, 0, "")
               [] c = "ns_ap" -> Srv("10.0.0.1", 5353, 5353, "")
               [] c = "ns_6p" -> Srv("2001:db8::2", 5353, 5353, "")
               [] c = "ns_ll" -> Srv("fe80::1", 0, 0, "lo")
               \* the dns:// URI form (ares_set_servers_csv(3)), also accepted on nameserver lines
               [] c = "ns_uri_d" -> Srv("10.0.0.3", 55, 56, "")
               [] c = "ns_uri_6" -> Srv("2001:db8::4", 5353, 5353, "")

ValidClasses ==
  NsClasses \cup
  {"dom_a", "dom_two", "search_b", "search_cd", "search_many", "search_dupcase",
   "sort_1", "sort_2", "sort_6",
   "opt_ndots2", "opt_ndots0", "opt_timeout3", "opt_retrans4", "opt_attempts2", "opt_retry4",
   "opt_rotate", "opt_usevc", "opt_multi",
   "lookup_fb", "lookup_bf", "lookup_b"}

JunkClasses ==
  {"ns_bad", "ns_uri_bad", "search_empty", "sort_bad", "opt_unknown", "opt_zero", "lookup_junk",
   "comment_hash", "comment_semi", "blank", "junk_binary", "junk_long", "junk_keyword", "junk_lone"}

ExtremeClasses == {"opt_ndots_weird", "opt_ndots_big", "opt_timeout_huge", "opt_tries_huge"}

Classes == ValidClasses \cup JunkClasses \cup ExtremeClasses

(***************************************************************************)
(* Numeric line classes: one class per (form, numeral) / (option key,      *)
(* numeral) / (address family, numeral); the numerals and the rules are    *)
(* those of ConfigNum.tla.  The class NAME carries the form and the text   *)
(* of the numeral (ns_num_uri4_123456, opt_num_ndots_16, sort_num_v4_33);  *)
(* kind, effect and line text are COMPUTED from the rule, never listed.    *)
(* Only numerals with a definite outcome appear on resolv.conf lines (the  *)
(* "..._or_refused" ones are exercised through ares_set_servers_csv /      *)
(* ares_set_sortlist, ConfigStrings.tla, where alternatives are allowed).  *)
(***************************************************************************)
\* nameserver forms that carry a port; one address per form
NsForms == {"v4", "v6", "uri4", "uri6", "tcp"}
NsFormAddr(f) == CASE f = "v4" -> "10.0.1.1" [] f = "v6" -> "2001:db8:1::1" [] f = "uri4" -> "10.0.1.2"
                   [] f = "uri6" -> "2001:db8:1::2" [] f = "tcp" -> "10.0.1.3"
\* the server entry as text, t = text of the numeral
NsFormText(f, t) == CASE f = "v4"   -> "10.0.1.1:" \o t
                      [] f = "v6"   -> "[2001:db8:1::1]:" \o t
                      [] f = "uri4" -> "dns://10.0.1.2:" \o t
                      [] f = "uri6" -> "dns://[2001:db8:1::2]:" \o t
                      [] f = "tcp"  -> "dns://10.0.1.3:55?tcpport=" \o t
\* what the entry denotes when its numeral is taken as the port p (0 = the default port)
NsFormDesc(f, p) == IF f = "tcp" THEN Srv(NsFormAddr(f), 55, p, "") ELSE Srv(NsFormAddr(f), p, p, "")

DefinitePorts == {n \in PortNums : PortRule(n) \in {"value", "refused"}}
NsNumName(f, n) == "ns_num_" \o f \o "_" \o NumText(n)
NsNumClasses == {NsNumName(f, n) : f \in NsForms, n \in DefinitePorts}
NsNumTab == [c \in NsNumClasses |-> CHOOSE p \in NsForms \X DefinitePorts : NsNumName(p[1], p[2]) = c]

OptNumName(k, n) == "opt_num_" \o k \o "_" \o NumText(n)
OptNumPairs == UNION {{<<k, n>> : n \in OptNums(k)} : k \in OptKeys}
OptNumClasses == {OptNumName(p[1], p[2]) : p \in OptNumPairs}
OptNumTab == [c \in OptNumClasses |-> CHOOSE p \in OptNumPairs : OptNumName(p[1], p[2]) = c]

SortFams == {"v4", "v6"}
SortNumAddr(f) == IF f = "v4" THEN "10.1.0.0" ELSE "2001:db8:1::"
SortNumEntry(f, n) == SortNumAddr(f) \o "/" \o ToString(n.v)          \* how the entry reads back
SortNumName(f, n) == "sort_num_" \o f \o "_" \o NumText(n)
SortNumPairs == UNION {{<<f, n>> : n \in {m \in MaskNums(f) : MaskRule(f, m) \in {"value", "refused"}}} : f \in SortFams}
SortNumClasses == {SortNumName(p[1], p[2]) : p \in SortNumPairs}
SortNumTab == [c \in SortNumClasses |-> CHOOSE p \in SortNumPairs : SortNumName(p[1], p[2]) = c]

NumClasses == NsNumClasses \cup OptNumClasses \cup SortNumClasses
AllClasses == Classes \cup NumClasses

NumKind(c) ==
  IF c \in NsNumClasses THEN (IF PortRule(NsNumTab[c][2]) = "value" THEN "valid" ELSE "junk")
  ELSE IF c \in SortNumClasses THEN (IF MaskRule(SortNumTab[c][1], SortNumTab[c][2]) = "value" THEN "valid" ELSE "junk")
  ELSE LET r == OptRule(OptNumTab[c][1], OptNumTab[c][2])
       IN IF r = "value" THEN "valid" ELSE IF r = "ignored" THEN "junk" ELSE "extreme"

Kind(c) == IF c \in JunkClasses THEN "junk" ELSE IF c \in ExtremeClasses THEN "extreme"
           ELSE IF c \in NumClasses THEN NumKind(c) ELSE "valid"

NumLineText(c) ==
  IF c \in NsNumClasses THEN "nameserver " \o NsFormText(NsNumTab[c][1], NumText(NsNumTab[c][2]))
  ELSE IF c \in SortNumClasses THEN "sortlist " \o SortNumAddr(SortNumTab[c][1]) \o "/" \o NumText(SortNumTab[c][2])
  ELSE "options " \o OptNumTab[c][1] \o ":" \o NumText(OptNumTab[c][2])

LineText(c) ==
  CASE c \in NumClasses -> NumLineText(c)
    [] c = "ns_a" -> "nameserver 10.0.0.1"         [] c = "ns_b" -> "nameserver 10.0.0.2"
    [] c = "ns_6" -> "nameserver 2001:db8::1"      [] c = "ns_ap" -> "nameserver 10.0.0.1:5353"
    [] c = "ns_6p" -> "nameserver [2001:db8::2]:5353"
    [] c = "ns_ll" -> "nameserver fe80::1%lo"      [] c = "ns_bad" -> "nameserver 999.1.1.1"
    [] c = "ns_uri_d" -> "nameserver dns://10.0.0.3:55?tcpport=56"
    [] c = "ns_uri_6" -> "nameserver dns://[2001:db8::4]:5353"
    [] c = "ns_uri_bad" -> "nameserver dns://[fe80::1%<over-long scope>]"
    [] c = "dom_a" -> "domain a.example"           [] c = "dom_two" -> "domain e.example f.example"
    [] c = "search_b" -> "search b.example"        [] c = "search_cd" -> "search c.example d.example"
    [] c = "search_many" -> "search s1.example s2.example s3.example s4.example s5.example s6.example s7.example s8.example"
    [] c = "search_dupcase" -> "search g.example G.EXAMPLE h.example"
    [] c = "search_empty" -> "search ,"
    [] c = "sort_1" -> "sortlist 10.0.0.0/8"
    [] c = "sort_2" -> "sortlist 130.155.160.0/255.255.240.0 130.155.0.0"
    [] c = "sort_6" -> "sortlist 2001:db8::/32 200.1.1.1"
    [] c = "sort_bad" -> "sortlist 10.0.0.0/33"
    [] c = "opt_ndots2" -> "options ndots:2"       [] c = "opt_ndots0" -> "options ndots:0"
    [] c = "opt_timeout3" -> "options timeout:3"   [] c = "opt_retrans4" -> "options retrans:4"
    [] c = "opt_attempts2" -> "options attempts:2" [] c = "opt_retry4" -> "options retry:4"
    [] c = "opt_rotate" -> "options rotate"        [] c = "opt_usevc" -> "options use-vc"
    [] c = "opt_multi" -> "options ndots:3 timeout:5 attempts:4 rotate"
    [] c = "opt_unknown" -> "options edns0 foo:3 inet6"
    [] c = "opt_zero" -> "options timeout:0"
    [] c = "opt_ndots_weird" -> "options ndots:abc"
    [] c = "opt_ndots_big" -> "options ndots:99999999999"
    [] c = "opt_timeout_huge" -> "options timeout:99999999999"
    [] c = "opt_tries_huge" -> "options attempts:99999999999"
    [] c = "lookup_fb" -> "lookup file bind"       [] c = "lookup_bf" -> "lookup bind file"
    [] c = "lookup_b" -> "hostresorder bind"       [] c = "lookup_junk" -> "lookup foo bar"
    [] c = "comment_hash" -> "# nameserver 10.9.9.9" [] c = "comment_semi" -> "; search x.example"
    [] c = "blank" -> ""                           [] c = "junk_binary" -> "<binary bytes>"
    [] c = "junk_long" -> "<10 kB token>"          [] c = "junk_keyword" -> "bogus value"
    [] c = "junk_lone" -> "nameserver"

(***************************************************************************)
(* The abstract system configuration and the effect of one line on it.     *)
(***************************************************************************)
EmptySys == [servers |-> <<>>, domains |-> NoSeq, lookups |-> NoVal, sortlist |-> NoSeq,
             ndots |-> {1}, tries |-> {0}, timeout |-> {0}, rotate |-> FALSE, usevc |-> FALSE]

\* one "options" token
OptNdots(s, n)   == [s EXCEPT !.ndots = {n}]
OptTimeout(s, n) == [s EXCEPT !.timeout = {n * 1000}]
OptTries(s, n)   == [s EXCEPT !.tries = {n}]

\* a numeric class: the rule of ConfigNum.tla decides
NumEff(s, c) ==
  IF c \in NsNumClasses
  THEN LET f == NsNumTab[c][1]  n == NsNumTab[c][2]
       IN IF PortRule(n) = "value" THEN [s EXCEPT !.servers = Append(@, NsFormDesc(f, n.v))] ELSE s
  ELSE IF c \in SortNumClasses
  THEN LET f == SortNumTab[c][1]  n == SortNumTab[c][2]
       IN IF MaskRule(f, n) = "value" THEN [s EXCEPT !.sortlist = <<SortNumEntry(f, n)>>] ELSE s
  ELSE LET k == OptNumTab[c][1]  n == OptNumTab[c][2]  r == OptRule(k, n)
       IN CASE r = "ignored" -> s
            [] r = "value"   -> (CASE k = "ndots" -> OptNdots(s, n.v) [] k = "timeout" -> OptTimeout(s, n.v)
                                   [] k = "attempts" -> OptTries(s, n.v))
            [] r = "extreme" -> (CASE k = "ndots" -> [s EXCEPT !.ndots = @ \cup (0..15)]
                                   [] k = "timeout" -> [s EXCEPT !.timeout = @ \cup {AnyPos}]
                                   [] k = "attempts" -> [s EXCEPT !.tries = @ \cup {AnyPos}])

Eff(s, c) ==
  CASE c \in NumClasses      -> NumEff(s, c)
    [] c \in NsClasses       -> [s EXCEPT !.servers = Append(@, NsDesc(c))]
    \* "domain" is legacy: it never replaces a list that an earlier search/domain line set
    [] c = "dom_a"           -> IF s.domains = NoSeq THEN [s EXCEPT !.domains = <<"a.example">>] ELSE s
    [] c = "dom_two"         -> IF s.domains = NoSeq THEN [s EXCEPT !.domains = <<"e.example">>] ELSE s
    \* "search": the last one wins; duplicates (case-insensitive) are dropped; no cap on the count
    [] c = "search_b"        -> [s EXCEPT !.domains = <<"b.example">>]
    [] c = "search_cd"       -> [s EXCEPT !.domains = <<"c.example", "d.example">>]
    [] c = "search_many"     -> [s EXCEPT !.domains = <<"s1.example", "s2.example", "s3.example", "s4.example",
                                                       "s5.example", "s6.example", "s7.example", "s8.example">>]
    [] c = "search_dupcase"  -> [s EXCEPT !.domains = <<"g.example", "h.example">>]
    \* sortlist: the last valid line wins; natural masks when none is given
    [] c = "sort_1"          -> [s EXCEPT !.sortlist = <<"10.0.0.0/8">>]
    [] c = "sort_2"          -> [s EXCEPT !.sortlist = <<"130.155.160.0/20", "130.155.0.0/16">>]
    [] c = "sort_6"          -> [s EXCEPT !.sortlist = <<"2001:db8::/32", "200.1.1.1/24">>]
    [] c = "opt_ndots2"      -> OptNdots(s, 2)
    [] c = "opt_ndots0"      -> OptNdots(s, 0)
    [] c = "opt_timeout3"    -> OptTimeout(s, 3)
    [] c = "opt_retrans4"    -> OptTimeout(s, 4)
    [] c = "opt_attempts2"   -> OptTries(s, 2)
    [] c = "opt_retry4"      -> OptTries(s, 4)
    [] c = "opt_rotate"      -> [s EXCEPT !.rotate = TRUE]
    [] c = "opt_usevc"       -> [s EXCEPT !.usevc = TRUE]
    [] c = "opt_multi"       -> [OptTries(OptTimeout(OptNdots(s, 3), 5), 4) EXCEPT !.rotate = TRUE]
    [] c = "lookup_fb"       -> [s EXCEPT !.lookups = "fb"]
    [] c = "lookup_bf"       -> [s EXCEPT !.lookups = "bf"]
    [] c = "lookup_b"        -> [s EXCEPT !.lookups = "b"]
    \* numeric extremes: ignored, or brought into the documented range
    [] c \in {"opt_ndots_weird", "opt_ndots_big"} -> [s EXCEPT !.ndots = @ \cup (0..15)]
    [] c = "opt_timeout_huge" -> [s EXCEPT !.timeout = @ \cup {AnyPos}]
    [] c = "opt_tries_huge"  -> [s EXCEPT !.tries = @ \cup {AnyPos}]
    \* junk changes nothing
    [] OTHER                 -> s

SysLines(s0, lines) == FoldL(Eff, s0, lines)

NotJunk(c) == Kind(c) # "junk"
NoJunk(lines) == SelectSeq(lines, NotJunk)

(***************************************************************************)
(* The other sources.  nsswitch.conf / netsvc.conf / svc.conf only carry   *)
(* the lookup order; each file is read after resolv.conf, the last valid   *)
(* line of the last file wins.  LOCALDOMAIN replaces the search list by    *)
(* its first domain, RES_OPTIONS is an options line; both override files.  *)
(***************************************************************************)
NssClasses == {"nss_fb", "nss_bf", "nss_b", "nss_f", "nss_mdns_b", "nss_other_db", "nss_unknown_only",
               "nss_comment", "nss_junk_binary", "nss_junk_long", "nss_nocolon", "nss_empty_val"}
NssJunk    == {"nss_other_db", "nss_unknown_only", "nss_comment", "nss_junk_binary", "nss_junk_long",
               "nss_nocolon", "nss_empty_val"}
NssEff(s, c) == CASE c = "nss_fb" -> [s EXCEPT !.lookups = "fb"]
                  [] c = "nss_bf" -> [s EXCEPT !.lookups = "bf"]
                  [] c \in {"nss_b", "nss_mdns_b"} -> [s EXCEPT !.lookups = "b"]
                  [] c = "nss_f"  -> [s EXCEPT !.lookups = "f"]
                  [] OTHER -> s

SvcClasses == {"svc_fb", "svc_bf", "svc_b", "svc_other_db", "svc_unknown_only", "svc_comment",
               "svc_junk_binary", "svc_noeq"}
SvcJunk    == {"svc_other_db", "svc_unknown_only", "svc_comment", "svc_junk_binary", "svc_noeq"}
SvcEff(s, c) == CASE c = "svc_fb" -> [s EXCEPT !.lookups = "fb"]
                  [] c = "svc_bf" -> [s EXCEPT !.lookups = "bf"]
                  [] c = "svc_b"  -> [s EXCEPT !.lookups = "b"]
                  [] OTHER -> s

LocalDomainClasses == {NoVal, "ld_one", "ld_two", "ld_empty", "ld_binary"}
LdEff(s, c) == CASE c = "ld_one" -> [s EXCEPT !.domains = <<"l1.example">>]
                 [] c = "ld_two" -> [s EXCEPT !.domains = <<"l1.example">>]     \* only the first one is taken
                 [] OTHER -> s                                                  \* unset, "," and junk: nothing

OptionClasses == {"opt_ndots2", "opt_ndots0", "opt_timeout3", "opt_retrans4", "opt_attempts2", "opt_retry4",
                  "opt_rotate", "opt_usevc", "opt_multi", "opt_unknown", "opt_zero", "opt_ndots_weird",
                  "opt_ndots_big", "opt_timeout_huge", "opt_tries_huge"}
ResOptionsClasses == {NoVal} \cup OptionClasses

\* files: [resolv, nss, netsvc, svc : sequences of classes], env: [localdomain, res_options]
Sys(files, env) ==
  LET s1 == SysLines(EmptySys, files.resolv)
      s2 == FoldL(NssEff, s1, files.nss)
      s3 == FoldL(SvcEff, s2, files.netsvc)
      s4 == FoldL(SvcEff, s3, files.svc)
      s5 == LdEff(s4, env.localdomain)
  IN IF env.res_options = NoVal THEN s5 ELSE Eff(s5, env.res_options)

OnlyResolv(lines) == [resolv |-> lines, nss |-> <<>>, netsvc |-> <<>>, svc |-> <<>>]
NoEnv == [localdomain |-> NoVal, res_options |-> NoVal]

FilesNoJunk(f) == [resolv |-> NoJunk(f.resolv),
                   nss    |-> SelectSeq(f.nss, LAMBDA c : c \notin NssJunk),
                   netsvc |-> SelectSeq(f.netsvc, LAMBDA c : c \notin SvcJunk),
                   svc    |-> SelectSeq(f.svc, LAMBDA c : c \notin SvcJunk)]
EnvNoJunk(e) == [localdomain |-> IF e.localdomain \in {"ld_empty", "ld_binary"} THEN NoVal ELSE e.localdomain,
                 res_options |-> IF e.res_options # NoVal /\ Kind(e.res_options) = "junk" THEN NoVal
                                 ELSE e.res_options]

(***************************************************************************)
(* C15 on the specification's own Sys: junk is invisible, everything is in *)
(* the documented ranges.                                                  *)
(***************************************************************************)
LineIndependent(files, env) == Sys(files, env) = Sys(FilesNoJunk(files), EnvNoJunk(env))

PosOrAny(S) == \A v \in S : v = AnyPos \/ v >= 1
InRange(s) == /\ s.ndots \subseteq 0..15                    \* ares_init_options(3): "Valid range is 0-15"
              /\ PosOrAny(s.tries \ {0})                    \* 0 = not configured
              /\ PosOrAny(s.timeout \ {0})
              /\ s.lookups \in {NoVal, "b", "f", "bf", "fb"}
              /\ s.domains # <<>>
              /\ s.sortlist # <<>>

(***************************************************************************)
(* Channels.                                                               *)
(***************************************************************************)
OptNames == {"FLAGS", "TIMEOUTMS", "TRIES", "NDOTS", "UDP_PORT", "TCP_PORT", "SERVERS", "DOMAINS", "LOOKUPS",
             "SORTLIST", "SOCK_SNDBUF", "SOCK_RCVBUF", "ROTATE", "NOROTATE", "EDNSPSZ", "RESOLVCONF", "HOSTS_FILE",
             "UDP_MAX_QUERIES", "MAXTIMEOUTMS", "QUERY_CACHE", "EVENT_THREAD", "SERVER_FAILOVER"}

\* the mask bit of every maskable channel field
FieldBit == [flags |-> "FLAGS", timeout |-> "TIMEOUTMS", tries |-> "TRIES", ndots |-> "NDOTS",
             udp_port |-> "UDP_PORT", tcp_port |-> "TCP_PORT", servers |-> "SERVERS", domains |-> "DOMAINS",
             lookups |-> "LOOKUPS", sortlist |-> "SORTLIST", sndbuf |-> "SOCK_SNDBUF", rcvbuf |-> "SOCK_RCVBUF",
             ednspsz |-> "EDNSPSZ", udp_max_queries |-> "UDP_MAX_QUERIES", maxtimeout |-> "MAXTIMEOUTMS",
             qcache_max_ttl |-> "QUERY_CACHE", retry |-> "SERVER_FAILOVER"]
MaskedFields == DOMAIN FieldBit

\* a blank channel (ares_init_options before any source is applied)
Blank == [mask |-> {}, flags |-> {{}}, timeout |-> {0}, tries |-> {0}, ndots |-> {1}, rotate |-> FALSE,
          udp_port |-> 0, tcp_port |-> 0, servers |-> <<>>, domains |-> <<>>, lookups |-> NoVal, sortlist |-> <<>>,
          sndbuf |-> 0, rcvbuf |-> 0, ednspsz |-> 0, udp_max_queries |-> 0, maxtimeout |-> 0,
          qcache_max_ttl |-> 0, retry |-> <<0, 0>>,
          local_dev |-> "", local_ip4 |-> 0, local_ip6 |-> "::"]

\* opts: a record with (a subset of) the maskable fields, user values; mask: set of OptNames.
\* Values that ares_init_options treats as "use the default" drop their bit.
Has(opts, f) == f \in DOMAIN opts
ByOptions(opts, mask0) ==
  LET drop == {b \in mask0 :
                 \/ b = "TIMEOUTMS" /\ opts.timeout <= 0
                 \/ b = "TRIES" /\ opts.tries <= 0
                 \/ b = "NDOTS" /\ opts.ndots < 0
                 \/ b = "MAXTIMEOUTMS" /\ opts.maxtimeout <= 0
                 \/ b = "SOCK_SNDBUF" /\ opts.sndbuf <= 0
                 \/ b = "SOCK_RCVBUF" /\ opts.rcvbuf <= 0
                 \/ b = "EDNSPSZ" /\ opts.ednspsz <= 0
                 \/ b = "UDP_MAX_QUERIES" /\ opts.udp_max_queries <= 0
                 \/ b = "SERVERS" /\ opts.servers = <<>>}
      m  == (mask0 \ drop) \cup {"QUERY_CACHE"}        \* the query cache is on by default: the bit is always recorded
      up == IF "UDP_PORT" \in m THEN opts.udp_port ELSE 0
      tp == IF "TCP_PORT" \in m THEN opts.tcp_port ELSE 0
      G(b, v, d) == IF b \in m THEN v ELSE d
  IN [Blank EXCEPT
        !.mask = m,
        !.flags = IF "FLAGS" \in m THEN {opts.flags} ELSE {{}},
        !.timeout = IF "TIMEOUTMS" \in m THEN {opts.timeout} ELSE {0},
        !.tries = IF "TRIES" \in m THEN {opts.tries} ELSE {0},
        !.ndots = IF "NDOTS" \in m THEN {opts.ndots} ELSE {1},
        !.rotate = IF "NOROTATE" \in m THEN FALSE ELSE "ROTATE" \in m,
        !.udp_port = up, !.tcp_port = tp,
        !.servers = IF "SERVERS" \in m
                    THEN Resolve([k \in 1..Len(opts.servers) |-> Srv(opts.servers[k], 0, 0, "")], up, tp) ELSE <<>>,
        !.domains = IF "DOMAINS" \in m THEN opts.domains ELSE <<>>,
        !.lookups = IF "LOOKUPS" \in m THEN opts.lookups ELSE NoVal,
        !.sortlist = IF "SORTLIST" \in m THEN opts.sortlist ELSE <<>>,
        !.sndbuf = IF "SOCK_SNDBUF" \in m THEN opts.sndbuf ELSE 0,
        !.rcvbuf = IF "SOCK_RCVBUF" \in m THEN opts.rcvbuf ELSE 0,
        !.ednspsz = IF "EDNSPSZ" \in m THEN opts.ednspsz ELSE 0,
        !.udp_max_queries = IF "UDP_MAX_QUERIES" \in m THEN opts.udp_max_queries ELSE 0,
        !.maxtimeout = IF "MAXTIMEOUTMS" \in m THEN opts.maxtimeout ELSE 0,
        !.qcache_max_ttl = IF "QUERY_CACHE" \in mask0 THEN opts.qcache_max_ttl ELSE 3600,
        !.retry = IF "SERVER_FAILOVER" \in m THEN opts.retry ELSE <<0, 0>>]

Trim(c, servers) == IF \A f \in c.flags : "PRIMARY" \in f THEN SubSeq(servers, 1, IF Len(servers) > 0 THEN 1 ELSE 0)
                    ELSE servers

(***************************************************************************)
(* ApplySys: every field is guarded by the option-mask bit that was        *)
(* recorded when the application set it (ares_sysconfig_apply).  `keep`    *)
(* says what an unconfigured scalar falls back to: at init nothing (the    *)
(* defaults come afterwards), at reinit the old value or the default.      *)
(***************************************************************************)
Pick(sysset, old) == (sysset \ {0}) \cup (IF 0 \in sysset THEN old ELSE {})

ApplySys(c, sys) ==
  LET m  == c.mask
      sv == Resolve(sys.servers, c.udp_port, c.tcp_port)
  IN [c EXCEPT
        !.servers  = IF "SERVERS" \notin m /\ sv # <<>> THEN Trim(c, sv) ELSE @,
        !.domains  = IF "DOMAINS" \notin m /\ sys.domains # NoSeq THEN sys.domains ELSE @,
        !.lookups  = IF "LOOKUPS" \notin m /\ sys.lookups # NoVal THEN sys.lookups ELSE @,
        !.sortlist = IF "SORTLIST" \notin m /\ sys.sortlist # NoSeq THEN sys.sortlist ELSE @,
        !.ndots    = IF "NDOTS" \notin m THEN sys.ndots ELSE @,
        !.tries    = IF "TRIES" \notin m THEN Pick(sys.tries, @) ELSE @,
        !.timeout  = IF "TIMEOUTMS" \notin m THEN Pick(sys.timeout, @) ELSE @,
        !.rotate   = IF {"ROTATE", "NOROTATE"} \cap m = {} THEN sys.rotate ELSE @,
        !.flags    = IF "FLAGS" \notin m /\ sys.usevc THEN {f \cup {"USEVC"} : f \in @} ELSE @]

Defaults(c, hostdomain) ==
  [c EXCEPT
     !.flags   = IF "FLAGS" \in c.mask THEN @ ELSE {f \cup {"EDNS"} : f \in @},
     !.timeout = (@ \ {0}) \cup (IF 0 \in @ THEN {2000} ELSE {}),
     !.tries   = (@ \ {0}) \cup (IF 0 \in @ THEN {3} ELSE {}),
     !.servers = IF @ = <<>> THEN <<Srv("127.0.0.1", Port(0, c.udp_port), Port(0, c.tcp_port), "")>> ELSE @,
     \* "instead of ... the domain derived from the kernel hostname": only when the application gave no list
     !.domains = IF @ = <<>> /\ "DOMAINS" \notin c.mask /\ hostdomain # NoVal THEN <<hostdomain>> ELSE @,
     !.lookups = IF @ = NoVal THEN "fb" ELSE @,
     !.ednspsz = IF @ = 0 THEN 1232 ELSE @,
     !.retry   = IF "SERVER_FAILOVER" \in c.mask THEN @ ELSE <<10, 5000>>]

\* ares_init_options(opts, mask) on a machine whose system configuration is sys
InitChan(opts, mask, sys, hostdomain) ==
  LET c1 == ByOptions(opts, mask) IN Defaults(ApplySys([c1 EXCEPT !.servers = Trim(c1, @)], sys), hostdomain)

\* ares_reinit: re-read and re-apply; an unconfigured scalar keeps its value (or returns to the default)
Reinit(c, sys) ==
  LET c2 == ApplySys(c, sys)
  IN [c2 EXCEPT !.tries   = IF "TRIES" \in c.mask THEN @ ELSE IF 0 \in sys.tries THEN @ \cup {3} ELSE @,
                !.timeout = IF "TIMEOUTMS" \in c.mask THEN @ ELSE IF 0 \in sys.timeout THEN @ \cup {2000} ELSE @]

\* setters that behave "as if passed in as an option"
SetServers(c, descs) == [c EXCEPT !.servers = Trim(c, Resolve(descs, c.udp_port, c.tcp_port)),
                                  !.mask = @ \cup {"SERVERS"}]
SetSortlist(c, sl)   == IF sl = <<>> THEN c ELSE [c EXCEPT !.sortlist = sl, !.mask = @ \cup {"SORTLIST"}]
SetLocal(c, dev, ip4, ip6) == [c EXCEPT !.local_dev = dev, !.local_ip4 = ip4, !.local_ip6 = ip6]

(***************************************************************************)
(* Save / InitFrom / Dup.                                                  *)
(***************************************************************************)
\* what struct ares_options can express: IPv4 servers without ports / interface
Expressible(sv) == sv.a \in {"10.0.0.1", "10.0.0.2", "10.0.0.3", "10.0.0.4", "10.9.9.9", "127.0.0.1"}
One(S) == CHOOSE v \in S : TRUE
SaveOpts(c) ==
  [flags |-> One(c.flags), timeout |-> One(c.timeout), tries |-> One(c.tries), ndots |-> One(c.ndots),
   udp_port |-> c.udp_port, tcp_port |-> c.tcp_port,
   servers |-> LET v4 == SelectSeq(c.servers, Expressible) IN [k \in 1..Len(v4) |-> v4[k].a],
   domains |-> c.domains, lookups |-> c.lookups, sortlist |-> c.sortlist, sndbuf |-> c.sndbuf, rcvbuf |-> c.rcvbuf,
   ednspsz |-> c.ednspsz, udp_max_queries |-> c.udp_max_queries, maxtimeout |-> c.maxtimeout,
   qcache_max_ttl |-> c.qcache_max_ttl, retry |-> c.retry]

Deterministic(c) == Cardinality(c.flags) = 1 /\ Cardinality(c.timeout) = 1 /\ Cardinality(c.tries) = 1
                    /\ Cardinality(c.ndots) = 1

InitFrom(c, sys, hostdomain) == InitChan(SaveOpts(c), c.mask, sys, hostdomain)

\* ares_dup: options, then the non-option settings, then (user) servers through the text form
Dup(c, sys, hostdomain) ==
  LET d == InitFrom(c, sys, hostdomain)
      e == [d EXCEPT !.local_dev = c.local_dev, !.local_ip4 = c.local_ip4, !.local_ip6 = c.local_ip6]
  IN IF "SERVERS" \in c.mask THEN [e EXCEPT !.servers = c.servers, !.mask = @ \cup {"SERVERS"}] ELSE e

\* The effective settings two channels must agree on
EffFields == {"flags", "timeout", "tries", "ndots", "rotate", "udp_port", "tcp_port", "servers", "domains",
              "lookups", "sortlist", "sndbuf", "rcvbuf", "ednspsz", "udp_max_queries", "maxtimeout",
              "qcache_max_ttl", "retry", "local_dev", "local_ip4", "local_ip6"}
SameEffective(c, d) == \A f \in EffFields : c[f] = d[f]

\* Save->Init is lossless for what the structure can express
SaveExpressible(c) == \A k \in 1..Len(c.servers) :
                        /\ Expressible(c.servers[k])
                        /\ c.servers[k].u = Port(0, c.udp_port) /\ c.servers[k].t = Port(0, c.tcp_port)
NonOptionDefault(c) == c.local_dev = "" /\ c.local_ip4 = 0 /\ c.local_ip6 = "::"

=============================================================================
