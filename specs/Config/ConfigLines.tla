---------------------------- MODULE ConfigLines ----------------------------
(***************************************************************************)
(* C15 state machine: the system configuration text is built line by line  *)
(* (resolv.conf, nsswitch.conf, netsvc.conf, svc.conf) under every chosen  *)
(* environment.  Every reachable state is one configuration scenario.      *)
(*                                                                         *)
(* Checked on every state: LineIndependent and InRange (theorems about the *)
(* specification's own Sys).  With Emit = TRUE every state is also printed *)
(* as one JSON line: the scenario, the expected system configuration, the  *)
(* expected effective channel (fresh channel, no application options), and *)
(* the junk-free twin.                                                     *)
(***************************************************************************)
EXTENDS Config, Json

CONSTANTS Alphabet,      \* resolv.conf line classes in use
          MaxLen,        \* max number of resolv.conf lines
          NssAlphabet, MaxNss, SvcAlphabet, MaxNetsvc, MaxSvc,
          LdSet, RoSet,  \* LOCALDOMAIN / RES_OPTIONS alternatives
          Emit

\* named choices for the configuration files (a cfg cannot contain set expressions over strings of a module)
LdNone == {NoVal}
RoNone == {NoVal}
LdAll  == LocalDomainClasses
RoAll  == ResOptionsClasses
NoClasses == {}
\* a small resolv.conf alphabet for the runs that focus on the other files / the environment
SmallAlphabet == {"ns_a", "search_b", "dom_a", "opt_ndots2", "opt_timeout3", "lookup_bf", "lookup_junk",
                  "search_empty", "opt_zero", "comment_hash"}
LookupAlphabet == {"lookup_bf", "lookup_junk"}
NssSmall == {"nss_b", "nss_unknown_only", "nss_junk_binary"}
\* one or two representatives per directive / junk family for the length-4 enumeration
MidAlphabet == {"ns_a", "ns_b", "ns_6p", "ns_bad", "ns_uri_bad", "dom_a", "search_b", "search_cd", "search_empty",
                "sort_1", "sort_2", "sort_bad", "opt_ndots2", "opt_timeout3", "opt_attempts2", "opt_rotate",
                "opt_multi", "opt_unknown", "opt_zero", "opt_ndots_big", "lookup_bf", "lookup_junk",
                "comment_hash", "junk_binary", "junk_lone"}

\* numeric extremes (ConfigNum.tla): every numeric nameserver / option / sortlist class next to one valid and one
\* junk nameserver line, a valid sortlist line and a valid option line
NumAlphabet == NumClasses \cup {"ns_a", "ns_bad", "sort_1", "opt_ndots2"}
\* the numeric option classes given through RES_OPTIONS, over a resolv.conf that sets the same fields
RoNum == {NoVal} \cup OptNumClasses
NumEnvAlphabet == {"opt_multi", "opt_num_ndots_15"}

VARIABLES resolv, nss, netsvc, svc, ld, ro
vars == <<resolv, nss, netsvc, svc, ld, ro>>

Files == [resolv |-> resolv, nss |-> nss, netsvc |-> netsvc, svc |-> svc]
Env   == [localdomain |-> ld, res_options |-> ro]

Init == /\ resolv = <<>> /\ nss = <<>> /\ netsvc = <<>> /\ svc = <<>>
        /\ ld \in LdSet /\ ro \in RoSet

\* at most one numeric line (ConfigNum.tla) per file: the other lines are its context
AddResolv == /\ Len(resolv) < MaxLen
             /\ \E c \in Alphabet :
                  /\ (c \in NumClasses) => (\A k \in 1..Len(resolv) : resolv[k] \notin NumClasses)
                  /\ resolv' = Append(resolv, c)
             /\ UNCHANGED <<nss, netsvc, svc, ld, ro>>
AddNss    == /\ Len(nss) < MaxNss
             /\ \E c \in NssAlphabet : nss' = Append(nss, c)
             /\ UNCHANGED <<resolv, netsvc, svc, ld, ro>>
AddNetsvc == /\ Len(netsvc) < MaxNetsvc
             /\ \E c \in SvcAlphabet : netsvc' = Append(netsvc, c)
             /\ UNCHANGED <<resolv, nss, svc, ld, ro>>
AddSvc    == /\ Len(svc) < MaxSvc
             /\ \E c \in SvcAlphabet : svc' = Append(svc, c)
             /\ UNCHANGED <<resolv, nss, netsvc, ld, ro>>

Next == AddResolv \/ AddNss \/ AddNetsvc \/ AddSvc
Spec == Init /\ [][Next]_vars

TypeOK == /\ \A k \in 1..Len(resolv) : resolv[k] \in AllClasses
          /\ \A k \in 1..Len(nss) : nss[k] \in NssClasses
          /\ \A k \in 1..Len(netsvc) : netsvc[k] \in SvcClasses
          /\ \A k \in 1..Len(svc) : svc[k] \in SvcClasses
          /\ ld \in LocalDomainClasses /\ ro \in ResOptionsClasses \cup OptNumClasses

\* ---- C15 as invariants of the specification ----
InvLineIndependent == LineIndependent(Files, Env)
InvInRange         == InRange(Sys(Files, Env))
\* the effective channel of an application that sets nothing is in range as well
Chan(f, e) == InitChan(<<>>, {}, Sys(f, e), NoVal)
InvChanInRange == LET c == Chan(Files, Env) IN
                    /\ c.ndots \subseteq 0..15 /\ PosOrAny(c.tries) /\ PosOrAny(c.timeout)
                    /\ c.lookups \in {"b", "f", "bf", "fb"} /\ c.servers # <<>>
\* a junk-free twin gives the same channel (what the harness re-checks on the real code)
InvTwinChannel == Chan(Files, Env) = Chan(FilesNoJunk(Files), EnvNoJunk(Env))

\* the same text applied by ares_reinit to a channel that was initialised from BaseLines
BaseLines == <<"ns_b", "search_b", "opt_ndots2">>
BaseChan  == Chan(OnlyResolv(BaseLines), NoEnv)
ReChan(f, e) == Reinit(BaseChan, Sys(f, e))
InvTwinReinit == ReChan(Files, Env) = ReChan(FilesNoJunk(Files), EnvNoJunk(Env))

View(c) == [flags |-> c.flags, timeout |-> c.timeout, tries |-> c.tries, ndots |-> c.ndots, rotate |-> c.rotate,
            servers |-> c.servers, domains |-> c.domains, lookups |-> c.lookups, sortlist |-> c.sortlist]

HasJunk == FilesNoJunk(Files) # Files \/ EnvNoJunk(Env) # Env

\* the numeric classes of the scenario with their kind and their line text, both computed from the rules: the
\* harness binding takes them from here (it has no table of its own for these classes)
NumIn == {c \in {resolv[k] : k \in 1..Len(resolv)} \cup {ro} : c \in NumClasses}
NumInfo == [c \in NumIn |-> [kind |-> Kind(c), text |-> LineText(c)]]

EmitScenario ==
  Emit => PrintT(ToJson([kind |-> "c15", files |-> Files, env |-> Env,
                         twin_files |-> FilesNoJunk(Files), twin_env |-> EnvNoJunk(Env), has_junk |-> HasJunk,
                         expect |-> View(Chan(Files, Env)), expect_reinit |-> View(ReChan(Files, Env)),
                         num |-> NumInfo]))
=============================================================================
