\* netsvc.conf and svc.conf of <= 2 resp. <= 1 lines over all 8 classes x nsswitch.conf (<= 1 line of 3) x resolv.conf lookup
SPECIFICATION Spec
CONSTANTS
  Alphabet <- LookupAlphabet
  MaxLen = 1
  NssAlphabet <- NssSmall
  MaxNss = 1
  SvcAlphabet <- SvcClasses
  MaxNetsvc = 2
  MaxSvc = 1
  LdSet <- LdNone
  RoSet <- RoNone
  Emit = TRUE
INVARIANTS TypeOK InvLineIndependent InvInRange InvChanInRange InvTwinChannel InvTwinReinit EmitScenario
CHECK_DEADLOCK FALSE
