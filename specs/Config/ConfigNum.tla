------------------------------ MODULE ConfigNum ------------------------------
(***************************************************************************)
(* Decimal numerals in configuration text: the numeric fields of the       *)
(* nameserver forms (port, tcpport=, %scope length), of sortlist entries   *)
(* (prefix length) and of the resolv.conf / RES_OPTIONS options            *)
(* (ndots, timeout, attempts), with the RULES that say which numerals are  *)
(* accepted (and as what value) and which are refused (C15, "numeric       *)
(* extremes").                                                             *)
(*                                                                         *)
(* A numeral is lz leading zeros followed by the shortest decimal of v.    *)
(* TLC integers end at 2^31-1: larger numbers are carried by their decimal *)
(* text (big # "").  NumText is the text of the numeral as it appears in   *)
(* the configuration; the generators of ConfigLines / ConfigStrings build  *)
(* the concrete line / token from it, the harness executes exactly that.   *)
(*                                                                         *)
(* Outcomes of a rule:                                                     *)
(*   "value"             accepted, and means the number v                  *)
(*   "refused"           names no value of the field: the entry (server /  *)
(*                       sortlist entry) must not come into being          *)
(*   "value_or_refused"  numerically fine but written with more digits     *)
(*                       than the field ever needs: a parser may refuse it *)
(*                       or take it as v                                   *)
(*   "default_or_refused" port 0 = "no port given" in the API structures:  *)
(*                       the text may be refused or mean the default port  *)
(***************************************************************************)
EXTENDS Naturals, Sequences, TLC

Numeral(lz, v)  == [lz |-> lz, v |-> v, big |-> ""]
BigNumeral(txt) == [lz |-> 0, v |-> 0, big |-> txt]      \* txt: decimal text of a number >= 2^31

RECURSIVE Rep(_, _)
Rep(ch, k) == IF k = 0 THEN ""                       \* k copies of ch (by halving: TLC's stack is shallow)
              ELSE LET h == Rep(ch, k \div 2) IN h \o h \o (IF k % 2 = 1 THEN ch ELSE "")

NumText(n) == Rep("0", n.lz) \o (IF n.big = "" THEN ToString(n.v) ELSE n.big)
NDigits(n) == Len(NumText(n))
Exceeds(n, max) == n.big # "" \/ n.v > max

Nines20 == "99999999999999999999"

(***************************************************************************)
(* Ports (ip:port, [ip]:port, dns://host:port, ?tcpport=port).  A port is  *)
(* a 16-bit number: 1..65535 written with at most five digits is that      *)
(* port; anything above 65535 is no port at all, however many digits.      *)
(***************************************************************************)
MaxPort == 65535
PortRule(n) == IF Exceeds(n, MaxPort) THEN "refused"
               ELSE IF n.v = 0 THEN "default_or_refused"
               ELSE IF NDigits(n) > 5 THEN "value_or_refused"
               ELSE "value"

\* digit counts 1..7, 10 and 20; the values 0, 1, 65535, 65536; leading zeros; numbers that are = 53 modulo 2^16 / 2^32
PortNums == {Numeral(0, 1), Numeral(0, 65535), Numeral(3, 53),                         \* 1 and 5 digits
             Numeral(0, 65536), Numeral(0, 99999),                                     \* 5 digits, no such port
             Numeral(0, 123456), Numeral(0, 999999), Numeral(0, 1234567),              \* 6 and 7 digits
             BigNumeral("4294967349"), BigNumeral(Nines20),                            \* 2^32 + 53; 20 digits
             Numeral(0, 0), Numeral(4, 0), Numeral(4, 53), Numeral(6, 1)}              \* 0, 00000, 000053, 0000001

(***************************************************************************)
(* Sortlist prefix lengths: 0..32 for IPv4, 0..128 for IPv6.               *)
(***************************************************************************)
MaskBits(fam) == IF fam = "v4" THEN 32 ELSE 128
MaskRule(fam, n) == IF Exceeds(n, MaskBits(fam)) THEN "refused"
                    ELSE IF NDigits(n) > 3 THEN "value_or_refused"
                    ELSE "value"
MaskNums(fam) ==
  IF fam = "v4"
  THEN {Numeral(0, 0), Numeral(0, 1), Numeral(1, 8), Numeral(0, 32), Numeral(1, 32),
        Numeral(0, 33), Numeral(0, 128), Numeral(0, 256), Numeral(0, 264), Numeral(0, 65544),
        BigNumeral("2147483648"), BigNumeral("4294967304"), BigNumeral(Nines20),        \* 2^31; 2^32 + 8
        Numeral(14, 8), Numeral(15, 8)}                                                \* 15 and 16 digits
  ELSE {Numeral(0, 0), Numeral(0, 64), Numeral(0, 128), Numeral(1, 128),
        Numeral(0, 129), Numeral(0, 256), Numeral(0, 320), BigNumeral("4294967360")}   \* 2^32 + 64

(***************************************************************************)
(* Options.  ndots: "Valid range is 0-15" (ares_init_options(3)): 0..15 is *)
(* taken as written, anything larger is an extreme (ignored, or brought    *)
(* into the range).  timeout / attempts: 0 is no value (the token is       *)
(* ignored); the small values every resolver accepts (resolv.conf(5):      *)
(* timeout <= 30 s, attempts <= 5) are taken as written; larger ones are   *)
(* extremes (ignored, or some positive value).                             *)
(***************************************************************************)
OptKeys == {"ndots", "timeout", "attempts"}
OptMax(key) == CASE key = "ndots" -> 15 [] key = "timeout" -> 30 [] key = "attempts" -> 5
OptRule(key, n) == IF Exceeds(n, OptMax(key)) THEN "extreme"
                   ELSE IF key # "ndots" /\ n.v = 0 THEN "ignored"
                   ELSE "value"
OptNums(key) ==
  CASE key = "ndots"    -> {Numeral(0, 15), Numeral(1, 15), Numeral(20, 7), Numeral(0, 16), Numeral(0, 255),
                            Numeral(0, 65543), BigNumeral("4294967303"), BigNumeral(Nines20)}
    [] key = "timeout"  -> {Numeral(0, 1), Numeral(0, 30), Numeral(1, 5), Numeral(0, 0), Numeral(2, 0),
                            Numeral(0, 31), Numeral(0, 4294968), BigNumeral("4294967297"), BigNumeral(Nines20)}
    [] key = "attempts" -> {Numeral(0, 1), Numeral(0, 5), Numeral(2, 5), Numeral(0, 0), Numeral(1, 0),
                            Numeral(0, 6), Numeral(0, 65537), BigNumeral("4294967297"), BigNumeral(Nines20)}

(***************************************************************************)
(* Link-local scope (interface name) of a server: at most 15 characters    *)
(* (IF_NAMESIZE - 1) and an interface the system knows; anything else      *)
(* names no server.                                                        *)
(***************************************************************************)
MaxIface == 15
KnownIfaces == {"lo", "vif2", "verylongiface01"}          \* real loopback + the harness' virtual interface table
ScopeRule(name) == IF Len(name) <= MaxIface /\ name \in KnownIfaces THEN "value" ELSE "refused"
\* unknown names of these lengths (247 / 248: "fe80::N%" + name fills / overflows a 256 byte host buffer)
ScopeLens == {1, 14, 15, 16, 17, 64, 247, 248, 300}
UnknownIface(k) == Rep("q", k)
=============================================================================
