\* LOCALDOMAIN (5 alternatives) x RES_OPTIONS (unset + 15 option classes) x resolv.conf of <= 2 lines over 10 classes
SPECIFICATION Spec
CONSTANTS
  Alphabet <- SmallAlphabet
  MaxLen = 2
  NssAlphabet <- NoClasses
  MaxNss = 0
  SvcAlphabet <- NoClasses
  MaxNetsvc = 0
  MaxSvc = 0
  LdSet <- LdAll
  RoSet <- RoAll
  Emit = TRUE
INVARIANTS TypeOK InvLineIndependent InvInRange InvChanInRange InvTwinChannel InvTwinReinit EmitScenario
CHECK_DEADLOCK FALSE
