\* thorough tier: -simulate, resolv.conf up to 8 lines over all classes with every environment alternative
SPECIFICATION Spec
CONSTANTS
  Alphabet <- Classes
  MaxLen = 8
  NssAlphabet <- NssClasses
  MaxNss = 2
  SvcAlphabet <- SvcClasses
  MaxNetsvc = 1
  MaxSvc = 1
  LdSet <- LdAll
  RoSet <- RoAll
  Emit = TRUE
INVARIANTS TypeOK InvLineIndependent InvInRange InvChanInRange InvTwinChannel InvTwinReinit EmitScenario
CHECK_DEADLOCK FALSE
