\* every text of <= 3 tokens / lines for the four kinds (sortlist string, server CSV, hosts file, aliases file)
SPECIFICATION Spec
CONSTANTS
  Kinds <- AllKinds
  MaxToks = 3
  Emit = TRUE
INVARIANTS InvFilesLineIndependent InvSettersInRange EmitScenario
CHECK_DEADLOCK FALSE
