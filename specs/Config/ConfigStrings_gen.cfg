\* every text of <= 3 tokens / lines for the four kinds (sortlist string, server CSV, hosts file, aliases file);
\* <= 2 tokens for the numeric kinds (csvnum, scope, sortnum: ConfigNum.tla)
SPECIFICATION Spec
CONSTANTS
  Kinds <- AllKinds
  MaxToks = 3
  NumMaxToks = 2
  Emit = TRUE
INVARIANTS InvFilesLineIndependent InvSettersInRange InvNumInRange EmitScenario
CHECK_DEADLOCK FALSE
