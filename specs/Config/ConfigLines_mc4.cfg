\* thorough tier: LineIndependent / InRange for every resolv.conf of <= 4 lines over all 47 classes (spec only)
SPECIFICATION Spec
CONSTANTS
  Alphabet <- Classes
  MaxLen = 4
  NssAlphabet <- NoClasses
  MaxNss = 0
  SvcAlphabet <- NoClasses
  MaxNetsvc = 0
  MaxSvc = 0
  LdSet <- LdNone
  RoSet <- RoNone
  Emit = FALSE
INVARIANTS TypeOK InvLineIndependent InvInRange InvChanInRange InvTwinChannel InvTwinReinit
CHECK_DEADLOCK FALSE
