SPECIFICATION Spec
CHECK_DEADLOCK FALSE
POSTCONDITION Accepted
