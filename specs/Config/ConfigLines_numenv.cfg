\* numeric extremes through the environment: RES_OPTIONS = every numeric option class x resolv.conf of <= 1 line
SPECIFICATION Spec
CONSTANTS
  Alphabet <- NumEnvAlphabet
  MaxLen = 1
  NssAlphabet <- NoClasses
  MaxNss = 0
  SvcAlphabet <- NoClasses
  MaxNetsvc = 0
  MaxSvc = 0
  LdSet <- LdNone
  RoSet <- RoNum
  Emit = TRUE
INVARIANTS TypeOK InvLineIndependent InvInRange InvChanInRange InvTwinChannel InvTwinReinit EmitScenario
CHECK_DEADLOCK FALSE
