----------------------------- MODULE ConfigOps -----------------------------
(***************************************************************************)
(* C16 state machine: one application channel `c` is initialised with an   *)
(* option mask / option values on a machine with some system               *)
(* configuration, then modified by setters, re-initialised after the       *)
(* system configuration was rewritten, and finally saved+re-created,       *)
(* duplicated, or its server list rendered and fed back (channel `d`).     *)
(*                                                                         *)
(* Invariants (on the specification): UserWins, DupEqFresh, SaveInitFresh, *)
(* CsvFixpoint.  Every terminal state prints its history with the expected *)
(* channel after every step (Emit), which the harness replays.             *)
(***************************************************************************)
EXTENDS Config, Json

CONSTANTS Stage,          \* "matrix" | "servers" | "reinit"
          MaskChoices, ValChoices, PortChoices, SysChoices, ServerLists,
          HostChoices,    \* domain part of the kernel hostname: NoVal or a domain
          PlainInit,      \* also initialise with ares_init() (no option structure at all)
          MaxReinit, Emit

VARIABLES phase, c, d, dkind, user, sysname, hostdom, hist, nre, nset
vars == <<phase, c, d, dkind, user, sysname, hostdom, hist, nre, nset>>

(* ---------------- system configuration profiles (resolv.conf lines + environment) *)
SysProfiles == {"P_empty", "P_basic", "P_full", "P_alt", "P_junk", "P_env", "P_ll"}
ProfLines(p) ==
  CASE p = "P_empty" -> <<>>
    [] p = "P_basic" -> <<"ns_a">>
    [] p = "P_full"  -> <<"ns_a", "ns_6", "search_cd", "sort_1", "opt_multi", "opt_usevc", "lookup_bf">>
    [] p = "P_alt"   -> <<"ns_b", "ns_6p", "search_b", "sort_2", "opt_ndots0", "opt_timeout3", "opt_attempts2", "lookup_b">>
    [] p = "P_junk"  -> <<"junk_binary", "ns_a", "ns_bad", "search_cd", "opt_unknown", "sort_1", "comment_hash",
                          "opt_multi", "junk_lone", "opt_usevc", "lookup_junk", "lookup_bf", "junk_keyword">>
    [] p = "P_env"   -> <<"ns_b", "search_cd", "opt_ndots2">>
    [] p = "P_ll"    -> <<"ns_a", "ns_ll", "opt_rotate">>
ProfEnv(p) == IF p = "P_env" THEN [localdomain |-> "ld_one", res_options |-> "opt_retrans4"] ELSE NoEnv
SysOf(p) == Sys(OnlyResolv(ProfLines(p)), ProfEnv(p))

(* ---------------- option values *)
Vals(v) ==
  CASE v = 1 -> [flags |-> {"EDNS"}, timeout |-> 1500, tries |-> 2, ndots |-> 4, servers |-> <<"10.9.9.9">>,
                 domains |-> <<"u.example">>, lookups |-> "f", sortlist |-> <<"11.0.0.0/8">>, sndbuf |-> 65536,
                 rcvbuf |-> 32768, ednspsz |-> 4096, udp_max_queries |-> 10, maxtimeout |-> 9000,
                 qcache_max_ttl |-> 300, retry |-> <<5, 1000>>]
    [] v = 2 -> [flags |-> {"PRIMARY", "EDNS", "NOALIASES"}, timeout |-> 250, tries |-> 7, ndots |-> 0,
                 servers |-> <<"10.0.0.3", "10.0.0.1">>, domains |-> <<"u1.example", "u2.example">>, lookups |-> "bf",
                 sortlist |-> <<"12.0.0.0/8", "2001:db8:1::/48">>, sndbuf |-> 1024, rcvbuf |-> 2048, ednspsz |-> 512,
                 udp_max_queries |-> 1, maxtimeout |-> 5000, qcache_max_ttl |-> 0, retry |-> <<0, 0>>]
    \* values that ares_init_options documents / treats as "not given" (their bits are dropped), an empty domain
    \* list and an empty flag word (both are settings)
    [] v = 3 -> [flags |-> {}, timeout |-> 0 - 1, tries |-> 0, ndots |-> 0 - 1, servers |-> <<>>,
                 domains |-> <<>>, lookups |-> "b", sortlist |-> <<>>, sndbuf |-> 0, rcvbuf |-> 0 - 1, ednspsz |-> 0,
                 udp_max_queries |-> 0, maxtimeout |-> 0, qcache_max_ttl |-> 0, retry |-> <<1, 1>>]

Ports(p) == CASE p = "none" -> [bits |-> {}, udp |-> 0, tcp |-> 0]
              [] p = "equal" -> [bits |-> {"UDP_PORT", "TCP_PORT"}, udp |-> 54, tcp |-> 54]
              [] p = "differ" -> [bits |-> {"UDP_PORT", "TCP_PORT"}, udp |-> 55, tcp |-> 56]
              [] p = "udponly" -> [bits |-> {"UDP_PORT"}, udp |-> 57, tcp |-> 0]

UserBits == {"FLAGS", "TIMEOUTMS", "TRIES", "NDOTS", "SERVERS", "DOMAINS", "LOOKUPS", "SORTLIST", "SOCK_SNDBUF",
             "SOCK_RCVBUF", "ROTATE", "NOROTATE", "EDNSPSZ", "UDP_MAX_QUERIES", "MAXTIMEOUTMS", "QUERY_CACHE",
             "SERVER_FAILOVER"}
CoreBits == {"FLAGS", "TIMEOUTMS", "TRIES", "NDOTS", "SERVERS", "DOMAINS", "LOOKUPS", "SORTLIST", "ROTATE"}
AllButNorotate == UserBits \ {"NOROTATE"}
Singles   == {{b} : b \in UserBits}
MasksQuick == {{}} \cup Singles \cup {AllButNorotate, (UserBits \ {"ROTATE"})}
              \cup {AllButNorotate \ {b} : b \in CoreBits}
              \cup {{"FLAGS", "SERVERS"}, {"NDOTS", "TIMEOUTMS", "TRIES"}, {"DOMAINS", "LOOKUPS", "SORTLIST"}}
MasksReinit == {{}} \cup Singles \cup {AllButNorotate}
MasksThorough == MasksQuick \cup SUBSET CoreBits
MasksServers == {{}, {"FLAGS"}}

Opts(v, p) == Vals(v) @@ [udp_port |-> Ports(p).udp, tcp_port |-> Ports(p).tcp]

(* ---------------- server lists for the text setter *)
\* sL, sLe, sLd: link-local servers on the interface with the longest legal name (15 characters)
\* s4x, s6x: the extreme ports (65535 on both protocols; 1 and 65535), the full width of every port field of the
\* three text forms, the renderer and the csv round trip
SrvTokens == {"s4", "s4e", "s4d", "s6", "s6e", "s6d", "sl", "sle", "sld", "sL", "sLe", "sLd", "s4x", "s6x"}
SrvDesc(t) == CASE t = "s4"  -> Srv("10.0.0.1", 0, 0, "")      [] t = "s4e" -> Srv("10.0.0.2", 54, 54, "")
                [] t = "s4d" -> Srv("10.0.0.3", 55, 56, "")    [] t = "s6"  -> Srv("2001:db8::1", 0, 0, "")
                [] t = "s6e" -> Srv("2001:db8::2", 54, 54, "") [] t = "s6d" -> Srv("2001:db8::3", 55, 56, "")
                [] t = "sl"  -> Srv("fe80::1", 0, 0, "lo")     [] t = "sle" -> Srv("fe80::2", 54, 54, "lo")
                [] t = "sld" -> Srv("fe80::3", 55, 56, "lo")
                [] t = "sL"  -> Srv("fe80::4", 0, 0, "verylongiface01")
                [] t = "sLe" -> Srv("fe80::5", 54, 54, "verylongiface01")
                [] t = "sLd" -> Srv("fe80::6", 55, 56, "verylongiface01")
                [] t = "s4x" -> Srv("10.0.0.4", MaxPort, MaxPort, "")
                [] t = "s6x" -> Srv("2001:db8::4", 1, MaxPort, "")
Descs(ts) == [k \in 1..Len(ts) |-> SrvDesc(ts[k])]
NoRepeat(ts) == \A i, j \in 1..Len(ts) : i # j => ts[i] # ts[j]
Lists(n) == {ts \in UNION {[1..k -> SrvTokens] : k \in 1..n} : NoRepeat(ts)}
ListsQuick == Lists(2)
ListsThorough == Lists(3)
ListsFew == {<<"s4e", "s6">>, <<"s6d", "s4">>, <<"sl", "s4d">>, <<"sL", "s4">>, <<"sLd", "sle">>}
NoLists == {}

(* ---------------- the machine *)
HostDomain == hostdom
HostsNone == {NoVal}
HostsBoth == {NoVal, "dom.example"}

NoChan == [Blank EXCEPT !.mask = {"none"}]

\* the user-supplied value of every field whose bit is in the mask, in channel representation
UserOf(ch) == [f \in {g \in MaskedFields : FieldBit[g] \in ch.mask} |-> ch[f]]
Merge(u, ch, fs) == [f \in (DOMAIN u) \cup fs |-> IF f \in fs THEN ch[f] ELSE u[f]]

Step(op) == hist' = Append(hist, op)

Init == /\ phase = "start" /\ c = NoChan /\ d = NoChan /\ dkind = "none" /\ user = <<>>
        /\ sysname \in SysChoices /\ hostdom \in HostChoices /\ hist = <<>> /\ nre = 0 /\ nset = 0

DoInit ==
  /\ phase = "start"
  /\ \E m \in MaskChoices, v \in ValChoices, p \in PortChoices :
       LET mask == m \cup Ports(p).bits
           ch   == InitChan(Opts(v, p), mask, SysOf(sysname), HostDomain)
       IN /\ c' = ch
          /\ user' = LET c1 == ByOptions(Opts(v, p), mask) IN UserOf([c1 EXCEPT !.servers = Trim(c1, @)])
          /\ Step([op |-> "init", sys |-> sysname, mask |-> mask, vals |-> v, ports |-> p, expect |-> ch])
  /\ phase' = "live"
  /\ UNCHANGED <<d, dkind, sysname, hostdom, nre, nset>>

\* ares_init(): "equivalent to ares_init_options(channelptr, NULL, 0)"
DoInitPlain ==
  /\ phase = "start" /\ PlainInit
  /\ LET ch == InitChan(<<>>, {}, SysOf(sysname), HostDomain)
     IN /\ c' = ch /\ user' = <<>>
        /\ Step([op |-> "init_plain", sys |-> sysname, expect |-> ch])
  /\ phase' = "live"
  /\ UNCHANGED <<d, dkind, sysname, hostdom, nre, nset>>

DoSetServers ==
  /\ phase = "live" /\ nset = 0 /\ nre = 0
  /\ \E ts \in ServerLists :
       LET ch == SetServers(c, Descs(ts))
       IN /\ c' = ch /\ user' = Merge(user, ch, {"servers"})
          /\ Step([op |-> "set_servers", list |-> ts, expect |-> ch])
  /\ nset' = 1
  /\ UNCHANGED <<phase, d, dkind, sysname, hostdom, nre>>

DoSetSortlist ==
  /\ phase = "live" /\ nset = 0 /\ nre = 0 /\ Stage = "reinit"
  /\ LET ch == SetSortlist(c, <<"13.0.0.0/8", "130.155.160.0/20">>)
     IN /\ c' = ch /\ user' = Merge(user, ch, {"sortlist"})
        /\ Step([op |-> "set_sortlist", expect |-> ch])
  /\ nset' = 1
  /\ UNCHANGED <<phase, d, dkind, sysname, hostdom, nre>>

DoSetLocal ==
  /\ phase = "live" /\ nset = 0 /\ nre = 0 /\ Stage \in {"reinit", "matrix"} /\ c.mask \subseteq {"QUERY_CACHE", "FLAGS"}
  /\ LET ch == SetLocal(c, "lo", 2130706433, "::1")
     IN c' = ch /\ Step([op |-> "set_local", expect |-> ch])
  /\ nset' = 1
  /\ UNCHANGED <<phase, d, dkind, user, sysname, hostdom, nre>>

DoReinit ==
  /\ phase = "live" /\ nre < MaxReinit
  /\ \E p \in SysChoices :
       LET ch == Reinit(c, SysOf(p))
       IN /\ c' = ch /\ sysname' = p
          /\ Step([op |-> "reinit", sys |-> p, expect |-> ch])
  /\ nre' = nre + 1
  /\ UNCHANGED <<phase, d, dkind, user, hostdom, nset>>

CanCopy == phase = "live" /\ Deterministic(c) /\ c.servers # <<>>

DoDup ==
  /\ CanCopy
  /\ LET ch == Dup(c, SysOf(sysname), HostDomain)
     IN /\ d' = ch /\ dkind' = "dup"
        /\ Step([op |-> "dup", expect |-> ch, demand |-> SameEffective(c, ch)])
  /\ phase' = "done"
  /\ UNCHANGED <<c, user, sysname, hostdom, nre, nset>>

DoSave ==
  /\ CanCopy /\ Stage # "reinit"
  /\ LET ch == InitFrom(c, SysOf(sysname), HostDomain)
     IN /\ d' = ch /\ dkind' = "save"
        /\ Step([op |-> "save_init", expect |-> ch,
                 demand |-> SaveExpressible(c) /\ NonOptionDefault(c) /\ SameEffective(c, ch)])
  /\ phase' = "done"
  /\ UNCHANGED <<c, user, sysname, hostdom, nre, nset>>

\* the rendered list fed to the setter of a fresh channel that has the same port options
DoCsv ==
  /\ phase = "live" /\ c.servers # <<>> /\ Stage # "reinit"
  /\ LET base == InitChan([udp_port |-> c.udp_port, tcp_port |-> c.tcp_port],
                          c.mask \cap {"UDP_PORT", "TCP_PORT"}, SysOf(sysname), HostDomain)
         ch   == SetServers(base, c.servers)
     IN /\ d' = ch /\ dkind' = "csv"
        /\ Step([op |-> "csv_roundtrip", expect |-> ch, demand |-> ch.servers = c.servers])
  /\ phase' = "done"
  /\ UNCHANGED <<c, user, sysname, hostdom, nre, nset>>

Next == DoInit \/ DoInitPlain \/ DoSetServers \/ DoSetSortlist \/ DoSetLocal \/ DoReinit \/ DoDup \/ DoSave \/ DoCsv
Spec == Init /\ [][Next]_vars

(* ---------------- C16 on the specification *)
\* settings the application supplied are what the channel holds, at init and after every reinit / setter
UserWins == phase # "start" => \A f \in DOMAIN user : FieldBit[f] \in c.mask /\ c[f] = user[f]
\* rotate is a mask-only setting
UserWinsRotate == phase # "start" => /\ (("ROTATE" \in c.mask /\ "NOROTATE" \notin c.mask) => c.rotate)
                                      /\ ("NOROTATE" \in c.mask => ~c.rotate)
\* a fresh channel (no reinit in between) is duplicated / saved+re-created with the same effective settings
DupEqFresh    == (dkind = "dup" /\ nre = 0) => SameEffective(c, d)
SaveInitFresh == (dkind = "save" /\ nre = 0 /\ SaveExpressible(c) /\ NonOptionDefault(c)) => SameEffective(c, d)
\* ... and so is a channel after ares_reinit, whenever nothing stale is left on it
DupEqSettled  == (dkind = "dup" /\ c = InitFrom(c, SysOf(sysname), HostDomain)) => SameEffective(c, d)
CsvFixpoint   == dkind = "csv" => d.servers = c.servers
\* the mask never loses a bit the application set, never gains one it did not
MaskStable    == phase # "start" => \A f \in DOMAIN user : FieldBit[f] \in c.mask

ChanView(ch) == [mask |-> ch.mask, flags |-> ch.flags, timeout |-> ch.timeout, tries |-> ch.tries, ndots |-> ch.ndots,
                 rotate |-> ch.rotate, udp_port |-> ch.udp_port, tcp_port |-> ch.tcp_port, servers |-> ch.servers,
                 domains |-> ch.domains, lookups |-> ch.lookups, sortlist |-> ch.sortlist, sndbuf |-> ch.sndbuf,
                 rcvbuf |-> ch.rcvbuf, ednspsz |-> ch.ednspsz, udp_max_queries |-> ch.udp_max_queries,
                 maxtimeout |-> ch.maxtimeout, qcache_max_ttl |-> ch.qcache_max_ttl, retry |-> ch.retry,
                 local_dev |-> ch.local_dev, local_ip4 |-> ch.local_ip4, local_ip6 |-> ch.local_ip6]

\* a scenario is complete when a copy was made, or (reinit stage) when the reinit budget is used
Complete == phase = "done" \/ (Stage = "reinit" /\ phase = "live" /\ nre = MaxReinit)

EmitScenario ==
  (Emit /\ Complete) =>
     PrintT(ToJson([kind |-> "c16", stage |-> Stage, user |-> user, hostdom |-> hostdom,
                    steps |-> [k \in 1..Len(hist) |-> [hist[k] EXCEPT !.expect = ChanView(@)]]]))
=============================================================================
