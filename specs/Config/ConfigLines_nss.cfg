\* nsswitch.conf of <= 3 lines over all 12 nsswitch line classes x resolv.conf lookup line present/absent/junk
SPECIFICATION Spec
CONSTANTS
  Alphabet <- LookupAlphabet
  MaxLen = 1
  NssAlphabet <- NssClasses
  MaxNss = 3
  SvcAlphabet <- NoClasses
  MaxNetsvc = 0
  MaxSvc = 0
  LdSet <- LdNone
  RoSet <- RoNone
  Emit = TRUE
INVARIANTS TypeOK InvLineIndependent InvInRange InvChanInRange InvTwinChannel InvTwinReinit EmitScenario
CHECK_DEADLOCK FALSE
