SPECIFICATION Spec
CONSTANTS
  Mode = "Repaired"
  Callers = {"a", "ev"}
  Detached = {"ev"}
  MaxCalls = 2
  NH = 4
INVARIANTS NoRace LocksetOK NoLeak NoDoubleJoin OneUnjoined AllJoined NoUseAfterFree
