SPECIFICATION Spec
CONSTANTS
  Mode = "AsCoded"
  Callers = {"a", "ev"}
  Detached = {"ev"}
  MaxCalls = 2
  NH = 4
INVARIANTS NoUseAfterFree
