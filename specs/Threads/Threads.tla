------------------------------ MODULE Threads ------------------------------
(* Concurrency contract of one c-ares channel with the built-in event       *)
(* thread (properties C11 and the event-thread half of C07).                *)
(*                                                                          *)
(* Threads: client threads (each performs a small program of operations     *)
(* chosen non-deterministically: send / cancel / setsrv / reinit / wait /   *)
(* timed wait), "main" (destroys the channel when every client is done),    *)
(* the event thread "ev", reload threads created by reinit.                 *)
(*                                                                          *)
(* Synchronisation objects are those of Sync.tla: recursive channel lock    *)
(* "chan", event-thread mutex "ev", cond_empty (cwaiting / signalled),      *)
(* thread handles, the reload handle slot.  Plus the wake handle (wakeP:    *)
(* the pipe holds a byte) and the update queue (updQ).                      *)
(*                                                                          *)
(* The event loop has the phases of src/lib/event/ares_event_thread.c:      *)
(*   top (process updates, holding "ev") -> timeout (ares_timeout under     *)
(*   "chan") -> wait (bounded by the timeout, or woken) -> pending-write    *)
(*   -> process fds / timeouts -> top.                                      *)
(*                                                                          *)
(* Time is discrete and relative: every pending request, the event          *)
(* thread's sleep and a timed cond wait carry a count-down; Tick decrements *)
(* them and may not skip an enabled bounded wait (a sleeping thread whose   *)
(* count-down is 0 must wake first).  A running thread may be arbitrarily   *)
(* slow (Tick is allowed while it runs).                                    *)
(*                                                                          *)
(* This is the contract: what any correct implementation must satisfy.      *)
(* In particular a request enqueued by a non-event thread always posts a    *)
(* wake-up (see EvLoop.tla for the loop as coded, which does not), and the  *)
(* reload handle is only touched under the channel lock (see Reinit.tla     *)
(* for ares_reinit as coded, which does not).                               *)
EXTENDS Sync, Sequences, TLC, Json

CONSTANTS
    Clients,      \* e.g. {"c1", "c2"}
    MaxOps,       \* total number of client operations in a behaviour
    MaxReq,       \* number of request ids
    T,            \* first-try timeout in ticks
    MaxTries,     \* tries per request
    WaitTmo,      \* timeout of a timed queue wait, in ticks
    Ops           \* subset of {"send","cancel","setsrv","reinit","wait","waitt"}

Inf == 99
Reqs == 1 .. MaxReq
Reloads == 1 .. 2           \* reload thread handles
EvH == 10                   \* handle of the event thread
RT(h) == IF h = 1 THEN "reload1" ELSE "reload2"

VARIABLES
    pc, op,           \* per client / "main": control state, current operation
    rq,               \* request -> [st, rem, tries, ans]
    cbs,              \* request -> number of callbacks delivered
    wakeP, updQ,      \* wake handle has a byte; queued socket-interest updates
    evpc, evRem,      \* event thread control state; its sleep count-down
    evUp, up,         \* e->isup, channel->sys_up
    rpend,            \* channel->reinit_pending
    rl,               \* reload handle -> "none" | "r1".."r4" | "fin"
    signalled,        \* waiters that a broadcast has woken (must still re-lock)
    wrem,             \* client -> count-down of its timed wait (Inf: untimed)
    wret,             \* client -> result of its last queue wait
    nops, dead,       \* operations begun; channel destroyed
    hist, cidx, retd  \* ghost: schedule history for test generation

vars == <<syncVars, pc, op, rq, cbs, wakeP, updQ, evpc, evRem, evUp, up, rpend, rl,
          signalled, wrem, wret, nops, dead, hist, cidx, retd>>

Actors == Clients \cup {"main"}

Pending == {r \in Reqs : rq[r].st = "pending"}
NoneLeft == Pending = {}
FreeReq == {r \in Reqs : rq[r].st = "none"}

Min(S) == CHOOSE x \in S : \A y \in S : x <= y
Dec(x) == IF x = Inf \/ x = 0 THEN x ELSE x - 1

Init ==
    /\ SyncInit
    /\ pc = [a \in Actors |-> "idle"]
    /\ op = [a \in Actors |-> "none"]
    /\ rq = [r \in Reqs |-> [st |-> "none", rem |-> 0, tries |-> 0, ans |-> FALSE]]
    /\ cbs = [r \in Reqs |-> 0]
    /\ wakeP = FALSE /\ updQ = 0
    /\ evpc = "start" /\ evRem = Inf
    /\ evUp = TRUE /\ up = TRUE /\ rpend = FALSE
    /\ rl = [h \in Reloads |-> "none"]
    /\ signalled = {}
    /\ wrem = [c \in Clients |-> Inf]
    /\ wret = [c \in Clients |-> "none"]
    /\ nops = 0 /\ dead = FALSE
    /\ hist = <<>> /\ cidx = [c \in Clients |-> 0] /\ retd = {}

(* ----- helpers ----------------------------------------------------------- *)
Goto(a, s) == pc' = [pc EXCEPT ![a] = s]
\* complete request r with a callback
Complete(q, S) == [r \in Reqs |-> IF r \in S THEN [q[r] EXCEPT !.st = "done", !.ans = FALSE] ELSE q[r]]
Called(S) == [r \in Reqs |-> IF r \in S THEN cbs[r] + 1 ELSE cbs[r]]
\* ares_queue_notify_empty() under the channel lock
Notify(q) == IF {r \in Reqs : q[r].st = "pending"} = {} THEN signalled \cup cwaiting ELSE signalled

EvPhase ==
    CASE evpc \in {"top", "timeout"}                 -> "timeout"
      [] evpc = "wait"                               -> "wait"
      [] evpc \in {"pw", "pw2", "chk"}               -> "woken"
      [] evpc \in {"proc"}                           -> "process"
      [] OTHER                                       -> "any"

(* ----- client operations --------------------------------------------------- *)
Begin(c, o) ==
    /\ pc[c] = "idle" /\ nops < MaxOps /\ pc["main"] = "idle" /\ ~dead
    /\ o = "send" => Cardinality(FreeReq) > Cardinality({d \in Clients : op[d] = "send" /\ pc[d] \in {"lock", "send"}})
    /\ op' = [op EXCEPT ![c] = o]
    /\ Goto(c, "lock")
    /\ nops' = nops + 1
    /\ wrem' = [wrem EXCEPT ![c] = IF o = "waitt" THEN WaitTmo ELSE Inf]
    /\ hist' = Append(hist, [t |-> c, op |-> o, ph |-> EvPhase, after |-> retd])
    /\ cidx' = [cidx EXCEPT ![c] = Len(hist) + 1]
    /\ UNCHANGED <<syncVars, rq, cbs, wakeP, updQ, evpc, evRem, evUp, up, rpend, rl, signalled, wret, dead, retd>>

\* every public entry point starts by taking the channel lock
CLock(c) ==
    /\ pc[c] = "lock" /\ LockFree(c, "chan")
    /\ DoLock(c, "chan")
    /\ Goto(c, op[c])
    /\ UNCHANGED <<cwaiting, live, joined, slot, rlive, op, rq, cbs, wakeP, updQ, evpc, evRem, evUp, up, rpend, rl,
                   signalled, wrem, wret, nops, dead, hist, cidx, retd>>

\* ares_send*: enqueue with a deadline; either a new socket is opened (interest
\* change -> update queue + wake under "ev") or a connection is reused: the
\* contract still demands a wake-up, since the event thread may be asleep with
\* a timeout computed before this request existed
SendBody(c) ==
    /\ pc[c] = "send" /\ Holds(c, "chan")
    /\ LET r == Min(FreeReq) IN
       rq' = [rq EXCEPT ![r] = [st |-> "pending", rem |-> T, tries |-> 1, ans |-> FALSE]]
    /\ \/ Goto(c, "upd") /\ UNCHANGED wakeP               \* fresh socket
       \/ Goto(c, "unlock") /\ wakeP' = TRUE              \* reuse: wake directly
    /\ UNCHANGED <<syncVars, op, cbs, updQ, evpc, evRem, evUp, up, rpend, rl, signalled, wrem, wret, nops, dead,
                   hist, cidx, retd>>

\* ares_event_update(): "ev" mutex taken while holding "chan" (order chan -> ev)
UpdLock(a) ==
    /\ pc[a] = "upd" /\ LockFree(a, "ev")
    /\ DoLock(a, "ev")
    /\ Goto(a, "upd2")
    /\ UNCHANGED <<cwaiting, live, joined, slot, rlive, op, rq, cbs, wakeP, updQ, evpc, evRem, evUp, up, rpend, rl,
                   signalled, wrem, wret, nops, dead, hist, cidx, retd>>
UpdPush(a) ==
    /\ pc[a] = "upd2" /\ Holds(a, "ev")
    /\ updQ' = IF updQ < 2 THEN updQ + 1 ELSE updQ
    /\ wakeP' = TRUE
    /\ DoUnlock(a, "ev")
    /\ Goto(a, IF a = "main" THEN "d_unlock2" ELSE "unlock")
    /\ UNCHANGED <<cwaiting, live, joined, slot, rlive, op, rq, cbs, evpc, evRem, evUp, up, rpend, rl,
                   signalled, wrem, wret, nops, dead, hist, cidx, retd>>

\* ares_cancel(): callback ECANCELLED for everything pending at entry, notify
CancelBody(c) ==
    /\ pc[c] = "cancel" /\ Holds(c, "chan")
    /\ rq' = Complete(rq, Pending)
    /\ cbs' = Called(Pending)
    /\ signalled' = Notify(rq')
    /\ Goto(c, "unlock")
    /\ UNCHANGED <<syncVars, op, wakeP, updQ, evpc, evRem, evUp, up, rpend, rl, wrem, wret, nops, dead, hist, cidx, retd>>

\* ares_set_servers_*(): connections closed, pending requests re-sent with a
\* fresh timeout; interest changes -> update + wake
SetSrvBody(c) ==
    /\ pc[c] = "setsrv" /\ Holds(c, "chan")
    /\ rq' = [r \in Reqs |-> IF r \in Pending THEN [rq[r] EXCEPT !.rem = T, !.ans = FALSE] ELSE rq[r]]
    /\ Goto(c, "upd")
    /\ UNCHANGED <<syncVars, op, cbs, wakeP, updQ, evpc, evRem, evUp, up, rpend, rl, signalled, wrem, wret, nops,
                   dead, hist, cidx, retd>>

\* ares_reinit(), contract form: flag, join of the previous reload thread,
\* creation and publication of the new one all under the channel lock
ReinitCheck(c) ==
    /\ pc[c] = "reinit" /\ Holds(c, "chan")
    /\ IF ~up \/ rpend
         THEN Goto(c, "unlock") /\ UNCHANGED rpend
         ELSE Goto(c, "ri_join") /\ rpend' = TRUE
    /\ UNCHANGED <<syncVars, op, rq, cbs, wakeP, updQ, evpc, evRem, evUp, up, rl, signalled, wrem, wret, nops, dead,
                   hist, cidx, retd>>
ReinitJoin(c) ==
    /\ pc[c] = "ri_join" /\ Holds(c, "chan")
    /\ IF slot = 0
         THEN UNCHANGED <<live, joined, rlive, slot>>
         ELSE rl[slot] = "fin" /\ JoinOK(slot) /\ DoJoin(slot) /\ slot' = 0
    /\ Goto(c, "ri_create")
    /\ UNCHANGED <<owner, depth, cwaiting, op, rq, cbs, wakeP, updQ, evpc, evRem, evUp, up, rpend, rl, signalled,
                   wrem, wret, nops, dead, hist, cidx, retd>>
ReinitCreate(c) ==
    /\ pc[c] = "ri_create" /\ Holds(c, "chan")
    /\ \E h \in Reloads :
         /\ rl[h] \in {"none", "fin"} /\ h \notin live
         /\ ReloadCreateOK /\ SlotWriteOK(h)
         /\ live' = live \cup {h} /\ rlive' = rlive \cup {h} /\ joined' = joined \ {h}
         /\ slot' = h
         /\ rl' = [rl EXCEPT ![h] = "r1"]
    /\ Goto(c, "unlock")
    /\ UNCHANGED <<owner, depth, cwaiting, op, rq, cbs, wakeP, updQ, evpc, evRem, evUp, up, rpend, signalled,
                   wrem, wret, nops, dead, hist, cidx, retd>>

\* ares_queue_wait_empty(timeout)
WaitCheck(c) ==
    /\ pc[c] \in {"wait", "waitt"} /\ Holds(c, "chan")
    /\ IF NoneLeft
         THEN Goto(c, "unlock") /\ wret' = [wret EXCEPT ![c] = "ok"] /\ UNCHANGED <<owner, depth, cwaiting>>
         ELSE IF wrem[c] = 0
           THEN Goto(c, "unlock") /\ wret' = [wret EXCEPT ![c] = "timeout"] /\ UNCHANGED <<owner, depth, cwaiting>>
           ELSE CWaitOK(c, "chan") /\ DoCWait(c, "chan") /\ Goto(c, "w_sleep") /\ UNCHANGED wret
    /\ UNCHANGED <<live, joined, slot, rlive, op, rq, cbs, wakeP, updQ, evpc, evRem, evUp, up, rpend, rl, signalled,
                   wrem, nops, dead, hist, cidx, retd>>
\* the wait returns (broadcast, timeout, or spuriously) once the mutex is free
WaitWakeAny(c) ==
    /\ pc[c] = "w_sleep" /\ CWakeOK(c, "chan")
    /\ DoCWake(c, "chan")
    /\ signalled' = signalled \ {c}
    /\ Goto(c, op[c])
    /\ UNCHANGED <<live, joined, slot, rlive, op, rq, cbs, wakeP, updQ, evpc, evRem, evUp, up, rpend, rl,
                   wrem, wret, nops, dead, hist, cidx, retd>>

WaitWake(c) == (c \in signalled \/ wrem[c] = 0) /\ WaitWakeAny(c)
WaitSpurious(c) == ~(c \in signalled \/ wrem[c] = 0) /\ WaitWakeAny(c)

CUnlock(c) ==
    /\ pc[c] = "unlock" /\ UnlockOK(c, "chan")
    /\ DoUnlock(c, "chan")
    /\ Goto(c, "idle")
    /\ retd' = retd \cup {cidx[c]}
    /\ UNCHANGED <<cwaiting, live, joined, slot, rlive, op, rq, cbs, wakeP, updQ, evpc, evRem, evUp, up, rpend, rl,
                   signalled, wrem, wret, nops, dead, hist, cidx>>

(* ----- ares_destroy() by "main", once every client is done ------------------ *)
DBegin ==
    /\ pc["main"] = "idle" /\ ~dead /\ \A c \in Clients : pc[c] = "idle"
    /\ Goto("main", "d_lock1")
    /\ UNCHANGED <<syncVars, op, rq, cbs, wakeP, updQ, evpc, evRem, evUp, up, rpend, rl, signalled, wrem, wret,
                   nops, dead, hist, cidx, retd>>
DLock1 ==
    /\ pc["main"] = "d_lock1" /\ LockFree("main", "chan")
    /\ DoLock("main", "chan") /\ Goto("main", "d_down")
    /\ UNCHANGED <<cwaiting, live, joined, slot, rlive, op, rq, cbs, wakeP, updQ, evpc, evRem, evUp, up, rpend, rl,
                   signalled, wrem, wret, nops, dead, hist, cidx, retd>>
DDown ==
    /\ pc["main"] = "d_down" /\ UnlockOK("main", "chan")
    /\ up' = FALSE
    /\ DoUnlock("main", "chan") /\ Goto("main", "d_join")
    /\ UNCHANGED <<cwaiting, live, joined, slot, rlive, op, rq, cbs, wakeP, updQ, evpc, evRem, evUp, rpend, rl,
                   signalled, wrem, wret, nops, dead, hist, cidx, retd>>
\* wait for the reload thread, holding no lock (it takes the channel lock)
DJoin ==
    /\ pc["main"] = "d_join"
    /\ IF slot = 0
         THEN UNCHANGED <<live, joined, rlive, slot>>
         ELSE rl[slot] = "fin" /\ JoinOK(slot) /\ DoJoin(slot) /\ slot' = 0
    /\ Goto("main", "d_lock2")
    /\ UNCHANGED <<owner, depth, cwaiting, op, rq, cbs, wakeP, updQ, evpc, evRem, evUp, up, rpend, rl, signalled,
                   wrem, wret, nops, dead, hist, cidx, retd>>
DLock2 ==
    /\ pc["main"] = "d_lock2" /\ LockFree("main", "chan")
    /\ DoLock("main", "chan") /\ Goto("main", "d_kill")
    /\ UNCHANGED <<cwaiting, live, joined, slot, rlive, op, rq, cbs, wakeP, updQ, evpc, evRem, evUp, up, rpend, rl,
                   signalled, wrem, wret, nops, dead, hist, cidx, retd>>
\* EDESTRUCTION for everything pending, notify, sockets closed (update + wake)
DKill ==
    /\ pc["main"] = "d_kill" /\ Holds("main", "chan")
    /\ rq' = Complete(rq, Pending)
    /\ cbs' = Called(Pending)
    /\ signalled' = Notify(rq')
    /\ Goto("main", "upd")
    /\ UNCHANGED <<syncVars, op, wakeP, updQ, evpc, evRem, evUp, up, rpend, rl, wrem, wret, nops, dead, hist, cidx, retd>>
DUnlock2 ==
    /\ pc["main"] = "d_unlock2" /\ UnlockOK("main", "chan")
    /\ DoUnlock("main", "chan") /\ Goto("main", "d_evlock")
    /\ UNCHANGED <<cwaiting, live, joined, slot, rlive, op, rq, cbs, wakeP, updQ, evpc, evRem, evUp, up, rpend, rl,
                   signalled, wrem, wret, nops, dead, hist, cidx, retd>>
\* ares_event_thread_destroy_int(): isup := FALSE and wake, under "ev"
DEvLock ==
    /\ pc["main"] = "d_evlock" /\ LockFree("main", "ev")
    /\ DoLock("main", "ev") /\ Goto("main", "d_evdown")
    /\ UNCHANGED <<cwaiting, live, joined, slot, rlive, op, rq, cbs, wakeP, updQ, evpc, evRem, evUp, up, rpend, rl,
                   signalled, wrem, wret, nops, dead, hist, cidx, retd>>
DEvDown ==
    /\ pc["main"] = "d_evdown" /\ UnlockOK("main", "ev")
    /\ evUp' = FALSE /\ wakeP' = TRUE
    /\ DoUnlock("main", "ev") /\ Goto("main", "d_evjoin")
    /\ UNCHANGED <<cwaiting, live, joined, slot, rlive, op, rq, cbs, updQ, evpc, evRem, up, rpend, rl,
                   signalled, wrem, wret, nops, dead, hist, cidx, retd>>
DEvJoin ==
    /\ pc["main"] = "d_evjoin" /\ evpc = "exited" /\ JoinOK(EvH)
    /\ DoJoin(EvH)
    /\ dead' = TRUE /\ Goto("main", "gone")
    /\ UNCHANGED <<owner, depth, cwaiting, slot, op, rq, cbs, wakeP, updQ, evpc, evRem, evUp, up, rpend, rl,
                   signalled, wrem, wret, nops, hist, cidx, retd>>

(* ----- the event thread ---------------------------------------------------- *)
EvGoto(s) == evpc' = s
EvStart ==
    /\ evpc = "start" /\ LockFree("ev", "ev")
    /\ DoLock("ev", "ev") /\ EvGoto("top")
    /\ live' = live \cup {EvH}
    /\ UNCHANGED <<cwaiting, joined, slot, rlive, pc, op, rq, cbs, wakeP, updQ, evRem, evUp, up, rpend, rl,
                   signalled, wrem, wret, nops, dead, hist, cidx, retd>>
\* while (e->isup) { process updates; unlock
EvTop ==
    /\ evpc = "top" /\ UnlockOK("ev", "ev")
    /\ DoUnlock("ev", "ev")
    /\ IF evUp THEN updQ' = 0 /\ EvGoto("timeout") ELSE UNCHANGED updQ /\ EvGoto("exited")
    /\ UNCHANGED <<cwaiting, live, joined, slot, rlive, pc, op, rq, cbs, wakeP, evRem, evUp, up, rpend, rl,
                   signalled, wrem, wret, nops, dead, hist, cidx, retd>>
\* ares_timeout(): under the channel lock
EvTimeoutLock ==
    /\ evpc = "timeout" /\ LockFree("ev", "chan")
    /\ DoLock("ev", "chan") /\ EvGoto("timeout2")
    /\ UNCHANGED <<cwaiting, live, joined, slot, rlive, pc, op, rq, cbs, wakeP, updQ, evRem, evUp, up, rpend, rl,
                   signalled, wrem, wret, nops, dead, hist, cidx, retd>>
EvTimeout ==
    /\ evpc = "timeout2" /\ UnlockOK("ev", "chan")
    /\ evRem' = IF NoneLeft THEN Inf ELSE Min({rq[r].rem : r \in Pending})
    /\ DoUnlock("ev", "chan") /\ EvGoto("wait")
    /\ UNCHANGED <<cwaiting, live, joined, slot, rlive, pc, op, rq, cbs, wakeP, updQ, evUp, up, rpend, rl,
                   signalled, wrem, wret, nops, dead, hist, cidx, retd>>
\* ev_sys->wait(): returns when woken, when a socket is readable, or when the
\* timeout expires; a spurious return is always possible
Readable == \E r \in Pending : rq[r].ans
EvWaitExit ==
    /\ evpc = "wait"
    /\ wakeP' = FALSE
    /\ EvGoto(IF Readable THEN "rd" ELSE "pw")
    /\ UNCHANGED <<syncVars, pc, op, rq, cbs, updQ, evRem, evUp, up, rpend, rl, signalled, wrem, wret, nops, dead,
                   hist, cidx, retd>>
EvWaitReal == (wakeP \/ Readable \/ evRem = 0) /\ EvWaitExit
EvSpurious == ~(wakeP \/ Readable \/ evRem = 0) /\ EvWaitExit
\* read_answers(): under the channel lock, inside the wait function
EvReadLock ==
    /\ evpc = "rd" /\ LockFree("ev", "chan")
    /\ DoLock("ev", "chan") /\ EvGoto("rd2")
    /\ UNCHANGED <<cwaiting, live, joined, slot, rlive, pc, op, rq, cbs, wakeP, updQ, evRem, evUp, up, rpend, rl,
                   signalled, wrem, wret, nops, dead, hist, cidx, retd>>
EvRead ==
    /\ evpc = "rd2" /\ UnlockOK("ev", "chan")
    /\ LET A == {r \in Pending : rq[r].ans} IN
       /\ rq' = Complete(rq, A)
       /\ cbs' = Called(A)
       /\ signalled' = Notify(rq')
    /\ DoUnlock("ev", "chan") /\ EvGoto("pw")
    /\ UNCHANGED <<cwaiting, live, joined, slot, rlive, pc, op, wakeP, updQ, evRem, evUp, up, rpend, rl,
                   wrem, wret, nops, dead, hist, cidx, retd>>
\* pending-write flag read and cleared under "ev"
EvPwLock ==
    /\ evpc = "pw" /\ LockFree("ev", "ev")
    /\ DoLock("ev", "ev") /\ EvGoto("pw2")
    /\ UNCHANGED <<cwaiting, live, joined, slot, rlive, pc, op, rq, cbs, wakeP, updQ, evRem, evUp, up, rpend, rl,
                   signalled, wrem, wret, nops, dead, hist, cidx, retd>>
EvPwUnlock ==
    /\ evpc = "pw2" /\ UnlockOK("ev", "ev")
    /\ DoUnlock("ev", "ev") /\ EvGoto("chk")
    /\ UNCHANGED <<cwaiting, live, joined, slot, rlive, pc, op, rq, cbs, wakeP, updQ, evRem, evUp, up, rpend, rl,
                   signalled, wrem, wret, nops, dead, hist, cidx, retd>>
\* re-lock, look at isup; if up: unlock and process, else back to the top holding "ev"
EvChk ==
    /\ evpc = "chk" /\ LockFree("ev", "ev")
    /\ IF evUp
         THEN EvGoto("proc") /\ UNCHANGED <<owner, depth>>
         ELSE DoLock("ev", "ev") /\ EvGoto("top")
    /\ UNCHANGED <<cwaiting, live, joined, slot, rlive, pc, op, rq, cbs, wakeP, updQ, evRem, evUp, up, rpend, rl,
                   signalled, wrem, wret, nops, dead, hist, cidx, retd>>
\* ares_process_fds(NULL): timeouts under the channel lock
EvProcLock ==
    /\ evpc = "proc" /\ LockFree("ev", "chan")
    /\ DoLock("ev", "chan") /\ EvGoto("proc2")
    /\ UNCHANGED <<cwaiting, live, joined, slot, rlive, pc, op, rq, cbs, wakeP, updQ, evRem, evUp, up, rpend, rl,
                   signalled, wrem, wret, nops, dead, hist, cidx, retd>>
EvProc ==
    /\ evpc = "proc2" /\ UnlockOK("ev", "chan")
    /\ LET Due  == {r \in Pending : rq[r].rem = 0}
           Fail == {r \in Due : rq[r].tries >= MaxTries}
           q1   == [r \in Reqs |-> IF r \in Due \ Fail
                                     THEN [rq[r] EXCEPT !.tries = @ + 1, !.rem = 2 * T]
                                     ELSE rq[r]]
       IN /\ rq' = Complete(q1, Fail)
          /\ cbs' = Called(Fail)
          /\ signalled' = Notify(rq')
    /\ DoUnlock("ev", "chan") /\ EvGoto("relock")
    /\ UNCHANGED <<cwaiting, live, joined, slot, rlive, pc, op, wakeP, updQ, evRem, evUp, up, rpend, rl,
                   wrem, wret, nops, dead, hist, cidx, retd>>
EvRelock ==
    /\ evpc = "relock" /\ LockFree("ev", "ev")
    /\ DoLock("ev", "ev") /\ EvGoto("top")
    /\ UNCHANGED <<cwaiting, live, joined, slot, rlive, pc, op, rq, cbs, wakeP, updQ, evRem, evUp, up, rpend, rl,
                   signalled, wrem, wret, nops, dead, hist, cidx, retd>>

(* ----- reload thread (ares_reinit_thread) --------------------------------- *)
\* r1: read the configuration (no lock), lock; r2: apply, unlock; r3: lock;
\* r4: flush cache, reinit_pending := FALSE, unlock; fin
Reload(h) ==
    /\ rl[h] \in {"r1", "r2", "r3", "r4"}
    /\ LET me == RT(h) IN
       CASE rl[h] = "r1" -> LockFree(me, "chan") /\ DoLock(me, "chan") /\ rl' = [rl EXCEPT ![h] = "r2"] /\ UNCHANGED rpend
         [] rl[h] = "r2" -> UnlockOK(me, "chan") /\ DoUnlock(me, "chan") /\ rl' = [rl EXCEPT ![h] = "r3"] /\ UNCHANGED rpend
         [] rl[h] = "r3" -> LockFree(me, "chan") /\ DoLock(me, "chan") /\ rl' = [rl EXCEPT ![h] = "r4"] /\ UNCHANGED rpend
         [] rl[h] = "r4" -> UnlockOK(me, "chan") /\ DoUnlock(me, "chan") /\ rl' = [rl EXCEPT ![h] = "fin"] /\ rpend' = FALSE
    /\ UNCHANGED <<cwaiting, live, joined, slot, rlive, pc, op, rq, cbs, wakeP, updQ, evpc, evRem, evUp, up,
                   signalled, wrem, wret, nops, dead, hist, cidx, retd>>

(* ----- environment --------------------------------------------------------- *)
\* the server answers a pending request (its socket becomes readable)
Answer(r) ==
    /\ rq[r].st = "pending" /\ ~rq[r].ans
    /\ rq' = [rq EXCEPT ![r].ans = TRUE]
    /\ UNCHANGED <<syncVars, pc, op, cbs, wakeP, updQ, evpc, evRem, evUp, up, rpend, rl, signalled, wrem, wret, nops,
                   dead, hist, cidx, retd>>

\* time passes: not past the expiry of a bounded wait that a sleeping thread is in
SomeTimer == (\E r \in Pending : rq[r].rem > 0) \/ evRem \notin {0, Inf} \/ (\E c \in Clients : wrem[c] \notin {0, Inf})
Tick ==
    /\ SomeTimer
    /\ ~(evpc = "wait" /\ evRem = 0)
    /\ \A c \in Clients : ~(pc[c] = "w_sleep" /\ wrem[c] = 0)
    /\ rq' = [r \in Reqs |-> IF r \in Pending THEN [rq[r] EXCEPT !.rem = Dec(@)] ELSE rq[r]]
    /\ evRem' = IF evpc = "wait" THEN Dec(evRem) ELSE evRem
    /\ wrem' = [c \in Clients |-> IF pc[c] \in {"w_sleep", "wait", "waitt", "lock"} THEN Dec(wrem[c]) ELSE wrem[c]]
    /\ UNCHANGED <<syncVars, pc, op, cbs, wakeP, updQ, evpc, evUp, up, rpend, rl, signalled, wret, nops, dead,
                   hist, cidx, retd>>

\* legitimate rest: channel destroyed, or nothing outstanding and nobody active
Quiet ==
    \/ dead
    \/ /\ \A a \in Actors : pc[a] = "idle"
       /\ NoneLeft /\ evpc = "wait" /\ ~wakeP /\ \A h \in Reloads : rl[h] \in {"none", "fin"}
Rest == Quiet /\ UNCHANGED vars

ClientStep(c) ==
    \/ CLock(c) \/ SendBody(c) \/ UpdLock(c) \/ UpdPush(c) \/ CancelBody(c) \/ SetSrvBody(c)
    \/ ReinitCheck(c) \/ ReinitJoin(c) \/ ReinitCreate(c) \/ WaitCheck(c) \/ WaitWake(c) \/ CUnlock(c)
MainStep ==
    \/ DLock1 \/ DDown \/ DJoin \/ DLock2 \/ DKill \/ UpdLock("main") \/ UpdPush("main") \/ DUnlock2
    \/ DEvLock \/ DEvDown \/ DEvJoin
EvStep ==
    \/ EvStart \/ EvTop \/ EvTimeoutLock \/ EvTimeout \/ EvWaitReal \/ EvReadLock \/ EvRead \/ EvPwLock
    \/ EvPwUnlock \/ EvChk \/ EvProcLock \/ EvProc \/ EvRelock
ReloadStep == \E h \in Reloads : Reload(h)

Next ==
    \/ \E c \in Clients, o \in Ops : Begin(c, o)
    \/ \E c \in Clients : ClientStep(c)
    \/ DBegin \/ MainStep
    \/ EvStep \/ EvSpurious
    \/ \E c \in Clients : WaitSpurious(c)
    \/ ReloadStep
    \/ \E r \in Reqs : Answer(r)
    \/ Tick
    \/ Rest

Spec == Init /\ [][Next]_vars

\* fairness: threads that can run do run (strong fairness: a mutex that becomes
\* free again and again is eventually obtained), time passes; clients are not obliged
\* to begin operations (no client action is needed for requests to complete)
Fair ==
    /\ \A c \in Clients : SF_vars(ClientStep(c))
    /\ SF_vars(MainStep) /\ SF_vars(EvStep) /\ SF_vars(ReloadStep) /\ WF_vars(Tick)
LiveSpec == Spec /\ Fair

(* ----- properties ---------------------------------------------------------- *)
AllThreads == Actors \cup {"ev"} \cup {RT(h) : h \in Reloads}

TypeOK ==
    /\ SyncTypeOK
    /\ \A r \in Reqs : cbs[r] \in 0 .. 2
    /\ evRem \in (0 .. 2 * T) \cup {Inf}

\* exactly one callback per request
ExactlyOnce == \A r \in Reqs : cbs[r] = IF rq[r].st = "done" THEN 1 ELSE 0

\* mutual exclusion: steps that touch channel state run under the channel lock
TouchesChannel(a) == pc[a] \in {"send", "cancel", "setsrv", "reinit", "ri_join", "ri_create", "wait", "waitt",
                                "upd", "upd2", "unlock", "d_down", "d_kill", "d_unlock2"}
MutualExclusion ==
    /\ \A a \in Actors : TouchesChannel(a) => AccessOK(a)
    /\ evpc \in {"timeout2", "rd2", "proc2"} => AccessOK("ev")
    /\ \A h \in Reloads : rl[h] \in {"r2", "r4"} => AccessOK(RT(h))
    /\ Cardinality({a \in Actors : TouchesChannel(a)}
                   \cup (IF evpc \in {"timeout2", "rd2", "proc2"} THEN {"ev"} ELSE {})
                   \cup {RT(h) : h \in {x \in Reloads : rl[x] \in {"r2", "r4"}}}) <= 1

\* lock order: whoever is about to take the channel lock does not hold "ev"
AboutToLockChan(x) ==
    \/ x \in Actors /\ pc[x] \in {"lock", "d_lock1", "d_lock2", "w_sleep"}
    \/ x = "ev" /\ evpc \in {"timeout", "rd", "proc"}
LockOrder == \A x \in Actors \cup {"ev"} : AboutToLockChan(x) => LockOrderOK(x, "chan")
\* the event thread sleeps without any lock
SleepsUnlocked == evpc = "wait" => \A m \in Mutexes : ~Holds("ev", m)

\* no lost wake-up: a sleeper on cond_empty that nobody has signalled implies
\* that something is outstanding (looked at when no critical section is open)
NoLostWakeup ==
    owner["chan"] = NoThread =>
        \A c \in Clients : (pc[c] = "w_sleep" /\ c \notin signalled) => ~NoneLeft

\* success of a queue wait only when nothing is outstanding at return
WaitEmptySound ==
    [][\A c \in Clients : (wret'[c] = "ok" /\ pc[c] \in {"wait", "waitt"} /\ pc'[c] = "unlock")
          => {r \in Reqs : rq'[r].st = "pending"} = {}]_vars

\* at most one reload thread; every created thread is joined before the end
OneReload == Cardinality({h \in Reloads : rl[h] \in {"r1", "r2", "r3", "r4"}}) <= 1
AllJoined == dead => live = {}
NothingAfterDeath == dead => (\A r \in Reqs : rq[r].st # "pending") /\ evpc = "exited"
                             /\ \A h \in Reloads : rl[h] \in {"none", "fin"}

\* C07: the event thread never sleeps past a pending deadline (checked when no
\* critical section is open and no wake-up is posted)
NoOutwait ==
    (evpc = "wait" /\ ~wakeP /\ owner["chan"] = NoThread) =>
        \A r \in Pending : evRem <= rq[r].rem

\* C07 / C11 liveness: every request completes with no client action
Completes == \A r \in Reqs : (rq[r].st = "pending") ~> (rq[r].st = "done")
\* C11 liveness: a queue wait returns once nothing is outstanding
WaitReturns == \A c \in Clients : (pc[c] = "w_sleep" /\ NoneLeft) ~> (pc[c] # "w_sleep")

(* ----- test generation ----------------------------------------------------- *)
\* printed at the end of each behaviour of the generator configuration
Gen == (dead /\ Len(hist) > 0) => PrintT(ToJson([sched |-> hist]))
View == <<syncVars, pc, op, rq, cbs, wakeP, updQ, evpc, evRem, evUp, up, rpend, rl, signalled, wrem, wret, nops, dead>>
=============================================================================
