------------------------------- MODULE Sync -------------------------------
(* Synchronisation primitives of the c-ares threading layer                 *)
(* (src/lib/util/ares_threads.c) as state + discipline predicates.          *)
(*                                                                          *)
(* Used twice: Threads.tla composes them into the concurrency contract      *)
(* (client operations, event loop, reload thread) and ThreadsTrace.tla maps *)
(* every H3 event recorded from the real library onto one primitive, so the *)
(* same predicates decide both the model and the implementation traces.     *)
(*                                                                          *)
(*   mutexes  "chan" = channel->lock (recursive), "ev" = event thread mutex *)
(*   cwaiting threads blocked on channel->cond_empty                        *)
(*   live / joined   thread handles created / joined                        *)
(*   slot     value of channel->reinit_thread (0 = NULL)                    *)
(*   rlive    reload threads (created through that slot) not yet joined     *)
EXTENDS Naturals, FiniteSets

CONSTANT NoThread

VARIABLES owner, depth, cwaiting, live, joined, slot, rlive

syncVars == <<owner, depth, cwaiting, live, joined, slot, rlive>>

Mutexes == {"chan", "ev"}

SyncInit ==
    /\ owner = [m \in Mutexes |-> NoThread]
    /\ depth = [m \in Mutexes |-> 0]
    /\ cwaiting = {}
    /\ live = {}
    /\ joined = {}
    /\ slot = 0
    /\ rlive = {}

Holds(t, m) == owner[m] = t

(* ---- discipline predicates ------------------------------------------- *)
\* a mutex can be taken when free or (recursive) already owned by the taker
LockFree(t, m) == owner[m] \in {NoThread, t}
\* lock order: the event-thread mutex is never held while taking the channel lock
LockOrderOK(t, m) == (m = "chan") => ~Holds(t, "ev")
\* only the owner unlocks
UnlockOK(t, m) == Holds(t, m) /\ depth[m] > 0
\* a condition wait needs the mutex, held exactly once (a recursive hold would
\* not be released by the wait: every other thread then blocks for ever)
CWaitOK(t, m) == Holds(t, m) /\ depth[m] = 1
\* a wait returns with the mutex re-acquired: it must have been free
CWakeOK(t, m) == t \in cwaiting /\ owner[m] = NoThread
\* cond_empty is signalled under the channel lock
BcastOK(t) == Holds(t, "chan")
\* channel state is only touched under the channel lock
AccessOK(t) == Holds(t, "chan")
\* a handle is joined once, and only if it was created
JoinOK(h) == h \in live
CreateOK(h) == h \notin live /\ h \notin joined
\* at most one reload thread: a new one is created only when the previous one
\* has been joined
ReloadCreateOK == rlive = {}
\* the slot is never overwritten while it names an unjoined thread
SlotWriteOK(h) == slot = 0 \/ slot = h \/ slot \in joined

(* ---- effects ----------------------------------------------------------- *)
DoLock(t, m) ==
    /\ owner' = [owner EXCEPT ![m] = t]
    /\ depth' = [depth EXCEPT ![m] = @ + 1]

DoUnlock(t, m) ==
    /\ depth' = [depth EXCEPT ![m] = IF @ > 0 THEN @ - 1 ELSE 0]
    /\ owner' = [owner EXCEPT ![m] = IF depth[m] <= 1 THEN NoThread ELSE @]

DoCWait(t, m) ==
    /\ owner' = [owner EXCEPT ![m] = NoThread]
    /\ depth' = [depth EXCEPT ![m] = 0]
    /\ cwaiting' = cwaiting \cup {t}

DoCWake(t, m) ==
    /\ owner' = [owner EXCEPT ![m] = t]
    /\ depth' = [depth EXCEPT ![m] = 1]
    /\ cwaiting' = cwaiting \ {t}

DoCreate(h, isReload) ==
    /\ live' = live \cup {h}
    /\ rlive' = IF isReload THEN rlive \cup {h} ELSE rlive

DoJoin(h) ==
    /\ live' = live \ {h}
    /\ joined' = joined \cup {h}
    /\ rlive' = rlive \ {h}

(* ---- invariants of any state built from these primitives -------------- *)
SyncTypeOK ==
    /\ \A m \in Mutexes : (owner[m] = NoThread) <=> (depth[m] = 0)
    /\ live \cap joined = {}
    /\ rlive \subseteq live

\* mutual exclusion is structural (one owner per mutex); what can go wrong is
\* a waiter that also owns the mutex
WaitersDoNotOwn == \A t \in cwaiting : ~Holds(t, "chan")
=============================================================================
