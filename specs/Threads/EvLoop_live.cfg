SPECIFICATION LiveSpec
CONSTANTS
  Mode = "AsCoded"
  StayOpen = TRUE
  MaxSends = 2
  T = 1
  MaxTries = 2
PROPERTY Completes
