SPECIFICATION Spec
CONSTANTS
  Clients = {"c1", "c2"}
  MaxOps = 3
  MaxReq = 2
  T = 1
  MaxTries = 2
  WaitTmo = 1
  Ops = {"send", "cancel", "setsrv", "reinit", "wait", "waitt"}
  NoThread = NoThread
INVARIANTS TypeOK ExactlyOnce MutualExclusion LockOrder SleepsUnlocked NoLostWakeup OneReload AllJoined
  NothingAfterDeath NoOutwait WaitersDoNotOwn
PROPERTY WaitEmptySound
VIEW View
