SPECIFICATION LiveSpec
CONSTANTS
  Mode = "Repaired"
  StayOpen = FALSE
  MaxSends = 3
  T = 2
  MaxTries = 2
INVARIANTS TypeOK NoOutwait
PROPERTY Completes
