SPECIFICATION LiveSpec
CONSTANTS
  Clients = {"c1"}
  MaxOps = 2
  MaxReq = 1
  T = 1
  MaxTries = 2
  WaitTmo = 1
  Ops = {"send", "cancel", "setsrv", "wait", "waitt"}
  NoThread = NoThread
INVARIANTS NoOutwait ExactlyOnce
PROPERTIES Completes WaitReturns
VIEW View
