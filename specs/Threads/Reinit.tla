------------------------------- MODULE Reinit -------------------------------
(* ares_reinit() / ares_reinit_thread() / the reload-thread part of         *)
(* ares_destroy(), statement by statement (src/lib/ares_init.c,             *)
(* src/lib/ares_destroy.c), with a race detector on channel->reinit_thread. *)
(*                                                                          *)
(* As coded:                                                                *)
(*   l1   ares_channel_lock                                                 *)
(*   chk  if (!sys_up || reinit_pending) { unlock; return }                 *)
(*        reinit_pending = TRUE                                             *)
(*   unl  ares_channel_unlock                                               *)
(*   rd   h = channel->reinit_thread                  -- unlocked read      *)
(*   join if (h) ares_thread_join(h)                                        *)
(*   clr  channel->reinit_thread = NULL               -- unlocked write     *)
(*   mk   pthread_create(...)                                               *)
(*   pub  channel->reinit_thread = new                -- unlocked write     *)
(* The reload thread clears reinit_pending (under the lock) when it is      *)
(* done, possibly before its creator reached `pub`.                         *)
(* Repaired: `unl` moves after `pub` (the handle is read, joined, replaced  *)
(* and published in the critical section that tested the flag).             *)
(*                                                                          *)
(* Callers in `Detached` are not waited for by the application before it    *)
(* calls ares_destroy(): this is the event thread calling ares_reinit()     *)
(* from its configuration-change callback.  ares_destroy() only joins the   *)
(* event thread at its very end.                                            *)
EXTENDS Naturals, FiniteSets, TLC

CONSTANTS Mode, Callers, Detached, MaxCalls, NH

Handles == 1 .. NH

VARIABLES
    lk,      \* channel lock owner or "free"
    up, pend, slot,
    pc, loc, mine, calls,   \* per caller
    th,      \* handle -> "none" | "run1" | "run2" | "fin" | "joined"
    mpc, mloc, freed,       \* ares_destroy by "main"
    leaked, dbl, uaf,       \* ghosts: handles overwritten unjoined, double join, use after free
    accT, accC, accW        \* lockset ghost (Eraser) over the callers' accesses

vars == <<lk, up, pend, slot, pc, loc, mine, calls, th, mpc, mloc, freed, leaked, dbl, uaf, accT, accC, accW>>

Init ==
    /\ lk = "free" /\ up = TRUE /\ pend = FALSE /\ slot = 0
    /\ pc = [c \in Callers |-> "idle"] /\ loc = [c \in Callers |-> 0] /\ mine = [c \in Callers |-> 0]
    /\ calls = [c \in Callers |-> 0]
    /\ th = [h \in Handles |-> "none"]
    /\ mpc = "idle" /\ mloc = 0 /\ freed = FALSE
    /\ leaked = {} /\ dbl = FALSE /\ uaf = FALSE
    /\ accT = {} /\ accC = {"chan"} /\ accW = FALSE

Goto(c, s) == pc' = [pc EXCEPT ![c] = s]
Locks(c) == IF lk = c THEN {"chan"} ELSE {}
\* lockset bookkeeping for an access by caller c
Acc(c, w) ==
    /\ accT' = accT \cup {c}
    /\ accC' = accC \cap Locks(c)
    /\ accW' = (accW \/ w)
NoAcc == UNCHANGED <<accT, accC, accW>>

Begin(c) ==
    /\ pc[c] = "idle" /\ calls[c] < MaxCalls /\ ~freed
    /\ c \notin Detached => mpc = "idle"        \* the application joins its own threads before destroy
    /\ calls' = [calls EXCEPT ![c] = @ + 1]
    /\ Goto(c, "l1")
    /\ UNCHANGED <<lk, up, pend, slot, loc, mine, th, mpc, mloc, freed, leaked, dbl, uaf>> /\ NoAcc

L1(c) ==
    /\ pc[c] = "l1" /\ lk = "free"
    /\ lk' = c /\ Goto(c, "chk")
    /\ UNCHANGED <<up, pend, slot, loc, mine, calls, th, mpc, mloc, freed, leaked, dbl, uaf>> /\ NoAcc

Chk(c) ==
    /\ pc[c] = "chk"
    /\ IF ~up \/ pend
         THEN lk' = "free" /\ Goto(c, "idle") /\ UNCHANGED pend
         ELSE /\ pend' = TRUE
              /\ IF Mode = "AsCoded" THEN Goto(c, "unl") ELSE Goto(c, "rd")
              /\ UNCHANGED lk
    /\ UNCHANGED <<up, slot, loc, mine, calls, th, mpc, mloc, freed, leaked, dbl, uaf>> /\ NoAcc

Unl(c) ==
    /\ pc[c] = "unl"
    /\ lk' = "free"
    /\ IF Mode = "AsCoded" THEN Goto(c, "rd") ELSE Goto(c, "idle")
    /\ UNCHANGED <<up, pend, slot, loc, mine, calls, th, mpc, mloc, freed, leaked, dbl, uaf>> /\ NoAcc

Rd(c) ==
    /\ pc[c] = "rd"
    /\ loc' = [loc EXCEPT ![c] = slot]
    /\ Goto(c, IF slot # 0 THEN "join" ELSE "mk")
    /\ Acc(c, FALSE)
    /\ UNCHANGED <<lk, up, pend, slot, mine, calls, th, mpc, mloc, freed, leaked, dbl, uaf>>

Join(c) ==
    /\ pc[c] = "join" /\ th[loc[c]] \in {"fin", "joined"}
    /\ dbl' = (dbl \/ th[loc[c]] = "joined")
    /\ th' = [th EXCEPT ![loc[c]] = "joined"]
    /\ Goto(c, "clr")
    /\ UNCHANGED <<lk, up, pend, slot, loc, mine, calls, mpc, mloc, freed, leaked, uaf>> /\ NoAcc

Clr(c) ==
    /\ pc[c] = "clr"
    /\ leaked' = IF slot # 0 /\ th[slot] # "joined" THEN leaked \cup {slot} ELSE leaked
    /\ slot' = 0
    /\ Goto(c, "mk")
    /\ Acc(c, TRUE)
    /\ UNCHANGED <<lk, up, pend, loc, mine, calls, th, mpc, mloc, freed, dbl, uaf>>

Mk(c) ==
    /\ pc[c] = "mk"
    /\ \E h \in Handles :
         /\ th[h] = "none" /\ \A g \in Handles : g < h => th[g] # "none"
         /\ th' = [th EXCEPT ![h] = "run1"]
         /\ mine' = [mine EXCEPT ![c] = h]
    /\ Goto(c, "pub")
    /\ UNCHANGED <<lk, up, pend, slot, loc, calls, mpc, mloc, freed, leaked, dbl, uaf>> /\ NoAcc

Pub(c) ==
    /\ pc[c] = "pub"
    /\ leaked' = IF slot # 0 /\ th[slot] # "joined" THEN leaked \cup {slot} ELSE leaked
    /\ slot' = mine[c]
    /\ IF Mode = "AsCoded" THEN Goto(c, "idle") ELSE Goto(c, "unl")
    /\ Acc(c, TRUE)
    /\ UNCHANGED <<lk, up, pend, loc, mine, calls, th, mpc, mloc, freed, dbl, uaf>>

\* ares_reinit_thread(): config read and applied under the lock, then (second
\* critical section) cache flush and reinit_pending = FALSE
Reload(h) ==
    /\ th[h] \in {"run1", "run2"} /\ lk = "free"
    /\ uaf' = (uaf \/ freed)
    /\ IF th[h] = "run1"
         THEN th' = [th EXCEPT ![h] = "run2"] /\ UNCHANGED pend
         ELSE th' = [th EXCEPT ![h] = "fin"] /\ pend' = FALSE
    /\ UNCHANGED <<lk, up, slot, pc, loc, mine, calls, mpc, mloc, freed, leaked, dbl>> /\ NoAcc

(* ---- ares_destroy() --------------------------------------------------------- *)
DBegin ==
    /\ mpc = "idle" /\ \A c \in Callers \ Detached : pc[c] = "idle"
    /\ mpc' = "d1"
    /\ UNCHANGED <<lk, up, pend, slot, pc, loc, mine, calls, th, mloc, freed, leaked, dbl, uaf>> /\ NoAcc
\* lock; sys_up = FALSE; unlock
D1 ==
    /\ mpc = "d1" /\ lk = "free"
    /\ up' = FALSE /\ mpc' = "d3"
    /\ UNCHANGED <<lk, pend, slot, pc, loc, mine, calls, th, mloc, freed, leaked, dbl, uaf>> /\ NoAcc
\* if (channel->reinit_thread) { join; = NULL }      -- no lock held
D3 ==
    /\ mpc = "d3"
    /\ mloc' = slot
    /\ mpc' = IF slot # 0 THEN "d3j" ELSE "d4"
    /\ UNCHANGED <<lk, up, pend, slot, pc, loc, mine, calls, th, freed, leaked, dbl, uaf>> /\ NoAcc
D3j ==
    /\ mpc = "d3j" /\ th[mloc] \in {"fin", "joined"}
    /\ dbl' = (dbl \/ th[mloc] = "joined")
    /\ th' = [th EXCEPT ![mloc] = "joined"]
    /\ leaked' = IF slot # 0 /\ slot # mloc /\ th[slot] # "joined" THEN leaked \cup {slot} ELSE leaked
    /\ slot' = 0
    /\ mpc' = "d4"
    /\ UNCHANGED <<lk, up, pend, pc, loc, mine, calls, mloc, freed, uaf>> /\ NoAcc
\* lock; fail all queries; unlock
D4 ==
    /\ mpc = "d4" /\ lk = "free"
    /\ mpc' = "d5"
    /\ UNCHANGED <<lk, up, pend, slot, pc, loc, mine, calls, th, mloc, freed, leaked, dbl, uaf>> /\ NoAcc
\* ares_event_thread_destroy(): joins the event thread (it finishes its callback first)
D5 ==
    /\ mpc = "d5" /\ \A c \in Detached : pc[c] = "idle"
    /\ mpc' = "d6"
    /\ UNCHANGED <<lk, up, pend, slot, pc, loc, mine, calls, th, mloc, freed, leaked, dbl, uaf>> /\ NoAcc
\* ares_free(channel)
D6 ==
    /\ mpc = "d6"
    /\ freed' = TRUE /\ mpc' = "gone"
    /\ UNCHANGED <<lk, up, pend, slot, pc, loc, mine, calls, th, mloc, leaked, dbl, uaf>> /\ NoAcc

Quiet == freed \/ (mpc = "idle" /\ \A c \in Callers : pc[c] = "idle")
Rest == Quiet /\ (\A h \in Handles : th[h] \notin {"run1", "run2"}) /\ UNCHANGED vars

CallerStep(c) == L1(c) \/ Chk(c) \/ Unl(c) \/ Rd(c) \/ Join(c) \/ Clr(c) \/ Mk(c) \/ Pub(c)
Next ==
    \/ \E c \in Callers : Begin(c) \/ CallerStep(c)
    \/ \E h \in Handles : Reload(h)
    \/ DBegin \/ D1 \/ D3 \/ D3j \/ D4 \/ D5 \/ D6
    \/ Rest
Spec == Init /\ [][Next]_vars

(* ---- properties --------------------------------------------------------------- *)
\* data race: two threads are at accesses of reinit_thread at the same time, at
\* least one is a write, and they do not both hold a common lock (with a single
\* exclusive lock: not both hold it -- they cannot)
ReadPcs  == {"rd"}
WritePcs == {"clr", "pub"}
AtAcc(c) == pc[c] \in ReadPcs \cup WritePcs
MainAcc  == mpc \in {"d3", "d3j"}
NoRace ==
    /\ \A c, d \in Callers : (c # d /\ AtAcc(c) /\ AtAcc(d)) => (pc[c] \in ReadPcs /\ pc[d] \in ReadPcs)
    /\ \A c \in Callers : ~(AtAcc(c) /\ MainAcc)
\* Eraser lockset over the callers' accesses
LocksetOK == ~(accC = {} /\ Cardinality(accT) >= 2 /\ accW)
\* the handle is never overwritten while it names an unjoined thread
NoLeak == leaked = {}
NoDoubleJoin == ~dbl
\* at most one reload thread exists that has not been joined
OneUnjoined == Cardinality({h \in Handles : th[h] \in {"run1", "run2", "fin"}}) <= 1
\* every created thread has been joined when the channel is freed, and none runs afterwards
AllJoined == freed => \A h \in Handles : th[h] \in {"none", "joined"}
NoUseAfterFree == ~uaf
=============================================================================
