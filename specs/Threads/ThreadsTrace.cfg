SPECIFICATION TSpec
CONSTANT NoThread <- NoThr
INVARIANT Report
INVARIANT TypeOK
POSTCONDITION Accepted
CHECK_DEADLOCK FALSE
