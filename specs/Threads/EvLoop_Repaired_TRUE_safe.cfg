SPECIFICATION Spec
CONSTANTS
  Mode = "Repaired"
  StayOpen = TRUE
  MaxSends = 3
  T = 2
  MaxTries = 2
INVARIANTS TypeOK NoOutwait
