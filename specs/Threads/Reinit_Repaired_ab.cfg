SPECIFICATION Spec
CONSTANTS
  Mode = "Repaired"
  Callers = {"a", "b"}
  Detached = {}
  MaxCalls = 2
  NH = 4
INVARIANTS NoRace LocksetOK NoLeak NoDoubleJoin OneUnjoined AllJoined NoUseAfterFree
