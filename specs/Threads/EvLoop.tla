------------------------------- MODULE EvLoop -------------------------------
(* The event loop of src/lib/event/ares_event_thread.c as coded, with the   *)
(* places where the wake handle is written (Layer 2, DESIGN section 2.2).    *)
(*                                                                          *)
(* As coded the wake handle is written by ares_event_update() only, i.e.    *)
(* when a socket's interest set CHANGES (ares_conn_sock_state_cb_update      *)
(* compares the new flags with the ones already announced):                  *)
(*   - a request that opens a new UDP socket: interest none -> read: wake    *)
(*   - a request sent on a UDP connection that is already open (idle and     *)
(*     kept open by ARES_FLAG_STAYOPEN, or busy with other requests):        *)
(*     interest read -> read: no update, NO wake                             *)
(*   - (TCP: ares_conn_query_write() calls the pending-write callback,       *)
(*     notifywrite_cb(), which wakes; not modelled, covered by experiment)   *)
(* The event thread computes its sleep from ares_timeout() before waiting.   *)
(* A request enqueued by another thread after that computation and without   *)
(* a wake is not covered by the sleep:                                       *)
(*   idle kept-open connection: the sleep is unbounded -> never times out    *)
(*   busy connection whose pending deadline is later -> served late          *)
(*                                                                          *)
(* Mode = "AsCoded" must violate NoOutwait (both shapes) and Completes;      *)
(* Mode = "Repaired" (wake whenever a non-event thread enqueues) must pass.  *)
EXTENDS Naturals, FiniteSets, TLC

CONSTANTS Mode, StayOpen, MaxSends, T, MaxTries

Inf  == 99
Reqs == 1 .. MaxSends

VARIABLES
    lk,        \* channel lock: "free" | "client" | "ev"
    cpc,       \* client: "idle" | "body" | "unlock"
    conn,      \* the server's UDP connection: "none" | "open"
    failed,    \* server->consec_failures > 0
    rq,        \* request -> [st, rem, tries, ans]
    wakeP,     \* wake pipe holds a byte
    updQ,      \* queued interest updates
    evpc,      \* "top" | "timeout" | "wait" | "read" | "proc"
    evRem      \* sleep count-down computed by the event thread

vars == <<lk, cpc, conn, failed, rq, wakeP, updQ, evpc, evRem>>

Pending == {r \in Reqs : rq[r].st = "pending"}
Free    == {r \in Reqs : rq[r].st = "none"}
Min(S)  == CHOOSE x \in S : \A y \in S : x <= y
Dec(x)  == IF x = Inf \/ x = 0 THEN x ELSE x - 1

Init ==
    /\ lk = "free" /\ cpc = "idle" /\ conn = "none" /\ failed = FALSE
    /\ rq = [r \in Reqs |-> [st |-> "none", rem |-> 0, tries |-> 0, ans |-> FALSE]]
    /\ wakeP = FALSE /\ updQ = 0 /\ evpc = "top" /\ evRem = Inf

(* ---- a client thread: ares_send*() --------------------------------------- *)
CLock ==
    /\ cpc = "idle" /\ lk = "free" /\ Free # {}
    /\ lk' = "client" /\ cpc' = "body"
    /\ UNCHANGED <<conn, failed, rq, wakeP, updQ, evpc, evRem>>

\* ares_send_query(): pick / open the connection, write, set the deadline
CBody ==
    /\ cpc = "body"
    /\ rq' = [rq EXCEPT ![Min(Free)] = [st |-> "pending", rem |-> T, tries |-> 1, ans |-> FALSE]]
    /\ IF conn = "none"
         THEN \* ares_open_connection(): interest none -> read:
              \* ares_event_update() queues the update and wakes
              /\ conn' = "open" /\ updQ' = 1 /\ wakeP' = TRUE
         ELSE \* reuse: ares_conn_sock_state_cb_update() sees no change
              /\ UNCHANGED <<conn, updQ>>
              /\ wakeP' = IF Mode = "Repaired" THEN TRUE ELSE wakeP
    /\ cpc' = "unlock"
    /\ UNCHANGED <<lk, failed, evpc, evRem>>

CUnlock ==
    /\ cpc = "unlock"
    /\ lk' = "free" /\ cpc' = "idle"
    /\ UNCHANGED <<conn, failed, rq, wakeP, updQ, evpc, evRem>>

(* ---- the event thread ------------------------------------------------------ *)
\* ares_event_process_updates()
EvTop ==
    /\ evpc = "top"
    /\ updQ' = 0 /\ evpc' = "timeout"
    /\ UNCHANGED <<lk, cpc, conn, failed, rq, wakeP, evRem>>

\* tvout = ares_timeout(...): under the channel lock
EvTimeout ==
    /\ evpc = "timeout" /\ lk = "free"
    /\ evRem' = IF Pending = {} THEN Inf ELSE Min({rq[r].rem : r \in Pending})
    /\ evpc' = "wait"
    /\ UNCHANGED <<lk, cpc, conn, failed, rq, wakeP, updQ>>

\* e->ev_sys->wait(e, timeout_ms)
Readable == \E r \in Pending : rq[r].ans
WaitExit ==
    /\ evpc = "wait"
    /\ wakeP' = FALSE                      \* the pipe callback drains it
    /\ evpc' = IF Readable THEN "read" ELSE "proc"
    /\ UNCHANGED <<lk, cpc, conn, failed, rq, updQ, evRem>>
EvWait     == (wakeP \/ Readable \/ evRem = 0) /\ WaitExit
EvSpurious == ~(wakeP \/ Readable \/ evRem = 0) /\ WaitExit

\* read_answers() -> end_query(): under the channel lock
EvRead ==
    /\ evpc = "read" /\ lk = "free"
    /\ rq' = [r \in Reqs |-> IF r \in Pending /\ rq[r].ans THEN [rq[r] EXCEPT !.st = "done", !.ans = FALSE] ELSE rq[r]]
    /\ failed' = FALSE
    /\ evpc' = "proc"
    /\ UNCHANGED <<lk, cpc, conn, wakeP, updQ, evRem>>

\* ares_process_fds(NULL): process_timeouts() then ares_check_cleanup_conns()
EvProc ==
    /\ evpc = "proc" /\ lk = "free"
    /\ LET Due  == {r \in Pending : rq[r].rem = 0}
           Fail == {r \in Due : rq[r].tries >= MaxTries}
           q1   == [r \in Reqs |->
                     IF r \in Fail THEN [rq[r] EXCEPT !.st = "done"]
                     ELSE IF r \in Due THEN [rq[r] EXCEPT !.tries = @ + 1, !.rem = 2 * T]
                     ELSE rq[r]]
           f1   == failed \/ Due # {}
           idle == {r \in Reqs : q1[r].st = "pending"} = {}
           close == conn = "open" /\ idle /\ (~StayOpen \/ f1)
       IN /\ rq' = q1
          /\ failed' = f1
          \* closing: interest read -> none: update queued, wake written (by the
          \* event thread itself: harmless, the next wait returns at once)
          /\ conn' = IF close THEN "none" ELSE conn
          /\ updQ' = IF close THEN 1 ELSE updQ
          /\ wakeP' = IF close THEN TRUE ELSE wakeP
    /\ evpc' = "top"
    /\ UNCHANGED <<lk, cpc, evRem>>

(* ---- environment ------------------------------------------------------------ *)
Answer(r) ==
    /\ rq[r].st = "pending" /\ ~rq[r].ans
    /\ rq' = [rq EXCEPT ![r].ans = TRUE]
    /\ UNCHANGED <<lk, cpc, conn, failed, wakeP, updQ, evpc, evRem>>

SomeTimer == (\E r \in Pending : rq[r].rem > 0) \/ (evpc = "wait" /\ evRem \notin {0, Inf})
Tick ==
    /\ SomeTimer
    /\ ~(evpc = "wait" /\ evRem = 0)      \* a bounded wait that expired returns first
    /\ rq' = [r \in Reqs |-> IF r \in Pending THEN [rq[r] EXCEPT !.rem = Dec(@)] ELSE rq[r]]
    /\ evRem' = IF evpc = "wait" THEN Dec(evRem) ELSE evRem
    /\ UNCHANGED <<lk, cpc, conn, failed, wakeP, updQ, evpc>>

Quiet == cpc = "idle" /\ Pending = {} /\ evpc = "wait" /\ ~wakeP
Rest == Quiet /\ UNCHANGED vars

ClientStep == CBody \/ CUnlock
EvStep == EvTop \/ EvTimeout \/ EvWait \/ EvRead \/ EvProc
Next == CLock \/ ClientStep \/ EvStep \/ EvSpurious \/ (\E r \in Reqs : Answer(r)) \/ Tick \/ Rest

Spec == Init /\ [][Next]_vars
\* the client is not obliged to send; a send that started finishes
LiveSpec == Spec /\ SF_vars(ClientStep) /\ SF_vars(EvStep) /\ WF_vars(Tick)

(* ---- properties --------------------------------------------------------------- *)
TypeOK == evRem \in (0 .. 2 * T) \cup {Inf} /\ updQ \in 0 .. 1

\* no pending request's deadline is earlier than the end of the event thread's
\* sleep (looked at when no critical section is open and no wake is posted)
Asleep == evpc = "wait" /\ ~wakeP /\ lk = "free"
NoOutwait      == Asleep => \A r \in Pending : evRem <= rq[r].rem
\* the two shapes separately, to obtain both counterexamples
NoOutwaitNever == Asleep => (Pending # {} => evRem # Inf)
NoOutwaitLate  == Asleep => \A r \in Pending : (evRem # Inf => evRem <= rq[r].rem)

\* every request completes with no client action, even if no packet arrives
Completes == \A r \in Reqs : (rq[r].st = "pending") ~> (rq[r].st = "done")
=============================================================================
