SPECIFICATION Spec
CONSTANTS
  Mode = "AsCoded"
  Callers = {"a", "b"}
  Detached = {}
  MaxCalls = 2
  NH = 4
INVARIANTS LocksetOK
