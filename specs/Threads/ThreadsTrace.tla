---------------------------- MODULE ThreadsTrace ----------------------------
(* Trace validation of the real library against the concurrency contract.   *)
(*                                                                          *)
(* Input (env TRACE): ndjson written by harness/thr (H3 sync events, H4      *)
(* phases, H5 handle accesses, harness call/ret/cb/dl events), several runs  *)
(* separated by {"k":"reset"}; events are in the order of a global sequence  *)
(* number taken inside the hook, i.e. while the lock concerned is held.      *)
(*                                                                          *)
(* Every event is mapped onto one primitive of Sync.tla.  The discipline     *)
(* predicates of Sync (the same ones Threads.tla is model-checked with) and  *)
(* the per-request rules are evaluated at every event; a false one is        *)
(* recorded in `viol` with the line number (monitor style, so one run lists  *)
(* every broken rule).  A trace is accepted iff all lines are consumed and   *)
(* viol is empty.  An event whose shape is unknown blocks (not consumed).    *)
EXTENDS Sync, Integers, Sequences, TLC, Json, IOUtils

NoThr    == -1
Slack    == 100            \* ms, see NoOutwait below
OverSlack == 300           \* ms, tolerated lateness of a bounded wait's return
Inf      == 1073741823

Tr == ndJsonDeserialize(IOEnv.TRACE)

VARIABLES
    l,          \* next line
    viol,       \* sequence of [r |-> rule, at |-> line]
    evt,        \* thread id of the event thread in this run
    api, cur,   \* per thread: API call in progress, its request id
    started,    \* requests whose send entered the channel lock
    out,        \* requests outstanding (enqueued, callback not yet run)
    owe,        \* per thread: emptied the queue while a waiter slept, broadcast still owed
    snap,       \* per thread: queue was empty at the last full unlock inside wait_empty
    slotC, slotT, slotW,  \* lockset ghost for channel->reinit_thread
    afterPT, evStale, evAsleep, evUntil, owed,  \* event loop timing (NoOutwait)
    outC        \* requests outstanding when the event thread last computed its sleep

tvars == <<l, viol, evt, api, cur, started, out, owe, snap, slotC, slotT, slotW,
           afterPT, evStale, evAsleep, evUntil, owed, outC>>
vars  == <<syncVars, tvars>>

Get(f, t, d) == IF t \in DOMAIN f THEN f[t] ELSE d
Put(f, t, v) == [x \in (DOMAIN f) \cup {t} |-> IF x = t THEN v ELSE f[x]]

Fresh ==
    /\ SyncInit
    /\ viol = <<>> /\ evt = -2
    /\ api = <<>> /\ cur = <<>> /\ started = {} /\ out = {}
    /\ owe = <<>> /\ snap = <<>>
    /\ slotC = Mutexes /\ slotT = {} /\ slotW = FALSE
    /\ afterPT = FALSE /\ evStale = FALSE /\ evAsleep = FALSE /\ evUntil = 0 /\ owed = {}
    /\ outC = {}

TInit == l = 1 /\ Fresh

e == Tr[l]
Chk(v, rule, cond) ==
    IF cond \/ Len(v) >= 12 THEN v ELSE Append(v, [r |-> rule, at |-> l])

Lockset(t) == {m \in Mutexes : Holds(t, m)}

(* ---- stage 1: the event thread shows life after having gone to sleep ---- *)
(* NoOutwait on the implementation.  A `dl` event says: at this moment the   *)
(* earliest pending deadline is d.  If the event thread had already computed *)
(* its sleep (evStale), d is owed.  When the event thread next shows life at *)
(* time ms, both must hold for a violation: (a) it had planned to sleep      *)
(* until evUntil > d + Slack (numbers computed by the library: independent   *)
(* of scheduling, and a lower bound of the real lateness) and (b) nothing    *)
(* woke it before d + Slack (observed).                                      *)
Life     == e.t = evt /\ evAsleep
Clearing == Life \/ e.k = "end"
Late     == {d \in owed : evUntil > d + Slack /\ e.ms > d + Slack}
\* A bounded wait returns when its timeout expires: the event thread's first sign of life
\* after a wait planned until evUntil (hook time + timeout argument) is not later than
\* evUntil + OverSlack.  (Catches a backend that converts the timeout wrongly and sleeps longer
\* than it was asked to; observed time, therefore reported only when a re-run shows it again.)
Overslept == Life /\ evUntil # 0 /\ evUntil # Inf /\ e.ms > evUntil + OverSlack
viol1    == Chk(Chk(viol, IF evUntil = Inf THEN "c07.outwait.never" ELSE "c07.outwait.late",
                    ~(Clearing /\ evAsleep /\ Late # {})),
                "c07.outwait.overslept", ~Overslept)
owed1    == IF Clearing THEN {} ELSE owed
asleep1  == IF Life THEN FALSE ELSE evAsleep
stale1   == IF Life THEN FALSE ELSE evStale

UnchangedSync == UNCHANGED syncVars
StepC(v, oc) == l' = l + 1 /\ viol' = v /\ outC' = oc
Step(v) == StepC(v, outC)

(* ---- stage 2: one action per event kind --------------------------------- *)
TBegin ==
    /\ e.k = "begin"
    /\ evt' = e.ev
    /\ l' = l + 1
    /\ UNCHANGED <<syncVars, viol, api, cur, started, out, owe, snap, slotC, slotT, slotW,
                   afterPT, evStale, evAsleep, evUntil, owed, outC>>

TReset ==
    /\ e.k = "reset"
    /\ l' = l + 1
    /\ viol' = viol
    /\ owner' = [m \in Mutexes |-> NoThread] /\ depth' = [m \in Mutexes |-> 0]
    /\ cwaiting' = {} /\ live' = {} /\ joined' = {} /\ slot' = 0 /\ rlive' = {}
    /\ evt' = -2 /\ api' = <<>> /\ cur' = <<>> /\ started' = {} /\ out' = {}
    /\ owe' = <<>> /\ snap' = <<>> /\ slotC' = Mutexes /\ slotT' = {} /\ slotW' = FALSE
    /\ afterPT' = FALSE /\ evStale' = FALSE /\ evAsleep' = FALSE /\ evUntil' = 0 /\ owed' = {}
    /\ outC' = {}

TLock ==
    /\ e.k = "lock" /\ e.m \in Mutexes
    /\ LET t == e.t  m == e.m
           outer == m = "chan" /\ depth[m] = 0
           isSend == outer /\ Get(api, t, "none") = "send" /\ Get(cur, t, -1) \notin started
           v == Chk(Chk(Chk(viol1, "lock.not_free", LockFree(t, m)),
                        "lock.order.ev_mutex_held_taking_channel_lock", LockOrderOK(t, m)),
                    "cond_empty.lost_wakeup", ~(outer /\ Get(owe, t, FALSE)))
       IN \* the event thread's ares_timeout(): remember what was outstanding
          /\ StepC(v, IF t = evt /\ afterPT /\ m = "chan" THEN out ELSE outC)
          /\ DoLock(t, m)
          /\ owe' = IF outer THEN Put(owe, t, FALSE) ELSE owe
          /\ started' = IF isSend THEN started \cup {cur[t]} ELSE started
          /\ out' = IF isSend THEN out \cup {cur[t]} ELSE out
          /\ evStale' = IF t = evt /\ afterPT /\ m = "chan" THEN TRUE ELSE stale1
          /\ afterPT' = IF t = evt /\ m = "chan" THEN FALSE ELSE afterPT
    /\ evAsleep' = asleep1 /\ owed' = owed1
    /\ UNCHANGED <<cwaiting, live, joined, slot, rlive, evt, api, cur, snap, slotC, slotT, slotW, evUntil>>

TUnlock ==
    /\ e.k = "unlock" /\ e.m \in Mutexes
    /\ LET t == e.t  m == e.m
           full == m = "chan" /\ depth[m] = 1
       IN /\ Step(Chk(viol1, "unlock.not_owner", UnlockOK(t, m)))
          /\ DoUnlock(t, m)
          /\ snap' = IF full /\ Get(api, t, "none") = "wait" THEN Put(snap, t, out = {}) ELSE snap
    /\ evAsleep' = asleep1 /\ owed' = owed1 /\ evStale' = stale1
    /\ UNCHANGED <<cwaiting, live, joined, slot, rlive, evt, api, cur, started, out, owe, slotC, slotT, slotW,
                   afterPT, evUntil>>

TCWait ==
    /\ e.k = "cwait" /\ e.m \in Mutexes
    /\ Step(Chk(viol1, "cond_wait.mutex_not_held_once", CWaitOK(e.t, e.m)))
    /\ DoCWait(e.t, e.m)
    /\ evAsleep' = asleep1 /\ owed' = owed1 /\ evStale' = stale1
    /\ UNCHANGED <<live, joined, slot, rlive, evt, api, cur, started, out, owe, snap, slotC, slotT, slotW,
                   afterPT, evUntil>>

TCWake ==
    /\ e.k = "cwake" /\ e.m \in Mutexes
    /\ Step(Chk(viol1, "cond_wait.return_without_mutex", CWakeOK(e.t, e.m)))
    /\ DoCWake(e.t, e.m)
    /\ evAsleep' = asleep1 /\ owed' = owed1 /\ evStale' = stale1
    /\ UNCHANGED <<live, joined, slot, rlive, evt, api, cur, started, out, owe, snap, slotC, slotT, slotW,
                   afterPT, evUntil>>

\* cond_empty has any number of waiters (every thread in ares_queue_wait_empty):
\* a signal wakes one of them, the others keep sleeping although the queue is empty
TSignal ==
    /\ e.k = "signal"
    /\ Step(Chk(Chk(viol1, "cond_empty.broadcast_unlocked", BcastOK(e.t)),
                "cond_empty.signal_with_several_waiters", Cardinality(cwaiting) <= 1))
    /\ owe' = IF Cardinality(cwaiting) <= 1 THEN Put(owe, e.t, FALSE) ELSE owe
    /\ evAsleep' = asleep1 /\ owed' = owed1 /\ evStale' = stale1
    /\ UNCHANGED <<syncVars, evt, api, cur, started, out, snap, slotC, slotT, slotW, afterPT, evUntil>>

TBcast ==
    /\ e.k = "bcast"
    /\ Step(Chk(viol1, "cond_empty.broadcast_unlocked", BcastOK(e.t)))
    /\ owe' = Put(owe, e.t, FALSE)
    /\ evAsleep' = asleep1 /\ owed' = owed1 /\ evStale' = stale1
    /\ UNCHANGED <<syncVars, evt, api, cur, started, out, snap, slotC, slotT, slotW, afterPT, evUntil>>

TCreate ==
    /\ e.k = "tcreate"
    /\ LET isR == e.slot = "reinit" IN
       /\ Step(Chk(Chk(viol1, "thread.handle_reused", CreateOK(e.h)),
                   "reload.created_while_previous_unjoined", isR => ReloadCreateOK))
       /\ DoCreate(e.h, isR)
    /\ evAsleep' = asleep1 /\ owed' = owed1 /\ evStale' = stale1
    /\ UNCHANGED <<owner, depth, cwaiting, joined, slot, evt, api, cur, started, out, owe, snap, slotC, slotT, slotW,
                   afterPT, evUntil>>

TJoin ==
    /\ e.k = "tjoin"
    /\ Step(Chk(viol1, "thread.join_of_unknown_or_joined_handle", JoinOK(e.h)))
    /\ DoJoin(e.h)
    /\ evAsleep' = asleep1 /\ owed' = owed1 /\ evStale' = stale1
    /\ UNCHANGED <<owner, depth, cwaiting, slot, evt, api, cur, started, out, owe, snap, slotC, slotT, slotW,
                   afterPT, evUntil>>

TAccess ==
    /\ e.k = "access"
    /\ Step(Chk(viol1, "channel_state.access_without_channel_lock", AccessOK(e.t)))
    /\ evAsleep' = asleep1 /\ owed' = owed1 /\ evStale' = stale1
    /\ UNCHANGED <<syncVars, evt, api, cur, started, out, owe, snap, slotC, slotT, slotW, afterPT, evUntil>>

TWake ==
    /\ e.k \in {"wake", "kick"}
    /\ Step(viol1)
    /\ evAsleep' = asleep1 /\ owed' = owed1 /\ evStale' = stale1
    /\ UNCHANGED <<syncVars, evt, api, cur, started, out, owe, snap, slotC, slotT, slotW, afterPT, evUntil>>

\* H5: channel->reinit_thread read / written.  Accesses made by ares_destroy()
\* are exempt from the lockset (destroy must be the last use of the channel).
THandle ==
    /\ e.k \in {"hread", "hwrite"}
    /\ LET t == e.t
           counted == Get(api, t, "none") # "destroy"
           c2 == IF counted THEN slotC \cap Lockset(t) ELSE slotC
           t2 == IF counted THEN slotT \cup {t} ELSE slotT
           w2 == slotW \/ (counted /\ e.k = "hwrite")
           v  == Chk(Chk(viol1, "reinit.handle_overwritten_unjoined", e.k = "hwrite" => SlotWriteOK(e.h)),
                     "reinit.handle_unprotected_shared_access",
                     ~(counted /\ c2 = {} /\ Cardinality(t2) >= 2 /\ w2))
       IN /\ Step(v)
          /\ slot' = IF e.k = "hwrite" THEN e.h ELSE slot
          /\ slotC' = c2 /\ slotT' = t2 /\ slotW' = w2
    /\ evAsleep' = asleep1 /\ owed' = owed1 /\ evStale' = stale1
    /\ UNCHANGED <<owner, depth, cwaiting, live, joined, rlive, evt, api, cur, started, out, owe, snap, afterPT, evUntil>>

TCall ==
    /\ e.k = "call"
    /\ Step(viol1)
    /\ api' = Put(api, e.t, e.api) /\ cur' = Put(cur, e.t, e.id)
    /\ evAsleep' = asleep1 /\ owed' = owed1 /\ evStale' = stale1
    /\ UNCHANGED <<syncVars, evt, started, out, owe, snap, slotC, slotT, slotW, afterPT, evUntil>>

TRet ==
    /\ e.k = "ret"
    /\ LET t == e.t IN
       /\ Step(Chk(Chk(Chk(viol1, "cond_empty.lost_wakeup", ~Get(owe, t, FALSE)),
                       "wait_empty.success_while_request_outstanding",
                       (e.api = "wait" /\ e.rc = 0) => Get(snap, t, TRUE)),
                   "api.returned_holding_channel_lock", ~Holds(t, "chan")))
       /\ api' = Put(api, t, "none")
       /\ owe' = Put(owe, t, FALSE)
    /\ evAsleep' = asleep1 /\ owed' = owed1 /\ evStale' = stale1
    /\ UNCHANGED <<syncVars, evt, cur, started, out, snap, slotC, slotT, slotW, afterPT, evUntil>>

TCb ==
    /\ e.k = "cb"
    /\ LET t == e.t
           last == e.id \in out /\ out \ {e.id} = {}
       IN /\ Step(Chk(Chk(viol1, "callback.outside_channel_lock", Holds(t, "chan")),
                      "callback.request_not_outstanding_or_second_callback", e.id \in out))
          /\ out' = out \ {e.id}
          /\ owe' = IF last /\ cwaiting # {} THEN Put(owe, t, TRUE) ELSE owe
    /\ evAsleep' = asleep1 /\ owed' = owed1 /\ evStale' = stale1
    /\ UNCHANGED <<syncVars, evt, api, cur, started, snap, slotC, slotT, slotW, afterPT, evUntil>>

TPhase ==
    /\ e.k = "phase"
    /\ LET t == e.t  p == e.p IN
       \* a request that was outstanding when ares_timeout() ran has a deadline: the
       \* sleep computed from it cannot be unlimited (tmo = 0 means "wait for ever")
       /\ Step(Chk(Chk(Chk(viol1, "event_loop.phase_with_ev_mutex_held", p \in 1..4 => ~Holds(t, "ev")),
                       "cond_empty.lost_wakeup", ~(p = 1 /\ Get(owe, t, FALSE))),
                   "c07.outwait.unlimited_sleep_with_request_outstanding", ~(p = 2 /\ e.tmo = 0 /\ outC # {})))
       /\ afterPT' = IF p = 1 THEN TRUE ELSE IF p = 2 THEN FALSE ELSE afterPT
       /\ evStale' = IF p = 1 THEN FALSE ELSE IF p = 2 THEN TRUE ELSE stale1
       /\ evAsleep' = IF p = 2 THEN TRUE ELSE asleep1
       /\ evUntil' = IF p = 1 THEN 0 ELSE IF p = 2 THEN (IF e.tmo = 0 THEN Inf ELSE e.ms + e.tmo) ELSE evUntil
    /\ owed' = owed1
    /\ UNCHANGED <<syncVars, evt, api, cur, started, out, owe, snap, slotC, slotT, slotW>>

TDeadline ==
    /\ e.k = "dl"
    /\ Step(viol1)
    /\ owed' = IF stale1 /\ e.id \in out THEN owed1 \cup {e.d} ELSE owed1
    /\ evAsleep' = asleep1 /\ evStale' = stale1
    /\ UNCHANGED <<syncVars, evt, api, cur, started, out, owe, snap, slotC, slotT, slotW, afterPT, evUntil>>

TEnd ==
    /\ e.k = "end"
    /\ Step(Chk(Chk(Chk(viol1, "request.no_callback_by_destroy", out = {}),
                    "thread.created_but_never_joined", live = {}),
                "mutex.held_at_end", \A m \in Mutexes : owner[m] = NoThread))
    /\ owed' = owed1 /\ evAsleep' = asleep1 /\ evStale' = stale1
    /\ UNCHANGED <<syncVars, evt, api, cur, started, out, owe, snap, slotC, slotT, slotW, afterPT, evUntil>>

TNext ==
    /\ l <= Len(Tr)
    /\ \/ TBegin \/ TReset \/ TLock \/ TUnlock \/ TCWait \/ TCWake \/ TBcast \/ TSignal \/ TCreate \/ TJoin
       \/ TAccess \/ TWake \/ THandle \/ TCall \/ TRet \/ TCb \/ TPhase \/ TDeadline \/ TEnd

TSpec == TInit /\ [][TNext]_vars

\* printed once, at the last state: the rules that were broken (JSON)
Report == (l = Len(Tr) + 1) => PrintT(ToJson([report |-> viol, lines |-> Len(Tr)]))
Consumed == TLCGet("stats").diameter - 1 = Len(Tr)
Accepted == Consumed
TypeOK == SyncTypeOK
=============================================================================
