SPECIFICATION Spec
CONSTANTS
  Clients = {"c1", "c2"}
  MaxOps = 3
  MaxReq = 3
  T = 1
  MaxTries = 2
  WaitTmo = 1
  Ops = {"send", "cancel", "setsrv", "reinit", "wait", "waitt"}
  NoThread = NoThread
INVARIANT Gen
