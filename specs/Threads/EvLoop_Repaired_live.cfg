SPECIFICATION LiveSpec
CONSTANTS
  Mode = "Repaired"
  StayOpen = TRUE
  MaxSends = 2
  T = 1
  MaxTries = 2
INVARIANTS TypeOK NoOutwait
PROPERTY Completes
