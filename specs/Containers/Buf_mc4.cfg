\* exhaustive check of the byte-buffer ADT laws, larger bound (thorough tier)
\* bytes: space, 'a', ',', newline
CONSTANTS
  Bytes = {32, 97, 44, 10}
  MaxData = 4
SPECIFICATION Spec
CONSTRAINT Bound
INVARIANTS TypeOK Normalised
PROPERTIES FifoLaw RollbackLaw TagStable
CHECK_DEADLOCK FALSE
