CONSTANTS
  MaxLen = 4
  Keys = {1, 2, 3}
  Ids = {}
  Depth = 5
  Ops = {"insert", "find", "claim", "destroy_node", "reinsert", "next", "prev", "first", "last"}
SPECIFICATION GSpec
INVARIANT PrintLeaf
CHECK_DEADLOCK FALSE
