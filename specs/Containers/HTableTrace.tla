---------------------------- MODULE HTableTrace ---------------------------
(* Trace validation for the hash tables (see ArrayTrace.tla for the scheme).*)
(* Events: create [kind,nkeys,prefill,embedding]; insert [k,v]; get/get_direct/remove/claim   *)
(* [k]; num_keys; destroy.  The enumeration order of keys() and the order   *)
(* in which destroy frees the entries are unspecified: they are compared as *)
(* sorted sequences.                                                        *)
EXTENDS HTable, Json, IOUtils

Tr == ndJsonDeserialize(IOEnv.TRACE)

VARIABLES l, nfail,
          ek      \* ghost: keys() calls made on an EMPTY table in this history (distinguishing condition
                  \* of the listed leak of the zero-length bucket array)
tvars == <<kind, nk, map, res, op, l, nfail, ek>>

ev == Tr[l]
A1 == ev.a[1]
A2 == ev.a[2]
Srt(q) == SortSeq(q, LAMBDA a, b : a < b)

Outcomes(s) ==
  CASE ev.e = "create"     -> {HCreate(A1, A2, ev.a[3])}
    [] ev.e = "insert"     -> HInsertSet(s, A1, A2)
    [] ev.e = "get"        -> {HGet(s, A1)}
    [] ev.e = "get_direct" -> {HGetDirect(s, A1)}
    [] ev.e = "remove"     -> {HRemove(s, A1)}
    [] ev.e = "claim"      -> IF HasClaim(s.kind) THEN {HClaim(s, A1)} ELSE {}
    [] ev.e = "num_keys"   -> {HNumKeys(s)}
    [] ev.e = "keys"       -> IF HasKeys(s.kind) THEN {HKeys(s)} ELSE {}
    [] ev.e = "destroy"    -> {HDestroy(s)}
    [] OTHER               -> {}

\* observation with the unordered parts canonicalised
GotR == IF ev.e = "destroy" THEN [ev.r EXCEPT !.d = Srt(@), !.dk = Srt(@)]
        ELSE IF ev.e = "keys" THEN [ev.r EXCEPT !.keys = Srt(@)] ELSE ev.r
GotS == [ev.s EXCEPT !.keys = Srt(@)]
Explained(o) == o.r = GotR /\ Obs(o.s) = GotS

Which == LET O == Outcomes(Cur) IN
         IF O = {} THEN "unknown_call"
         ELSE IF \E o \in O : o.r = GotR THEN
              (LET o == CHOOSE x \in O : TRUE IN
               IF Obs(o.s).vals # GotS.vals THEN "state.values"
               ELSE IF Obs(o.s).n # GotS.n THEN "state.num_keys" ELSE "state.keys")
         ELSE IF \E o \in O : Obs(o.s) = GotS THEN "result" ELSE "result+state"
Expected == LET O == Outcomes(Cur) IN IF O = {} THEN [none |-> TRUE] ELSE
            LET o == CHOOSE x \in O : TRUE IN [r |-> o.r, s |-> Obs(o.s)]
Cond == IF ev.e = "create" THEN "create"
        ELSE kind \o (IF ev.e \in {"insert", "get", "get_direct", "remove", "claim"}
                      THEN (IF Has(Cur, A1) THEN ".live_key" ELSE ".absent_key") ELSE "")
                  \o (IF ev.e = "destroy" /\ ek > 0 THEN ".after_keys_on_empty" ELSE "")
EkNext == ek' = IF ev.e = "create" THEN 0 ELSE IF ev.e = "keys" /\ DOMAIN map = {} THEN ek + 1 ELSE ek

\* re-synchronisation: rebuild the function from the observed get_direct of every key
\* (the stored spelling of a case-insensitive key is taken from the enumeration when there is one)
Resync == LET knd == IF ev.e = "create" THEN A1 ELSE kind
              n   == IF ev.e = "create" THEN A2 ELSE nk
              live == {k \in 0 .. n - 1 : ev.s.vals[k + 1] # NoVal}
              spell(x) == IF HasKeys(knd) /\ \E i \in 1 .. Len(ev.s.keys) : Norm(knd, ev.s.keys[i]) = x
                          THEN ev.s.keys[CHOOSE i \in 1 .. Len(ev.s.keys) : Norm(knd, ev.s.keys[i]) = x]
                          ELSE CHOOSE k \in live : Norm(knd, k) = x
          IN /\ kind' = knd /\ nk' = n
             /\ map' = IF ev.e = "create" THEN HCreate(A1, A2, ev.a[3]).s.map ELSE
                       \* (filler entries outside the observed key universe are kept as they were)
                       [x \in DOMAIN map \ {Norm(knd, k) : k \in 0 .. n - 1} |-> map[x]] @@ [x \in {Norm(knd, k) : k \in live} |->
                          [k |-> spell(x), v |-> ev.s.vals[(CHOOSE k \in live : Norm(knd, k) = x) + 1]]]

TInit == /\ kind = "none" /\ nk = 0 /\ map = <<>> /\ res = R(NoVal, NoVal, <<>>, <<>>)
         /\ op = [e |-> "none", k |-> 0, v |-> 0] /\ l = 1 /\ nfail = 0 /\ ek = 0

TStep == /\ l <= Len(Tr)
         /\ \E o \in Outcomes(Cur) : Explained(o) /\ kind' = o.s.kind /\ nk' = o.s.nk /\ map' = o.s.map /\ res' = o.r
         /\ op' = [e |-> ev.e, k |-> 0, v |-> 0]
         /\ l' = l + 1 /\ UNCHANGED nfail /\ EkNext

TFail == /\ l <= Len(Tr)
         /\ ~ \E o \in Outcomes(Cur) : Explained(o)
         /\ PrintT(ToJson([fail |-> l, c |-> "htable", e |-> ev.e, a |-> ev.a, which |-> Which, cond |-> Cond,
                           got |-> [r |-> ev.r, s |-> ev.s], expected |-> Expected]))
         /\ Resync /\ res' = ev.r
         /\ op' = [e |-> ev.e, k |-> 0, v |-> 0]
         /\ l' = l + 1 /\ nfail' = nfail + 1 /\ EkNext

TNext == TStep \/ TFail
TSpec == TInit /\ [][TNext]_tvars
Consumed == TLCGet("stats").diameter - 1 = Len(Tr)
=============================================================================
