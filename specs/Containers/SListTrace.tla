---------------------------- MODULE SListTrace ----------------------------
(* Trace validation for ares_slist_t (see ArrayTrace.tla for the scheme).   *)
(* Events: insert [key,id]; find [key]; claim/destroy_node/next/prev [id];  *)
(* reinsert [id,newkey]; first; last; len; create; destroy.                 *)
EXTENDS SList, Json, IOUtils

Tr == ndJsonDeserialize(IOEnv.TRACE)

VARIABLES l, nfail
tvars == <<ord, key, res, op, l, nfail>>

ev == Tr[l]
A1 == ev.a[1]
A2 == ev.a[2]
IsLive(s, n) == n \in Range(s.ord)

Outcomes(s) ==
  CASE ev.e = "create"       -> SCreate
    [] ev.e = "insert"       -> IF IsLive(s, A2) THEN {} ELSE SInsert(s, A2, A1)
    [] ev.e = "find"         -> SFind(s, A1)
    [] ev.e = "claim"        -> IF IsLive(s, A1) THEN SClaim(s, A1) ELSE {}
    [] ev.e = "destroy_node" -> IF IsLive(s, A1) THEN SDestroyNode(s, A1) ELSE {}
    [] ev.e = "reinsert"     -> IF IsLive(s, A1) THEN SReinsert(s, A1, A2) ELSE {}
    [] ev.e = "next"         -> IF IsLive(s, A1) THEN SNext(s, A1) ELSE {}
    [] ev.e = "prev"         -> IF IsLive(s, A1) THEN SPrev(s, A1) ELSE {}
    [] ev.e = "first"        -> SFirst(s)
    [] ev.e = "last"         -> SLast(s)
    [] ev.e = "len"          -> SLen(s)
    [] ev.e = "destroy"      -> SDestroy(s)
    [] OTHER                 -> {}

GotR == IF ev.e = "destroy" THEN [ev.r EXCEPT !.d = AscSeq(@)] ELSE ev.r
Explained(o) == o.r = GotR /\ Obs(o.s) = ev.s

Which == LET O == Outcomes(Cur) IN
         IF O = {} THEN "unknown_call"
         ELSE IF \E o \in O : o.r = GotR THEN
              (IF ev.s.back # Rev(ev.s.ids) THEN "state.backward"
               ELSE IF ev.s.len # Len(ev.s.ids) THEN "state.len"
               ELSE IF \E i \in 1 .. Len(ev.s.keys) - 1 : ev.s.keys[i] > ev.s.keys[i + 1] THEN "state.unsorted"
               ELSE "state.members")
         ELSE IF \E o \in O : Obs(o.s) = ev.s THEN "result" ELSE "result+state"
Expected == LET O == Outcomes(Cur) IN IF O = {} THEN [none |-> TRUE] ELSE
            LET o == CHOOSE x \in O : TRUE IN [r |-> o.r, s |-> Obs(o.s), alternatives |-> Cardinality(O)]
Cond == IF Len(ord) = 0 THEN "empty" ELSE "nonempty"

\* re-synchronisation with the observed forward iteration
Resync == LET ids == ev.s.ids IN
          /\ ord' = ids
          /\ key' = [n \in Range(ids) |-> ev.s.keys[CHOOSE i \in 1 .. Len(ids) : ids[i] = n]]

TInit == Init /\ l = 1 /\ nfail = 0

TStep == /\ l <= Len(Tr)
         /\ \E o \in Outcomes(Cur) : Explained(o) /\ ord' = o.s.ord /\ key' = o.s.key /\ res' = o.r
         /\ op' = [e |-> ev.e, n |-> 0, k |-> 0]
         /\ l' = l + 1 /\ UNCHANGED nfail

TFail == /\ l <= Len(Tr)
         /\ ~ \E o \in Outcomes(Cur) : Explained(o)
         /\ PrintT(ToJson([fail |-> l, c |-> "slist", e |-> ev.e, a |-> ev.a, which |-> Which, cond |-> Cond,
                           got |-> [r |-> ev.r, s |-> ev.s], expected |-> Expected]))
         /\ Resync /\ res' = ev.r
         /\ op' = [e |-> ev.e, n |-> 0, k |-> 0]
         /\ l' = l + 1 /\ nfail' = nfail + 1

TNext == TStep \/ TFail
TSpec == TInit /\ [][TNext]_tvars
Consumed == TLCGet("stats").diameter - 1 = Len(Tr)
=============================================================================
