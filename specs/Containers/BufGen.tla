------------------------------ MODULE BufGen ------------------------------
(* Generator: every operation sequence of length Depth over the byte buffer *)
(* API with a small byte alphabet (space, 'a', ',', newline), starting from *)
(* a writable buffer or from a const buffer.  The first element of a script *)
(* is the create call.  Where Buf.tla allows several outcomes the generator *)
(* follows one (they differ only in undocumented details).                  *)
(* Leaves: {"c":"buf","ops":[[name,args..],...]}; byte strings are arrays.  *)
EXTENDS Buf, Json

CONSTANTS Depth, Ops
VARIABLE hist
gvars == <<buf, res, op, hist>>

One(O) == CHOOSE o \in O : TRUE
G(name, t, o) == /\ name \in Ops
                 /\ buf' = o.s /\ res' = o.r /\ op' = Ev(name, 0, <<>>)
                 /\ hist' = Append(hist, <<name>> \o t)
Room(bs) == Len(buf.data) + Len(bs) <= MaxData

AStrs == {<<97>>, <<44, 32>>, <<97, 10, 44>>}
Flags == {0, 1, 2, 3, 50}      \* none, keep, blank, keep+blank, blank+trim
FlagSet(f) == {x \in {"keep", "blank", "nodup", "ci", "ltrim", "rtrim"} :
                 (f \div (CASE x = "keep" -> 1 [] x = "blank" -> 2 [] x = "nodup" -> 4 [] x = "ci" -> 8
                            [] x = "ltrim" -> 16 [] x = "rtrim" -> 32)) % 2 = 1}

GNext ==
  /\ Len(hist) < Depth + 1
  /\ \/ \E bs \in AStrs : Room(bs) /\ G("append", <<bs>>, BAppend(buf, bs))
     \/ \E bs \in {<<44>>} : Room(bs) /\ G("append_direct", <<bs>>, BAppendDirect(buf, bs))
     \/ Room(<<0, 0>>) /\ G("append_be16", <<11297>>, BAppend(buf, BE16(11297)))
     \/ G("fetch_be16", <<>>, BFetchBE16(buf))
     \/ \E n \in {1, 2} : G("fetch_bytes", <<n>>, BFetchBytes(buf, n))
     \/ \E n \in {2} : G("fetch_str_dup", <<n>>, BFetchStr(buf, n))
     \/ \E n \in {1, 3} : G("consume", <<n>>, BConsume(buf, n))
     \/ G("tag", <<>>, BTag(buf))
     \/ G("tag_rollback", <<>>, BTagRollback(buf))
     \/ G("tag_clear", <<>>, BTagClear(buf))
     \/ \E c \in {1, 8} : G("tag_fetch_bytes", <<c>>, BTagFetchBytes(buf, c))
     \/ G("tag_fetch_strdup", <<>>, BTagFetchStrdup(buf))
     \/ G("consume_whitespace", <<1>>, BConsumeWS(buf, TRUE))
     \/ G("consume_nonwhitespace", <<>>, BConsumeNonWS(buf))
     \/ G("consume_line", <<1>>, BConsumeLine(buf, TRUE))
     \/ G("consume_until_charset", <<<<44, 10>>, 0>>, BConsumeUntilCharset(buf, <<44, 10>>, FALSE))
     \/ G("consume_charset", <<<<97, 32>>>>, BConsumeCharset(buf, <<97, 32>>))
     \/ G("consume_until_seq", <<<<44, 32>>, 1>>, BConsumeUntilSeq(buf, <<44, 32>>, TRUE))
     \/ \E f \in Flags : G("split", <<<<44>>, f, 0>>, One(BSplit(buf, <<44>>, FlagSet(f), 0)))
     \/ G("replace", <<<<44>>, <<97, 97>>>>, One(BReplace(buf, <<44>>, <<97, 97>>)))
     \/ G("replace", <<<<97>>, <<>>>>, One(BReplace(buf, <<97>>, <<>>)))
     \/ \E i \in {0, 2} : buf.const /\ ~Tagged(buf) /\ G("set_position", <<i>>, BSetPosition(buf, i))
     \/ G("parse_dns_binstr", <<3>>, One(BParseBinStr(buf, 3, FALSE)))

GInit == \/ buf = BCreate.s /\ res = BCreate.r /\ op = Ev("create", 0, <<>>) /\ hist = <<<<"create">>>>
         \/ \E bs \in {<<97, 44, 32, 97>>, <<1, 97, 44, 44>>} :
              /\ buf = BCreateConst(bs).s /\ res = BCreateConst(bs).r /\ op = Ev("create_const", 0, bs)
              /\ hist = <<<<"create_const", bs>>>>
GSpec == GInit /\ [][GNext]_gvars
PrintLeaf == Len(hist) = Depth + 1 => PrintT(ToJson([c |-> "buf", ops |-> hist]))
=============================================================================
