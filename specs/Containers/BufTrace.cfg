\* trace validation: env TRACE=<events.ndjson>; run with -workers 1
CONSTANTS
  Bytes = {}
  MaxData = 0
SPECIFICATION TSpec
POSTCONDITION Consumed
CHECK_DEADLOCK FALSE
