\* exhaustive check of the byte-buffer ADT laws, small constants
\* bytes: space, 'a', ',', newline
CONSTANTS
  Bytes = {32, 97, 44, 10}
  MaxData = 3
SPECIFICATION Spec
CONSTRAINT Bound
INVARIANTS TypeOK Normalised
PROPERTIES FifoLaw RollbackLaw TagStable
CHECK_DEADLOCK FALSE
