\* trace validation: env TRACE=<events.ndjson>; run with -workers 1
CONSTANTS
  MaxLen = 0
  Keys = {}
  Ids = {}
SPECIFICATION TSpec
POSTCONDITION Consumed
CHECK_DEADLOCK FALSE
