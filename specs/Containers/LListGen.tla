----------------------------- MODULE LListGen -----------------------------
(* Generator: every operation sequence of length Depth over the linked list *)
(* API on two lists (new node ids are fresh).                               *)
(* Leaves are printed as {"c":"llist","ops":[[name,args..],...]}.           *)
EXTENDS LList, Json

CONSTANTS Depth, Ops
VARIABLE hist
gvars == <<lists, res, op, hist>>

Fresh == Len(hist) + 1
Room  == Len(lists[1]) + Len(lists[2]) < MaxLen
G(name, t, A) == name \in Ops /\ A /\ hist' = Append(hist, <<name>> \o t)

GNext ==
  /\ Len(hist) < Depth
  /\ \/ \E L \in {0, 1} : Room /\ G("insert_first", <<L, Fresh>>, InsertFirst(L, Fresh))
     \/ \E L \in {0, 1} : Room /\ G("insert_last", <<L, Fresh>>, InsertLast(L, Fresh))
     \/ \E m \in Live : Room /\ G("insert_before", <<m, Fresh>>, InsertBefore(m, Fresh))
     \/ \E m \in Live : Room /\ G("insert_after", <<m, Fresh>>, InsertAfter(m, Fresh))
     \/ \E m \in Live : G("claim", <<m>>, Claim(m))
     \/ \E m \in Live : G("destroy_node", <<m>>, DestroyNode(m))
     \/ \E m \in Live : G("replace", <<m, Fresh>>, Replace(m, Fresh))
     \/ \E m \in Live, L \in {0, 1} : G("mv_first", <<m, L>>, MoveFirst(m, L))
     \/ \E m \in Live, L \in {0, 1} : G("mv_last", <<m, L>>, MoveLast(m, L))
     \/ \E L \in {0, 1} : G("clear", <<L>>, Clear(L))
     \/ \E L \in {0, 1} : G("idx", <<L, Len(lists[L + 1])>>, Idx(L, Len(lists[L + 1])))

GInit == Init /\ hist = <<>>
GSpec == GInit /\ [][GNext]_gvars
PrintLeaf == Len(hist) = Depth => PrintT(ToJson([c |-> "llist", ops |-> hist]))
=============================================================================
