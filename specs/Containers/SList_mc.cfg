\* exhaustive check of the ordered-list ADT laws, small constants
CONSTANTS
  MaxLen = 4
  Keys = {1, 2, 3}
  Ids = {1, 2, 3, 4}
SPECIFICATION Spec
CONSTRAINT Bound
INVARIANTS TypeOK Sorted NoDuplicates InsertTotal ReinsertTotal
PROPERTIES Conservation FindLaw ExtremesLaw
CHECK_DEADLOCK FALSE
