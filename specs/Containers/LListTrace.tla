---------------------------- MODULE LListTrace ----------------------------
(* Trace validation for ares_llist_t (see ArrayTrace.tla for the scheme).   *)
(* Events: insert_first/insert_last [L,id]; insert_before/insert_after      *)
(* [node,id]; claim/destroy_node [node]; replace [node,newid]; mv_first/    *)
(* mv_last [node,L]; clear [L]; idx [L,i]; first_val/last_val/len [L];      *)
(* create; destroy.                                                         *)
EXTENDS LList, Json, IOUtils

Tr == ndJsonDeserialize(IOEnv.TRACE)

VARIABLES l, nfail
tvars == <<lists, res, op, l, nfail>>

ev == Tr[l]
A1 == ev.a[1]
A2 == ev.a[2]
IsLive(ls, n) == n \in Nodes(ls)
IsList(L) == L \in {0, 1}

Outcomes(s) ==
  CASE ev.e = "create"        -> {LCreate}
    [] ev.e = "insert_first"  -> IF IsList(A1) /\ ~IsLive(s, A2) THEN {LInsertFirst(s, A1, A2)} ELSE {}
    [] ev.e = "insert_last"   -> IF IsList(A1) /\ ~IsLive(s, A2) THEN {LInsertLast(s, A1, A2)} ELSE {}
    [] ev.e = "insert_before" -> IF IsLive(s, A1) /\ ~IsLive(s, A2) THEN {LInsertBefore(s, A1, A2)} ELSE {}
    [] ev.e = "insert_after"  -> IF IsLive(s, A1) /\ ~IsLive(s, A2) THEN {LInsertAfter(s, A1, A2)} ELSE {}
    [] ev.e = "claim"         -> IF IsLive(s, A1) THEN {LClaim(s, A1)} ELSE {}
    [] ev.e = "destroy_node"  -> IF IsLive(s, A1) THEN {LDestroyNode(s, A1)} ELSE {}
    [] ev.e = "replace"       -> IF IsLive(s, A1) /\ ~IsLive(s, A2) THEN {LReplace(s, A1, A2)} ELSE {}
    [] ev.e = "mv_first"      -> IF IsLive(s, A1) /\ IsList(A2) THEN {LMoveFirst(s, A1, A2)} ELSE {}
    [] ev.e = "mv_last"       -> IF IsLive(s, A1) /\ IsList(A2) THEN {LMoveLast(s, A1, A2)} ELSE {}
    [] ev.e = "clear"         -> IF IsList(A1) THEN {LClear(s, A1)} ELSE {}
    [] ev.e = "idx"           -> IF IsList(A1) THEN {LIdx(s, A1, A2)} ELSE {}
    [] ev.e = "first_val"     -> IF IsList(A1) THEN {LFirstVal(s, A1)} ELSE {}
    [] ev.e = "last_val"      -> IF IsList(A1) THEN {LLastVal(s, A1)} ELSE {}
    [] ev.e = "len"           -> IF IsList(A1) THEN {LLen(s, A1)} ELSE {}
    [] ev.e = "destroy"       -> {LDestroy(s)}
    [] OTHER                  -> {}

GotR == IF ev.e \in {"destroy", "clear"} THEN [ev.r EXCEPT !.d = Sorted(@)] ELSE ev.r
Explained(o) == o.r = GotR /\ Obs(o.s) = ev.s

Which == LET O == Outcomes(lists) IN
         IF O = {} THEN "unknown_call"
         ELSE IF \E o \in O : o.r = GotR THEN
              (LET x == Obs((CHOOSE o \in O : TRUE).s) IN
               IF x.f0 # ev.s.f0 \/ x.f1 # ev.s.f1 THEN "state.forward"
               ELSE IF x.b0 # ev.s.b0 \/ x.b1 # ev.s.b1 THEN "state.backward"
               ELSE IF x.n0 # ev.s.n0 \/ x.n1 # ev.s.n1 THEN "state.len" ELSE "state.parent")
         ELSE IF \E o \in O : Obs(o.s) = ev.s THEN "result" ELSE "result+state"
Expected == LET O == Outcomes(lists) IN IF O = {} THEN [none |-> TRUE] ELSE
            LET o == CHOOSE x \in O : TRUE IN [r |-> o.r, s |-> Obs(o.s)]
\* distinguishing condition of the call: where the named node sits in its list
Cond == IF ev.e \in {"insert_before", "insert_after", "claim", "destroy_node", "replace", "mv_first", "mv_last"} /\ IsLive(lists, A1)
        THEN LET s == lists[ParentOf(lists, A1) + 1] p == PosOf(s, A1)
             IN IF Len(s) = 1 THEN "only" ELSE IF p = 1 THEN "head" ELSE IF p = Len(s) THEN "tail" ELSE "middle"
        ELSE "-"

TInit == Init /\ l = 1 /\ nfail = 0

TStep == /\ l <= Len(Tr)
         /\ \E o \in Outcomes(lists) : Explained(o) /\ lists' = o.s /\ res' = o.r
         /\ op' = [e |-> ev.e, m |-> 0, n |-> 0, L |-> 0]
         /\ l' = l + 1 /\ UNCHANGED nfail

TFail == /\ l <= Len(Tr)
         /\ ~ \E o \in Outcomes(lists) : Explained(o)
         /\ PrintT(ToJson([fail |-> l, c |-> "llist", e |-> ev.e, a |-> ev.a, which |-> Which, cond |-> Cond,
                           got |-> [r |-> ev.r, s |-> ev.s], expected |-> Expected]))
         /\ lists' = <<ev.s.f0, ev.s.f1>> /\ res' = ev.r       \* re-synchronise with the forward iteration
         /\ op' = [e |-> ev.e, m |-> 0, n |-> 0, L |-> 0]
         /\ l' = l + 1 /\ nfail' = nfail + 1

TNext == TStep \/ TFail
TSpec == TInit /\ [][TNext]_tvars
Consumed == TLCGet("stats").diameter - 1 = Len(Tr)
=============================================================================
