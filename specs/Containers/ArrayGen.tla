----------------------------- MODULE ArrayGen -----------------------------
(* Generator: every operation sequence of length Depth over the API of      *)
(* Array.tla (indices relative to the current abstract length, including    *)
(* the first out-of-range index; inserted values are fresh: the array never *)
(* looks at them).  Each leaf is printed as one JSON line                   *)
(*   {"c":"array","ops":[[name,a,b],...]}   for harness/dsa `replay`.       *)
EXTENDS Array, Json

CONSTANTS Depth,   \* length of the generated scripts
          Ops      \* names of the API functions to use

VARIABLE hist
gvars == <<seq, res, op, hist>>

Fresh == Len(hist) + 1
G(name, a, b, A) == name \in Ops /\ A /\ hist' = Append(hist, <<name, a, b>>)
Room == Len(seq) < MaxLen

GNext ==
  /\ Len(hist) < Depth
  /\ \/ \E i \in 0 .. Len(seq) + 1 : Room /\ G("insert_at", i, Fresh, InsertAt(i, Fresh))
     \/ \E i \in 0 .. Len(seq) + 1 : Room /\ G("insertdata_at", i, Fresh, InsertDataAt(i, Fresh))
     \/ Room /\ G("insert_first", 0, Fresh, InsertFirst(Fresh))
     \/ Room /\ G("insert_last", 0, Fresh, InsertLast(Fresh))
     \/ Room /\ G("insertdata_first", 0, Fresh, InsertDataFirst(Fresh))
     \/ Room /\ G("insertdata_last", 0, Fresh, InsertDataLast(Fresh))
     \/ \E i \in 0 .. Len(seq) : G("remove_at", i, 0, RemoveAt(i))
     \/ \E i \in 0 .. Len(seq) : G("claim_at", i, 0, ClaimAt(i))
     \/ \E i \in {Len(seq)} : G("at", i, 0, At(i))
     \/ G("remove_first", 0, 0, RemoveFirst)
     \/ G("remove_last", 0, 0, RemoveLast)
     \/ G("first", 0, 0, First)
     \/ G("last", 0, 0, Last)
     \/ G("sort", 0, 0, Sort)
     \/ \E n \in {0, Len(seq), 5, 9} : G("set_size", n, 0, SetSize(n))

GInit == Init /\ hist = <<>>
GSpec == GInit /\ [][GNext]_gvars

PrintLeaf == Len(hist) = Depth => PrintT(ToJson([c |-> "array", ops |-> hist]))
=============================================================================
