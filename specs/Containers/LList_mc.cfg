\* exhaustive check of the linked-list ADT laws (two lists, moves between them), small constants
CONSTANTS
  MaxLen = 4
  Ids = {1, 2, 3, 4}
SPECIFICATION Spec
CONSTRAINT Bound
INVARIANTS TypeOK NoDuplicates
PROPERTIES OrderPreserved MoveLaw InsertLaw RemoveLaw
CHECK_DEADLOCK FALSE
