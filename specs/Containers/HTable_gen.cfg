CONSTANTS
  NKeys = 4
  Vals = {}
  Kinds = {"strvp"}
  Depth = 4
  Ops = {"insert", "get", "get_direct", "remove", "claim", "num_keys", "keys"}
SPECIFICATION GSpec
INVARIANT PrintLeaf
CHECK_DEADLOCK FALSE
