------------------------------- MODULE HTable ------------------------------
(***************************************************************************)
(* The hash tables (src/lib/dsa/ares_htable.c and the typed wrappers       *)
(* ares_htable_{strvp,szvp,asvp,vpvp,vpstr,dict}.c) as an abstract data    *)
(* type: a finite FUNCTION from keys to values.  Buckets, seed, collision  *)
(* chains and growth are representation only; C19: "the hash tables map    *)
(* every live key to its latest value across growth".                      *)
(*                                                                         *)
(* kind selects the wrapper:                                               *)
(*   "gen"   ares_htable_t itself (harness bucket {key,val}, weak hash so  *)
(*           that chains, collisions and splits on growth really occur)    *)
(*   "strvp" string -> pointer, keys compare case-insensitively, has claim *)
(*   "szvp"  size_t -> pointer        "asvp" socket -> pointer, has keys() *)
(*   "vpvp"  pointer -> pointer, key free callback                         *)
(*   "vpstr" pointer -> string        "dict" string -> string (case-       *)
(*           insensitive keys), has keys()                                 *)
(* KEY DOMAIN.  strvp and dict hash and compare their string keys without  *)
(* regard to letter case (ares_htable_hash_FNV1a_casecmp / ares_strcaseeq):*)
(* the key domain of these two wrappers is the CASE-FOLDED string, i.e.    *)
(* two spellings that differ only in letter case ARE THE SAME KEY: a get / *)
(* remove / claim under any spelling finds the entry, an insert under      *)
(* another spelling REPLACES it (one entry, num_keys unchanged, the old    *)
(* value is freed).  vpstr, vpvp (pointer identity), szvp, asvp and the    *)
(* generic table compare keys exactly.                                     *)
(* A key is a small integer id k; for the case-insensitive kinds the ids   *)
(* 2n and 2n+1 are two spellings of key n ("key7"/"KEY7", "key8"/"kEy8"):  *)
(* Norm(kind, k) is the key, map[Norm(k)] = [k |-> spelling stored (what   *)
(* keys() enumerates), v |-> value].                                       *)
(* A table may be created pre-filled (create [kind, nkeys, prefill]): the  *)
(* filler entries (ids 2*nkeys + 2i, values 100000 + i) make short scripts *)
(* run on a table that has already grown/rehashed.                         *)
(*                                                                         *)
(* Result record: ok (1/0 = ARES_TRUE/FALSE, or NoVal when the call has no *)
(* boolean result), out = value handed back (NoVal = none), d = values     *)
(* given to the value-free callback by the call, dk = keys given to the    *)
(* key-free callback (vpvp).                                               *)
(***************************************************************************)
EXTENDS Naturals, Integers, Sequences, FiniteSets, TLC

CONSTANTS NKeys,    \* model checking: keys are 0 .. NKeys-1
          Vals,     \* model checking: values
          Kinds     \* model checking: wrapper kinds to explore

VARIABLES kind, nk, map, res, op
vars == <<kind, nk, map, res, op>>

NoVal == -1
R(ok, out, d, dk) == [ok |-> ok, out |-> out, d |-> d, dk |-> dk]
St(k, n, m)       == [kind |-> k, nk |-> n, map |-> m]
Out(s, r)         == [s |-> s, r |-> r]

CaseInsensitive(k) == k \in {"strvp", "dict"}
FreesVal(k)        == k \in {"gen", "strvp", "szvp", "asvp", "vpvp"}   \* value-free callback observable
FreesKey(k)        == k = "vpvp"
HasClaim(k)        == k = "strvp"
HasKeys(k)         == k \in {"gen", "asvp", "dict"}
Norm(knd, k)       == IF CaseInsensitive(knd) THEN k \div 2 ELSE k

Has(s, k)  == Norm(s.kind, k) \in DOMAIN s.map
ValOf(s, k) == IF Has(s, k) THEN s.map[Norm(s.kind, k)].v ELSE NoVal
Put(m, x, e) == [y \in DOMAIN m \cup {x} |-> IF y = x THEN e ELSE m[y]]
Del(m, x)    == [y \in DOMAIN m \ {x} |-> m[y]]
FreedV(s, k) == IF Has(s, k) /\ FreesVal(s.kind) THEN <<ValOf(s, k)>> ELSE <<>>
FreedK(s, k) == IF Has(s, k) /\ FreesKey(s.kind) THEN <<s.map[Norm(s.kind, k)].k>> ELSE <<>>

(* ---- the API ---------------------------------------------------------- *)
\* insert: adds the key or REPLACES its value (the old entry is freed); never refused
HInsert(s, k, v) == Out([s EXCEPT !.map = Put(s.map, Norm(s.kind, k), [k |-> k, v |-> v])],
                        R(1, NoVal, FreedV(s, k), FreedK(s, k)))
\* whether a REPLACING insert hands the old key to the key-free callback (vpvp) is not
\* documented: both behaviours are allowed
HInsertSet(s, k, v) == {HInsert(s, k, v)} \cup
                       (IF FreesKey(s.kind) /\ Has(s, k)
                        THEN {[HInsert(s, k, v) EXCEPT !.r.dk = <<>>]} ELSE {})
\* get: TRUE and the latest value iff the key is live
HGet(s, k)       == Out(s, R(IF Has(s, k) THEN 1 ELSE 0, ValOf(s, k), <<>>, <<>>))
HGetDirect(s, k) == Out(s, R(NoVal, ValOf(s, k), <<>>, <<>>))
\* remove: TRUE iff the key was live; the entry is freed
HRemove(s, k)    == IF Has(s, k) THEN Out([s EXCEPT !.map = Del(s.map, Norm(s.kind, k))], R(1, NoVal, FreedV(s, k), FreedK(s, k)))
                                 ELSE Out(s, R(0, NoVal, <<>>, <<>>))
\* claim (strvp): remove and hand the value back without freeing it
HClaim(s, k)     == IF Has(s, k) THEN Out([s EXCEPT !.map = Del(s.map, Norm(s.kind, k))], R(NoVal, ValOf(s, k), <<>>, <<>>))
                                 ELSE Out(s, R(NoVal, NoVal, <<>>, <<>>))
HNumKeys(s)      == Out(s, R(NoVal, Cardinality(DOMAIN s.map), <<>>, <<>>))
\* destroy: every live entry is freed exactly once, in no particular order (d, dk are compared as sorted sequences)
RECURSIVE SetSeq(_)
SetSeq(S)        == IF S = {} THEN <<>> ELSE LET x == CHOOSE y \in S : TRUE IN <<x>> \o SetSeq(S \ {x})
BagSeq(m, f(_))  == LET ks == SetSeq(DOMAIN m) IN SortSeq([i \in 1 .. Len(ks) |-> f(m[ks[i]])], LAMBDA a, b : a < b)
LiveVals(s)      == IF FreesVal(s.kind) THEN BagSeq(s.map, LAMBDA e : e.v) ELSE <<>>
LiveKeys(s)      == BagSeq(s.map, LAMBDA e : e.k)
Empty(k, n)      == St(k, n, <<>>)
\* (leak = library allocations of the history still live afterwards: none)
HDestroy(s)      == Out(Empty(s.kind, s.nk), [ok |-> NoVal, out |-> NoVal, d |-> LiveVals(s),
                                              dk |-> IF FreesKey(s.kind) THEN LiveKeys(s) ELSE <<>>, leak |-> 0])
Fillers(k, n, p) == [x \in {Norm(k, 2 * n + 2 * i) : i \in 0 .. p - 1} |->
                       LET i == CHOOSE j \in 0 .. p - 1 : Norm(k, 2 * n + 2 * j) = x
                       IN [k |-> 2 * n + 2 * i, v |-> 100000 + i]]
HCreate(k, n, p) == Out(St(k, n, Fillers(k, n, p)), R(NoVal, NoVal, <<>>, <<>>))

\* keys() / all_buckets(): every live key exactly once, in no particular order (compared sorted)
HKeys(s)         == Out(s, [ok |-> NoVal, out |-> Cardinality(DOMAIN s.map), d |-> <<>>, dk |-> <<>>, keys |-> LiveKeys(s)])

\* what the harness sees: get_direct of every key of the universe, num_keys,
\* and (where the wrapper has it) the enumeration of the keys, compared as a sorted sequence
Obs(s) == [vals |-> [i \in 1 .. s.nk |-> ValOf(s, i - 1)],
           n    |-> Cardinality(DOMAIN s.map),
           keys |-> IF HasKeys(s.kind) THEN LiveKeys(s) ELSE <<>>]

(* ---- actions ----------------------------------------------------------- *)
Cur == St(kind, nk, map)
Do(o, e, k, v) == kind' = o.s.kind /\ nk' = o.s.nk /\ map' = o.s.map /\ res' = o.r /\ op' = [e |-> e, k |-> k, v |-> v]

Insert(k, v)  == \E o \in HInsertSet(Cur, k, v) : Do(o, "insert", k, v)
Get(k)        == Do(HGet(Cur, k), "get", k, 0)
GetDirect(k)  == Do(HGetDirect(Cur, k), "get_direct", k, 0)
Remove(k)     == Do(HRemove(Cur, k), "remove", k, 0)
Claim(k)      == HasClaim(kind) /\ Do(HClaim(Cur, k), "claim", k, 0)
NumKeys       == Do(HNumKeys(Cur), "num_keys", 0, 0)
KeysOf        == HasKeys(kind) /\ Do(HKeys(Cur), "keys", 0, 0)

Init == \E k \in Kinds : /\ kind = k /\ nk = NKeys /\ map = <<>>
                         /\ res = R(NoVal, NoVal, <<>>, <<>>) /\ op = [e |-> "create", k |-> 0, v |-> 0]
KeyU == 0 .. NKeys - 1
Next == \/ \E k \in KeyU, v \in Vals : Insert(k, v)
        \/ \E k \in KeyU : Get(k) \/ GetDirect(k) \/ Remove(k) \/ Claim(k)
        \/ NumKeys \/ KeysOf
Spec == Init /\ [][Next]_vars

(* ---- the ADT laws ------------------------------------------------------ *)
TypeOK == /\ DOMAIN map \subseteq {Norm(kind, k) : k \in KeyU}
          /\ \A x \in DOMAIN map : map[x].v \in Vals /\ Norm(kind, map[x].k) = x
\* every live key maps to its LATEST value: after insert(k, v) a get of any spelling of k gives v,
\* and every other key keeps what it had
LatestValue == [][ op'.e = "insert" =>
                     /\ \A k \in KeyU : Norm(kind, k) = Norm(kind, op'.k) => HGet(St(kind', nk', map'), k).r = R(1, op'.v, <<>>, <<>>)
                     /\ \A k \in KeyU : Norm(kind, k) # Norm(kind, op'.k) => ValOf(St(kind', nk', map'), k) = ValOf(Cur, k) ]_vars
RemoveLaw   == [][ op'.e \in {"remove", "claim"} =>
                     /\ ~Has(St(kind', nk', map'), op'.k)
                     /\ \A k \in KeyU : Norm(kind, k) # Norm(kind, op'.k) => ValOf(St(kind', nk', map'), k) = ValOf(Cur, k)
                     /\ (op'.e = "remove" => res'.ok = (IF Has(Cur, op'.k) THEN 1 ELSE 0)) ]_vars
ObserversPure == [][ op'.e \in {"get", "get_direct", "num_keys", "keys"} => map' = map ]_vars
\* nothing is freed twice or lost: a value is freed exactly when its entry is replaced or removed
FreeLaw     == [][ /\ op'.e \in {"insert", "remove"} =>
                        res'.d = (IF Has(Cur, op'.k) /\ FreesVal(kind) THEN <<ValOf(Cur, op'.k)>> ELSE <<>>)
                   /\ op'.e \in {"get", "get_direct", "claim", "num_keys", "keys"} => res'.d = <<>> ]_vars
CountLaw    == HNumKeys(Cur).r.out = Cardinality({Norm(kind, k) : k \in {k \in KeyU : Has(Cur, k)}})
=============================================================================
