CONSTANTS
  MaxLen = 4
  Ids = {}
  Depth = 4
  Ops = {"insert_first", "insert_last", "insert_before", "insert_after", "claim", "destroy_node", "replace", "mv_first", "mv_last", "clear", "idx"}
SPECIFICATION GSpec
INVARIANT PrintLeaf
CHECK_DEADLOCK FALSE
