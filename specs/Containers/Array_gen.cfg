CONSTANTS
  MaxLen = 3
  Vals = {1}
  Depth = 4
  Ops = {"insert_at", "insertdata_at", "insert_first", "insert_last", "insertdata_first", "insertdata_last", "remove_at", "claim_at", "remove_first", "remove_last", "sort", "set_size", "at", "first", "last"}
SPECIFICATION GSpec
INVARIANT PrintLeaf
CHECK_DEADLOCK FALSE
