----------------------------- MODULE SListGen -----------------------------
(* Generator: every operation sequence of length Depth over the skip list   *)
(* API with keys from Keys (node ids are fresh).  Where SList.tla allows    *)
(* several outcomes (position among equal keys) the generator follows one:  *)
(* which calls are possible next only depends on the set of live nodes.     *)
(* Leaves are printed as {"c":"slist","ops":[[name,args..],...]}.           *)
EXTENDS SList, Json

CONSTANTS Depth, Ops
VARIABLE hist
gvars == <<ord, key, res, op, hist>>

Fresh == Len(hist) + 1
One(O) == {CHOOSE o \in O : TRUE}
G(name, t, O) == /\ name \in Ops
                 /\ Do(One(O), name, 0, 0)
                 /\ hist' = Append(hist, <<name>> \o t)

GNext ==
  /\ Len(hist) < Depth
  /\ \/ \E k \in Keys : Len(ord) < MaxLen /\ G("insert", <<k, Fresh>>, SInsert(Cur, Fresh, k))
     \/ \E k \in Keys : G("find", <<k>>, SFind(Cur, k))
     \/ \E n \in Live : G("claim", <<n>>, SClaim(Cur, n))
     \/ \E n \in Live : G("destroy_node", <<n>>, SDestroyNode(Cur, n))
     \/ \E n \in Live, k \in Keys : G("reinsert", <<n, k>>, SReinsert(Cur, n, k))
     \/ \E n \in Live : G("next", <<n>>, SNext(Cur, n))
     \/ \E n \in Live : G("prev", <<n>>, SPrev(Cur, n))
     \/ G("first", <<>>, SFirst(Cur))
     \/ G("last", <<>>, SLast(Cur))

GInit == Init /\ hist = <<>>
GSpec == GInit /\ [][GNext]_gvars
PrintLeaf == Len(hist) = Depth => PrintT(ToJson([c |-> "slist", ops |-> hist]))
=============================================================================
