------------------------------- MODULE Array -------------------------------
(***************************************************************************)
(* ares_array_t (src/lib/dsa/ares_array.c) as an abstract data type:       *)
(* a finite SEQUENCE of member values.  Index i of the C API (0-based) is  *)
(* position i+1 of the sequence.  Nothing of the representation (offset,   *)
(* allocation size, compaction) is part of the abstract value: C19 says    *)
(* "the array keeps sequence order for inserts and removals at any index   *)
(* and stays usable after any removal pattern".                            *)
(*                                                                         *)
(* Every API function is a pure operator  A<name>(s, args)  that returns   *)
(* the outcome  [s |-> new value, r |-> observable result]; the actions    *)
(* below and the trace specification (ArrayTrace.tla) both use these       *)
(* operators, so there is one source of truth.                             *)
(*                                                                         *)
(* Result record: rc  = status name, out = value handed back (claim/at/    *)
(* first/last; NoVal when none), d = members given to the destructor       *)
(* callback by this call, in call order.                                   *)
(***************************************************************************)
EXTENDS Naturals, Integers, Sequences, FiniteSets, TLC

CONSTANTS MaxLen,   \* model checking / generation: bound on Len(seq)
          Vals      \* model checking: values that are inserted

VARIABLES seq,      \* the abstract value
          res,      \* result of the last call
          op        \* the last call [e |-> name, i |-> index, v |-> value, n |-> size]

vars == <<seq, res, op>>

NoVal == -1
R(rc, out, d) == [rc |-> rc, out |-> out, d |-> d]
Out(s, r)     == [s |-> s, r |-> r]
OK  == "SUCCESS"
BAD == "EFORMERR"

InsAt(s, i, v) == SubSeq(s, 1, i) \o <<v>> \o SubSeq(s, i + 1, Len(s))
DelAt(s, i)    == SubSeq(s, 1, i) \o SubSeq(s, i + 2, Len(s))

(* ---- the API ---------------------------------------------------------- *)
\* ares_array_insert_at (+ store v in the returned slot) and ares_array_insertdata_at
AInsertAt(s, i, v) == IF i <= Len(s) THEN Out(InsAt(s, i, v), R(OK, NoVal, <<>>))
                                     ELSE Out(s, R(BAD, NoVal, <<>>))
\* ares_array_insert_first / ares_array_insertdata_first: "at the beginning of the array"
AInsertFirst(s, v) == AInsertAt(s, 0, v)
\* ares_array_insert_last / ares_array_insertdata_last: "at the end of the array"
AInsertLast(s, v)  == AInsertAt(s, Len(s), v)
\* ares_array_remove_at: destructor is called on the member
ARemoveAt(s, i) == IF i < Len(s) THEN Out(DelAt(s, i), R(OK, NoVal, <<s[i + 1]>>))
                                 ELSE Out(s, R(BAD, NoVal, <<>>))
ARemoveFirst(s) == ARemoveAt(s, 0)
ARemoveLast(s)  == IF Len(s) = 0 THEN Out(s, R(BAD, NoVal, <<>>)) ELSE ARemoveAt(s, Len(s) - 1)
\* ares_array_claim_at: member copied out, no destructor
AClaimAt(s, i) == IF i < Len(s) THEN Out(DelAt(s, i), R(OK, s[i + 1], <<>>))
                                ELSE Out(s, R(BAD, NoVal, <<>>))
\* ares_array_at / first / last: NULL (NoVal) when out of range
AAt(s, i)  == Out(s, R(OK, IF i < Len(s) THEN s[i + 1] ELSE NoVal, <<>>))
AFirst(s)  == AAt(s, 0)
ALast(s)   == Out(s, R(OK, IF Len(s) = 0 THEN NoVal ELSE s[Len(s)], <<>>))
ALen(s)    == Out(s, R(OK, Len(s), <<>>))
\* ares_array_set_size: only a capacity hint; misuse when 0 or smaller than the length
ASetSize(s, n) == Out(s, R(IF n = 0 \/ n < Len(s) THEN BAD ELSE OK, NoVal, <<>>))
\* ares_array_sort with the integer order
ASort(s)   == Out(SortSeq(s, LAMBDA a, b : a < b), R(OK, NoVal, <<>>))
\* ares_array_finish: hands the members out in order, the container is gone
\* (the trace format reports the members in d; no destructor runs)
Final(r)   == [rc |-> r.rc, out |-> r.out, d |-> r.d, leak |-> 0]   \* terminal calls: no library allocation of the history stays live
AFinish(s) == Out(<<>>, Final(R(OK, Len(s), s)))
\* ares_array_destroy: destructor on every member exactly once (the order is not documented: d is
\* compared as a sorted sequence)
Sorted(s)   == SortSeq(s, LAMBDA a, b : a < b)
ADestroy(s) == Out(<<>>, Final(R(OK, NoVal, Sorted(s))))
ACreate     == Out(<<>>, R(OK, NoVal, <<>>))

\* what the harness can see of the value after every call
Obs(s) == [items |-> s, len |-> Len(s),
           first |-> IF s = <<>> THEN NoVal ELSE s[1],
           last  |-> IF s = <<>> THEN NoVal ELSE s[Len(s)]]

(* ---- actions (one per API function) ----------------------------------- *)
Do(o, e, i, v) == seq' = o.s /\ res' = o.r /\ op' = [e |-> e, i |-> i, v |-> v]

InsertAt(i, v)       == Do(AInsertAt(seq, i, v), "insert_at", i, v)
InsertFirst(v)       == Do(AInsertFirst(seq, v), "insert_first", 0, v)
InsertLast(v)        == Do(AInsertLast(seq, v), "insert_last", 0, v)
InsertDataAt(i, v)   == Do(AInsertAt(seq, i, v), "insertdata_at", i, v)
InsertDataFirst(v)   == Do(AInsertFirst(seq, v), "insertdata_first", 0, v)
InsertDataLast(v)    == Do(AInsertLast(seq, v), "insertdata_last", 0, v)
RemoveAt(i)          == Do(ARemoveAt(seq, i), "remove_at", i, 0)
RemoveFirst          == Do(ARemoveFirst(seq), "remove_first", 0, 0)
RemoveLast           == Do(ARemoveLast(seq), "remove_last", 0, 0)
ClaimAt(i)           == Do(AClaimAt(seq, i), "claim_at", i, 0)
At(i)                == Do(AAt(seq, i), "at", i, 0)
First                == Do(AFirst(seq), "first", 0, 0)
Last                 == Do(ALast(seq), "last", 0, 0)
SetSize(n)           == Do(ASetSize(seq, n), "set_size", n, 0)
Sort                 == Do(ASort(seq), "sort", 0, 0)

Init == seq = <<>> /\ res = R(OK, NoVal, <<>>) /\ op = [e |-> "create", i |-> 0, v |-> 0]

Idx == 0 .. MaxLen + 1
Next == \/ \E i \in Idx, v \in Vals : InsertAt(i, v) \/ InsertDataAt(i, v)
        \/ \E v \in Vals : InsertFirst(v) \/ InsertLast(v) \/ InsertDataFirst(v) \/ InsertDataLast(v)
        \/ \E i \in Idx : RemoveAt(i) \/ ClaimAt(i) \/ At(i)
        \/ RemoveFirst \/ RemoveLast \/ First \/ Last \/ Sort
        \/ \E n \in 0 .. MaxLen + 1 : SetSize(n)

Spec == Init /\ [][Next]_vars
Bound == Len(seq) <= MaxLen

(* ---- the ADT laws (checked by TLC on this module) ---------------------- *)
TypeOK == /\ seq \in Seq(Vals) /\ res.rc \in {OK, BAD}
          /\ res.out \in Vals \cup {NoVal} \cup (0 .. MaxLen + 1) /\ res.d \in Seq(Vals)

Inserts == {"insert_at", "insert_first", "insert_last", "insertdata_at", "insertdata_first", "insertdata_last"}
Removes == {"remove_at", "remove_first", "remove_last", "claim_at"}

\* sequence order: a successful insert puts v at its index and shifts the members
\* at and after it by one, keeps everything else
InsertLaw == [][ (op'.e \in Inserts /\ res'.rc = OK) =>
                   LET p == IF op'.e \in {"insert_at", "insertdata_at"} THEN op'.i
                            ELSE IF op'.e \in {"insert_first", "insertdata_first"} THEN 0 ELSE Len(seq)
                   IN /\ Len(seq') = Len(seq) + 1
                      /\ seq'[p + 1] = op'.v
                      /\ \A k \in 1 .. Len(seq) : seq'[IF k <= p THEN k ELSE k + 1] = seq[k] ]_vars
\* a successful removal deletes exactly the member at its index
RemoveLaw == [][ (op'.e \in Removes /\ res'.rc = OK) =>
                   LET p == IF op'.e \in {"remove_at", "claim_at"} THEN op'.i
                            ELSE IF op'.e = "remove_first" THEN 0 ELSE Len(seq) - 1
                   IN /\ Len(seq') = Len(seq) - 1
                      /\ (op'.e = "claim_at" => res'.out = seq[p + 1] /\ res'.d = <<>>)
                      /\ (op'.e # "claim_at" => res'.d = <<seq[p + 1]>>)
                      /\ \A k \in 1 .. Len(seq') : seq'[k] = seq[IF k <= p THEN k ELSE k + 1] ]_vars
\* a failed call and an observer change nothing
NoEffectLaw == [][ (res'.rc = BAD \/ op'.e \in {"at", "first", "last", "set_size"}) => seq' = seq ]_vars
\* usable after any pattern: in every reachable state every in-range insert succeeds
Usable == \A v \in Vals : /\ \A i \in 0 .. Len(seq) : AInsertAt(seq, i, v).r.rc = OK
                          /\ AInsertFirst(seq, v).r.rc = OK /\ AInsertLast(seq, v).r.rc = OK
\* insert then remove at the same index is the identity
InsertRemoveInverse == \A v \in Vals : \A i \in 0 .. Len(seq) :
                          ARemoveAt(AInsertAt(seq, i, v).s, i).s = seq
\* sorting permutes
SortLaw == [][ op'.e = "sort" => /\ Len(seq') = Len(seq)
                                 /\ \A x \in Vals : Cardinality({k \in 1 .. Len(seq) : seq[k] = x})
                                                  = Cardinality({k \in 1 .. Len(seq') : seq'[k] = x})
                                 /\ \A k \in 1 .. Len(seq') - 1 : seq'[k] <= seq'[k + 1] ]_vars
=============================================================================
