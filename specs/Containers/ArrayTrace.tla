---------------------------- MODULE ArrayTrace ----------------------------
(* Trace validation for ares_array_t: every recorded call of the harness    *)
(* (harness/dsa, events {"e":name,"a":[args],"r":result,"s":observed}) must *)
(* be an outcome that Array.tla allows from the current abstract value.     *)
(*                                                                          *)
(* An unexplained event is reported (one JSON line {"fail":line,...}) and   *)
(* the abstract value is re-synchronised with the observed content, so one  *)
(* deviation does not hide later ones in a long history.  The run is        *)
(* accepted iff no line was reported and the whole file was consumed.       *)
EXTENDS Array, Json, IOUtils

Tr == ndJsonDeserialize(IOEnv.TRACE)

VARIABLES l,       \* next line of the trace
          nfail    \* number of unexplained events so far
tvars == <<seq, res, op, l, nfail>>

ev == Tr[l]
A1 == ev.a[1]
A2 == ev.a[2]

\* the outcomes the specification allows for the recorded call
Outcomes(s) ==
  CASE ev.e = "create"           -> {ACreate}
    [] ev.e = "insert_at"        -> {AInsertAt(s, A1, A2)}
    [] ev.e = "insertdata_at"    -> {AInsertAt(s, A1, A2)}
    [] ev.e = "insert_first"     -> {AInsertFirst(s, A2)}
    [] ev.e = "insertdata_first" -> {AInsertFirst(s, A2)}
    [] ev.e = "insert_last"      -> {AInsertLast(s, A2)}
    [] ev.e = "insertdata_last"  -> {AInsertLast(s, A2)}
    [] ev.e = "remove_at"        -> {ARemoveAt(s, A1)}
    [] ev.e = "remove_first"     -> {ARemoveFirst(s)}
    [] ev.e = "remove_last"      -> {ARemoveLast(s)}
    [] ev.e = "claim_at"         -> {AClaimAt(s, A1)}
    [] ev.e = "at"               -> {AAt(s, A1)}
    [] ev.e = "first"            -> {AFirst(s)}
    [] ev.e = "last"             -> {ALast(s)}
    [] ev.e = "len"              -> {ALen(s)}
    [] ev.e = "set_size"         -> {ASetSize(s, A1)}
    [] ev.e = "sort"             -> {ASort(s)}
    [] ev.e = "finish"           -> {AFinish(s)}
    [] ev.e = "destroy"          -> {ADestroy(s)}
    [] OTHER                     -> {}

GotR == IF ev.e = "destroy" THEN [ev.r EXCEPT !.d = Sorted(@)] ELSE ev.r
Explained(o) == o.r = GotR /\ Obs(o.s) = ev.s

\* which part of the observation no allowed outcome explains (for the signature)
Which == LET O == Outcomes(seq) IN
         IF O = {} THEN "unknown_call"
         ELSE IF \E o \in O : o.r = GotR THEN "state"
         ELSE IF \E o \in O : Obs(o.s) = ev.s THEN "result" ELSE "result+state"
Expected == LET O == Outcomes(seq) IN IF O = {} THEN [none |-> TRUE] ELSE
            LET o == CHOOSE x \in O : TRUE IN [r |-> o.r, s |-> Obs(o.s)]
Cond == IF Len(seq) = 0 THEN "empty" ELSE "nonempty"

TInit == Init /\ l = 1 /\ nfail = 0

TStep == /\ l <= Len(Tr)
         /\ \E o \in Outcomes(seq) : Explained(o) /\ seq' = o.s /\ res' = o.r
         /\ op' = [e |-> ev.e, i |-> 0, v |-> 0]
         /\ l' = l + 1 /\ UNCHANGED nfail

TFail == /\ l <= Len(Tr)
         /\ ~ \E o \in Outcomes(seq) : Explained(o)
         /\ PrintT(ToJson([fail |-> l, c |-> "array", e |-> ev.e, a |-> ev.a, which |-> Which, cond |-> Cond,
                           got |-> [r |-> ev.r, s |-> ev.s], expected |-> Expected]))
         /\ seq' = ev.s.items /\ res' = ev.r            \* re-synchronise
         /\ op' = [e |-> ev.e, i |-> 0, v |-> 0]
         /\ l' = l + 1 /\ nfail' = nfail + 1

TNext == TStep \/ TFail
TSpec == TInit /\ [][TNext]_tvars

\* POSTCONDITION: the whole file was consumed (diameter = events + 1) and nothing was unexplained
Consumed == TLCGet("stats").diameter - 1 = Len(Tr)
Accepted == Consumed /\ TLCSet(7, TRUE)
NoFail   == nfail = 0
=============================================================================
