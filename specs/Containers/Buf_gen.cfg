CONSTANTS
  Bytes = {}
  MaxData = 8
  Depth = 3
  Ops = {"append", "append_direct", "append_be16", "fetch_be16", "fetch_bytes", "fetch_str_dup", "consume", "tag", "tag_rollback", "tag_clear", "tag_fetch_bytes", "tag_fetch_strdup", "consume_whitespace", "consume_nonwhitespace", "consume_line", "consume_until_charset", "consume_charset", "consume_until_seq", "split", "replace", "set_position", "parse_dns_binstr"}
SPECIFICATION GSpec
INVARIANT PrintLeaf
CHECK_DEADLOCK FALSE
