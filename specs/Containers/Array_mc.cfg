\* exhaustive check of the array ADT laws, small constants
CONSTANTS
  MaxLen = 4
  Vals = {1, 2, 3}
SPECIFICATION Spec
CONSTRAINT Bound
INVARIANTS TypeOK Usable InsertRemoveInverse
PROPERTIES InsertLaw RemoveLaw NoEffectLaw SortLaw
CHECK_DEADLOCK FALSE
