\* trace validation: env TRACE=<events.ndjson>; run with -workers 1
CONSTANTS
  NKeys = 0
  Vals = {}
  Kinds = {}
SPECIFICATION TSpec
POSTCONDITION Consumed
CHECK_DEADLOCK FALSE
