----------------------------- MODULE BufTrace -----------------------------
(* Trace validation for ares_buf_t (see ArrayTrace.tla for the scheme).     *)
(* Byte strings are arrays of numbers; flags of split are the C bit mask;   *)
(* 32 bit numbers are two 16 bit halves.                                    *)
EXTENDS Buf, Json, IOUtils

Tr == ndJsonDeserialize(IOEnv.TRACE)

VARIABLES l, nfail
tvars == <<buf, res, op, l, nfail>>

ev == Tr[l]
A1 == ev.a[1]
A2 == ev.a[2]
A3 == ev.a[3]
Bit(f, k)  == (f \div k) % 2 = 1
FlagSet(f) == (IF Bit(f, 1) THEN {"keep"} ELSE {}) \cup (IF Bit(f, 2) THEN {"blank"} ELSE {}) \cup
              (IF Bit(f, 4) THEN {"nodup"} ELSE {}) \cup (IF Bit(f, 8) THEN {"ci"} ELSE {}) \cup
              (IF Bit(f, 16) THEN {"ltrim"} ELSE {}) \cup (IF Bit(f, 32) THEN {"rtrim"} ELSE {})

Outcomes(s) ==
  CASE ev.e = "create"                -> {BCreate}
    [] ev.e = "create_const"          -> {BCreateConst(A1)}
    [] ev.e = "append"                -> {BAppend(s, A1)}
    [] ev.e = "append_str"            -> {BAppend(s, A1)}
    [] ev.e = "append_byte"           -> {BAppend(s, <<A1>>)}
    [] ev.e = "append_be16"           -> {BAppend(s, BE16(A1))}
    [] ev.e = "append_be32"           -> {BAppend(s, BE32(A1, A2))}
    [] ev.e = "append_direct"         -> {BAppendDirect(s, A1)}
    [] ev.e = "append_num_dec"        -> {BAppendNumDec(s, A1, A2)}
    [] ev.e = "append_num_hex"        -> {BAppendNumHex(s, A1, A2)}
    [] ev.e = "fetch_be16"            -> {BFetchBE16(s)}
    [] ev.e = "fetch_be32"            -> {BFetchBE32(s)}
    [] ev.e = "fetch_bytes"           -> {BFetchBytes(s, A1)}
    [] ev.e = "fetch_bytes_dup"       -> {BFetchBytes(s, A1)}
    [] ev.e = "fetch_bytes_into_buf"  -> {BFetchBytes(s, A1)}
    [] ev.e = "fetch_str_dup"         -> {BFetchStr(s, A1)}
    [] ev.e = "consume"               -> {BConsume(s, A1)}
    [] ev.e = "peek_byte"             -> {BPeekByte(s)}
    [] ev.e = "begins_with"           -> {BBeginsWith(s, A1)}
    [] ev.e = "len"                   -> {BLen(s)}
    [] ev.e = "reclaim"               -> {Out(s, R(NONE, NoNum, <<>>))}
    [] ev.e = "tag"                   -> {BTag(s)}
    [] ev.e = "tag_rollback"          -> {BTagRollback(s)}
    [] ev.e = "tag_clear"             -> {BTagClear(s)}
    [] ev.e = "tag_fetch_bytes"       -> {BTagFetchBytes(s, A1)}
    [] ev.e = "tag_fetch_string"      -> {BTagFetchString(s, A1)}
    [] ev.e = "tag_fetch_strdup"      -> {BTagFetchStrdup(s)}
    [] ev.e = "consume_whitespace"    -> {BConsumeWS(s, A1 = 1)}
    [] ev.e = "consume_nonwhitespace" -> {BConsumeNonWS(s)}
    [] ev.e = "consume_line"          -> {BConsumeLine(s, A1 = 1)}
    [] ev.e = "consume_until_charset" -> {BConsumeUntilCharset(s, A1, A2 = 1)}
    [] ev.e = "consume_charset"       -> {BConsumeCharset(s, A1)}
    [] ev.e = "consume_until_seq"     -> {BConsumeUntilSeq(s, A1, A2 = 1)}
    [] ev.e = "parse_dns_binstr"      -> BParseBinStr(s, A1, FALSE)
    [] ev.e = "parse_dns_str"         -> BParseBinStr(s, A1, TRUE)
    [] ev.e = "set_position"          -> IF s.const /\ (~Tagged(s) \/ A1 >= s.tag) THEN {BSetPosition(s, A1)} ELSE {}
    [] ev.e = "replace"               -> BReplace(s, A1, A2)
    [] ev.e = "split"                 -> BSplit(s, A1, FlagSet(A2), A3)
    [] ev.e = "finish_bin"            -> BFinish(s)
    [] ev.e = "finish_str"            -> BFinish(s)
    [] ev.e = "destroy"               -> {BDestroy(s)}
    [] OTHER                          -> {}

\* tagged = -1: the harness did not read the tag back after this call (writable buffer without storage)
ObsEq(x, y)  == IF y.tagged = -1 THEN x.len = y.len /\ x.rem = y.rem /\ x.pos = y.pos /\ x.tlen = y.tlen ELSE x = y
Explained(o) == o.r = ev.r /\ ObsEq(Obs(o.s), ev.s)

Which == LET O == Outcomes(buf) IN
         IF O = {} THEN "unknown_call"
         ELSE IF \E o \in O : o.r = ev.r THEN
              (LET x == Obs((CHOOSE o \in O : o.r = ev.r).s) IN
               IF x.rem # ev.s.rem \/ x.len # ev.s.len THEN "state.remaining"
               ELSE IF ev.s.tagged # -1 /\ (x.tagged # ev.s.tagged \/ x.tlen # ev.s.tlen \/ x.tbytes # ev.s.tbytes) THEN "state.tag"
               ELSE "state.position")
         ELSE IF \E o \in O : ObsEq(Obs(o.s), ev.s) THEN "result" ELSE "result+state"
Expected == LET O == Outcomes(buf) IN IF O = {} THEN [none |-> TRUE] ELSE
            LET o == CHOOSE x \in O : TRUE IN [r |-> o.r, s |-> Obs(o.s), alternatives |-> Cardinality(O)]
Cond == (IF buf.const THEN "const" ELSE "writable") \o (IF Tagged(buf) THEN ".tagged" ELSE ".untagged")

\* re-synchronisation: the observation determines the abstract value (up to the unreachable prefix)
Resync == LET isc == IF ev.e = "create_const" THEN ev.r.rc = OK /\ A1 # <<>> ELSE IF ev.e = "create" THEN FALSE ELSE buf.const
              pre == IF isc THEN (IF ev.s.pos <= Len(buf.data) /\ ev.e # "create_const" THEN Take(buf.data, ev.s.pos)
                                  ELSE [i \in 1 .. ev.s.pos |-> 0])
                     ELSE ev.s.tbytes
              toff == IF isc THEN ev.s.pos ELSE Len(ev.s.tbytes)
          IN buf' = [data |-> pre \o ev.s.rem, off |-> toff,
                     tag |-> IF ev.s.tagged = 1 THEN toff - ev.s.tlen
                             ELSE IF ev.s.tagged = -1 /\ Tagged(buf) /\ ev.e \notin {"create", "create_const"} THEN 0 ELSE NoTag,
                     const |-> isc,
                     alloc |-> IF ev.e \in {"create", "create_const"} THEN FALSE ELSE (buf.alloc \/ ev.s.len > 0)]

TInit == /\ buf = BCreate.s /\ res = BCreate.r /\ op = Ev("none", 0, <<>>) /\ l = 1 /\ nfail = 0

TStep == /\ l <= Len(Tr)
         /\ \E o \in Outcomes(buf) : Explained(o) /\ buf' = o.s /\ res' = o.r
         /\ op' = Ev(ev.e, 0, <<>>)
         /\ l' = l + 1 /\ UNCHANGED nfail

TFail == /\ l <= Len(Tr)
         /\ ~ \E o \in Outcomes(buf) : Explained(o)
         /\ PrintT(ToJson([fail |-> l, c |-> "buf", e |-> ev.e, a |-> ev.a, which |-> Which, cond |-> Cond,
                           got |-> [r |-> ev.r, s |-> ev.s], expected |-> Expected]))
         /\ Resync /\ res' = ev.r
         /\ op' = Ev(ev.e, 0, <<>>)
         /\ l' = l + 1 /\ nfail' = nfail + 1

TNext == TStep \/ TFail
TSpec == TInit /\ [][TNext]_tvars
Consumed == TLCGet("stats").diameter - 1 = Len(Tr)
=============================================================================
