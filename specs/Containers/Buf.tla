-------------------------------- MODULE Buf --------------------------------
(***************************************************************************)
(* ares_buf_t (src/lib/str/ares_buf.c), the byte buffer, as an abstract    *)
(* data type:                                                              *)
(*    data  the bytes of the buffer (a sequence of 0..255),                *)
(*    off   how many of them have been processed (fetched / consumed),     *)
(*    tag   the tagged position (NoTag when there is none), tag <= off,    *)
(*    const TRUE for a buffer made by ares_buf_create_const (read only),   *)
(*    alloc TRUE once a writable buffer has had bytes appended.            *)
(* C19: "the byte buffer returns exactly the bytes appended minus those    *)
(* consumed with tags and rollbacks restoring positions".                  *)
(*                                                                         *)
(* Reclaiming the processed prefix (ares_buf_reclaim, done internally by   *)
(* append when space is short; it must respect the tag) is a NO-OP on the  *)
(* abstract value: for a writable buffer the bytes before min(tag, off)    *)
(* can never be seen again, so every outcome is normalised by dropping     *)
(* them (Norm).  Absolute positions (get/set_position) are therefore only  *)
(* meaningful, and only modelled, for const buffers.                       *)
(*                                                                         *)
(* Result record: rc = status name ("-" for calls without a status),       *)
(* n = number handed back (NoNum when none), b = bytes handed back (for    *)
(* split: the sequence of sections).                                       *)
(***************************************************************************)
EXTENDS Naturals, Integers, Sequences, FiniteSets, TLC

CONSTANTS Bytes,     \* model checking / generation: byte values used
          MaxData    \* model checking / generation: bound on Len(data)

VARIABLES buf,       \* [data, off, tag, const, alloc]
          res, op
vars == <<buf, res, op>>

NoTag == -1
NoNum == -1
R(rc, n, b) == [rc |-> rc, n |-> n, b |-> b]
Out(s, r)   == [s |-> s, r |-> r]
OK      == "SUCCESS"
FORMERR == "EFORMERR"
BADRESP == "EBADRESP"
BADSTR  == "EBADSTR"
NONE    == "-"

Min(a, b) == IF a < b THEN a ELSE b
Rem(s)    == SubSeq(s.data, s.off + 1, Len(s.data))                 \* the unprocessed bytes
RLen(s)   == Len(s.data) - s.off
Tagged(s) == s.tag # NoTag
TagBytes(s) == IF Tagged(s) THEN SubSeq(s.data, s.tag + 1, s.off) ELSE <<>>
Take(q, n)  == SubSeq(q, 1, n)
Drop(q, n)  == SubSeq(q, n + 1, Len(q))

\* reclaim is invisible: drop what can never be addressed again
Norm(s) == IF s.const THEN s
           ELSE LET p == IF Tagged(s) THEN Min(s.tag, s.off) ELSE s.off
                IN [s EXCEPT !.data = Drop(s.data, p), !.off = s.off - p,
                             !.tag = IF Tagged(s) THEN s.tag - p ELSE NoTag]
Adv(s, n) == Norm([s EXCEPT !.off = s.off + n])                        \* n more bytes processed

IsWS(c, lf)  == c \in {13, 9, 32, 11, 12} \/ (lf /\ c = 10)
IsPrint(c)   == c >= 32 /\ c <= 126
AllPrint(q)  == \A i \in 1 .. Len(q) : IsPrint(q[i])
Lower(c)     == IF c >= 65 /\ c <= 90 THEN c + 32 ELSE c
\* length of the longest prefix of q whose bytes all satisfy P
Span(q, P(_)) == LET bad == {i \in 1 .. Len(q) : ~P(q[i])}
                 IN IF bad = {} THEN Len(q) ELSE (CHOOSE i \in bad : \A j \in bad : i <= j) - 1
\* index (0-based) of the first occurrence of pattern pat in q, or -1
StartsWith(q, pat) == Len(pat) <= Len(q) /\ Take(q, Len(pat)) = pat
Find(q, pat) == LET S == {i \in 0 .. Len(q) - Len(pat) : SubSeq(q, i + 1, i + Len(pat)) = pat}
                IN IF S = {} THEN -1 ELSE CHOOSE i \in S : \A j \in S : i <= j

(* ---- building ---------------------------------------------------------- *)
BCreate          == Out([data |-> <<>>, off |-> 0, tag |-> NoTag, const |-> FALSE, alloc |-> FALSE], R(OK, NoNum, <<>>))
\* ares_buf_create_const refuses an empty range
BCreateConst(bs) == IF bs = <<>> THEN BCreate   \* (the harness falls back to a writable buffer)
                    ELSE Out([data |-> bs, off |-> 0, tag |-> NoTag, const |-> TRUE, alloc |-> FALSE], R(OK, NoNum, <<>>))
\* ares_buf_append and everything built on it: nothing to do for zero bytes; a const buffer refuses
BAppend(s, bs) == IF bs = <<>> THEN Out(s, R(OK, NoNum, <<>>))
                  ELSE IF s.const THEN Out(s, R(FORMERR, NoNum, <<>>))
                  ELSE Out(Norm([s EXCEPT !.data = s.data \o bs, !.alloc = TRUE]), R(OK, NoNum, <<>>))
BE16(n)    == <<n \div 256, n % 256>>
BE32(h, lo) == BE16(h) \o BE16(lo)            \* a 32 bit number as two 16 bit halves (TLC integers are 32 bit signed)
\* ares_buf_append_start + write + ares_buf_append_finish: NULL for zero bytes and for const buffers
BAppendDirect(s, bs) == IF bs = <<>> \/ s.const THEN Out(s, R("NULL", NoNum, <<>>)) ELSE BAppend(s, bs)
\* decimal / hexadecimal digits of num in exactly len characters (len = 0: as many as needed)
RECURSIVE Digits(_, _, _)
Digits(num, base, len) == IF len = 0 THEN <<>> ELSE Digits(num \div base, base, len - 1) \o <<num % base>>
RECURSIVE CountDigits(_, _)
CountDigits(num, base) == IF num < base THEN 1 ELSE 1 + CountDigits(num \div base, base)
DecChar(dg) == 48 + dg
HexChar(dg) == IF dg < 10 THEN 48 + dg ELSE 55 + dg
NumText(num, base, len, Ch(_)) == LET L == IF len = 0 THEN CountDigits(num, base) ELSE len
                                      dg == Digits(num, base, L)
                                  IN [i \in 1 .. L |-> Ch(dg[i])]
BAppendNumDec(s, num, len) == BAppend(s, NumText(num, 10, len, DecChar))
BAppendNumHex(s, num, len) == BAppend(s, NumText(num, 16, len, HexChar))

(* ---- reading ----------------------------------------------------------- *)
\* ares_buf_fetch_be16 / be32: big endian, EBADRESP (nothing consumed) when short
BFetchBE16(s) == IF RLen(s) < 2 THEN Out(s, R(BADRESP, NoNum, <<>>))
                 ELSE Out(Adv(s, 2), R(OK, Rem(s)[1] * 256 + Rem(s)[2], <<>>))
BFetchBE32(s) == IF RLen(s) < 4 THEN Out(s, R(BADRESP, NoNum, <<>>))
                 ELSE Out(Adv(s, 4), R(OK, NoNum, <<Rem(s)[1] * 256 + Rem(s)[2], Rem(s)[3] * 256 + Rem(s)[4]>>))
\* ares_buf_fetch_bytes / fetch_bytes_dup / fetch_bytes_into_buf: exactly the next n bytes
BFetchBytes(s, n) == IF n = 0 \/ RLen(s) < n THEN Out(s, R(BADRESP, NoNum, <<>>))
                     ELSE Out(Adv(s, n), R(OK, NoNum, Take(Rem(s), n)))
\* ares_buf_fetch_str_dup: additionally the bytes must be printable ASCII
BFetchStr(s, n)   == IF n = 0 \/ RLen(s) < n THEN Out(s, R(BADRESP, NoNum, <<>>))
                     ELSE IF ~AllPrint(Take(Rem(s), n)) THEN Out(s, R(BADSTR, NoNum, <<>>))
                     ELSE Out(Adv(s, n), R(OK, NoNum, Take(Rem(s), n)))
BConsume(s, n)    == IF RLen(s) < n THEN Out(s, R(BADRESP, NoNum, <<>>)) ELSE Out(Adv(s, n), R(OK, NoNum, <<>>))
BPeekByte(s)      == IF RLen(s) = 0 THEN Out(s, R(BADRESP, NoNum, <<>>)) ELSE Out(s, R(OK, Rem(s)[1], <<>>))
BBeginsWith(s, bs) == Out(s, R(NONE, IF bs # <<>> /\ StartsWith(Rem(s), bs) THEN 1 ELSE 0, <<>>))
BLen(s)           == Out(s, R(NONE, RLen(s), <<>>))

(* ---- tags -------------------------------------------------------------- *)
BTag(s)         == Out(Norm([s EXCEPT !.tag = s.off]), R(NONE, NoNum, <<>>))
\* rollback: the position is restored to the tag and the tag is cleared
BTagRollback(s) == IF ~Tagged(s) THEN Out(s, R(FORMERR, NoNum, <<>>))
                   ELSE Out(Norm([s EXCEPT !.off = s.tag, !.tag = NoTag]), R(OK, NoNum, <<>>))
BTagClear(s)    == IF ~Tagged(s) THEN Out(s, R(FORMERR, NoNum, <<>>))
                   ELSE Out(Norm([s EXCEPT !.tag = NoTag]), R(OK, NoNum, <<>>))
\* ares_buf_tag_fetch_bytes(cap) / tag_fetch_string(cap) / tag_fetch_strdup: the bytes between tag and position
BTagFetchBytes(s, cap) == IF ~Tagged(s) \/ cap < Len(TagBytes(s)) THEN Out(s, R(FORMERR, NoNum, <<>>))
                          ELSE Out(s, R(OK, Len(TagBytes(s)), TagBytes(s)))
BTagFetchString(s, cap) == IF cap = 0 \/ ~Tagged(s) \/ cap - 1 < Len(TagBytes(s)) THEN Out(s, R(FORMERR, NoNum, <<>>))
                           ELSE IF ~AllPrint(TagBytes(s)) THEN Out(s, R(BADSTR, NoNum, <<>>))
                           ELSE Out(s, R(OK, NoNum, TagBytes(s)))
BTagFetchStrdup(s) == IF ~Tagged(s) THEN Out(s, R(FORMERR, NoNum, <<>>))
                      ELSE IF ~AllPrint(TagBytes(s)) THEN Out(s, R(BADSTR, NoNum, <<>>))
                      ELSE Out(s, R(OK, NoNum, TagBytes(s)))

(* ---- parse helpers ----------------------------------------------------- *)
BConsumeWS(s, lf)     == LET n == Span(Rem(s), LAMBDA c : IsWS(c, lf)) IN Out(Adv(s, n), R(NONE, n, <<>>))
BConsumeNonWS(s)      == LET n == Span(Rem(s), LAMBDA c : ~IsWS(c, TRUE)) IN Out(Adv(s, n), R(NONE, n, <<>>))
\* consume_line: up to the first newline; the newline too when lf
BConsumeLine(s, lf)   == LET k == Span(Rem(s), LAMBDA c : c # 10)
                             n == IF lf /\ k < RLen(s) THEN k + 1 ELSE k
                         IN Out(Adv(s, n), R(NONE, n, <<>>))
\* consume_until_charset: up to the first byte that is in cs; with req, SIZE_MAX (here -1) and nothing consumed when none
BConsumeUntilCharset(s, cs, req) ==
   IF cs = <<>> \/ RLen(s) = 0 THEN Out(s, R(NONE, 0, <<>>))
   ELSE LET n == Span(Rem(s), LAMBDA c : ~(\E i \in 1 .. Len(cs) : cs[i] = c))
        IN IF req /\ n = RLen(s) THEN Out(s, R(NONE, -1, <<>>)) ELSE Out(Adv(s, n), R(NONE, n, <<>>))
BConsumeCharset(s, cs) == IF cs = <<>> THEN Out(s, R(NONE, 0, <<>>))
                          ELSE LET n == Span(Rem(s), LAMBDA c : \E i \in 1 .. Len(cs) : cs[i] = c)
                               IN Out(Adv(s, n), R(NONE, n, <<>>))
BConsumeUntilSeq(s, pat, req) ==
   IF pat = <<>> \/ RLen(s) = 0 THEN Out(s, R(NONE, 0, <<>>))
   ELSE LET f == Find(Rem(s), pat)
        IN IF f = -1 THEN (IF req THEN Out(s, R(NONE, -1, <<>>)) ELSE Out(Adv(s, RLen(s)), R(NONE, RLen(s), <<>>)))
           ELSE Out(Adv(s, f), R(NONE, f, <<>>))
\* ares_buf_parse_dns_binstr / parse_dns_str(remaining_len): one length-prefixed string.
\* On failure how much was consumed is not documented: the length byte may or may not be.
BParseBinStr(s, rl, printable) ==
   IF rl = 0 \/ RLen(s) = 0 THEN {Out(s, R(BADRESP, NoNum, <<>>))}
   ELSE LET L == Rem(s)[1]  body == Take(Drop(Rem(s), 1), L) IN
        IF L > rl - 1 \/ RLen(s) - 1 < L THEN
             {Out(s, R(BADRESP, NoNum, <<>>)), Out(Adv(s, 1), R(BADRESP, NoNum, <<>>))} \cup
             (IF printable /\ RLen(s) - 1 >= L /\ ~AllPrint(body)
              THEN {Out(s, R(BADSTR, NoNum, <<>>)), Out(Adv(s, 1), R(BADSTR, NoNum, <<>>))} ELSE {})
        ELSE IF printable /\ ~AllPrint(body) THEN {Out(s, R(BADSTR, NoNum, <<>>)), Out(Adv(s, 1), R(BADSTR, NoNum, <<>>))}
        ELSE {Out(Adv(s, 1 + L), R(OK, L, body))}

(* ---- positions (const buffers) ------------------------------------------ *)
BSetPosition(s, idx) == IF idx > Len(s.data) THEN Out(s, R(FORMERR, NoNum, <<>>))
                        ELSE Out([s EXCEPT !.off = idx], R(OK, NoNum, <<>>))

(* ---- replace ------------------------------------------------------------ *)
\* every non-overlapping occurrence of srch in the unprocessed bytes, left to right
RECURSIVE Repl(_, _, _)
Repl(q, srch, rplc) == LET f == Find(q, srch) IN
                       IF f = -1 THEN q ELSE Take(q, f) \o rplc \o Repl(Drop(q, f + Len(srch)), srch, rplc)
\* misuse (EFORMERR): const buffer, empty search; a writable buffer that never held bytes is refused too
\* by the code, which the documentation does not say: both are allowed there
BReplace(s, srch, rplc) ==
   IF s.const \/ srch = <<>> THEN {Out(s, R(FORMERR, NoNum, <<>>))}
   ELSE IF ~s.alloc THEN {Out(s, R(FORMERR, NoNum, <<>>)), Out(s, R(OK, NoNum, <<>>))}
   ELSE {Out(Norm([s EXCEPT !.data = Take(s.data, s.off) \o Repl(Rem(s), srch, rplc)]), R(OK, NoNum, <<>>))}

(* ---- split -------------------------------------------------------------- *)
\* flags of ares_buf_split_t as a set of names
\* the raw sections: cut at every delimiter; with "keep" the delimiter starts the next section;
\* once `have` sections were produced and have >= maxs - 1 (maxs > 0) the rest is one section
IsDelim(c, ds) == \E i \in 1 .. Len(ds) : ds[i] = c
Trim(q, fl) == LET a == IF "ltrim" \in fl THEN Drop(q, Span(q, LAMBDA c : IsWS(c, TRUE))) ELSE q
                   RECURSIVE RT(_)
                   RT(x) == IF x # <<>> /\ IsWS(x[Len(x)], TRUE) THEN RT(Take(x, Len(x) - 1)) ELSE x
               IN IF "rtrim" \in fl THEN RT(a) ELSE a
SameSect(a, b, fl) == /\ Len(a) = Len(b)
                      /\ \A i \in 1 .. Len(a) : IF "ci" \in fl THEN Lower(a[i]) = Lower(b[i]) ELSE a[i] = b[i]
RECURSIVE SplitRec(_, _, _, _, _, _)
\* q: bytes not yet split (first = TRUE: nothing split yet, else q starts with a delimiter), acc: sections so far
SplitRec(q, first, ds, fl, maxs, acc) ==
   IF q = <<>> THEN acc
   ELSE LET lead == IF first THEN <<>> ELSE IF "keep" \in fl THEN <<q[1]>> ELSE <<>>
            body == IF first THEN q ELSE Drop(q, 1)
            n    == IF maxs > 0 /\ Len(acc) >= maxs - 1 THEN Len(body)
                    ELSE Span(body, LAMBDA c : ~IsDelim(c, ds))
            sect == Trim(lead \o Take(body, n), fl)
            keep == /\ (sect # <<>> \/ "blank" \in fl)
                    /\ ~("nodup" \in fl /\ \E i \in 1 .. Len(acc) : SameSect(acc[i], sect, fl))
        IN SplitRec(Drop(body, n), FALSE, ds, fl, maxs, IF keep THEN Append(acc, sect) ELSE acc)
\* ares_buf_split: the whole unprocessed part is consumed; where the tag is left afterwards is not
\* documented (any position up to the end, or none)
BSplit(s, ds, fl, maxs) ==
   IF ds = <<>> THEN {Out(s, R(FORMERR, NoNum, <<>>))}
   ELSE LET parts == SplitRec(Rem(s), TRUE, ds, fl, maxs, <<>>) IN
        IF RLen(s) = 0 THEN {Out(s, R(OK, 0, <<>>))}
        ELSE {Out(Norm([s EXCEPT !.off = Len(s.data), !.tag = t]), R(OK, Len(parts), parts)) :
                t \in (IF s.const THEN 0 .. Len(s.data) ELSE s.off .. Len(s.data))}

(* ---- end of life --------------------------------------------------------- *)
\* ares_buf_finish_bin / finish_str: "pointer to unprocessed data"; NULL for a const buffer.
\* With a tag set before the position the code hands out the bytes from the tag on: tolerated.
BFinish(s) == IF s.const THEN {Out(s, R("NULL", NoNum, <<>>))}
              ELSE {Out([s EXCEPT !.data = <<>>, !.off = 0, !.tag = NoTag], [rc |-> OK, n |-> RLen(s), b |-> Rem(s), leak |-> 0])} \cup
                   (IF Tagged(s) /\ s.tag < s.off
                    THEN {Out([s EXCEPT !.data = <<>>, !.off = 0, !.tag = NoTag],
                              [rc |-> OK, n |-> Len(s.data) - s.tag, b |-> Drop(s.data, s.tag), leak |-> 0])} ELSE {})
BDestroy(s) == Out([s EXCEPT !.data = <<>>, !.off = 0, !.tag = NoTag], [rc |-> NONE, n |-> NoNum, b |-> <<>>, leak |-> 0])

\* what the harness sees through len / peek / tag_fetch / tag_length / get_position
Obs(s) == [len |-> RLen(s), rem |-> Rem(s),
           tagged |-> IF Tagged(s) THEN 1 ELSE 0,
           tlen |-> Len(TagBytes(s)), tbytes |-> TagBytes(s),
           pos |-> IF s.const THEN s.off ELSE NoNum]

(* ---- actions ------------------------------------------------------------- *)
Do(o, e) == buf' = o.s /\ res' = o.r /\ op' = e
Ev(e, n, bs) == [e |-> e, n |-> n, b |-> bs]

AppendBytes(bs)   == Do(BAppend(buf, bs), Ev("append", 0, bs))
AppendDirect(bs)  == Do(BAppendDirect(buf, bs), Ev("append_direct", 0, bs))
AppendBE16(n)     == Do(BAppend(buf, BE16(n)), Ev("append_be16", n, <<>>))
FetchBE16         == Do(BFetchBE16(buf), Ev("fetch_be16", 0, <<>>))
FetchBytes(n)     == Do(BFetchBytes(buf, n), Ev("fetch_bytes", n, <<>>))
FetchStr(n)       == Do(BFetchStr(buf, n), Ev("fetch_str_dup", n, <<>>))
Consume(n)        == Do(BConsume(buf, n), Ev("consume", n, <<>>))
Tag               == Do(BTag(buf), Ev("tag", 0, <<>>))
TagRollback       == Do(BTagRollback(buf), Ev("tag_rollback", 0, <<>>))
TagClear          == Do(BTagClear(buf), Ev("tag_clear", 0, <<>>))
TagFetchBytes(c)  == Do(BTagFetchBytes(buf, c), Ev("tag_fetch_bytes", c, <<>>))
ConsumeWS         == Do(BConsumeWS(buf, TRUE), Ev("consume_whitespace", 1, <<>>))
ConsumeNonWS      == Do(BConsumeNonWS(buf), Ev("consume_nonwhitespace", 0, <<>>))
ConsumeLine       == Do(BConsumeLine(buf, TRUE), Ev("consume_line", 1, <<>>))
ConsumeUntil(cs)  == Do(BConsumeUntilCharset(buf, cs, FALSE), Ev("consume_until_charset", 0, cs))
Replace(a, b)     == \E o \in BReplace(buf, a, b) : Do(o, Ev("replace", 0, a))
Split(ds, fl, m)  == \E o \in BSplit(buf, ds, fl, m) : Do(o, Ev("split", m, ds))
SetPosition(i)    == buf.const /\ (~Tagged(buf) \/ i >= buf.tag) /\ Do(BSetPosition(buf, i), Ev("set_position", i, <<>>))

Init == \/ buf = BCreate.s /\ res = BCreate.r /\ op = Ev("create", 0, <<>>)
        \/ \E bs \in {<<b1, b2, b3>> : b1 \in Bytes, b2 \in Bytes, b3 \in {44}} :
             buf = BCreateConst(bs).s /\ res = BCreateConst(bs).r /\ op = Ev("create_const", 0, bs)

Strs == {<<b>> : b \in Bytes} \cup {<<b1, b2>> : b1 \in Bytes, b2 \in Bytes}
Next == \/ \E bs \in Strs : AppendBytes(bs) \/ AppendDirect(bs) \/ ConsumeUntil(bs)
        \/ \E n \in 0 .. 3 : FetchBytes(n) \/ FetchStr(n) \/ Consume(n) \/ TagFetchBytes(n) \/ SetPosition(n)
        \/ FetchBE16 \/ Tag \/ TagRollback \/ TagClear \/ ConsumeWS \/ ConsumeNonWS \/ ConsumeLine
        \/ \E a \in {<<b>> : b \in Bytes} \cup {<<97, 44>>}, b \in {<<>>, <<97>>, <<44, 44>>} : Replace(a, b)
        \/ \E b \in Bytes, fl \in SUBSET {"keep", "blank"} : Split(<<b>>, fl, 0)
Spec  == Init /\ [][Next]_vars
Bound == Len(buf.data) <= MaxData

(* ---- the ADT laws --------------------------------------------------------- *)
TypeOK == /\ buf.off \in 0 .. Len(buf.data)
          /\ buf.tag \in {NoTag} \cup (0 .. buf.off)
          /\ \A i \in 1 .. Len(buf.data) : buf.data[i] \in 0 .. 255
\* a writable buffer never keeps unreachable bytes (reclaim is a no-op on the value)
Normalised == Norm(buf) = buf
\* exactly the bytes appended minus those consumed: every call either leaves the unprocessed bytes
\* alone, extends them at the end (append), or removes a prefix (fetch / consume), except replace
\* and rollback / set_position, which have their own laws
FifoLaw == [][ /\ op'.e \in {"append", "append_direct", "append_be16"} /\ res'.rc = OK
                    => Rem(buf') = Rem(buf) \o (IF op'.e = "append_be16" THEN BE16(op'.n) ELSE op'.b)
               /\ op'.e \in {"fetch_bytes", "fetch_str_dup"} /\ res'.rc = OK
                    => Rem(buf) = res'.b \o Rem(buf') /\ Len(res'.b) = op'.n
               /\ op'.e \in {"consume", "fetch_be16", "consume_whitespace", "consume_nonwhitespace", "consume_line",
                             "consume_until_charset", "split"}
                    => \E k \in 0 .. RLen(buf) : Rem(buf') = Drop(Rem(buf), k)
               /\ res'.rc \in {FORMERR, BADRESP, BADSTR, "NULL"} => Rem(buf') = Rem(buf)
               /\ op'.e \in {"tag", "tag_clear", "tag_fetch_bytes"} => Rem(buf') = Rem(buf) ]_vars
\* a tag followed by anything that only consumes, then rollback, restores exactly the bytes
\* that were unprocessed at the tag: at all times  TagBytes \o Rem  is what a rollback gives back
RollbackLaw == [][ op'.e = "tag_rollback" /\ res'.rc = OK => Rem(buf') = TagBytes(buf) \o Rem(buf) /\ ~Tagged(buf') ]_vars
TagStable   == [][ (Tagged(buf) /\ Tagged(buf') /\ op'.e \notin {"tag", "replace", "split", "set_position"})
                      => \E k \in 0 .. Len(Rem(buf)) :
                            TagBytes(buf') = TagBytes(buf) \o Take(Rem(buf), k) ]_vars
=============================================================================
