------------------------------- MODULE LList -------------------------------
(***************************************************************************)
(* ares_llist_t (src/lib/dsa/ares_llist.c), the doubly linked list, as an  *)
(* abstract data type: TWO lists (so that nodes can move between parents), *)
(* each a SEQUENCE of nodes; a node is identified by the id of the value   *)
(* it carries (ids are unique over both lists).  head/tail/prev/next       *)
(* pointers and counters are representation only.  C19: "the linked list   *)
(* preserves order across moves between lists".                            *)
(*                                                                         *)
(* Lists are numbered 0 and 1 (lists[L + 1]).  Result record: out = id     *)
(* handed back (NoVal = NULL), d = ids given to the destructor, in order.  *)
(***************************************************************************)
EXTENDS Naturals, Integers, Sequences, FiniteSets, TLC

CONSTANTS MaxLen,   \* model checking / generation: bound on the total number of nodes
          Ids       \* model checking: node ids

VARIABLES lists,    \* <<sequence of list 0, sequence of list 1>>
          res, op
vars == <<lists, res, op>>

NoVal == -1
R(out, d) == [out |-> out, d |-> d]
Out(s, r) == [s |-> s, r |-> r]

Range(s)       == {s[i] : i \in 1 .. Len(s)}
InsAt(s, p, x) == SubSeq(s, 1, p) \o <<x>> \o SubSeq(s, p + 1, Len(s))     \* x becomes element p+1
Without(s, x)  == SelectSeq(s, LAMBDA y : y # x)
PosOf(s, x)    == CHOOSE i \in 1 .. Len(s) : s[i] = x
Rev(s)         == [i \in 1 .. Len(s) |-> s[Len(s) + 1 - i]]
Nodes(ls)      == Range(ls[1]) \cup Range(ls[2])
ParentOf(ls, n) == IF n \in Range(ls[1]) THEN 0 ELSE 1
Set(ls, L, s)  == [ls EXCEPT ![L + 1] = s]
Detach(ls, n)  == <<Without(ls[1], n), Without(ls[2], n)>>

(* ---- the API ---------------------------------------------------------- *)
\* ares_llist_insert_first / insert_last: new node n in list L
LInsertFirst(ls, L, n) == Out(Set(ls, L, <<n>> \o ls[L + 1]), R(n, <<>>))
LInsertLast(ls, L, n)  == Out(Set(ls, L, Append(ls[L + 1], n)), R(n, <<>>))
\* ares_llist_insert_before / insert_after: new node n next to node m, in m's list
LInsertBefore(ls, m, n) == LET L == ParentOf(ls, m) s == ls[L + 1]
                           IN Out(Set(ls, L, InsAt(s, PosOf(s, m) - 1, n)), R(n, <<>>))
LInsertAfter(ls, m, n)  == LET L == ParentOf(ls, m) s == ls[L + 1]
                           IN Out(Set(ls, L, InsAt(s, PosOf(s, m), n)), R(n, <<>>))
\* ares_llist_node_claim / node_destroy: unlink m
LClaim(ls, m)       == Out(Detach(ls, m), R(m, <<>>))
LDestroyNode(ls, m) == Out(Detach(ls, m), R(NoVal, <<m>>))
\* ares_llist_node_replace: node m keeps its place, carries value n now; old value destructed
LReplace(ls, m, n)  == LET L == ParentOf(ls, m) s == ls[L + 1]
                       IN Out(Set(ls, L, [s EXCEPT ![PosOf(s, m)] = n]), R(NoVal, <<m>>))
\* ares_llist_node_mvparent_first / _last: node m leaves its list and becomes head / tail of list L
LMoveFirst(ls, m, L) == LET d == Detach(ls, m) IN Out(Set(d, L, <<m>> \o d[L + 1]), R(NoVal, <<>>))
LMoveLast(ls, m, L)  == LET d == Detach(ls, m) IN Out(Set(d, L, Append(d[L + 1], m)), R(NoVal, <<>>))
\* ares_llist_clear: every node of L destroyed exactly once (order not documented: d compared sorted)
Sorted(q)           == SortSeq(q, LAMBDA a, b : a < b)
LClear(ls, L)       == Out(Set(ls, L, <<>>), R(NoVal, Sorted(ls[L + 1])))
\* ares_llist_node_idx / first_val / last_val / len
LIdx(ls, L, i)      == Out(ls, R(IF i < Len(ls[L + 1]) THEN ls[L + 1][i + 1] ELSE NoVal, <<>>))
LFirstVal(ls, L)    == LIdx(ls, L, 0)
LLastVal(ls, L)     == Out(ls, R(IF ls[L + 1] = <<>> THEN NoVal ELSE ls[L + 1][Len(ls[L + 1])], <<>>))
LLen(ls, L)         == Out(ls, R(Len(ls[L + 1]), <<>>))
\* both lists destroyed
Empty         == <<<<>>, <<>>>>
\* (leak = library allocations of the history still live afterwards: none)
LDestroy(ls)  == Out(Empty, [out |-> NoVal, d |-> Sorted(ls[1] \o ls[2]), leak |-> 0])
LCreate       == Out(Empty, R(NoVal, <<>>))

\* what the harness sees: forward (first/next) and backward (last/prev) iteration and len of
\* both lists, and ares_llist_node_parent of every node handle it holds, by ascending id
RECURSIVE SetSeq(_)
SetSeq(S) == IF S = {} THEN <<>> ELSE LET x == CHOOSE y \in S : TRUE IN <<x>> \o SetSeq(S \ {x})
Asc(S)    == SortSeq(SetSeq(S), LAMBDA a, b : a < b)
Obs(ls) == [f0 |-> ls[1], b0 |-> Rev(ls[1]), n0 |-> Len(ls[1]),
            f1 |-> ls[2], b1 |-> Rev(ls[2]), n1 |-> Len(ls[2]),
            ids |-> Asc(Nodes(ls)),
            par |-> LET a == Asc(Nodes(ls)) IN [i \in 1 .. Len(a) |-> ParentOf(ls, a[i])]]

(* ---- actions ----------------------------------------------------------- *)
Do(o, e, m, n, L) == lists' = o.s /\ res' = o.r /\ op' = [e |-> e, m |-> m, n |-> n, L |-> L]
Live == Nodes(lists)

InsertFirst(L, n)   == n \notin Live /\ Do(LInsertFirst(lists, L, n), "insert_first", 0, n, L)
InsertLast(L, n)    == n \notin Live /\ Do(LInsertLast(lists, L, n), "insert_last", 0, n, L)
InsertBefore(m, n)  == m \in Live /\ n \notin Live /\ Do(LInsertBefore(lists, m, n), "insert_before", m, n, 0)
InsertAfter(m, n)   == m \in Live /\ n \notin Live /\ Do(LInsertAfter(lists, m, n), "insert_after", m, n, 0)
Claim(m)            == m \in Live /\ Do(LClaim(lists, m), "claim", m, 0, 0)
DestroyNode(m)      == m \in Live /\ Do(LDestroyNode(lists, m), "destroy_node", m, 0, 0)
Replace(m, n)       == m \in Live /\ n \notin Live /\ Do(LReplace(lists, m, n), "replace", m, n, 0)
MoveFirst(m, L)     == m \in Live /\ Do(LMoveFirst(lists, m, L), "mv_first", m, 0, L)
MoveLast(m, L)      == m \in Live /\ Do(LMoveLast(lists, m, L), "mv_last", m, 0, L)
Clear(L)            == Do(LClear(lists, L), "clear", 0, 0, L)
Idx(L, i)           == Do(LIdx(lists, L, i), "idx", i, 0, L)

Init == lists = Empty /\ res = R(NoVal, <<>>) /\ op = [e |-> "create", m |-> 0, n |-> 0, L |-> 0]

Next == \/ \E L \in {0, 1}, n \in Ids : InsertFirst(L, n) \/ InsertLast(L, n)
        \/ \E m, n \in Ids : InsertBefore(m, n) \/ InsertAfter(m, n) \/ Replace(m, n)
        \/ \E m \in Ids : Claim(m) \/ DestroyNode(m)
        \/ \E m \in Ids, L \in {0, 1} : MoveFirst(m, L) \/ MoveLast(m, L)
        \/ \E L \in {0, 1} : Clear(L)
        \/ \E L \in {0, 1}, i \in 0 .. MaxLen : Idx(L, i)
Spec  == Init /\ [][Next]_vars
Bound == Len(lists[1]) + Len(lists[2]) <= MaxLen

(* ---- the ADT laws ------------------------------------------------------ *)
TypeOK == lists[1] \in Seq(Ids) /\ lists[2] \in Seq(Ids)
\* a node is in exactly one place
NoDuplicates == /\ Range(lists[1]) \cap Range(lists[2]) = {}
                /\ \A L \in {1, 2} : \A i, j \in 1 .. Len(lists[L]) : lists[L][i] = lists[L][j] => i = j
\* order is preserved: whatever the call, the nodes that it does not name keep their
\* list and their relative order
OrderPreserved ==
  [][ LET named == {op'.m, op'.n}
          rest(s) == SelectSeq(s, LAMBDA y : y \notin named)
      IN op'.e # "clear" => rest(lists'[1]) = rest(lists[1]) /\ rest(lists'[2]) = rest(lists[2]) ]_vars
\* a move puts the node at the requested end of the requested list and loses nothing
MoveLaw ==
  [][ op'.e \in {"mv_first", "mv_last"} =>
        /\ Nodes(lists') = Nodes(lists)
        /\ Len(lists'[1]) + Len(lists'[2]) = Len(lists[1]) + Len(lists[2])
        /\ LET s == lists'[op'.L + 1] IN IF op'.e = "mv_first" THEN s[1] = op'.m ELSE s[Len(s)] = op'.m ]_vars
\* inserts land where asked
InsertLaw ==
  [][ /\ op'.e = "insert_before" => LET L == ParentOf(lists, op'.m) s == lists'[L + 1]
                                    IN s[PosOf(s, op'.m) - 1] = op'.n
      /\ op'.e = "insert_after"  => LET L == ParentOf(lists, op'.m) s == lists'[L + 1]
                                    IN s[PosOf(s, op'.m) + 1] = op'.n
      /\ op'.e = "insert_first"  => lists'[op'.L + 1][1] = op'.n
      /\ op'.e = "insert_last"   => lists'[op'.L + 1][Len(lists'[op'.L + 1])] = op'.n
      /\ op'.e \in {"insert_before", "insert_after", "insert_first", "insert_last"}
           => Nodes(lists') = Nodes(lists) \cup {op'.n} ]_vars
RemoveLaw ==
  [][ /\ op'.e \in {"claim", "destroy_node"} => Nodes(lists') = Nodes(lists) \ {op'.m}
      /\ op'.e = "replace" => Nodes(lists') = (Nodes(lists) \ {op'.m}) \cup {op'.n}
      /\ op'.e = "clear" => lists'[op'.L + 1] = <<>> /\ lists'[2 - op'.L] = lists[2 - op'.L] /\ res'.d = Sorted(lists[op'.L + 1]) ]_vars
=============================================================================
