------------------------------- MODULE SList -------------------------------
(***************************************************************************)
(* ares_slist_t (src/lib/dsa/ares_slist.c), the skip list, as an abstract  *)
(* data type: a SORTED SEQUENCE of nodes.  A node is identified by the id  *)
(* of the value it carries; key[n] is the sort key of node n (the user's   *)
(* comparison function compares keys; several nodes may have equal keys).  *)
(* Levels, coin flips, head/tail pointers are representation only.         *)
(*                                                                         *)
(* C19: "the ordered list stays sorted and loses or duplicates nothing".   *)
(* The header promises no position among equal keys, so an insert /        *)
(* reinsert may put the node at ANY position that keeps the sequence       *)
(* sorted (the relative order of the other nodes is unchanged); find may   *)
(* return ANY node whose key compares equal.                               *)
(*                                                                         *)
(* Result record of a call: out = node/value id handed back (NoVal = NULL),*)
(* d = value ids given to the destructor callback by this call, in order.  *)
(***************************************************************************)
EXTENDS Naturals, Integers, Sequences, FiniteSets, TLC

CONSTANTS MaxLen,   \* model checking / generation: bound on the number of nodes
          Keys,     \* model checking: sort keys
          Ids       \* model checking: node ids

VARIABLES ord,      \* node ids in list order
          key,      \* key[n] for every node in the list
          res,      \* result of the last call
          op        \* the last call [e |-> name, n |-> node id, k |-> key]

vars == <<ord, key, res, op>>

NoVal == -1
R(out, d) == [out |-> out, d |-> d]
St(o, k)  == [ord |-> o, key |-> k]
Out(s, r) == [s |-> s, r |-> r]

Range(s)        == {s[i] : i \in 1 .. Len(s)}
InsAt(s, p, x)  == SubSeq(s, 1, p) \o <<x>> \o SubSeq(s, p + 1, Len(s))      \* x becomes element p+1
Without(s, x)   == SelectSeq(s, LAMBDA y : y # x)
PosOf(s, x)     == CHOOSE i \in 1 .. Len(s) : s[i] = x
Restrict(f, S)  == [x \in S |-> f[x]]
Rev(s)          == [i \in 1 .. Len(s) |-> s[Len(s) + 1 - i]]
IsSorted(o, k)  == \A i \in 1 .. Len(o) - 1 : k[o[i]] <= k[o[i + 1]]
\* positions where a node with key kk may be linked so that the list stays sorted
Slots(o, k, kk) == {p \in 0 .. Len(o) : /\ \A i \in 1 .. p : k[o[i]] <= kk
                                        /\ \A j \in p + 1 .. Len(o) : kk <= k[o[j]]}

(* ---- the API ---------------------------------------------------------- *)
\* ares_slist_insert: a new node n with key kk
SInsert(s, n, kk) == LET k2 == [x \in DOMAIN s.key \cup {n} |-> IF x = n THEN kk ELSE s.key[x]]
                     IN {Out(St(InsAt(s.ord, p, n), k2), R(n, <<>>)) : p \in Slots(s.ord, s.key, kk)}
\* ares_slist_node_find: some node whose key equals kk, NULL when there is none
SFind(s, kk) == LET M == {n \in Range(s.ord) : s.key[n] = kk}
                IN IF M = {} THEN {Out(s, R(NoVal, <<>>))} ELSE {Out(s, R(n, <<>>)) : n \in M}
\* ares_slist_node_claim: unlink, hand the value back, no destructor
SRemoved(s, n) == St(Without(s.ord, n), Restrict(s.key, DOMAIN s.key \ {n}))
SClaim(s, n)   == {Out(SRemoved(s, n), R(n, <<>>))}
\* ares_slist_node_destroy: unlink, destructor on the value
SDestroyNode(s, n) == {Out(SRemoved(s, n), R(NoVal, <<n>>))}
\* the node's key changed to kk, then ares_slist_node_reinsert
SReinsert(s, n, kk) == LET o  == Without(s.ord, n)
                           k2 == [s.key EXCEPT ![n] = kk]
                       IN {Out(St(InsAt(o, p, n), k2), R(NoVal, <<>>)) : p \in Slots(o, k2, kk)}
\* ares_slist_first_val / last_val / node_next / node_prev / len
SFirst(s) == {Out(s, R(IF s.ord = <<>> THEN NoVal ELSE s.ord[1], <<>>))}
SLast(s)  == {Out(s, R(IF s.ord = <<>> THEN NoVal ELSE s.ord[Len(s.ord)], <<>>))}
SNext(s, n) == LET i == PosOf(s.ord, n) IN {Out(s, R(IF i = Len(s.ord) THEN NoVal ELSE s.ord[i + 1], <<>>))}
SPrev(s, n) == LET i == PosOf(s.ord, n) IN {Out(s, R(IF i = 1 THEN NoVal ELSE s.ord[i - 1], <<>>))}
SLen(s)   == {Out(s, R(Len(s.ord), <<>>))}
\* ares_slist_destroy: every node destroyed exactly once (order not documented: d compared sorted)
AscSeq(q)  == SortSeq(q, LAMBDA a, b : a < b)
Empty      == St(<<>>, <<>>)
\* (leak = library allocations of the history still live afterwards: none)
SDestroy(s) == {Out(Empty, [out |-> NoVal, d |-> AscSeq(s.ord), leak |-> 0])}
SCreate     == {Out(Empty, R(NoVal, <<>>))}

\* what the harness sees through node_first/next, node_last/prev, len
Obs(s) == [ids  |-> s.ord,
           keys |-> [i \in 1 .. Len(s.ord) |-> s.key[s.ord[i]]],
           back |-> Rev(s.ord),
           len  |-> Len(s.ord)]

(* ---- actions ----------------------------------------------------------- *)
Cur == St(ord, key)
Do(O, e, n, k) == \E o \in O : ord' = o.s.ord /\ key' = o.s.key /\ res' = o.r /\ op' = [e |-> e, n |-> n, k |-> k]

Live == Range(ord)
Insert(n, k)      == n \notin Live /\ Do(SInsert(Cur, n, k), "insert", n, k)
Find(k)           == Do(SFind(Cur, k), "find", 0, k)
Claim(n)          == n \in Live /\ Do(SClaim(Cur, n), "claim", n, 0)
DestroyNode(n)    == n \in Live /\ Do(SDestroyNode(Cur, n), "destroy_node", n, 0)
Reinsert(n, k)    == n \in Live /\ Do(SReinsert(Cur, n, k), "reinsert", n, k)
First             == Do(SFirst(Cur), "first", 0, 0)
Last              == Do(SLast(Cur), "last", 0, 0)
NextOf(n)         == n \in Live /\ Do(SNext(Cur, n), "next", n, 0)
PrevOf(n)         == n \in Live /\ Do(SPrev(Cur, n), "prev", n, 0)

Init == ord = <<>> /\ key = <<>> /\ res = R(NoVal, <<>>) /\ op = [e |-> "create", n |-> 0, k |-> 0]

Next == \/ \E n \in Ids, k \in Keys : Insert(n, k) \/ Reinsert(n, k)
        \/ \E k \in Keys : Find(k)
        \/ \E n \in Ids : Claim(n) \/ DestroyNode(n) \/ NextOf(n) \/ PrevOf(n)
        \/ First \/ Last

Spec  == Init /\ [][Next]_vars
Bound == Len(ord) <= MaxLen

(* ---- the ADT laws ------------------------------------------------------ *)
TypeOK == /\ ord \in Seq(Ids) /\ DOMAIN key = Range(ord) /\ \A n \in DOMAIN key : key[n] \in Keys
Sorted == IsSorted(ord, key)
NoDuplicates == \A i, j \in 1 .. Len(ord) : ord[i] = ord[j] => i = j
\* an insert is never refused, whatever the content ("stays usable")
InsertTotal == \A n \in Ids \ Live, k \in Keys : SInsert(Cur, n, k) # {}
ReinsertTotal == \A n \in Live, k \in Keys : SReinsert(Cur, n, k) # {}
\* loses or duplicates nothing: the node set changes by exactly the node of the call,
\* and the other nodes keep their relative order and their keys
Conservation ==
  [][ LET n == op'.n IN
      /\ op'.e = "insert" => Range(ord') = Range(ord) \cup {n} /\ Without(ord', n) = ord
      /\ op'.e \in {"claim", "destroy_node"} => Range(ord') = Range(ord) \ {n} /\ ord' = Without(ord, n)
      /\ op'.e = "reinsert" => Range(ord') = Range(ord) /\ Without(ord', n) = Without(ord, n) /\ key'[n] = op'.k
      /\ op'.e \in {"find", "first", "last", "next", "prev"} => ord' = ord /\ key' = key
      /\ \A m \in Range(ord') \cap Range(ord) : m # n => key'[m] = key[m] ]_vars
\* find is exact: NULL iff no node has the key
FindLaw == [][ op'.e = "find" => IF res'.out = NoVal THEN \A n \in Live : key[n] # op'.k
                                 ELSE res'.out \in Live /\ key[res'.out] = op'.k ]_vars
\* first / last are the extremes of the order
ExtremesLaw == [][ /\ op'.e = "first" /\ ord # <<>> => \A n \in Live : key[res'.out] <= key[n]
                   /\ op'.e = "last" /\ ord # <<>> => \A n \in Live : key[n] <= key[res'.out] ]_vars
=============================================================================
