----------------------------- MODULE HTableGen ----------------------------
(* Generator: every operation sequence of length Depth over the hash table  *)
(* API with keys 0..NKeys-1 (values are fresh).  The scripts are            *)
(* kind-agnostic: checks/c19.py replays each one against every wrapper kind *)
(* (the harness skips "claim" where the wrapper has none).                  *)
(* Leaves are printed as {"c":"htable","ops":[[name,args..],...]}.          *)
EXTENDS HTable, Json

CONSTANTS Depth, Ops
VARIABLE hist
gvars == <<kind, nk, map, res, op, hist>>

Fresh == Len(hist) + 1
G(name, t, A) == name \in Ops /\ A /\ hist' = Append(hist, <<name>> \o t)

GNext ==
  /\ Len(hist) < Depth
  /\ \/ \E k \in KeyU : G("insert", <<k, Fresh>>, Insert(k, Fresh))
     \/ \E k \in KeyU : G("get", <<k>>, Get(k))
     \/ \E k \in KeyU : G("get_direct", <<k>>, GetDirect(k))
     \/ \E k \in KeyU : G("remove", <<k>>, Remove(k))
     \/ \E k \in KeyU : G("claim", <<k>>, Claim(k))
     \/ G("num_keys", <<>>, NumKeys)
     \/ G("keys", <<>>, Do(HKeys(Cur), "keys", 0, 0))

GInit == Init /\ hist = <<>>
GSpec == GInit /\ [][GNext]_gvars
PrintLeaf == Len(hist) = Depth => PrintT(ToJson([c |-> "htable", ops |-> hist]))
=============================================================================
