\* exhaustive check of the map ADT laws for every wrapper kind, small constants
CONSTANTS
  NKeys = 4
  Vals = {1, 2, 3}
  Kinds = {"gen", "strvp", "szvp", "asvp", "vpvp", "vpstr", "dict"}
SPECIFICATION Spec
INVARIANTS TypeOK CountLaw
PROPERTIES LatestValue RemoveLaw ObserversPure FreeLaw
CHECK_DEADLOCK FALSE
