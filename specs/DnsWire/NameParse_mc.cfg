\* exhaustive box: all strings of length <= MaxLen over the adversarial alphabet
\* {0,1,2,'a',0x40,0x80,0xC0,0xC1,0xFF}, every start offset
SPECIFICATION Spec
CONSTANTS
  MaxLen = 6
  Alphabet = {0, 1, 2, 97, 64, 128, 192, 193, 255}
  Strict = TRUE
  Emit = FALSE
INVARIANTS Terminates InBounds NeverForward Agree
CHECK_DEADLOCK FALSE
