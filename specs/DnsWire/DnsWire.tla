------------------------------ MODULE DnsWire ------------------------------
(***************************************************************************)
(* Reference DNS message codec, written from the RFCs (1035 message and    *)
(* RDATA formats, 2181 TTL, 2535/2931 SIG, 2782 SRV, 3403 NAPTR, 3596      *)
(* AAAA, 3597 unknown types / compression rules, 6698 TLSA, 6891 EDNS(0),  *)
(* 7553 URI, 8659 CAA, 9460 SVCB/HTTPS) and NOT from the c-ares sources.   *)
(*                                                                         *)
(*   Decode(b)           reference decoder, verdict WF / Lenient /         *)
(*                       Malformed plus the abstract record                *)
(*   DecodeSel(b, sel)   same with a set of <<section, "base"|"ext">>      *)
(*                       classes whose RDATA is left uninterpreted (the    *)
(*                       documented meaning of ARES_DNS_PARSE_*_RAW)       *)
(*   Encode(rec, lay)    encoder; `lay` chooses, per name occurrence,      *)
(*                       literal or pointer-to-earlier-suffix, or selects  *)
(*                       the NameWriter model (offset list of whole names, *)
(*                       longest-suffix match, 14-bit pointer field,       *)
(*                       message-relative offsets)                         *)
(*                                                                         *)
(* Abstract record (all numbers are naturals < 2^16; 32-bit quantities are *)
(* pairs <<high16, low16>> because TLC integers are 32-bit signed):        *)
(*   [id, qr, opcode, aa, tc, rd, ra, z, ad, cd, rcode,                    *)
(*    qd : Seq([name, qtype, qclass]), an, ns, ar : Seq(RR)]               *)
(*   RR == [name : Seq(label), type, class, ttl : <<hi,lo>>, rd : RDATA]   *)
(*   RDATA is a record tagged by field k (see DecRd).  rcode is the full   *)
(*   12-bit value (header low 4 bits + OPT extended bits).                 *)
(*                                                                         *)
(* Verdicts.  WF: conforms to the RFCs and lies in the supported subset    *)
(* (exactly one question; opcode 0,1,2,4,5; classes IN/CH/HS/NONE (+ANY    *)
(* for questions and SIG); character-string fields of HINFO/NAPTR/CAA/URI  *)
(* printable; non-empty SIG signature, TLSA data, CAA value).  Lenient:    *)
(* decodable, but outside that subset or with a tolerable deviation (Z bit *)
(* set, TTL with the top bit set, bytes after the last RR, a compressed    *)
(* name in RDATA of a type for which RFC 3597 forbids compression): the    *)
(* implementation may accept or reject; if it accepts, what it reports     *)
(* must equal the reference.  Malformed: nothing is demanded (C02 only).   *)
(***************************************************************************)
EXTENDS DnsWireName, TLC

U16At(b, i) == b[i + 1] * 256 + b[i + 2]
U32At(b, i) == <<U16At(b, i), U16At(b, i + 2)>>
BE16(n)     == <<n \div 256, n % 256>>
BE32(p)     == BE16(p[1]) \o BE16(p[2])

TA == 1      TNS == 2     TCNAME == 5   TSOA == 6    TPTR == 12  THINFO == 13
TMX == 15    TTXT == 16   TSIG == 24    TAAAA == 28  TSRV == 33  TNAPTR == 35
TOPT == 41   TTLSA == 52  TSVCB == 64   THTTPS == 65 TURI == 256 TCAA == 257

(* RFC 1035 types: names inside their RDATA may be compressed (RFC 3597 4) *)
BaseTypes == {TA, TNS, TCNAME, TSOA, TPTR, THINFO, TMX, TTXT}
ExtTypes  == {TSIG, TAAAA, TSRV, TNAPTR, TOPT, TTLSA, TSVCB, THTTPS, TURI, TCAA}
KnownTypes == BaseTypes \cup ExtTypes
QTypeOnly == 251..255          \* IXFR, AXFR, MAILB, MAILA, ANY are not RR types

SupOpcodes == {0, 1, 2, 4, 5}
SupClassRR == {1, 3, 4, 254}
SupClassQ  == {1, 3, 4, 254, 255}

Fail(why) == [ok |-> FALSE, why |-> why]
RdOk(rd, len) == [ok |-> TRUE, rd |-> rd, len |-> len]
LIf(cond, tag) == IF cond THEN <<tag>> ELSE <<>>

AllPrint(s) == \A i \in 1..Len(s) : IsPrint(s[i])
IsAlnum(c)  == IsDigit(c) \/ (c >= 65 /\ c <= 90) \/ (c >= 97 /\ c <= 122)
AllAlnum(s) == \A i \in 1..Len(s) : IsAlnum(s[i])

-----------------------------------------------------------------------------
(* pieces of RDATA; `end` is the offset just after the RDATA               *)

DecStr(b, off, end) ==            \* <character-string>, RFC 1035 3.3
  IF off >= end THEN Fail("charstring.missing")
  ELSE LET n == b[off + 1]
       IN  IF off + 1 + n > end THEN Fail("charstring.overrun")
           ELSE [ok |-> TRUE, s |-> Slice(b, off + 1, n), next |-> off + 1 + n]

RECURSIVE DecChunks(_, _, _, _)
DecChunks(b, off, end, acc) ==
  IF off = end THEN [ok |-> TRUE, chunks |-> acc]
  ELSE LET r == DecStr(b, off, end)
       IN  IF ~r.ok THEN r ELSE DecChunks(b, r.next, end, Append(acc, r.s))

(* {code(16) length(16) value} lists: EDNS options (RFC 6891 6.1.2) and    *)
(* SvcParams (RFC 9460 2.2)                                                *)
RECURSIVE DecTLVs(_, _, _, _)
DecTLVs(b, off, end, acc) ==
  IF off = end THEN [ok |-> TRUE, tlvs |-> acc]
  ELSE IF off + 4 > end THEN Fail("tlv.header.truncated")
  ELSE LET code == U16At(b, off)
           n    == U16At(b, off + 2)
       IN  IF off + 4 + n > end THEN Fail("tlv.value.overrun")
           ELSE DecTLVs(b, off + 4 + n, end, Append(acc, <<code, Slice(b, off + 4, n)>>))

StrictlyIncreasingKeys(tlvs) ==
  \A i \in 1..(Len(tlvs) - 1) : tlvs[i][1] < tlvs[i + 1][1]

RdName(b, off, end) ==
  LET d == DecodeName(b, off)
  IN  IF ~d.ok THEN Fail(d.why)
      ELSE IF d.toolong THEN Fail("name.toolong")
      ELSE IF d.next > end THEN Fail("rdata.name.overrun")
      ELSE d

-----------------------------------------------------------------------------
(* per-type RDATA decoders: (b, off, n) with n = RDLENGTH                  *)

DecRdA(b, off, n) ==
  IF n # 4 THEN Fail("a.rdlength")
  ELSE RdOk([k |-> "A", addr |-> Slice(b, off, 4)], <<>>)

DecRdAAAA(b, off, n) ==
  IF n # 16 THEN Fail("aaaa.rdlength")
  ELSE RdOk([k |-> "AAAA", addr |-> Slice(b, off, 16)], <<>>)

DecRdOneName(b, off, n, tag) ==      \* NS, CNAME, PTR
  LET d == RdName(b, off, off + n)
  IN  IF ~d.ok THEN d
      ELSE IF d.next # off + n THEN Fail("rdata.trailing")
      ELSE RdOk([k |-> tag, name |-> d.labels], <<>>)

DecRdSOA(b, off, n) ==
  LET end == off + n
      m   == RdName(b, off, end)
  IN  IF ~m.ok THEN m
      ELSE LET r == RdName(b, m.next, end)
           IN  IF ~r.ok THEN r
               ELSE IF r.next + 20 # end THEN Fail("soa.rdlength")
               ELSE RdOk([k |-> "SOA", mname |-> m.labels, rname |-> r.labels,
                          serial  |-> U32At(b, r.next),
                          refresh |-> U32At(b, r.next + 4),
                          retry   |-> U32At(b, r.next + 8),
                          expire  |-> U32At(b, r.next + 12),
                          minimum |-> U32At(b, r.next + 16)], <<>>)

DecRdHINFO(b, off, n) ==
  LET end == off + n
      c   == DecStr(b, off, end)
  IN  IF ~c.ok THEN c
      ELSE LET o == DecStr(b, c.next, end)
           IN  IF ~o.ok THEN o
               ELSE IF o.next # end THEN Fail("rdata.trailing")
               ELSE RdOk([k |-> "HINFO", cpu |-> c.s, os |-> o.s],
                         LIf(~AllPrint(c.s) \/ ~AllPrint(o.s), "charstring.nonprint"))

DecRdMX(b, off, n) ==
  IF n < 3 THEN Fail("mx.rdlength")
  ELSE LET d == RdName(b, off + 2, off + n)
       IN  IF ~d.ok THEN d
           ELSE IF d.next # off + n THEN Fail("rdata.trailing")
           ELSE RdOk([k |-> "MX", preference |-> U16At(b, off), exchange |-> d.labels], <<>>)

DecRdTXT(b, off, n) ==
  IF n = 0 THEN Fail("txt.empty")
  ELSE LET c == DecChunks(b, off, off + n, <<>>)
       IN  IF ~c.ok THEN c ELSE RdOk([k |-> "TXT", chunks |-> c.chunks], <<>>)

DecRdSIG(b, off, n) ==
  LET end == off + n
  IN  IF n < 19 THEN Fail("sig.rdlength")
      ELSE LET d == RdName(b, off + 18, end)
           IN  IF ~d.ok THEN d
               ELSE RdOk([k |-> "SIG",
                          type_covered |-> U16At(b, off), algorithm |-> b[off + 3],
                          labels |-> b[off + 4], original_ttl |-> U32At(b, off + 4),
                          expiration |-> U32At(b, off + 8), inception |-> U32At(b, off + 12),
                          key_tag |-> U16At(b, off + 16), signers_name |-> d.labels,
                          signature |-> Slice(b, d.next, end - d.next)],
                         LIf(d.comp, "rdata.name.compressed") \o
                         LIf(d.next = end, "sig.signature.empty"))

DecRdSRV(b, off, n) ==
  IF n < 7 THEN Fail("srv.rdlength")
  ELSE LET d == RdName(b, off + 6, off + n)
       IN  IF ~d.ok THEN d
           ELSE IF d.next # off + n THEN Fail("rdata.trailing")
           ELSE RdOk([k |-> "SRV", priority |-> U16At(b, off), weight |-> U16At(b, off + 2),
                      port |-> U16At(b, off + 4), target |-> d.labels],
                     LIf(d.comp, "rdata.name.compressed"))

DecRdNAPTR(b, off, n) ==
  LET end == off + n
  IN  IF n < 8 THEN Fail("naptr.rdlength")
      ELSE LET f == DecStr(b, off + 4, end)
           IN  IF ~f.ok THEN f
               ELSE LET s == DecStr(b, f.next, end)
                    IN  IF ~s.ok THEN s
                        ELSE LET r == DecStr(b, s.next, end)
                             IN  IF ~r.ok THEN r
                                 ELSE LET d == RdName(b, r.next, end)
                                      IN  IF ~d.ok THEN d
                                          ELSE IF d.next # end THEN Fail("rdata.trailing")
                                          ELSE RdOk([k |-> "NAPTR", order |-> U16At(b, off),
                                                     preference |-> U16At(b, off + 2),
                                                     flags |-> f.s, services |-> s.s, regexp |-> r.s,
                                                     replacement |-> d.labels],
                                                    LIf(d.comp, "rdata.name.compressed") \o
                                                    LIf(~AllPrint(f.s) \/ ~AllPrint(s.s) \/ ~AllPrint(r.s),
                                                        "charstring.nonprint"))

(* RFC 6891: NAME must be the root, only in the additional section, CLASS  *)
(* is the requestor's UDP payload size, TTL is ext-rcode(8) version(8)     *)
(* DO(1) Z(15), RDATA is a list of options.                                *)
DecRdOPT(b, off, n, owner, sect, class, ttl) ==
  IF owner # <<>> THEN Fail("opt.name.notroot")
  ELSE IF sect # "ar" THEN Fail("opt.section")
  ELSE LET t == DecTLVs(b, off, off + n, <<>>)
       IN  IF ~t.ok THEN t
           ELSE RdOk([k |-> "OPT", udp_size |-> class, version |-> ttl[1] % 256,
                      flags |-> ttl[2], options |-> t.tlvs], <<>>)

DecRdTLSA(b, off, n) ==
  IF n < 3 THEN Fail("tlsa.rdlength")
  ELSE RdOk([k |-> "TLSA", cert_usage |-> b[off + 1], selector |-> b[off + 2],
             match |-> b[off + 3], data |-> Slice(b, off + 3, n - 3)],
            LIf(n = 3, "tlsa.data.empty"))

DecRdSVCB(b, off, n, tag) ==
  IF n < 3 THEN Fail("svcb.rdlength")
  ELSE LET d == RdName(b, off + 2, off + n)
       IN  IF ~d.ok THEN d
           ELSE LET t == DecTLVs(b, d.next, off + n, <<>>)
                IN  IF ~t.ok THEN t
                    ELSE IF ~StrictlyIncreasingKeys(t.tlvs) THEN Fail("svcb.params.order")
                    ELSE RdOk([k |-> tag, priority |-> U16At(b, off), target |-> d.labels,
                               params |-> t.tlvs],
                              LIf(d.comp, "rdata.name.compressed"))

DecRdURI(b, off, n) ==
  IF n < 5 THEN Fail("uri.rdlength")      \* Target MUST NOT be empty (RFC 7553 4.4)
  ELSE LET t == Slice(b, off + 4, n - 4)
       IN  RdOk([k |-> "URI", priority |-> U16At(b, off), weight |-> U16At(b, off + 2),
                 target |-> t], LIf(~AllPrint(t), "charstring.nonprint"))

DecRdCAA(b, off, n) ==
  IF n < 2 THEN Fail("caa.rdlength")
  ELSE LET tl == b[off + 2]
       IN  IF tl = 0 THEN Fail("caa.tag.empty")
           ELSE IF 2 + tl > n THEN Fail("caa.tag.overrun")
           ELSE LET tag == Slice(b, off + 2, tl)
                IN  RdOk([k |-> "CAA", critical |-> b[off + 1], tag |-> tag,
                          value |-> Slice(b, off + 2 + tl, n - 2 - tl)],
                         LIf(~AllAlnum(tag), "caa.tag.notalnum") \o
                         LIf(n = 2 + tl, "caa.value.empty"))

DecRdRAW(b, off, n, type) ==
  RdOk([k |-> "RAW", rtype |-> type, data |-> Slice(b, off, n)], <<>>)

DecRd(b, type, off, n, owner, sect, class, ttl) ==
  CASE type = TA      -> DecRdA(b, off, n)
    [] type = TNS     -> DecRdOneName(b, off, n, "NS")
    [] type = TCNAME  -> DecRdOneName(b, off, n, "CNAME")
    [] type = TSOA    -> DecRdSOA(b, off, n)
    [] type = TPTR    -> DecRdOneName(b, off, n, "PTR")
    [] type = THINFO  -> DecRdHINFO(b, off, n)
    [] type = TMX     -> DecRdMX(b, off, n)
    [] type = TTXT    -> DecRdTXT(b, off, n)
    [] type = TSIG    -> DecRdSIG(b, off, n)
    [] type = TAAAA   -> DecRdAAAA(b, off, n)
    [] type = TSRV    -> DecRdSRV(b, off, n)
    [] type = TNAPTR  -> DecRdNAPTR(b, off, n)
    [] type = TOPT    -> DecRdOPT(b, off, n, owner, sect, class, ttl)
    [] type = TTLSA   -> DecRdTLSA(b, off, n)
    [] type = TSVCB   -> DecRdSVCB(b, off, n, "SVCB")
    [] type = THTTPS  -> DecRdSVCB(b, off, n, "HTTPS")
    [] type = TURI    -> DecRdURI(b, off, n)
    [] type = TCAA    -> DecRdCAA(b, off, n)
    [] OTHER          -> DecRdRAW(b, off, n, type)

-----------------------------------------------------------------------------
TypeClass(type) == IF type \in BaseTypes THEN "base" ELSE "ext"

DecRR(b, off, sect, sel) ==
  LET d == DecodeName(b, off)
  IN  IF ~d.ok THEN Fail(d.why)
      ELSE IF d.toolong THEN Fail("name.toolong")
      ELSE
        LET o2 == d.next
        IN  IF o2 + 10 > Len(b) THEN Fail("rr.fixed.truncated")
            ELSE
              LET type  == U16At(b, o2)
                  class == U16At(b, o2 + 2)
                  ttl   == U32At(b, o2 + 4)
                  n     == U16At(b, o2 + 8)
                  o3    == o2 + 10
                  raw   == <<sect, TypeClass(type)>> \in sel
              IN  IF o3 + n > Len(b) THEN Fail("rr.rdata.truncated")
                  ELSE IF ~raw /\ type \in QTypeOnly THEN Fail("rr.type.qtypeonly")
                  ELSE
                    LET r == IF raw THEN DecRdRAW(b, o3, n, type)
                             ELSE DecRd(b, type, o3, n, d.labels, sect, class, ttl)
                    IN  IF ~r.ok THEN r
                        ELSE [ok |-> TRUE,
                              rr |-> [name |-> d.labels, type |-> type, class |-> class,
                                      ttl |-> ttl, rd |-> r.rd],
                              next |-> o3 + n,
                              len |-> r.len \o
                                LIf(~raw /\ type \in KnownTypes /\ type # TOPT /\
                                    class \notin (SupClassRR \cup (IF type = TSIG THEN {255} ELSE {})),
                                    "class.unsupported") \o
                                LIf(type # TOPT /\ ttl[1] >= 32768, "ttl.msb") \o
                                LIf(type = 0, "rr.type.zero")]

RECURSIVE DecRRs(_, _, _, _, _, _, _)
DecRRs(b, off, cnt, sect, sel, acc, len) ==
  IF cnt = 0 THEN [ok |-> TRUE, rrs |-> acc, next |-> off, len |-> len]
  ELSE LET r == DecRR(b, off, sect, sel)
       IN  IF ~r.ok THEN r
           ELSE DecRRs(b, r.next, cnt - 1, sect, sel, Append(acc, r.rr), len \o r.len)

RECURSIVE DecQs(_, _, _, _, _)
DecQs(b, off, cnt, acc, len) ==
  IF cnt = 0 THEN [ok |-> TRUE, qs |-> acc, next |-> off, len |-> len]
  ELSE LET d == DecodeName(b, off)
       IN  IF ~d.ok THEN Fail(d.why)
           ELSE IF d.toolong THEN Fail("name.toolong")
           ELSE IF d.next + 4 > Len(b) THEN Fail("question.truncated")
           ELSE DecQs(b, d.next + 4, cnt - 1,
                      Append(acc, [name |-> d.labels, qtype |-> U16At(b, d.next),
                                   qclass |-> U16At(b, d.next + 2)]),
                      len \o LIf(U16At(b, d.next + 2) \notin SupClassQ, "qclass.unsupported"))

OptRRs(rrs) == SelectSeq(rrs, LAMBDA r : r.rd.k = "OPT")

Bit(x, n) == (x \div n) % 2

(* Message size.  A message travels in a UDP datagram or behind the 16-bit  *)
(* length field of RFC 1035 4.2.2 (TCP), so a DNS message has at most      *)
(* MaxMsgLen = 65535 octets: a message of exactly 65535 octets is legal    *)
(* (and is the largest that Encode / the writer may produce), a byte       *)
(* string of 65536 octets or more is not a DNS message at all.             *)
MaxMsgLen == 65535

DecodeSel(b, sel) ==
  IF Len(b) < 12 THEN [k |-> "Malformed", why |-> <<"header.truncated">>]
  ELSE IF Len(b) > MaxMsgLen THEN [k |-> "Malformed", why |-> <<"message.toolong">>]
  ELSE
    LET f1 == b[3]
        f2 == b[4]
        q  == DecQs(b, 12, U16At(b, 4), <<>>, <<>>)
    IN  IF ~q.ok THEN [k |-> "Malformed", why |-> <<q.why>>]
        ELSE
        LET an == DecRRs(b, q.next, U16At(b, 6), "an", sel, <<>>, <<>>)
        IN  IF ~an.ok THEN [k |-> "Malformed", why |-> <<an.why>>]
            ELSE
            LET ns == DecRRs(b, an.next, U16At(b, 8), "ns", sel, <<>>, <<>>)
            IN  IF ~ns.ok THEN [k |-> "Malformed", why |-> <<ns.why>>]
                ELSE
                LET ar == DecRRs(b, ns.next, U16At(b, 10), "ar", sel, <<>>, <<>>)
                IN  IF ~ar.ok THEN [k |-> "Malformed", why |-> <<ar.why>>]
                    ELSE
                    LET opts == OptRRs(ar.rrs)
                    IN  IF Len(opts) > 1 THEN [k |-> "Malformed", why |-> <<"opt.multiple">>]
                        ELSE
                        LET ext == IF Len(opts) = 1 THEN opts[1].ttl[1] \div 256 ELSE 0
                            rec == [id |-> U16At(b, 0),
                                    qr |-> Bit(f1, 128), opcode |-> (f1 \div 8) % 16,
                                    aa |-> Bit(f1, 4), tc |-> Bit(f1, 2), rd |-> Bit(f1, 1),
                                    ra |-> Bit(f2, 128), z |-> Bit(f2, 64),
                                    ad |-> Bit(f2, 32), cd |-> Bit(f2, 16),
                                    rcode |-> (ext * 16) + (f2 % 16),
                                    qd |-> q.qs, an |-> an.rrs, ns |-> ns.rrs, ar |-> ar.rrs]
                            len == q.len \o an.len \o ns.len \o ar.len \o
                                   LIf(rec.z # 0, "header.z") \o
                                   LIf(rec.opcode \notin SupOpcodes, "opcode.unsupported") \o
                                   LIf(Len(q.qs) # 1, "qdcount.unsupported") \o
                                   LIf(ar.next # Len(b), "trailing.bytes")
                        IN  [k |-> IF len = <<>> THEN "WF" ELSE "Lenient", rec |-> rec, why |-> len]

Decode(b) == DecodeSel(b, {})

AllRawSel == {<<s, c>> : s \in {"an", "ns", "ar"}, c \in {"base", "ext"}}

(* documented meaning of the ARES_DNS_PARSE_*_RAW bits of ares_dns_parse() *)
SelBit(p) ==
  CASE p = <<"an", "base">> -> 1 [] p = <<"ns", "base">> -> 2 [] p = <<"ar", "base">> -> 4
    [] p = <<"an", "ext">> -> 8  [] p = <<"ns", "ext">> -> 16 [] p = <<"ar", "ext">> -> 32
SelOf(fl) == {p \in AllRawSel : Bit(fl, SelBit(p)) = 1}

-----------------------------------------------------------------------------
(***************************************************************************)
(* Encoder.  State threaded through the message:                           *)
(*   out    bytes so far                                                   *)
(*   tab    ref mode: <<offset, labels>> for every literal label start     *)
(*          (the suffix starting there); writer mode: one entry per        *)
(*          recorded whole name                                            *)
(*   occ    index of the next name occurrence (0-based, wire order)        *)
(*   marks  offsets of length-like fields (for the length+-1 mutations)    *)
(*   ok     FALSE if something was not encodable (RDLENGTH > 65535, ...)   *)
(* Layout `lay`:                                                           *)
(*   mode "ref":    mask (set of occurrence indexes that try to compress), *)
(*                  pref "early"/"late" (which earlier copy to point at),  *)
(*                  depth "long"/"short" (longest / shortest suffix),      *)
(*                  rdcomp TRUE: also compress names in RDATA of types for *)
(*                  which RFC 3597 forbids it (gives Lenient messages)     *)
(*   mode "writer": the NameWriter model; base = number of bytes that      *)
(*                  precede the message in the output buffer and are       *)
(*                  (wrongly) counted in offsets when OffsetBase =         *)
(*                  "buffer"; limit TRUE = refuse targets >= 16384,        *)
(*                  FALSE = mask them with 0x3FFF                          *)
(***************************************************************************)
Enc0 == [out |-> <<>>, tab |-> <<>>, occ |-> 0, marks |-> <<>>, ok |-> TRUE]

Put(st, bytes) == [st EXCEPT !.out = st.out \o bytes]
Mark(st, kind) == [st EXCEPT !.marks = Append(st.marks, <<Len(st.out), kind>>)]   \* marks the NEXT byte

IsSuffix(suf, ls) ==
  Len(suf) <= Len(ls) /\ SubSeq(ls, Len(ls) - Len(suf) + 1, Len(ls)) = suf

(* literal labels ls[1..k], registering (ref mode) each label start *)
RECURSIVE PutLabels(_, _, _, _, _)
PutLabels(st, ls, i, k, reg) ==
  IF i > k THEN st
  ELSE LET off == Len(st.out)
           st1 == [st EXCEPT
                     !.out = st.out \o <<Len(ls[i])>> \o ls[i],
                     !.marks = Append(st.marks, <<off, "label">>),
                     !.tab = IF reg /\ off < 16384
                             THEN Append(st.tab, <<off, DropLabels(ls, i - 1)>>)
                             ELSE st.tab]
       IN  PutLabels(st1, ls, i + 1, k, reg)

CandOffs(tab, suf) == {tab[i][1] : i \in {j \in 1..Len(tab) : tab[j][2] = suf}}
SetMin(S) == CHOOSE x \in S : \A y \in S : x <= y
SetMax(S) == CHOOSE x \in S : \A y \in S : x >= y

EncNameRef(st, ls, allowed, lay) ==
  LET try == allowed /\ st.occ \in lay.mask /\ ls # <<>>
      ks  == IF try THEN {k \in 0..(Len(ls) - 1) : CandOffs(st.tab, DropLabels(ls, k)) # {}}
             ELSE {}
      st0 == [st EXCEPT !.occ = st.occ + 1]
  IN  IF ks = {} THEN Put(PutLabels(st0, ls, 1, Len(ls), TRUE), <<0>>)
      ELSE LET k    == IF lay.depth = "long" THEN SetMin(ks) ELSE SetMax(ks)
               offs == CandOffs(st.tab, DropLabels(ls, k))
               tgt  == IF lay.pref = "early" THEN SetMin(offs) ELSE SetMax(offs)
           IN  Put(Mark(PutLabels(st0, ls, 1, k, TRUE), "ptr"), <<192 + (tgt \div 256), tgt % 256>>)

(* NameWriter: `listed` = the name goes through the offset list            *)
LongestEntry(tab, ls, limit) ==
  LET c == {i \in 1..Len(tab) : IsSuffix(tab[i][2], ls) /\ (limit => tab[i][1] < 16384)}
  IN  IF c = {} THEN 0
      ELSE CHOOSE i \in c : \A j \in c : Len(tab[j][2]) <= Len(tab[i][2])

EncNameWriter(st, ls, listed, lay) ==
  LET e    == IF listed /\ ls # <<>> THEN LongestEntry(st.tab, ls, lay.limit) ELSE 0
      pos  == Len(st.out) + lay.base
      k    == IF e = 0 THEN Len(ls) ELSE Len(ls) - Len(st.tab[e][2])
      st0  == [st EXCEPT !.occ = st.occ + 1]
      st1  == PutLabels(st0, ls, 1, k, FALSE)
      st2  == IF e = 0 THEN Put(st1, <<0>>)
              ELSE LET idx == st.tab[e][1]
                   IN  Put(Mark(st1, "ptr"), <<192 + ((idx % 16384) \div 256), idx % 256>>)
  IN  IF listed /\ k > 0
      THEN [st2 EXCEPT !.tab = Append(st2.tab, <<pos, ls>>)]
      ELSE st2

(* ctx: "owner" (question / RR owner), "rd" (RDATA name), with the RR type *)
EncName(st, ls, ctx, type, lay) ==
  IF lay.mode = "writer"
  THEN EncNameWriter(st, ls, ctx = "owner" \/ type \in BaseTypes, lay)
  ELSE EncNameRef(st, ls, ctx = "owner" \/ type \in BaseTypes \/ lay.rdcomp, lay)

PutStr(st, s) == Put(Mark(st, "str"), <<Len(s)>> \o s)

(* short opaque RDATA: its first even offsets are offered as pointer targets to the "ptr" mutation, so *)
(* that pointer cycles can be placed in bytes that are never themselves decoded as a name             *)
MarkRaw(st, n) ==
  IF n < 2 \/ n > 16 THEN st
  ELSE [st EXCEPT !.marks = st.marks \o
          [i \in 1..(IF n >= 6 THEN 3 ELSE IF n >= 4 THEN 2 ELSE 1) |-> <<Len(st.out) + 2 * (i - 1), "raw">>]]

RECURSIVE PutChunks(_, _, _)
PutChunks(st, cs, i) == IF i > Len(cs) THEN st ELSE PutChunks(PutStr(st, cs[i]), cs, i + 1)

RECURSIVE PutTLVs(_, _, _)
PutTLVs(st, ts, i) ==
  IF i > Len(ts) THEN st
  ELSE LET st1 == Put(st, BE16(ts[i][1]))
           st2 == [st1 EXCEPT !.marks = Append(st1.marks, <<Len(st1.out) + 1, "tlv">>)]
       IN  PutTLVs(Put(st2, BE16(Len(ts[i][2])) \o ts[i][2]), ts, i + 1)

EncRd(st, rr, lay) ==
  LET rd == rr.rd
      t  == rr.type
  IN  CASE rd.k = "A"     -> Put(st, rd.addr)
        [] rd.k = "AAAA"  -> Put(st, rd.addr)
        [] rd.k \in {"NS", "CNAME", "PTR"} -> EncName(st, rd.name, "rd", t, lay)
        [] rd.k = "SOA"   ->
             Put(EncName(EncName(st, rd.mname, "rd", t, lay), rd.rname, "rd", t, lay),
                 BE32(rd.serial) \o BE32(rd.refresh) \o BE32(rd.retry) \o
                 BE32(rd.expire) \o BE32(rd.minimum))
        [] rd.k = "HINFO" -> PutStr(PutStr(st, rd.cpu), rd.os)
        [] rd.k = "MX"    -> EncName(Put(st, BE16(rd.preference)), rd.exchange, "rd", t, lay)
        [] rd.k = "TXT"   -> PutChunks(st, rd.chunks, 1)
        [] rd.k = "SIG"   ->
             Put(EncName(Put(st, BE16(rd.type_covered) \o <<rd.algorithm, rd.labels>> \o
                                 BE32(rd.original_ttl) \o BE32(rd.expiration) \o
                                 BE32(rd.inception) \o BE16(rd.key_tag)),
                         rd.signers_name, "rd", t, lay), rd.signature)
        [] rd.k = "SRV"   ->
             EncName(Put(st, BE16(rd.priority) \o BE16(rd.weight) \o BE16(rd.port)),
                     rd.target, "rd", t, lay)
        [] rd.k = "NAPTR" ->
             EncName(PutStr(PutStr(PutStr(Put(st, BE16(rd.order) \o BE16(rd.preference)),
                                          rd.flags), rd.services), rd.regexp),
                     rd.replacement, "rd", t, lay)
        [] rd.k = "OPT"   -> PutTLVs(st, rd.options, 1)
        [] rd.k = "TLSA"  -> Put(st, <<rd.cert_usage, rd.selector, rd.match>> \o rd.data)
        [] rd.k \in {"SVCB", "HTTPS"} ->
             PutTLVs(EncName(Put(st, BE16(rd.priority)), rd.target, "rd", t, lay), rd.params, 1)
        [] rd.k = "URI"   -> Put(st, BE16(rd.priority) \o BE16(rd.weight) \o rd.target)
        [] rd.k = "CAA"   -> Put(PutStr(Put(st, <<rd.critical>>), rd.tag), rd.value)
        [] rd.k = "RAW"   -> Put(MarkRaw(st, Len(rd.data)), rd.data)

(* For an interpreted OPT RR class and TTL are derived from the RDATA      *)
(* fields and from the message rcode (extended bits).                      *)
EncRR(st, rr, rcode, lay) ==
  LET st1   == EncName(st, rr.name, "owner", rr.type, lay)
      isopt == rr.rd.k = "OPT"
      class == IF isopt THEN rr.rd.udp_size ELSE rr.class
      ttl   == IF isopt THEN <<((rcode \div 16) * 256) + rr.rd.version, rr.rd.flags>> ELSE rr.ttl
      st2   == Put(st1, BE16(rr.type) \o BE16(class) \o BE32(ttl))
      lenAt == Len(st2.out)
      st3   == Put([st2 EXCEPT !.marks = Append(st2.marks, <<lenAt + 1, "rdlen">>)], <<0, 0>>)
      st4   == EncRd(st3, rr, lay)
      n     == Len(st4.out) - lenAt - 2
  IN  IF n > 65535 THEN [st4 EXCEPT !.ok = FALSE]
      ELSE [st4 EXCEPT !.out = SubSeq(st4.out, 1, lenAt) \o BE16(n) \o
                               SubSeq(st4.out, lenAt + 3, Len(st4.out))]

RECURSIVE EncRRs(_, _, _, _, _)
EncRRs(st, rrs, i, rcode, lay) ==
  IF i > Len(rrs) THEN st ELSE EncRRs(EncRR(st, rrs[i], rcode, lay), rrs, i + 1, rcode, lay)

RECURSIVE EncQs(_, _, _, _)
EncQs(st, qs, i, lay) ==
  IF i > Len(qs) THEN st
  ELSE EncQs(Put(EncName(st, qs[i].name, "owner", 0, lay),
                 BE16(qs[i].qtype) \o BE16(qs[i].qclass)), qs, i + 1, lay)

EncHeader(rec) ==
  BE16(rec.id) \o
  << rec.qr * 128 + rec.opcode * 8 + rec.aa * 4 + rec.tc * 2 + rec.rd,
     rec.ra * 128 + rec.z * 64 + rec.ad * 32 + (rec.cd * 16) + (rec.rcode % 16) >> \o
  BE16(Len(rec.qd)) \o BE16(Len(rec.an)) \o BE16(Len(rec.ns)) \o BE16(Len(rec.ar))

EncodeSt(rec, lay) ==
  LET h  == [Enc0 EXCEPT !.out = EncHeader(rec), !.marks = <<<<5, "cnt">>, <<7, "cnt">>, <<9, "cnt">>, <<11, "cnt">>>>]
      s1 == EncQs(h, rec.qd, 1, lay)
      s2 == EncRRs(s1, rec.an, 1, rec.rcode, lay)
      s3 == EncRRs(s2, rec.ns, 1, rec.rcode, lay)
  IN  EncRRs(s3, rec.ar, 1, rec.rcode, lay)

Encode(rec, lay) == EncodeSt(rec, lay).out

NoCompression == [mode |-> "ref", mask |-> {}, pref |-> "early", depth |-> "long", rdcomp |-> FALSE]
WriterLay     == [mode |-> "writer", base |-> 0, limit |-> TRUE]

(* number of name occurrences of a record, in wire order *)
RdNames(rd) ==
  CASE rd.k \in {"NS", "CNAME", "PTR", "MX", "SIG", "SRV", "NAPTR", "SVCB", "HTTPS"} -> 1
    [] rd.k = "SOA" -> 2
    [] OTHER -> 0
RECURSIVE NamesIn(_, _)
NamesIn(rrs, i) == IF i > Len(rrs) THEN 0 ELSE 1 + RdNames(rrs[i].rd) + NamesIn(rrs, i + 1)
NameCount(rec) == Len(rec.qd) + NamesIn(rec.an, 1) + NamesIn(rec.ns, 1) + NamesIn(rec.ar, 1)

(* a record the encoder can represent faithfully *)
OptConsistent(rr) ==
  rr.rd.k = "OPT" => rr.name = <<>> /\ rr.type = TOPT
RecEncodable(rec) ==
  /\ \A i \in 1..Len(rec.ar) : OptConsistent(rec.ar[i])
  /\ (rec.rcode >= 16 => Len(OptRRs(rec.ar)) = 1)
=============================================================================
