---------------------------- MODULE DnsWireTrace ----------------------------
(***************************************************************************)
(* Trace validation, implementation -> specification (C03, C04).           *)
(*                                                                         *)
(* Every line of the trace file (env TRACE, ndjson) is something the REAL  *)
(* code produced; the line is explained iff the reference codec agrees:    *)
(*   wire   bytes written by ares_dns_write / ares_create_query /          *)
(*          ares_mkquery: at most 65535 long, the reference decoder        *)
(*          (with the RAW classes of parse flags `fl`) accepts them and    *)
(*          decodes exactly the record `rec` (names given as labels,       *)
(*          names = "labels", or in presentation format, names = "pres",   *)
(*          un-escaped here by the RFC 1035 5.1 rules)                     *)
(*   frame  a length-prefixed frame written by ares_dns_write_buf_tcp      *)
(*          somewhere in an output buffer: the 16-bit length equals the    *)
(*          message length and the message is explained as `wire`          *)
(*   pres   a presentation-format name string the implementation reported  *)
(*          for wire labels `labels`: un-escaping it gives the labels back *)
(*   preseq two presentation strings (implementation's `s`, reference's    *)
(*          `t`) that must denote the same labels                          *)
(* Collect = FALSE is the usual idiom (the behaviour stops at the first    *)
(* unexplained line, POSTCONDITION Accepted fails).  Collect = TRUE walks  *)
(* the whole file and prints one JSON line per unexplained event, so that  *)
(* a campaign of thousands of independent events is judged in one run;     *)
(* the checks re-run each reported event alone with Collect = FALSE before *)
(* calling it a violation.                                                 *)
(***************************************************************************)
EXTENDS DnsWire, Json, IOUtils

CONSTANT Collect

Tr == ndJsonDeserialize(IOEnv.TRACE)

VARIABLE l

BadName == <<<<-1>>>>
UnescName(s) == LET u == Unescape(s) IN IF u.ok THEN u.labels ELSE BadName

UnescRd(rd) ==
  CASE rd.k \in {"NS", "CNAME", "PTR"} -> [rd EXCEPT !.name = UnescName(rd.name)]
    [] rd.k = "SOA" -> [rd EXCEPT !.mname = UnescName(rd.mname), !.rname = UnescName(rd.rname)]
    [] rd.k = "MX" -> [rd EXCEPT !.exchange = UnescName(rd.exchange)]
    [] rd.k = "SIG" -> [rd EXCEPT !.signers_name = UnescName(rd.signers_name)]
    [] rd.k \in {"SRV", "SVCB", "HTTPS"} -> [rd EXCEPT !.target = UnescName(rd.target)]
    [] rd.k = "NAPTR" -> [rd EXCEPT !.replacement = UnescName(rd.replacement)]
    [] OTHER -> rd
UnescRR(rr) == [rr EXCEPT !.name = UnescName(rr.name), !.rd = UnescRd(rr.rd)]
UnescRec(rec) ==
  [rec EXCEPT !.qd = [i \in 1..Len(rec.qd) |-> [rec.qd[i] EXCEPT !.name = UnescName(rec.qd[i].name)]],
              !.an = [i \in 1..Len(rec.an) |-> UnescRR(rec.an[i])],
              !.ns = [i \in 1..Len(rec.ns) |-> UnescRR(rec.ns[i])],
              !.ar = [i \in 1..Len(rec.ar) |-> UnescRR(rec.ar[i])]]

WireVerdict(nb, fl, rec, names) ==
  LET d   == DecodeSel(nb, SelOf(fl))
      exp == IF names = "pres" THEN UnescRec(rec) ELSE rec
  IN  IF Len(nb) > 65535 THEN "toolong"
      ELSE IF d.k = "Malformed" THEN "undecodable:" \o d.why[1]
      ELSE IF d.rec # exp THEN "different-record"
      ELSE "ok"

Verdict(e) ==
  CASE e.e = "wire"  -> WireVerdict(e.nb, e.fl, e.rec, e.names)
    [] e.e = "frame" ->
         IF Len(e.nb) < 2 THEN "frame-short"
         ELSE IF U16At(e.nb, 0) # Len(e.nb) - 2 THEN "frame-length"
         ELSE WireVerdict(SubSeq(e.nb, 3, Len(e.nb)), e.fl, e.rec, e.names)
    [] e.e = "pres"  ->
         LET u == Unescape(e.s)
         IN  IF u.ok /\ u.labels = e.labels THEN "ok" ELSE "pres-mismatch"
    [] e.e = "preseq" ->
         LET u == Unescape(e.s)
             w == Unescape(e.t)
         IN  IF u.ok /\ w.ok /\ u.labels = w.labels THEN "ok" ELSE "pres-mismatch"
    [] OTHER -> "unknown-event"

TInit == l = 1
TNext ==
  /\ l <= Len(Tr)
  /\ LET vd == Verdict(Tr[l])
     IN  IF vd = "ok" THEN TRUE
         ELSE Collect /\ PrintT(ToJson([unexplained |-> Tr[l].id, line |-> l, verdict |-> vd]))
  /\ l' = l + 1
TSpec == TInit /\ [][TNext]_l

Accepted == TLCGet("stats").diameter - 1 = Len(Tr)
=============================================================================
