----------------------------- MODULE NameParse -----------------------------
(***************************************************************************)
(* C02, design level: for EVERY byte string of length <= MaxLen over the   *)
(* adversarial alphabet and EVERY start offset, name decoding              *)
(*   - terminates (the cursor machine reaches a verdict within its fuel,   *)
(*     and the variant "lowest label start" strictly decreases at each     *)
(*     pointer jump),                                                      *)
(*   - never reads at an offset >= Len (nothing outside the buffer),       *)
(*   - never jumps forward (every jump target is below every offset at     *)
(*     which a label or pointer of the chain started),                     *)
(*   - and the cursor machine (NameCodec) agrees with the functional       *)
(*     reference DecodeName on verdict, labels and bytes consumed.         *)
(* The state space is the set of strings itself (built by appending one    *)
(* byte at a time so that TLC's workers share the enumeration).            *)
(*                                                                         *)
(* With Emit = TRUE every string is also printed with the reference        *)
(* verdicts for all offsets; the harness evaluates ares_dns_name_parse /   *)
(* ares_expand_name on the same strings and checks/c02.py compares.        *)
(***************************************************************************)
EXTENDS DnsWireName, TLC, Json

CONSTANTS MaxLen,      \* longest string
          Alphabet,    \* set of byte values
          Strict,      \* TRUE: the pointer rule of the reference; FALSE: the loose reading
          Emit         \* TRUE: print vectors

VARIABLE s

Init == s = <<>>
Next == /\ Len(s) < MaxLen
        /\ \E a \in Alphabet : s' = Append(s, a)

Spec == Init /\ [][Next]_s

Offsets == 0..Len(s)          \* Len(s) itself: decoding at the very end must fail cleanly

JumpsBackward(r) ==
  \A i \in 1..Len(r.jumps) :
     /\ r.jumps[i][2] < r.jumps[i][3]                \* target below lowest start so far
     /\ r.jumps[i][2] < r.jumps[i][1]                \* in particular below the pointer
     /\ (i > 1 => r.jumps[i][3] <= r.jumps[i - 1][2]) \* variant: low strictly decreases

Terminates == \A off \in Offsets : Run(s, off, Strict).done

InBounds == \A off \in Offsets : Run(s, off, Strict).maxread < Len(s)

NeverForward == \A off \in Offsets : JumpsBackward(Run(s, off, Strict))

Agree ==
  \A off \in Offsets :
    LET r == Run(s, off, Strict)
        d == NameWalk(s, off, off, <<>>, -1, 0, Strict)
    IN  /\ r.ok = d.ok
        /\ (d.ok => /\ r.labels = d.labels
                    /\ r.next = d.next
                    /\ d.next <= Len(s)
                    /\ d.next > off)

Verdict(off) ==
  LET d == DecodeName(s, off)
  IN  IF d.ok THEN <<1, d.next - off, d.labels, Pres(d.labels)>> ELSE <<0>>

EmitVec ==
  Emit => PrintT(ToJson([nv |-> s, r |-> [off \in 1..Len(s) |-> Verdict(off - 1)]]))
=============================================================================
