SPECIFICATION TSpec
CONSTANT Collect = FALSE
POSTCONDITION Accepted
CHECK_DEADLOCK FALSE
