SPECIFICATION TSpec
CONSTANT Collect = TRUE
POSTCONDITION Accepted
CHECK_DEADLOCK FALSE
