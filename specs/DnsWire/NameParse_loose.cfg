\* sensitivity of the model: with the loose pointer rule (target < pointer
\* position only) TLC must find a non-terminating / forward-running string
SPECIFICATION Spec
CONSTANTS
  MaxLen = 5
  Alphabet = {0, 1, 2, 97, 64, 128, 192, 193, 255}
  Strict = FALSE
  Emit = FALSE
INVARIANTS Terminates NeverForward
CHECK_DEADLOCK FALSE
