\* prints every string of the box with the reference verdict per offset
SPECIFICATION Spec
CONSTANTS
  MaxLen = 5
  Alphabet = {0, 1, 2, 97, 64, 128, 192, 193, 255}
  Strict = TRUE
  Emit = TRUE
INVARIANTS EmitVec
CHECK_DEADLOCK FALSE
