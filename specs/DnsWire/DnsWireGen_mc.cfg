\* self-check of the reference codec on all families, all layouts, all mutation kinds (no printing)
SPECIFICATION Spec
CONSTANTS
  Fams = {"types", "multi", "hdr", "names", "optend", "combo", "api"}
  MutKinds = {"trunc", "len", "rdlen", "ptr", "subst"}
  ComboN = 60
  Seed = 1
  Stride = 5
  Phase = 0
  FlagSet = {0}
  MutLays = {3, 5}
  AsCoded = FALSE
  Emit = FALSE
INVARIANTS RoundTrip WriterSound Total PresRoundTrip
CHECK_DEADLOCK FALSE
