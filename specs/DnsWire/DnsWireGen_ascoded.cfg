\* sensitivity of the NameWriter model: with the writer AS CODED (pointer field masked with
\* 0x3FFF; offsets relative to the output buffer, i.e. counting the 2-byte TCP length prefix)
\* TLC must find a record whose written bytes do not decode to the record
SPECIFICATION Spec
CONSTANTS
  Fams = {"multi", "big"}
  MutKinds = {}
  ComboN = 1
  Seed = 1
  Stride = 1
  Phase = 0
  FlagSet = {0}
  MutLays = {3, 5}
  AsCoded = TRUE
  Emit = FALSE
INVARIANTS WriterSound
CHECK_DEADLOCK FALSE
