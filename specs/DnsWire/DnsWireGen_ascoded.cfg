\* sensitivity of the NameWriter model: with the writer AS CODED (pointer field masked with
\* 0x3FFF; offsets relative to the output buffer, i.e. counting the 2-byte TCP length prefix)
\* TLC must find a record whose written bytes do not decode to the record
SPECIFICATION Spec
CONSTANTS
  Fams = {"multi", "big"}
  MutKinds = {}
  ComboN = 1
  Seed = 1
  Stride = 1
  Phase = 0
  SfxLen = 2
  XFlagSet = {0, 1, 2, 3, 4, 5, 6, 7, 8, 9, 10, 11, 12, 13, 14, 15, 16, 17, 18, 19, 20, 21, 22, 23, 24, 25, 26, 27, 28, 29, 30, 31, 32, 33, 34, 35, 36, 37, 38, 39, 40, 41, 42, 43, 44, 45, 46, 47, 48, 49, 50, 51, 52, 53, 54, 55, 56, 57, 58, 59, 60, 61, 62, 63}
  XFlagFams = {"types", "multi", "hdr", "optend"}
  XFlagLays = {2}
  FlagSet = {0}
  MutLays = {3, 5}
  AsCoded = TRUE
  Emit = FALSE
INVARIANTS WriterSound
CHECK_DEADLOCK FALSE
