----------------------------- MODULE DnsWireGen -----------------------------
(***************************************************************************)
(* Generator and self-check of the reference codec.                        *)
(*                                                                         *)
(* A state is one test vector: a base message Encode(rec, layout) of one   *)
(* of the record families below, or one systematic mutation of a base      *)
(* message.  TLC enumerates the vectors (Init: one root state per record;  *)
(* Layout: the base vectors of a record; Mutate: the mutations of a base   *)
(* vector) and, per vector,                                                *)
(*   - checks the codec on itself (RoundTrip: Decode(Encode(rec, lay))     *)
(*     returns exactly rec, with verdict WF exactly when the record and    *)
(*     the layout are inside the RFCs' rules; Total: Decode is defined on  *)
(*     every mutated byte string; PresRoundTrip: Unescape(Pres(n)) = n;    *)
(*     SizeLimit: 65535 octets is the largest message; FlagsSound: what    *)
(*     the six parse-flag bits mean, for all 64 combinations),             *)
(*   - prints (EmitVec) the bytes, the reference verdict and decoded       *)
(*     record for every requested parse-flag value, the reference name     *)
(*     decoding at the marked name offsets, and for base vectors the       *)
(*     abstract record itself (used by the harness to BUILD the record     *)
(*     through the public setters).                                        *)
(* Constants select families / mutation kinds / sampling stride so that    *)
(* the quick tier prints a few thousand vectors and the thorough tier all. *)
(***************************************************************************)
EXTENDS DnsWire, Json

CONSTANTS Fams,        \* subset of {"types","multi","hdr","names","optend","combo","api","sfx","big"}
          ComboN,      \* number of pseudo-random multi-RR records in family "combo"
          Seed,        \* seed of that family
          SfxLen,      \* family "sfx": all ordered triples of the names with 1..SfxLen labels over {a, b}
          MutKinds,    \* subset of {"trunc","subst","len","rdlen","ptr"}
          Stride,      \* substitutions only at offsets with off % Stride = Phase
          Phase,
          FlagSet,     \* parse-flag values for which the reference verdict is printed (every vector)
          XFlagSet,    \* parse-flag values printed in addition for the unmutated vectors of the families
          XFlagFams,   \*   XFlagFams in the layouts XFlagLays (the parse-flag dimension: all 64 combinations
          XFlagLays,   \*   of the six per-section ARES_DNS_PARSE_*_RAW bits, see FlagsSound)
          MutLays,     \* layouts (3: all names compressed, 5: also where RFC 3597 forbids) that get mutated
          Emit,        \* TRUE: print vectors
          AsCoded      \* TRUE: enumerate only the as-coded writer layouts (must violate WriterSound)

Alphabet == {0, 1, 2, 97, 64, 128, 192, 193, 255}

-----------------------------------------------------------------------------
(* labels and names                                                        *)
la   == <<97>>
lb   == <<98>>
lwww == <<119, 119, 119>>
lex  == <<101, 120>>
lEx  == <<69, 120>>                      \* case variant of "ex"
lcom == <<99, 111, 109>>
lorg == <<111, 114, 103>>
l1ex  == <<49>> \o lex                   \* "1ex": one character more than "ex"
lmyex == <<109, 121>> \o lex             \* "myex"
l62  == [i \in 1..62 |-> 122]
ldot == <<97, 46, 98>>                   \* "a.b" as ONE label
lbs  == <<97, 92, 98>>                   \* contains a backslash
lbsd == <<92, 49, 50, 51>>               \* backslash followed by digits
lres == <<34, 59, 40, 41, 64, 36>>       \* " ; ( ) @ $
lnp  == <<0, 7, 31, 127, 128, 255>>      \* non-printable classes
lsp  == <<32, 126, 45, 95, 42, 47>>      \* space ~ - _ * /
l63  == [i \in 1..63 |-> 120]
l61  == [i \in 1..61 |-> 121]

N0  == <<>>
N1  == <<lex, lcom>>
N2  == <<lwww, lex, lcom>>
N3  == <<la, lwww, lex, lcom>>
N4  == <<lb, lorg>>
N5  == <<lEx, lcom>>
N6  == <<ldot, lex, lcom>>
N7  == <<lbs, lbsd, lcom>>
N8  == <<lres, lnp, lsp>>
N9  == <<l63, l63, l63, l61>>            \* 255 octets on the wire
N10 == <<l63, lcom>>
N11 == <<la, lb, lorg>>

NamePool == <<N0, N1, N2, N3, N4, N5, N6, N7, N8, N9, N10, N11>>

-----------------------------------------------------------------------------
(* records                                                                 *)
Hdr(id, qr, opcode, aa, tc, rd, ra, z, ad, cd, rcode) ==
  [id |-> id, qr |-> qr, opcode |-> opcode, aa |-> aa, tc |-> tc, rd |-> rd,
   ra |-> ra, z |-> z, ad |-> ad, cd |-> cd, rcode |-> rcode]
StdHdr == Hdr(4660, 1, 0, 0, 0, 1, 1, 0, 0, 0, 0)
Msg(h, qd, an, ns, ar) == h @@ [qd |-> qd, an |-> an, ns |-> ns, ar |-> ar]
Q(name, t, c) == [name |-> name, qtype |-> t, qclass |-> c]
RR(name, type, class, ttl, rd) ==
  [name |-> name, type |-> type, class |-> class, ttl |-> ttl, rd |-> rd]
OptRR(udp, version, flags, options, rcode) ==
  RR(<<>>, TOPT, udp, <<((rcode \div 16) * 256) + version, flags>>,
     [k |-> "OPT", udp_size |-> udp, version |-> version, flags |-> flags, options |-> options])

T1 == <<0, 300>>
Str(n, c) == [i \in 1..n |-> c]

(* RR templates: every supported type with boundary / distinct-byte field  *)
(* values (so that swapped fields or byte orders are visible), names that  *)
(* share suffixes with the question name N2, escapes, empty options ...    *)
RRT == <<
  RR(N2, TA, 1, T1, [k |-> "A", addr |-> <<1, 2, 3, 4>>]),
  RR(N1, TA, 3, <<32767, 65535>>, [k |-> "A", addr |-> <<255, 0, 128, 7>>]),
  RR(N1, TNS, 1, T1, [k |-> "NS", name |-> N3]),
  RR(N2, TNS, 1, <<0, 0>>, [k |-> "NS", name |-> N0]),
  RR(N2, TCNAME, 1, T1, [k |-> "CNAME", name |-> N4]),
  RR(N6, TCNAME, 1, T1, [k |-> "CNAME", name |-> N7]),
  RR(N1, TSOA, 1, <<1, 0>>,
     [k |-> "SOA", mname |-> N2, rname |-> <<lb>> \o N1, serial |-> <<4660, 22136>>,
      refresh |-> <<0, 7200>>, retry |-> <<0, 258>>, expire |-> <<65535, 65535>>,
      minimum |-> <<0, 0>>]),
  RR(N2, TPTR, 1, T1, [k |-> "PTR", name |-> N3]),
  RR(N2, THINFO, 1, T1, [k |-> "HINFO", cpu |-> <<97, 32, 98>>, os |-> <<>>]),
  RR(N2, THINFO, 1, T1, [k |-> "HINFO", cpu |-> Str(255, 99), os |-> <<126>>]),
  RR(N2, TMX, 1, T1, [k |-> "MX", preference |-> 258, exchange |-> N3]),
  RR(N4, TMX, 1, T1, [k |-> "MX", preference |-> 0, exchange |-> N0]),
  RR(N2, TTXT, 1, T1, [k |-> "TXT", chunks |-> <<<<97, 98>>>>]),
  RR(N2, TTXT, 3, T1, [k |-> "TXT", chunks |-> <<<<>>, <<97>>, Str(255, 100)>>]),
  RR(N2, TTXT, 1, T1, [k |-> "TXT", chunks |-> <<<<0, 255, 34, 92>>>>]),
  RR(N2, TSIG, 255, T1,
     [k |-> "SIG", type_covered |-> 1, algorithm |-> 5, labels |-> 3,
      original_ttl |-> <<1, 2>>, expiration |-> <<3, 4>>, inception |-> <<5, 6>>,
      key_tag |-> 1800, signers_name |-> N1, signature |-> <<9, 10, 11>>]),
  RR(N2, TAAAA, 1, T1, [k |-> "AAAA", addr |-> [i \in 1..16 |-> i]]),
  RR(<<<<95, 115>>>> \o N1, TSRV, 1, T1,
     [k |-> "SRV", priority |-> 258, weight |-> 772, port |-> 1286, target |-> N3]),
  RR(N2, TSRV, 1, T1,
     [k |-> "SRV", priority |-> 0, weight |-> 65535, port |-> 53, target |-> N0]),
  RR(N2, TNAPTR, 1, T1,
     [k |-> "NAPTR", order |-> 258, preference |-> 772, flags |-> <<117>>,
      services |-> <<69, 50, 85>>, regexp |-> <<33, 97, 33, 98, 33>>, replacement |-> N0]),
  RR(N2, TNAPTR, 1, T1,
     [k |-> "NAPTR", order |-> 1, preference |-> 2, flags |-> <<>>,
      services |-> <<>>, regexp |-> <<>>, replacement |-> N1]),
  RR(<<<<95, 52, 52, 51>>>> \o N1, TTLSA, 1, T1,
     [k |-> "TLSA", cert_usage |-> 3, selector |-> 1, match |-> 2, data |-> <<222, 173, 190, 239>>]),
  RR(N2, TSVCB, 1, T1,
     [k |-> "SVCB", priority |-> 258, target |-> N0,
      params |-> <<<<1, <<2, 104, 50>>>>, <<3, <<1, 187>>>>>>]),
  RR(N2, TSVCB, 1, T1, [k |-> "SVCB", priority |-> 0, target |-> N1, params |-> <<>>]),
  RR(N2, THTTPS, 1, T1,
     [k |-> "HTTPS", priority |-> 1, target |-> N3,
      params |-> <<<<2, <<>>>>, <<4, <<192, 0, 2, 1>>>>, <<65535, <<0>>>>>>]),
  RR(N2, TURI, 1, T1,
     [k |-> "URI", priority |-> 258, weight |-> 772, target |-> <<102, 116, 112, 58, 47, 47, 120>>]),
  RR(N2, TCAA, 1, T1,
     [k |-> "CAA", critical |-> 128, tag |-> <<105, 115, 115, 117, 101>>,
      value |-> <<99, 97, 46, 120>>]),
  RR(N2, TCAA, 1, T1,
     [k |-> "CAA", critical |-> 0, tag |-> <<116>>, value |-> <<0, 255, 59>>]),
  RR(N2, 99, 1, T1, [k |-> "RAW", rtype |-> 99, data |-> <<1, 2, 3>>]),
  RR(N2, 65280, 7, T1, [k |-> "RAW", rtype |-> 65280, data |-> <<>>]),       \* empty RDATA
  RR(N4, 10, 1, T1, [k |-> "RAW", rtype |-> 10, data |-> <<192, 12>>]),
  RR(N2, TA, 254, <<0, 0>>, [k |-> "A", addr |-> <<0, 0, 0, 0>>]),
  \* value-less parameters (no-default-alpn, RFC 9460 7.1.1) between and after parameters with values
  RR(N2, TSVCB, 1, T1,
     [k |-> "SVCB", priority |-> 1, target |-> N3,
      params |-> <<<<1, <<2, 104, 50>>>>, <<2, <<>>>>, <<3, <<1, 187>>>>>>]),
  RR(N2, TSVCB, 1, T1,
     [k |-> "SVCB", priority |-> 2, target |-> N0, params |-> <<<<2, <<>>>>>>]),
  RR(N2, THTTPS, 1, T1,
     [k |-> "HTTPS", priority |-> 2, target |-> N0,
      params |-> <<<<1, <<2, 104, 51>>>>, <<3, <<1, 187>>>>, <<65280, <<>>>>>>])
>>

OptT == <<
  OptRR(1232, 0, 32768, <<>>, 0),
  OptRR(4096, 0, 0, <<<<10, <<1, 2, 3, 4, 5, 6, 7, 8>>>>>>, 0),
  OptRR(512, 1, 1, <<<<12, <<>>>>, <<3, <<97, 98>>>>>>, 0),
  OptRR(65535, 255, 65535, <<<<65001, <<255>>>>>>, 0),
  OptRR(1232, 0, 0, <<<<10, <<1, 2, 3, 4, 5, 6, 7, 8>>>>, <<65002, <<>>>>>>, 0)      \* empty option value last
>>

TypesRecs ==
  LET q == <<Q(N2, TA, 1)>>
  IN  [i \in 1..(3 * Len(RRT)) |->
         LET rr == RRT[((i - 1) \div 3) + 1]
             s  == (i - 1) % 3
         IN  Msg(StdHdr, q, IF s = 0 THEN <<rr>> ELSE <<>>, IF s = 1 THEN <<rr>> ELSE <<>>,
                 IF s = 2 THEN <<rr>> ELSE <<>>)]
     \o [i \in 1..Len(OptT) |-> Msg(StdHdr, q, <<>>, <<>>, <<OptT[i]>>)]

MultiRecs == <<
  \* typical answer: CNAME chain + addresses + authority + glue + OPT
  Msg(StdHdr, <<Q(N2, TA, 1)>>,
      <<RRT[5], RR(N4, TA, 1, T1, [k |-> "A", addr |-> <<10, 0, 0, 1>>])>>,
      <<RRT[3]>>, <<RR(N3, TA, 1, T1, [k |-> "A", addr |-> <<10, 0, 0, 2>>]), OptT[1]>>),
  \* nested suffix chain: N1, N2, N3 each extend the previous one
  Msg(StdHdr, <<Q(N1, TNS, 1)>>,
      <<RR(N1, TNS, 1, T1, [k |-> "NS", name |-> N2]), RR(N1, TNS, 1, T1, [k |-> "NS", name |-> N3])>>,
      <<>>, <<RR(N3, TA, 1, T1, [k |-> "A", addr |-> <<1, 1, 1, 1>>]),
              RR(N2, TAAAA, 1, T1, [k |-> "AAAA", addr |-> [i \in 1..16 |-> 255]])>>),
  \* names inside RDATA of non-RFC1035 types next to compressible ones
  Msg(StdHdr, <<Q(N2, TSRV, 1)>>, <<RRT[18], RRT[11]>>, <<RRT[7]>>, <<RRT[25], OptT[2]>>),
  \* case variants and escapes must not be merged
  Msg(StdHdr, <<Q(N1, TA, 1)>>,
      <<RR(N5, TCNAME, 1, T1, [k |-> "CNAME", name |-> N1]), RR(N6, TCNAME, 1, T1, [k |-> "CNAME", name |-> N7])>>,
      <<RR(N7, TNS, 1, T1, [k |-> "NS", name |-> N6])>>, <<>>),
  \* three RRs per section, unknown types in between
  Msg(StdHdr, <<Q(N4, 255, 255)>>,
      <<RRT[1], RRT[29], RRT[13]>>, <<RRT[3], RRT[30], RRT[7]>>, <<RRT[17], RRT[31], OptT[3]>>),
  \* 63-octet labels and a 255-octet name, repeated
  Msg(StdHdr, <<Q(N10, TA, 1)>>,
      <<RR(N10, TCNAME, 1, T1, [k |-> "CNAME", name |-> N9]),
        RR(N9, TA, 1, T1, [k |-> "A", addr |-> <<9, 9, 9, 9>>])>>, <<>>, <<>>),
  \* DNS UPDATE shaped message (opcode 5): zone, prerequisite, update
  Msg(Hdr(7, 0, 5, 0, 0, 0, 0, 0, 0, 0, 0), <<Q(N1, TSOA, 1)>>,
      <<>>, <<RR(N2, TA, 1, T1, [k |-> "A", addr |-> <<192, 0, 2, 1>>]),
              RR(N3, TTXT, 1, T1, [k |-> "TXT", chunks |-> <<<<117>>>>])>>, <<>>),
  \* pointer cycle hidden in opaque RDATA: with all names compressed the RDATA starts at offset 40 and
  \* holds 40: ->40, 42: ->40, 44: ->42; the "ptr" mutation retargets the next owner pointer into it
  \* (chain S -> 44 -> 42 -> 40 -> 40: every hop but the last strictly backward)
  Msg(StdHdr, <<Q(N2, TA, 1)>>,
      <<RR(N2, 99, 1, T1, [k |-> "RAW", rtype |-> 99, data |-> <<192, 40, 192, 40, 192, 42>>]),
        RR(N2, TA, 1, T1, [k |-> "A", addr |-> <<1, 2, 3, 4>>]),
        RR(N3, TNS, 1, T1, [k |-> "NS", name |-> N2])>>, <<>>, <<>>),
  \* names that END WITH an earlier name without being label aligned: one extra character ("1ex.com"
  \* after "ex.com", "ab.ex.com" / "xb.ex.com" after "b.ex.com") and more ("myex.com"); as owner names
  \* and in NS / CNAME / MX / SOA RDATA.  None of them may be written as a pointer to the earlier name.
  Msg(StdHdr, <<Q(N1, TNS, 1)>>,
      <<RR(N1, TNS, 1, T1, [k |-> "NS", name |-> <<l1ex, lcom>>]),
        RR(<<l1ex, lcom>>, TCNAME, 1, T1, [k |-> "CNAME", name |-> <<lb, lex, lcom>>]),
        RR(N1, TMX, 1, T1, [k |-> "MX", preference |-> 10, exchange |-> <<la \o lb, lex, lcom>>])>>,
      <<RR(N1, TSOA, 1, T1,
           [k |-> "SOA", mname |-> <<<<120>> \o lb, lex, lcom>>, rname |-> <<lmyex, lcom>>,
            serial |-> <<0, 1>>, refresh |-> <<0, 2>>, retry |-> <<0, 3>>, expire |-> <<0, 4>>,
            minimum |-> <<0, 5>>])>>,
      <<RR(<<<<50>> \o lex, lcom>>, TA, 1, T1, [k |-> "A", addr |-> <<1, 2, 3, 4>>]),
        RR(<<lmyex, lcom>>, TA, 1, T1, [k |-> "A", addr |-> <<5, 6, 7, 8>>])>>),
  \* the same overlaps one label further left, and with the longer name written FIRST
  Msg(StdHdr, <<Q(<<l1ex, lcom>>, TA, 1)>>,
      <<RR(<<l1ex, lcom>>, TCNAME, 1, T1, [k |-> "CNAME", name |-> N1]),
        RR(N1, TNS, 1, T1, [k |-> "NS", name |-> <<la, lb, lorg>>]),
        RR(N1, TNS, 1, T1, [k |-> "NS", name |-> <<lb \o la, lb, lorg>>]),
        RR(<<<<97, 97>>, lb, lorg>>, TPTR, 1, T1, [k |-> "PTR", name |-> <<lb, lorg>>])>>, <<>>, <<>>)
>>

FlagHdrs ==
  <<Hdr(0, 0, 0, 0, 0, 0, 0, 0, 0, 0, 0), Hdr(65535, 1, 0, 0, 0, 0, 0, 0, 0, 0, 0),
    Hdr(258, 0, 0, 1, 0, 0, 0, 0, 0, 0, 0), Hdr(258, 0, 0, 0, 1, 0, 0, 0, 0, 0, 0),
    Hdr(258, 0, 0, 0, 0, 1, 0, 0, 0, 0, 0), Hdr(258, 0, 0, 0, 0, 0, 1, 0, 0, 0, 0),
    Hdr(258, 0, 0, 0, 0, 0, 0, 1, 0, 0, 0), Hdr(258, 0, 0, 0, 0, 0, 0, 0, 1, 0, 0),
    Hdr(258, 0, 0, 0, 0, 0, 0, 0, 0, 1, 0)>>
  \o [o \in 1..15 |-> Hdr(1, 1, o, 0, 0, 0, 0, 0, 0, 0, 0)]
  \o [r \in 1..15 |-> Hdr(2, 1, 0, 0, 0, 0, 0, 0, 0, 0, r)]

HdrRecs ==
  [i \in 1..Len(FlagHdrs) |-> Msg(FlagHdrs[i], <<Q(N2, TA, 1)>>, <<>>, <<>>, <<>>)]
  \* extended rcodes need an OPT RR: BADVERS/BADSIG 16, BADCOOKIE 23, unassigned 24, 3841, max 4095
  \o [i \in 1..6 |->
        LET rc == <<16, 23, 24, 3841, 4095, 17>>[i]
        IN  Msg(Hdr(3, 1, 0, 0, 0, 0, 0, 0, 0, 0, rc), <<Q(N2, TA, 1)>>, <<>>, <<>>,
                <<OptRR(1232, 0, 0, <<>>, rc)>>)]
  \* EDNS options repeated with the same code (legal, RFC 6891 6.1.2)
  \o <<Msg(StdHdr, <<Q(N2, TA, 1)>>, <<>>, <<>>,
           <<OptRR(1232, 0, 0, <<<<12, <<0>>>>, <<10, <<1, 2, 3, 4, 5, 6, 7, 8>>>>, <<12, <<0, 0>>>>>>, 0)>>),
  \* question count 0 and 2 (outside the supported subset), odd qtype/qclass
       Msg(StdHdr, <<>>, <<RRT[1]>>, <<>>, <<>>),
       Msg(StdHdr, <<Q(N2, TA, 1), Q(N1, TNS, 1)>>, <<>>, <<>>, <<>>),
       Msg(StdHdr, <<Q(N2, 65535, 255)>>, <<>>, <<>>, <<>>),
       Msg(StdHdr, <<Q(N2, 99, 4)>>, <<>>, <<>>, <<>>),
       Msg(StdHdr, <<Q(N2, 0, 254)>>, <<>>, <<>>, <<>>),
       Msg(StdHdr, <<Q(N2, TA, 2)>>, <<>>, <<>>, <<>>)>>

NamesRecs ==
  [i \in 1..Len(NamePool) |->
     Msg(StdHdr, <<Q(NamePool[i], TA, 1)>>,
         <<RR(NamePool[i], TNS, 1, T1, [k |-> "NS", name |-> NamePool[((i + 4) % Len(NamePool)) + 1]])>>,
         <<>>, <<>>)]

(* Name families with shared label sequences in three and more positions.  *)
(* SfxU = every name of 1..SfxLen labels over the two labels a, b (2, 6,   *)
(* 14 names for SfxLen = 1, 2, 3).  For EVERY ordered triple (x, y, z) of  *)
(* SfxU one message whose names appear on the wire in the order            *)
(*    x  question            y  owner (answer)      z  NS RDATA            *)
(*    z  owner (authority)   y  MX RDATA            x  owner (additional)  *)
(*    z  SRV RDATA (never compressed, never a pointer target)              *)
(* so that every relation between an earlier and a later name occurs in    *)
(* every order: equal, suffix (b.a after a), prefix (b after b.a: the      *)
(* later name is a label PREFIX of an earlier one, nothing may be shared), *)
(* inner label sequence (a.b.a / b), common suffix with different heads,   *)
(* and chains of those (a, then b.a compressed against it, then b or a.b). *)
(* Whatever the layout, a name may only be replaced by a pointer to an     *)
(* earlier name that ENDS with it (RoundTrip, WriterSound).                *)
RECURSIVE SfxOfLen(_)
SfxOfLen(n) ==
  IF n = 1 THEN <<<<la>>, <<lb>>>>
  ELSE LET p == SfxOfLen(n - 1)
       IN  [i \in 1..(2 * Len(p)) |->
              <<IF i <= Len(p) THEN la ELSE lb>> \o p[((i - 1) % Len(p)) + 1]]
RECURSIVE SfxUpTo(_)
SfxUpTo(n) == IF n = 0 THEN <<>> ELSE SfxUpTo(n - 1) \o SfxOfLen(n)
SfxU == SfxUpTo(SfxLen)
SfxRec(x, y, z) ==
  Msg(StdHdr, <<Q(x, TNS, 1)>>,
      <<RR(y, TNS, 1, T1, [k |-> "NS", name |-> z])>>,
      <<RR(z, TMX, 1, T1, [k |-> "MX", preference |-> 1, exchange |-> y])>>,
      <<RR(x, TSRV, 1, T1, [k |-> "SRV", priority |-> 1, weight |-> 2, port |-> 3, target |-> z])>>)
SfxRecs ==
  LET n == Len(SfxU)
  IN  [i \in 1..(n * n * n) |->
         SfxRec(SfxU[((i - 1) \div (n * n)) + 1], SfxU[(((i - 1) \div n) % n) + 1], SfxU[((i - 1) % n) + 1])]

(* OPT as the very last thing in the message: option TLVs ending exactly   *)
(* at the buffer end; SVCB params likewise                                 *)
OptEndRecs == <<
  Msg(StdHdr, <<Q(N2, TA, 1)>>, <<>>, <<>>, <<OptRR(1232, 0, 0, <<<<10, <<1, 2, 3, 4, 5, 6, 7, 8>>>>>>, 0)>>),
  Msg(StdHdr, <<Q(N2, TA, 1)>>, <<>>, <<>>, <<OptRR(1232, 0, 0, <<<<12, <<>>>>>>, 0)>>),
  Msg(StdHdr, <<Q(N2, TA, 1)>>, <<>>, <<>>, <<OptRR(1232, 0, 0, <<<<3, <<97>>>>, <<12, <<0, 0, 0>>>>>>, 0)>>),
  Msg(StdHdr, <<Q(N2, THTTPS, 1)>>, <<>>, <<>>, <<RRT[25]>>),
  Msg(StdHdr, <<Q(N2, TTXT, 1)>>, <<>>, <<>>, <<RRT[14]>>)
>>

(* large messages: an opaque padding RR pushes a new name N4 to offset     *)
(* 36 + S, so S = 16347 / 16348 put it just below / at the 14-bit limit    *)
Pad(S) == RR(N1, 65281, 1, T1, [k |-> "RAW", rtype |-> 65281, data |-> Str(S, 170)])
BigRec(S) ==
  Msg(StdHdr, <<Q(N1, TA, 1)>>,
      <<Pad(S), RR(N4, TA, 1, T1, [k |-> "A", addr |-> <<1, 2, 3, 4>>]),
        RR(N11, TA, 1, T1, [k |-> "A", addr |-> <<5, 6, 7, 8>>])>>,
      <<RR(N1, TNS, 1, T1, [k |-> "NS", name |-> N4])>>, <<>>)
BigSizes == <<0, 1, 16346, 16347, 16348, 16349, 16400, 65000>>
(* the 16-bit message size limit (DnsWire!MaxMsgLen): messages of exactly  *)
(* 65534, 65535 and 65536 octets.  EdgeRec: one opaque RR with the root as *)
(* owner, 35 + S octets whatever the layout.  EdgeRec2: compressible names *)
(* and an OPT RR first, the padding RR LAST in the additional section:     *)
(* 85 + S octets as the NameWriter lays it out (layout 7), 107 + S octets  *)
(* without compression (layout 1).  EdgeLens states the intended lengths   *)
(* (checked: invariant EdgeExact).                                         *)
Pad0(S) == RR(N0, 65281, 1, T1, [k |-> "RAW", rtype |-> 65281, data |-> Str(S, 170)])
EdgeRec(S)  == Msg(StdHdr, <<Q(N1, TA, 1)>>, <<Pad0(S)>>, <<>>, <<>>)
EdgeRec2(S) ==
  Msg(StdHdr, <<Q(N1, TA, 1)>>,
      <<RR(N2, TCNAME, 1, T1, [k |-> "CNAME", name |-> N4])>>,
      <<RR(N1, TNS, 1, T1, [k |-> "NS", name |-> N3])>>,
      <<OptT[1], Pad0(S)>>)
EdgeSizes  == <<65499, 65500, 65501>>               \* 35 + S  = 65534, 65535, 65536
EdgeSizes2 == <<65449, 65450, 65451, 65428>>        \* 85 + S  = 65534, 65535, 65536;  107 + 65428 = 65535
EdgeLens ==        \* <<index in BigRecs, layout, length>>
  LET n == Len(BigSizes)
  IN  {<<n + i, l, 35 + EdgeSizes[i]>> : i \in 1..3, l \in {1, 7}}
      \cup {<<n + 3 + i, 7, 85 + EdgeSizes2[i]>> : i \in 1..4}
      \cup {<<n + 3 + i, 1, 107 + EdgeSizes2[i]>> : i \in 1..4}
BigRecs ==
  [i \in 1..Len(BigSizes) |-> BigRec(BigSizes[i])]
  \o [i \in 1..Len(EdgeSizes) |-> EdgeRec(EdgeSizes[i])]
  \o [i \in 1..Len(EdgeSizes2) |-> EdgeRec2(EdgeSizes2[i])]
  \o <<
    \* more than 65535 octets in total
    Msg(StdHdr, <<Q(N1, TA, 1)>>, <<Pad(40000), Pad(40000)>>, <<>>, <<>>),
    \* one RDATA longer than 65535 octets
    Msg(StdHdr, <<Q(N1, TTXT, 1)>>,
        <<RR(N1, TTXT, 1, T1, [k |-> "TXT", chunks |-> [i \in 1..300 |-> Str(255, 101)]])>>, <<>>, <<>>)
  >>

(* records for the BUILD direction whose faithful encoding does not exist  *)
(* or that probe API corner cases (the reference only supplies the record) *)
lnp63 == [i \in 1..63 |-> 1]
ApiRecs == <<
  \* extended rcode without an OPT RR to carry its upper bits
  Msg(Hdr(9, 1, 0, 0, 0, 0, 0, 0, 0, 0, 17), <<Q(N2, TA, 1)>>, <<>>, <<>>, <<>>),
  \* a legal name (135 octets) whose presentation form is longer than 511 characters, in RDATA
  \* of a type that does not use the offset list
  Msg(StdHdr, <<Q(N2, TSRV, 1)>>,
      <<RR(N2, TSRV, 1, T1, [k |-> "SRV", priority |-> 1, weight |-> 2, port |-> 3,
                             target |-> <<lnp63, lnp63, <<97, 1, 98, 99>>, lcom>>])>>, <<>>, <<>>),
  \* the same in RDATA of a compressible type, and as owner name
  Msg(StdHdr, <<Q(N2, TNS, 1)>>,
      <<RR(N2, TNS, 1, T1, [k |-> "NS", name |-> <<lnp63, lnp63, <<97, 1, 98, 99>>, lcom>>])>>, <<>>, <<>>),
  \* a label containing an escaped dot in front of a suffix that is already in the offset list
  Msg(StdHdr, <<Q(N1, TA, 1)>>,
      <<RR(N1, TNS, 1, T1, [k |-> "NS", name |-> <<<<97, 46, 101, 120>>, lcom>>]),
        RR(N1, TNS, 1, T1, [k |-> "NS", name |-> <<<<97, 46>>, lex, lcom>>])>>, <<>>, <<>>),
  \* 255-octet names, 63-octet labels, shared suffix with the 255-octet name
  Msg(StdHdr, <<Q(N9, TA, 1)>>,
      <<RR(N9, TCNAME, 1, T1, [k |-> "CNAME", name |-> <<l63, l63, l61>>]),
        RR(<<l63, l63, l61>>, TCNAME, 1, T1, [k |-> "CNAME", name |-> <<l63, l61>>])>>, <<>>, <<>>),
  \* a name whose last label merely ENDS with an earlier name's first label ("wwwex.com" after "ex.com")
  Msg(StdHdr, <<Q(N1, TNS, 1)>>,
      <<RR(N1, TNS, 1, T1, [k |-> "NS", name |-> <<lwww \o lex, lcom>>]),
        RR(<<lwww \o lex, lcom>>, TA, 1, T1, [k |-> "A", addr |-> <<1, 2, 3, 4>>])>>, <<>>, <<>>),
  \* boundary lengths: labels of 62 / 63 octets, names of 253 / 254 / 255 octets, in the question, as
  \* owner and in RDATA
  Msg(StdHdr, <<Q(<<l62, lcom>>, TA, 1)>>,
      <<RR(<<l62, lcom>>, TCNAME, 1, T1, [k |-> "CNAME", name |-> <<l63, l62, lcom>>]),
        RR(<<l63, l62, lcom>>, TCNAME, 1, T1, [k |-> "CNAME", name |-> <<l62, l63, lorg>>])>>, <<>>, <<>>),
  Msg(StdHdr, <<Q(<<l63, l63, l63, [i \in 1..59 |-> 121]>>, TA, 1)>>,
      <<RR(<<l63, l63, l63, [i \in 1..59 |-> 121]>>, TCNAME, 1, T1,
           [k |-> "CNAME", name |-> <<l63, l63, l63, [i \in 1..60 |-> 121]>>]),
        RR(<<l63, l63, l63, [i \in 1..60 |-> 121]>>, TMX, 1, T1, [k |-> "MX", preference |-> 1, exchange |-> N9]),
        RR(N9, TSRV, 1, T1, [k |-> "SRV", priority |-> 1, weight |-> 2, port |-> 3,
                             target |-> <<l62, l62, l62, l62>>])>>, <<>>, <<>>),
  \* maximal field values
  Msg(Hdr(65535, 1, 5, 1, 1, 1, 1, 0, 1, 1, 11), <<Q(N0, 65535, 255)>>,
      <<RR(N0, TA, 254, <<65535, 65535>>, [k |-> "A", addr |-> <<255, 255, 255, 255>>])>>, <<>>,
      <<OptRR(65535, 255, 65535, <<<<65535, Str(300, 7)>>>>, 11)>>)
>>

(* pseudo-random multi-RR records: 0..3 RRs per section from the templates *)
(* (all RR types), owner names from the hostname-safe part of the pool     *)
\* ... including names that end with another pool name without being label aligned ("1ex.com", "ab.org")
OwnerPool == <<N0, N1, N2, N3, N4, N5, N10, N11, <<l1ex, lcom>>, <<la \o lb, lorg>>>>
Lcg(x) == (x * 4093 + 577) % 65521
ComboRR(x) ==
  LET t == RRT[(x % Len(RRT)) + 1]
      o == (x \div 64) % (2 * Len(OwnerPool))
  IN  IF o < Len(OwnerPool) THEN [t EXCEPT !.name = OwnerPool[o + 1]] ELSE t
RECURSIVE ComboRRs(_, _)
ComboRRs(x, n) == IF n = 0 THEN <<>> ELSE <<ComboRR(x)>> \o ComboRRs(Lcg(x), n - 1)
ComboRec(i) ==
  LET x0 == Lcg((i * 7919 + Seed * 6007) % 65521)
      x1 == Lcg(x0)
      x2 == Lcg(x1)
      x3 == Lcg(x2)
      ar == ComboRRs(x3, (x0 \div 16) % 3)
  IN  Msg(Hdr(x0, 1, 0, x1 % 2, 0, 1, 1, 0, (x1 \div 2) % 2, 0, <<0, 0, 3, 2, 5>>[(x2 % 5) + 1]),
          <<Q(OwnerPool[(x1 % Len(OwnerPool)) + 1], <<1, 28, 15, 33, 255>>[(x3 % 5) + 1], 1)>>,
          ComboRRs(x1, x0 % 4), ComboRRs(x2, (x0 \div 4) % 4),
          IF (x0 \div 48) % 2 = 1 THEN ar \o <<OptT[(x3 % Len(OptT)) + 1]>> ELSE ar)
ComboRecs == [i \in 1..ComboN |-> ComboRec(i)]

FamRecs(f) ==
  CASE f = "types"  -> TypesRecs
    [] f = "multi"  -> MultiRecs
    [] f = "hdr"    -> HdrRecs
    [] f = "names"  -> NamesRecs
    [] f = "optend" -> OptEndRecs
    [] f = "combo"  -> ComboRecs
    [] f = "api"    -> ApiRecs
    [] f = "sfx"    -> SfxRecs
    [] f = "big"    -> BigRecs

-----------------------------------------------------------------------------
(* layouts                                                                 *)
RefLay(mask, pref, depth, rdcomp) ==
  [mode |-> "ref", mask |-> mask, pref |-> pref, depth |-> depth, rdcomp |-> rdcomp]

Lays(rec) ==
  LET n == NameCount(rec)
  IN  <<NoCompression,
        RefLay(0..(n - 1), "early", "long", FALSE),
        RefLay(0..(n - 1), "late", "long", FALSE),
        RefLay(0..(n - 1), "late", "short", FALSE),
        RefLay(0..(n - 1), "late", "long", TRUE),
        RefLay({i \in 0..(n - 1) : i % 2 = 1}, "early", "long", TRUE),
        WriterLay,
        \* AS CODED in c-ares 1.34.5 (sensitivity runs only, DnsWireGen_ascoded.cfg):
        [mode |-> "writer", base |-> 0, limit |-> FALSE],     \* 8: 14-bit field silently masked
        [mode |-> "writer", base |-> 2, limit |-> TRUE]>>     \* 9: offsets count the 2-byte TCP length

LayIds(f) == IF AsCoded THEN {8, 9} ELSE
             IF f \in {"big", "api"} THEN {1, 7} ELSE IF f \in {"hdr", "optend"} THEN {1, 2, 7}
             ELSE IF f = "combo" THEN {2, 3, 5, 7} ELSE IF f = "sfx" THEN {2, 4, 7} ELSE 1..7
\* which base vectors get mutated
MutLayIds(f) == IF f \in {"types", "multi", "names"} THEN MutLays
                ELSE IF f \in {"hdr", "optend"} THEN {2} ELSE {}

-----------------------------------------------------------------------------
(* mutations                                                               *)
Trunc(b, n)       == SubSeq(b, 1, n)
Subst(b, pos, v)  == [b EXCEPT ![pos + 1] = v]
RdlenGrow(b, lp)  ==         \* RDLENGTH+1 and one more byte inside the RDATA
  LET n == U16At(b, lp - 1)
  IN  SubSeq(b, 1, lp - 1) \o BE16((n + 1) % 65536) \o SubSeq(b, lp + 2, lp + 1 + n) \o <<0>> \o
      SubSeq(b, lp + 2 + n, Len(b))
RdlenShrink(b, lp) ==        \* RDLENGTH-1 and the last RDATA byte removed
  LET n == U16At(b, lp - 1)
  IN  IF n = 0 THEN b
      ELSE SubSeq(b, 1, lp - 1) \o BE16(n - 1) \o SubSeq(b, lp + 2, lp + n) \o
           SubSeq(b, lp + 2 + n, Len(b))

MarksOf(marks, kinds) == {marks[i][1] : i \in {j \in 1..Len(marks) : marks[j][2] \in kinds}}

Muts(b, marks) ==
  (IF "trunc" \in MutKinds THEN {[k |-> "trunc", pos |-> n, val |-> 0] : n \in 0..(Len(b) - 1)} ELSE {})
  \cup
  (IF "subst" \in MutKinds
   THEN {[k |-> "subst", pos |-> p, val |-> v] :
           p \in {x \in 0..(Len(b) - 1) : x % Stride = Phase}, v \in Alphabet}
   ELSE {})
  \cup
  (IF "len" \in MutKinds
   THEN {[k |-> "len", pos |-> p, val |-> d] :
           p \in MarksOf(marks, {"cnt", "label", "rdlen", "str", "tlv"}), d \in {1, 255}}
   ELSE {})
  \cup
  (IF "rdlen" \in MutKinds
   THEN {[k |-> "rdlen", pos |-> p, val |-> d] : p \in MarksOf(marks, {"rdlen"}), d \in {0, 1}}
   ELSE {})
  \cup
  (IF "ptr" \in MutKinds
   THEN {[k |-> "ptr", pos |-> p, val |-> t] :
           p \in MarksOf(marks, {"ptr"}),
           t \in {0, 12, Len(b), Len(b) - 1} \cup MarksOf(marks, {"ptr", "raw"})
                 \cup {q + 2 : q \in MarksOf(marks, {"ptr"})} \cup {q - 1 : q \in MarksOf(marks, {"ptr"})}}
   ELSE {})

ApplyMut(b, m) ==
  CASE m.k = "trunc" -> Trunc(b, m.pos)
    [] m.k = "subst" -> Subst(b, m.pos, m.val)
    [] m.k = "len"   -> Subst(b, m.pos, (b[m.pos + 1] + m.val) % 256)
    [] m.k = "rdlen" -> IF m.val = 1 THEN RdlenGrow(b, m.pos) ELSE RdlenShrink(b, m.pos)
    [] m.k = "ptr"   -> IF m.val >= 16384 THEN b
                        ELSE Subst(Subst(b, m.pos, 192 + (m.val \div 256)), m.pos + 1, m.val % 256)

-----------------------------------------------------------------------------
VARIABLE v      \* [fam, idx, lid, mut, bytes]

NoMut == [k |-> "none", pos |-> 0, val |-> 0]

BaseVec(f, i, l) ==
  LET rec == FamRecs(f)[i]
      st  == EncodeSt(rec, Lays(rec)[l])
  IN  [fam |-> f, idx |-> i, lid |-> l, mut |-> NoMut, bytes |-> st.out,
       encok |-> st.ok /\ RecEncodable(rec) /\ Len(st.out) <= 65535]

(* The initial states are "root" states, one per abstract record, that    *)
(* carry no bytes: TLC evaluates initial states and their invariants on    *)
(* one thread, successor states on all workers, so the encodings, the      *)
(* self-checks and the printing of the base vectors happen in Next.        *)
(* Root states are not vectors (EmitVec prints a marker for them).         *)
Root(f, i) == [fam |-> f, idx |-> i, lid |-> 0, mut |-> [k |-> "root", pos |-> 0, val |-> 0],
               bytes |-> <<>>, encok |-> FALSE]

Init == \E f \in Fams : \E i \in 1..Len(FamRecs(f)) : v = Root(f, i)

Layout ==            \* a record in one of its layouts: a base vector
  /\ v.mut.k = "root"
  /\ \E l \in LayIds(v.fam) : v' = BaseVec(v.fam, v.idx, l)

Mutate ==            \* one systematic mutation of a base vector
  /\ v.mut.k = "none"
  /\ v.lid \in MutLayIds(v.fam)
  /\ v.encok
  /\ LET rec == FamRecs(v.fam)[v.idx]
         st  == EncodeSt(rec, Lays(rec)[v.lid])
     IN  \E m \in Muts(st.out, st.marks) :
            v' = [v EXCEPT !.mut = m, !.bytes = ApplyMut(st.out, m)]

Next == Layout \/ Mutate

Spec == Init /\ [][Next]_v

-----------------------------------------------------------------------------
(* checks of the codec on itself                                           *)
RecOf(vec) == FamRecs(vec.fam)[vec.idx]
LayOf(vec) == Lays(RecOf(vec))[vec.lid]

(* inside the RFC rules and the supported subset? (independent of Decode)  *)
RRWF(rr) ==
  /\ rr.ttl[1] < 32768 \/ rr.rd.k = "OPT"
  /\ rr.type # 0
  /\ (rr.rd.k \notin {"RAW", "OPT"} =>
        rr.class \in (SupClassRR \cup (IF rr.type = TSIG THEN {255} ELSE {})))
  /\ (rr.rd.k = "CAA" => AllAlnum(rr.rd.tag) /\ rr.rd.value # <<>>)
RecWF(rec) ==
  /\ rec.z = 0 /\ rec.opcode \in SupOpcodes /\ Len(rec.qd) = 1
  /\ \A i \in 1..Len(rec.qd) : rec.qd[i].qclass \in SupClassQ
  /\ \A i \in 1..Len(rec.an) : RRWF(rec.an[i])
  /\ \A i \in 1..Len(rec.ns) : RRWF(rec.ns[i])
  /\ \A i \in 1..Len(rec.ar) : RRWF(rec.ar[i])

RoundTrip ==
  (v.mut.k = "none" /\ v.encok) =>
     LET d   == Decode(v.bytes)
         lay == LayOf(v)
         rfclay == lay.mode = "writer" \/ ~lay.rdcomp
     IN  /\ d.k # "Malformed"
         /\ d.rec = RecOf(v)
         /\ (d.k = "WF" => RecWF(RecOf(v)))
         /\ (rfclay /\ RecWF(RecOf(v)) => d.k = "WF")

(* the NameWriter model emits only pointers that decode to the written name *)
WriterSound ==
  (v.mut.k = "none" /\ LayOf(v).mode = "writer" /\ v.encok) =>
     LET d == Decode(v.bytes) IN d.k # "Malformed" /\ d.rec = RecOf(v)

Total == Decode(v.bytes).k \in {"WF", "Lenient", "Malformed"}

(* the message size limit: an encodable record whose encoding has at most  *)
(* 65535 octets decodes (RoundTrip); one octet more and the bytes are not  *)
(* a DNS message.  EdgeExact: the boundary vectors of family "big" have    *)
(* exactly the intended lengths (non-vacuity of the 65534/65535/65536      *)
(* cases).                                                                 *)
SizeLimit ==
  v.mut.k = "none" =>
     LET st == EncodeSt(FamRecs(v.fam)[v.idx], Lays(FamRecs(v.fam)[v.idx])[v.lid])
     IN  (st.ok /\ RecEncodable(FamRecs(v.fam)[v.idx])) =>
            /\ v.encok <=> Len(v.bytes) <= MaxMsgLen
            /\ (Decode(v.bytes).k = "Malformed") <=> (Len(v.bytes) > MaxMsgLen)
EdgeExact ==
  (v.fam = "big" /\ v.mut.k = "none") =>
     \A e \in EdgeLens : (e[1] = v.idx /\ e[2] = v.lid) => Len(v.bytes) = e[3]

(***************************************************************************)
(* The parse-flag dimension.  ares_dns_parse(buf, len, flags) takes six    *)
(* bits ARES_DNS_PARSE_{AN,NS,AR}_{BASE,EXT}_RAW; DnsWire!SelOf maps a     *)
(* flag value to the set of <<section, class>> pairs it selects, class     *)
(* "base" = the RFC 1035 types (names in RDATA may be compressed), "ext" = *)
(* every other type.  What the flags mean, stated independently of how     *)
(* DecodeSel is written, for a message that decodes without flags:         *)
(*  - the flags never change the verdict Malformed / not Malformed, the    *)
(*    questions, the header bits, or owner / type / class / TTL of any RR; *)
(*  - an RR comes back uninterpreted (RAW, with its own type number)       *)
(*    exactly when <<its section, the class of its type>> is selected, and *)
(*    comes back exactly as without flags otherwise -- a bit of one        *)
(*    section never affects another section, BASE never affects EXT types; *)
(*  - the upper 8 bits of the 12-bit rcode live in the OPT RR: they are    *)
(*    reported iff the OPT RR is interpreted, i.e. <<"ar","ext">> is not   *)
(*    selected.                                                            *)
(***************************************************************************)
FlagsOf(vec) ==
  IF vec.mut.k = "none" /\ vec.fam \in XFlagFams /\ vec.lid \in XFlagLays
  THEN FlagSet \cup XFlagSet ELSE FlagSet

HdrFields == {"id", "qr", "opcode", "aa", "tc", "rd", "ra", "z", "ad", "cd"}
ViewRRs(full, got, sect, sel) ==
  /\ Len(got) = Len(full)
  /\ \A i \in 1..Len(full) :
        IF <<sect, TypeClass(full[i].type)>> \in sel
        THEN /\ got[i].rd.k = "RAW" /\ got[i].rd.rtype = full[i].type
             /\ got[i].name = full[i].name /\ got[i].type = full[i].type
             /\ got[i].class = full[i].class /\ got[i].ttl = full[i].ttl
        ELSE got[i] = full[i]
FlagsSound ==
  (v.mut.k = "none" /\ v.encok) =>
     LET full == Decode(v.bytes).rec
     IN  \A fl \in FlagsOf(v) :
            LET sel == SelOf(fl)
                d   == DecodeSel(v.bytes, sel)
            IN  /\ d.k # "Malformed"
                /\ \A f \in HdrFields : d.rec[f] = full[f]
                /\ d.rec.qd = full.qd
                /\ ViewRRs(full.an, d.rec.an, "an", sel)
                /\ ViewRRs(full.ns, d.rec.ns, "ns", sel)
                /\ ViewRRs(full.ar, d.rec.ar, "ar", sel)
                /\ d.rec.rcode = IF <<"ar", "ext">> \in sel THEN full.rcode % 16 ELSE full.rcode

PresRoundTrip ==
  v.mut.k = "none" =>
    \A i \in 1..Len(NamePool) :
       LET u == Unescape(Pres(NamePool[i]))
       IN  u.ok /\ u.labels = NamePool[i]

-----------------------------------------------------------------------------
(* printing                                                                *)
PresQ(q) == [q EXCEPT !.name = Pres(q.name)]
PresRd(rd) ==
  CASE rd.k \in {"NS", "CNAME", "PTR"} -> [rd EXCEPT !.name = Pres(rd.name)]
    [] rd.k = "SOA" -> [rd EXCEPT !.mname = Pres(rd.mname), !.rname = Pres(rd.rname)]
    [] rd.k = "MX" -> [rd EXCEPT !.exchange = Pres(rd.exchange)]
    [] rd.k = "SIG" -> [rd EXCEPT !.signers_name = Pres(rd.signers_name)]
    [] rd.k \in {"SRV", "SVCB", "HTTPS"} -> [rd EXCEPT !.target = Pres(rd.target)]
    [] rd.k = "NAPTR" -> [rd EXCEPT !.replacement = Pres(rd.replacement)]
    [] OTHER -> rd
PresRR(rr) == [rr EXCEPT !.name = Pres(rr.name), !.rd = PresRd(rr.rd)]
PresRec(rec) ==
  [rec EXCEPT !.qd = [i \in 1..Len(rec.qd) |-> PresQ(rec.qd[i])],
              !.an = [i \in 1..Len(rec.an) |-> PresRR(rec.an[i])],
              !.ns = [i \in 1..Len(rec.ns) |-> PresRR(rec.ns[i])],
              !.ar = [i \in 1..Len(rec.ar) |-> PresRR(rec.ar[i])]]

DecOut(b, fl) ==
  LET d == DecodeSel(b, SelOf(fl))
  IN  IF d.k = "Malformed" THEN [fl |-> fl, k |-> d.k, why |-> d.why]
      ELSE [fl |-> fl, k |-> d.k, why |-> d.why, rec |-> PresRec(d.rec)]

NameOut(b, off) ==
  LET d == DecodeName(b, off)
  IN  IF d.ok /\ ~d.toolong THEN <<off, 1, d.next - off, Pres(d.labels)>>
      ELSE IF d.ok THEN <<off, 2>>      \* decodable but longer than 255 octets: no demand
      ELSE <<off, 0>>

(* offsets at which the harness also calls the name-level decoders: every  *)
(* offset of small messages, a sample for big ones                         *)
NameOffs(b) == 0..(Min2(Len(b), 80) - 1)

SetToSeq(S) == LET RECURSIVE F(_) F(T) == IF T = {} THEN <<>> ELSE LET x == SetMin(T) IN <<x>> \o F(T \ {x}) IN F(S)

EmitVec ==
  Emit =>
    IF v.mut.k = "root" THEN PrintT(ToJson([root |-> 1])) ELSE
    PrintT(ToJson(
      [fam |-> v.fam, idx |-> v.idx, lid |-> v.lid, mut |-> v.mut, nb |-> v.bytes,
       encok |-> v.encok,
       dec |-> LET fls == SetToSeq(FlagsOf(v)) IN [i \in 1..Len(fls) |-> DecOut(v.bytes, fls[i])],
       names |-> IF v.fam = "big" THEN <<>> ELSE
                 LET offs == SetToSeq(NameOffs(v.bytes))
                 IN  SelectSeq([i \in 1..Len(offs) |-> NameOut(v.bytes, offs[i])],
                               LAMBDA e : e[2] # 0)]   \* offsets not listed: reference rejects
      @@ (IF v.mut.k = "none"
          THEN [rec |-> PresRec(RecOf(v)), raw |-> RecOf(v),
                encinfo |-> LET st == EncodeSt(RecOf(v), LayOf(v))
                            IN  [rdlen_ok |-> st.ok, encodable |-> RecEncodable(RecOf(v)), len |-> Len(st.out)]]
          ELSE <<>>)
      @@ (IF v.mut.k = "none" /\ v.lid = 7
          THEN [ascoded |->
                  LET L == Len(v.bytes)
                      W(base) == Encode(RecOf(v), [mode |-> "writer", base |-> base, limit |-> FALSE])
                  IN  [plain |-> W(0), p0 |-> W(2), p1 |-> W(3), p2 |-> W(4), p37 |-> W(39), pframe |-> W(L + 4)]]
          ELSE <<>>)))
=============================================================================
