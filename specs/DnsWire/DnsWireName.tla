--------------------------- MODULE DnsWireName ---------------------------
(***************************************************************************)
(* Domain names on the wire and in presentation format, written from       *)
(* RFC 1035 (3.1 labels, 4.1.4 message compression, 5.1 presentation       *)
(* escapes), not from the c-ares sources.                                  *)
(*                                                                         *)
(* A message is a sequence of bytes (0..255).  Offsets are 0-based         *)
(* ("offset from the start of the message, i.e. the first octet of the ID  *)
(* field", RFC 1035 4.1.4); TLA+ sequences are 1-based, so byte at offset  *)
(* i is b[i+1].                                                            *)
(*                                                                         *)
(* Pointer rule.  RFC 1035 only says that a pointer refers to a "prior     *)
(* occurrence" of a name.  The reference adopts the STRICT reading that    *)
(* property C02 anchors ("pointer target must be strictly below the lowest *)
(* label start seen so far"): with `low` the lowest offset at which a      *)
(* label or pointer of the current chain started (including the pointer    *)
(* under consideration), a pointer is legal iff target < low.  Every       *)
(* encoder that points at label starts of genuinely earlier names          *)
(* satisfies it.  The LOOSE reading (target < offset of the pointer        *)
(* itself) is kept as DecodeNameLoose only to show (NameParse_loose.cfg)   *)
(* that it admits loops, i.e. that the strict rule is what gives           *)
(* termination.  Deliberate difference to c-ares: the reference also       *)
(* applies the 255-octet limit of RFC 1035 3.1 (field `toolong`); c-ares   *)
(* does not limit the expanded length on parse.  Names with toolong = TRUE *)
(* are classed Malformed by DnsWire!Decode, hence nothing is demanded of   *)
(* the implementation for them beyond C02 safety.                          *)
(***************************************************************************)
EXTENDS Integers, Sequences, FiniteSets

Min2(a, b) == IF a < b THEN a ELSE b

(* n bytes of b starting at 0-based offset off *)
Slice(b, off, n) == SubSeq(b, off + 1, off + n)

NameFail(why) == [ok |-> FALSE, why |-> why]

(***************************************************************************)
(* DecodeName(b, off): functional reference decoder.                       *)
(*   ok      name is decodable                                             *)
(*   labels  sequence of labels, each a non-empty sequence of bytes        *)
(*   next    offset of the first byte after the name in the original       *)
(*           stream (after the terminating 0 or after the first pointer)   *)
(*   wlen    length of the uncompressed wire form (sum(1+len)+1)           *)
(*   comp    TRUE iff at least one pointer was followed                    *)
(*   toolong wlen > 255                                                    *)
(***************************************************************************)
RECURSIVE NameWalk(_, _, _, _, _, _, _)
NameWalk(b, pos, low, acc, next, wl, strict) ==
  IF pos >= Len(b) THEN NameFail("name.truncated")
  ELSE
    LET c    == b[pos + 1]
        low2 == Min2(low, pos)
    IN  IF c = 0 THEN
          [ok |-> TRUE, labels |-> acc,
           next |-> IF next = -1 THEN pos + 1 ELSE next,
           wlen |-> wl + 1, comp |-> next # -1, toolong |-> wl + 1 > 255]
        ELSE IF c >= 192 THEN
          IF pos + 1 >= Len(b) THEN NameFail("name.pointer.truncated")
          ELSE
            LET tgt == (c - 192) * 256 + b[pos + 2]
                lim == IF strict THEN low2 ELSE pos
            IN  IF tgt >= lim THEN NameFail("name.pointer.notprior")
                ELSE NameWalk(b, tgt, low2, acc,
                              IF next = -1 THEN pos + 2 ELSE next, wl, strict)
        ELSE IF c >= 64 THEN NameFail("name.labeltype.reserved")
        ELSE IF pos + 1 + c > Len(b) THEN NameFail("name.label.truncated")
        ELSE NameWalk(b, pos + 1 + c, low2,
                      Append(acc, Slice(b, pos + 1, c)), next, wl + 1 + c, strict)

DecodeName(b, off) == NameWalk(b, off, off, <<>>, -1, 0, TRUE)

(***************************************************************************)
(* NameCodec cursor machine: the same decoder as an explicit sequence of   *)
(* steps with a fuel bound, so that "terminates", "never reads outside"    *)
(* and "never jumps forward" are checkable statements (NameParse.tla).     *)
(* A configuration is [pos, low]; Run returns the visited configurations   *)
(* summary:                                                                *)
(*   done     reached a verdict before fuel ran out                        *)
(*   ok       accepted                                                     *)
(*   maxread  highest offset read (-1 if nothing was read)                 *)
(*   jumps    sequence of <<from, to, low_before>> pointer jumps           *)
(*   labels, next  as DecodeName                                           *)
(***************************************************************************)
RECURSIVE RunWalk(_, _, _, _, _, _, _, _, _)
RunWalk(b, pos, low, acc, next, maxread, jumps, fuel, strict) ==
  IF fuel = 0 THEN
    [done |-> FALSE, ok |-> FALSE, maxread |-> maxread, jumps |-> jumps,
     labels |-> acc, next |-> next]
  ELSE IF pos >= Len(b) THEN
    [done |-> TRUE, ok |-> FALSE, maxread |-> maxread, jumps |-> jumps,
     labels |-> acc, next |-> next]
  ELSE
    LET c    == b[pos + 1]
        low2 == Min2(low, pos)
        mr1  == IF pos > maxread THEN pos ELSE maxread
    IN  IF c = 0 THEN
          [done |-> TRUE, ok |-> TRUE, maxread |-> mr1, jumps |-> jumps,
           labels |-> acc, next |-> IF next = -1 THEN pos + 1 ELSE next]
        ELSE IF c >= 192 THEN
          IF pos + 1 >= Len(b) THEN
            [done |-> TRUE, ok |-> FALSE, maxread |-> mr1, jumps |-> jumps,
             labels |-> acc, next |-> next]
          ELSE
            LET tgt == (c - 192) * 256 + b[pos + 2]
                mr2 == IF pos + 1 > mr1 THEN pos + 1 ELSE mr1
                lim == IF strict THEN low2 ELSE pos
            IN  IF tgt >= lim THEN
                  [done |-> TRUE, ok |-> FALSE, maxread |-> mr2, jumps |-> jumps,
                   labels |-> acc, next |-> next]
                ELSE RunWalk(b, tgt, low2, acc,
                             IF next = -1 THEN pos + 2 ELSE next, mr2,
                             Append(jumps, <<pos, tgt, low2>>), fuel - 1, strict)
        ELSE IF c >= 64 \/ pos + 1 + c > Len(b) THEN
          [done |-> TRUE, ok |-> FALSE, maxread |-> mr1, jumps |-> jumps,
           labels |-> acc, next |-> next]
        ELSE
          LET mr3 == IF pos + c > mr1 THEN pos + c ELSE mr1
          IN  RunWalk(b, pos + 1 + c, low2, Append(acc, Slice(b, pos + 1, c)),
                      next, mr3, jumps, fuel - 1, strict)

(* Fuel: every step either consumes >= 1 byte going up or jumps strictly   *)
(* below everything visited so far; 2*Len+2 steps are more than enough for *)
(* the strict rule (each offset is a label start at most once).            *)
Run(b, off, strict) ==
  RunWalk(b, off, off, <<>>, -1, -1, <<>>, 2 * Len(b) + 2, strict)

-----------------------------------------------------------------------------
(***************************************************************************)
(* Wire encoding of a name given as labels.                                *)
(***************************************************************************)
RECURSIVE LabelsWire(_)
LabelsWire(ls) ==
  IF ls = <<>> THEN <<>>
  ELSE <<Len(Head(ls))>> \o Head(ls) \o LabelsWire(Tail(ls))

NameWireLit(ls) == LabelsWire(ls) \o <<0>>
NameWireLen(ls) == Len(NameWireLit(ls))

ValidLabel(l) == Len(l) >= 1 /\ Len(l) <= 63 /\ \A i \in 1..Len(l) : l[i] \in 0..255
ValidName(ls) == (\A i \in 1..Len(ls) : ValidLabel(ls[i])) /\ NameWireLen(ls) <= 255

(* the suffix of ls that starts at label index k+1 (k labels dropped) *)
DropLabels(ls, k) == SubSeq(ls, k + 1, Len(ls))

-----------------------------------------------------------------------------
(***************************************************************************)
(* Presentation format (RFC 1035 5.1): "\X" quotes any non-digit X, "\DDD" *)
(* is the octet with decimal value DDD, an unquoted "." separates labels.  *)
(* Which octets get quoted is a writer's choice; the policy here is the    *)
(* zone-file one: everything outside printable ASCII as \DDD, and the      *)
(* characters with a meaning in master files ( " . ; \ ( ) @ $ ) as \X.    *)
(***************************************************************************)
IsPrint(c) == c >= 32 /\ c <= 126
IsDigit(c) == c >= 48 /\ c <= 57
ReservedCh == {34, 46, 59, 92, 40, 41, 64, 36}

EscByte(c) ==
  IF ~IsPrint(c) THEN <<92, 48 + (c \div 100), 48 + ((c % 100) \div 10), 48 + (c % 10)>>
  ELSE IF c \in ReservedCh THEN <<92, c>>
  ELSE <<c>>

RECURSIVE PresLabel(_)
PresLabel(l) == IF l = <<>> THEN <<>> ELSE EscByte(Head(l)) \o PresLabel(Tail(l))

RECURSIVE Pres(_)
Pres(ls) ==
  IF ls = <<>> THEN <<>>
  ELSE IF Len(ls) = 1 THEN PresLabel(ls[1])
  ELSE PresLabel(Head(ls)) \o <<46>> \o Pres(Tail(ls))

(***************************************************************************)
(* Unescape(s): presentation string (sequence of character codes) to       *)
(* labels.  A single trailing "." is allowed, "" and "." are the root.     *)
(***************************************************************************)
RECURSIVE UnescWalk(_, _, _, _)
UnescWalk(s, i, cur, acc) ==
  IF i > Len(s) THEN
    IF cur = <<>> THEN
      (* empty trailing label: fine only directly after a separator or for "" *)
      [ok |-> TRUE, labels |-> acc]
    ELSE [ok |-> TRUE, labels |-> Append(acc, cur)]
  ELSE
    LET c == s[i] IN
    IF c = 46 THEN
      IF cur = <<>> THEN
        IF acc = <<>> /\ Len(s) = 1 THEN [ok |-> TRUE, labels |-> <<>>]
        ELSE [ok |-> FALSE, labels |-> <<>>]
      ELSE UnescWalk(s, i + 1, <<>>, Append(acc, cur))
    ELSE IF c = 92 THEN
      IF i + 1 > Len(s) THEN [ok |-> FALSE, labels |-> <<>>]
      ELSE IF IsDigit(s[i + 1]) THEN
        IF i + 3 > Len(s) \/ ~IsDigit(s[i + 2]) \/ ~IsDigit(s[i + 3])
          THEN [ok |-> FALSE, labels |-> <<>>]
        ELSE
          LET v == (s[i + 1] - 48) * 100 + (s[i + 2] - 48) * 10 + (s[i + 3] - 48)
          IN  IF v > 255 THEN [ok |-> FALSE, labels |-> <<>>]
              ELSE UnescWalk(s, i + 4, Append(cur, v), acc)
      ELSE UnescWalk(s, i + 2, Append(cur, s[i + 1]), acc)
    ELSE UnescWalk(s, i + 1, Append(cur, c), acc)

Unescape(s) == UnescWalk(s, 1, <<>>, <<>>)

=============================================================================
