\* prints vectors (template; checks write their own copy with the tier's constants)
SPECIFICATION Spec
CONSTANTS
  Fams = {"types", "multi", "hdr", "names", "optend", "combo", "api", "sfx"}
  MutKinds = {"trunc", "len", "rdlen", "ptr", "subst"}
  ComboN = 60
  Seed = 1
  Stride = 5
  Phase = 0
  SfxLen = 2
  XFlagSet = {0, 1, 2, 3, 4, 5, 6, 7, 8, 9, 10, 11, 12, 13, 14, 15, 16, 17, 18, 19, 20, 21, 22, 23, 24, 25, 26, 27, 28, 29, 30, 31, 32, 33, 34, 35, 36, 37, 38, 39, 40, 41, 42, 43, 44, 45, 46, 47, 48, 49, 50, 51, 52, 53, 54, 55, 56, 57, 58, 59, 60, 61, 62, 63}
  XFlagFams = {"types", "multi", "hdr", "optend"}
  XFlagLays = {2}
  FlagSet = {0, 63}
  MutLays = {3, 5}
  AsCoded = FALSE
  Emit = TRUE
INVARIANTS EmitVec
CHECK_DEADLOCK FALSE
