\* prints vectors (template; checks write their own copy with the tier's constants)
SPECIFICATION Spec
CONSTANTS
  Fams = {"types", "multi", "hdr", "names", "optend", "combo", "api"}
  MutKinds = {"trunc", "len", "rdlen", "ptr", "subst"}
  ComboN = 60
  Seed = 1
  Stride = 5
  Phase = 0
  FlagSet = {0, 63}
  MutLays = {3, 5}
  AsCoded = FALSE
  Emit = TRUE
INVARIANTS EmitVec
CHECK_DEADLOCK FALSE
