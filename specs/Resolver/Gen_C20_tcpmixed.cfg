CONSTANTS
  Cfgs <- C20TcpCfgs
  WAlpha = {}
  WLen = 0
  ChunkSizes = {1, 3, 44, 100}
  SplitMax = 420
  Batch = {1}
  Mode = "tcpmixed"
INIT GInit
NEXT GNext
INVARIANT Emit
CHECK_DEADLOCK FALSE
