CONSTANTS
  Fds = {}
  UdpMaxC = 0
SPECIFICATION TSpec
POSTCONDITION Consumed
CHECK_DEADLOCK FALSE
