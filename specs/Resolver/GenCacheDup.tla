----------------------------- MODULE GenCacheDup -----------------------------
(* Cache histories with several requests for one key outstanding together and all answered (the cache then receives
   the same key more than once), another cached name, then an event that must empty or expire the cache (server-list
   change, reinit, time beyond the lifetimes) and the same questions again: none may be answered without traffic.  *)
EXTENDS Naturals, Sequences, FiniteSets, TLC, Json
CONSTANTS Pairs, Flushes, Ttls, Ttls2
VARIABLES pair, fl, ttl, ttl2, done
Q(t, api, name) == [op |-> api, t |-> t, name |-> name, qt |-> 1]
R(k) == [op |-> "reply", tx |-> "name:n", kind |-> "ok", ttl |-> k]      \* to the latest unanswered transmission
First == CASE pair = "qq" -> <<Q(1, "query", "n1.test"), Q(2, "query", "n1.test")>>
           [] pair = "ql" -> <<Q(1, "query", "n1.test"), Q(2, "lquery", "n1.test")>>
           [] pair = "qcase" -> <<Q(1, "query", "n1.test"), Q(2, "query", "N1.TEST")>>
           [] pair = "qqq" -> <<Q(1, "query", "n1.test"), Q(2, "query", "n1.test"), Q(3, "send", "n1.test")>>
(* the answers to the requests for one key may carry different TTLs (ttl2 for all but the first answer given): the
   entry that stays must live by its own TTLs, not by those of the answer it replaced; "timemid" ends between the two
   lifetimes *)
Answers == [i \in 1..Len(First) |-> R(IF i = 1 THEN ttl ELSE ttl2)]
MaxT == IF ttl > ttl2 THEN ttl ELSE ttl2
MinT == IF ttl < ttl2 THEN ttl ELSE ttl2
Flush == CASE fl = "setadd" -> <<[op |-> "setservers", csv |-> "10.0.0.1,10.0.0.2"]>>
           [] fl = "reinit" -> <<[op |-> "reinit"]>>
           [] fl = "time" -> <<[op |-> "adv", ms |-> 1000 * MaxT + 1000]>>
           [] fl = "timemid" -> <<[op |-> "adv", ms |-> 1000 * MinT + 1000]>>
           [] fl = "none" -> <<>>
Hist == First \o Answers \o <<Q(7, "query", "n2.test"), R(MaxT + 100)>> \o Flush
        \o <<Q(8, "query", "n1.test"), Q(9, "query", "n2.test")>>
GInit == pair \in Pairs /\ fl \in Flushes /\ ttl \in Ttls /\ ttl2 \in Ttls2 /\ done = FALSE
GNext == ~done /\ done' = TRUE /\ UNCHANGED <<pair, fl, ttl, ttl2>>
Emit == PrintT(ToJson([cfg |-> [nsrv |-> 1, tries |-> 2, timeout |-> 1000, seed |-> 1, qcache |-> 3600], steps |-> Hist]))
=============================================================================
