CONSTANTS
  Cfgs <- C17LateCfgs
  Kinds = {"s1", "s2"}
  Advances = {}
  Extras = {"srcip", "pending", "latereply"}
  MaxReq = 3
  MaxLen = 6
INIT GInit
NEXT GNext
INVARIANT Emit
CHECK_DEADLOCK FALSE
