------------------------------ MODULE Accept ------------------------------
(* Facet "response acceptance" of the c-ares resolver contract (property C05).

   Abstract state: for every live wire query its id, exact question (with the
   letter case that was transmitted), the connection and server it is currently
   assigned to, its transport and the client cookie it carried; and the set of
   packets that were AUTHENTIC when the library read them, i.e. that arrived on
   the query's current connection, from that server's address, with the query's
   current id and exactly its question (case-sensitively when 0x20 randomisation
   is on and the query went over UDP), and whose cookie, if any, is well formed
   and echoes the client cookie.

   The property: data delivered to any callback, and any "server succeeded"
   credit, must come from an authentic packet.                               *)
EXTENDS Naturals, Integers, Sequences, FiniteSets, TLC

VARIABLES acfg,    \* configuration (dns0x20 ...)
          afd,     \* fd -> [srv, tcp]
          aq,      \* qid -> [t, lname, name, qt, fd, tcp, ck]
          auth,    \* pid -> [t, lname, qt, srv]   packets that were authentic when read
          areq,    \* token -> [lname, qt]        what each request asked for
          credit,  \* srv -> number of authentic packets read from it in the current processing call
          unauth   \* pid -> reason, for packets that were NOT authentic when read

avars == <<acfg, afd, aq, auth, areq, credit, unauth>>

AInit == /\ acfg = [dns0x20 |-> 0] /\ afd = <<>> /\ aq = <<>> /\ auth = <<>> /\ areq = <<>> /\ credit = <<>> /\ unauth = <<>>

SameQuestionA(rec, p) ==
  /\ p.qt = rec.qt /\ p.qc = rec.qc
  /\ IF acfg.dns0x20 = 1 /\ ~rec.tcp THEN p.name = rec.name ELSE p.lname = rec.lname

CookieWellFormed(rec, p) ==
  \/ p.clen = 0
  \/ /\ p.clen >= 8 /\ p.clen <= 40
     /\ (rec.ck # "" => p.ck = rec.ck)       \* echoes the client cookie of the query

(* p was read from descriptor fd (fromok: its source address is the server's) *)
Authentic(fd, p) ==
  /\ p.parse = 1
  /\ p.fromok = 1
  /\ p.qid \in DOMAIN aq
  /\ aq[p.qid].fd = fd                        \* the connection the query is currently assigned to
  /\ SameQuestionA(aq[p.qid], p)
  /\ CookieWellFormed(aq[p.qid], p)

(* why a packet read from fd is not authentic (used to name the violated clause) *)
WhyNot(fd, p) ==
  IF p.parse = 0 THEN "unparsable"
  ELSE IF p.fromok = 0 THEN "wrong_source_address"
  ELSE IF p.qid \notin DOMAIN aq THEN "no_live_query_with_that_id"
  ELSE IF ~SameQuestionA(aq[p.qid], p) THEN "wrong_question"
  ELSE IF ~CookieWellFormed(aq[p.qid], p) THEN "bad_cookie"
  ELSE IF aq[p.qid].fd # fd THEN "not_current_connection"
  ELSE "other"

(* a delivered datum with marker m (= 8 * packet id + index) given to request t *)
DeliveryOk(t, m) ==
  LET pid == m \div 8 IN
  /\ pid \in DOMAIN auth
  /\ \/ auth[pid].t = t
     \/ (t \in DOMAIN areq /\ auth[pid].lname = areq[t].lname /\ auth[pid].qt = areq[t].qt /\ auth[pid].qc = areq[t].qc)   \* replayed from the cache
=============================================================================
