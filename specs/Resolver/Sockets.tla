----------------------------- MODULE Sockets -----------------------------
(* Facet "socket protocol" of the c-ares resolver contract (property C10).

   Abstract state per descriptor ever issued by the (virtual) socket layer:
   open/closed, transport, what interest was last announced to the application,
   whether a "stop watching" notification is still owed, how many datagrams it
   carried, whether a connect or a partial write is pending.  Library-side
   actions are the socket-layer calls and the socket-state notifications; the
   environment decides the results of the calls.  A call boundary (Outer return)
   is where the quiescence clauses of C10 are evaluated.                       *)
EXTENDS Naturals, Sequences, FiniteSets, TLC

CONSTANTS Fds,        \* descriptors (model checking only)
          UdpMaxC     \* per-socket query limit used by the stand-alone model (0 = unlimited)

VARIABLES sock,      \* fd -> record (see NewSock)
          udpmax,    \* configured limit (0 = none)
          chanS      \* "up" | "destroyed"

svars == <<sock, udpmax, chanS>>

NewSock(tcp) == [st |-> "open", tcp |-> tcp, annR |-> 0, annW |-> 0, watched |-> FALSE, stopped |-> FALSE,
                 nsend |-> 0, connecting |-> FALSE, wpending |-> FALSE, ncloses |-> 0]

Open == {fd \in DOMAIN sock : sock[fd].st = "open"}

SInit == /\ sock = <<>>
         /\ udpmax = UdpMaxC
         /\ chanS = "up"

(* ---- library-side actions ------------------------------------------------ *)
CanOpen(fd) == chanS = "up" /\ fd \notin DOMAIN sock
DoOpen(fd, tcp) == /\ sock' = sock @@ (fd :> NewSock(tcp))
                   /\ UNCHANGED <<udpmax, chanS>>

IsOpen(fd) == fd \in DOMAIN sock /\ sock[fd].st = "open"

(* connect: res "ok" (udp), "inprogress" (tcp), "tfo" (deferred to first write), "err" *)
DoConnect(fd, res) == /\ sock' = [sock EXCEPT ![fd].connecting = (res = "inprogress")]
                      /\ UNCHANGED <<udpmax, chanS>>

(* send: res ok with n of len bytes accepted | wb | err *)
UdpLimitOk(fd) == sock[fd].tcp \/ udpmax = 0 \/ sock[fd].nsend < udpmax
DoSend(fd, res, n, len) ==
  /\ sock' = [sock EXCEPT ![fd].nsend = IF res = "ok" THEN @ + 1 ELSE @,
                          ![fd].wpending = (res = "wb") \/ (res = "ok" /\ n < len),
                          ![fd].connecting = IF res = "ok" THEN FALSE ELSE @]
  /\ UNCHANGED <<udpmax, chanS>>

DoRecv(fd, res) == /\ sock' = [sock EXCEPT ![fd].connecting = IF res = "ok" THEN FALSE ELSE @]
                   /\ UNCHANGED <<udpmax, chanS>>

(* socket-state notification *)
CanAnnounce(fd, r, w) ==
  /\ IsOpen(fd)
  /\ ~sock[fd].stopped                                  \* nothing after "stop watching"
  /\ ((r = 0 /\ w = 0) => sock[fd].watched)               \* stop only if told to watch
DoAnnounce(fd, r, w) ==
  /\ sock' = [sock EXCEPT ![fd].annR = r, ![fd].annW = w,
                          ![fd].watched = (r = 1 \/ w = 1),
                          ![fd].stopped = (r = 0 /\ w = 0)]
  /\ UNCHANGED <<udpmax, chanS>>

CanClose(fd) == IsOpen(fd) /\ ~sock[fd].watched          \* told to stop before the descriptor goes away
DoClose(fd) == /\ sock' = [sock EXCEPT ![fd].st = "closed", ![fd].ncloses = @ + 1]
               /\ UNCHANGED <<udpmax, chanS>>

(* ---- call boundaries ------------------------------------------------------ *)
(* when an outermost API call returns, whoever has to wait for socket events has been told *)
WatchedWhenNeeded ==
  \A fd \in Open : /\ (sock[fd].nsend > 0 => sock[fd].annR = 1)
                   /\ ((sock[fd].wpending \/ sock[fd].connecting) => sock[fd].annW = 1)
CanOuterRet == WatchedWhenNeeded
CanDestroyRet == Open = {}
DoDestroyRet == chanS' = "destroyed" /\ UNCHANGED <<sock, udpmax>>

(* descriptor sets of the legacy polling calls (ares_fds / ares_getsock): nq = outstanding requests *)
Matter(nq) == {fd \in Open : nq > 0 \/ sock[fd].tcp}
WantWrite(nq) == {fd \in Matter(nq) : sock[fd].annW = 1}
FdsExact(nq, fdr, fdw) == fdr = Matter(nq) /\ fdw = WantWrite(nq)
GetsockExact(nq, gsr, gsw) ==
  IF Cardinality(Matter(nq)) <= 16 THEN gsr = Matter(nq) /\ gsw = WantWrite(nq)
  ELSE gsr \subseteq Matter(nq) /\ Cardinality(gsr) = 16 /\ gsw \subseteq WantWrite(nq)

(* ---- stand-alone model ------------------------------------------------------ *)
SNext ==
  \/ \E fd \in Fds, tcp \in BOOLEAN : CanOpen(fd) /\ DoOpen(fd, tcp)
  \/ \E fd \in Fds : IsOpen(fd) /\ sock[fd].nsend = 0 /\ DoConnect(fd, IF sock[fd].tcp THEN "inprogress" ELSE "ok")
  \/ \E fd \in Fds, res \in {"ok", "wb", "err"}, n \in {1, 2} :
        IsOpen(fd) /\ chanS = "up" /\ (res = "ok" => UdpLimitOk(fd)) /\ DoSend(fd, res, n, 2)
  \/ \E fd \in Fds, r \in {0, 1}, w \in {0, 1} : CanAnnounce(fd, r, w) /\ DoAnnounce(fd, r, w)
  \/ \E fd \in Fds : CanClose(fd) /\ DoClose(fd)
  \/ chanS = "up" /\ CanDestroyRet /\ DoDestroyRet

Bounded == \A fd \in DOMAIN sock : sock[fd].nsend <= 3

(* ---- the property ------------------------------------------------------------ *)
ClosedOnce == \A fd \in DOMAIN sock : sock[fd].ncloses <= 1 /\ (sock[fd].st = "closed" <=> sock[fd].ncloses = 1)
NoneSurviveDestroy == chanS = "destroyed" => Open = {}
UdpLimit == \A fd \in DOMAIN sock : (~sock[fd].tcp /\ udpmax > 0) => sock[fd].nsend <= udpmax
StopExactlyOnceIffWatched == \A fd \in DOMAIN sock : sock[fd].st = "closed" => ~sock[fd].watched
=============================================================================
