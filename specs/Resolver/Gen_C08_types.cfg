CONSTANTS
  Cfgs <- C08TypeCfgs
  Variants = {"s1", "s1t99", "s1t100", "s1txt", "s1txtch", "s1ch"}
  Kinds = {"ok60", "nx"}
  Advances = {}
  Extras = {}
  MaxReq = 3
  MaxLen = 5
INIT GInit
NEXT GNext
INVARIANT Emit
CHECK_DEADLOCK FALSE
