------------------------------ MODULE Gen_C06 ------------------------------
EXTENDS EnvGen
C06Cfgs == { [nsrv |-> 1, tries |-> 2, timeout |-> 1000, seed |-> 1],
             [nsrv |-> 2, tries |-> 2, timeout |-> 400, maxtimeout |-> 600, seed |-> 2],
             [nsrv |-> 3, tries |-> 1, timeout |-> 2000, seed |-> 3, rotate |-> 1],
             [nsrv |-> 1, tries |-> 2, timeout |-> 3000, maxtimeout |-> 1000, seed |-> 5],
             [nsrv |-> 1, tries |-> 3, timeout |-> 100, maxtimeout |-> 150, seed |-> 6],
             [nsrv |-> 2, tries |-> 3, timeout |-> 100, seed |-> 4, edns |-> 1, retrychance |-> 1, retrydelay |-> 0] }
=============================================================================
