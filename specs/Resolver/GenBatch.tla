------------------------------ MODULE GenBatch ------------------------------
(* Histories in which ONE processing call reads several datagrams: two requests
   outstanding on the same connection(s), a socket fault possibly armed, then a
   batch of replies (one per request, either order, every kind) delivered
   together, then the remaining deadlines.  The completion callback of a
   request may start a new request (whose transmission hits the armed fault).
   What is owed after the batch -- retransmissions, completions, timers --
   must all be settled when the processing call returns.                     *)
EXTENDS Naturals, Sequences, FiniteSets, TLC, Json
CONSTANTS Cfgs, Kinds, Faults, Nests,
          Copies     \* how many identical copies of the first reply of the batch are delivered
VARIABLES cfg, n1, n2, fault, k1, k2, order, cp, done
Name(t) == "n" \o ToString(t) \o ".test"
Tx(t) == "name:n" \o ToString(t) \o "."
Q(t, nest) == LET b == [op |-> "query", t |-> t, name |-> Name(t), qt |-> 1] IN
              IF nest = "query" THEN b @@ [nest |-> [op |-> "query", t |-> 100 + t, name |-> Name(100 + t), qt |-> 1]]
              ELSE IF nest = "cancel" THEN b @@ [nest |-> [op |-> "cancel"]]
              ELSE IF nest = "setservers" THEN b @@ [nest |-> [op |-> "setservers", csv |-> "10.0.0.2"]] ELSE b
R(t, k, deliver) == [op |-> "reply", tx |-> Tx(t), kind |-> k] @@ (IF deliver = 0 THEN [deliver |-> 0] @@ (IF cp > 1 THEN [copies |-> cp] ELSE <<>>) ELSE <<>>)
F == IF fault = "none" THEN <<>> ELSE <<[op |-> "failnext", what |-> fault, errno |-> 111]>>
Tmo == <<[op |-> "adv", to |-> "deadline"], [op |-> "process"]>>
Hist == <<Q(1, n1), Q(2, n2)>> \o F
        \o (IF order = 1 THEN <<R(1, k1, 0), R(2, k2, 1)>> ELSE <<R(2, k2, 0), R(1, k1, 1)>>)
        \o <<[op |-> "drain"]>> \o Tmo \o Tmo      \* drain: connections that became writable (TCP retries) are written
GInit == /\ cfg \in Cfgs /\ n1 \in Nests /\ n2 \in Nests /\ fault \in Faults /\ k1 \in Kinds /\ k2 \in Kinds /\ order \in {1, 2} /\ cp \in Copies
         /\ done = FALSE
GNext == ~done /\ done' = TRUE /\ UNCHANGED <<cfg, n1, n2, fault, k1, k2, order, cp>>
Emit == PrintT(ToJson([cfg |-> cfg, steps |-> Hist]))
BatchCfgs == { [nsrv |-> 1, tries |-> 3, timeout |-> 1000, seed |-> 1],
               [nsrv |-> 1, tries |-> 1, timeout |-> 1000, seed |-> 4],      \* every failure is final: completions from inside the requeue loops
               [nsrv |-> 2, tries |-> 2, timeout |-> 1000, seed |-> 2],
               [nsrv |-> 2, tries |-> 2, timeout |-> 1000, seed |-> 3, edns |-> 1, stayopen |-> 1] }
=============================================================================
