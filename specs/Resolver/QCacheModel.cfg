CONSTANTS
  MaxTtl = 10
INIT MInit
NEXT MNext
INVARIANTS NothingWhenDisabled OnlyGoodAnswers LifetimeBounded HitWithinLifetime
CHECK_DEADLOCK FALSE
