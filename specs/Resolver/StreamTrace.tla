--------------------------- MODULE StreamTrace ---------------------------
(* Trace validation against Stream.tla (C20). *)
EXTENDS Stream, Json, IOUtils

Tr == ndJsonDeserialize(IOEnv.TRACE)
VARIABLES l, bad, why, hid, ncall, wr, sticky
(* ncall: number of request calls so far; wr: fds reported writable in the processing call in progress and not yet written to;
   sticky: answers that were complete after a read that returned less than was asked for -- the library has no reason to
   read again before processing them, so they stay owed even if a later read on that connection fails *)
tvars == <<zvars, l, bad, why, hid, ncall, wr, sticky>>
xv == <<ncall, wr, sticky>>

Rej(label) == /\ bad' = TRUE /\ why' = [line |-> l, label |-> label] /\ UNCHANGED <<zvars, xv>>
Acc == UNCHANGED <<bad, why>>
Skip == UNCHANGED <<zvars, xv, bad, why>>
Stop == /\ bad' = TRUE /\ why' = [line |-> l, label |-> ""] /\ UNCHANGED <<zvars, xv>>
ToSet(s) == {s[i] : i \in 1..Len(s)}
Without(f, S) == [x \in (DOMAIN f) \ S |-> f[x]]

RECURSIVE NoteFrames(_, _, _, _)
NoteFrames(qq, frames, i, fd) ==
  IF i > Len(frames) THEN qq
  ELSE LET f == frames[i]
           old == IF f.qid \in DOMAIN qq THEN qq[f.qid].ntx ELSE 0
           rec == [t |-> f.t, lname |-> f.lname, name |-> f.name, qt |-> f.qt, qc |-> f.qc, fd |-> fd, tcp |-> tfd[fd].tcp, ntx |-> old + 1]
       IN NoteFrames(IF f.qid \in DOMAIN qq THEN [qq EXCEPT ![f.qid] = rec] ELSE qq @@ (f.qid :> rec), frames, i + 1, fd)

BadFrame(frames) == \E i \in 1..Len(frames) : frames[i].bad = 1
UdpInsteadOfTcp(e) == \E i \in 1..Len(e.frames) : e.frames[i].qid \in mustTcp /\ e.tcp = 0
(* first transmissions on one TCP connection arrive in the order the requests were made *)
OutOfOrder(e) ==
  /\ e.tcp = 1
  /\ \E i \in 1..Len(e.frames) :
        LET f == e.frames[i] IN
        /\ f.qid \notin DOMAIN tq /\ f.t \in DOMAIN cseq
        /\ \/ cseq[f.t] < tfd[e.fd].lastseq
           \/ \E j \in 1..(i - 1) : e.frames[j].qid \notin DOMAIN tq /\ e.frames[j].t \in DOMAIN cseq /\ cseq[e.frames[j].t] > cseq[f.t]
MaxSeq(e) ==
  LET S == {cseq[e.frames[i].t] : i \in {j \in 1..Len(e.frames) : e.frames[j].t \in DOMAIN cseq}} \cup {tfd[e.fd].lastseq}
  IN CHOOSE m \in S : \A x \in S : x <= m

HSend(e) ==
  IF e.fd \notin DOMAIN tfd \/ tfd[e.fd].srv = 0 THEN Skip
  ELSE IF e.res = "ok" /\ BadFrame(e.frames) THEN Rej("c20.malformed_frame_at_server")
  ELSE IF e.res = "ok" /\ e.tcp = 0 /\ \E i \in 1..Len(e.frames) : e.frames[i].mlen # e.frames[i].len
       THEN Rej("c20.datagram_is_not_exactly_one_message")
  ELSE IF e.res = "ok" /\ UdpInsteadOfTcp(e) THEN Rej("c20.truncated_answer_not_retried_over_tcp")
  ELSE IF e.res = "ok" /\ OutOfOrder(e) THEN Rej("c20.queued_queries_out_of_order")
  ELSE /\ tq' = IF e.res = "ok" THEN NoteFrames(tq, e.frames, 1, e.fd) ELSE tq
       /\ tfd' = [tfd EXCEPT ![e.fd].wpend = (e.res = "wb" \/ (e.tcp = 1 /\ e.res = "ok" /\ e.n < e.len)),
                             ![e.fd].err = @ \/ (e.res = "err"),
                             ![e.fd].lastseq = IF e.res = "ok" THEN MaxSeq(e) ELSE @]
       /\ mustTcp' = IF e.res = "ok" /\ e.tcp = 1 THEN mustTcp \ {e.frames[i].qid : i \in 1..Len(e.frames)} ELSE mustTcp
       /\ wr' = wr \ {e.fd}
       /\ UNCHANGED <<tcfg, due, got, cseq, ncall, sticky>> /\ Acc

(* consume every message that is now complete on a TCP connection *)
RECURSIVE Complete(_, _, _)
Complete(fd, pks, avail) ==      \* returns <<remaining messages, remaining bytes, set of final qids, some complete message unparsable>>
  IF Len(pks) = 0 \/ avail < pks[1].slen THEN <<pks, avail, {}, FALSE>>
  ELSE LET rest == Complete(fd, Tail(pks), avail - pks[1].slen)
       IN <<rest[1], rest[2], (IF FinalAnswer(fd, pks[1]) THEN {pks[1].qid} ELSE {}) \cup rest[3], rest[4] \/ pks[1].parse = 0>>

HRecv(e) ==
  IF e.fd \notin DOMAIN tfd \/ tfd[e.fd].srv = 0 THEN Skip
  ELSE IF e.res \in {"err", "eof"} THEN      \* connection failure: its queries are requeued, answers on it are moot
       tfd' = [tfd EXCEPT ![e.fd].err = TRUE] /\ UNCHANGED <<tcfg, tq, due, got, mustTcp, cseq, xv>> /\ Acc
  ELSE IF e.res # "ok" THEN Skip
  ELSE IF ~tfd[e.fd].tcp THEN
       IF e.fromok = 0 THEN Skip
       ELSE IF e.parse = 0 /\ e.len > 0 THEN tfd' = [tfd EXCEPT ![e.fd].err = TRUE] /\ UNCHANGED <<tcfg, tq, due, got, mustTcp, cseq, xv>> /\ Acc
       ELSE IF Truncated(e.fd, e) THEN mustTcp' = mustTcp \cup {e.qid} /\ UNCHANGED <<tcfg, tfd, tq, due, got, cseq, xv>> /\ Acc
       ELSE IF FinalAnswer(e.fd, e) THEN due' = due \cup {e.qid} /\ got' = got \cup {e.qid} /\ UNCHANGED <<tcfg, tfd, tq, mustTcp, cseq, xv>> /\ Acc
       ELSE Skip
  ELSE LET r == Complete(e.fd, tfd[e.fd].pk, tfd[e.fd].inb + e.n) IN
       /\ tfd' = [tfd EXCEPT ![e.fd].pk = r[1], ![e.fd].inb = r[2], ![e.fd].err = @ \/ r[4]]
       /\ due' = due \cup r[3] /\ got' = got \cup r[3]
       /\ sticky' = IF e.n < e.cap THEN sticky \cup r[3] ELSE sticky
       /\ UNCHANGED <<tcfg, tq, mustTcp, cseq, ncall, wr>> /\ Acc

HCbb(e) ==
  LET ids == {id \in DOMAIN tq : tq[id].t = e.t} IN
  IF tcfg.edns = 0 /\ e.rec = 1 /\ e.rcode \in {0, 3} /\ "legacy" \notin DOMAIN e /\ e.rid \in DOMAIN tq /\ tq[e.rid].t = e.t /\ e.rid \notin got /\ e.st \in {"SUCCESS", "ENODATA", "ENOTFOUND"}
  THEN Rej(IF e.tcflag = 1 THEN "c20.truncated_answer_delivered" ELSE "c20.answer_delivered_before_it_was_complete")
  \* a request whose UDP answer was truncated ends without ever having been sent over TCP (and no TCP connection attempt failed)
  ELSE IF e.st \notin {"ECANCELLED", "EDESTRUCTION"} /\ ids \cap mustTcp # {} /\ ~tcfg.tcpfail
  THEN Rej("c20.truncated_answer_not_retried_over_tcp")
  ELSE /\ due' = due \ ids /\ got' = got \ ids /\ mustTcp' = mustTcp \ ids
       /\ tq' = Without(tq, ids)
       /\ UNCHANGED <<tcfg, tfd, cseq, xv>> /\ Acc

HRet(e) ==
  IF e.depth # 0 THEN Skip
  ELSE IF due # {} THEN Rej("c20.complete_answer_not_delivered")
  ELSE IF e.api = "process" /\ \E fd \in wr : fd \in DOMAIN tfd /\ tfd[fd].open /\ tfd[fd].wpend THEN Rej("c20.pending_bytes_not_flushed_when_writable")
  ELSE IF \E fd \in DOMAIN tfd : tfd[fd].open /\ tfd[fd].wpend /\ tfd[fd].annw = 0 THEN Rej("c20.partial_write_without_write_interest")
  ELSE wr' = {} /\ UNCHANGED <<zvars, ncall, sticky>> /\ Acc

HCall(e) ==
  IF e.api = "process" THEN wr' = ToSet(e.w) /\ UNCHANGED <<zvars, ncall, sticky>> /\ Acc
  ELSE IF e.api \in {"query", "send", "lquery", "lsend"} THEN
       /\ cseq' = cseq @@ (e.t :> ncall + 1) /\ ncall' = ncall + 1 /\ UNCHANGED sticky
       /\ UNCHANGED <<tcfg, tfd, tq, due, got, mustTcp, wr>> /\ Acc
  ELSE IF e.api \in {"cancel", "destroy", "pendwrite"} THEN Skip
  ELSE Stop

HSk(e) ==
  CASE e.op = "open" /\ e.res = "ok" -> /\ tfd' = tfd @@ (e.fd :> [tcp |-> (e.tcp = 1), srv |-> 0, inb |-> 0, pk |-> <<>>, wpend |-> FALSE, lastseq |-> 0, annw |-> 0, open |-> TRUE, err |-> FALSE])
                                        /\ UNCHANGED <<tcfg, tq, due, got, mustTcp, cseq, xv>> /\ Acc
    [] e.op = "connect" /\ e.res # "err" /\ e.fd \in DOMAIN tfd -> tfd' = [tfd EXCEPT ![e.fd].srv = e.srv] /\ UNCHANGED <<tcfg, tq, due, got, mustTcp, cseq, xv>> /\ Acc
    [] e.op = "send" -> HSend(e)
    [] e.op = "recv" -> HRecv(e)
    [] (e.op = "open" /\ e.res = "err" /\ e.tcp = 1) \/ (e.op \in {"connect", "getsockname"} /\ e.res = "err" /\ e.fd \in DOMAIN tfd /\ tfd[e.fd].tcp) ->
         tcfg' = [tcfg EXCEPT !.tcpfail = TRUE] /\ UNCHANGED <<tfd, tq, due, got, mustTcp, cseq, xv>> /\ Acc
    [] e.op = "close" /\ e.fd \in DOMAIN tfd ->
         \* queries on a closed connection are requeued: nothing is owed for answers that were on it
         LET ids == IF tfd[e.fd].err THEN {id \in DOMAIN tq : tq[id].fd = e.fd} \ sticky ELSE {} IN
         /\ due' = due \ ids /\ tfd' = [tfd EXCEPT ![e.fd].open = FALSE]
         /\ UNCHANGED <<tcfg, tq, got, mustTcp, cseq, xv>> /\ Acc
    [] OTHER -> Skip

Handle(e) ==
  CASE e.e = "init" -> tcfg' = e @@ [tcpfail |-> FALSE] /\ UNCHANGED <<tfd, tq, due, got, mustTcp, cseq, xv>> /\ Acc
    [] e.e = "call" -> HCall(e)
    [] e.e = "sk" -> HSk(e)
    [] e.e = "env" -> IF e.op = "stream" /\ e.fd \in DOMAIN tfd
                      THEN tfd' = [tfd EXCEPT ![e.fd].pk = Append(@, e)] /\ UNCHANGED <<tcfg, tq, due, got, mustTcp, cseq, xv>> /\ Acc
                      ELSE Skip      \* the peer closing the stream shows as end-of-stream on a later read
    [] e.e = "ann" -> IF e.fd \in DOMAIN tfd THEN tfd' = [tfd EXCEPT ![e.fd].annw = e.w] /\ UNCHANGED <<tcfg, tq, due, got, mustTcp, cseq, xv>> /\ Acc ELSE Skip
    [] e.e = "cbb" -> HCbb(e)
    [] e.e = "ret" -> HRet(e)
    [] e.e = "crash" -> Rej("c20.crash." \o e.sum)     \* a sanitizer report or abnormal end inside a history of this family
    [] OTHER -> Skip

Verdict == [verdict |-> IF bad /\ why.label # "" THEN "REJ" ELSE "ACC", id |-> hid, line |-> why.line, label |-> why.label]
TInit == ZInit /\ ncall = 0 /\ wr = {} /\ sticky = {} /\ l = 1 /\ bad = FALSE /\ why = [line |-> 0, label |-> ""] /\ hid = ""
TNext ==
  /\ l <= Len(Tr) /\ l' = l + 1
  /\ LET e == Tr[l] IN
       IF e.e = "reset" THEN
            /\ (hid # "" => PrintT(ToJson(Verdict)))
            /\ tcfg' = [igntc |-> 0, tcpfail |-> FALSE] /\ tfd' = <<>> /\ tq' = <<>> /\ due' = {} /\ got' = {} /\ mustTcp' = {} /\ cseq' = <<>>
            /\ ncall' = 0 /\ wr' = {} /\ sticky' = {}
            /\ bad' = FALSE /\ why' = [line |-> 0, label |-> ""] /\ hid' = e.id
       ELSE hid' = hid /\ (IF bad THEN Skip ELSE Handle(e))
TSpec == TInit /\ [][TNext]_tvars
=============================================================================
