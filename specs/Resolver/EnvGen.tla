------------------------------ MODULE EnvGen ------------------------------
(* Generator of environment histories for the cares_sim harness.

   A history is a channel configuration plus a sequence of environment steps
   (API calls -- some of them made from inside completion callbacks --, server
   replies of every kind addressed to "the latest transmission of request t",
   virtual-time advances to the next deadline, socket faults, cancel).  TLC
   enumerates ALL histories up to MaxLen over the chosen alphabet (BFS) or
   samples long ones (-simulate); every distinct history is printed once as
   JSON and replayed against the real library; the channel is destroyed at the
   end of every history, so every prefix also tests destruction at that point.

   The generator keeps a small over-approximation of what can be outstanding so
   that steps that could not have any effect are not generated.               *)
EXTENDS Naturals, Sequences, FiniteSets, TLC, Json

CONSTANTS Cfgs,      \* set of channel configurations (records)
          Apis,      \* request entry points to use
          Nests,     \* what a completion callback does: "none" | "cancel" | "query" | "send" | "search" | "gai"
          Kinds,     \* reply kinds
          Faults,    \* socket operations that can be made to fail once: "socket","connect","sendto","recvfrom"
          Extras,    \* extra steps: "cancel","timeout","setservers","dup","process"
          MaxReq, MaxLen

VARIABLES cfg, h, nreq, live

gvars == <<cfg, h, nreq, live>>

Name(t) == "n" \o ToString(t) \o ".test"
Tx(t) == "name:n" \o ToString(t) \o "."

NestStep(n, t) ==
  CASE n = "cancel" -> [op |-> "cancel"]
    [] n = "setservers" -> [op |-> "setservers", csv |-> "10.0.0.2"]     \* the callback replaces the server list
    [] n = "query" -> [op |-> "query", t |-> 100 + t, name |-> Name(100 + t), qt |-> 1]
    [] n = "send" -> [op |-> "send", t |-> 100 + t, name |-> Name(100 + t), qt |-> 1]
    [] n = "search" -> [op |-> "search", t |-> 100 + t, name |-> Name(100 + t), qt |-> 1]
    [] n = "gai" -> [op |-> "gai", t |-> 100 + t, name |-> Name(100 + t), family |-> 0]
    [] n = "querycancel" -> [op |-> "query", t |-> 100 + t, name |-> Name(100 + t), qt |-> 1, nest |-> [op |-> "cancel"]]

ReqStep(api, n, t) ==
  LET base == IF api \in {"ghba", "gni"} THEN [op |-> api, t |-> t, addr |-> t, family |-> 4]
              ELSE IF api \in {"gai"} THEN [op |-> api, t |-> t, name |-> Name(t), family |-> 0]
              ELSE IF api \in {"ghbn"} THEN [op |-> api, t |-> t, name |-> Name(t), family |-> 4]
              ELSE [op |-> api, t |-> t, name |-> Name(t), qt |-> 1]
  IN IF n = "none" THEN base ELSE base @@ [nest |-> NestStep(n, t)]

GInit == /\ cfg \in Cfgs
         /\ h = <<>>
         /\ nreq = 0
         /\ live = {}

NewReq == /\ nreq < MaxReq
          /\ \E api \in Apis, n \in Nests :
               /\ h' = Append(h, ReqStep(api, n, nreq + 1))
               /\ live' = live \cup {nreq + 1} \cup (IF n \in {"none", "cancel", "setservers"} THEN {} ELSE {100 + nreq + 1})
          /\ nreq' = nreq + 1
          /\ UNCHANGED cfg

(* composite reply kinds: a base kind plus a modifier understood by the harness *)
KindStep(t, k) ==
  LET b == [op |-> "reply", tx |-> Tx(t)] IN
  CASE k = "wrongid" -> b @@ [kind |-> "ok", wrongid |-> 1]
    [] k = "wrongname" -> b @@ [kind |-> "ok", wrongname |-> 1]
    [] k = "wrongtype" -> b @@ [kind |-> "ok", wrongtype |-> 1]
    [] k = "wrongaddr" -> b @@ [kind |-> "ok", wrongaddr |-> 1]
    [] k = "flipcase" -> b @@ [kind |-> "ok", flipcase |-> 1]
    [] k = "stale_ok" -> b @@ [kind |-> "ok", nth |-> 1]      \* reply to the FIRST transmission of the request
    [] k = "dup_ok" -> b @@ [kind |-> "ok", copies |-> 2]
    [] k = "formerr_noopt" -> b @@ [kind |-> "formerr", noopt |-> 1]
    [] k = "nx_nosoa" -> b @@ [kind |-> "nx", soa |-> 0]
    [] k = "ok_ttl0" -> b @@ [kind |-> "ok", ttl |-> 0]
    [] k = "ok_ttl5" -> b @@ [kind |-> "ok", ttl |-> 5]
    [] k = "ok_srvcookie" -> b @@ [kind |-> "ok", cookie |-> "srv:S1"]
    [] k = "ok_srvcookie2" -> b @@ [kind |-> "ok", cookie |-> "srv:S2"]
    [] k = "ok_nocookie" -> b @@ [kind |-> "ok", cookie |-> "none"]
    [] k = "ok_wrongclient" -> b @@ [kind |-> "ok", cookie |-> "wrongclient:S9"]
    [] k = "badcookie_srv" -> b @@ [kind |-> "badcookie", cookie |-> "srv:S3"]
    [] OTHER -> b @@ [kind |-> k]

(* two datagrams read by one processing call: the first queued without processing *)
BatchSteps(t, k) ==
  LET b == [op |-> "reply", tx |-> Tx(t)] IN
  CASE k = "batch_tc_flipcase" -> <<b @@ [kind |-> "tc", deliver |-> 0], b @@ [kind |-> "ok", flipcase |-> 1]>>
    [] k = "batch_formerr_wrongname" -> <<b @@ [kind |-> "formerr", noopt |-> 1, deliver |-> 0], b @@ [kind |-> "ok", wrongname |-> 1]>>
    [] k = "batch_servfail_ok" -> <<b @@ [kind |-> "servfail", deliver |-> 0], b @@ [kind |-> "ok"]>>
    [] k = "batch_ok_ok" -> <<b @@ [kind |-> "ok", deliver |-> 0], b @@ [kind |-> "ok"]>>
IsBatch(k) == k \in {"batch_tc_flipcase", "batch_formerr_wrongname", "batch_servfail_ok", "batch_ok_ok"}
Reply == /\ \E t \in live, k \in Kinds : h' = (IF IsBatch(k) THEN h \o BatchSteps(t, k) ELSE Append(h, KindStep(t, k)))
         /\ UNCHANGED <<cfg, nreq, live>>

Timeout == /\ "timeout" \in Extras /\ live # {}
           /\ h' = h \o <<[op |-> "adv", to |-> "deadline"], [op |-> "process"]>>
           /\ UNCHANGED <<cfg, nreq, live>>

Cancel == /\ "cancel" \in Extras /\ live # {}
          /\ h' = Append(h, [op |-> "cancel"])
          /\ live' = {t \in live : t > 100}   \* nested requests may be started by the cancel callbacks
          /\ UNCHANGED <<cfg, nreq>>

LastOp == IF Len(h) = 0 THEN "" ELSE h[Len(h)].op
Fault == /\ LastOp # "failnext"
         /\ \E f \in Faults : h' = Append(h, [op |-> "failnext", what |-> f, errno |-> 111])
         /\ UNCHANGED <<cfg, nreq, live>>

(* Server identity in the projected trace is the address; a list that keeps an
   address but changes its ports names a different server for c-ares.  So the
   port-qualified list is only ever re-applied to a channel configured with
   exactly that list, and the plain lists only to plainly configured channels. *)
UriList == "dns://10.0.0.1:5301?tcpport=5302,dns://10.0.0.2:5301?tcpport=5302"
HasUriServers == "servers" \in DOMAIN cfg
SetServers == /\ "setservers" \in Extras
              /\ \E csv \in (IF HasUriServers THEN {cfg.servers}
                              ELSE {"10.0.0.2", "10.0.0.1", "10.0.0.2,10.0.0.1", "10.0.0.3,10.0.0.1,10.0.0.2"}) :
                    h' = Append(h, [op |-> "setservers", csv |-> csv])
              /\ UNCHANGED <<cfg, nreq, live>>

Process == /\ "process" \in Extras /\ live # {}
           /\ h' = Append(h, [op |-> "process", r |-> "all", w |-> "all"])
           /\ UNCHANGED <<cfg, nreq, live>>

(* let some virtual time pass without reaching a deadline (gives replies a latency) *)
Tick == /\ "tick" \in Extras /\ live # {} /\ LastOp # "adv"
        /\ h' = Append(h, [op |-> "adv", ms |-> 120])
        /\ UNCHANGED <<cfg, nreq, live>>

GNext == /\ Len(h) < MaxLen
         /\ (NewReq \/ Reply \/ Timeout \/ Cancel \/ Fault \/ SetServers \/ Process \/ Tick)

GSpec == GInit /\ [][GNext]_gvars

(* printing: evaluated once per distinct state, i.e. once per distinct history *)
Emit == h # <<>> => PrintT(ToJson([cfg |-> cfg, steps |-> h]))
=============================================================================
