CONSTANTS
  N1 = {0, 1, 2, 3, 5}
  Gaps = {0, 30000, 60000, 900000, 3600000, 86400000}
  N2 = {0, 1, 3}
  Lats = {120, 400}
  Timeouts = {300, 2000}
INIT GInit
NEXT GNext
INVARIANT Emit
CHECK_DEADLOCK FALSE
