-------------------------- MODULE SocketsTrace --------------------------
(* Trace validation of recorded cares_sim executions against Sockets.tla (C10). *)
EXTENDS Sockets, Json, IOUtils

Tr == ndJsonDeserialize(IOEnv.TRACE)

VARIABLES l, bad, why, hid
tvars == <<sock, udpmax, chanS, l, bad, why, hid>>

Rej(label) == /\ bad' = TRUE
              /\ why' = [line |-> l, label |-> label]
              /\ UNCHANGED svars
Acc == UNCHANGED <<bad, why>>
Skip == UNCHANGED <<svars, bad, why>>
ToSet(s) == {s[i] : i \in 1..Len(s)}

HSk(e) ==
  IF e.res = "after_close" THEN Rej("c10.use_after_close." \o e.op)
  ELSE IF e.res = "unknown_fd" THEN Rej("c10.unknown_fd." \o e.op)
  ELSE CASE e.op = "open" -> IF e.res # "ok" THEN Skip
                             ELSE IF CanOpen(e.fd) THEN DoOpen(e.fd, e.tcp = 1) /\ Acc ELSE Rej("c10.fd_reused_or_after_destroy")
         [] e.op = "connect" -> DoConnect(e.fd, e.res) /\ Acc
         [] e.op = "send" -> IF e.res = "ok" /\ ~UdpLimitOk(e.fd) THEN Rej("c10.udp_limit_exceeded")
                             ELSE DoSend(e.fd, e.res, IF e.res = "ok" THEN e.n ELSE 0, e.len) /\ Acc
         [] e.op = "recv" -> DoRecv(e.fd, e.res) /\ Acc
         [] e.op = "close" -> IF CanClose(e.fd) THEN DoClose(e.fd) /\ Acc ELSE Rej("c10.closed_without_stop_notification")
         [] OTHER -> Skip

HAnn(e) ==
  IF ~IsOpen(e.fd) THEN Rej("c10.announce_on_closed_fd")
  ELSE IF sock[e.fd].stopped THEN Rej("c10.announce_after_stop")
  ELSE IF CanAnnounce(e.fd, e.r, e.w) THEN DoAnnounce(e.fd, e.r, e.w) /\ Acc
  ELSE Rej("c10.stop_without_watch")

HRet(e) ==
  IF e.depth # 0 THEN Skip
  ELSE IF e.api = "destroy" THEN (IF CanDestroyRet THEN DoDestroyRet /\ Acc ELSE Rej("c10.socket_survives_destroy"))
  ELSE IF CanOuterRet THEN Skip ELSE Rej("c10.not_told_to_watch_when_needed")

HHint(e) ==
  IF ~FdsExact(e.nq, ToSet(e.fdr), ToSet(e.fdw)) THEN Rej("c10.ares_fds_mismatch")
  ELSE IF ~GetsockExact(e.nq, ToSet(e.gsr), ToSet(e.gsw)) THEN Rej("c10.ares_getsock_mismatch")
  ELSE Skip

HCall(e) ==
  IF e.api = "process" THEN
       /\ sock' = [fd \in DOMAIN sock |-> IF fd \in ToSet(e.w) THEN [sock[fd] EXCEPT !.connecting = FALSE] ELSE sock[fd]]
       /\ UNCHANGED <<udpmax, chanS>> /\ Acc
  ELSE Skip

Handle(e) ==
  CASE e.e = "init" -> udpmax' = e.udpmax /\ UNCHANGED <<sock, chanS>> /\ Acc
    [] e.e = "sk" -> HSk(e)
    [] e.e = "ann" -> HAnn(e)
    [] e.e = "ret" -> HRet(e)
    [] e.e = "hint" -> HHint(e)
    [] e.e = "call" -> HCall(e)
    [] e.e = "crash" -> bad' = TRUE /\ why' = [line |-> l, label |-> ""] /\ UNCHANGED svars   \* judged by C01
    [] e.e = "end" -> IF Open = {} THEN Skip ELSE Rej("c10.socket_never_closed")
    [] OTHER -> Skip

Verdict == [verdict |-> IF bad /\ why.label # "" THEN "REJ" ELSE "ACC", id |-> hid, line |-> why.line, label |-> why.label]

TInit == /\ sock = <<>> /\ udpmax = 0 /\ chanS = "up"
         /\ l = 1 /\ bad = FALSE /\ why = [line |-> 0, label |-> ""] /\ hid = ""

TNext ==
  /\ l <= Len(Tr)
  /\ l' = l + 1
  /\ LET e == Tr[l] IN
       IF e.e = "reset" THEN
            /\ (hid # "" => PrintT(ToJson(Verdict)))
            /\ sock' = <<>> /\ udpmax' = 0 /\ chanS' = "up"
            /\ bad' = FALSE /\ why' = [line |-> 0, label |-> ""]
            /\ hid' = e.id
       ELSE /\ hid' = hid
            /\ IF bad THEN Skip ELSE Handle(e)

TSpec == TInit /\ [][TNext]_tvars
Consumed == TLCGet("stats").diameter - 1 = Len(Tr)
=============================================================================
