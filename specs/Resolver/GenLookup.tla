------------------------------ MODULE GenLookup ------------------------------
(* Generator of address-lookup histories (C13). *)
EXTENDS Naturals, Sequences, FiniteSets, TLC, Json
CONSTANTS LookupOrders, SortFlags, Reqs, Shapes, MaxRep
VARIABLES cfg, h, nrep
gvars == <<cfg, h, nrep>>

ReqStep(r) ==
  CASE r = "gai0" -> [op |-> "gai", t |-> 1, name |-> "n1.test", family |-> 0, service |-> "80"]
    [] r = "gai4" -> [op |-> "gai", t |-> 1, name |-> "n1.test", family |-> 4, service |-> "80"]
    [] r = "gai6" -> [op |-> "gai", t |-> 1, name |-> "n1.test", family |-> 6, service |-> "443"]
    [] r = "gaih0" -> [op |-> "gai", t |-> 1, name |-> "h1.test", family |-> 0, service |-> "80"]
    [] r = "gaih4" -> [op |-> "gai", t |-> 1, name |-> "h1.test", family |-> 4]
    [] r = "gaih6" -> [op |-> "gai", t |-> 1, name |-> "h1.test", family |-> 6]
    [] r = "gailocal" -> [op |-> "gai", t |-> 1, name |-> "localhost", family |-> 0]
    [] r = "gailit" -> [op |-> "gai", t |-> 1, name |-> "10.1.2.9", family |-> 0, service |-> "25"]
    [] r = "ghbn4" -> [op |-> "ghbn", t |-> 1, name |-> "n1.test", family |-> 4]
    [] r = "ghbn6" -> [op |-> "ghbn", t |-> 1, name |-> "n1.test", family |-> 6]
    [] r = "ghbnh4" -> [op |-> "ghbn", t |-> 1, name |-> "h2.test", family |-> 4]
    [] r = "ghba4" -> [op |-> "ghba", t |-> 1, addr |-> 5, family |-> 4]
    [] r = "ghba6" -> [op |-> "ghba", t |-> 1, addr |-> 7, family |-> 6]
    [] r = "gni4" -> [op |-> "gni", t |-> 1, addr |-> 9, family |-> 4]
Rep(s) ==
  LET b == [op |-> "reply", tx |-> "last"] IN
  CASE s = "one" -> b @@ [kind |-> "ok", n |-> 1, ttl |-> 60]
    [] s = "three" -> b @@ [kind |-> "ok", n |-> 3, ttls |-> <<30, 5, 700>>]
    [] s = "cname2" -> b @@ [kind |-> "ok", n |-> 2, cname |-> 1, cnamettl |-> 3, ttl |-> 60]
    [] s = "chaos" -> b @@ [kind |-> "ok", n |-> 2, chaos |-> 1, ttl |-> 50]
    [] s = "nodata" -> b @@ [kind |-> "nodata"]
    [] s = "nx" -> b @@ [kind |-> "nx"]
    [] s = "five" -> b @@ [kind |-> "ok", n |-> 5, ttl |-> 10]
GInit == /\ \E lo \in LookupOrders, sf \in SortFlags :
              cfg = [nsrv |-> 1, tries |-> 1, timeout |-> 1000, seed |-> 1, lookups |-> lo, hostsfile |-> 1, gaiflags |-> sf]
         /\ \E r \in Reqs : h = <<ReqStep(r)>>
         /\ nrep = 0
GNext == /\ nrep < MaxRep /\ \E s \in Shapes : h' = Append(h, Rep(s)) /\ nrep' = nrep + 1 /\ UNCHANGED cfg
Emit == PrintT(ToJson([cfg |-> cfg, steps |-> h]))
=============================================================================
