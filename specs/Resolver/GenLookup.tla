------------------------------ MODULE GenLookup ------------------------------
(* Generator of address-lookup histories (C13). *)
EXTENDS Naturals, Sequences, FiniteSets, TLC, Json
CONSTANTS LookupOrders, SortFlags, Reqs, Shapes, MaxRep,
          QCacheSet,   \* query cache lifetimes (0 = off)
          V6Src,       \* 1: IPv6 source addresses are global (so that RFC 6724 sorting interleaves the families)
          SortLists,   \* sortlist strings ("" = none): some of the answer addresses match entries, others none
          Repeat       \* 1: the same lookup may be issued a second time at any point (answered from the cache where possible)
VARIABLES cfg, h, nrep, again
gvars == <<cfg, h, nrep, again>>

ReqStep(r) ==
  CASE r = "gai0" -> [op |-> "gai", t |-> 1, name |-> "n1.test", family |-> 0, service |-> "80"]
    [] r = "gai4" -> [op |-> "gai", t |-> 1, name |-> "n1.test", family |-> 4, service |-> "80"]
    [] r = "gai6" -> [op |-> "gai", t |-> 1, name |-> "n1.test", family |-> 6, service |-> "443"]
    [] r = "gaih0" -> [op |-> "gai", t |-> 1, name |-> "h1.test", family |-> 0, service |-> "80"]
    [] r = "gaih4" -> [op |-> "gai", t |-> 1, name |-> "h1.test", family |-> 4]
    [] r = "gaih6" -> [op |-> "gai", t |-> 1, name |-> "h1.test", family |-> 6]
    [] r = "gailocal" -> [op |-> "gai", t |-> 1, name |-> "localhost", family |-> 0]
    [] r = "gail4only0" -> [op |-> "gai", t |-> 1, name |-> "v4only.localhost", family |-> 0]    \* hosts database lists one family only
    [] r = "gail4only6" -> [op |-> "gai", t |-> 1, name |-> "v4only.localhost", family |-> 6]
    [] r = "gail6only0" -> [op |-> "gai", t |-> 1, name |-> "v6only.localhost", family |-> 0]
    [] r = "gailother0" -> [op |-> "gai", t |-> 1, name |-> "other.localhost", family |-> 0]     \* not listed
    [] r = "gailit" -> [op |-> "gai", t |-> 1, name |-> "10.1.2.9", family |-> 0, service |-> "25"]
    [] r = "ghbn4" -> [op |-> "ghbn", t |-> 1, name |-> "n1.test", family |-> 4]
    [] r = "ghbn0" -> [op |-> "ghbn", t |-> 1, name |-> "n1.test", family |-> 0]      \* both families asked, one returned
    [] r = "ghbn6" -> [op |-> "ghbn", t |-> 1, name |-> "n1.test", family |-> 6]
    [] r = "ghbnh4" -> [op |-> "ghbn", t |-> 1, name |-> "h2.test", family |-> 4]
    [] r = "ghba4" -> [op |-> "ghba", t |-> 1, addr |-> 5, family |-> 4]
    [] r = "ghba6" -> [op |-> "ghba", t |-> 1, addr |-> 7, family |-> 6]
    [] r = "gni4" -> [op |-> "gni", t |-> 1, addr |-> 9, family |-> 4]
    [] r = "ghbah4" -> [op |-> "ghba", t |-> 1, addr |-> 517, family |-> 4]          \* listed in the hosts database
    [] r = "ghbah6" -> [op |-> "ghba", t |-> 1, addr |-> 6, family |-> 6]            \* listed, short text form
    [] r = "ghbal6" -> [op |-> "ghba", t |-> 1, addr |-> 7, family |-> 6, long |-> 1] \* listed, long text form
    [] r = "ghbam6" -> [op |-> "ghba", t |-> 1, addr |-> 8, family |-> 6, long |-> 1] \* long text form, not listed
    [] r = "ghbax6" -> [op |-> "ghba", t |-> 1, addr |-> 9, family |-> 6, long |-> 2] \* every hexadecimal digit in the reverse-map name
    [] r = "gnix6" -> [op |-> "gni", t |-> 1, addr |-> 3, family |-> 6, long |-> 2]
    [] r = "gnih4" -> [op |-> "gni", t |-> 1, addr |-> 515, family |-> 4]
    [] r = "gnil6" -> [op |-> "gni", t |-> 1, addr |-> 7, family |-> 6, long |-> 1]
(* replies go to the latest transmission for the request's name that has not been answered yet
   (for an A + AAAA lookup: first the AAAA question, then the A question); reverse lookups: the latest transmission *)
TxOf(rq) == IF "name" \in DOMAIN rq /\ rq.op \in {"gai", "ghbn"} THEN "name:" \o rq.name ELSE "last"
Rep(s, rq) ==
  LET b == [op |-> "reply", tx |-> TxOf(rq)] IN
  CASE s = "one" -> b @@ [kind |-> "ok", n |-> 1, ttl |-> 60]
    [] s = "three" -> b @@ [kind |-> "ok", n |-> 3, ttls |-> <<30, 5, 700>>]
    [] s = "cname2" -> b @@ [kind |-> "ok", n |-> 2, cname |-> 1, cnamettl |-> 3, ttl |-> 60]
    [] s = "chaos" -> b @@ [kind |-> "ok", n |-> 2, chaos |-> 1, ttl |-> 50]
    [] s = "nodata" -> b @@ [kind |-> "nodata"]
    [] s = "nx" -> b @@ [kind |-> "nx"]
    [] s = "mix6" -> b @@ [kind |-> "ok", n |-> 3, ttl |-> 40, alt6 |-> 1]    \* AAAA answers under two prefixes with different policy labels
    [] s = "five" -> b @@ [kind |-> "ok", n |-> 5, ttl |-> 10]
GInit == /\ \E lo \in LookupOrders, sf \in SortFlags, qc \in QCacheSet, sl \in SortLists :
              cfg = [nsrv |-> 1, tries |-> 1, timeout |-> 1000, seed |-> 1, lookups |-> lo, hostsfile |-> 1, gaiflags |-> sf, qcache |-> qc]
                    @@ (IF sl = "" THEN <<>> ELSE [sortlist |-> sl]) @@ (IF V6Src = 1 THEN [v6srcglobal |-> 1] ELSE <<>>)
         /\ \E r \in Reqs : h = <<ReqStep(r)>>
         /\ nrep = 0 /\ again = FALSE
GNext == \/ /\ nrep < MaxRep /\ \E s \in Shapes : h' = Append(h, Rep(s, h[1])) /\ nrep' = nrep + 1 /\ UNCHANGED <<cfg, again>>
         \/ /\ Repeat = 1 /\ ~again /\ nrep >= 1
            /\ h' = Append(h, [h[1] EXCEPT !.t = 2]) /\ again' = TRUE /\ UNCHANGED <<cfg, nrep>>
Emit == PrintT(ToJson([cfg |-> cfg, steps |-> h]))
=============================================================================
