------------------------------ MODULE Gen_C01 ------------------------------
EXTENDS EnvGen
C01Cfgs == { [nsrv |-> 1, tries |-> 2, timeout |-> 1000, seed |-> 1],
             [nsrv |-> 1, tries |-> 1, timeout |-> 1000, seed |-> 3, edns |-> 1],
             [nsrv |-> 2, tries |-> 1, timeout |-> 1000, seed |-> 2, domains |-> <<"d1.test">>, ndots |-> 3] }
=============================================================================
