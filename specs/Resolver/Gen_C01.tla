------------------------------ MODULE Gen_C01 ------------------------------
EXTENDS EnvGen
C01Cfgs == { [nsrv |-> 1, tries |-> 2, timeout |-> 1000, seed |-> 1],
             [nsrv |-> 1, tries |-> 1, timeout |-> 1000, seed |-> 3, edns |-> 1, domains |-> <<"d1.test">>, ndots |-> 3],
             [nsrv |-> 2, tries |-> 1, timeout |-> 1000, seed |-> 2, domains |-> <<"d1.test">>, ndots |-> 3] }
(* deep single-request paths: retransmissions, late answers to earlier transmissions, further deadlines *)
C01DeepCfgs == { [nsrv |-> 2, tries |-> 2, timeout |-> 500, seed |-> 5],
                 [nsrv |-> 2, tries |-> 2, timeout |-> 500, seed |-> 6, udpmax |-> 1],
                 [nsrv |-> 1, tries |-> 3, timeout |-> 500, seed |-> 7, stayopen |-> 1] }
=============================================================================
