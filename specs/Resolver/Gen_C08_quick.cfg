CONSTANTS
  Cfgs <- C08Cfgs
  Variants = {"q1", "q1case", "q1dot", "s1cd", "l1"}
  Kinds = {"ok60", "ok5", "okmix", "okglue", "nx", "servfail", "tc"}
  Advances = {2000, 7000}
  Extras = {"setadd", "reinit"}
  MaxReq = 3
  MaxLen = 4
INIT GInit
NEXT GNext
INVARIANT Emit
CHECK_DEADLOCK FALSE
