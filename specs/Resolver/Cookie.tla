------------------------------ MODULE Cookie ------------------------------
(* Facet "DNS cookies" of the c-ares resolver contract (property C17):
   the RFC 7873 client state machine kept per server.

   state  INITIAL     nothing known; the next UDP+EDNS query generates a client cookie
          GENERATED   a client cookie is in use, the server has not shown support yet
          SUPPORTED   the server returned a server cookie for our client cookie
          UNSUPPORTED the server answered without a cookie: none is sent for 120 s
   plus: client cookie, when and from which source address it was generated, the
   latest server cookie, and since when a SUPPORTED server has been answering
   without cookie (regression period, 120 s).                                  *)
EXTENDS Naturals, Integers, Sequences, FiniteSets, TLC

VARIABLES kcfg, know, kc,     \* kc: server -> cookie record
          kq,                 \* qid -> [t, srv, fd, tcp, lname, name, qt, clen, ck, sk, ctries]
          kfd,                \* fd -> [srv, tcp, src]
          okp                 \* pids whose cookie checks passed when they were read

kvars == <<kcfg, know, kc, kq, kfd, okp>>

Regress == 120000
Rotate == 86400000
Fresh == [state |-> "INITIAL", client |-> "", cts |-> 0, cip |-> 0, server |-> "", uts |-> -1]

KInit == /\ kcfg = [edns |-> 0] /\ know = 0 /\ kc = <<>> /\ kq = <<>> /\ kfd = <<>> /\ okp = {}

(* ---- what ares_cookie_apply must do before a UDP transmission to server s from source src ---- *)
(* returns the state just before the cookie is chosen plus what the frame must satisfy *)
AfterTimers(c) ==
  IF c.state = "SUPPORTED" /\ c.uts >= 0 /\ know - c.uts >= Regress THEN Fresh
  ELSE IF c.state = "UNSUPPORTED" /\ know - c.uts >= Regress THEN Fresh
  ELSE c
MustOmit(c) == AfterTimers(c).state = "UNSUPPORTED"
MustRegenerate(c, src) ==
  LET d == AfterTimers(c) IN
  \/ d.state = "INITIAL"
  \/ (d.state \in {"GENERATED", "SUPPORTED"} /\ d.cip # src)
  \/ (d.state = "SUPPORTED" /\ know - d.cts >= Rotate)
KeepsServerCookie(c, src) ==
  LET d == AfterTimers(c) IN d.state \in {"GENERATED", "SUPPORTED"} /\ d.cip = src /\ ~(d.state = "SUPPORTED" /\ know - d.cts >= Rotate)
AfterApply(c, src, newclient) ==
  LET d == AfterTimers(c) IN
  IF d.state = "UNSUPPORTED" THEN d
  ELSE IF MustRegenerate(c, src)
       THEN [d EXCEPT !.state = IF d.state = "INITIAL" THEN "GENERATED" ELSE d.state,
                      !.client = newclient, !.cts = know, !.cip = src,
                      !.server = IF d.state = "INITIAL" THEN d.server ELSE ""]
       ELSE d

(* ---- what ares_cookie_validate decides for a response p to query rec from server s ---- *)
(* verdict: "accept" | "drop" | "badcookie" (valid BADCOOKIE: resend) *)
Verdict(c, rec, p) ==
  IF p.clen > 0 /\ (p.clen < 8 \/ p.clen > 40) THEN "drop"
  ELSE IF rec.clen = 0 THEN "accept"
  ELSE IF p.clen > 0 /\ p.ck # rec.ck THEN "drop"
  ELSE IF p.rcode = 23 THEN (IF p.clen = 0 THEN "drop" ELSE "badcookie")
  ELSE IF p.clen > 8 THEN "accept"
  ELSE IF c.state = "SUPPORTED" THEN "drop"
  ELSE "accept"
AfterValidate(c, rec, p) ==
  IF (p.clen > 0 /\ (p.clen < 8 \/ p.clen > 40)) \/ rec.clen = 0 \/ (p.clen > 0 /\ p.ck # rec.ck) THEN c
  ELSE LET c1 == IF p.clen > 8
                 THEN [c EXCEPT !.state = "SUPPORTED", !.uts = -1,
                                !.server = IF c.client = rec.ck THEN p.sk ELSE @]
                 ELSE c
       IN IF p.rcode = 23 \/ p.clen > 8 THEN c1
          ELSE IF c1.state = "SUPPORTED" THEN [c1 EXCEPT !.uts = IF @ < 0 THEN know ELSE @]
          ELSE IF c1.state = "GENERATED" THEN [Fresh EXCEPT !.state = "UNSUPPORTED", !.uts = know]
          ELSE c1
=============================================================================
