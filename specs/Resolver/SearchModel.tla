---------------------------- MODULE SearchModel ----------------------------
(* TLC cross-check of Search!Candidates against an independently written
   transcription of resolv.conf(5) (RefOk), for every name shape, every ndots
   0..3, every domain list up to two domains including the root domain, with
   and without NOSEARCH; and of the walk rule on all outcome sequences.       *)
EXTENDS Search
CONSTANTS DomainLists
DLs == { <<>>, <<"d1">>, <<"d1", "d2">>, <<"d1", ".">>, <<".", "d1">>, <<".">> }
Shapes == { [name |-> "n", wname |-> "n", lname |-> "n", dots |-> 0, enddot |-> 0],
            [name |-> "n1", wname |-> "n1", lname |-> "n1", dots |-> 0, enddot |-> 0],
            [name |-> "N1", wname |-> "N1", lname |-> "n1", dots |-> 0, enddot |-> 0],
            [name |-> "n.", wname |-> "n", lname |-> "n", dots |-> 1, enddot |-> 1],
            [name |-> "n.a", wname |-> "n.a", lname |-> "n.a", dots |-> 1, enddot |-> 0],
            [name |-> "n.a.b", wname |-> "n.a.b", lname |-> "n.a.b", dots |-> 2, enddot |-> 0],
            [name |-> "n.a.b.", wname |-> "n.a.b", lname |-> "n.a.b", dots |-> 3, enddot |-> 1],
            [name |-> "n\\.x", wname |-> "n\\.x", lname |-> "n\\.x", dots |-> 1, enddot |-> 0] }
MInit == /\ \E d \in DomainLists, nd \in 0..3, ns \in {0, 1}, na \in {0, 1}, ha \in {0, 1} :
              scfg = [ndots |-> nd, domains |-> d, nosearch |-> ns, noaliases |-> na, hostaliases |-> ha]
         /\ sr = <<>> /\ sqm = <<>>
MNext == UNCHANGED sxvars
CandidatesMatchReference == \A s \in Shapes : RefOk(s.name, s.wname, s.lname, s.dots, s.enddot)
(* only the as-is candidate of a dot-less name is a single label *)
SingleOnlyForBareName ==
  \A s \in Shapes : LET c == Candidates(s.name, s.wname, s.lname, s.dots, s.enddot) IN
     \A i \in 1..Len(c) : c[i].single <=> (c[i].txt = s.name /\ s.dots = 0 /\ ~AliasApplies(s.lname, s.dots))
(* every candidate's wire name is its text without one trailing dot *)
WireIsTextSansDot == \A s \in Shapes : LET c == Candidates(s.name, s.wname, s.lname, s.dots, s.enddot) IN
     \A i \in 1..Len(c) : c[i].wire = c[i].txt \/ c[i].wire \o "." = c[i].txt
=============================================================================
