------------------------------ MODULE GenMany ------------------------------
(* Histories with many simultaneously open sockets (udp_max_queries = 1 forces a
   socket per query): exercises the 16-socket limit of ares_getsock and the
   descriptor sets of ares_fds with more sockets than that, via the fd-set based
   ares_process() as well.                                                     *)
EXTENDS Naturals, Sequences, FiniteSets, TLC, Json
CONSTANTS Counts, Hows
VARIABLES n, how, done
Name(t) == "n" \o ToString(t) \o ".test"
RECURSIVE Qs(_, _)
Qs(i, k) == IF i > k THEN <<>> ELSE <<[op |-> "query", t |-> i, name |-> Name(i), qt |-> 1]>> \o Qs(i + 1, k)
Hist(k, h) == Qs(1, k) \o <<[op |-> "reply", tx |-> "name:n2.", kind |-> "ok", how |-> h],
                            [op |-> "adv", to |-> "deadline"], [op |-> "process", how |-> h],
                            [op |-> "reply", tx |-> "name:n3.", kind |-> "ok", how |-> h], [op |-> "cancel"]>>
GInit == n \in Counts /\ how \in Hows /\ done = FALSE
GNext == ~done /\ done' = TRUE /\ UNCHANGED <<n, how>>
Emit == PrintT(ToJson([cfg |-> [nsrv |-> 2, tries |-> 2, timeout |-> 1000, seed |-> 1, udpmax |-> 1], steps |-> Hist(n, how)]))
=============================================================================
