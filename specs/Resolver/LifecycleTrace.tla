------------------------ MODULE LifecycleTrace ------------------------
(* Trace validation of recorded cares_sim executions against Lifecycle.tla.
   The file named by env TRACE holds many histories separated by "reset"
   events.  Every event is passed to the matching Lifecycle action; if the
   action is not enabled the history is marked rejected (with a label naming
   the violated clause) and skipped.  One verdict line is printed per history. *)
EXTENDS Lifecycle, Json, IOUtils

Tr == ndJsonDeserialize(IOEnv.TRACE)

VARIABLES l, bad, why, hid
tvars == <<req, stack, chan, l, bad, why, hid>>

Rej(label) == /\ bad' = TRUE
              /\ why' = [line |-> l, label |-> label]
              /\ UNCHANGED lvars
Acc == UNCHANGED <<bad, why>>
Skip == UNCHANGED <<lvars, bad, why>>

HCall(e) ==
  IF e.api \in RequestApis THEN
       IF CanCall(e.api, e.t) /\ e.incb = InCb THEN DoCall(e.api, e.t) /\ Acc ELSE Rej("c01.call_not_allowed")
  ELSE IF e.api = "cancel" THEN
       IF CanCallCancel /\ e.incb = InCb THEN DoCallCancel /\ Acc ELSE Rej("c01.cancel_not_allowed")
  ELSE IF e.api = "destroy" THEN
       IF CanCallDestroy THEN DoCallDestroy /\ Acc ELSE Rej("c01.destroy_not_allowed")
  ELSE IF CanCallOther(e.api) THEN DoCallOther(e.api) /\ Acc ELSE Rej("c01.call_not_allowed")

HCbb(e) ==
  IF e.t \in DOMAIN req /\ req[e.t].ncb >= 1 THEN Rej("c01.second_callback." \o req[e.t].api \o "." \o e.st)
  ELSE IF chan = "destroyed" THEN Rej("c01.callback_after_destroy")
  ELSE IF CanCbb(e.t, e.st) THEN DoCbb(e.t, e.st) /\ Acc
  ELSE Rej("c01.callback_not_allowed." \o e.st)

HRet(e) ==
  IF Len(stack) > 0 /\ Top.k = "api" /\ Top.api = e.api /\ Top.owe # {} /\ ~CanRet(e.api) THEN Rej("c01." \o e.api \o "_left_requests_pending")
  ELSE IF CanRet(e.api) THEN DoRet(e.api) /\ Acc
  ELSE Rej("c01.return_with_open_callback")

Handle(e) ==
  CASE e.e = "call" -> HCall(e)
    [] e.e = "cbb" -> HCbb(e)
    [] e.e = "cbe" -> IF CanCbe(e.t) THEN DoCbe(e.t) /\ Acc ELSE Rej("c01.callback_nesting")
    [] e.e = "ret" -> HRet(e)
    [] e.e = "rejected" -> IF CanReject(e.t) THEN DoReject(e.t) /\ Acc ELSE Rej("c01.reject")
    [] e.e = "crash" -> Rej("crash." \o e.sum)
    [] e.e = "end" -> IF Pending = {} /\ chan = "destroyed" THEN Skip ELSE Rej("c01.never_completed")
    [] OTHER -> Skip

Verdict == [verdict |-> IF bad THEN "REJ" ELSE "ACC", id |-> hid, line |-> why.line, label |-> why.label]

TInit == /\ LInit
         /\ l = 1
         /\ bad = FALSE
         /\ why = [line |-> 0, label |-> ""]
         /\ hid = ""

TNext ==
  /\ l <= Len(Tr)
  /\ l' = l + 1
  /\ LET e == Tr[l] IN
       IF e.e = "reset" THEN
            /\ (hid # "" => PrintT(ToJson(Verdict)))
            /\ req' = <<>> /\ stack' = <<>> /\ chan' = "up"
            /\ bad' = FALSE /\ why' = [line |-> 0, label |-> ""]
            /\ hid' = e.id
       ELSE /\ hid' = hid
            /\ IF bad THEN Skip ELSE Handle(e)

TSpec == TInit /\ [][TNext]_tvars
Consumed == TLCGet("stats").diameter - 1 = Len(Tr)
=============================================================================
