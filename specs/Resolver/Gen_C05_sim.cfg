CONSTANTS
  Cfgs <- C05Cfgs
  Apis = {"query", "gai"}
  Nests = {"none"}
  Kinds = {"ok", "wrongid", "wrongname", "wrongtype", "wrongaddr", "flipcase", "ok_wrongclient", "stale_ok", "servfail", "batch_tc_flipcase", "batch_formerr_wrongname", "batch_ok_ok"}
  Faults = {}
  Extras = {"timeout", "process"}
  MaxReq = 5
  MaxLen = 14
INIT GInit
NEXT GNext
INVARIANT Emit
CHECK_DEADLOCK FALSE
