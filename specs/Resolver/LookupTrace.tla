--------------------------- MODULE LookupTrace ---------------------------
(* Trace validation against Lookup.tla (C13). *)
EXTENDS Lookup, Json, IOUtils

Tr == ndJsonDeserialize(IOEnv.TRACE)
VARIABLES l, bad, why, hid
tvars == <<lvars2, l, bad, why, hid>>
Rej(label) == /\ bad' = TRUE /\ why' = [line |-> l, label |-> label] /\ UNCHANGED lvars2
Acc == UNCHANGED <<bad, why>>
Skip == UNCHANGED <<lvars2, bad, why>>
Stop == /\ bad' = TRUE /\ why' = [line |-> l, label |-> ""] /\ UNCHANGED lvars2
ToSet(s) == {s[i] : i \in 1..Len(s)}

HCall(e) ==
  IF e.api \in {"gai", "ghbn"} THEN
       lr' = lr @@ (e.t :> [api |-> e.api, family |-> e.family, port |-> IF "port" \in DOMAIN e THEN e.port ELSE 0, name |-> e.wname,
                            lit |-> IF "lit" \in DOMAIN e THEN e.lit ELSE 0, exp |-> {}, sent |-> FALSE, sentq |-> {}, rev |-> "", ptr |-> {}, hrev |-> ""])
       /\ lnow' = e.now /\ UNCHANGED <<lcfg, lq, lfd, lc>> /\ Acc
  ELSE IF e.api \in {"ghba", "gni"} THEN
       lr' = lr @@ (e.t :> [api |-> e.api, family |-> e.family, port |-> 0, name |-> "", lit |-> 0, exp |-> {}, sent |-> FALSE, sentq |-> {},
                            rev |-> IF e.family = 4 THEN ReverseName4(e.addr) ELSE IF e.long = 1 THEN ReverseName6L(e.addr) ELSE IF e.long = 2 THEN ReverseName6X(e.addr) ELSE ReverseName6(e.addr), ptr |-> {},
                            hrev |-> HostsRev(e.family, e.addr, e.long)])
       /\ lnow' = e.now /\ UNCHANGED <<lcfg, lq, lfd, lc>> /\ Acc
  ELSE IF e.api \in {"setservers", "reinit"} THEN Stop
  ELSE IF "now" \in DOMAIN e THEN lnow' = e.now /\ UNCHANGED <<lcfg, lr, lq, lfd, lc>> /\ Acc
  ELSE Skip

(* the request a transmitted question belongs to: by token for forward names, by reverse name for PTR questions *)
OwnerOf(f) ==
  IF f.qt = 12 THEN {t \in DOMAIN lr : lr[t].rev = f.lname}
  ELSE LET byname == {t \in DOMAIN lr : (t = f.t \/ lr[t].name = f.lname) /\ lr[t].api \in {"gai", "ghbn"}}
           \* several outstanding lookups of one name: a retransmission stays with its request, a new question
           \* belongs to a request that has not asked that type yet
           known == {t \in byname : f.qid \in DOMAIN lq /\ lq[f.qid].t = t}
           fresh == {t \in byname : f.qt \notin lr[t].sentq}
       IN IF known # {} THEN known ELSE IF fresh # {} THEN fresh ELSE byname

HFrame(e, f) ==
  IF f.bad = 1 THEN Skip
  ELSE IF f.qt = 12 /\ OwnerOf(f) = {} /\ \E t \in DOMAIN lr : lr[t].rev # "" /\ ~lr[t].sent THEN Rej("c13.reverse_lookup_asks_wrong_name")
  ELSE IF OwnerOf(f) = {} THEN Skip
  ELSE LET t == CHOOSE x \in OwnerOf(f) : TRUE IN
       IF IsLocalName(lr[t].name) THEN Rej("c13.localhost_sent_to_dns")
       ELSE IF f.qt = 12 /\ FileFirst /\ lr[t].hrev # "" THEN Rej("c13.hosts_entry_ignored_by_reverse_lookup")
       ELSE IF lr[t].api \in {"gai", "ghbn"} /\ f.qt \notin {1, 28} THEN Rej("c13.forward_lookup_asks_wrong_type")
       ELSE IF lr[t].api \in {"gai", "ghbn"} /\ lr[t].family = 4 /\ f.qt # 1 THEN Rej("c13.family_4_lookup_asks_aaaa")
       ELSE IF lr[t].api \in {"gai", "ghbn"} /\ lr[t].family = 6 /\ f.qt # 28 THEN Rej("c13.family_6_lookup_asks_a")
       ELSE /\ lq' = (IF f.qid \in DOMAIN lq THEN [lq EXCEPT ![f.qid] = [t |-> t, fd |-> e.fd, qt |-> f.qt]] ELSE lq @@ (f.qid :> [t |-> t, fd |-> e.fd, qt |-> f.qt]))
            /\ lr' = [lr EXCEPT ![t].sent = TRUE, ![t].sentq = @ \cup {f.qt}]
            /\ UNCHANGED <<lcfg, lfd, lc, lnow>> /\ Acc

Cacheable(e) == lcfg.qcache > 0 /\ e.rcode \in {0, 3} /\ e.tc = 0
HRecv(e) ==
  IF e.res # "ok" \/ "pid" \notin DOMAIN e \/ e.parse = 0 \/ e.fromok = 0 \/ e.qid \notin DOMAIN lq THEN Skip
  ELSE LET m == lq[e.qid]
           lc2 == IF Cacheable(e) /\ m.fd = e.fd /\ e.qt = m.qt
                  THEN [k \in (DOMAIN lc) \cup {<<e.lname, e.qt>>} |->
                          IF k = <<e.lname, e.qt>> THEN [recs |-> IF e.rcode = 0 THEN ToSet(e.recs) ELSE {}, at |-> lnow] ELSE lc[k]]
                  ELSE lc
       IN
       IF m.fd # e.fd \/ e.qt # m.qt \/ e.rcode # 0 \/ e.tc = 1 \/ m.t \notin DOMAIN lr THEN lc' = lc2 /\ UNCHANGED <<lcfg, lr, lq, lfd, lnow>> /\ Acc
       ELSE IF m.qt = 12 THEN lr' = [lr EXCEPT ![m.t].ptr = @ \cup {e.recs[i].m : i \in 1..Len(e.recs)}] /\ lc' = lc2 /\ UNCHANGED <<lcfg, lq, lfd, lnow>> /\ Acc
       ELSE lr' = [lr EXCEPT ![m.t].exp = @ \cup ToSet(e.recs)] /\ lc' = lc2 /\ UNCHANGED <<lcfg, lq, lfd, lnow>> /\ Acc

Triple(x) == [m |-> x.a, ttl |-> x.ttl, f |-> x.f]
PtrNames(r) == {"m" \o ToString(m) \o ".ptr.test" : m \in r.ptr}

(* a reverse lookup that the library gives up as "not found" / "bad name" although DNS is in its lookup order, the
   hosts database does not list the address, nothing can have been cached for it (no other request for the same
   address in this history) and its question was never handed to a socket: the reverse-map name was not usable *)
GaveUpUnasked(e) ==
  /\ e.t \in DOMAIN lr /\ lr[e.t].api \in {"ghba", "gni"} /\ lr[e.t].rev # ""
  /\ e.st \in {"ENOTFOUND", "EBADNAME"}
  /\ "lookups" \in DOMAIN lcfg /\ lcfg.lookups \in {"b", "bf", "fb"}
  /\ ~lr[e.t].sent /\ lr[e.t].hrev = ""
  /\ \A t \in DOMAIN lr : t # e.t => lr[t].rev # lr[e.t].rev
  /\ lq = <<>>

HCbb(e) ==
  IF GaveUpUnasked(e) THEN Rej("c13.reverse_lookup_gave_up_without_asking")
  ELSE IF e.t \notin DOMAIN lr \/ e.st # "SUCCESS" THEN Skip
  ELSE LET r == lr[e.t] IN
       IF r.api = "gai" THEN
            LET got == {Triple(e.ai[i]) : i \in 1..Len(e.ai)} IN
            IF Len(e.ai) # Cardinality(got) THEN Rej("c13.duplicate_address_returned")
            ELSE IF \E i \in 1..Len(e.ai) : e.ai[i].port # r.port THEN Rej("c13.wrong_port")
            ELSE IF \E x \in got : ~FamOk(r.family, x) THEN Rej("c13.address_of_unrequested_family")
            ELSE IF got \notin Expected(r) THEN
                 Rej(IF \E S \in Expected(r) : got \subseteq S /\ got # S THEN "c13.address_dropped"
                     ELSE IF \E S \in Expected(r) : {x.m : x \in S} = {x.m : x \in got} THEN "c13.wrong_ttl"
                     ELSE "c13.address_not_in_accepted_answers")
            ELSE Skip
       ELSE IF r.api = "ghbn" THEN
            LET got == ToSet(e.host.addrs)
                exps == {{x.m : x \in S} : S \in Expected(r)}
            IN IF e.host.f # r.family /\ r.family # 0 THEN Rej("c13.address_of_unrequested_family")
               ELSE IF Len(e.host.addrs) # Cardinality(got) THEN Rej("c13.duplicate_address_returned")
               ELSE IF r.family # 0 /\ got \notin exps THEN Rej("c13.hostent_addresses_differ_from_accepted_answers")
               \* both families were asked: the host entry carries one family, and all accepted addresses of that family
               ELSE IF r.family = 0 /\ got \notin {{x.m : x \in {y \in S : y.f = e.host.f}} : S \in Expected(r)}
                    THEN Rej("c13.hostent_addresses_differ_from_accepted_answers")
               ELSE Skip
       ELSE IF r.api = "ghba" THEN
            LET ok == PtrNames(r) \cup (IF FileUsed /\ r.hrev # "" THEN {r.hrev} ELSE {}) IN
            IF ok = {} THEN Rej("c13.reverse_result_without_ptr_answer")
            ELSE IF FileFirst /\ r.hrev # "" /\ e.host.name # r.hrev THEN Rej("c13.hosts_entry_ignored_by_reverse_lookup")
            ELSE IF e.host.name \notin ok THEN Rej("c13.reverse_result_not_a_ptr_target")
            ELSE Skip
       ELSE IF r.api = "gni" THEN
            LET ok == PtrNames(r) \cup (IF FileUsed /\ r.hrev # "" THEN {r.hrev} ELSE {}) IN
            IF FileFirst /\ r.hrev # "" /\ e.node # r.hrev THEN Rej("c13.hosts_entry_ignored_by_reverse_lookup")
            ELSE IF ok = {} THEN Skip        \* numeric fallback when no name was found
            ELSE IF r.ptr # {} /\ e.node \notin ok THEN Rej("c13.reverse_result_not_a_ptr_target")
            ELSE Skip
       ELSE Skip

HSk(e) ==
  CASE e.op = "send" /\ e.res = "ok" /\ Len(e.frames) = 1 -> HFrame(e, e.frames[1])
    [] e.op = "recv" -> HRecv(e)
    [] OTHER -> Skip

Handle(e) ==
  CASE e.e = "init" -> lcfg' = e /\ UNCHANGED <<lr, lq, lfd, lc, lnow>> /\ Acc
    [] e.e = "call" -> HCall(e)
    [] e.e = "sk" -> HSk(e)
    [] e.e = "cbb" -> HCbb(e)
    [] e.e = "crash" -> IF \E t \in DOMAIN lr : lr[t].api \in {"gai", "ghbn", "ghba", "gni"} THEN Rej("c13.crash_during_lookup") ELSE Stop
    [] OTHER -> Skip

Verdict == [verdict |-> IF bad /\ why.label # "" THEN "REJ" ELSE "ACC", id |-> hid, line |-> why.line, label |-> why.label]
TInit == LInit2 /\ l = 1 /\ bad = FALSE /\ why = [line |-> 0, label |-> ""] /\ hid = ""
TNext ==
  /\ l <= Len(Tr) /\ l' = l + 1
  /\ LET e == Tr[l] IN
       IF e.e = "reset" THEN
            /\ (hid # "" => PrintT(ToJson(Verdict)))
            /\ lcfg' = [hostsfile |-> 0, usefile |-> 0, qcache |-> 0] /\ lr' = <<>> /\ lq' = <<>> /\ lfd' = <<>> /\ lc' = <<>> /\ lnow' = 0
            /\ bad' = FALSE /\ why' = [line |-> 0, label |-> ""] /\ hid' = e.id
       ELSE hid' = hid /\ (IF bad THEN Skip ELSE Handle(e))
TSpec == TInit /\ [][TNext]_tvars
=============================================================================
