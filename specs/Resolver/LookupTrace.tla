--------------------------- MODULE LookupTrace ---------------------------
(* Trace validation against Lookup.tla (C13). *)
EXTENDS Lookup, Json, IOUtils

Tr == ndJsonDeserialize(IOEnv.TRACE)
VARIABLES l, bad, why, hid
tvars == <<lvars2, l, bad, why, hid>>
Rej(label) == /\ bad' = TRUE /\ why' = [line |-> l, label |-> label] /\ UNCHANGED lvars2
Acc == UNCHANGED <<bad, why>>
Skip == UNCHANGED <<lvars2, bad, why>>
Stop == /\ bad' = TRUE /\ why' = [line |-> l, label |-> ""] /\ UNCHANGED lvars2
ToSet(s) == {s[i] : i \in 1..Len(s)}

HCall(e) ==
  IF e.api \in {"gai", "ghbn"} THEN
       lr' = lr @@ (e.t :> [api |-> e.api, family |-> e.family, port |-> IF "port" \in DOMAIN e THEN e.port ELSE 0, name |-> e.wname,
                            lit |-> IF "lit" \in DOMAIN e THEN e.lit ELSE 0, exp |-> {}, sent |-> FALSE, rev |-> "", ptr |-> {}])
       /\ UNCHANGED <<lcfg, lq, lfd>> /\ Acc
  ELSE IF e.api \in {"ghba", "gni"} THEN
       lr' = lr @@ (e.t :> [api |-> e.api, family |-> e.family, port |-> 0, name |-> "", lit |-> 0, exp |-> {}, sent |-> FALSE,
                            rev |-> IF e.family = 4 THEN ReverseName4(e.addr) ELSE ReverseName6(e.addr), ptr |-> {}])
       /\ UNCHANGED <<lcfg, lq, lfd>> /\ Acc
  ELSE IF e.api \in {"setservers", "reinit"} THEN Stop
  ELSE Skip

(* the request a transmitted question belongs to: by token for forward names, by reverse name for PTR questions *)
OwnerOf(f) ==
  IF f.qt = 12 THEN {t \in DOMAIN lr : lr[t].rev = f.lname}
  ELSE {t \in DOMAIN lr : (t = f.t \/ lr[t].name = f.lname) /\ lr[t].api \in {"gai", "ghbn"}}

HFrame(e, f) ==
  IF f.bad = 1 THEN Skip
  ELSE IF f.qt = 12 /\ OwnerOf(f) = {} /\ \E t \in DOMAIN lr : lr[t].rev # "" /\ ~lr[t].sent THEN Rej("c13.reverse_lookup_asks_wrong_name")
  ELSE IF OwnerOf(f) = {} THEN Skip
  ELSE LET t == CHOOSE x \in OwnerOf(f) : TRUE IN
       IF lr[t].name = "localhost" THEN Rej("c13.localhost_sent_to_dns")
       ELSE IF lr[t].api \in {"gai", "ghbn"} /\ f.qt \notin {1, 28} THEN Rej("c13.forward_lookup_asks_wrong_type")
       ELSE IF lr[t].api \in {"gai", "ghbn"} /\ lr[t].family = 4 /\ f.qt # 1 THEN Rej("c13.family_4_lookup_asks_aaaa")
       ELSE IF lr[t].api \in {"gai", "ghbn"} /\ lr[t].family = 6 /\ f.qt # 28 THEN Rej("c13.family_6_lookup_asks_a")
       ELSE /\ lq' = (IF f.qid \in DOMAIN lq THEN [lq EXCEPT ![f.qid] = [t |-> t, fd |-> e.fd, qt |-> f.qt]] ELSE lq @@ (f.qid :> [t |-> t, fd |-> e.fd, qt |-> f.qt]))
            /\ lr' = [lr EXCEPT ![t].sent = TRUE]
            /\ UNCHANGED <<lcfg, lfd>> /\ Acc

HRecv(e) ==
  IF e.res # "ok" \/ "pid" \notin DOMAIN e \/ e.parse = 0 \/ e.fromok = 0 \/ e.qid \notin DOMAIN lq THEN Skip
  ELSE LET m == lq[e.qid] IN
       IF m.fd # e.fd \/ e.qt # m.qt \/ e.rcode # 0 \/ e.tc = 1 \/ m.t \notin DOMAIN lr THEN Skip
       ELSE IF m.qt = 12 THEN lr' = [lr EXCEPT ![m.t].ptr = @ \cup {e.recs[i].m : i \in 1..Len(e.recs)}] /\ UNCHANGED <<lcfg, lq, lfd>> /\ Acc
       ELSE lr' = [lr EXCEPT ![m.t].exp = @ \cup ToSet(e.recs)] /\ UNCHANGED <<lcfg, lq, lfd>> /\ Acc

Triple(x) == [m |-> x.a, ttl |-> x.ttl, f |-> x.f]
PtrNames(r) == {"m" \o ToString(m) \o ".ptr.test" : m \in r.ptr}

HCbb(e) ==
  IF e.t \notin DOMAIN lr \/ e.st # "SUCCESS" THEN Skip
  ELSE LET r == lr[e.t] IN
       IF r.api = "gai" THEN
            LET got == {Triple(e.ai[i]) : i \in 1..Len(e.ai)} IN
            IF Len(e.ai) # Cardinality(got) THEN Rej("c13.duplicate_address_returned")
            ELSE IF \E i \in 1..Len(e.ai) : e.ai[i].port # r.port THEN Rej("c13.wrong_port")
            ELSE IF \E x \in got : ~FamOk(r.family, x) THEN Rej("c13.address_of_unrequested_family")
            ELSE IF got \notin Expected(r) THEN
                 Rej(IF \E S \in Expected(r) : got \subseteq S /\ got # S THEN "c13.address_dropped"
                     ELSE IF \E S \in Expected(r) : {x.m : x \in S} = {x.m : x \in got} THEN "c13.wrong_ttl"
                     ELSE "c13.address_not_in_accepted_answers")
            ELSE Skip
       ELSE IF r.api = "ghbn" THEN
            LET got == ToSet(e.host.addrs)
                exps == {{x.m : x \in S} : S \in Expected(r)}
            IN IF e.host.f # r.family /\ r.family # 0 THEN Rej("c13.address_of_unrequested_family")
               ELSE IF Len(e.host.addrs) # Cardinality(got) THEN Rej("c13.duplicate_address_returned")
               ELSE IF r.family # 0 /\ got \notin exps THEN Rej("c13.hostent_addresses_differ_from_accepted_answers")
               ELSE Skip
       ELSE IF r.api = "ghba" THEN
            IF r.ptr = {} THEN Rej("c13.reverse_result_without_ptr_answer")
            ELSE IF e.host.name \notin PtrNames(r) THEN Rej("c13.reverse_result_not_a_ptr_target")
            ELSE Skip
       ELSE IF r.api = "gni" THEN
            IF r.ptr = {} THEN Skip        \* numeric fallback when no name was found
            ELSE IF e.node \notin PtrNames(r) THEN Rej("c13.reverse_result_not_a_ptr_target")
            ELSE Skip
       ELSE Skip

HSk(e) ==
  CASE e.op = "send" /\ e.res = "ok" /\ Len(e.frames) = 1 -> HFrame(e, e.frames[1])
    [] e.op = "recv" -> HRecv(e)
    [] OTHER -> Skip

Handle(e) ==
  CASE e.e = "init" -> lcfg' = e /\ UNCHANGED <<lr, lq, lfd>> /\ Acc
    [] e.e = "call" -> HCall(e)
    [] e.e = "sk" -> HSk(e)
    [] e.e = "cbb" -> HCbb(e)
    [] e.e = "crash" -> Stop
    [] OTHER -> Skip

Verdict == [verdict |-> IF bad /\ why.label # "" THEN "REJ" ELSE "ACC", id |-> hid, line |-> why.line, label |-> why.label]
TInit == LInit2 /\ l = 1 /\ bad = FALSE /\ why = [line |-> 0, label |-> ""] /\ hid = ""
TNext ==
  /\ l <= Len(Tr) /\ l' = l + 1
  /\ LET e == Tr[l] IN
       IF e.e = "reset" THEN
            /\ (hid # "" => PrintT(ToJson(Verdict)))
            /\ lcfg' = [hostsfile |-> 0, usefile |-> 0] /\ lr' = <<>> /\ lq' = <<>> /\ lfd' = <<>>
            /\ bad' = FALSE /\ why' = [line |-> 0, label |-> ""] /\ hid' = e.id
       ELSE hid' = hid /\ (IF bad THEN Skip ELSE Handle(e))
TSpec == TInit /\ [][TNext]_tvars
=============================================================================
