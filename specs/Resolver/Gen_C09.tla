------------------------------ MODULE Gen_C09 ------------------------------
EXTENDS EnvGen
C09Cfgs == { [nsrv |-> 2, tries |-> 2, timeout |-> 1000, seed |-> 9, retrychance |-> 0,
               servers |-> "dns://10.0.0.1:5301?tcpport=5302,dns://10.0.0.2:5301?tcpport=5302"], [nsrv |-> 3, tries |-> 2, timeout |-> 1000, seed |-> 1, retrychance |-> 1, retrydelay |-> 0],
             [nsrv |-> 3, tries |-> 2, timeout |-> 1000, seed |-> 2, rotate |-> 1, retrychance |-> 0],
             [nsrv |-> 2, tries |-> 2, timeout |-> 1000, seed |-> 3, retrychance |-> 1, retrydelay |-> 1500],
             [nsrv |-> 3, tries |-> 1, timeout |-> 500, seed |-> 7, rotate |-> 1, retrychance |-> 1, retrydelay |-> 0] }
=============================================================================
