---------------------------- MODULE QCacheModel ----------------------------
(* Stand-alone model of the cache rules built from QCache.tla's operators:
   answers of every kind are accepted at arbitrary times, time advances, the
   server set changes; TLC checks the clauses of C08 on every reachable cache. *)
EXTENDS QCache
CONSTANTS MaxTtl
VARIABLES orig    \* key -> the packet the entry was made from (ghost)
mvars == <<cvars, orig>>
K == Key("n", 1, 1, 1, 0)
Packets == { [qid |-> 1, rcode |-> rc, tc |-> tc, ttls |-> ts, xttls |-> <<>>, soa |-> soa, soattl |-> 30, soamin |-> 6]
             : rc \in {0, 2, 3}, tc \in {0, 1}, ts \in {<<>>, <<0>>, <<5>>, <<60, 4>>, <<100000>>}, soa \in {0, 1} }
MInit == /\ ccfg = [qcache |-> MaxTtl, dns0x20 |-> 0] /\ cnow = 0 /\ cache = <<>> /\ cq = <<>> /\ csrv = {1} /\ orig = <<>>
Accept(p) == /\ Cacheable(p)
             /\ cache' = (IF K \in DOMAIN cache THEN [cache EXCEPT ![K] = Entry(p, 1)] ELSE cache @@ (K :> Entry(p, 1)))
             /\ orig' = (IF K \in DOMAIN orig THEN [orig EXCEPT ![K] = p] ELSE orig @@ (K :> p))
             /\ UNCHANGED <<ccfg, cnow, cq, csrv>>
Advance(dt) == cnow' = cnow + dt /\ cnow < 20000 /\ UNCHANGED <<ccfg, cache, cq, csrv, orig>>
Flush == cache' = <<>> /\ orig' = <<>> /\ csrv' = {1, 2} \ csrv /\ UNCHANGED <<ccfg, cnow, cq>>
MNext == (\E p \in Packets : Accept(p)) \/ (\E dt \in {1000, 4000, 7000} : Advance(dt)) \/ Flush

NothingWhenDisabled == ccfg.qcache = 0 => cache = <<>>
OnlyGoodAnswers == \A k \in DOMAIN cache : orig[k].rcode \in {0, 3} /\ orig[k].tc = 0
LifetimeBounded == \A k \in DOMAIN cache : /\ cache[k].exp - cache[k].ins <= ccfg.qcache
                                           /\ cache[k].exp - cache[k].ins <= Lifetime(orig[k])
                                           /\ cache[k].exp > cache[k].ins
(* whatever may be replayed now is replayed strictly before both bounds, with non-negative remaining TTLs *)
HitWithinLifetime == \A k \in DOMAIN cache : HitSound(k, cache[k].rid) =>
                        /\ Sec(cnow) - cache[k].ins < ccfg.qcache
                        /\ Sec(cnow) - cache[k].ins < Lifetime(orig[k])
                        /\ \A i \in 1..Len(cache[k].ttls) : Decremented(cache[k].ttls[i], k) >= 0 /\ Decremented(cache[k].ttls[i], k) <= cache[k].ttls[i]
=============================================================================
