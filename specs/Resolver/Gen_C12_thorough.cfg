CONSTANTS
  DomainLists <- DL
  NdotsSet = {0, 1, 2}
  NoSearchSet = {0, 1}
  ViaFileSet = {0, 1}
  AliasSet = {0, 1}
  EnvSet <- EnvNone
  Names = {"n1", "n1.test", "n1.a.b", "n1.test.", "n1."}
  Apis = {"search", "lsearch", "gai4", "gai0", "ghbn4"}
  Outcomes = {"ok", "nodata", "nx", "servfail", "refused", "timeout", "cnameonly"}
  MaxOut = 3
INIT GInit
NEXT GNext
INVARIANT Emit
CHECK_DEADLOCK FALSE
