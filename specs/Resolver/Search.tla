------------------------------ MODULE Search ------------------------------
(* Facet "search-list expansion" of the c-ares resolver contract (property C12).

   Candidates(name) is the list of names resolv.conf(5) prescribes:
     - only the name itself when it ends in a dot or searching is disabled;
     - otherwise the name as given FIRST when it has at least ndots dots, then
       name.domain for every search domain in order (the root domain gives
       "name."), and the name as given LAST when it has fewer than ndots dots.
   The walk: the next candidate is tried only after the current one completed
   without data (no-data / name error; also server-failure / refused for a
   single-label candidate); it stops at the first candidate with data or a hard
   error; at the end it reports no-data if any candidate existed without data,
   else the last candidate's status.                                          *)
EXTENDS Naturals, Integers, Sequences, FiniteSets, TLC

VARIABLES scfg,   \* configuration (ndots, domains, nosearch ...)
          sr,     \* token -> search request record
          sqm     \* qid -> [t, idx]  wire queries of search requests

sxvars == <<scfg, sr, sqm>>
SInitS == scfg = [ndots |-> 1, domains |-> <<>>, nosearch |-> 0] /\ sr = <<>> /\ sqm = <<>>

(* a candidate: the text resolv.conf(5) prescribes, the name that goes on the wire for it (a trailing
   dot is not transmitted) and whether it is a single label (no dot at all in the text) *)
Cand(txt, wire, single) == [txt |-> txt, wire |-> wire, single |-> single]
CatDomain(name, d) == IF d = "." THEN Cand(name \o ".", name, FALSE) ELSE Cand(name \o "." \o d, name \o "." \o d, FALSE)
AsIs(name, wname, dots) == Cand(name, wname, dots = 0)
Candidates(name, wname, dots, enddot) ==
  IF enddot = 1 \/ scfg.nosearch = 1 THEN <<AsIs(name, wname, dots)>>
  ELSE LET doms == [i \in 1..Len(scfg.domains) |-> CatDomain(name, scfg.domains[i])]
       IN IF dots >= scfg.ndots THEN <<AsIs(name, wname, dots)>> \o doms ELSE doms \o <<AsIs(name, wname, dots)>>

(* outcome classes of one candidate *)
NoData == {"nodata", "nx"}
SoftForSingle == {"servfail", "refused"}
MayContinue(r) ==      \* all queries of the current candidate answered, none with data, all "not found"-like
  /\ Cardinality(r.answered) >= r.nq
  /\ "data" \notin r.seen
  /\ r.seen \subseteq (NoData \cup (IF r.single THEN SoftForSingle ELSE {}))
=============================================================================
