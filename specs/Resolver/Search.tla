------------------------------ MODULE Search ------------------------------
(* Facet "search-list expansion" of the c-ares resolver contract (property C12).

   Candidates(name) is the list of names resolv.conf(5) prescribes:
     - only the name itself when it ends in a dot or searching is disabled;
     - otherwise the name as given FIRST when it has at least ndots dots, then
       name.domain for every search domain in order (the root domain gives
       "name."), and the name as given LAST when it has fewer than ndots dots.
   The walk: the next candidate is tried only after the current one completed
   without data (no-data / name error; also server-failure / refused for a
   single-label candidate); it stops at the first candidate with data or a hard
   error; at the end it reports no-data if any candidate existed without data,
   else the last candidate's status.                                          *)
EXTENDS Naturals, Integers, Sequences, FiniteSets, TLC

VARIABLES scfg,   \* configuration (ndots, domains, nosearch ...)
          sr,     \* token -> search request record
          sqm     \* qid -> [t, idx]  wire queries of search requests

sxvars == <<scfg, sr, sqm>>
SInitS == scfg = [ndots |-> 1, domains |-> <<>>, nosearch |-> 0, noaliases |-> 1, hostaliases |-> 0] /\ sr = <<>> /\ sqm = <<>>

(* resolv.conf(5): what the environment says overrides the file -- LOCALDOMAIN replaces the search list and
   RES_OPTIONS "ndots:n" the ndots value; options passed to ares_init_options() override both (viafile = 0) *)
Effective(e) ==
  [e EXCEPT !.domains = IF e.viafile = 1 /\ Len(e.localdomain) > 0 THEN e.localdomain ELSE e.domains,
            !.ndots = IF e.viafile = 1 /\ e.resndots >= 0 THEN e.resndots ELSE e.ndots]

(* a candidate: the text resolv.conf(5) prescribes, the name that goes on the wire for it (a trailing
   dot is not transmitted) and whether it is a single label (no dot at all in the text) *)
Cand(txt, wire, single) == [txt |-> txt, wire |-> wire, single |-> single]
CatDomain(name, d) == IF d = "." THEN Cand(name \o ".", name, FALSE) ELSE Cand(name \o "." \o d, name \o "." \o d, FALSE)
AsIs(name, wname, dots) == Cand(name, wname, dots = 0)
(* HOSTALIASES: a name without any dot that the alias file maps (compared case-insensitively) is replaced by its
   target and not searched; the harness installs this fixed alias file when hostaliases = 1 *)
AliasDb(lname) == CASE lname = "n1" -> "n1alias.target.test" [] lname = "n2" -> "n2up.target.test" [] OTHER -> ""
AliasApplies(lname, dots) == scfg.noaliases = 0 /\ scfg.hostaliases = 1 /\ dots = 0 /\ AliasDb(lname) # ""
Candidates(name, wname, lname, dots, enddot) ==
  IF AliasApplies(lname, dots) THEN <<Cand(AliasDb(lname), AliasDb(lname), FALSE)>>
  ELSE IF enddot = 1 \/ scfg.nosearch = 1 THEN <<AsIs(name, wname, dots)>>
  ELSE LET doms == [i \in 1..Len(scfg.domains) |-> CatDomain(name, scfg.domains[i])]
       IN IF dots >= scfg.ndots THEN <<AsIs(name, wname, dots)>> \o doms ELSE doms \o <<AsIs(name, wname, dots)>>

(* a reference transcription of resolv.conf(5), written independently of Candidates; TLC cross-checks the two
   in SearchModel.tla *)
RefFirstAsIs(dots) == dots >= scfg.ndots
RefOk(name, wname, lname, dots, enddot) ==
  LET c == Candidates(name, wname, lname, dots, enddot) IN
  /\ (AliasApplies(lname, dots) => (Len(c) = 1 /\ c[1].wire = AliasDb(lname)))
  /\ ((~AliasApplies(lname, dots) /\ (enddot = 1 \/ scfg.nosearch = 1)) => (Len(c) = 1 /\ c[1].txt = name /\ c[1].wire = wname))
  /\ ((~AliasApplies(lname, dots) /\ enddot = 0 /\ scfg.nosearch = 0) =>
       /\ Len(c) = Len(scfg.domains) + 1
       /\ (RefFirstAsIs(dots) => c[1].txt = name)
       /\ (~RefFirstAsIs(dots) => c[Len(c)].txt = name)
       /\ \A i \in 1..Len(scfg.domains) :
             c[i + (IF RefFirstAsIs(dots) THEN 1 ELSE 0)].txt = (IF scfg.domains[i] = "." THEN name \o "." ELSE name \o "." \o scfg.domains[i]))

(* outcome classes of one candidate *)
NoData == {"nodata", "nx"}
SoftForSingle == {"servfail", "refused"}
MayContinue(r) ==      \* all queries of the current candidate answered, none with data, all "not found"-like
  /\ Cardinality(r.answered) >= r.nq
  /\ "data" \notin r.seen
  /\ r.seen \subseteq (NoData \cup (IF r.single THEN SoftForSingle ELSE {}))
=============================================================================
