--------------------------- MODULE SearchTrace ---------------------------
(* Trace validation against Search.tla (C12). Scope: one server, one try (every rcode is final). *)
EXTENDS Search, Json, IOUtils

Tr == ndJsonDeserialize(IOEnv.TRACE)
VARIABLES l, bad, why, hid
tvars == <<sxvars, l, bad, why, hid>>
Rej(label) == /\ bad' = TRUE /\ why' = [line |-> l, label |-> label] /\ UNCHANGED sxvars
Acc == UNCHANGED <<bad, why>>
Skip == UNCHANGED <<sxvars, bad, why>>
Stop == /\ bad' = TRUE /\ why' = [line |-> l, label |-> ""] /\ UNCHANGED sxvars
Without(f, S) == [x \in (DOMAIN f) \ S |-> f[x]]

SearchApis == {"search", "lsearch", "gai", "ghbn"}
NQ(e) == IF e.api \in {"gai", "ghbn"} /\ e.family = 0 THEN 2 ELSE 1

HCall(e) ==
  IF e.api \in SearchApis THEN
       LET c == Candidates(e.name, e.wname, e.kname, e.dots, e.enddot) IN
       /\ sr' = sr @@ (e.t :> [cands |-> c, idx |-> 0, nq |-> NQ(e), seen |-> {}, answered |-> {}, single |-> FALSE,
                               nodata |-> FALSE, api |-> e.api, hard |-> FALSE, dots |-> e.dots])
       /\ UNCHANGED <<scfg, sqm>> /\ Acc
  ELSE IF e.api \in {"setservers", "reinit"} THEN Stop
  ELSE Skip

HFrame(e, f) ==
  IF f.t \notin DOMAIN sr \/ f.bad = 1 THEN Skip
  ELSE LET r == sr[f.t] IN
       IF f.qid \in DOMAIN sqm THEN Skip            \* retransmission of a known query
       ELSE IF r.idx >= 1 /\ f.name = r.cands[r.idx].wire /\ Cardinality({id \in DOMAIN sqm : sqm[id].t = f.t /\ sqm[id].idx = r.idx}) < r.nq
            THEN sqm' = sqm @@ (f.qid :> [t |-> f.t, idx |-> r.idx]) /\ UNCHANGED <<scfg, sr>> /\ Acc    \* sibling query (A / AAAA) of the same candidate
       ELSE IF r.idx >= Len(r.cands) THEN Rej("c12.query_beyond_candidate_list")
       ELSE IF f.name # r.cands[r.idx + 1].wire THEN
            Rej(IF r.idx = 0 THEN "c12.first_candidate_wrong" ELSE "c12.next_candidate_wrong")
       ELSE IF r.idx >= 1 /\ ~MayContinue(r) THEN
            Rej(IF "data" \in r.seen THEN "c12.continued_after_data" ELSE "c12.continued_after_hard_error_or_before_completion")
       ELSE /\ sr' = [sr EXCEPT ![f.t] = [r EXCEPT !.idx = r.idx + 1, !.seen = {}, !.answered = {},
                                                   !.single = r.cands[r.idx + 1].single,
                                                   !.nodata = r.nodata \/ ("nodata" \in r.seen)]]
            /\ sqm' = sqm @@ (f.qid :> [t |-> f.t, idx |-> r.idx + 1])
            /\ UNCHANGED scfg /\ Acc

(* for an address lookup an answer has data only if it carries an address record of the family asked for *)
Class(p, api) == IF p.rcode = 0 THEN (IF (IF api \in {"gai", "ghbn"} THEN Len(p.recs) > 0 ELSE p.an > 0) THEN "data" ELSE "nodata")
            ELSE IF p.rcode = 3 THEN "nx" ELSE IF p.rcode = 2 THEN "servfail" ELSE IF p.rcode = 5 THEN "refused" ELSE "other"

HRecv(e) ==
  IF e.res # "ok" \/ "pid" \notin DOMAIN e \/ e.parse = 0 \/ e.fromok = 0 \/ e.qid \notin DOMAIN sqm THEN Skip
  ELSE IF sqm[e.qid].t \notin DOMAIN sr THEN Skip        \* a late reply to a query of a request that is already over
  ELSE LET m == sqm[e.qid]
           r == sr[m.t]
       IN IF m.idx # r.idx \/ e.tc = 1 THEN Skip
          ELSE sr' = [sr EXCEPT ![m.t].seen = @ \cup {Class(e, r.api)}, ![m.t].answered = @ \cup {e.qid}] /\ UNCHANGED <<scfg, sqm>> /\ Acc

HCbb(e) ==
  IF e.t \notin DOMAIN sr THEN Skip
  ELSE LET r == sr[e.t]
           nd == r.nodata \/ ("nodata" \in r.seen)
           last == r.idx = Len(r.cands)
       IN
       IF e.st \in {"ECANCELLED", "EDESTRUCTION"} THEN sr' = Without(sr, {e.t}) /\ UNCHANGED <<scfg, sqm>> /\ Acc
       ELSE IF e.st = "SUCCESS" THEN
            (IF r.idx >= 1 /\ "data" \notin r.seen THEN Rej("c12.success_without_data")
             ELSE sr' = Without(sr, {e.t}) /\ UNCHANGED <<scfg, sqm>> /\ Acc)
       ELSE IF e.st \in {"ENODATA", "ENOTFOUND"} THEN
            IF r.idx >= 1 /\ ~last /\ MayContinue(r) THEN Rej("c12.stopped_before_last_candidate")
            ELSE IF last /\ MayContinue(r) /\ r.seen \subseteq NoData /\ nd /\ e.st # "ENODATA" THEN Rej("c12.nodata_seen_but_reported_" \o e.st)
            ELSE IF last /\ MayContinue(r) /\ r.seen \subseteq NoData /\ ~nd /\ e.st # "ENOTFOUND" THEN Rej("c12.no_nodata_seen_but_reported_" \o e.st)
            ELSE sr' = Without(sr, {e.t}) /\ UNCHANGED <<scfg, sqm>> /\ Acc
       ELSE IF r.idx >= 1 /\ ~last /\ MayContinue(r) /\ e.st \in {"ESERVFAIL", "EREFUSED", "ENODATA", "ENOTFOUND"} THEN Rej("c12.stopped_before_last_candidate")
       ELSE sr' = Without(sr, {e.t}) /\ UNCHANGED <<scfg, sqm>> /\ Acc

HSk(e) ==
  CASE e.op = "send" /\ e.res = "ok" /\ Len(e.frames) = 1 -> HFrame(e, e.frames[1])
    [] e.op = "send" /\ e.res # "ok" -> Stop
    [] e.op = "recv" -> HRecv(e)
    [] e.op \in {"open", "connect"} /\ e.res = "err" -> Stop
    [] OTHER -> Skip

Handle(e) ==
  CASE e.e = "init" -> IF e.nsrv # 1 \/ e.tries # 1 \/ e.edns # 0 THEN Stop ELSE scfg' = Effective(e) /\ UNCHANGED <<sr, sqm>> /\ Acc
    [] e.e = "call" -> HCall(e)
    [] e.e = "sk" -> HSk(e)
    [] e.e = "cbb" -> HCbb(e)
    [] e.e = "crash" -> Rej("c12.crash." \o e.sum)     \* a sanitizer report or abnormal end inside a history of this family
    [] OTHER -> Skip

Verdict == [verdict |-> IF bad /\ why.label # "" THEN "REJ" ELSE "ACC", id |-> hid, line |-> why.line, label |-> why.label]
TInit == SInitS /\ l = 1 /\ bad = FALSE /\ why = [line |-> 0, label |-> ""] /\ hid = ""
TNext ==
  /\ l <= Len(Tr) /\ l' = l + 1
  /\ LET e == Tr[l] IN
       IF e.e = "reset" THEN
            /\ (hid # "" => PrintT(ToJson(Verdict)))
            /\ scfg' = [ndots |-> 1, domains |-> <<>>, nosearch |-> 0, noaliases |-> 1, hostaliases |-> 0] /\ sr' = <<>> /\ sqm' = <<>>
            /\ bad' = FALSE /\ why' = [line |-> 0, label |-> ""] /\ hid' = e.id
       ELSE hid' = hid /\ (IF bad THEN Skip ELSE Handle(e))
TSpec == TInit /\ [][TNext]_tvars
=============================================================================
