CONSTANTS
  NS = 2
  TRIES = 1
  ROTATE = 1
  NSU = 3
  EDITS = 1
SPECIFICATION MSpec
INVARIANTS Paid OnMember Budget TryBound CookieBound ChoiceExists WaitSound
PROPERTY Terminates
CHECK_DEADLOCK FALSE
