--------------------------- MODULE AcceptTrace ---------------------------
(* Trace validation against Accept.tla (C05). *)
EXTENDS Accept, Json, IOUtils

Tr == ndJsonDeserialize(IOEnv.TRACE)
VARIABLES l, bad, why, hid, tin
tvars == <<avars, l, bad, why, hid, tin>>

Rej(label) == /\ bad' = TRUE /\ why' = [line |-> l, label |-> label] /\ UNCHANGED <<avars, tin>>
Acc == UNCHANGED <<bad, why>>
Skip == UNCHANGED <<avars, tin, bad, why>>
Stop == /\ bad' = TRUE /\ why' = [line |-> l, label |-> ""] /\ UNCHANGED <<avars, tin>>
ToSet(s) == {s[i] : i \in 1..Len(s)}
Without(f, S) == [x \in (DOMAIN f) \ S |-> f[x]]

RECURSIVE ApplyFrames(_, _, _, _)
ApplyFrames(qq, frames, i, fd) ==
  IF i > Len(frames) THEN qq
  ELSE LET f == frames[i]
           rec == [t |-> f.t, lname |-> f.lname, name |-> f.name, qt |-> f.qt, qc |-> f.qc, fd |-> fd, tcp |-> afd[fd].tcp, ck |-> f.ck]
       IN IF f.bad = 1 THEN ApplyFrames(qq, frames, i + 1, fd)
          ELSE ApplyFrames(IF f.qid \in DOMAIN qq THEN [qq EXCEPT ![f.qid] = rec] ELSE qq @@ (f.qid :> rec), frames, i + 1, fd)

NotePacket(fd, p, pid) ==
  IF Authentic(fd, p)
  THEN /\ auth' = auth @@ (pid :> [t |-> aq[p.qid].t, lname |-> aq[p.qid].lname, qt |-> aq[p.qid].qt, qc |-> aq[p.qid].qc, srv |-> afd[fd].srv])
       /\ credit' = IF afd[fd].srv \in DOMAIN credit THEN [credit EXCEPT ![afd[fd].srv] = @ + 1]
                    ELSE credit @@ (afd[fd].srv :> 1)
       /\ UNCHANGED <<acfg, afd, aq, areq, unauth>>
  ELSE /\ unauth' = unauth @@ (pid :> WhyNot(fd, p))
       /\ UNCHANGED <<acfg, afd, aq, auth, areq, credit>>

HSk(e) ==
  CASE e.op = "open" /\ e.res = "ok" ->
         /\ afd' = afd @@ (e.fd :> [srv |-> 0, tcp |-> (e.tcp = 1)])
         /\ tin' = tin @@ (e.fd :> [avail |-> 0, pk |-> <<>>])
         /\ UNCHANGED <<acfg, aq, auth, areq, credit, unauth>> /\ Acc
    [] e.op = "connect" /\ e.res # "err" /\ e.fd \in DOMAIN afd ->
         /\ afd' = [afd EXCEPT ![e.fd].srv = e.srv] /\ UNCHANGED <<acfg, aq, auth, areq, credit, unauth, tin>> /\ Acc
    [] e.op = "send" /\ e.res = "ok" /\ e.fd \in DOMAIN afd ->
         /\ aq' = ApplyFrames(aq, e.frames, 1, e.fd) /\ UNCHANGED <<acfg, afd, auth, areq, credit, unauth, tin>> /\ Acc
    [] e.op = "recv" /\ e.res = "ok" /\ e.fd \in DOMAIN afd ->
         IF ~afd[e.fd].tcp THEN NotePacket(e.fd, e, e.pid) /\ UNCHANGED tin /\ Acc
         ELSE LET st == tin[e.fd]
                  avail == st.avail + e.n
              IN IF Len(st.pk) = 0 \/ avail < st.pk[1].slen
                 THEN tin' = [tin EXCEPT ![e.fd].avail = avail] /\ UNCHANGED avars /\ Acc
                 ELSE IF Len(st.pk) > 1 /\ avail >= st.pk[1].slen + st.pk[2].slen THEN Stop    \* several frames at once: see C20
                 ELSE /\ tin' = [tin EXCEPT ![e.fd] = [avail |-> avail - st.pk[1].slen, pk |-> Tail(st.pk)]]
                      /\ NotePacket(e.fd, [st.pk[1] EXCEPT !.fd = e.fd] @@ [fromok |-> 1], st.pk[1].pid) /\ Acc
    [] OTHER -> Skip

Markers(e) ==
  (IF "markers" \in DOMAIN e THEN ToSet(e.markers) ELSE {})
  \cup (IF "ai" \in DOMAIN e THEN {e.ai[i].a : i \in 1..Len(e.ai)} ELSE {})
  \cup (IF "host" \in DOMAIN e /\ e.host # 0 THEN ToSet(e.host.addrs) ELSE {})

HCbb(e) ==
  LET ms == {m \in Markers(e) : m >= 0} IN
  IF \E m \in ms : ~DeliveryOk(e.t, m) THEN
       LET m == CHOOSE x \in ms : ~DeliveryOk(e.t, x)
           pid == m \div 8
       IN Rej("c05.delivered." \o (IF pid \in DOMAIN unauth THEN unauth[pid] ELSE "data_of_unknown_origin"))
  ELSE /\ aq' = Without(aq, {id \in DOMAIN aq : aq[id].t = e.t})      \* the request is finished: its queries are gone
       /\ UNCHANGED <<acfg, afd, auth, areq, credit, unauth, tin>> /\ Acc

HSrv(e) ==
  IF e.ok = 0 THEN Skip
  ELSE IF e.s \in DOMAIN credit /\ credit[e.s] > 0
       THEN credit' = [credit EXCEPT ![e.s] = @ - 1] /\ UNCHANGED <<acfg, afd, aq, auth, areq, unauth, tin>> /\ Acc
       ELSE LET srvOf(pid) == pid   \* reasons of the packets read in this call are in unauth; name the latest
                late == {pid \in DOMAIN unauth : \A p2 \in DOMAIN unauth : p2 <= pid}
            IN Rej("c05.success_credited." \o (IF late = {} THEN "without_any_packet" ELSE unauth[CHOOSE x \in late : TRUE]))

Handle(e) ==
  CASE e.e = "init" -> acfg' = e /\ UNCHANGED <<afd, aq, auth, areq, credit, unauth, tin>> /\ Acc
    [] e.e = "call" ->
         IF e.api = "process" THEN credit' = <<>> /\ UNCHANGED <<acfg, afd, aq, auth, areq, unauth, tin>> /\ Acc
         ELSE IF "name" \in DOMAIN e /\ "qt" \in DOMAIN e /\ e.t \notin DOMAIN areq
              THEN areq' = areq @@ (e.t :> [lname |-> e.name, qt |-> e.qt, qc |-> IF "qc" \in DOMAIN e THEN e.qc ELSE 1]) /\ UNCHANGED <<acfg, afd, aq, auth, credit, unauth, tin>> /\ Acc
         ELSE IF e.api \in {"setservers", "reinit"} THEN Stop
         ELSE Skip
    [] e.e = "sk" -> HSk(e)
    [] e.e = "env" -> IF e.op = "stream" /\ e.fd \in DOMAIN tin
                      THEN tin' = [tin EXCEPT ![e.fd].pk = Append(@, e)] /\ UNCHANGED avars /\ Acc ELSE Skip
    [] e.e = "cbb" -> HCbb(e)
    [] e.e = "srv" -> HSrv(e)
    [] e.e = "crash" -> Rej("c05.crash." \o e.sum)     \* a sanitizer report or abnormal end inside a history of this family
    [] OTHER -> Skip

Verdict == [verdict |-> IF bad /\ why.label # "" THEN "REJ" ELSE "ACC", id |-> hid, line |-> why.line, label |-> why.label]
TInit == AInit /\ tin = <<>> /\ l = 1 /\ bad = FALSE /\ why = [line |-> 0, label |-> ""] /\ hid = ""
TNext ==
  /\ l <= Len(Tr) /\ l' = l + 1
  /\ LET e == Tr[l] IN
       IF e.e = "reset" THEN
            /\ (hid # "" => PrintT(ToJson(Verdict)))
            /\ acfg' = [dns0x20 |-> 0] /\ afd' = <<>> /\ aq' = <<>> /\ auth' = <<>> /\ areq' = <<>> /\ credit' = <<>> /\ unauth' = <<>> /\ tin' = <<>>
            /\ bad' = FALSE /\ why' = [line |-> 0, label |-> ""] /\ hid' = e.id
       ELSE hid' = hid /\ (IF bad THEN Skip ELSE Handle(e))
TSpec == TInit /\ [][TNext]_tvars
=============================================================================
