CONSTANTS
  Cfgs <- C08Cfgs
  Variants = {"q1", "q1case", "q1dot", "q1aaaa", "s1", "s1cd", "s1nord", "l1", "q2"}
  Kinds = {"ok60", "ok5", "ok0", "okmix", "cname", "nx", "nx_nosoa", "nodata", "servfail", "tc", "okbig", "okglue"}
  Advances = {1000, 4000, 6000, 11000, 61000}
  Extras = {"setsame", "setadd", "setother", "reinit", "timeout"}
  MaxReq = 8
  MaxLen = 16
INIT GInit
NEXT GNext
INVARIANT Emit
CHECK_DEADLOCK FALSE
