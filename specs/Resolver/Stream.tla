------------------------------ MODULE Stream ------------------------------
(* Facet "transport chopping" of the c-ares resolver contract (property C20).

   Abstract state: for every connection the bytes the server has sent so far as
   a queue of whole messages plus the number of bytes the library has actually
   read (inbound), the frames the server has received complete and whether a
   partial write is outstanding (outbound); for every live wire query its
   question, connection and transport; the answers that became COMPLETE in the
   current processing call and are acceptable final answers (they must be
   delivered before the call returns, however the bytes were chopped); the UDP
   queries whose answer came back truncated (they must continue over TCP).   *)
EXTENDS Naturals, Integers, Sequences, FiniteSets, TLC

VARIABLES tcfg,   \* configuration
          tfd,    \* fd -> [tcp, srv, inb (bytes read, not yet consumed by complete messages), pk (messages queued by the server),
                  \*        wpend (partial write outstanding), lastseq (call order of the latest first transmission seen)]
          tq,     \* qid -> [t, lname, name, qt, fd, tcp, ntx]
          due,    \* qids whose acceptable final answer is complete: delivery owed before the outermost return
          got,    \* qids for which a complete acceptable final answer has been read at some point
          mustTcp,\* qids that received a truncated UDP answer
          cseq    \* token -> order of its API call

zvars == <<tcfg, tfd, tq, due, got, mustTcp, cseq>>

ZInit == /\ tcfg = [igntc |-> 0, tcpfail |-> FALSE] /\ tfd = <<>> /\ tq = <<>> /\ due = {} /\ got = {} /\ mustTcp = {} /\ cseq = <<>>

SameQ(rec, p) == /\ p.qt = rec.qt /\ p.qc = rec.qc
                 /\ IF tcfg.dns0x20 = 1 /\ ~rec.tcp THEN p.name = rec.name ELSE p.lname = rec.lname
(* an answer that ends the query successfully, read completely from fd *)
FinalAnswer(fd, p) ==
  /\ p.parse = 1 /\ p.qid \in DOMAIN tq /\ tq[p.qid].fd = fd /\ SameQ(tq[p.qid], p)
  /\ p.rcode \in {0, 3} /\ p.clen = 0
  /\ (p.tc = 0 \/ tfd[fd].tcp \/ tcfg.igntc = 1)
Truncated(fd, p) ==
  /\ p.parse = 1 /\ p.qid \in DOMAIN tq /\ tq[p.qid].fd = fd /\ SameQ(tq[p.qid], p)
  /\ p.tc = 1 /\ ~tfd[fd].tcp /\ tcfg.igntc = 0 /\ p.clen = 0 /\ p.rcode # 1
=============================================================================
