------------------------------ MODULE GenCookie ------------------------------
(* Generator of cookie-oriented histories (C17): a sequence of query/response
   exchanges with one server whose cookie behaviour varies (none, valid, changed
   server part, wrong client part, malformed length, BADCOOKIE with/without
   cookie, support disappearing), source-address changes and virtual-time
   advances across the 120 s / 1 day timers, including whole-second instants. *)
EXTENDS Naturals, Sequences, FiniteSets, TLC, Json

CONSTANTS Cfgs, Kinds, Advances, Extras, MaxReq, MaxLen
VARIABLES cfg, h, nreq
gvars == <<cfg, h, nreq>>

Name(t) == "n" \o ToString(t) \o ".test"
ReplyStep(k) ==
  LET b == [op |-> "reply", tx |-> "last"] IN
  CASE k = "echo" -> b @@ [kind |-> "ok", cookie |-> "echo"]
    [] k = "none" -> b @@ [kind |-> "ok", cookie |-> "none"]
    [] k = "s1" -> b @@ [kind |-> "ok", cookie |-> "srv:S1"]
    [] k = "s2" -> b @@ [kind |-> "ok", cookie |-> "srv:S2"]
    [] k = "wrongclient" -> b @@ [kind |-> "ok", cookie |-> "wrongclient:S9"]
    [] k = "short" -> b @@ [kind |-> "ok", cookie |-> "short"]
    [] k = "long" -> b @@ [kind |-> "ok", cookie |-> "long"]
    [] k = "bad_s3" -> b @@ [kind |-> "badcookie", cookie |-> "srv:S3"]
    [] k = "bad_echo" -> b @@ [kind |-> "badcookie", cookie |-> "echo"]
    [] k = "bad_none" -> b @@ [kind |-> "badcookie", cookie |-> "none"]
    [] k = "tc" -> b @@ [kind |-> "tc", cookie |-> "echo"]

GInit == cfg \in Cfgs /\ h = <<>> /\ nreq = 0
LastOp == IF Len(h) = 0 THEN "" ELSE h[Len(h)].op
(* one exchange: a fresh request immediately followed by a reply of the given kind *)
Exchange == /\ nreq < MaxReq
            /\ \E k \in Kinds : h' = h \o <<[op |-> "query", t |-> nreq + 1, name |-> Name(nreq + 1), qt |-> 1], ReplyStep(k)>>
            /\ nreq' = nreq + 1 /\ UNCHANGED cfg
(* a further reply makes sense when the previous one was refused / caused a resend *)
LastKindPending == Len(h) > 0 /\ h[Len(h)].op = "reply" /\ (h[Len(h)].kind = "badcookie" \/ h[Len(h)].cookie \in {"none", "wrongclient:S9", "short", "long"})
Reply == /\ nreq > 0 /\ (LastKindPending \/ "anyreply" \in Extras)
         /\ \E k \in Kinds : h' = Append(h, ReplyStep(k)) /\ UNCHANGED <<cfg, nreq>>
Adv == /\ LastOp # "adv" /\ \E ms \in Advances : h' = Append(h, [op |-> "adv", ms |-> ms]) /\ UNCHANGED <<cfg, nreq>>
Extra == /\ nreq > 0
         /\ \/ ("srcip" \in Extras /\ LastOp # "srcip" /\ h' = Append(h, [op |-> "srcip", ip |-> 2]))
            \/ ("timeout" \in Extras /\ h' = h \o <<[op |-> "adv", to |-> "deadline"], [op |-> "process"]>>)
            \/ ("process" \in Extras /\ LastOp # "process" /\ h' = Append(h, [op |-> "process", r |-> "all", w |-> "all"]))
         /\ UNCHANGED <<cfg, nreq>>
(* a request left unanswered for now, and a late reply to the earliest transmission of an earlier request
   (possibly sent with a client cookie that has been replaced since) *)
Pending == /\ "pending" \in Extras /\ nreq < MaxReq
           /\ h' = Append(h, [op |-> "query", t |-> nreq + 1, name |-> Name(nreq + 1), qt |-> 1])
           /\ nreq' = nreq + 1 /\ UNCHANGED cfg
LateReply == /\ "latereply" \in Extras /\ nreq > 1
             /\ \E t \in 1..(nreq - 1), k \in Kinds :
                   h' = Append(h, [ReplyStep(k) EXCEPT !.tx = "name:n" \o ToString(t) \o "."] @@ [nth |-> 1])
             /\ UNCHANGED <<cfg, nreq>>
GNext == Len(h) < MaxLen /\ (Exchange \/ Reply \/ Adv \/ Extra \/ Pending \/ LateReply)
Emit == h # <<>> => PrintT(ToJson([cfg |-> cfg, steps |-> h]))
=============================================================================
