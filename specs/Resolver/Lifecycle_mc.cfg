CONSTANTS
  Tokens = {1, 2, 3}
  MaxDepth = 5
INIT LInit
NEXT LNext
INVARIANTS ExactlyOnce DoneIffCalled NoneAfterDestroy OwedArePending
CHECK_DEADLOCK FALSE
