CONSTANTS
  Cfgs <- C10CfgFaultCfgs
  Apis = {"query"}
  Nests = {"none"}
  Kinds = {"ok"}
  Faults = {"bind", "setsockopt", "getsockname", "socket"}
  Extras = {"timeout"}
  MaxReq = 2
  MaxLen = 4
INIT GInit
NEXT GNext
INVARIANT Emit
CHECK_DEADLOCK FALSE
