------------------------------ MODULE Lookup ------------------------------
(* Facet "address lookups" of the c-ares resolver contract (property C13).

   For every getaddrinfo / gethostbyname request: the set of (address, TTL,
   family) triples carried by the class-IN A/AAAA records of the accepted
   answers to the request's own queries; the result handed to the callback must
   be exactly that set restricted to the requested family (no invention, no
   duplicate, no loss by sorting), each with the requested port; or, when DNS
   gave nothing, exactly the hosts-file entries of the name, the literal, or the
   loopback addresses.  For reverse lookups: the question must be exactly the
   reverse-map name of the address and the names returned the PTR targets.    *)
EXTENDS Naturals, Integers, Sequences, FiniteSets, TLC

VARIABLES lcfg, lr, lq, lfd, lc, lnow
(* lr: token -> request record; lq: qid -> [t, fd, qt]; lfd: fd -> srv;
   lc: <<lower-case name, type>> -> [recs, at] the last cacheable answer accepted for that question (query cache on);
   lnow: virtual ms *)
lvars2 == <<lcfg, lr, lq, lfd, lc, lnow>>
LInit2 == lcfg = [hostsfile |-> 0, usefile |-> 0, qcache |-> 0] /\ lr = <<>> /\ lq = <<>> /\ lfd = <<>> /\ lc = <<>> /\ lnow = 0

(* A sub-query of a lookup that is answered without any transmission is answered from the query cache: its
   contribution is the cached answer's address records, each TTL lowered by the whole seconds spent in the cache.
   (Which answers may be cached and for how long is property C08; here only what a hit contributes.) *)
Needed(fam) == IF fam = 4 THEN {1} ELSE IF fam = 6 THEN {28} ELSE {1, 28}
Aged(x, secs) == [x EXCEPT !.ttl = IF x.ttl > secs THEN x.ttl - secs ELSE 0]
FromCache(name, qt) ==
  IF <<name, qt>> \in DOMAIN lc THEN {Aged(x, (lnow - lc[<<name, qt>>].at) \div 1000) : x \in lc[<<name, qt>>].recs} ELSE {}

(* the fixed hosts database the harness installs when hostsfile = 1 (address codes: -1000 - last byte) *)
HostsDb(name) ==
  IF lcfg.hostsfile = 0 THEN {}
  ELSE CASE name = "h1.test" -> {[m |-> -1003, ttl |-> 0, f |-> 4], [m |-> -1004, ttl |-> 0, f |-> 4], [m |-> -1007, ttl |-> 0, f |-> 6]}
         [] name = "h2.test" -> {[m |-> -1005, ttl |-> 0, f |-> 4]}
         [] name = "alias2.test" -> {[m |-> -1005, ttl |-> 0, f |-> 4]}
         [] name = "long6.test" -> {[m |-> -1007, ttl |-> 0, f |-> 6]}
         [] name = "short6.test" -> {[m |-> -1006, ttl |-> 0, f |-> 6]}
         [] name = "v4only.localhost" -> {[m |-> -1006, ttl |-> 0, f |-> 4]}
         [] name = "v6only.localhost" -> {[m |-> -1008, ttl |-> 0, f |-> 6]}
         [] OTHER -> {}
IsLocalName(n) == n \in {"localhost", "v4only.localhost", "v6only.localhost", "other.localhost"}
Loopback == {[m |-> -1001, ttl |-> 0, f |-> 4], [m |-> -1001, ttl |-> 0, f |-> 6]}
FamOk(fam, r) == fam = 0 \/ r.f = fam

(* what a successful forward lookup may return *)
Expected(r) ==
  LET cached == UNION {FromCache(r.name, qt) : qt \in Needed(r.family) \ r.sentq}
      dns == {x \in r.exp \cup cached : FamOk(r.family, x)}
      hosts == {x \in HostsDb(r.name) : FamOk(r.family, x)}
      usesfile == lcfg.usefile = 1
  IN IF r.lit # 0 THEN {{[m |-> r.lit, ttl |-> 0, f |-> IF r.family = 0 THEN 4 ELSE r.family]}, {[m |-> r.lit, ttl |-> 0, f |-> 6]}, {[m |-> r.lit, ttl |-> 0, f |-> 4]}}
     ELSE IF IsLocalName(r.name) THEN
          \* RFC 6761: localhost names are never sent to DNS; what the hosts database lists is used, and the loopback
          \* address is supplied for every requested family the database has nothing for
          LET h == IF usesfile THEN hosts ELSE {}
              fams == {x.f : x \in h}
          IN {h \cup {x \in Loopback : FamOk(r.family, x) /\ x.f \notin fams}}
     ELSE IF dns # {} THEN {dns}
     ELSE IF usesfile THEN {hosts} ELSE {}

ReverseName4(a) == ToString(a % 256) \o "." \o ToString(a \div 256) \o ".1.10.in-addr.arpa"
Zeros(n) == [i \in 1..n |-> "0."]
RECURSIVE Cat(_, _)
Cat(s, i) == IF i > Len(s) THEN "" ELSE s[i] \o Cat(s, i + 1)
(* 2001::00aa with a < 10 (one decimal digit nibble) *)
ReverseName6(a) == ToString(a) \o "." \o Cat(Zeros(27), 1) \o "1.0.0.2.ip6.arpa"
(* 2001:db8:1111:2222:3333:4444:5555:000a with a < 10 *)
ReverseName6L(a) == ToString(a) \o ".0.0.0.5.5.5.5.4.4.4.4.3.3.3.3.2.2.2.2.1.1.1.1.8.b.d.0.1.0.0.2.ip6.arpa"
(* 2001:db8:9abc:def0:1234:5678:fedc:000a with a < 10: every hexadecimal digit occurs in the reverse-map name *)
ReverseName6X(a) == ToString(a) \o ".0.0.0.c.d.e.f.8.7.6.5.4.3.2.1.0.f.e.d.c.b.a.9.8.b.d.0.1.0.0.2.ip6.arpa"

(* reverse side of the hosts database: the first name on the line of that address ("" = not listed) *)
HostsRev(fam, a, long) ==
  IF lcfg.hostsfile = 0 THEN ""
  ELSE IF fam = 4 THEN (CASE a = 515 -> "h1.test" [] a = 516 -> "h1.test" [] a = 517 -> "h2.test" [] OTHER -> "")
  ELSE IF long = 1 THEN (IF a = 7 THEN "long6.test" ELSE "")
  ELSE (IF a = 6 THEN "short6.test" ELSE "")
FileFirst == lcfg.usefile = 1 /\ lcfg.lookups \in {"fb", "f"}
FileUsed == lcfg.usefile = 1
=============================================================================
