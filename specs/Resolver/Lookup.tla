------------------------------ MODULE Lookup ------------------------------
(* Facet "address lookups" of the c-ares resolver contract (property C13).

   For every getaddrinfo / gethostbyname request: the set of (address, TTL,
   family) triples carried by the class-IN A/AAAA records of the accepted
   answers to the request's own queries; the result handed to the callback must
   be exactly that set restricted to the requested family (no invention, no
   duplicate, no loss by sorting), each with the requested port; or, when DNS
   gave nothing, exactly the hosts-file entries of the name, the literal, or the
   loopback addresses.  For reverse lookups: the question must be exactly the
   reverse-map name of the address and the names returned the PTR targets.    *)
EXTENDS Naturals, Integers, Sequences, FiniteSets, TLC

VARIABLES lcfg, lr, lq, lfd
(* lr: token -> request record; lq: qid -> [t, fd, qt]; lfd: fd -> srv *)
lvars2 == <<lcfg, lr, lq, lfd>>
LInit2 == lcfg = [hostsfile |-> 0, usefile |-> 0] /\ lr = <<>> /\ lq = <<>> /\ lfd = <<>>

(* the fixed hosts database the harness installs when hostsfile = 1 (address codes: -1000 - last byte) *)
HostsDb(name) ==
  IF lcfg.hostsfile = 0 THEN {}
  ELSE CASE name = "h1.test" -> {[m |-> -1003, ttl |-> 0, f |-> 4], [m |-> -1004, ttl |-> 0, f |-> 4], [m |-> -1007, ttl |-> 0, f |-> 6]}
         [] name = "h2.test" -> {[m |-> -1005, ttl |-> 0, f |-> 4]}
         [] name = "alias2.test" -> {[m |-> -1005, ttl |-> 0, f |-> 4]}
         [] OTHER -> {}
Loopback == {[m |-> -1001, ttl |-> 0, f |-> 4], [m |-> -1001, ttl |-> 0, f |-> 6]}
FamOk(fam, r) == fam = 0 \/ r.f = fam

(* what a successful forward lookup may return *)
Expected(r) ==
  LET dns == {x \in r.exp : FamOk(r.family, x)}
      hosts == {x \in HostsDb(r.name) : FamOk(r.family, x)}
      usesfile == lcfg.usefile = 1
  IN IF r.lit # 0 THEN {{[m |-> r.lit, ttl |-> 0, f |-> IF r.family = 0 THEN 4 ELSE r.family]}, {[m |-> r.lit, ttl |-> 0, f |-> 6]}, {[m |-> r.lit, ttl |-> 0, f |-> 4]}}
     ELSE IF r.name = "localhost" THEN {{x \in Loopback : FamOk(r.family, x)}}
     ELSE IF dns # {} THEN {dns}
     ELSE IF usesfile THEN {hosts} ELSE {}

ReverseName4(a) == ToString(a % 256) \o "." \o ToString(a \div 256) \o ".1.10.in-addr.arpa"
Zeros(n) == [i \in 1..n |-> "0."]
RECURSIVE Cat(_, _)
Cat(s, i) == IF i > Len(s) THEN "" ELSE s[i] \o Cat(s, i + 1)
(* 2001::00aa with a < 10 (one decimal digit nibble) *)
ReverseName6(a) == ToString(a) \o "." \o Cat(Zeros(27), 1) \o "1.0.0.2.ip6.arpa"
=============================================================================
