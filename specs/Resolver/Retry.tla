------------------------------- MODULE Retry -------------------------------
(* Facet "retry / failover / timers" of the c-ares resolver contract
   (properties C06, C09 and the single-threaded half of C07).

   Abstract state: virtual time, per-server health (consecutive failures, time
   of the next allowed probe, latency history from which the base timeout is
   learned), per-descriptor server/transport, and for every live wire query its
   retry counters, transport, EDNS state, current assignment and the interval
   in which its deadline must lie.

   Environment inputs: API calls, time advances, results of socket calls
   (packets read, send/recv errors).  Library outputs: transmissions,
   server-state notifications, completion callbacks, returns, timeout hints.
   Every library output is guarded by what the documented policy allows in the
   current state; an environment input updates the state and creates the
   obligations (retransmit / complete / notify) that must be discharged before
   the outermost API call returns.                                            *)
EXTENDS Naturals, Integers, Sequences, FiniteSets, TLC

VARIABLES cfg,      \* channel configuration record (from the "init" event)
          now,      \* virtual ms
          srv,      \* s -> [fails, nextRetry, m (latency buckets), idx (position in the configured list)]
          fdi,      \* fd -> [srv, tcp, open]
          q,        \* qid -> wire query record
          owedF,    \* s -> number of failure notifications owed
          owedO,    \* s -> number of success notifications owed
          proc,     \* [in, nonfd, nrecv, inbox]: the process call in progress; inbox = datagrams read but not yet processed
          oos       \* out of scope for this facet (history no longer judged)

rvars == <<cfg, now, srv, fdi, q, owedF, owedO, proc, oos>>

Sat == 1073741824   \* 2^30: saturation bound for timeout arithmetic (TLC integers are 32 bit)
Min(a, b) == IF a < b THEN a ELSE b
Max(a, b) == IF a > b THEN a ELSE b

(* ---- latency history and base timeout (ares_metrics.c) ------------------- *)
Divisor(b) == CASE b = 1 -> 60 [] b = 2 -> 900 [] b = 3 -> 3600 [] b = 4 -> 86400 [] OTHER -> 0
NowSec(t) == 1000000 + t \div 1000
BucketTs(b, t, prev) ==
  IF b = 5 THEN (IF prev THEN 0 ELSE 1)
  ELSE IF prev THEN (IF Divisor(b) >= NowSec(t) THEN 0 ELSE (NowSec(t) - Divisor(b)) \div Divisor(b))
  ELSE NowSec(t) \div Divisor(b)
EmptyBucket == [ts |-> 0, cnt |-> 0, tot |-> 0, pts |-> 0, pcnt |-> 0, ptot |-> 0]
EmptyMetrics == [b \in 1..5 |-> EmptyBucket]
RecordLatency(m, t, ms) ==
  [b \in 1..5 |->
     LET ts == BucketTs(b, t, FALSE)
         mb == IF ts # m[b].ts
               THEN [ts |-> ts, cnt |-> 0, tot |-> 0, pts |-> m[b].ts, pcnt |-> m[b].cnt, ptot |-> m[b].tot]
               ELSE m[b]
     IN [mb EXCEPT !.cnt = @ + 1, !.tot = @ + ms]]
RECURSIVE LearnedFrom(_, _, _)
LearnedFrom(m, t, b) ==        \* 0 = nothing learned
  IF b > 5 THEN 0
  ELSE IF BucketTs(b, t, FALSE) = m[b].ts /\ m[b].cnt >= 3 THEN (m[b].tot \div m[b].cnt) * 5
  ELSE IF BucketTs(b, t, TRUE) = m[b].pts /\ m[b].pcnt >= 3 THEN (m[b].ptot \div m[b].pcnt) * 5
  ELSE LearnedFrom(m, t, b + 1)
MaxTo == IF cfg.maxtimeout > 0 THEN cfg.maxtimeout ELSE 5000
BaseTimeout(s, t) ==
  LET l == LearnedFrom(srv[s].m, t, 1)
      raw == IF l = 0 THEN cfg.timeout ELSE l
  IN Min(Max(raw, 250), MaxTo)

RECURSIVE Dbl(_, _)
Dbl(x, r) == IF r = 0 \/ x >= Sat THEN Min(x, Sat) ELSE Dbl(2 * x, r - 1)
NSrv == Cardinality(DOMAIN srv)
(* the deadline of an attempt made at time t to server s by a query with try count tr lies in [Lo, Hi] *)
AttemptLo(s, t, tr) == t + BaseTimeout(s, t)
AttemptHi(s, t, tr) ==
  LET base == BaseTimeout(s, t)
      d == Dbl(base, tr \div NSrv)
      capped == IF cfg.maxtimeout > 0 THEN Min(d, cfg.maxtimeout) ELSE d
  IN t + Max(capped, base)

(* ---- server selection (C09) ------------------------------------------------ *)
MinFailsIn(sv) == CHOOSE n \in {sv[s].fails : s \in DOMAIN sv} : \A s \in DOMAIN sv : sv[s].fails >= n
BestIn(sv) == {s \in DOMAIN sv : sv[s].fails = MinFailsIn(sv)}
FirstBestIn(sv) == CHOOSE s \in BestIn(sv) : \A s2 \in BestIn(sv) : sv[s].idx <= sv[s2].idx   \* configuration order
(* equal positions only occur while a list edit is in progress (a server about to be removed keeps its old position): either is a legal choice *)
FreshChoiceOkIn(sv, s) == /\ s \in BestIn(sv)
                          /\ (cfg.rotate = 1 \/ \A s2 \in BestIn(sv) : sv[s].idx <= sv[s2].idx)
Best == BestIn(srv)
FirstBest == FirstBestIn(srv)
FreshChoiceOk(s) == FreshChoiceOkIn(srv, s)
MaxTries == NSrv * cfg.tries

(* ---- queries ----------------------------------------------------------------- *)
Live(t, qt) == {id \in DOMAIN q : q[id].t = t /\ q[id].qt = qt /\ ~q[id].probe}
OnFd(fd) == {id \in DOMAIN q : q[id].st = "inflight" /\ q[id].fd = fd}

(* requeue: what the retry policy does with a query that needs another attempt *)
Requeued(rec, inc, err) ==
  LET tr == IF inc THEN rec.try + 1 ELSE rec.try
      e == IF err # "" THEN err ELSE rec.err
  IN IF tr < MaxTries /\ ~rec.noretry
     THEN [rec EXCEPT !.st = "tosend", !.try = tr, !.err = e, !.reqsrv = 0, !.qsrv = 0]
     ELSE [rec EXCEPT !.st = "ending", !.try = tr, !.err = e,
                      !.endst = IF e = "" THEN "ETIMEOUT" ELSE e, !.endrc = -1]

(* the same with an explicit budget (used while the server list is being edited) *)
RequeuedN(rec, maxtries) ==
  LET tr == rec.try + 1 IN
  IF tr < maxtries /\ ~rec.noretry THEN [rec EXCEPT !.st = "tosend", !.try = tr, !.reqsrv = 0, !.qsrv = 0]
  ELSE [rec EXCEPT !.st = "ending", !.try = tr, !.endst = IF rec.err = "" THEN "ETIMEOUT" ELSE rec.err, !.endrc = -1]

(* ---- editing the server list (ares_set_servers*, reinit) --------------------------------------------- *)
(* Servers that stay keep their health and take their new position; new ones start fresh.  Servers that are no longer
   listed are destroyed one after the other in list order (least failures first, then position); destroying one
   closes its connections and requeues what was in flight on it with one more try -- possibly onto a server that is
   itself destroyed a moment later.  While anything is in flight on a removed server it therefore stays a member,
   marked dying, until its turn comes. *)
RECURSIVE PosIn(_, _, _)
PosIn(L, s, i) == IF i > Len(L) THEN 0 ELSE IF L[i] = s THEN i ELSE PosIn(L, s, i + 1)
SeqSet(L) == {L[i] : i \in 1..Len(L)}
(* assigned to server s: in flight on it, or queued on a TCP connection to it (not yet written) *)
InflightOnIn(qq, s) == {id \in DOMAIN qq : \/ (qq[id].st = "inflight" /\ qq[id].srv = s)
                                           \/ (qq[id].st = "tosend" /\ qq[id].tcp /\ qq[id].qsrv = s)}
ListEdit(sv, qq, L) ==
  LET keep == SeqSet(L)
      gone == (DOMAIN sv) \ keep
      busy == \E s \in gone : InflightOnIn(qq, s) # {}
      all == IF busy THEN keep \cup gone ELSE keep
  IN [s \in all |-> IF s \in keep
                     THEN (IF s \in DOMAIN sv THEN [sv[s] EXCEPT !.idx = PosIn(L, s, 1)]
                           ELSE [fails |-> 0, nextRetry |-> 0, m |-> EmptyMetrics, idx |-> PosIn(L, s, 1), dying |-> FALSE])
                     ELSE [sv[s] EXCEPT !.dying = TRUE]]
DyingIn(sv) == {s \in DOMAIN sv : sv[s].dying}
BeforeIn(sv, a, b) == sv[a].fails < sv[b].fails \/ (sv[a].fails = sv[b].fails /\ sv[a].idx < sv[b].idx)
(* the turn of dying server s has come: it leaves together with the dying servers before it that had nothing in flight *)
DestroySet(sv, qq, s) == {d \in DyingIn(sv) : d = s \/ (BeforeIn(sv, d, s) /\ InflightOnIn(qq, d) = {})}
AfterDestroyX(sv, qq, s, extra) ==      \* extra: further queries taken to be assigned to s (see the trace specification)
  LET n2 == (Cardinality(DOMAIN sv) - Cardinality(DestroySet(sv, qq, s))) * cfg.tries IN
  [id \in DOMAIN qq |-> IF id \in InflightOnIn(qq, s) \cup extra THEN RequeuedN(qq[id], n2) ELSE qq[id]]
AfterDestroy(sv, qq, s) == AfterDestroyX(sv, qq, s, {})

FailServerIn(sv, s) == [sv EXCEPT ![s].fails = @ + 1, ![s].nextRetry = now + cfg.retrydelay]
FailServer(s) == FailServerIn(srv, s)

(* status a query-style entry point reports for an accepted final answer *)
MapStatus(api, rcode, an) ==
  IF api \in {"send", "lsend"} THEN "SUCCESS"
  ELSE CASE rcode = 0 -> (IF an > 0 THEN "SUCCESS" ELSE "ENODATA")
         [] rcode = 1 -> "EFORMERR"
         [] rcode = 2 -> "ESERVFAIL"
         [] rcode = 3 -> "ENOTFOUND"
         [] rcode = 4 -> "ENOTIMP"
         [] rcode = 5 -> "EREFUSED"
         [] OTHER -> "SUCCESS"

RcodeErr(rc) == CASE rc = 2 -> "ESERVFAIL" [] rc = 4 -> "ENOTIMP" [] rc = 5 -> "EREFUSED" [] OTHER -> ""

RInit == /\ cfg = [nsrv |-> 0]
         /\ now = 0
         /\ srv = <<>> /\ fdi = <<>> /\ q = <<>> /\ owedF = <<>> /\ owedO = <<>>
         /\ proc = [in |-> FALSE, nonfd |-> FALSE, nrecv |-> 0, inbox |-> <<>>, ss |-> 0]
         /\ oos = FALSE

(* ---- the properties, as state predicates evaluated by the trace specification --- *)
(* C06: transmissions of one query never exceed servers x tries + 1 (EDNS) + 1 (TCP) + 3 (cookie) *)
BudgetBound == \A id \in DOMAIN q : q[id].ntx <= MaxTries + 5
(* quiescence when an outermost call returns: every obligation discharged *)
NothingOwed == /\ \A id \in DOMAIN q : q[id].st = "inflight"
               /\ \A s \in DOMAIN srv : owedF[s] = 0 /\ owedO[s] = 0
(* C07: processing the channel at or after a deadline retries or fails the query *)
NoneOverdue == \A id \in DOMAIN q : q[id].st = "inflight" => now < q[id].dhi
(* C07: hint never later than the earliest pending deadline, never negative, never above the caller's max *)
Inflight == {id \in DOMAIN q : q[id].st = "inflight"}
HintSound(us, maxms) ==
  /\ (Inflight # {} => us >= 0)
  /\ \A id \in Inflight : q[id].dhi < Sat => us <= Max(q[id].dhi - now, 0) * 1000     \* dhi = Sat: deadline not modelled (TCP)
  /\ (maxms > 0 /\ us >= 0 => us <= maxms * 1000)
  /\ (Inflight = {} => (IF maxms > 0 THEN us = maxms * 1000 ELSE us = -1))
=============================================================================
