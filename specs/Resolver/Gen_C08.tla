------------------------------ MODULE Gen_C08 ------------------------------
EXTENDS GenCache
C08Cfgs == { [nsrv |-> 1, tries |-> 2, timeout |-> 1000, seed |-> 1, qcache |-> 3600],
             [nsrv |-> 1, tries |-> 2, timeout |-> 1000, seed |-> 2, qcache |-> 10, dns0x20 |-> 1],
             [nsrv |-> 1, tries |-> 2, timeout |-> 1000, seed |-> 3, qcache |-> 0],
             [nsrv |-> 1, tries |-> 2, timeout |-> 1000, seed |-> 4, qcache |-> 3600, igntc |-> 1] }
C08TypeCfgs == { [nsrv |-> 1, tries |-> 2, timeout |-> 1000, seed |-> 1, qcache |-> 3600] }
=============================================================================
