--------------------------- MODULE RetryTrace ---------------------------
(* Trace validation of recorded cares_sim executions against Retry.tla
   (C06 retry budget / timing, C09 server selection, C07 timers, single-threaded).
   Scope: requests made through the send/query entry points; histories that use
   features this facet does not model (search/getaddrinfo pipelines, server-list
   edits, failures while opening a connection, DNS cookies beyond the plain echo,
   several packets read by one processing call, partial TCP writes) are marked
   out of scope from that point on and not judged by this facet.              *)
EXTENDS Retry, Json, IOUtils

Tr == ndJsonDeserialize(IOEnv.TRACE)

VARIABLES l, bad, why, hid, toks, tcpin, openfail, newtry,
          nest,     \* number of API calls in progress (1 = only the outermost one)
          fi        \* frames of the current (TCP) write event already judged: one frame per step
(* openfail: opening a connection (socket / connect / local address) just failed and the failure has not been
   attributed yet; newtry: token -> tries already consumed by a request that has not transmitted anything yet *)
tvars == <<rvars, l, bad, why, hid, toks, tcpin, openfail, newtry, nest, fi>>
xvars == <<toks, tcpin, openfail, newtry>>

Rej(label) == /\ bad' = TRUE /\ why' = [line |-> l, label |-> label]
              /\ UNCHANGED <<rvars, xvars>>
Acc == UNCHANGED <<bad, why>>
Skip == UNCHANGED <<rvars, xvars, bad, why>>
OutOfScope == /\ oos' = TRUE /\ UNCHANGED <<cfg, now, srv, fdi, q, owedF, owedO, proc, xvars>> /\ Acc
ToSet(s) == {s[i] : i \in 1..Len(s)}
Without(f, S) == [x \in (DOMAIN f) \ S |-> f[x]]

(* probes that reached the end of their life complete silently *)
DropDoneProbes(qq) == Without(qq, {id \in DOMAIN qq : qq[id].probe /\ qq[id].st = "ending"})

SimpleApis == {"send", "query", "lsend", "lquery"}

(* ---- init / calls / time ---------------------------------------------------- *)
HInit(e) ==
  /\ cfg' = e
  /\ srv' = [s \in 1..e.nsrv |-> [fails |-> 0, nextRetry |-> 0, m |-> EmptyMetrics, idx |-> s, dying |-> FALSE]]
  /\ owedF' = [s \in 1..e.nsrv |-> 0]
  /\ owedO' = [s \in 1..e.nsrv |-> 0]
  /\ UNCHANGED <<now, fdi, q, proc, oos, xvars>> /\ Acc

Probes == {id \in DOMAIN q : q[id].probe}

(* ares_set_servers*: servers that stay keep their health and connections and take their new position;
   new ones start fresh; removed ones are destroyed, their connections closed and the queries in
   flight on them requeued with one more try (and no error of their own) *)
Dying == DyingIn(srv)
InflightOn(s) == InflightOnIn(q, s)

(* Servers that are no longer listed are destroyed one after the other in list order; destroying one closes its
   connections and requeues what was in flight on them -- possibly onto a server that is itself destroyed a moment
   later, and then requeued again.  A removed server therefore stays a member (marked dying) until the trace shows
   its connections being closed or the call returns. *)
HSetServers(e) ==
  LET srv2 == ListEdit(srv, q, e.list)
      all == DOMAIN srv2
  IN
  IF Len(e.list) = 0 THEN OutOfScope
  ELSE /\ srv' = srv2
       /\ owedF' = [s \in all |-> IF s \in DOMAIN owedF THEN owedF[s] ELSE 0]
       /\ owedO' = [s \in all |-> IF s \in DOMAIN owedO THEN owedO[s] ELSE 0]
       \* a query waiting to be re-sent to a particular server (EDNS downgrade, deferred to the end of the batch being
       \* processed) goes to any server if that one is no longer listed
       /\ q' = DropDoneProbes([id \in DOMAIN q |-> IF q[id].st = "tosend" /\ q[id].reqsrv # 0 /\ q[id].reqsrv \notin SeqSet(e.list)
                                                  THEN [q[id] EXCEPT !.reqsrv = 0] ELSE q[id]])
       /\ now' = e.now
       /\ proc' = [proc EXCEPT !.ss = e.depth + 1]       \* nesting level at which the list edit runs
       /\ UNCHANGED <<cfg, fdi, oos, xvars>> /\ Acc

(* The first visible effect of destroying a dying server -- a query that was in flight on it is re-sent or
   completed, or one of its connections is closed -- shows that its turn has come: it leaves the list together
   with the dying servers before it in list order that had nothing in flight, and everything in flight on it is
   requeued.  This is a step of its own, taken before the event that revealed it is judged. *)
DyingTarget(e) ==
  IF e.e = "sk" /\ e.op = "send" THEN
       IF Len(e.frames) > fi /\ e.frames[fi + 1].qid \in DOMAIN q /\ q[e.frames[fi + 1].qid].st = "inflight"
          /\ q[e.frames[fi + 1].qid].srv \in Dying THEN q[e.frames[fi + 1].qid].srv ELSE 0
  ELSE IF e.e = "sk" /\ e.op = "close" THEN
       IF e.fd \in DOMAIN fdi /\ fdi[e.fd].srv \in Dying /\ ~fdi[e.fd].err THEN fdi[e.fd].srv ELSE 0
  ELSE IF e.e = "sk" /\ e.op = "open" THEN
       \* a connection is being opened while only the list edit itself is in progress (no callback is running) and nothing
       \* waits to be sent: it can only be for a query requeued from the dying server whose turn has come -- the first
       \* in list order that has something assigned to it
       LET busy == {d \in Dying : InflightOn(d) # {}}
           first == {d \in busy : \A d2 \in busy : d2 = d \/ BeforeIn(srv, d, d2)}
       IN IF nest = proc.ss /\ first # {} /\ \A id \in DOMAIN q : q[id].st = "tosend" => (q[id].tcp /\ q[id].qsrv # 0)
          THEN CHOOSE d \in first : TRUE ELSE 0
  ELSE IF e.e = "cbb" THEN
       LET ids == {id \in DOMAIN q : q[id].t = e.t /\ ~q[id].probe}
           onD == {id \in ids : \/ (q[id].st = "inflight" /\ q[id].srv \in Dying)
                                 \/ (q[id].st = "tosend" /\ q[id].tcp /\ q[id].qsrv \in Dying)}
           sOf(id) == IF q[id].st = "inflight" THEN q[id].srv ELSE q[id].qsrv
       IN IF e.st \notin {"ECANCELLED", "EDESTRUCTION"} /\ onD # {} /\ \A id \in ids : q[id].st # "ending"
          THEN sOf(CHOOSE id \in onD : TRUE) ELSE 0
  ELSE 0

DestroyStep(s) ==
  LET D == DestroySet(srv, q, s)
      \* a query waiting for a TCP connection whose server the trace did not reveal (it was queued on a connection that
      \* already existed: no event) may be on one of s: every case is explored, one accepted explanation suffices
      maybe == {id \in DOMAIN q : q[id].st = "tosend" /\ q[id].tcp /\ q[id].qsrv = 0 /\ ~q[id].probe}
  IN
  \E extra \in SUBSET maybe :
  /\ srv' = Without(srv, D)
  /\ owedF' = Without(owedF, D) /\ owedO' = Without(owedO, D)
  /\ q' = DropDoneProbes(AfterDestroyX(srv, q, s, extra))
  /\ UNCHANGED <<cfg, now, fdi, proc, oos, xvars>> /\ Acc

(* a connection is closed: nothing may be left in flight on it; datagrams read from it but not yet processed are discarded *)
HClose(e) ==
  IF e.fd \notin DOMAIN fdi \/ fdi[e.fd].srv = 0 THEN Skip
  ELSE IF OnFd(e.fd) # {} THEN Rej("c06.connection_closed_under_pending_query")
  ELSE /\ proc' = [proc EXCEPT !.inbox = SelectSeq(@, LAMBDA x : x.fd # e.fd)]
       /\ UNCHANGED <<cfg, now, srv, fdi, q, owedF, owedO, oos, xvars>> /\ Acc


HCall(e) ==
  IF e.api = "process" THEN
       /\ proc' = [in |-> TRUE, nonfd |-> (e.how # "fdonly"), nrecv |-> 0, inbox |-> <<>>, ss |-> 0]
       /\ now' = e.now
       /\ UNCHANGED <<cfg, srv, fdi, q, owedF, owedO, oos, xvars>> /\ Acc
  ELSE IF e.api \in SimpleApis \/ (e.api \in {"search", "lsearch"} /\ Len(cfg.domains) = 0 /\ cfg.hostaliases = 0) THEN
       \* a search without search domains has the name as given as its only candidate: it is a plain query
       /\ toks' = toks @@ (e.t :> (IF e.api = "search" THEN "query" ELSE IF e.api = "lsearch" THEN "lquery" ELSE e.api))
       /\ newtry' = newtry @@ (e.t :> 0)
       /\ now' = e.now
       /\ UNCHANGED <<cfg, srv, fdi, q, owedF, owedO, proc, oos, tcpin, openfail>> /\ Acc
  ELSE IF e.api \in {"cancel", "destroy"} THEN
       /\ q' = Without(q, Probes)          \* internal probe copies vanish silently
       /\ now' = e.now
       /\ UNCHANGED <<cfg, srv, fdi, owedF, owedO, proc, oos, xvars>> /\ Acc
  ELSE IF e.api = "pendwrite" THEN Skip
  ELSE IF e.api = "setservers" THEN HSetServers(e)
  ELSE OutOfScope

(* ---- transmissions ------------------------------------------------------------ *)
NewRec(f, fd, probe) ==
  [t |-> f.t, qt |-> f.qt, qc |-> f.qc, api |-> IF f.t \in DOMAIN toks THEN toks[f.t] ELSE "query", probe |-> probe,
   st |-> "tosend", try |-> (IF ~probe /\ f.t \in DOMAIN newtry THEN newtry[f.t] ELSE 0), ntx |-> 0, to |-> 0, fd |-> 0, srv |-> 0, sentAt |-> 0, dlo |-> 0, dhi |-> 0,
   tcp |-> (cfg.usevc = 1), edns |-> (f.edns = 1), reqsrv |-> 0, qsrv |-> 0, noretry |-> probe,
   err |-> (IF ~probe /\ f.t \in DOMAIN newtry /\ newtry[f.t] > 0 THEN "ECONNREFUSED" ELSE ""), endst |-> "", endrc |-> -1,
   sentopts |-> FALSE, lname |-> f.lname, name |-> f.name]

(* a probe copy accompanies a first attempt (just transmitted, or just queued on a TCP connection)
   and goes to a failed server whose retry delay has passed, other than the one that attempt uses.  The attempt may
   be that of an earlier probe copy of the same request: a probe answered with a truncated reply is repeated over TCP
   like any query, to the best server, and that is a first attempt too. *)
ProbeOk(f, dest) ==
  /\ cfg.retrychance # 0
  /\ srv[dest].fails > 0
  /\ now >= srv[dest].nextRetry
  /\ \E id \in {x \in DOMAIN q : q[x].t = f.t /\ q[x].qt = f.qt} :
        /\ q[id].try = 0
        /\ \/ (q[id].st = "inflight" /\ q[id].srv # dest /\ q[id].sentAt = now)
           \/ (q[id].st = "tosend" /\ q[id].tcp)

(* requeue everything that is in flight on a failed connection *)
RequeueFd(qq, fd, err) ==
  [id \in DOMAIN qq |-> IF qq[id].st = "inflight" /\ qq[id].fd = fd THEN Requeued(qq[id], TRUE, err) ELSE qq[id]]

(* The notification of a server failure and the effect of the failure (re-transmission / completion) are not
   ordered by any property: a query whose deadline has passed may be re-sent or completed before the
   failure notification of its server is seen; the notification is then owed (owedF). *)
TimedOutNow(id) == /\ id \in DOMAIN q /\ q[id].st = "inflight" /\ proc.in /\ proc.nonfd /\ now >= q[id].dlo

HSendFrame(e, f) ==
  LET fd == e.fd
      dest == fdi[fd].srv
      isnew == f.qid \notin DOMAIN q
      isprobe == isnew /\ Live(f.t, f.qt) # {}
      timed == ~isnew /\ TimedOutNow(f.qid)
      sv1 == IF timed THEN FailServerIn(srv, q[f.qid].srv) ELSE srv
      owed1 == IF timed THEN [owedF EXCEPT ![q[f.qid].srv] = @ + 1] ELSE owedF
      rec == IF isnew THEN NewRec(f, fd, isprobe)
             ELSE IF timed THEN Requeued([q[f.qid] EXCEPT !.to = @ + 1], TRUE, "ETIMEOUT")
             ELSE q[f.qid]
      tcpfd == fdi[fd].tcp
  IN
  IF f.bad = 1 THEN Rej("c06.malformed_transmission")
  ELSE IF rec.st # "tosend" THEN Rej("c06.unsolicited_retransmission")
  ELSE IF isprobe /\ ~ProbeOk(f, dest) THEN Rej("c09.extra_copy_not_a_legal_probe")
  ELSE IF ~isprobe /\ rec.reqsrv # 0 /\ rec.reqsrv # dest THEN Rej("c06.downgrade_resend_wrong_server")
  ELSE IF ~isprobe /\ rec.qsrv # 0 /\ rec.qsrv # dest THEN Rej("c06.tcp_query_written_to_other_server_than_queued_on")
  ELSE IF ~isprobe /\ rec.reqsrv = 0 /\ rec.qsrv = 0 /\ ~FreshChoiceOkIn(sv1, dest) THEN
       Rej(IF rec.try = 0 /\ rec.ntx = 0 THEN "c09.first_attempt_not_to_best_server" ELSE "c09.retry_not_to_best_server")
  ELSE IF rec.tcp /\ ~tcpfd THEN Rej("c06.tcp_query_sent_over_udp")
  ELSE IF ~rec.edns /\ f.edns = 1 THEN Rej("c06.edns_sent_after_downgrade")
  ELSE IF e.res = "ok" THEN
       LET r2 == [rec EXCEPT !.st = "inflight", !.fd = fd, !.srv = dest, !.sentAt = now, !.ntx = @ + 1,
                             !.dlo = IF tcpfd THEN 0 ELSE AttemptLo(dest, now, rec.try),
                             !.dhi = IF tcpfd THEN Sat ELSE AttemptHi(dest, now, rec.try),
                             !.sentopts = (f.clen > 0), !.reqsrv = 0, !.qsrv = 0]
       IN IF r2.ntx > MaxTries + 5 THEN Rej("c06.budget_exceeded")
          ELSE /\ q' = (IF isnew THEN q @@ (f.qid :> r2) ELSE [q EXCEPT ![f.qid] = r2])
               /\ srv' = sv1 /\ owedF' = owed1
               /\ UNCHANGED <<cfg, now, fdi, owedO, proc, oos, xvars>> /\ Acc
  ELSE IF e.res = "err" THEN
       \* the write failed: the connection is a critical failure for its server; everything on it and the
       \* query being written are requeued with one more try
       LET q1 == IF isnew THEN q @@ (f.qid :> rec) ELSE [q EXCEPT ![f.qid] = rec]
           q2 == RequeueFd(q1, fd, "ECONNREFUSED")
           q3 == [q2 EXCEPT ![f.qid] = Requeued([rec EXCEPT !.srv = dest], TRUE, "ECONNREFUSED")]
       IN /\ q' = DropDoneProbes(q3)
          /\ srv' = FailServerIn(sv1, dest)
          /\ owedF' = [owed1 EXCEPT ![dest] = @ + 1]
          /\ fdi' = [fdi EXCEPT ![fd].err = TRUE]
          /\ UNCHANGED <<cfg, now, owedO, proc, oos, xvars>> /\ Acc
  ELSE OutOfScope

(* a write or a read on a TCP connection failed: like any connection failure its server is demoted; everything in flight on the
   connection and everything still queued on it is requeued with one more try *)
TcpWriteFailure(fd) ==
  LET s == fdi[fd].srv
      sure == {id \in DOMAIN q : \/ (q[id].st = "inflight" /\ q[id].fd = fd)
                                 \/ (q[id].st = "tosend" /\ q[id].tcp /\ q[id].qsrv = s)}
      \* queries waiting for some TCP connection whose server the trace did not reveal (a second query queued on a
      \* connection that was being established): each of them may or may not be on this one -- every case is explored
      maybe == {id \in DOMAIN q : q[id].st = "tosend" /\ q[id].tcp /\ q[id].qsrv = 0}
  IN \E extra \in SUBSET maybe :
     /\ q' = DropDoneProbes([id \in DOMAIN q |-> IF id \in sure \cup extra THEN Requeued(q[id], TRUE, "ECONNREFUSED") ELSE q[id]])
     /\ srv' = FailServer(s)
     /\ owedF' = [owedF EXCEPT ![s] = @ + 1]
     /\ fdi' = [fdi EXCEPT ![fd].err = TRUE]
     /\ UNCHANGED <<cfg, now, owedO, proc, oos, xvars>> /\ Acc

(* a write event lists the frames it completed (a partially written frame appears with the write that completes it);
   they are judged one per step: frame number fi + 1 now *)
HSend(e) ==
  IF e.fd \notin DOMAIN fdi \/ fdi[e.fd].srv = 0 THEN Skip     \* not a connection to a configured server
  ELSE IF e.tcp = 1 /\ e.res = "err" THEN TcpWriteFailure(e.fd)
  ELSE IF e.tcp = 1 /\ e.res # "ok" THEN Skip                   \* would block: nothing was written
  ELSE IF Len(e.frames) = 0 THEN Skip
  ELSE HSendFrame(e, e.frames[fi + 1])

(* ---- packets read --------------------------------------------------------------- *)
SameQuestion(rec, p) ==
  /\ p.qt = rec.qt /\ p.qc = rec.qc
  /\ IF cfg.dns0x20 = 1 /\ ~rec.tcp THEN p.name = rec.name ELSE p.lname = rec.lname

ConnFailure(fd, err) ==
  LET s == fdi[fd].srv IN
  /\ q' = DropDoneProbes(RequeueFd(q, fd, err))
  /\ srv' = FailServer(s)
  /\ owedF' = [owedF EXCEPT ![s] = @ + 1]
  /\ fdi' = [fdi EXCEPT ![fd].err = TRUE]        \* it will be closed because of this error
  /\ UNCHANGED <<cfg, now, owedO, oos>>

HPacket(fd, p) ==      \* leaves proc and xvars to the caller
  LET s == fdi[fd].srv IN
  IF p.parse = 0 THEN
       IF p.len = 0 THEN UNCHANGED <<cfg, now, srv, fdi, q, owedF, owedO, oos>>      \* empty datagram: harmless
       ELSE ConnFailure(fd, "EBADRESP")                                           \* unparsable: connection error
  ELSE IF p.kind = "badcookie" \/ p.clen > 8 THEN oos' = TRUE /\ UNCHANGED <<cfg, now, srv, fdi, q, owedF, owedO>>
  ELSE IF p.qid \notin DOMAIN q \/ ~SameQuestion(q[p.qid], p) THEN UNCHANGED <<cfg, now, srv, fdi, q, owedF, owedO, oos>>
  ELSE IF q[p.qid].st = "inflight" /\ q[p.qid].fd # fd THEN UNCHANGED <<cfg, now, srv, fdi, q, owedF, owedO, oos>>   \* not its current connection (C05)
  ELSE LET rec == q[p.qid] IN
       \* already requeued by an earlier packet of the same processing call (its retransmission is still owed): it has
       \* left its connection, so this packet does not belong to any transmission in flight
       IF rec.st # "inflight" THEN UNCHANGED <<cfg, now, srv, fdi, q, owedF, owedO, oos>>
       ELSE IF p.rcode = 1 /\ rec.edns /\ (p.opt = 0 \/ rec.sentopts) THEN
            \* FORMERR to an EDNS query: resend once without EDNS to the same server, not counted as a try
            /\ q' = [q EXCEPT ![p.qid] = [rec EXCEPT !.st = "tosend", !.edns = FALSE, !.reqsrv = s]]
            /\ UNCHANGED <<cfg, now, srv, fdi, owedF, owedO, oos>>
       ELSE IF p.tc = 1 /\ ~fdi[fd].tcp /\ cfg.igntc = 0 THEN
            \* truncated over UDP: retry over TCP, not counted as a try
            /\ q' = [q EXCEPT ![p.qid] = [rec EXCEPT !.st = "tosend", !.tcp = TRUE, !.reqsrv = 0]]
            /\ UNCHANGED <<cfg, now, srv, fdi, owedF, owedO, oos>>
       ELSE IF p.rcode \in {2, 4, 5} /\ cfg.nocheckresp = 0 THEN
            /\ srv' = FailServer(s)
            /\ owedF' = [owedF EXCEPT ![s] = @ + 1]
            /\ q' = DropDoneProbes([q EXCEPT ![p.qid] = Requeued(rec, TRUE, RcodeErr(p.rcode))])
            /\ UNCHANGED <<cfg, now, fdi, owedO, oos>>
       ELSE \* accepted final answer
            LET lat == IF now - rec.sentAt < 1 THEN 1 ELSE now - rec.sentAt
                m2 == IF p.rcode \in {0, 3} THEN RecordLatency(srv[s].m, now, lat) ELSE srv[s].m
            IN
            /\ srv' = [srv EXCEPT ![s].fails = 0, ![s].nextRetry = 0, ![s].m = m2]
            /\ owedO' = [owedO EXCEPT ![s] = @ + 1]
            /\ q' = DropDoneProbes([q EXCEPT ![p.qid] = [rec EXCEPT !.st = "ending", !.endst = MapStatus(rec.api, p.rcode, p.an),
                                                                    !.endrc = p.rcode]])
            /\ UNCHANGED <<cfg, now, fdi, owedF, oos>>

(* Processing of the next datagram that was read: a step of its own, taken when everything the previous one made
   immediately due (completion callback, server-state notification) has been seen and no callback is running.
   Retransmissions it causes are not immediate: they are performed after the whole batch. *)
NoImmediate == /\ \A id \in DOMAIN q : q[id].st # "ending"
               /\ \A s \in DOMAIN srv : owedF[s] = 0 /\ owedO[s] = 0
CanProcessHead(e) == /\ proc.inbox # <<>> /\ nest = 1 /\ e.e # "call" /\ NoImmediate
                     /\ ~(e.e = "sk" /\ e.op = "recv" /\ e.fd = Head(proc.inbox).fd)   \* still reading that connection
ProcessHead == LET p == Head(proc.inbox) IN
               /\ HPacket(p.fd, p)
               \* an unparsable datagram is a connection failure: whatever else was read from that connection is discarded with it
               /\ proc' = [proc EXCEPT !.inbox = IF p.parse = 0 /\ p.len > 0 THEN SelectSeq(Tail(@), LAMBDA x : x.fd # p.fd) ELSE Tail(@),
                                       !.nrecv = @ + 1]
               /\ UNCHANGED xvars /\ Acc

CountPacket == proc' = [proc EXCEPT !.nrecv = @ + 1]

RECURSIVE PSum(_, _)
PSum(pk, n) == IF n = 0 THEN 0 ELSE pk[n].slen + PSum(pk, n - 1)     \* bytes of the first n messages of a stream

HRecv(e) ==
  IF e.fd \notin DOMAIN fdi \/ fdi[e.fd].srv = 0 THEN Skip
  ELSE IF e.res = "wb" THEN Skip
  ELSE IF e.res \in {"err", "eof"} THEN
       IF fdi[e.fd].tcp THEN TcpWriteFailure(e.fd)      \* a failed read or the end of the stream: as for a failed write
       ELSE /\ ConnFailure(e.fd, "ECONNREFUSED")
            /\ proc' = [proc EXCEPT !.inbox = SelectSeq(@, LAMBDA x : x.fd # e.fd)]     \* read but never processed
            /\ UNCHANGED xvars /\ Acc
  ELSE IF ~fdi[e.fd].tcp THEN
       IF e.fromok = 0 THEN Skip                 \* wrong source address: discarded at read
       ELSE \* the library first reads every waiting datagram of the connection and processes them afterwards, one by one
            /\ proc' = [proc EXCEPT !.inbox = Append(@, e)]
            /\ UNCHANGED <<cfg, now, srv, fdi, q, owedF, owedO, oos, xvars>> /\ Acc
  ELSE \* TCP: bytes arrive; a packet is processed once all its bytes are there
       LET st == tcpin[e.fd]
           avail == st.avail + e.n
       IN IF Len(st.pk) = 0 THEN OutOfScope
          ELSE IF avail < st.pk[1].slen THEN
               /\ tcpin' = [tcpin EXCEPT ![e.fd].avail = avail]
               /\ UNCHANGED <<rvars, toks, openfail, newtry>> /\ Acc
          ELSE \* k complete messages are there now: the first is processed at once, the others wait their turn like the
               \* datagrams of a batch (none of them if the first one fails the connection)
               LET k == CHOOSE n \in 1..Len(st.pk) : PSum(st.pk, n) <= avail /\ (n = Len(st.pk) \/ PSum(st.pk, n + 1) > avail)
                   rest == IF st.pk[1].parse = 0 THEN <<>> ELSE SubSeq(st.pk, 2, k)
               IN /\ tcpin' = [tcpin EXCEPT ![e.fd] = [avail |-> avail - PSum(st.pk, k), pk |-> SubSeq(st.pk, k + 1, Len(st.pk))]]
                  /\ HPacket(e.fd, st.pk[1])
                  /\ proc' = [proc EXCEPT !.nrecv = @ + 1, !.inbox = @ \o rest]
                  /\ UNCHANGED <<toks, openfail, newtry>> /\ Acc

HEnv(e) ==
  IF e.op = "stream" THEN
       /\ tcpin' = [tcpin EXCEPT ![e.fd].pk = Append(@, e)]
       /\ UNCHANGED <<rvars, toks, openfail, newtry>> /\ Acc
  ELSE IF e.op = "peerclose" THEN Skip        \* shows at the next read of that connection
  ELSE Skip

(* opening a connection failed: the server chosen for this attempt is demoted (notification follows) and the
   query being sent is requeued with one more try; which query it was is inferred at the notification *)
OpenFailed(e) ==
  LET tcpopen == IF e.op = "open" THEN e.tcp = 1 ELSE (e.fd \in DOMAIN fdi /\ fdi[e.fd].tcp) IN
  \* not modelled: a second failure before the first is attributed.  Which of several waiting queries made the attempt
  \* cannot be told from the trace: the notification explores every candidate (HSrv); for TCP, where queries may also
  \* have been queued silently on an existing connection, that is not attempted
  IF openfail # "" \/ (tcpopen /\ Cardinality({id \in DOMAIN q : q[id].st = "tosend"}) > 1) THEN OutOfScope
  \* a TCP connection attempt that fails while removed servers are still being destroyed: which server's queued
  \* queries it concerns is not modelled
  ELSE IF tcpopen /\ Dying # {} THEN OutOfScope
  ELSE openfail' = (IF tcpopen THEN "tcp" ELSE "udp") /\ UNCHANGED <<rvars, toks, tcpin, newtry, bad, why>>

HSk(e) ==
  CASE e.op = "open" ->
         IF e.res = "ok" THEN
              /\ fdi' = fdi @@ (e.fd :> [srv |-> 0, tcp |-> (e.tcp = 1), err |-> FALSE])
              /\ tcpin' = tcpin @@ (e.fd :> [avail |-> 0, pk |-> <<>>])
              /\ UNCHANGED <<cfg, now, srv, q, owedF, owedO, proc, oos, toks, openfail, newtry>> /\ Acc
         ELSE OpenFailed(e)
    [] e.op = "connect" ->
         IF e.res = "err" THEN OpenFailed(e)
         ELSE LET cand == {id \in DOMAIN q : q[id].st = "tosend" /\ q[id].tcp /\ q[id].qsrv = 0 /\ ~q[id].probe}
                  one == Cardinality(cand) = 1 /\ e.fd \in DOMAIN fdi /\ fdi[e.fd].tcp
                  id == CHOOSE x \in cand : TRUE
              IN IF one /\ (IF q[id].reqsrv # 0 THEN q[id].reqsrv # e.srv ELSE ~FreshChoiceOk(e.srv))
                 THEN Rej("c09.connection_attempt_not_to_best_server")
                 ELSE /\ fdi' = [fdi EXCEPT ![e.fd].srv = e.srv]
                      /\ q' = IF one THEN [q EXCEPT ![id].qsrv = e.srv] ELSE q
                      /\ UNCHANGED <<cfg, now, srv, owedF, owedO, proc, oos, xvars>> /\ Acc
    [] e.op = "getsockname" -> IF e.res = "err" THEN OpenFailed(e) ELSE Skip
    [] e.op \in {"opt", "bind"} -> IF e.res = "err" /\ ~(e.op = "opt" /\ e.opt = "tfo") THEN OutOfScope ELSE Skip
    [] e.op = "send" -> HSend(e)
    [] e.op = "recv" -> HRecv(e)
    [] e.op = "close" -> HClose(e)
    [] OTHER -> Skip

(* ---- notifications, completions, returns ------------------------------------------ *)
TimedOutCandidates(s) ==
  {id \in DOMAIN q : \/ (q[id].st = "inflight" /\ q[id].srv = s /\ now >= q[id].dlo)
                     \/ (q[id].st = "tosend" /\ q[id].tcp)}   \* queued on a TCP connection: deadline not modelled
TooEarly(s) == {id \in DOMAIN q : q[id].st = "inflight" /\ q[id].srv = s /\ now < q[id].dlo}

HSrv(e) ==
  IF e.s \notin DOMAIN srv THEN OutOfScope
  ELSE IF e.ok = 1 THEN
       IF owedO[e.s] > 0 THEN /\ owedO' = [owedO EXCEPT ![e.s] = @ - 1]
                              /\ UNCHANGED <<cfg, now, srv, fdi, q, owedF, proc, oos, xvars>> /\ Acc
       ELSE Rej("c09.success_notification_without_accepted_answer")
  ELSE IF owedF[e.s] > 0 THEN /\ owedF' = [owedF EXCEPT ![e.s] = @ - 1]
                              /\ UNCHANGED <<cfg, now, srv, fdi, q, owedO, proc, oos, xvars>> /\ Acc
  ELSE IF openfail # "" THEN
       \* the attempt that could not open a connection to e.s: either a query waiting to be (re)sent, or a request
       \* that has not transmitted anything yet
       LET waiting == {id \in DOMAIN q : q[id].st = "tosend" /\ q[id].tcp = (openfail = "tcp")}
           fresh == {t \in DOMAIN newtry : Live(t, 1) = {} /\ \A id \in DOMAIN q : q[id].t # t}
           wok == {id \in waiting : IF q[id].reqsrv # 0 THEN q[id].reqsrv = e.s ELSE FreshChoiceOk(e.s)}
           fok == IF (cfg.usevc = 1) = (openfail = "tcp") /\ FreshChoiceOk(e.s) THEN fresh ELSE {}
           \* or the probe copy that accompanies a first attempt just made to another server (it has no record yet and
           \* is never retried: only the server is demoted again)
           pok == /\ cfg.retrychance # 0 /\ srv[e.s].fails > 0 /\ now >= srv[e.s].nextRetry
                  /\ \E id \in DOMAIN q : /\ ~q[id].probe /\ q[id].try = 0
                                          /\ \/ (q[id].st = "inflight" /\ q[id].srv # e.s /\ q[id].sentAt = now)
                                             \/ (q[id].st = "tosend" /\ q[id].tcp)
       IN \* which attempt failed cannot always be told from the trace (a query waiting to be re-sent and a request
          \* just being started may both be candidates): every explanation is explored, one that is accepted suffices
          IF waiting = {} /\ fresh = {} /\ ~pok THEN OutOfScope
          ELSE IF wok = {} /\ fok = {} /\ ~pok THEN Rej("c09.connection_attempt_not_to_best_server")
          ELSE \/ /\ pok
                  /\ srv' = FailServer(e.s)
                  /\ openfail' = ""
                  /\ UNCHANGED <<cfg, now, fdi, q, owedF, owedO, proc, oos, toks, tcpin, newtry>> /\ Acc
               \/ \E id \in wok :
                  /\ srv' = FailServer(e.s)
                  /\ q' = DropDoneProbes([q EXCEPT ![id] = Requeued(q[id], TRUE, "ECONNREFUSED")])
                  /\ openfail' = ""
                  /\ UNCHANGED <<cfg, now, fdi, owedF, owedO, proc, oos, toks, tcpin, newtry>> /\ Acc
               \/ \E t \in fok :
                  /\ srv' = FailServer(e.s)
                  /\ newtry' = [newtry EXCEPT ![t] = @ + 1]
                  /\ openfail' = ""
                  /\ UNCHANGED <<cfg, now, fdi, q, owedF, owedO, proc, oos, toks, tcpin>> /\ Acc
  ELSE IF proc.in /\ proc.nonfd /\ TimedOutCandidates(e.s) # {} THEN
       \* a query on this server reached its deadline: the server is demoted and the query requeued
       \E id \in TimedOutCandidates(e.s) :
          /\ srv' = FailServer(e.s)
          /\ q' = DropDoneProbes([q EXCEPT ![id] = Requeued([q[id] EXCEPT !.to = @ + 1], TRUE, "ETIMEOUT")])
          /\ UNCHANGED <<cfg, now, fdi, owedF, owedO, proc, oos, xvars>> /\ Acc
  ELSE IF proc.in /\ TooEarly(e.s) # {} THEN Rej("c06.timed_out_before_base_timeout")
  ELSE Rej("c09.failure_notification_without_cause")

HCbb(e) ==
  LET ids == {id \in DOMAIN q : q[id].t = e.t /\ ~q[id].probe} IN
  IF e.st \in {"ECANCELLED", "EDESTRUCTION"} THEN
       /\ q' = Without(q, ids)
       /\ UNCHANGED <<cfg, now, srv, fdi, owedF, owedO, proc, oos, xvars>> /\ Acc
  ELSE IF ids = {} THEN Skip
  ELSE LET done == {id \in ids : q[id].st = "ending"} IN
       IF done = {} THEN
            \* a query whose deadline passed may be completed before its server's failure notification is seen
            LET cand == {id \in ids : TimedOutNow(id) /\
                            LET r2 == Requeued([q[id] EXCEPT !.to = @ + 1], TRUE, "ETIMEOUT")
                            IN r2.st = "ending" /\ r2.endst = e.st /\ r2.to = e.to}
            IN IF cand = {} THEN Rej("c06.completed_without_cause." \o e.st)
               ELSE LET id == CHOOSE x \in cand : TRUE IN
                    /\ srv' = FailServer(q[id].srv)
                    /\ owedF' = [owedF EXCEPT ![q[id].srv] = @ + 1]
                    /\ q' = Without(q, {id})
                    /\ UNCHANGED <<cfg, now, fdi, owedO, proc, oos, xvars>> /\ Acc
       ELSE LET id == CHOOSE x \in done : TRUE IN
            IF q[id].endst # e.st THEN Rej("c06.completion_status." \o e.st \o ".expected." \o q[id].endst)
            ELSE IF q[id].to # e.to THEN Rej("c06.timeouts_reported_wrong")
            ELSE /\ q' = Without(q, {id})
                 /\ UNCHANGED <<cfg, now, srv, fdi, owedF, owedO, proc, oos, xvars>> /\ Acc

TcpQueued(id) == q[id].st = "tosend" /\ q[id].tcp     \* sits in a TCP out buffer until the socket is writable

HRet(e) ==
  IF e.api = "setservers" /\ Dying # {} THEN
       \* the list edit is complete: whatever was still marked is gone (and must not have anything in flight)
       IF \E d \in Dying : InflightOn(d) # {} THEN Rej("c09.query_left_on_removed_server")
       ELSE /\ srv' = Without(srv, Dying) /\ owedF' = Without(owedF, Dying) /\ owedO' = Without(owedO, Dying)
            /\ proc' = [proc EXCEPT !.ss = 0]
            /\ UNCHANGED <<cfg, now, fdi, q, oos, xvars>> /\ Acc
  ELSE IF e.depth # 0 THEN Skip
  ELSE IF \E id \in DOMAIN q : q[id].st = "tosend" /\ ~TcpQueued(id) THEN Rej("c06.retry_not_performed")
  ELSE IF \E id \in DOMAIN q : q[id].st = "ending" THEN Rej("c06.completion_not_delivered")
  ELSE IF \E s \in DOMAIN srv : owedF[s] > 0 \/ owedO[s] > 0 THEN Rej("c09.server_state_notification_missing")
  ELSE IF e.api = "process" /\ proc.nonfd /\ ~NoneOverdue THEN Rej("c07.overdue_query_not_processed")
  ELSE /\ proc' = [in |-> FALSE, nonfd |-> FALSE, nrecv |-> 0, inbox |-> <<>>, ss |-> 0]
       /\ UNCHANGED <<cfg, now, srv, fdi, q, owedF, owedO, oos, xvars>> /\ Acc

HHint(e) ==
  IF \E id \in DOMAIN q : TcpQueued(id) THEN Skip      \* deadline of a not yet transmitted TCP query is not modelled
  ELSE IF e.nq > Cardinality(DOMAIN q) THEN Skip       \* a request queued on a TCP connection that has not transmitted anything yet
  ELSE IF Inflight # {} /\ e.us < 0 THEN Rej("c07.no_hint_while_queries_outstanding")
  ELSE IF cfg.maxtimeout > 0 /\ \E id \in Inflight : q[id].dhi < Sat /\ e.us > Max(q[id].sentAt + cfg.maxtimeout - now, 0) * 1000
       THEN Rej("c06.attempt_waits_longer_than_configured_maximum")
  ELSE IF \E id \in Inflight : q[id].dhi < Sat /\ e.us > Max(q[id].dhi - now, 0) * 1000 THEN Rej("c07.hint_later_than_earliest_deadline")
  ELSE IF e.max > 0 /\ e.us > e.max * 1000 THEN Rej("c07.hint_above_caller_maximum")
  ELSE IF ~HintSound(e.us, e.max) THEN Rej("c07.hint_unsound")
  ELSE Skip

Handle(e) ==
  CASE e.e = "init" -> HInit(e)
    [] e.e = "call" -> HCall(e)
    [] e.e = "adv" -> now' = e.now /\ UNCHANGED <<cfg, srv, fdi, q, owedF, owedO, proc, oos, xvars>> /\ Acc
    [] e.e = "sk" -> HSk(e)
    [] e.e = "env" -> HEnv(e)
    [] e.e = "srv" -> HSrv(e)
    [] e.e = "cbb" -> HCbb(e)
    [] e.e = "ret" -> HRet(e)
    [] e.e = "hint" -> HHint(e)
    [] e.e = "crash" -> IF SubSeq(e.sum, 1, 5) = "ubsan" THEN Rej("c06.crash." \o e.sum) ELSE OutOfScope
    [] OTHER -> Skip

Verdict == [verdict |-> IF bad THEN "REJ" ELSE "ACC", id |-> hid, line |-> why.line, label |-> why.label, oos |-> oos]

TInit == /\ RInit /\ toks = <<>> /\ tcpin = <<>> /\ openfail = "" /\ newtry = <<>> /\ nest = 0 /\ fi = 0
         /\ l = 1 /\ bad = FALSE /\ why = [line |-> 0, label |-> ""] /\ hid = ""

TNext ==
  /\ l <= Len(Tr)
  /\ LET e == Tr[l] IN
       IF e.e = "reset" THEN
            /\ l' = l + 1
            /\ (hid # "" => PrintT(ToJson(Verdict)))
            /\ cfg' = [nsrv |-> 0] /\ now' = 0 /\ srv' = <<>> /\ fdi' = <<>> /\ q' = <<>> /\ owedF' = <<>> /\ owedO' = <<>>
            /\ proc' = [in |-> FALSE, nonfd |-> FALSE, nrecv |-> 0, inbox |-> <<>>, ss |-> 0] /\ oos' = FALSE
            /\ toks' = <<>> /\ tcpin' = <<>> /\ openfail' = "" /\ newtry' = <<>>
            /\ bad' = FALSE /\ why' = [line |-> 0, label |-> ""]
            /\ hid' = e.id /\ nest' = 0 /\ fi' = 0
       ELSE /\ hid' = hid
            /\ IF bad \/ oos THEN Skip /\ l' = l + 1 /\ nest' = nest /\ fi' = 0
               ELSE IF CanProcessHead(e) THEN ProcessHead /\ l' = l /\ nest' = nest /\ fi' = fi   \* silent step, the event is judged next
               ELSE IF DyingTarget(e) # 0 THEN DestroyStep(DyingTarget(e)) /\ l' = l /\ nest' = nest /\ fi' = fi
               ELSE /\ Handle(e)
                    \* a write event with several frames is consumed one frame per step
                    /\ IF e.e = "sk" /\ e.op = "send" /\ e.res = "ok" /\ Len(e.frames) > fi + 1
                       THEN l' = l /\ fi' = fi + 1 ELSE l' = l + 1 /\ fi' = 0
                    /\ nest' = IF e.e = "call" THEN e.depth + 1 ELSE IF e.e = "ret" THEN e.depth ELSE nest

TSpec == TInit /\ [][TNext]_tvars
=============================================================================
