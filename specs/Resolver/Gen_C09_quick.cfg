CONSTANTS
  Cfgs <- C09Cfgs
  Apis = {"query"}
  Nests = {"none"}
  Kinds = {"ok", "servfail", "refused"}
  Faults = {"sendto", "connect"}
  Extras = {"timeout", "setservers"}
  MaxReq = 3
  MaxLen = 5
INIT GInit
NEXT GNext
INVARIANT Emit
CHECK_DEADLOCK FALSE
