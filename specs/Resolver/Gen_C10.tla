------------------------------ MODULE Gen_C10 ------------------------------
EXTENDS EnvGen
C10Cfgs == { [nsrv |-> 2, tries |-> 2, timeout |-> 1000, seed |-> 1, udpmax |-> 2, gaiflags |-> 0],
             [nsrv |-> 1, tries |-> 2, timeout |-> 1000, seed |-> 2, usevc |-> 1],
             [nsrv |-> 1, tries |-> 2, timeout |-> 1000, seed |-> 3, stayopen |-> 1, udpmax |-> 1],
             [nsrv |-> 2, tries |-> 1, timeout |-> 1000, seed |-> 4, usevc |-> 1, tfo |-> 1, stayopen |-> 1] }
(* sockets that have to be configured before use: source address (bind), device (socket option), local address query *)
C10CfgFaultCfgs == { [nsrv |-> 2, tries |-> 2, timeout |-> 1000, seed |-> 5, localip |-> 1],
                     [nsrv |-> 1, tries |-> 2, timeout |-> 1000, seed |-> 6, localip |-> 1, usevc |-> 1],
                     [nsrv |-> 2, tries |-> 1, timeout |-> 1000, seed |-> 7, localip |-> 1, localdev |-> 1, v6 |-> 1, edns |-> 1] }
=============================================================================
