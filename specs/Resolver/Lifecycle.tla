--------------------------- MODULE Lifecycle ---------------------------
(* Facet "request life-cycle" of the c-ares resolver contract (property C01).

   Abstract state: which request tokens the application has handed to an entry
   point, how many completion callbacks each has received, the nesting of API
   calls and callbacks currently executing (re-entrancy), the set of requests a
   running ares_cancel()/ares_destroy() still owes a completion to, and whether
   the channel is alive.

   Environment actions: Call (any request entry point, possibly from inside a
   callback), CallCancel (possibly nested), CallDestroy (outermost only).
   System actions: Cbb/Cbe (completion callback begins/ends), Ret (API returns).

   The statement of C01 is the conjunction of the invariants at the end.      *)
EXTENDS Naturals, Sequences, FiniteSets, TLC

CONSTANTS Tokens,        \* request tokens the environment may use (model checking only)
          MaxDepth       \* bound on nesting (model checking only)

VARIABLES req,    \* token -> [st: "pending"|"done", ncb: Nat, api: STRING]
          stack,  \* sequence of frames, innermost last
          chan    \* "up" | "destroying" | "destroyed"

lvars == <<req, stack, chan>>

RequestApis == {"send", "query", "search", "gai", "ghbn", "ghba", "gni", "lquery", "lsearch", "lsend"}

Frame(k, api, t, owe) == [k |-> k, api |-> api, t |-> t, owe |-> owe]
Top == stack[Len(stack)]
Pending == {t \in DOMAIN req : req[t].st = "pending"}
InCb == IF Len(stack) > 0 /\ Top.k = "cb" THEN Top.t ELSE 0

LInit == /\ req = <<>>
         /\ stack = <<>>
         /\ chan = "up"

(* ---- environment ---------------------------------------------------- *)
CanCall(api, t) == /\ chan = "up"
                   /\ api \in RequestApis
                   /\ t \notin DOMAIN req
DoCall(api, t) == /\ req' = req @@ (t :> [st |-> "pending", ncb |-> 0, api |-> api, canc |-> FALSE])
                  /\ stack' = Append(stack, Frame("api", api, t, {}))
                  /\ UNCHANGED chan

(* a request the entry point refuses before accepting it (bad name...): no callback is owed *)
CanReject(t) == Len(stack) > 0 /\ Top.k = "api" /\ Top.t = t /\ req[t].st = "pending" /\ req[t].ncb = 0
DoReject(t) == /\ req' = [req EXCEPT ![t].st = "rejected"]
               /\ UNCHANGED <<stack, chan>>

CanCallCancel == chan = "up"
(* a nested cancel (from a callback run by an enclosing cancel) does not owe what the enclosing
   cancel/destroy already owes: those requests are completed by the enclosing call *)
OwedByEnclosing == UNION {stack[i].owe : i \in 1..Len(stack)}
(* nor requests whose entry call has not returned yet (the cancel runs in a callback invoked
   from inside that call): the application cannot regard them as accepted yet *)
BeingAccepted == {stack[i].t : i \in {j \in 1..Len(stack) : stack[j].k = "api"}}
DoCallCancel == /\ stack' = Append(stack, Frame("api", "cancel", 0, (Pending \ OwedByEnclosing) \ BeingAccepted))
                /\ req' = [t \in DOMAIN req |-> IF t \in Pending THEN [req[t] EXCEPT !.canc = TRUE] ELSE req[t]]
                /\ UNCHANGED chan

CanCallDestroy == chan = "up" /\ Len(stack) = 0
DoCallDestroy == /\ stack' = Append(stack, Frame("api", "destroy", 0, Pending))
                 /\ chan' = "destroying"
                 /\ UNCHANGED req

(* other API calls (process, setservers, reinit, pendwrite): only nesting matters here *)
CanCallOther(api) == chan = "up" /\ api \notin RequestApis /\ api \notin {"cancel", "destroy"}
DoCallOther(api) == /\ stack' = Append(stack, Frame("api", api, 0, {}))
                    /\ UNCHANGED <<req, chan>>

(* ---- system --------------------------------------------------------- *)
CancelActive(t) == \E i \in 1..Len(stack) : stack[i].k = "api" /\ stack[i].api = "cancel" /\ t \in stack[i].owe
DestroyActive == \E i \in 1..Len(stack) : stack[i].k = "api" /\ stack[i].api = "destroy"

StatusAllowed(t, st) ==
  /\ (st = "ECANCELLED" => (req[t].canc \/ DestroyActive))   \* some cancel ran while t was pending
  /\ (st = "EDESTRUCTION" => DestroyActive)
  /\ (chan = "destroying" => st \in {"EDESTRUCTION", "ECANCELLED"})

CanCbb(t, st) == /\ chan # "destroyed"
                 /\ t \in DOMAIN req
                 /\ req[t].st = "pending"
                 /\ Len(stack) > 0            \* callbacks only run inside some API call
                 /\ StatusAllowed(t, st)
DoCbb(t, st) == /\ req' = [req EXCEPT ![t].st = "done", ![t].ncb = @ + 1]
                /\ stack' = Append([i \in 1..Len(stack) |-> [stack[i] EXCEPT !.owe = @ \ {t}]],
                                   Frame("cb", "", t, {}))
                /\ UNCHANGED chan

CanCbe(t) == Len(stack) > 0 /\ Top.k = "cb" /\ Top.t = t
DoCbe(t) == /\ stack' = SubSeq(stack, 1, Len(stack) - 1)
            /\ UNCHANGED <<req, chan>>

(* an API call may return only when what it owes has been delivered.  One exception: a cancel issued from a callback
   runs inside some other API call of the library; a request that this enclosing call is in the middle of working on
   (it is between two of its internal steps) cannot be completed re-entrantly by the nested cancel.  What such a
   nested cancel still owes is handed to the nearest enclosing API call, which must deliver it before it returns:
   the application still gets every completion before control is back in its hands. *)
EnclosingApis == {i \in 1..(Len(stack) - 1) : stack[i].k = "api"}
CanRet(api) == /\ Len(stack) > 0 /\ Top.k = "api" /\ Top.api = api
               /\ (Top.owe = {} \/ (api = "cancel" /\ EnclosingApis # {}))
DoRet(api) == /\ stack' = IF Top.owe = {} THEN SubSeq(stack, 1, Len(stack) - 1)
                          ELSE LET j == CHOOSE i \in EnclosingApis : \A k \in EnclosingApis : k <= i
                               IN [SubSeq(stack, 1, Len(stack) - 1) EXCEPT ![j].owe = @ \cup Top.owe]
              /\ chan' = IF api = "destroy" THEN "destroyed" ELSE chan
              /\ UNCHANGED req

(* ---- stand-alone model (environment + most general conforming system) ---- *)
Statuses == {"SUCCESS", "ETIMEOUT", "ECANCELLED", "EDESTRUCTION"}
LNext ==
  \/ \E api \in {"query", "search"}, t \in Tokens : CanCall(api, t) /\ Len(stack) < MaxDepth /\ DoCall(api, t)
  \/ CanCallCancel /\ Len(stack) < MaxDepth /\ DoCallCancel
  \/ CanCallDestroy /\ DoCallDestroy
  \/ CanCallOther("process") /\ Len(stack) = 0 /\ DoCallOther("process")
  \/ \E t \in Tokens, st \in Statuses : CanCbb(t, st) /\ Len(stack) < MaxDepth /\ DoCbb(t, st)
  \/ \E t \in Tokens : CanCbe(t) /\ DoCbe(t)
  \/ \E api \in RequestApis \cup {"cancel", "destroy", "process"} : CanRet(api) /\ DoRet(api)

LSpec == LInit /\ [][LNext]_lvars /\ WF_lvars(LNext)

(* ---- the property ----------------------------------------------------- *)
ExactlyOnce == \A t \in DOMAIN req : req[t].ncb <= 1
DoneIffCalled == \A t \in DOMAIN req : (req[t].st = "done") <=> (req[t].ncb = 1)
NoneAfterDestroy == chan = "destroyed" => \A t \in DOMAIN req : req[t].st # "pending"
(* while a cancel/destroy is on the stack nothing it owed may have been lost: owed => still pending *)
OwedArePending == \A i \in 1..Len(stack) : \A t \in stack[i].owe : req[t].st = "pending"
(* liveness of the contract: every accepted request is eventually completed (the
   environment of the stand-alone model eventually destroys the channel) *)
EventuallyCompleted == \A t \in Tokens : (t \in DOMAIN req /\ req[t].st = "pending") ~> (req[t].st = "done")
=============================================================================
