CONSTANTS
  LookupOrders = {"b"}
  SortFlags = {0, 128}
  Reqs = {"gai0", "ghbn0", "ghbn4", "ghbn6"}
  Shapes = {"one", "three", "mix6", "cname2", "nodata"}
  QCacheSet = {0}
  V6Src = 1
  SortLists = {""}
  Repeat = 0
  MaxRep = 2
INIT GInit
NEXT GNext
INVARIANT Emit
CHECK_DEADLOCK FALSE
