CONSTANTS
  Cfgs <- C17Cfgs
  Kinds = {"echo", "none", "s1", "s2", "wrongclient", "short", "long", "bad_s3", "bad_echo", "bad_none", "tc"}
  Advances = {1000, 119000, 121000, 86400000}
  Extras = {"srcip", "process", "timeout", "anyreply"}
  MaxReq = 12
  MaxLen = 24
INIT GInit
NEXT GNext
INVARIANT Emit
CHECK_DEADLOCK FALSE
