CONSTANTS
  Cfgs <- BackoffCfgs
INIT GInit
NEXT GNext
INVARIANT Emit
CHECK_DEADLOCK FALSE
