CONSTANTS
  DomainLists <- DLs
INIT MInit
NEXT MNext
INVARIANTS CandidatesMatchReference SingleOnlyForBareName WireIsTextSansDot
CHECK_DEADLOCK FALSE
