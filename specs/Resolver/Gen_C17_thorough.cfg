CONSTANTS
  Cfgs <- C17Cfgs
  Kinds = {"echo", "none", "s1", "s2", "wrongclient", "short", "long", "bad_s3", "bad_echo", "bad_none", "tc"}
  Advances = {1000, 119000, 121000}
  Extras = {"srcip", "process", "timeout"}
  MaxReq = 4
  MaxLen = 6
INIT GInit
NEXT GNext
INVARIANT Emit
CHECK_DEADLOCK FALSE
