CONSTANTS
  Cfgs <- C10Cfgs
  Apis = {"query", "send", "gai", "ghba"}
  Nests = {"none", "cancel", "query"}
  Kinds = {"ok", "tc", "servfail", "garbage"}
  Faults = {"socket", "connect", "sendto", "recvfrom", "getsockname"}
  Extras = {"cancel", "timeout", "process", "setservers"}
  MaxReq = 5
  MaxLen = 14
INIT GInit
NEXT GNext
INVARIANT Emit
CHECK_DEADLOCK FALSE
