----------------------------- MODULE GenLatency -----------------------------
(* Histories for the learned base timeout (C06: "each attempt waits at least the
   server's base timeout -- the configured one, or the one learned from its
   recent latency history"): a server answers n1 requests with a given latency,
   the clock then passes into a later minute / quarter hour / hour / day, the
   server answers n2 more, and finally goes silent for a request whose every
   attempt must wait for the base timeout the latency buckets of Retry.tla give. *)
EXTENDS Naturals, Sequences, FiniteSets, TLC, Json
CONSTANTS N1, Gaps, N2, Lats, Timeouts
VARIABLES n1, gap, n2, lat, to, done
Name(t) == "n" \o ToString(t) \o ".test"
Tx(t) == "name:n" \o ToString(t) \o "."
RECURSIVE Phase(_, _, _)
Phase(i, k, ms) == IF k = 0 THEN <<>>
                   ELSE <<[op |-> "query", t |-> i, name |-> Name(i), qt |-> 1], [op |-> "adv", ms |-> ms],
                          [op |-> "reply", tx |-> Tx(i), kind |-> "ok"]>> \o Phase(i + 1, k - 1, ms)
Silent(i) == <<[op |-> "query", t |-> i, name |-> Name(i), qt |-> 1],
               [op |-> "adv", to |-> "deadline"], [op |-> "process"],
               [op |-> "adv", to |-> "deadline"], [op |-> "process"]>>
Hist == Phase(1, n1, lat) \o (IF gap > 0 THEN <<[op |-> "adv", ms |-> gap]>> ELSE <<>>) \o Phase(n1 + 1, n2, lat) \o Silent(n1 + n2 + 1)
GInit == n1 \in N1 /\ gap \in Gaps /\ n2 \in N2 /\ lat \in Lats /\ to \in Timeouts /\ done = FALSE
GNext == ~done /\ done' = TRUE /\ UNCHANGED <<n1, gap, n2, lat, to>>
Emit == PrintT(ToJson([cfg |-> [nsrv |-> 1, tries |-> 2, timeout |-> to, seed |-> 1], steps |-> Hist]))
=============================================================================
