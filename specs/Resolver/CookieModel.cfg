INIT MInit
NEXT MNext
CONSTRAINT Bound
INVARIANTS NoBareAnswerWhileSupported ClientCookieStable NoStaleServerCookie WellFormedState
CHECK_DEADLOCK FALSE
