CONSTANTS
  Counts = {15, 16, 17, 20}
  Hows = {"fds", "legacy", "fd"}
INIT GInit
NEXT GNext
INVARIANT Emit
CHECK_DEADLOCK FALSE
