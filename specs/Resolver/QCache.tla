------------------------------ MODULE QCache ------------------------------
(* Facet "query cache" of the c-ares resolver contract (property C08).

   Abstract state: virtual time, the configured maximum lifetime, the current
   server set, and for every cache key (opcode QUERY, RD, CD, type, class IN,
   name compared case-insensitively without one trailing dot) the answer that
   MAY be replayed: which packet it came from, when it was accepted, until when
   it may be replayed (insert + min(max, lifetime of its own TTLs)) and the TTLs
   it carried.  The library may cache less than allowed (early eviction is
   harmless); it must never replay what is not allowed here, and every TTL it
   hands out from the cache must be reduced by the whole seconds spent cached.  *)
EXTENDS Naturals, Integers, Sequences, FiniteSets, TLC

VARIABLES ccfg,    \* [qcache |-> max ttl, nocheckresp, igntc, dns0x20, ...]
          cnow,    \* virtual ms
          cache,   \* key -> [rid, pid, ins, exp, ttls, rcode]
          cq,      \* qid -> [key, lname, name, qt, tcp]  live wire queries (from transmissions)
          csrv     \* current set of servers

cvars == <<ccfg, cnow, cache, cq, csrv>>

Sec(ms) == 1000000 + ms \div 1000
Min2(a, b) == IF a < b THEN a ELSE b
Key(lname, qt, qc, rd, cd) == <<lname, qt, qc, rd, cd>>       \* name (case-folded, no trailing dot), type, class, RD, CD

RECURSIVE MinSeq(_, _, _)
MinSeq(s, i, acc) == IF i > Len(s) THEN acc ELSE MinSeq(s, i + 1, IF s[i] < acc THEN s[i] ELSE acc)
Infinity == 2000000000

(* lifetime the TTLs of an accepted answer allow; 0 = must not be cached *)
Lifetime(p) ==
  IF p.rcode = 3 THEN (IF p.soa = 1 THEN Min2(p.soattl, p.soamin) ELSE 0)
  ELSE MinSeq(p.ttls \o p.xttls, 1, Infinity)   \* all sections; OPT / SOA / SIG records do not count
Cacheable(p) == /\ p.rcode \in {0, 3} /\ p.tc = 0
                /\ ccfg.qcache > 0
                /\ Min2(ccfg.qcache, Lifetime(p)) > 0
Entry(p, pid) == [rid |-> p.qid, pid |-> pid, ins |-> Sec(cnow), exp |-> Sec(cnow) + Min2(ccfg.qcache, Lifetime(p)),
                  ttls |-> p.ttls, rcode |-> p.rcode]

(* a request answered without network traffic by a record with id rid *)
HitSound(k, rid) == /\ k \in DOMAIN cache
                    /\ cache[k].rid = rid
                    /\ Sec(cnow) < cache[k].exp
Big == 1073741824      \* TTLs and lifetimes of 2^30 s or more are logged saturated at this value ("far future")
Decremented(ttl, k) == LET d == Sec(cnow) - cache[k].ins IN IF ttl >= Big THEN Big ELSE IF d > ttl THEN 0 ELSE ttl - d
TtlsSound(k, ttls) == /\ Len(ttls) = Len(cache[k].ttls)
                      /\ \A i \in 1..Len(ttls) : ttls[i] = Decremented(cache[k].ttls[i], k)

CInit == /\ ccfg = [qcache |-> 0] /\ cnow = 0 /\ cache = <<>> /\ cq = <<>> /\ csrv = {}
=============================================================================
