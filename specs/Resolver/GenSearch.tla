------------------------------ MODULE GenSearch ------------------------------
(* Generator of search histories (C12): every name shape x ndots x domain list x
   flags, and every sequence of per-candidate outcomes.                       *)
EXTENDS Naturals, Sequences, FiniteSets, TLC, Json

CONSTANTS DomainLists, NdotsSet, NoSearchSet, ViaFileSet, AliasSet, Names, Apis, Outcomes, MaxOut,
          EnvSet     \* environment: records [ld |-> LOCALDOMAIN value or "", ro |-> RES_OPTIONS value or ""]
VARIABLES cfg, h, nout
gvars == <<cfg, h, nout>>

Req(api, name) ==
  CASE api = "search" -> [op |-> "search", t |-> 1, name |-> name, qt |-> 1]
    [] api = "lsearch" -> [op |-> "lsearch", t |-> 1, name |-> name, qt |-> 1]
    [] api = "gai4" -> [op |-> "gai", t |-> 1, name |-> name, family |-> 4]
    [] api = "gai0" -> [op |-> "gai", t |-> 1, name |-> name, family |-> 0]
    [] api = "ghbn4" -> [op |-> "ghbn", t |-> 1, name |-> name, family |-> 4]
Rep(k) == IF k = "nodata" THEN [op |-> "reply", tx |-> "name:n1", kind |-> "nodata"]
          ELSE IF k = "cnameonly" THEN [op |-> "reply", tx |-> "name:n1", kind |-> "cname", n |-> 0]   \* NOERROR, an alias but no record of the type asked
          ELSE [op |-> "reply", tx |-> "name:n1", kind |-> k]
OutcomeSteps(api, k) ==
  IF k = "timeout" THEN <<[op |-> "adv", to |-> "deadline"], [op |-> "process"]>>
  ELSE IF api = "gai0" THEN <<Rep(k), Rep(k)>> ELSE <<Rep(k)>>
ApiOf(s) == IF s.op = "gai" THEN (IF s.family = 0 THEN "gai0" ELSE "gai4") ELSE IF s.op = "ghbn" THEN "ghbn4" ELSE s.op

HasRoot(d) == \E i \in 1..Len(d) : d[i] = "."
GInit == /\ \E d \in DomainLists, nd \in NdotsSet, ns \in NoSearchSet, vf \in ViaFileSet, al \in AliasSet, en \in EnvSet :
              /\ (vf = 1 => ~HasRoot(d))
              /\ cfg = [nsrv |-> 1, tries |-> 1, timeout |-> 1000, seed |-> 1, domains |-> d, ndots |-> nd, nosearch |-> ns, viafile |-> vf,
                        hostaliases |-> al, noaliases |-> 1 - al]
                       @@ (IF en.ld # "" THEN [localdomain |-> en.ld] ELSE <<>>) @@ (IF en.ro # "" THEN [resoptions |-> en.ro] ELSE <<>>)
         /\ \E api \in Apis, name \in Names : h = <<Req(api, name)>>
         /\ nout = 0
GNext == /\ nout < MaxOut
         /\ \E k \in Outcomes : h' = h \o OutcomeSteps(ApiOf(h[1]), k)
         /\ nout' = nout + 1 /\ UNCHANGED cfg
Emit == PrintT(ToJson([cfg |-> cfg, steps |-> h]))
=============================================================================
