CONSTANTS
  Cfgs <- C17LateCfgs
  Kinds = {"s1", "none", "wrongclient", "echo"}
  Advances = {}
  Extras = {"srcip", "anyreply"}
  MaxReq = 3
  MaxLen = 6
INIT GInit
NEXT GNext
INVARIANT Emit
CHECK_DEADLOCK FALSE
