CONSTANTS
  LookupOrders = {"b", "fb"}
  SortFlags = {0, 128}
  Reqs = {"gai0", "gai4", "gai6", "ghbn4", "ghbn6", "gaih0", "ghbnh4"}
  Shapes = {"one", "three", "five", "cname2"}
  QCacheSet = {0}
  V6Src = 0
  SortLists = {"192.0.0.10/255.255.255.255 192.0.0.12/255.255.255.255 192.0.0.8/255.255.255.254", "192.0.0.0/255.255.255.0 10.1.2.4/255.255.255.255", "2001::9/128 192.0.0.9"}
  Repeat = 0
  MaxRep = 2
INIT GInit
NEXT GNext
INVARIANT Emit
CHECK_DEADLOCK FALSE
