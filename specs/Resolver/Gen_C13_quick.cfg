CONSTANTS
  LookupOrders = {"b", "fb", "bf"}
  SortFlags = {0, 128}
  Reqs = {"gai0", "gai4", "gai6", "gaih0", "gaih4", "gaih6", "gailocal", "gail4only0", "gail4only6", "gail6only0", "gailother0", "gailit", "ghbn4", "ghbn6", "ghbnh4", "ghba4", "ghba6", "gni4", "ghbah4", "ghbah6", "ghbal6", "ghbam6", "ghbax6", "gnix6", "gnih4", "gnil6"}
  Shapes = {"one", "three", "cname2", "chaos", "nodata", "nx", "five"}
  QCacheSet = {0}
  V6Src = 0
  SortLists = {""}
  Repeat = 0
  MaxRep = 3
INIT GInit
NEXT GNext
INVARIANT Emit
CHECK_DEADLOCK FALSE
