CONSTANTS
  LookupOrders = {"b", "fb", "bf"}
  SortFlags = {0, 128}
  Reqs = {"gai0", "gai4", "gai6", "gaih0", "gaih4", "gaih6", "gailocal", "gailit", "ghbn4", "ghbn6", "ghbnh4", "ghba4", "ghba6", "gni4"}
  Shapes = {"one", "three", "cname2", "chaos", "nodata", "nx", "five"}
  MaxRep = 2
INIT GInit
NEXT GNext
INVARIANT Emit
CHECK_DEADLOCK FALSE
