--------------------------- MODULE CookieTrace ---------------------------
(* Trace validation against Cookie.tla (C17). *)
EXTENDS Cookie, Json, IOUtils

Tr == ndJsonDeserialize(IOEnv.TRACE)
VARIABLES l, bad, why, hid
tvars == <<kvars, l, bad, why, hid>>

Rej(label) == /\ bad' = TRUE /\ why' = [line |-> l, label |-> label] /\ UNCHANGED kvars
Acc == UNCHANGED <<bad, why>>
Skip == UNCHANGED <<kvars, bad, why>>
Stop == /\ bad' = TRUE /\ why' = [line |-> l, label |-> ""] /\ UNCHANGED kvars
ToSet(s) == {s[i] : i \in 1..Len(s)}
Without(f, S) == [x \in (DOMAIN f) \ S |-> f[x]]

HSend(e) ==
  IF e.fd \notin DOMAIN kfd \/ kfd[e.fd].srv \notin DOMAIN kc \/ Len(e.frames) = 0 THEN Skip
  ELSE IF Len(e.frames) > 1 THEN Stop
  ELSE LET f == e.frames[1]
           s == kfd[e.fd].srv
           src == kfd[e.fd].src
           c == kc[s]
           old == IF f.qid \in DOMAIN kq THEN kq[f.qid].ctries ELSE 0
           rec == [t |-> f.t, srv |-> s, fd |-> e.fd, tcp |-> (e.tcp = 1), lname |-> f.lname, name |-> f.name, qt |-> f.qt, qc |-> f.qc,
                   clen |-> f.clen, ck |-> f.ck, sk |-> f.sk, ctries |-> old]
           upd(c2) == /\ kc' = [kc EXCEPT ![s] = c2]
                      /\ kq' = (IF e.res = "ok" THEN (IF f.qid \in DOMAIN kq THEN [kq EXCEPT ![f.qid] = rec] ELSE kq @@ (f.qid :> rec)) ELSE kq)
                      /\ UNCHANGED <<kcfg, know, kfd, okp>> /\ Acc
       IN
       IF f.bad = 1 THEN Skip
       ELSE IF e.tcp = 1 THEN (IF f.clen > 0 THEN Rej("c17.cookie_sent_over_tcp") ELSE upd(c))
       ELSE IF f.edns = 0 THEN (IF f.clen > 0 THEN Rej("c17.cookie_without_edns") ELSE upd(c))
       ELSE IF old >= 3 THEN Rej("c17.more_than_three_badcookie_resends_over_udp")
       ELSE IF MustOmit(c) THEN
            (IF f.clen > 0 THEN Rej("c17.cookie_sent_to_server_that_does_not_support_them") ELSE upd(AfterTimers(c)))
       ELSE IF f.clen < 8 THEN Rej("c17.no_cookie_sent_over_udp_with_edns")
       ELSE IF MustRegenerate(c, src) THEN
            IF AfterTimers(c).state # "INITIAL" /\ f.ck = c.client THEN Rej("c17.client_cookie_not_renewed_on_source_change_or_rotation")
            ELSE IF AfterTimers(c).state # "INITIAL" /\ f.sk # "" THEN Rej("c17.server_cookie_kept_across_client_cookie_change")
            ELSE IF AfterTimers(c).state = "INITIAL" /\ f.sk # "" THEN Rej("c17.server_cookie_sent_after_reset")
            ELSE upd(AfterApply(c, src, f.ck))
       ELSE IF f.ck # c.client THEN Rej("c17.client_cookie_changed_without_cause")
       ELSE IF f.sk # c.server THEN Rej("c17.latest_server_cookie_not_echoed")
       ELSE upd(AfterApply(c, src, f.ck))

Matches(p) == /\ p.parse = 1 /\ p.qid \in DOMAIN kq
              /\ kq[p.qid].fd = p.fd                    \* on the connection the query is assigned to (C05)
              /\ p.qt = kq[p.qid].qt /\ p.qc = kq[p.qid].qc
              /\ (IF kcfg.dns0x20 = 1 /\ ~kq[p.qid].tcp THEN p.name = kq[p.qid].name ELSE p.lname = kq[p.qid].lname)

(* Several datagrams read from one connection by one processing call are processed after all of them were read, each
   after the callbacks of the previous one, and not at all after a connection failure.  This facet judges responses
   when they are read; a history in which a second datagram is read straight after another one is judged only up to
   that point (the batch rules are part of the Retry and Accept facets). *)
SecondOfBatch(e) == /\ l > 1 /\ Tr[l - 1].e = "sk" /\ Tr[l - 1].op = "recv" /\ Tr[l - 1].res = "ok"
                    /\ "pid" \in DOMAIN Tr[l - 1] /\ Tr[l - 1].fd = e.fd
HRecv(e) ==
  IF e.res # "ok" \/ "pid" \notin DOMAIN e \/ e.fd \notin DOMAIN kfd THEN Skip
  ELSE IF SecondOfBatch(e) THEN Stop
  ELSE IF e.fromok = 0 \/ ~Matches(e) THEN Skip
  ELSE LET rec == kq[e.qid]
           s == kfd[e.fd].srv       \* the cookie state consulted is that of the connection's server
           c == kc[s]
           v == Verdict(c, rec, e)
       IN /\ kc' = [kc EXCEPT ![s] = AfterValidate(c, rec, e)]
          /\ okp' = IF v = "accept" THEN okp \cup {e.pid} ELSE okp
          \* a valid BADCOOKIE makes the query leave this connection (it is re-sent; after the third one over TCP)
          \* a response that passed the cookie checks ends this transmission too: the query completes or is requeued
          \* (truncation, error rcode, EDNS downgrade) and is off this connection until it is transmitted again
          /\ kq' = IF v = "badcookie" THEN [kq EXCEPT ![e.qid].ctries = @ + 1, ![e.qid].fd = 0]
                   ELSE IF v = "accept" THEN [kq EXCEPT ![e.qid].fd = 0] ELSE kq
          /\ UNCHANGED <<kcfg, know, kfd>> /\ Acc

HCbb(e) ==
  LET ms == {m \in (IF "markers" \in DOMAIN e THEN ToSet(e.markers) ELSE {}) : m >= 0}
      bad1 == {m \in ms : (m \div 8) \notin okp}
  IN IF bad1 # {} THEN Rej("c17.response_failing_cookie_checks_delivered")
     ELSE /\ kq' = Without(kq, {id \in DOMAIN kq : kq[id].t = e.t})
          /\ UNCHANGED <<kcfg, know, kc, kfd, okp>> /\ Acc

HSk(e) ==
  CASE e.op = "open" /\ e.res = "ok" -> kfd' = kfd @@ (e.fd :> [srv |-> 0, tcp |-> (e.tcp = 1), src |-> 0]) /\ UNCHANGED <<kcfg, know, kc, kq, okp>> /\ Acc
    [] e.op = "connect" /\ e.res # "err" /\ e.fd \in DOMAIN kfd -> kfd' = [kfd EXCEPT ![e.fd].srv = e.srv] /\ UNCHANGED <<kcfg, know, kc, kq, okp>> /\ Acc
    [] e.op = "getsockname" /\ e.res = "ok" /\ e.fd \in DOMAIN kfd -> kfd' = [kfd EXCEPT ![e.fd].src = e.src] /\ UNCHANGED <<kcfg, know, kc, kq, okp>> /\ Acc
    [] e.op = "send" /\ e.res \in {"ok", "err"} -> HSend(e)
    [] e.op = "recv" -> HRecv(e)
    [] OTHER -> Skip

Handle(e) ==
  CASE e.e = "init" -> /\ kcfg' = e /\ kc' = [s \in 1..e.nsrv |-> Fresh] /\ UNCHANGED <<know, kq, kfd, okp>> /\ Acc
    [] e.e = "call" -> IF e.api \in {"setservers", "reinit", "search", "gai", "ghbn", "ghba", "gni", "lsearch"} THEN Stop
                       ELSE know' = e.now /\ UNCHANGED <<kcfg, kc, kq, kfd, okp>> /\ Acc
    [] e.e = "adv" -> know' = e.now /\ UNCHANGED <<kcfg, kc, kq, kfd, okp>> /\ Acc
    [] e.e = "sk" -> HSk(e)
    [] e.e = "env" -> IF e.op = "stream" THEN okp' = okp \cup {e.pid} /\ UNCHANGED <<kcfg, know, kc, kq, kfd>> /\ Acc ELSE Skip
    [] e.e = "cbb" -> HCbb(e)
    [] e.e = "crash" -> Rej("c17.crash." \o e.sum)     \* a sanitizer report or abnormal end inside a history of this family
    [] OTHER -> Skip

Verdict2 == [verdict |-> IF bad /\ why.label # "" THEN "REJ" ELSE "ACC", id |-> hid, line |-> why.line, label |-> why.label]
TInit == KInit /\ l = 1 /\ bad = FALSE /\ why = [line |-> 0, label |-> ""] /\ hid = ""
TNext ==
  /\ l <= Len(Tr) /\ l' = l + 1
  /\ LET e == Tr[l] IN
       IF e.e = "reset" THEN
            /\ (hid # "" => PrintT(ToJson(Verdict2)))
            /\ kcfg' = [edns |-> 0] /\ know' = 0 /\ kc' = <<>> /\ kq' = <<>> /\ kfd' = <<>> /\ okp' = {}
            /\ bad' = FALSE /\ why' = [line |-> 0, label |-> ""] /\ hid' = e.id
       ELSE hid' = hid /\ (IF bad THEN Skip ELSE Handle(e))
TSpec == TInit /\ [][TNext]_tvars
=============================================================================
