CONSTANTS
  Cfgs <- C06Cfgs
  Apis = {"query", "send"}
  Nests = {"none", "query"}
  Kinds = {"ok", "nx", "servfail", "refused", "notimp", "formerr", "formerr_noopt", "tc", "garbage", "wrongid", "empty"}
  Faults = {"sendto", "recvfrom", "socket", "connect"}
  Extras = {"timeout", "cancel", "setservers", "tick"}
  MaxReq = 2
  MaxLen = 4
INIT GInit
NEXT GNext
INVARIANT Emit
CHECK_DEADLOCK FALSE
