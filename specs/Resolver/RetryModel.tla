---------------------------- MODULE RetryModel ----------------------------
(* Stand-alone model of the retry / failover policy, built from the very
   operators of Retry.tla that the trace specification uses (Requeued,
   FailServer, FreshChoiceOk, MaxTries, AttemptLo/Hi).  One query, NS servers;
   the environment chooses the outcome of every attempt (final answer, error
   rcode, FORMERR to EDNS, truncation, BADCOOKIE, silence until the deadline,
   connection failure); the system re-sends according to the policy.
   TLC checks the arithmetic of C06 (transmissions never exceed
   servers x tries + 1 + 1 + 3), the selection rule of C09 and termination.   *)
EXTENDS Retry

CONSTANTS NS, TRIES, ROTATE,
          NSU,      \* size of the server universe (list edits choose among servers 1..NSU)
          EDITS     \* number of list edits the environment may make while the query is outstanding
VARIABLES ck,     \* BADCOOKIE resends so far (cookie_try_count)
          ed      \* list edits so far
mvars == <<rvars, ck, ed>>
QID == 1

NewQuery == [t |-> 1, qt |-> 1, qc |-> 1, api |-> "send", probe |-> FALSE, st |-> "tosend", try |-> 0, ntx |-> 0, to |-> 0, fd |-> 0, srv |-> 0,
             sentAt |-> 0, dlo |-> 0, dhi |-> 0, tcp |-> FALSE, edns |-> TRUE, reqsrv |-> 0, qsrv |-> 0, noretry |-> FALSE, err |-> "", endst |-> "",
             endrc |-> -1, sentopts |-> TRUE, lname |-> "n", name |-> "n"]

MInit == /\ cfg = [nsrv |-> NS, tries |-> TRIES, timeout |-> 300, maxtimeout |-> 0, rotate |-> ROTATE, retrydelay |-> 5000, usevc |-> 0,
                   igntc |-> 0, nocheckresp |-> 0]
         /\ now = 0
         /\ srv = [s \in 1..NS |-> [fails |-> 0, nextRetry |-> 0, m |-> EmptyMetrics, idx |-> s, dying |-> FALSE]]
         /\ fdi = <<>> /\ owedF = [s \in 1..NS |-> 0] /\ owedO = [s \in 1..NS |-> 0]
         /\ q = (QID :> NewQuery)
         /\ proc = [in |-> FALSE, nonfd |-> FALSE, nrecv |-> 0, inbox |-> <<>>, ss |-> 0] /\ oos = FALSE
         /\ ck = 0 /\ ed = 0

Keep == UNCHANGED <<cfg, fdi, owedF, owedO, proc, oos, ed>>
NoEdit == DyingIn(srv) = {}      \* a list edit runs to completion inside one API call: nothing else happens meanwhile
R == q[QID]

(* system: transmit to a server the policy allows *)
Send == /\ R.st = "tosend"
        /\ \E s \in DOMAIN srv :
             /\ (IF R.reqsrv # 0 THEN s = R.reqsrv ELSE FreshChoiceOk(s))
             /\ q' = [q EXCEPT ![QID] = [R EXCEPT !.st = "inflight", !.srv = s, !.sentAt = now, !.ntx = @ + 1, !.reqsrv = 0,
                                                  !.dlo = AttemptLo(s, now, R.try), !.dhi = AttemptHi(s, now, R.try)]]
        /\ UNCHANGED <<now, srv, ck>> /\ Keep

(* environment: outcomes of the attempt in flight *)
Final == /\ NoEdit /\ R.st = "inflight"
         /\ q' = [q EXCEPT ![QID] = [R EXCEPT !.st = "ending", !.endst = "SUCCESS"]]
         /\ srv' = [srv EXCEPT ![R.srv].fails = 0]
         /\ UNCHANGED <<now, ck>> /\ Keep
ErrorRcode == /\ NoEdit /\ R.st = "inflight"
              /\ srv' = FailServer(R.srv)
              /\ q' = [q EXCEPT ![QID] = Requeued(R, TRUE, "ESERVFAIL")]
              /\ UNCHANGED <<now, ck>> /\ Keep
FormErr == /\ NoEdit /\ R.st = "inflight" /\ R.edns /\ ~R.tcp
           /\ q' = [q EXCEPT ![QID] = [R EXCEPT !.st = "tosend", !.edns = FALSE, !.reqsrv = R.srv]]
           /\ UNCHANGED <<now, srv, ck>> /\ Keep
Truncated == /\ NoEdit /\ R.st = "inflight" /\ ~R.tcp
             /\ q' = [q EXCEPT ![QID] = [R EXCEPT !.st = "tosend", !.tcp = TRUE]]
             /\ UNCHANGED <<now, srv, ck>> /\ Keep
BadCookie == /\ NoEdit /\ R.st = "inflight" /\ ~R.tcp /\ R.edns
             /\ ck' = ck + 1
             /\ q' = [q EXCEPT ![QID] = [Requeued(R, FALSE, "") EXCEPT !.tcp = (ck + 1 >= 3)]]
             /\ UNCHANGED <<now, srv>> /\ Keep
Timeout == /\ NoEdit /\ R.st = "inflight"
           /\ now' = R.dhi
           /\ srv' = FailServer(R.srv)
           /\ q' = [q EXCEPT ![QID] = Requeued([R EXCEPT !.to = @ + 1], TRUE, "ETIMEOUT")]
           /\ UNCHANGED ck /\ Keep
ConnFail == /\ NoEdit /\ R.st = "inflight"
            /\ srv' = FailServer(R.srv)
            /\ q' = [q EXCEPT ![QID] = Requeued(R, TRUE, "ECONNREFUSED")]
            /\ UNCHANGED <<now, ck>> /\ Keep

(* environment: the application replaces the server list while the query is outstanding (the new list is any
   non-empty arrangement of servers of the universe); system: the removed servers are destroyed one by one, the
   query being re-sent (to whatever is a member at that moment) as soon as it was requeued *)
Lists == {L \in UNION {[1..n -> 1..NSU] : n \in 1..NSU} : \A i, j \in 1..Len(L) : i # j => L[i] # L[j]}
EditList == /\ ed < EDITS /\ NoEdit /\ R.st = "inflight"
            /\ \E L \in Lists :
                 /\ srv' = ListEdit(srv, q, L)
                 /\ owedF' = [s \in DOMAIN ListEdit(srv, q, L) |-> 0] /\ owedO' = [s \in DOMAIN ListEdit(srv, q, L) |-> 0]
            /\ ed' = ed + 1
            /\ UNCHANGED <<cfg, now, fdi, q, proc, oos, ck>>
DestroyNext == /\ ~NoEdit /\ R.st # "tosend"
               /\ LET cand == {s \in DyingIn(srv) : \A d \in DyingIn(srv) : d = s \/ BeforeIn(srv, s, d)}    \* first in list order
                      s == CHOOSE x \in cand : TRUE
                  IN /\ srv' = [x \in (DOMAIN srv) \ DestroySet(srv, q, s) |-> srv[x]]
                     /\ q' = AfterDestroy(srv, q, s)
                     /\ owedF' = [x \in (DOMAIN srv) \ DestroySet(srv, q, s) |-> 0]
                     /\ owedO' = [x \in (DOMAIN srv) \ DestroySet(srv, q, s) |-> 0]
               /\ UNCHANGED <<cfg, now, fdi, proc, oos, ck, ed>>

MNext == Send \/ Final \/ ErrorRcode \/ FormErr \/ Truncated \/ BadCookie \/ Timeout \/ ConnFail \/ EditList \/ DestroyNext
MSpec == MInit /\ [][MNext]_mvars /\ WF_mvars(Send) /\ WF_mvars(Final \/ Timeout) /\ WF_mvars(DestroyNext)

(* C06: bounded transmissions; the protocol-mandated resends are each bounded on their own *)
Budget == R.ntx <= NSU * TRIES + 1 + 1 + 3       \* NSU = NS when the list is never edited
TryBound == R.try <= NSU * TRIES
(* every transmission after the first is paid for: by a try, or by one of the bounded protocol-mandated resends *)
Paid == R.ntx <= R.try + 1 + (IF R.edns THEN 0 ELSE 1) + (IF R.tcp THEN 1 ELSE 0) + ck
(* a query is never left in flight on a server that is no longer a member *)
OnMember == R.st = "inflight" => R.srv \in DOMAIN srv
CookieBound == ck <= 3 \/ R.tcp
(* C09: the server in use belonged to the least-failed class when chosen -- expressed on the next state by Send's guard;
   as a state invariant: a query that is waiting to be sent with no requested server always has a legal choice *)
ChoiceExists == R.st = "tosend" => \E s \in DOMAIN srv : (IF R.reqsrv # 0 THEN s = R.reqsrv ELSE FreshChoiceOk(s))
(* C06: per-attempt wait between base timeout and the maximum *)
WaitSound == R.st = "inflight" => (R.dlo <= R.dhi /\ R.dlo - R.sentAt >= 250)
Terminates == <>(R.st = "ending")
=============================================================================
