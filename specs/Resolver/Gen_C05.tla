------------------------------ MODULE Gen_C05 ------------------------------
EXTENDS EnvGen
C05Cfgs == { [nsrv |-> 2, tries |-> 2, timeout |-> 1000, seed |-> 1, dns0x20 |-> 1, qcache |-> 3600],
             [nsrv |-> 1, tries |-> 2, timeout |-> 1000, seed |-> 2, edns |-> 1, qcache |-> 3600],
             [nsrv |-> 2, tries |-> 2, timeout |-> 1000, seed |-> 3, v6 |-> 1],
             [nsrv |-> 1, tries |-> 3, timeout |-> 1000, seed |-> 4, usevc |-> 1, dns0x20 |-> 1] }
=============================================================================
