------------------------ MODULE OomTrace ------------------------
(* Envelope for single-allocation-failure runs (C14): the life-cycle contract of Lifecycle.tla must hold
   in every run in which exactly one allocation failed; nothing may leak; after the failure the channel must
   still serve a fresh request (usability probe, token 99) and be destroyable.
   Trace validation of recorded cares_sim executions against Lifecycle.tla.
   The file named by env TRACE holds many histories separated by "reset"
   events.  Every event is passed to the matching Lifecycle action; if the
   action is not enabled the history is marked rejected (with a label naming
   the violated clause) and skipped.  One verdict line is printed per history. *)
EXTENDS Lifecycle, Json, IOUtils

Tr == ndJsonDeserialize(IOEnv.TRACE)

VARIABLES l, bad, why, hid, oomed, probeAfter
tvars == <<req, stack, chan, l, bad, why, hid, oomed, probeAfter>>

Rej(label) == /\ bad' = TRUE
              /\ why' = [line |-> l, label |-> label]
              /\ UNCHANGED <<lvars, oomed, probeAfter>>
Acc == UNCHANGED <<bad, why, oomed, probeAfter>>
Skip == UNCHANGED <<lvars, bad, why, oomed, probeAfter>>

HCall(e) ==
  IF e.api \in RequestApis THEN
       IF CanCall(e.api, e.t) /\ e.incb = InCb
       THEN DoCall(e.api, e.t) /\ probeAfter' = (IF e.t = 99 THEN oomed ELSE probeAfter) /\ UNCHANGED <<bad, why, oomed>>
       ELSE Rej("c14.call_not_allowed")
  ELSE IF e.api = "cancel" THEN
       IF CanCallCancel /\ e.incb = InCb THEN DoCallCancel /\ Acc ELSE Rej("c14.cancel_not_allowed")
  ELSE IF e.api = "destroy" THEN
       IF CanCallDestroy THEN DoCallDestroy /\ Acc ELSE Rej("c14.destroy_not_allowed")
  ELSE IF CanCallOther(e.api) THEN DoCallOther(e.api) /\ Acc ELSE Rej("c14.call_not_allowed")

HCbb(e) ==
  IF e.t = 99 /\ probeAfter /\ e.st # "SUCCESS" THEN Rej("c14.channel_unusable_after_failure." \o e.st)
  ELSE IF e.t \in DOMAIN req /\ req[e.t].ncb >= 1 THEN Rej("c14.second_callback." \o req[e.t].api \o "." \o e.st)
  ELSE IF chan = "destroyed" THEN Rej("c14.callback_after_destroy")
  ELSE IF CanCbb(e.t, e.st) THEN DoCbb(e.t, e.st) /\ Acc
  ELSE Rej("c14.callback_not_allowed." \o e.st)

HRet(e) ==
  IF Len(stack) > 0 /\ Top.k = "api" /\ Top.api = e.api /\ Top.owe # {} THEN Rej("c14." \o e.api \o "_left_requests_pending")
  ELSE IF CanRet(e.api) THEN DoRet(e.api) /\ Acc
  ELSE Rej("c14.return_with_open_callback")

Handle(e) ==
  CASE e.e = "call" -> HCall(e)
    [] e.e = "cbb" -> HCbb(e)
    [] e.e = "cbe" -> IF CanCbe(e.t) THEN DoCbe(e.t) /\ Acc ELSE Rej("c14.callback_nesting")
    [] e.e = "ret" -> HRet(e)
    [] e.e = "rejected" -> IF CanReject(e.t) THEN DoReject(e.t) /\ Acc ELSE Rej("c14.reject")
    [] e.e = "crash" -> Rej("c14.crash." \o e.sum)
    [] e.e = "oom" -> oomed' = TRUE /\ UNCHANGED <<lvars, bad, why, probeAfter>>
    [] e.e = "initfail" -> chan' = "destroyed" /\ UNCHANGED <<req, stack, bad, why, oomed, probeAfter>>
    [] e.e = "end" -> IF e.leaked # 0 THEN  \* remember the leak; a LeakSanitizer record that follows names the allocation site
                           /\ why' = [line |-> l, label |-> "c14.leak"] /\ UNCHANGED <<lvars, bad, oomed, probeAfter>>
                      ELSE IF Pending = {} /\ chan = "destroyed" THEN Skip ELSE Rej("c14.never_completed")
    [] OTHER -> Skip

Verdict == [verdict |-> IF bad \/ why.label = "c14.leak" THEN "REJ" ELSE "ACC", id |-> hid, line |-> why.line, label |-> why.label]

TInit == /\ LInit
         /\ l = 1
         /\ bad = FALSE
         /\ why = [line |-> 0, label |-> ""]
         /\ hid = ""
         /\ oomed = FALSE /\ probeAfter = FALSE

TNext ==
  /\ l <= Len(Tr)
  /\ l' = l + 1
  /\ LET e == Tr[l] IN
       IF e.e = "reset" THEN
            /\ (hid # "" => PrintT(ToJson(Verdict)))
            /\ req' = <<>> /\ stack' = <<>> /\ chan' = "up"
            /\ bad' = FALSE /\ why' = [line |-> 0, label |-> ""]
            /\ hid' = e.id /\ oomed' = FALSE /\ probeAfter' = FALSE
       ELSE /\ hid' = hid
            /\ IF bad THEN Skip ELSE Handle(e)

TSpec == TInit /\ [][TNext]_tvars
Consumed == TLCGet("stats").diameter - 1 = Len(Tr)
=============================================================================
