CONSTANTS
  NS = 3
  TRIES = 2
  ROTATE = 1
SPECIFICATION MSpec
INVARIANTS Budget TryBound CookieBound ChoiceExists WaitSound
PROPERTY Terminates
CHECK_DEADLOCK FALSE
