------------------------------ MODULE GenCache ------------------------------
(* Generator of cache-oriented histories (C08): requests that share names (with
   case / trailing-dot / flag / type variants), answers with TTL mixes and
   negative answers, virtual-time advances across the lifetimes, server-list
   changes and reinit.                                                        *)
EXTENDS Naturals, Sequences, FiniteSets, TLC, Json

CONSTANTS Cfgs, Variants, Kinds, Advances, Extras, MaxReq, MaxLen
VARIABLES cfg, h, nreq
gvars == <<cfg, h, nreq>>

ReqStep(v, t) ==
  CASE v = "q1" -> [op |-> "query", t |-> t, name |-> "n1.test", qt |-> 1]
    [] v = "q1case" -> [op |-> "query", t |-> t, name |-> "N1.TeSt", qt |-> 1]
    [] v = "q1dot" -> [op |-> "query", t |-> t, name |-> "n1.test.", qt |-> 1]
    [] v = "q1aaaa" -> [op |-> "query", t |-> t, name |-> "n1.test", qt |-> 28]
    [] v = "s1" -> [op |-> "send", t |-> t, name |-> "n1.test", qt |-> 1]
    [] v = "s1cd" -> [op |-> "send", t |-> t, name |-> "n1.test", qt |-> 1, cd |-> 1]
    [] v = "s1nord" -> [op |-> "send", t |-> t, name |-> "n1.test", qt |-> 1, nord |-> 1]
    [] v = "s1t99" -> [op |-> "send", t |-> t, name |-> "n1.test", qt |-> 99]      \* types without a mnemonic
    [] v = "s1t100" -> [op |-> "send", t |-> t, name |-> "n1.test", qt |-> 100]
    [] v = "s1txt" -> [op |-> "send", t |-> t, name |-> "n1.test", qt |-> 16]
    [] v = "s1txtch" -> [op |-> "send", t |-> t, name |-> "n1.test", qt |-> 16, qc |-> 3]   \* class CHAOS
    [] v = "s1ch" -> [op |-> "send", t |-> t, name |-> "n1.test", qt |-> 1, qc |-> 3]
    [] v = "l1" -> [op |-> "lquery", t |-> t, name |-> "n1.test", qt |-> 1]
    [] v = "q2" -> [op |-> "query", t |-> t, name |-> "n2.test", qt |-> 1]

ReplyStep(k) ==
  LET b == [op |-> "reply", tx |-> "last"] IN
  CASE k = "ok60" -> b @@ [kind |-> "ok", ttl |-> 60]
    [] k = "ok5" -> b @@ [kind |-> "ok", ttl |-> 5]
    [] k = "ok0" -> b @@ [kind |-> "ok", ttl |-> 0]
    [] k = "okmix" -> b @@ [kind |-> "ok", n |-> 2, ttls |-> <<30, 4>>]
    [] k = "cname" -> b @@ [kind |-> "ok", cname |-> 1, cnamettl |-> 3, ttl |-> 60]
    [] k = "nx" -> b @@ [kind |-> "nx", soa |-> 1, soattl |-> 30, soamin |-> 6]
    [] k = "nx_nosoa" -> b @@ [kind |-> "nx", soa |-> 0]
    [] k = "nodata" -> b @@ [kind |-> "nodata", soa |-> 1]
    [] k = "servfail" -> b @@ [kind |-> "servfail"]
    [] k = "tc" -> b @@ [kind |-> "tc"]
    [] k = "okglue" -> b @@ [kind |-> "ok", ttl |-> 300, gluettl |-> 1]
    [] k = "okbig" -> b @@ [kind |-> "ok", ttl |-> 100000]

GInit == cfg \in Cfgs /\ h = <<>> /\ nreq = 0
LastOp == IF Len(h) = 0 THEN "" ELSE h[Len(h)].op
NewReq == /\ nreq < MaxReq /\ \E v \in Variants : h' = Append(h, ReqStep(v, nreq + 1)) /\ nreq' = nreq + 1 /\ UNCHANGED cfg
Reply == /\ nreq > 0 /\ \E k \in Kinds : h' = Append(h, ReplyStep(k)) /\ UNCHANGED <<cfg, nreq>>
Adv == /\ LastOp # "adv" /\ nreq > 0 /\ \E ms \in Advances : h' = Append(h, [op |-> "adv", ms |-> ms]) /\ UNCHANGED <<cfg, nreq>>
Extra == /\ nreq > 0
         /\ \/ ("setsame" \in Extras /\ h' = Append(h, [op |-> "setservers", csv |-> "10.0.0.1"]))
            \/ ("setadd" \in Extras /\ h' = Append(h, [op |-> "setservers", csv |-> "10.0.0.1,10.0.0.2"]))
            \/ ("setother" \in Extras /\ h' = Append(h, [op |-> "setservers", csv |-> "10.0.0.2"]))
            \/ ("reinit" \in Extras /\ h' = Append(h, [op |-> "reinit"]))
            \/ ("timeout" \in Extras /\ h' = h \o <<[op |-> "adv", to |-> "deadline"], [op |-> "process"]>>)
         /\ UNCHANGED <<cfg, nreq>>
GNext == Len(h) < MaxLen /\ (NewReq \/ Reply \/ Adv \/ Extra)
Emit == h # <<>> => PrintT(ToJson([cfg |-> cfg, steps |-> h]))
=============================================================================
