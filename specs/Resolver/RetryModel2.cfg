CONSTANTS
  NS = 2
  TRIES = 3
  ROTATE = 0
SPECIFICATION MSpec
INVARIANTS Budget TryBound CookieBound ChoiceExists WaitSound
PROPERTY Terminates
CHECK_DEADLOCK FALSE
