CONSTANTS
  NS = 2
  TRIES = 3
  ROTATE = 0
  NSU = 2
  EDITS = 0
SPECIFICATION MSpec
INVARIANTS Paid OnMember Budget TryBound CookieBound ChoiceExists WaitSound
PROPERTY Terminates
CHECK_DEADLOCK FALSE
