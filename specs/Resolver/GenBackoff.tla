----------------------------- MODULE GenBackoff -----------------------------
(* Histories for the back-off arithmetic (C06: "the computation has no overflow or
   undefined behaviour for any legal option value"; C07: deadlines and hints stay
   sound): one request to silent servers with a large number of tries, every
   deadline processed in turn until the request fails.  The timeout doubles with
   every full pass over the server list; with a configured maximum the waits stay
   short, so that dozens of passes -- more than the width of the integer type the
   doubling is computed in -- are reached.                                      *)
EXTENDS Naturals, Sequences, FiniteSets, TLC, Json
CONSTANTS Cfgs
VARIABLES cfg, done
Tmo == <<[op |-> "adv", to |-> "deadline"], [op |-> "process"]>>
RECURSIVE Rep(_, _)
Rep(s, n) == IF n = 0 THEN <<>> ELSE s \o Rep(s, n - 1)
Hist == <<[op |-> "query", t |-> 1, name |-> "n1.test", qt |-> 1]>> \o Rep(Tmo, cfg.nsrv * cfg.tries + 1)
GInit == cfg \in Cfgs /\ done = FALSE
GNext == ~done /\ done' = TRUE /\ UNCHANGED cfg
Emit == PrintT(ToJson([cfg |-> cfg, steps |-> Hist]))
BackoffCfgs == { [nsrv |-> 1, tries |-> 70, timeout |-> 300, maxtimeout |-> 400, seed |-> 1],
                 [nsrv |-> 2, tries |-> 35, timeout |-> 250, maxtimeout |-> 250, seed |-> 2],
                 [nsrv |-> 1, tries |-> 33, timeout |-> 1, maxtimeout |-> 2147483, seed |-> 3],
                 [nsrv |-> 3, tries |-> 7, timeout |-> 2000, seed |-> 4, rotate |-> 1] }
=============================================================================
