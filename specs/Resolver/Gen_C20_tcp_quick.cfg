CONSTANTS
  Cfgs <- C20TcpCfgs
  WAlpha = {1, 2, 3, 27, 30, 0}
  WLen = 4
  ChunkSizes = {1, 2, 3, 7, 44}
  SplitMax = 135
  Batch = {1, 3}
  Mode = "tcp"
INIT GInit
NEXT GNext
INVARIANT Emit
CHECK_DEADLOCK FALSE
