------------------------------ MODULE Gen_C20 ------------------------------
EXTENDS GenStream
C20TcpCfgs == { [nsrv |-> 1, tries |-> 2, timeout |-> 1000, seed |-> 1, usevc |-> 1],
                [nsrv |-> 1, tries |-> 2, timeout |-> 1000, seed |-> 2, usevc |-> 1, pendwrite |-> 1],
                [nsrv |-> 1, tries |-> 2, timeout |-> 1000, seed |-> 3, usevc |-> 1, tfo |-> 1, stayopen |-> 1] }
C20UdpCfgs == { [nsrv |-> 1, tries |-> 2, timeout |-> 1000, seed |-> 1],
                [nsrv |-> 1, tries |-> 2, timeout |-> 1000, seed |-> 2, igntc |-> 1],
                [nsrv |-> 2, tries |-> 2, timeout |-> 1000, seed |-> 3, stayopen |-> 1],
                [nsrv |-> 1, tries |-> 1, timeout |-> 1000, seed |-> 4] }    \* the truncated answer arrives on the only attempt
=============================================================================
