CONSTANTS
  Cfgs <- C20UdpCfgs
  WAlpha = {}
  WLen = 0
  ChunkSizes = {}
  SplitMax = 0
  Batch = {1}
  Mode = "udp"
INIT GInit
NEXT GNext
INVARIANT Emit
CHECK_DEADLOCK FALSE
