CONSTANTS
  Cfgs <- C01DeepCfgs
  Apis = {"query", "search"}
  Nests = {"none"}
  Kinds = {"ok", "stale_ok", "servfail"}
  Faults = {}
  Extras = {"timeout"}
  MaxReq = 1
  MaxLen = 6
INIT GInit
NEXT GNext
INVARIANT Emit
CHECK_DEADLOCK FALSE
