CONSTANTS
  Orders = {"sls", "lss", "ssl"}
  Waits = {1000, 3000, 90000}
INIT GInit
NEXT GNext
INVARIANT Emit
CHECK_DEADLOCK FALSE
