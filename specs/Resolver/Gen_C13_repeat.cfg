CONSTANTS
  LookupOrders = {"b"}
  SortFlags = {0}
  Reqs = {"gai0", "gai4", "gai6", "ghbn4"}
  Shapes = {"one", "three", "cname2", "nodata", "nx"}
  QCacheSet = {3600}
  V6Src = 0
  SortLists = {""}
  Repeat = 1
  MaxRep = 4
INIT GInit
NEXT GNext
INVARIANT Emit
CHECK_DEADLOCK FALSE
