CONSTANTS
  Cfgs <- C01Cfgs
  Apis = {"query", "send", "search", "gai", "ghbn", "ghba", "gni"}
  Nests = {"none", "cancel", "query", "search", "gai", "querycancel"}
  Kinds = {"ok", "servfail", "nx", "tc", "garbage", "formerr", "badcookie", "stale_ok"}
  Faults = {"sendto", "socket", "connect", "recvfrom"}
  Extras = {"cancel", "timeout", "setservers"}
  MaxReq = 3
  MaxLen = 10
INIT GInit
NEXT GNext
INVARIANT Emit
CHECK_DEADLOCK FALSE
