CONSTANTS
  Cfgs <- C05Cfgs
  Apis = {"query", "gai"}
  Nests = {"none"}
  Kinds = {"ok", "wrongid", "wrongname", "wrongtype", "wrongaddr", "flipcase", "ok_wrongclient", "stale_ok", "servfail", "batch_tc_flipcase", "batch_formerr_wrongname"}
  Faults = {}
  Extras = {"timeout", "process"}
  MaxReq = 2
  MaxLen = 4
INIT GInit
NEXT GNext
INVARIANT Emit
CHECK_DEADLOCK FALSE
