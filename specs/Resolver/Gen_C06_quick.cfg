CONSTANTS
  Cfgs <- C06Cfgs
  Apis = {"query", "send"}
  Nests = {"none"}
  Kinds = {"ok", "servfail", "formerr", "tc", "garbage", "empty"}
  Faults = {"sendto", "recvfrom", "socket", "connect"}
  Extras = {"timeout", "cancel", "setservers"}
  MaxReq = 2
  MaxLen = 4
INIT GInit
NEXT GNext
INVARIANT Emit
CHECK_DEADLOCK FALSE
