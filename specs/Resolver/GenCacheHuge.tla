----------------------------- MODULE GenCacheHuge -----------------------------
(* Cache histories with lifetimes that differ by more than 2^31 seconds: the largest configurable cache lifetime, one
   answer with a TTL beyond 2^31 s and short-lived answers cached before and after it; after the short lifetimes have
   passed the short-lived names must be asked again, the long-lived one is still served.                         *)
EXTENDS Naturals, Sequences, FiniteSets, TLC, Json
CONSTANTS Orders, Waits
VARIABLES order, wait, done
Q(t, name) == [op |-> "query", t |-> t, name |-> name, qt |-> 1]
Short(n) == <<Q(n, "n" \o ToString(n) \o ".test"), [op |-> "reply", tx |-> "last", kind |-> "ok", ttl |-> 2]>>
Long == <<Q(5, "n5.test"), [op |-> "reply", tx |-> "last", kind |-> "ok", hugettl |-> 1]>>
Fill == CASE order = "sls" -> Short(1) \o Long \o Short(2)
          [] order = "lss" -> Long \o Short(1) \o Short(2)
          [] order = "ssl" -> Short(1) \o Short(2) \o Long
Hist == Fill \o <<[op |-> "adv", ms |-> wait]>> \o <<Q(11, "n1.test"), Q(12, "n2.test"), Q(15, "n5.test")>>
GInit == order \in Orders /\ wait \in Waits /\ done = FALSE
GNext == ~done /\ done' = TRUE /\ UNCHANGED <<order, wait>>
Emit == PrintT(ToJson([cfg |-> [nsrv |-> 1, tries |-> 2, timeout |-> 1000, seed |-> 1, qcache |-> 3600, qcachemax |-> 1], steps |-> Hist]))
=============================================================================
