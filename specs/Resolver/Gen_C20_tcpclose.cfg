CONSTANTS
  Cfgs <- C20TcpCfgs
  WAlpha = {}
  WLen = 0
  ChunkSizes = {1, 2, 3, 17, 44}
  SplitMax = 0
  Batch = {1, 3}
  Mode = "tcpclose"
INIT GInit
NEXT GNext
INVARIANT Emit
CHECK_DEADLOCK FALSE
