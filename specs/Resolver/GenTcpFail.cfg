CONSTANTS
  Cfgs <- TcpFailCfgs
INIT GInit
NEXT GNext
INVARIANT Emit
CHECK_DEADLOCK FALSE
