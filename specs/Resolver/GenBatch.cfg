CONSTANTS
  Cfgs <- BatchCfgs
  Kinds = {"ok", "servfail", "formerr", "tc", "garbage", "nx"}
  Faults = {"none", "sendto"}
  Copies = {1, 3}
  Nests = {"none", "query", "cancel", "setservers"}
INIT GInit
NEXT GNext
INVARIANT Emit
CHECK_DEADLOCK FALSE
