---------------------------- MODULE CookieModel ----------------------------
(* Stand-alone model of the cookie client machine built from the operators of
   Cookie.tla (AfterApply / Verdict / AfterValidate).  One server; the
   environment sends queries from one of two source addresses, lets the server
   answer with every cookie behaviour, and advances time across the 120 s and
   1 day timers.  TLC checks the clauses of C17 as invariants over ghost
   observations of what was sent and what was accepted.                       *)
EXTENDS Cookie
VARIABLES nclient,   \* number of client cookies generated so far (fresh ids)
          sent,      \* the cookie carried by the query in flight: [clen, ck, sk] or "none"
          ghost      \* [acceptedBareWhileSupported, changedWithoutCause, staleServerCookieSent]
mvars == <<kvars, nclient, sent, ghost>>
S == 1

MInit == /\ kcfg = [edns |-> 1, dns0x20 |-> 0] /\ know = 0 /\ kc = (S :> Fresh) /\ kq = <<>> /\ kfd = <<>> /\ okp = {}
         /\ nclient = 0 /\ sent = [clen |-> 0, ck |-> "", sk |-> "", live |-> FALSE]
         /\ ghost = [bare |-> FALSE, changed |-> FALSE, stale |-> FALSE]
Keep == UNCHANGED <<kcfg, kq, kfd, okp>>
NewId == "c" \o ToString(nclient + 1)

Send(src) ==
  LET c == kc[S]
      regen == MustRegenerate(c, src)
      c2 == AfterApply(c, src, NewId)
  IN /\ ~sent.live
     /\ kc' = (S :> c2)
     /\ nclient' = IF regen /\ ~MustOmit(c) THEN nclient + 1 ELSE nclient
     /\ sent' = IF MustOmit(c) THEN [clen |-> 0, ck |-> "", sk |-> "", live |-> TRUE]
                ELSE [clen |-> 8 + (IF c2.server = "" THEN 0 ELSE 8), ck |-> c2.client, sk |-> c2.server, live |-> TRUE]
     /\ ghost' = [ghost EXCEPT !.changed = @ \/ (~regen /\ ~MustOmit(c) /\ c2.client # c.client),
                               !.stale = @ \/ (regen /\ AfterTimers(c).state # "INITIAL" /\ c2.server # "")]
     /\ UNCHANGED know /\ Keep

Reply(clen, ckOk, sk, rcode) ==
  LET c == kc[S]
      p == [clen |-> clen, ck |-> IF ckOk THEN sent.ck ELSE "bogus", sk |-> sk, rcode |-> rcode]
      rec == [clen |-> sent.clen, ck |-> sent.ck]
      v == Verdict(c, rec, p)
  IN /\ sent.live
     /\ kc' = (S :> AfterValidate(c, rec, p))
     /\ sent' = IF v = "drop" THEN sent ELSE [sent EXCEPT !.live = FALSE]
     /\ ghost' = [ghost EXCEPT !.bare = @ \/ (v = "accept" /\ clen <= 8 /\ sent.clen > 0 /\ c.state = "SUPPORTED")]
     /\ UNCHANGED <<know, nclient>> /\ Keep
GiveUp == sent.live /\ sent' = [sent EXCEPT !.live = FALSE] /\ UNCHANGED <<kvars, nclient, ghost>>
Advance(dt) == know' = know + dt /\ know < 250000 /\ UNCHANGED <<kcfg, kc, kq, kfd, okp, nclient, sent, ghost>>

MNext == \/ \E src \in {1, 2} : Send(src)
         \/ \E clen \in {0, 8, 16}, ok \in BOOLEAN, sk \in {"S1", "S2"}, rc \in {0, 23} : Reply(clen, ok, IF clen > 8 THEN sk ELSE "", rc)
         \/ GiveUp
         \/ \E dt \in {60000, 121000} : Advance(dt)
Bound == nclient <= 4

(* C17 clauses *)
NoBareAnswerWhileSupported == ~ghost.bare
ClientCookieStable == ~ghost.changed
NoStaleServerCookie == ~ghost.stale
WellFormedState == /\ (kc[S].state = "UNSUPPORTED" => kc[S].uts >= 0)
                   /\ (kc[S].state \in {"GENERATED", "SUPPORTED"} => kc[S].client # "")
                   /\ (kc[S].state = "INITIAL" => kc[S].server = "")
=============================================================================
