CONSTANTS
  Cfgs <- C10Cfgs
  Apis = {"query", "gai"}
  Nests = {"none", "cancel"}
  Kinds = {"ok", "tc"}
  Faults = {"socket", "connect", "sendto", "recvfrom"}
  Extras = {"cancel", "timeout", "process"}
  MaxReq = 2
  MaxLen = 4
INIT GInit
NEXT GNext
INVARIANT Emit
CHECK_DEADLOCK FALSE
