CONSTANTS
  Pairs = {"qq", "ql", "qcase", "qqq"}
  Flushes = {"setadd", "reinit", "time", "none"}
  Ttls = {5, 60}
INIT GInit
NEXT GNext
INVARIANT Emit
CHECK_DEADLOCK FALSE
