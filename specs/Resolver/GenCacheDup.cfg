CONSTANTS
  Pairs = {"qq", "ql", "qcase", "qqq"}
  Flushes = {"setadd", "reinit", "time", "timemid", "none"}
  Ttls = {2, 5, 60}
  Ttls2 = {2, 5, 60}
INIT GInit
NEXT GNext
INVARIANT Emit
CHECK_DEADLOCK FALSE
