------------------------------ MODULE Gen_C12 ------------------------------
EXTENDS GenSearch
DL == { <<>>, <<"d1.test">>, <<"d1.test", "d2.test">>, <<"d1.test", ".">>, <<".", "d1.test">> }
DLenv == { <<"d1.test">>, <<"d1.test", "d2.test">> }
EnvNone == { [ld |-> "", ro |-> ""] }
(* the environment overrides the file: LOCALDOMAIN the search list, RES_OPTIONS the options *)
EnvAll == { [ld |-> "", ro |-> ""], [ld |-> "l1.test", ro |-> ""], [ld |-> "", ro |-> "ndots:0"], [ld |-> "", ro |-> "ndots:2"],
            [ld |-> "l1.test", ro |-> "ndots:2"] }
=============================================================================
