------------------------------ MODULE GenOom ------------------------------
(* Scenario family for single-allocation-failure enumeration (C14): channel
   initialisation with options, each request kind to completion, a cache hit, a
   reconfiguration, a cancel and the final destroy.  Every scenario ends with a
   usability probe (a fresh request that is answered).  The check replays each
   scenario once per allocation index n, failing exactly the n-th allocation.  *)
EXTENDS Naturals, Sequences, FiniteSets, TLC, Json

VARIABLES sc
Q(t, api) == [op |-> api, t |-> t, name |-> "n" \o ToString(t) \o ".test", qt |-> 1]
R(t, k) == [op |-> "reply", tx |-> "name:n" \o ToString(t) \o ".", kind |-> k]
Probe == <<[op |-> "query", t |-> 99, name |-> "n99.test", qt |-> 1], [op |-> "drain"],
           [op |-> "reply", tx |-> "name:n99.", kind |-> "ok", deliver |-> 0], [op |-> "drain"]>>
Tmo == <<[op |-> "adv", to |-> "deadline"], [op |-> "process"]>>
Base == [nsrv |-> 2, tries |-> 2, timeout |-> 1000, seed |-> 1]

RECURSIVE Qs(_, _)
Qs(i, n) == IF i > n THEN <<>> ELSE <<Q(i, "query")>> \o Qs(i + 1, n)

Scenarios == {
  [name |-> "many_outstanding", cfg |-> Base, steps |-> Qs(1, 15) \o <<R(3, "ok"), R(14, "ok"), [op |-> "cancel"]>>],
  [name |-> "query_ok", cfg |-> Base, steps |-> <<Q(1, "query"), R(1, "ok")>>],
  [name |-> "send_servfail_retry", cfg |-> Base, steps |-> <<Q(1, "send"), R(1, "servfail"), R(1, "ok")>>],
  [name |-> "legacy_query", cfg |-> Base, steps |-> <<Q(1, "lquery"), R(1, "ok")>>],
  [name |-> "search_two_candidates", cfg |-> Base @@ [domains |-> <<"d1.test">>, ndots |-> 2],
     steps |-> <<Q(1, "search"), R(1, "nx"), R(1, "ok")>>],
  [name |-> "gai_unspec_sorted", cfg |-> Base @@ [gaiflags |-> 0],
     steps |-> <<[op |-> "gai", t |-> 1, name |-> "n1.test", family |-> 0, service |-> "80"], R(1, "ok"), R(1, "ok")>>],
  [name |-> "gai_hosts_file", cfg |-> Base @@ [lookups |-> "fb", hostsfile |-> 1],
     steps |-> <<[op |-> "gai", t |-> 1, name |-> "h1.test", family |-> 0]>>],
  [name |-> "ghbn", cfg |-> Base, steps |-> <<[op |-> "ghbn", t |-> 1, name |-> "n1.test", family |-> 4], R(1, "ok")>>],
  [name |-> "ghba", cfg |-> Base, steps |-> <<[op |-> "ghba", t |-> 1, addr |-> 5, family |-> 4], [op |-> "reply", tx |-> "last", kind |-> "ok"]>>],
  [name |-> "gni", cfg |-> Base, steps |-> <<[op |-> "gni", t |-> 1, addr |-> 9, family |-> 4], [op |-> "reply", tx |-> "last", kind |-> "ok"]>>],
  [name |-> "cache_hit", cfg |-> Base @@ [qcache |-> 3600], steps |-> <<Q(1, "query"), R(1, "ok"), [op |-> "query", t |-> 2, name |-> "n1.test", qt |-> 1]>>],
  [name |-> "timeouts_to_failure", cfg |-> Base, steps |-> <<Q(1, "query")>> \o Tmo \o Tmo \o Tmo \o Tmo],
  [name |-> "set_servers_in_flight", cfg |-> Base, steps |-> <<Q(1, "query"), [op |-> "setservers", csv |-> "10.0.0.2,10.0.0.3"], R(1, "ok")>>],
  [name |-> "reinit", cfg |-> Base, steps |-> <<Q(1, "query"), [op |-> "reinit"], R(1, "ok")>>],
  [name |-> "reinit_file_config", cfg |-> Base @@ [domains |-> <<"d1.test", "d2.test">>, ndots |-> 1, viafile |-> 1],
     steps |-> <<Q(1, "query"), [op |-> "reinit"], R(1, "ok"),
                 [op |-> "search", t |-> 2, name |-> "n2", qt |-> 1], [op |-> "reply", tx |-> "name:n2.", kind |-> "nx"], [op |-> "reply", tx |-> "name:n2.", kind |-> "ok"]>>],
  [name |-> "cancel_pending", cfg |-> Base, steps |-> <<Q(1, "query"), Q(2, "search"), [op |-> "cancel"]>>],
  [name |-> "nested_request", cfg |-> Base,
     steps |-> <<[op |-> "query", t |-> 1, name |-> "n1.test", qt |-> 1, nest |-> [op |-> "query", t |-> 101, name |-> "n101.test", qt |-> 1]], R(1, "ok"), R(101, "ok")>>],
  [name |-> "tcp_query", cfg |-> Base @@ [usevc |-> 1], steps |-> <<Q(1, "query"), [op |-> "drain"], [op |-> "reply", tx |-> "name:n1.", kind |-> "ok", deliver |-> 0], [op |-> "drain"]>>],
  [name |-> "truncated_then_tcp", cfg |-> Base, steps |-> <<Q(1, "query"), R(1, "tc"), [op |-> "drain"], [op |-> "reply", tx |-> "name:n1.", kind |-> "ok", deliver |-> 0], [op |-> "drain"]>>],
  [name |-> "edns_cookies", cfg |-> Base @@ [edns |-> 1],
     steps |-> <<Q(1, "query"), [op |-> "reply", tx |-> "name:n1.", kind |-> "ok", cookie |-> "srv:S1"], Q(2, "query"), [op |-> "reply", tx |-> "name:n2.", kind |-> "badcookie", cookie |-> "srv:S2"], [op |-> "reply", tx |-> "name:n2.", kind |-> "ok", cookie |-> "srv:S2"],
                 [op |-> "query", t |-> 99, name |-> "n99.test", qt |-> 1], [op |-> "reply", tx |-> "name:n99.", kind |-> "ok", cookie |-> "srv:S2"]>>],
  [name |-> "formerr_downgrade", cfg |-> Base @@ [edns |-> 1], steps |-> <<Q(1, "query"), [op |-> "reply", tx |-> "name:n1.", kind |-> "formerr", noopt |-> 1], R(1, "ok")>>],
  [name |-> "send_failure", cfg |-> Base, steps |-> <<[op |-> "failnext", what |-> "sendto", errno |-> 111], Q(1, "query"), R(1, "ok")>>],
  [name |-> "destroy_with_pending", cfg |-> Base, steps |-> <<Q(1, "query"), [op |-> "gai", t |-> 2, name |-> "n2.test", family |-> 0]>>]
}
GInit == sc \in Scenarios
GNext == FALSE /\ UNCHANGED sc
Emit == PrintT(ToJson([cfg |-> sc.cfg, name |-> sc.name,
                       steps |-> IF sc.name \in {"destroy_with_pending", "edns_cookies"} THEN sc.steps ELSE sc.steps \o Probe]))
=============================================================================
