CONSTANTS
  Cfgs <- C17Cfgs
  Kinds = {"echo", "none", "s1", "s2", "wrongclient", "bad_s3", "bad_none"}
  Advances = {1000, 121000}
  Extras = {"srcip", "process"}
  MaxReq = 4
  MaxLen = 6
INIT GInit
NEXT GNext
INVARIANT Emit
CHECK_DEADLOCK FALSE
