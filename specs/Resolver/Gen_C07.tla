------------------------------ MODULE Gen_C07 ------------------------------
EXTENDS EnvGen
C07Cfgs == { [nsrv |-> 1, tries |-> 2, timeout |-> 400, seed |-> 1],
             [nsrv |-> 2, tries |-> 2, timeout |-> 300, maxtimeout |-> 500, seed |-> 2, hintmax |-> 250],
             [nsrv |-> 1, tries |-> 3, timeout |-> 1000, seed |-> 3, stayopen |-> 1, hintmax |-> 5000] }
=============================================================================
