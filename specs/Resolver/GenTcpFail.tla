----------------------------- MODULE GenTcpFail -----------------------------
(* Histories with failures of TCP connections (C06/C09: a connection failure at send or at recv demotes the server and
   requeues what was on the connection; C10/C20: socket protocol under the same faults): requests over TCP, the
   connection possibly already established and idle, one or two requests queued; then either the next write fails
   (connection reset), with and without the deferred-write notification, or the requests are written and the server
   closes the connection / the next read fails before any answer was read; then the answers and remaining deadlines. *)
EXTENDS Naturals, Integers, Sequences, FiniteSets, TLC, Json
CONSTANTS Cfgs
VARIABLES cfg, warm, nq, mode, done
Name(t) == "n" \o ToString(t) \o ".test"
Q(t) == [op |-> "query", t |-> t, name |-> Name(t), qt |-> 1]
R(t) == [op |-> "reply", tx |-> "name:n" \o ToString(t) \o ".", kind |-> "ok", deliver |-> 0]
Drain == [op |-> "drain"]
Tmo == <<[op |-> "adv", to |-> "deadline"], [op |-> "process"]>>
PW == IF "pendwrite" \in DOMAIN cfg /\ cfg.pendwrite = 1 THEN <<[op |-> "pendwrite"]>> ELSE <<>>
Warm == <<Q(9)>> \o PW \o <<Drain, R(9), Drain>>                               \* establishes (and with stay-open keeps) a connection
FailNext == IF warm = 1 THEN <<[op |-> "wscript", script |-> <<-2>>]>>        \* on the established connection
            ELSE <<[op |-> "wscript", default |-> 1, script |-> <<-2>>]>>     \* on the connection about to be opened
Qs == IF nq = 1 THEN <<Q(1)>> ELSE <<Q(1), Q(2)>>
Rs == IF nq = 1 THEN <<R(1)>> ELSE <<R(1), R(2)>>
RecvFault == IF mode = "peerclose" THEN <<[op |-> "peerclose"]>>                   \* the read that follows returns end of stream
             ELSE <<[op |-> "failnext", what |-> "recvfrom"], [R(1) EXCEPT !.deliver = 1]>>   \* the read of the first answer fails
Hist == IF mode = "write"
        THEN (IF warm = 1 THEN Warm ELSE <<>>) \o FailNext \o Qs \o PW \o <<Drain>> \o Rs \o <<Drain>> \o Tmo \o Tmo
        ELSE (IF warm = 1 THEN Warm ELSE <<>>) \o Qs \o PW \o <<Drain>> \o RecvFault \o <<Drain>> \o Rs \o <<Drain>> \o Tmo \o Tmo
GInit == cfg \in Cfgs /\ warm \in {0, 1} /\ nq \in {1, 2} /\ mode \in {"write", "peerclose", "recverr"} /\ done = FALSE
GNext == ~done /\ done' = TRUE /\ UNCHANGED <<cfg, warm, nq, mode>>
Emit == PrintT(ToJson([cfg |-> cfg, steps |-> Hist]))
TcpFailCfgs == { [nsrv |-> n, tries |-> 2, timeout |-> 1000, seed |-> 1, usevc |-> 1, stayopen |-> so, pendwrite |-> pw, rotate |-> ro] :
                 n \in {1, 2}, so \in {0, 1}, pw \in {0, 1}, ro \in {0, 1} }
=============================================================================
