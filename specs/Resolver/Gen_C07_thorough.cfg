CONSTANTS
  Cfgs <- C07Cfgs
  Apis = {"query"}
  Nests = {"none", "query"}
  Kinds = {"ok", "servfail"}
  Faults = {}
  Extras = {"timeout", "tick", "process", "cancel"}
  MaxReq = 3
  MaxLen = 6
INIT GInit
NEXT GNext
INVARIANT Emit
CHECK_DEADLOCK FALSE
