CONSTANTS
  Cfgs <- C10Cfgs
  Apis = {"query", "gai", "ghba"}
  Nests = {"none", "cancel", "query"}
  Kinds = {"ok", "tc", "servfail"}
  Faults = {"socket", "connect", "sendto", "recvfrom", "getsockname"}
  Extras = {"cancel", "timeout", "process", "setservers"}
  MaxReq = 2
  MaxLen = 4
INIT GInit
NEXT GNext
INVARIANT Emit
CHECK_DEADLOCK FALSE
