CONSTANTS
  DomainLists <- DLenv
  NdotsSet = {1, 2}
  NoSearchSet = {0}
  ViaFileSet = {0, 1}
  AliasSet = {0}
  EnvSet <- EnvAll
  Names = {"n1", "n1.test"}
  Apis = {"search", "gai4", "gai0"}
  Outcomes = {"ok", "nodata", "nx", "cnameonly"}
  MaxOut = 3
INIT GInit
NEXT GNext
INVARIANT Emit
CHECK_DEADLOCK FALSE
