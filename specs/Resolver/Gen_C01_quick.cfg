CONSTANTS
  Cfgs <- C01Cfgs
  Apis = {"query", "search", "gai"}
  Nests = {"none", "cancel", "query", "setservers"}
  Kinds = {"ok", "nx", "servfail", "stale_ok"}
  Faults = {"sendto"}
  Extras = {"cancel", "timeout"}
  MaxReq = 2
  MaxLen = 4
INIT GInit
NEXT GNext
INVARIANT Emit
CHECK_DEADLOCK FALSE
