CONSTANTS
  Cfgs <- C09Cfgs
  Apis = {"query"}
  Nests = {"none"}
  Kinds = {"ok", "servfail", "refused", "nx", "garbage"}
  Faults = {"sendto", "recvfrom"}
  Extras = {"timeout", "setservers"}
  MaxReq = 3
  MaxLen = 5
INIT GInit
NEXT GNext
INVARIANT Emit
CHECK_DEADLOCK FALSE
