------------------------------ MODULE GenStream ------------------------------
(* Generator of transport-chopping histories (C20): batches of queued queries
   over TCP under every short-write / would-block pattern, every chunking of
   the server's byte stream (fixed chunk sizes down to one byte, and every
   single split point), truncated and empty UDP datagrams.                    *)
EXTENDS Naturals, Integers, Sequences, FiniteSets, TLC, Json

CONSTANTS Cfgs, WAlpha, WLen, ChunkSizes, SplitMax, Batch, Mode
VARIABLES cfg, h, done
gvars == <<cfg, h, done>>

Name(t) == "n" \o ToString(t) \o ".test"
Q(t) == [op |-> "query", t |-> t, name |-> Name(t), qt |-> 1]
R(t, k) == [op |-> "reply", tx |-> "name:n" \o ToString(t) \o ".", kind |-> k, deliver |-> 0]
RECURSIVE Queries(_, _)
Queries(i, n) == IF i > n THEN <<>> ELSE <<Q(i)>> \o Queries(i + 1, n)
RECURSIVE Replies(_, _)
Replies(i, n) == IF i > n THEN <<>> ELSE <<R(i, "ok")>> \o Replies(i + 1, n)
RECURSIVE SeqsUpTo(_, _)
SeqsUpTo(S, n) == IF n = 0 THEN {<<>>} ELSE LET P == SeqsUpTo(S, n - 1) IN P \cup {Append(p, x) : p \in P, x \in S}

Drain == [op |-> "drain"]
(* TCP: write pattern, batch of queries, drain writes, queue all replies, chop the reads, drain *)
TcpHistory(n, w, chop) ==
  (IF w = <<>> THEN <<>> ELSE <<[op |-> "wscript", default |-> 1, script |-> [i \in 1..Len(w) |-> IF w[i] = 0 THEN -1 ELSE w[i]]]>>)
  \o Queries(1, n) \o <<Drain>> \o chop \o Replies(1, n) \o <<Drain>>
TcpHistoryClose(n, chop) ==
  Queries(1, n) \o <<Drain>> \o chop \o Replies(1, n) \o <<[op |-> "peerclose"], Drain>>
(* UDP: truncated answer then the TCP retry; empty datagram then the real answer *)
UdpHistories ==
  { <<Q(1), [op |-> "reply", tx |-> "name:n1.", kind |-> "tc"], Drain, [op |-> "reply", tx |-> "name:n1.", kind |-> "ok"], Drain>>,
    <<Q(1), [op |-> "reply", tx |-> "name:n1.", kind |-> "empty"], [op |-> "reply", tx |-> "name:n1.", kind |-> "ok"]>>,
    <<Q(1), [op |-> "reply", tx |-> "name:n1.", kind |-> "empty", deliver |-> 0], [op |-> "reply", tx |-> "name:n1.", kind |-> "ok"]>>,
    \* the truncated answer arrives on the last attempt the retry budget allows
    <<Q(1), [op |-> "adv", to |-> "deadline"], [op |-> "process"], [op |-> "reply", tx |-> "name:n1.", kind |-> "tc"], Drain,
      [op |-> "reply", tx |-> "name:n1.", kind |-> "ok"], Drain>>,
    \* empty datagrams around real answers in one batch
    <<Q(1), Q(2), [op |-> "reply", tx |-> "name:n1.", kind |-> "empty", deliver |-> 0], [op |-> "reply", tx |-> "name:n1.", kind |-> "ok", deliver |-> 0],
      [op |-> "reply", tx |-> "name:n2.", kind |-> "empty", deliver |-> 0], [op |-> "reply", tx |-> "name:n2.", kind |-> "ok"]>>,
    <<Q(1), Q(2), [op |-> "reply", tx |-> "name:n1.", kind |-> "tc"], [op |-> "reply", tx |-> "name:n2.", kind |-> "ok"], Drain,
      [op |-> "reply", tx |-> "name:n1.", kind |-> "ok"], Drain>> }

(* the server answers and closes the stream: the answers and the end of stream are visible to the same readable event *)
CloseHistories ==
  {TcpHistoryClose(n, chop) : n \in Batch, chop \in {<<>>} \cup {<<[op |-> "chunking", size |-> c]>> : c \in ChunkSizes}}
(* UDP transmissions that would block: the datagram stays queued, further requests are written to the same socket *)
UdpBlockHistories ==
  {<<[op |-> "wscript", udp |-> 1, default |-> 1, script |-> [i \in 1..k |-> -1]]>> \o Queries(1, n) \o <<Drain>>
      \o [i \in 1..n |-> [op |-> "reply", tx |-> "name:n" \o ToString(i) \o ".", kind |-> "ok"]] \o <<Drain>>
      : k \in 1..2, n \in 1..3}

(* answers of unequal size on one connection: after a whole small answer has been consumed the unconsumed tail of the
   next, larger answer is longer than the consumed prefix (the input buffer then moves overlapping bytes); also the
   larger answer first; every split point and the fixed chunk sizes *)
RN(t, n) == R(t, "ok") @@ [n |-> n]
MixedHistories ==
  LET Chops == {<<[op |-> "chunking", size |-> c]>> : c \in ChunkSizes}
               \cup {<<[op |-> "chunking", size |-> 1000], [op |-> "splitat", at |-> p]>> : p \in 1..SplitMax}
      Sizes == {<<1, 12>>, <<12, 1>>, <<1, 5, 12>>}
  IN {Queries(1, Len(s)) \o <<Drain>> \o chop \o [i \in 1..Len(s) |-> RN(i, s[i])] \o <<Drain>> : s \in Sizes, chop \in Chops}

Histories ==
  IF Mode = "udp" THEN UdpHistories \cup UdpBlockHistories
  ELSE IF Mode = "tcpclose" THEN CloseHistories
  ELSE IF Mode = "tcpmixed" THEN MixedHistories
  ELSE LET Ws == SeqsUpTo(WAlpha, WLen)
           Chops == {<<>>} \cup {<<[op |-> "chunking", size |-> c]>> : c \in ChunkSizes}
                          \cup {<<[op |-> "chunking", size |-> 1000], [op |-> "splitat", at |-> p]>> : p \in 1..SplitMax}
       IN IF Mode = "product"
          THEN {TcpHistory(n, w, chop) : n \in Batch, w \in Ws, chop \in Chops}
          ELSE {TcpHistory(n, w, <<>>) : n \in Batch, w \in Ws} \cup {TcpHistory(n, <<>>, chop) : n \in Batch, chop \in Chops}

GInit == cfg \in Cfgs /\ h \in Histories /\ done = FALSE
GNext == ~done /\ done' = TRUE /\ UNCHANGED <<cfg, h>>
Emit == PrintT(ToJson([cfg |-> cfg, steps |-> h]))
=============================================================================
