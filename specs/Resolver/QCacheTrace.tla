--------------------------- MODULE QCacheTrace ---------------------------
(* Trace validation against QCache.tla (C08). *)
EXTENDS QCache, Json, IOUtils

Tr == ndJsonDeserialize(IOEnv.TRACE)
VARIABLES l, bad, why, hid, creq, cur
(* creq: token -> [key, api]; cur: stack of [t, sent] for the request calls in progress *)
tvars == <<cvars, l, bad, why, hid, creq, cur>>
xv == <<creq, cur>>

Rej(label) == /\ bad' = TRUE /\ why' = [line |-> l, label |-> label] /\ UNCHANGED <<cvars, xv>>
Acc == UNCHANGED <<bad, why>>
Skip == UNCHANGED <<cvars, xv, bad, why>>
Stop == /\ bad' = TRUE /\ why' = [line |-> l, label |-> ""] /\ UNCHANGED <<cvars, xv>>
ToSet(s) == {s[i] : i \in 1..Len(s)}
Without(f, S) == [x \in (DOMAIN f) \ S |-> f[x]]

CachedApis == {"query", "send", "lquery", "lsend"}

HCall(e) ==
  IF e.api \in CachedApis THEN
       /\ creq' = creq @@ (e.t :> [key |-> Key(e.kname, e.qt, e.qc, e.rd, e.cd), api |-> e.api])
       /\ cur' = Append(cur, [t |-> e.t, sent |-> FALSE])
       /\ cnow' = e.now /\ UNCHANGED <<ccfg, cache, cq, csrv>> /\ Acc
  ELSE IF e.api = "setservers" THEN
       \* a server added or removed empties the cache (a pure re-ordering does not have to)
       /\ cache' = IF ToSet(e.list) # csrv THEN <<>> ELSE cache
       /\ csrv' = ToSet(e.list)
       /\ cnow' = e.now /\ UNCHANGED <<ccfg, cq, xv>> /\ Acc
  ELSE IF e.api = "reinit" THEN cache' = <<>> /\ cnow' = e.now /\ UNCHANGED <<ccfg, cq, csrv, xv>> /\ Acc
  ELSE IF e.api \in {"search", "lsearch", "gai", "ghbn", "ghba", "gni"} THEN Stop
  ELSE cnow' = e.now /\ UNCHANGED <<ccfg, cache, cq, csrv, xv>> /\ Acc

RECURSIVE NoteFrames(_, _, _, _, _, _, _)
NoteFrames(qq, frames, i, tcp, fd, sv, prb) ==
  IF i > Len(frames) THEN qq
  ELSE LET f == frames[i]
           rec == [key |-> Key(f.kname, f.qt, f.qc, f.rd, f.cd), lname |-> f.lname, name |-> f.name, qt |-> f.qt, qc |-> f.qc, tcp |-> tcp, fd |-> fd, pend |-> IF f.qid \in DOMAIN qq THEN qq[f.qid].pend ELSE <<>>,
                   srv |-> sv, probe |-> IF f.qid \in DOMAIN qq THEN qq[f.qid].probe ELSE prb]
       IN IF f.bad = 1 THEN NoteFrames(qq, frames, i + 1, tcp, fd, sv, prb)
          ELSE NoteFrames(IF f.qid \in DOMAIN qq THEN [qq EXCEPT ![f.qid] = rec] ELSE qq @@ (f.qid :> rec), frames, i + 1, tcp, fd, sv, prb)

MarkSent == cur' = [i \in 1..Len(cur) |-> IF i = Len(cur) THEN [cur[i] EXCEPT !.sent = TRUE] ELSE cur[i]]

(* a response can only be accepted for a query that is still outstanding (cq holds the wire queries transmitted and
   not yet answered with a final answer) and on the connection of its latest transmission *)
Matches(p) == /\ p.parse = 1 /\ p.qid \in DOMAIN cq /\ p.fd = cq[p.qid].fd
              /\ p.qt = cq[p.qid].qt /\ p.qc = cq[p.qid].qc
              /\ (IF ccfg.dns0x20 = 1 /\ ~cq[p.qid].tcp THEN p.name = cq[p.qid].name ELSE p.lname = cq[p.qid].lname)

HSk(e) ==
  CASE e.op = "send" /\ Len(e.frames) > 0 ->
         /\ cq' = IF e.res = "ok" THEN NoteFrames(cq, e.frames, 1, e.tcp = 1, e.fd, e.srv,
                                                  \* a new query id that is not the first transmission of the request call in progress is
                                                  \* a probe copy to a failed server: it completes silently (no callback)
                                                  Len(cur) = 0 \/ cur[Len(cur)].sent) ELSE cq
         /\ (IF Len(cur) > 0 THEN MarkSent ELSE UNCHANGED cur)
         /\ UNCHANGED <<ccfg, cnow, cache, csrv, creq>> /\ Acc
    [] e.op = "recv" /\ e.res = "ok" /\ "pid" \in DOMAIN e ->
         \* a cacheable reply that matches an outstanding query is a candidate; whether the library accepted it is
         \* witnessed by the completion callback that delivers that very record (see HCbb)
         IF e.fromok = 1 /\ Matches(e) /\ Cacheable(e)
         THEN /\ cq' = [cq EXCEPT ![e.qid].pend = Append(@, Entry(e, e.pid))]
              /\ UNCHANGED <<ccfg, cnow, cache, csrv, xv>> /\ Acc
         ELSE Skip
    [] e.op = "recv" /\ e.res = "ok" /\ "stream" \in DOMAIN e -> Stop      \* TCP answers: see C20; not needed for cache rules
    [] OTHER -> Skip

(* completion of request t: if it is still inside its own call and nothing was transmitted since the call
   began, a delivered record can only have come from the cache *)
HCbb(e) ==
  LET incall == Len(cur) > 0 /\ cur[Len(cur)].t = e.t
      fromcache == incall /\ ~cur[Len(cur)].sent /\ e.rec = 1 /\ e.t \in DOMAIN creq
      k == creq[e.t].key
  IN
  IF ~fromcache THEN
       \* an answer just accepted from the network: the candidate that equals the delivered record enters the cache,
       \* the query is over (later copies are not looked at)
       IF e.rec = 1 /\ e.rid \in DOMAIN cq /\ cq[e.rid].pend # <<>> THEN
            LET pd == cq[e.rid].pend
                ok == {i \in 1..Len(pd) : pd[i].ttls = e.ttls /\ pd[i].rcode = e.rcode}
            IN IF ok = {} THEN cq' = Without(cq, {e.rid}) /\ UNCHANGED <<ccfg, cnow, cache, csrv, xv>> /\ Acc
               ELSE LET ent == pd[CHOOSE i \in ok : \A j \in ok : i <= j]
                        kk == cq[e.rid].key
                    IN /\ cache' = (IF kk \in DOMAIN cache THEN [cache EXCEPT ![kk] = ent] ELSE cache @@ (kk :> ent))
                       /\ cq' = Without(cq, {e.rid})
                       /\ UNCHANGED <<ccfg, cnow, csrv, xv>> /\ Acc
       ELSE Skip
  ELSE IF ccfg.qcache = 0 THEN Rej("c08.replayed_although_cache_disabled")
  ELSE IF k \notin DOMAIN cache THEN Rej("c08.replayed_without_cacheable_answer_for_key")
  ELSE IF cache[k].rid # e.rid THEN Rej("c08.replayed_answer_of_other_question")
  ELSE IF Sec(cnow) >= cache[k].exp THEN Rej("c08.replayed_after_lifetime")
  ELSE IF ~TtlsSound(k, e.ttls) THEN Rej("c08.ttl_not_reduced_by_time_cached." \o creq[e.t].api)
  ELSE Skip

(* a probe copy has no callback: its accepted answer is witnessed by the success notification of its server *)
HSrvOk(e) ==
  LET cand == {id \in DOMAIN cq : cq[id].probe /\ cq[id].pend # <<>> /\ cq[id].srv = e.s} IN
  IF e.ok = 1 /\ cand # {} THEN
       LET id == CHOOSE x \in cand : TRUE
           ent == cq[id].pend[1]
           kk == cq[id].key
       IN /\ cache' = (IF kk \in DOMAIN cache THEN [cache EXCEPT ![kk] = ent] ELSE cache @@ (kk :> ent))
          /\ cq' = Without(cq, {id})
          /\ UNCHANGED <<ccfg, cnow, csrv, xv>> /\ Acc
  ELSE Skip

HRet(e) ==
  IF "t" \in DOMAIN e /\ Len(cur) > 0 /\ cur[Len(cur)].t = e.t
  THEN cur' = SubSeq(cur, 1, Len(cur) - 1) /\ UNCHANGED <<cvars, creq>> /\ Acc
  ELSE Skip

Handle(e) ==
  CASE e.e = "init" -> ccfg' = e /\ csrv' = 1..e.nsrv /\ UNCHANGED <<cnow, cache, cq, xv>> /\ Acc
    [] e.e = "call" -> HCall(e)
    [] e.e = "adv" -> cnow' = e.now /\ UNCHANGED <<ccfg, cache, cq, csrv, xv>> /\ Acc
    [] e.e = "sk" -> HSk(e)
    [] e.e = "cbb" -> HCbb(e)
    [] e.e = "srv" -> HSrvOk(e)
    [] e.e = "ret" -> HRet(e)
    [] e.e = "crash" -> Rej("c08.crash." \o e.sum)     \* a sanitizer report or abnormal end inside a history of this family
    [] OTHER -> Skip

Verdict == [verdict |-> IF bad /\ why.label # "" THEN "REJ" ELSE "ACC", id |-> hid, line |-> why.line, label |-> why.label]
TInit == CInit /\ creq = <<>> /\ cur = <<>> /\ l = 1 /\ bad = FALSE /\ why = [line |-> 0, label |-> ""] /\ hid = ""
TNext ==
  /\ l <= Len(Tr) /\ l' = l + 1
  /\ LET e == Tr[l] IN
       IF e.e = "reset" THEN
            /\ (hid # "" => PrintT(ToJson(Verdict)))
            /\ ccfg' = [qcache |-> 0] /\ cnow' = 0 /\ cache' = <<>> /\ cq' = <<>> /\ csrv' = {} /\ creq' = <<>> /\ cur' = <<>>
            /\ bad' = FALSE /\ why' = [line |-> 0, label |-> ""] /\ hid' = e.id
       ELSE hid' = hid /\ (IF bad THEN Skip ELSE Handle(e))
TSpec == TInit /\ [][TNext]_tvars
=============================================================================
