CONSTANTS
  Tokens = {}
  MaxDepth = 0
SPECIFICATION TSpec
POSTCONDITION Consumed
CHECK_DEADLOCK FALSE
