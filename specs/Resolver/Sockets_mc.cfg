CONSTANTS
  Fds = {100, 101}
  UdpMaxC = 2
INIT SInit
NEXT SNext
CONSTRAINT Bounded
INVARIANTS ClosedOnce NoneSurviveDestroy UdpLimit StopExactlyOnceIffWatched
CHECK_DEADLOCK FALSE
