------------------------------ MODULE Gen_C17 ------------------------------
EXTENDS GenCookie
C17Cfgs == { [nsrv |-> 1, tries |-> 4, timeout |-> 1000, seed |-> 1, edns |-> 1, udpmax |-> 1],
             [nsrv |-> 1, tries |-> 4, timeout |-> 1000, seed |-> 2, edns |-> 1, stayopen |-> 1],
             [nsrv |-> 1, tries |-> 4, timeout |-> 1000, seed |-> 3, edns |-> 1, udpmax |-> 1, v6 |-> 1] }
C17LateCfgs == { [nsrv |-> 1, tries |-> 4, timeout |-> 1000, seed |-> 4, edns |-> 1, udpmax |-> 1],
                 [nsrv |-> 1, tries |-> 4, timeout |-> 1000, seed |-> 5, edns |-> 1] }
=============================================================================
