CONSTANTS
  NS = 2
  TRIES = 2
  ROTATE = 1
  NSU = 3
  EDITS = 2
SPECIFICATION MSpec
INVARIANTS Paid OnMember Budget TryBound CookieBound ChoiceExists WaitSound
PROPERTY Terminates
CHECK_DEADLOCK FALSE
