"""Binding between specs/Config/*.tla and harness/cfg/cfg.cc (shared by checks/c15.py and checks/c16.py).

* VARIANTS: every abstract line class of Config.tla is bound to concrete texts (byte strings).  The first
  text is the reference text of the specification (LineText); junk / extreme classes get several nasty ones.
* build_c15_scenario(): TLC scenario record -> harness scenario (files, env, init) with deterministic choice
  of texts; run_harness(): parallel execution; compare_view(): observation against the spec's expectation
  (scalars are SETS OF ALLOWED VALUES, -1 = any positive value).
"""
import hashlib
import json
import os
import shutil
import subprocess
import sys

sys.path.insert(0, os.path.join(os.path.dirname(os.path.abspath(__file__)), "..", "..", "tools"))
import vlib  # noqa: E402

ANYPOS = -1

FLAGS = {"USEVC": 1, "PRIMARY": 2, "IGNTC": 4, "NORECURSE": 8, "STAYOPEN": 16, "NOSEARCH": 32, "NOALIASES": 64,
         "NOCHECKRESP": 128, "EDNS": 256, "NO_DFLT_SVR": 512, "DNS0x20": 1024}
OPT = {"FLAGS": 1 << 0, "TIMEOUT": 1 << 1, "TRIES": 1 << 2, "NDOTS": 1 << 3, "UDP_PORT": 1 << 4, "TCP_PORT": 1 << 5,
       "SERVERS": 1 << 6, "DOMAINS": 1 << 7, "LOOKUPS": 1 << 8, "SOCK_STATE_CB": 1 << 9, "SORTLIST": 1 << 10,
       "SOCK_SNDBUF": 1 << 11, "SOCK_RCVBUF": 1 << 12, "TIMEOUTMS": 1 << 13, "ROTATE": 1 << 14, "EDNSPSZ": 1 << 15,
       "NOROTATE": 1 << 16, "RESOLVCONF": 1 << 17, "HOSTS_FILE": 1 << 18, "UDP_MAX_QUERIES": 1 << 19,
       "MAXTIMEOUTMS": 1 << 20, "QUERY_CACHE": 1 << 21, "EVENT_THREAD": 1 << 22, "SERVER_FAILOVER": 1 << 23}


def b(s):
    return s.encode("latin-1") if isinstance(s, str) else s


# --------------------------------------------------------------------------- resolv.conf line classes
VARIANTS = {
    # valid directives (format variations that resolv.conf(5) / c-ares accept)
    "ns_a": ["nameserver 10.0.0.1", "nameserver\t10.0.0.1", "  nameserver   10.0.0.1  ", "nameserver [10.0.0.1]",
             "nameserver 10.0.0.1 # primary", "nameserver dns://10.0.0.1", "nameserver dns://10.0.0.1:53"],
    "ns_b": ["nameserver 10.0.0.2", "nameserver [10.0.0.2]", "nameserver 10.0.0.2\t"],
    "ns_6": ["nameserver 2001:db8::1", "nameserver [2001:db8::1]", "nameserver 2001:DB8::1",
             "nameserver 2001:db8:0:0:0:0:0:1", "nameserver dns://[2001:db8::1]"],
    "ns_ap": ["nameserver 10.0.0.1:5353", "nameserver [10.0.0.1]:5353", "nameserver dns://10.0.0.1:5353"],
    "ns_6p": ["nameserver [2001:db8::2]:5353", "nameserver\t[2001:DB8::2]:5353"],
    "ns_ll": ["nameserver fe80::1%lo", "nameserver [fe80::1]%lo", "nameserver [fe80::1]:53%lo",
              "nameserver dns://[fe80::1%lo]", "nameserver dns://[fe80::1%lo]:53"],
    "ns_uri_d": ["nameserver dns://10.0.0.3:55?tcpport=56", "nameserver\tdns://10.0.0.3:55?tcpport=56",
                 "nameserver dns://10.0.0.3:55/?tcpport=56"],
    "ns_uri_6": ["nameserver dns://[2001:db8::4]:5353", "nameserver dns://[2001:DB8::4]:5353",
                 "nameserver dns://[2001:db8::4]:5353?tcpport=5353"],
    "dom_a": ["domain a.example", "domain\ta.example", "domain   a.example  "],
    "dom_two": ["domain e.example f.example", "domain e.example,f.example"],
    "search_b": ["search b.example", "search  b.example ", "search b.example,", "search ,b.example"],
    "search_cd": ["search c.example d.example", "search c.example,d.example", "search c.example  d.example"],
    "search_many": ["search s1.example s2.example s3.example s4.example s5.example s6.example s7.example s8.example"],
    "search_dupcase": ["search g.example G.EXAMPLE h.example", "search g.example h.example g.example"],
    "sort_1": ["sortlist 10.0.0.0/8", "sortlist 10.0.0.0/255.0.0.0", "sortlist 10.0.0.0", "sortlist  10.0.0.0/8 "],
    "sort_2": ["sortlist 130.155.160.0/255.255.240.0 130.155.0.0", "sortlist 130.155.160.0/20 130.155.0.0/16",
               "sortlist 130.155.160.0/20;130.155.0.0"],
    "sort_6": ["sortlist 2001:db8::/32 200.1.1.1", "sortlist 2001:DB8::/32 200.1.1.1/24"],
    "opt_ndots2": ["options ndots:2", "options  ndots:2 ", "options ndots:2 edns0", "options ndots:9 ndots:2"],
    "opt_ndots0": ["options ndots:0", "options ndots:00"],
    "opt_timeout3": ["options timeout:3", "options retrans:3", "options single-request timeout:3"],
    "opt_retrans4": ["options retrans:4", "options timeout:4"],
    "opt_attempts2": ["options attempts:2", "options retry:2", "options attempts:2 no-check-names"],
    "opt_retry4": ["options retry:4", "options attempts:4"],
    "opt_rotate": ["options rotate", "options  rotate ", "options rotate:1"],
    "opt_usevc": ["options use-vc", "options usevc"],
    "opt_multi": ["options ndots:3 timeout:5 attempts:4 rotate", "options rotate attempts:4 timeout:5 ndots:3",
                  "options ndots:3 retrans:5 retry:4 rotate inet6"],
    "lookup_fb": ["lookup file bind", "lookup files dns", "hostresorder local bind", "lookup file bind foo"],
    "lookup_bf": ["lookup bind file", "lookup dns files", "lookup bind bind file", "hostresorder resolv local"],
    "lookup_b": ["hostresorder bind", "lookup bind", "lookup resolve", "lookup DNS"],
    # junk: must change nothing
    "ns_bad": ["nameserver 999.1.1.1", "nameserver foo", "nameserver 1.2.3.4:", "nameserver [1.2.3.4",
               "nameserver fec0::1", "nameserver fe80::3%nonexistent0", "nameserver 1.2.3.4:99999999",
               "nameserver 1.2.3.4.5", "nameserver ::g", "nameserver 10.0.0.9x", "nameserver 1.2.3.4:53junk",
               "nameserver dns://", "nameserver dns+tls://10.0.0.9", "nameserver %lo"],
    # URI-form nameserver entries that name no usable server: over-long / unknown link-local scope, over-long or
    # non-address host, bad port, bad bracket, foreign scheme
    "ns_uri_bad": ["nameserver dns://[fe80::1%" + "a" * 20 + "]", "nameserver dns://[fe80::1%" + "b" * 40 + "]",
                   "nameserver dns://[fe80::1%" + "c" * 200 + "]:53?tcpport=54",
                   "nameserver dns://[fe80::1%" + "d1" * 8 + "]", "nameserver dns://[fe80::1%nonexistent0]",
                   "nameserver dns://[fe80::1%]", "nameserver dns://[fe80::1]", "nameserver dns://[fe80::1%lo",
                   "nameserver dns://" + "h" * 300, "nameserver dns://" + "9" * 300 + ".1.1.1",
                   "nameserver dns://ns.example", "nameserver dns://10.0.0.9:abc",
                   "nameserver dns://[2001:db8::9", "nameserver dns://[2001:db8::9]]", "nameserver dns://10.0.0.9:",
                   "nameserver https://10.0.0.9", "nameserver dns:/10.0.0.9",
                   "nameserver dns://[fec0::1]"],
    "search_empty": ["search ,", "search , ,", "domain ,", "search ,,,"],
    "sort_bad": ["sortlist 10.0.0.0/33", "sortlist 1.2.3.4/foo", "sortlist bogus", "sortlist 10.0.0.0/8 bogus",
                 "sortlist 10.0.0.0/255.255.255.256", "sortlist 2001:db8::/129", "sortlist /8", "sortlist 10.0.0.0/",
                 "sortlist 10.0.0.0/99999999999999999999"],
    "opt_unknown": ["options edns0 foo:3 inet6", "options single-request-reopen", "options :", "options ::::",
                    "options foo:99999999999999999999999", "options NDOTS:5"],
    "opt_zero": ["options timeout:0", "options attempts:0", "options timeout:abc", "options retry:0",
                 "options retrans:", "options timeout", "options attempts:x9"],
    "lookup_junk": ["lookup foo bar", "lookup ,", "hostresorder nis"],
    "comment_hash": ["# nameserver 10.9.9.9", "#", "#options ndots:9", "#search z.example"],
    "comment_semi": ["; search x.example", ";", ";nameserver 10.9.9.9"],
    "blank": ["", "   ", "\t", "\r"],
    "junk_binary": [b"\x00\x01\x02\xff\xfe", b"nameserver \xff\xfe\x01", b"nameserver 10.0.0.9\x00",
                    b"search\x00 z.example", b"\x80options ndots:9", b"options ndots:\x07", b"\x1b[31msearch z.example"],
    "junk_long": [b"x" * 10240, b"nameserver " + b"1" * 10240, b"search " + b"a" * 10240, b"bogus " + b"z" * 100000,
                  b"options " + b"q" * 10240, b"sortlist " + b"9" * 10240],
    "junk_keyword": ["bogus value", "nameservers 10.9.9.9", "NAMESERVER 10.9.9.9", "server 10.9.9.9", "= : ,",
                     "search=z.example", "option ndots:9"],
    "junk_lone": ["nameserver", "search", "domain", "options", "sortlist", "lookup", "nameserver   "],
    # numeric extremes: ignored, or brought into range
    "opt_ndots_weird": ["options ndots:abc", "options ndots", "options ndots:", "options ndots:0x10"],
    "opt_ndots_big": ["options ndots:99999999999", "options ndots:16", "options ndots:-1", "options ndots:4294967296",
                      "options ndots:255"],
    "opt_timeout_huge": ["options timeout:99999999999", "options timeout:4294968", "options timeout:-5",
                         "options timeout:4294967296", "options retrans:2147483648"],
    "opt_tries_huge": ["options attempts:99999999999", "options attempts:-5", "options retry:4294967296",
                       "options attempts:2147483648"],
}

NSS_VARIANTS = {
    "nss_fb": ["hosts: files dns", "hosts:files dns", "hosts:      files mdns4_minimal [NOTFOUND=return] dns",
               "hosts: files dns # comment"],
    "nss_bf": ["hosts: dns files", "hosts:\tdns\tfiles", "hosts: resolve [!UNAVAIL=return] files"],
    "nss_b": ["hosts: dns", "hosts: bind"],
    "nss_f": ["hosts: files", "hosts: files myhostname"],
    "nss_mdns_b": ["hosts: mdns4_minimal [NOTFOUND=return] dns", "hosts: mdns4 dns mdns4"],
    "nss_other_db": ["passwd: files systemd", "networks: files dns", "hostsx: dns"],
    "nss_unknown_only": ["hosts: mdns4_minimal", "hosts: nis nisplus"],
    "nss_comment": ["# hosts: dns", "#"],
    "nss_junk_binary": [b"\x00\x01\xff", b"hosts\x00: dns", b"\xffhosts: dns"],
    "nss_junk_long": [b"hosts" + b"x" * 10240 + b": dns", b"z" * 100000, b"q" * 40 + b": dns"],
    "nss_nocolon": ["hosts dns", "hosts", "dns files"],
    "nss_empty_val": ["hosts:", "hosts:   ", ": dns", ":"],
}
SVC_VARIANTS = {
    "svc_fb": ["hosts = local , bind", "hosts=local,bind", "hosts = local, bind, nis"],
    "svc_bf": ["hosts = bind , local", "hosts=bind,local"],
    "svc_b": ["hosts = bind", "hosts=bind"],
    "svc_other_db": ["aliases = local", "hostsx = bind"],
    "svc_unknown_only": ["hosts = nis", "hosts = nis , yp"],
    "svc_comment": ["# hosts = bind", "#"],
    "svc_junk_binary": [b"\x00\x01\xff", b"hosts\x00= bind", b"\xffhosts = bind"],
    "svc_noeq": ["hosts bind", "hosts", "hosts:", "=", "= bind", b"hosts" + b"y" * 10240 + b" = bind"],
}
LD_VARIANTS = {
    "ld_one": ["l1.example", " l1.example", "l1.example,"],
    "ld_two": ["l1.example l2.example", "l1.example,l2.example"],
    "ld_empty": [",", " ", ", ,", ""],
    # LOCALDOMAIN takes any token as a domain name (no character checks): nothing the text calls junk besides
    # the separators-only case is bound here
    "ld_binary": [",,", " , "],
}


def opt_value(text):
    """RES_OPTIONS value for a resolv.conf 'options ...' line text."""
    t = b(text)
    assert t.lstrip().startswith(b"options"), t
    return t.lstrip()[len(b"options"):].strip() or b" "


JUNK = {"ns_bad", "ns_uri_bad", "search_empty", "sort_bad", "opt_unknown", "opt_zero", "lookup_junk", "comment_hash",
        "comment_semi", "blank", "junk_binary", "junk_long", "junk_keyword", "junk_lone"}
EXTREME = {"opt_ndots_weird", "opt_ndots_big", "opt_timeout_huge", "opt_tries_huge"}
NSS_JUNK = {"nss_other_db", "nss_unknown_only", "nss_comment", "nss_junk_binary", "nss_junk_long", "nss_nocolon",
            "nss_empty_val"}
SVC_JUNK = {"svc_other_db", "svc_unknown_only", "svc_comment", "svc_junk_binary", "svc_noeq"}


def register_numeric(rec):
    """Numeric line classes (specs/Config/ConfigNum.tla: ns_num_<form>_<numeral>, opt_num_<key>_<numeral>,
    sort_num_<family>_<numeral>) have no table here: TLC prints, with every scenario, the kind and the line text it
    computed from the rules; they are entered into VARIANTS / JUNK / EXTREME as they are seen."""
    num = rec.get("num") or {}
    if not isinstance(num, dict):
        return
    for c, info in num.items():
        if c in VARIANTS:
            continue
        VARIANTS[c] = [info["text"]]
        if info["kind"] == "junk":
            JUNK.add(c)
        elif info["kind"] == "extreme":
            EXTREME.add(c)


def h32(*parts):
    m = hashlib.sha1()
    for p in parts:
        m.update(repr(p).encode())
        m.update(b"|")
    return int.from_bytes(m.digest()[:4], "big")


def lat(bs):
    return bs.decode("latin-1")


def scenario_key(rec):
    f, e = rec["files"], rec["env"]
    return (tuple(f["resolv"]), tuple(f["nss"]), tuple(f["netsvc"]), tuple(f["svc"]), e["localdomain"],
            e["res_options"])


def twin_key(rec):
    f, e = rec["twin_files"], rec["twin_env"]
    return (tuple(f["resolv"]), tuple(f["nss"]), tuple(f["netsvc"]), tuple(f["svc"]), e["localdomain"],
            e["res_options"])


def pick_texts(rec, seed, force=None):
    """Choose a concrete text for every line.  Non-junk lines are chosen from the hash of the junk-free twin,
    so a scenario and its twin use identical texts for the lines they share; junk lines from the hash of the
    whole scenario.  force = {(file, index): variant_index}."""
    tk = twin_key(rec)
    sk = scenario_key(rec)
    out = {}
    for fname, table, junkset in (("resolv", VARIANTS, JUNK), ("nss", NSS_VARIANTS, NSS_JUNK),
                                  ("netsvc", SVC_VARIANTS, SVC_JUNK), ("svc", SVC_VARIANTS, SVC_JUNK)):
        texts = []
        nj = 0
        for i, c in enumerate(rec["files"][fname]):
            vs = table[c]
            if force and (fname, i) in force:
                k = force[(fname, i)] % len(vs)
            elif c in junkset:
                k = h32(seed, "junk", sk, fname, i) % len(vs)
            else:
                k = h32(seed, "valid", tk, fname, nj) % len(vs)
                nj += 1
            texts.append(b(vs[k]))
        out[fname] = texts
    env = {}
    ld = rec["env"]["localdomain"]
    if ld != "unset":
        vs = LD_VARIANTS[ld]
        isjunk = ld in ("ld_empty", "ld_binary")
        env["LOCALDOMAIN"] = b(vs[h32(seed, "ld", sk if isjunk else tk) % len(vs)])
    ro = rec["env"]["res_options"]
    if ro != "unset":
        vs = VARIANTS[ro]
        isjunk = ro in JUNK
        k = (force or {}).get(("ro", 0), h32(seed, "ro", sk if isjunk else tk)) % len(vs)
        env["RES_OPTIONS"] = opt_value(vs[k])
    out["env"] = env
    return out


def assemble(lines, style):
    """style 0: LF, final newline; 1: LF, no final newline; 2: CRLF."""
    if not lines:
        return b""
    if style == 2:
        return b"\r\n".join(lines) + b"\r\n"
    if style == 1:
        return b"\n".join(lines)
    return b"\n".join(lines) + b"\n"


def build_c15_scenario(sid, rec, seed, force=None, style=None):
    t = pick_texts(rec, seed, force)
    st = h32(seed, "style", scenario_key(rec)) % 3 if style is None else style
    etc = {}
    for fname, etcname in (("nss", "nsswitch.conf"), ("netsvc", "netsvc.conf"), ("svc", "svc.conf")):
        if rec["files"][fname]:
            etc[etcname] = lat(assemble(t[fname], st))
    ops = [{"op": "write", "path": "$W/resolv.conf", "content": lat(assemble(t["resolv"], st))},
           {"op": "init", "ch": 0, "opts": {"resolvconf_path": "$W/resolv.conf"}, "mask": OPT["RESOLVCONF"]}]
    sc = {"id": sid, "etc": etc, "ops": ops}
    if t["env"]:
        sc["env"] = {k: lat(v) for k, v in t["env"].items()}
    return sc, t


# --------------------------------------------------------------------------- harness execution
def run_harness(exe, scenarios, workdir, nproc=8, timeout=600, per_scn_timeout=20, lsan_each=False, batch=1000):
    """scenarios: list of dicts (with unique 'id').  Returns (results: id -> list of records, summaries)."""
    os.makedirs(workdir, exist_ok=True)
    n = max(1, min(nproc, (len(scenarios) + 199) // 200))
    chunks = [scenarios[i::n] for i in range(n)]
    procs = []
    for i, ch in enumerate(chunks):
        wd = os.path.join(workdir, "w%d" % i)
        shutil.rmtree(wd, ignore_errors=True)
        os.makedirs(wd)
        inp = os.path.join(workdir, "in%d.ndjson" % i)
        outp = os.path.join(workdir, "out%d.ndjson" % i)
        with open(inp, "w") as f:
            for s in ch:
                f.write(json.dumps(s))
                f.write("\n")
        env = dict(os.environ)
        env["ASAN_OPTIONS"] = "detect_leaks=1:abort_on_error=0:exitcode=99:allocator_may_return_null=1:symbolize=1"
        env["UBSAN_OPTIONS"] = "print_stacktrace=1:halt_on_error=1"
        env["TMPDIR"] = wd
        for k in ("RES_OPTIONS", "LOCALDOMAIN", "HOSTALIASES", "CARES_HOSTS"):
            env.pop(k, None)
        fin = open(inp, "rb")
        fout = open(outp, "wb")
        cmd = ["timeout", str(timeout), exe, wd, str(per_scn_timeout), "lsan_each" if lsan_each else "-", str(batch)]
        procs.append((subprocess.Popen(cmd, stdin=fin, stdout=fout, stderr=subprocess.PIPE, env=env), fin, fout, outp, wd))
    results = {}
    summaries = []
    for p, fin, fout, outp, wd in procs:
        _, err = p.communicate()
        fin.close()
        fout.close()
        if p.returncode != 0:
            raise vlib.MachineryError("cfg harness failed rc=%s: %s" % (p.returncode, err.decode("utf-8", "replace")[-2000:]))
        with open(outp) as f:
            for line in f:
                try:
                    j = json.loads(line)
                except ValueError:
                    raise vlib.MachineryError("bad harness output line: %r" % line[:300])
                if j.get("summary"):
                    summaries.append(j)
                elif "id" in j:
                    results.setdefault(j["id"], []).append(j)
                elif j.get("batch_leak"):
                    summaries.append(j)
        shutil.rmtree(wd, ignore_errors=True)
        for pth in (outp,):
            os.unlink(pth)
    for i in range(n):
        try:
            os.unlink(os.path.join(workdir, "in%d.ndjson" % i))
        except OSError:
            pass
    return results, summaries


def status_of(recs):
    """-> ('ok'|'crash'|'timeout'|'skipped'|'missing', leak:bool, detail)."""
    if not recs:
        return "missing", False, ""
    leak = False
    st = "ok"
    detail = ""
    ended = False
    for r in recs:
        if r.get("crash"):
            st, detail = "crash", (r.get("report") or "")[:3000] + " sig=%s exit=%s" % (r.get("sig"), r.get("exit"))
        elif r.get("timeout"):
            st = "timeout"
        elif r.get("skipped"):
            st = "skipped"
        if r.get("end"):
            ended = True
            leak = leak or bool(r.get("leak"))
        if r.get("leak_report"):
            detail = r["leak_report"][:3000]
    if st == "ok" and not ended:
        st = "missing"
    detail = "".join(ch if (32 <= ord(ch) < 127 or ch in "\n\t") else "?" for ch in detail)   # keep logs greppable
    return st, leak, detail


def crash_sig(detail):
    """Sanitizer error kind + innermost library frames of a crash report (stable part of a crash signature)."""
    import re
    m = re.search(r"ERROR: (\w+Sanitizer): ([\w-]+)", detail or "")
    kind = "%s:%s" % (m.group(1), m.group(2)) if m else ("UBSan" if "runtime error" in (detail or "") else "abort")
    frames = re.findall(r"#\d+ 0x[0-9a-f]+ in (\w+) [^\n]*?/src/lib/", detail or "")
    return "%s at=%s" % (kind, "<".join(frames[:3]) or "?")


def op_record(recs, i):
    for r in recs:
        if r.get("i") == i:
            return r
    return None


# --------------------------------------------------------------------------- observation vs expectation
def flags_to_set(n):
    return frozenset(k for k, v in FLAGS.items() if n & v)


def view_of_obs(o):
    """Concrete effective configuration -> the shape of View(c) in ConfigLines.tla."""
    return {"flags": flags_to_set(o["flags"]), "timeout": o["timeout"], "tries": o["tries"], "ndots": o["ndots"],
            "rotate": bool(o["rotate"]), "domains": list(o["domains"]), "lookups": o["lookups"],
            "sortlist": list(o["sortlist"]),
            "servers": [(s["addr"], s["udp"], s["tcp"], s["iface"]) for s in o["servers"]]}


def allowed_scalar(v, allowed):
    return v in allowed or (ANYPOS in allowed and isinstance(v, int) and v >= 1)


def exp_servers(exp):
    return [(s["a"], s["u"], s["t"], s["i"]) for s in exp]


def is_ll(addr):
    return addr.lower().startswith("fe80:")


def compare_view(view, exp, tolerate_usevc_init=False, tolerate_ll_missing=False, ignore=(),
                 fallback_servers=(("127.0.0.1", 53, 53, ""),)):
    """-> list of differing field names (empty = the observation is allowed by the specification)."""
    diff = []
    fl_allowed = [frozenset(f) for f in exp["flags"]]
    if "flags" not in ignore and view["flags"] not in fl_allowed:
        if not (tolerate_usevc_init and frozenset(view["flags"] | {"USEVC"}) in fl_allowed):
            diff.append("flags")
    for f in ("timeout", "tries", "ndots"):
        if f not in ignore and not allowed_scalar(view[f], exp[f]):
            diff.append(f)
    if "rotate" not in ignore and view["rotate"] != exp["rotate"]:
        diff.append("rotate")
    for f in ("domains", "sortlist"):
        if f not in ignore and view[f] != list(exp[f]):
            diff.append(f)
    if "lookups" not in ignore and view["lookups"] != exp["lookups"]:
        diff.append("lookups")
    if "servers" not in ignore:
        es = exp_servers(exp["servers"])
        if view["servers"] != es:
            ok = False
            if tolerate_ll_missing:
                es2 = [s for s in es if not is_ll(s[0])]
                if not es2:
                    es2 = list(fallback_servers)
                ok = view["servers"] == es2
            if not ok:
                diff.append("servers")
    return diff


def short(x, n=160):
    s = x if isinstance(x, str) else repr(x)
    return s if len(s) <= n else s[:n] + "...(%d)" % len(s)
