// cares_cfg: configuration scenario executor for properties C15 / C16.
//
//   verif_cfg <workdir> < scenarios.ndjson > results.ndjson
//
// Every input line is one JSON scenario:
//   {"id": "...",
//    "etc": {"nsswitch.conf": "...", ...},      optional: content of a PRIVATE /etc (mount namespace)
//    "hostname": "h.dom.example",               optional: kernel hostname (UTS namespace)
//    "env": {"RES_OPTIONS": "...", ...},        optional (only RES_OPTIONS LOCALDOMAIN HOSTALIASES CARES_HOSTS)
//    "ops": [ {"op": "...", ...}, ... ]}
// Strings are byte strings: \u00XX escapes denote raw bytes.  "$W" inside any
// path / env value is replaced by the work directory.
//
// ops:
//   write   {path, content}                      (re)write a file ($W/...)
//   unlink  {path}
//   setenv  {name, value|null}
//   init    {ch, opts:{...}|null, mask:int}      ares_init_options (opts null => ares_init)
//   set_servers_csv {ch, csv} / set_servers_ports_csv
//   set_servers {ch, servers:[ "ip", ...]}       ares_set_servers (addr nodes)
//   set_servers_ports {ch, servers:[{addr,udp,tcp}]}
//   set_sortlist {ch, str}
//   set_local_dev {ch, dev} / set_local_ip4 {ch, ip:int} / set_local_ip6 {ch, ip:"v6 text"}
//   reinit  {ch}                                 ares_reinit + wait for completion
//   save_init {src, dst}                         ares_save_options(src) -> ares_init_options(dst)
//   dup     {src, dst}
//   csv_roundtrip {src, dst, opts, mask}         csv=get(src); init(dst); set(dst,csv) ; record both
//   obs     {ch}                                 dump effective configuration
//   hostalias {ch, name}                         ares_lookup_hostaliases
//   hostsfile {ch, name, family}                 ares_gethostbyname_file
//   sysparse {kind: "resolv", text}              ares_sysconfig_process_buf + dump of sysconfig (no channel files)
//   destroy {ch}
// Every op prints one JSON line {"id","i","op","rc",...}; the scenario ends
// with {"id","end":true,"leak":bool}.  A scenario that kills the child gives
// {"id","crash":true,"sig"/"exit","report":"..."} ; a hang {"id","timeout":true}.
//
// Scenarios run in forked children (batches); LeakSanitizer is invoked after
// every scenario; a leaking / crashing scenario ends its child and the parent
// continues with the next scenario in a fresh child.

#include <arpa/inet.h>
#include <errno.h>
#include <fcntl.h>
#include <net/if.h>
#include <netdb.h>
#include <sched.h>
#include <signal.h>
#include <stdarg.h>
#include <stdio.h>
#include <stdlib.h>
#include <string.h>
#include <sys/mman.h>
#include <sys/mount.h>
#include <sys/stat.h>
#include <sys/wait.h>
#include <unistd.h>

#include <map>
#include <memory>
#include <string>
#include <vector>

extern "C" {
#include "ares_private.h"
int  __lsan_do_recoverable_leak_check(void);
void __lsan_disable(void);
void __lsan_enable(void);
}

// ---------------------------------------------------------------- mini JSON
struct J;
typedef std::shared_ptr<J> JP;
struct J {
  enum T { NUL, BOOL, NUM, STR, ARR, OBJ } t = NUL;
  bool                                     b = false;
  double                                   n = 0;
  std::string                              s;
  std::vector<JP>                          a;
  std::vector<std::pair<std::string, JP>>  o;
  JP get(const char *k) const
  {
    for (auto &kv : o)
      if (kv.first == k)
        return kv.second;
    return nullptr;
  }
  bool has(const char *k) const
  {
    JP v = get(k);
    return v && v->t != NUL;
  }
  std::string str(const char *k, const char *d = "") const
  {
    JP v = get(k);
    return (v && v->t == STR) ? v->s : std::string(d);
  }
  long long num(const char *k, long long d = 0) const
  {
    JP v = get(k);
    if (v && v->t == NUM)
      return (long long)v->n;
    if (v && v->t == BOOL)
      return v->b;
    return d;
  }
};

struct JParser {
  const char *p, *e;
  bool        ok = true;
  void        ws()
  {
    while (p < e && (*p == ' ' || *p == '\t' || *p == '\n' || *p == '\r'))
      p++;
  }
  JP val()
  {
    ws();
    JP j = std::make_shared<J>();
    if (p >= e) {
      ok = false;
      return j;
    }
    if (*p == '{') {
      p++;
      j->t = J::OBJ;
      ws();
      if (p < e && *p == '}') {
        p++;
        return j;
      }
      while (ok) {
        ws();
        JP k = val();
        if (k->t != J::STR) {
          ok = false;
          break;
        }
        ws();
        if (p >= e || *p != ':') {
          ok = false;
          break;
        }
        p++;
        JP v = val();
        j->o.push_back({ k->s, v });
        ws();
        if (p < e && *p == ',') {
          p++;
          continue;
        }
        if (p < e && *p == '}') {
          p++;
          break;
        }
        ok = false;
      }
    } else if (*p == '[') {
      p++;
      j->t = J::ARR;
      ws();
      if (p < e && *p == ']') {
        p++;
        return j;
      }
      while (ok) {
        j->a.push_back(val());
        ws();
        if (p < e && *p == ',') {
          p++;
          continue;
        }
        if (p < e && *p == ']') {
          p++;
          break;
        }
        ok = false;
      }
    } else if (*p == '"') {
      p++;
      j->t = J::STR;
      while (p < e && *p != '"') {
        if (*p == '\\' && p + 1 < e) {
          p++;
          char c = *p++;
          switch (c) {
            case 'n':
              j->s += '\n';
              break;
            case 't':
              j->s += '\t';
              break;
            case 'r':
              j->s += '\r';
              break;
            case 'b':
              j->s += '\b';
              break;
            case 'f':
              j->s += '\f';
              break;
            case 'u':
              {
                unsigned v = 0;
                for (int i = 0; i < 4 && p < e; i++, p++) {
                  char h = *p;
                  v      = v * 16 + (unsigned)(h <= '9' ? h - '0' : (h | 32) - 'a' + 10);
                }
                j->s += (char)(v & 0xff); /* byte strings: U+00XX == byte XX */
              }
              break;
            default:
              j->s += c;
          }
        } else {
          j->s += *p++;
        }
      }
      if (p < e)
        p++;
      else
        ok = false;
    } else if (!strncmp(p, "true", 4)) {
      p    += 4;
      j->t  = J::BOOL;
      j->b  = true;
    } else if (!strncmp(p, "false", 5)) {
      p    += 5;
      j->t  = J::BOOL;
    } else if (!strncmp(p, "null", 4)) {
      p += 4;
    } else {
      char *end;
      j->t = J::NUM;
      j->n = strtod(p, &end);
      if (end == p)
        ok = false;
      p = end;
    }
    return j;
  }
};

static std::string jq(const std::string &s)
{
  std::string o = "\"";
  char        b[8];
  for (unsigned char c : s) {
    if (c == '"' || c == '\\') {
      o += '\\';
      o += (char)c;
    } else if (c < 0x20 || c >= 0x7f) {
      snprintf(b, sizeof(b), "\\u%04x", c);
      o += b;
    } else {
      o += (char)c;
    }
  }
  return o + "\"";
}

static std::string fmt(const char *f, ...)
{
  char    b[512];
  va_list ap;
  va_start(ap, f);
  vsnprintf(b, sizeof(b), f, ap);
  va_end(ap);
  return b;
}

static void emit(const std::string &line)
{
  std::string l = line + "\n";
  size_t      off = 0;
  while (off < l.size()) {
    ssize_t n = write(1, l.data() + off, l.size() - off);
    if (n <= 0) {
      if (errno == EINTR)
        continue;
      _exit(97);
    }
    off += (size_t)n;
  }
}

// ---------------------------------------------------------------- allocation ledger
// Cheap per-scenario leak detection: every library allocation goes through
// these (ares_library_init_mem); the set of live blocks must be the same
// before and after a scenario.  LeakSanitizer runs once per batch (and after
// every scenario in "lsan_each" mode, used to attach a stack to a leak).
#include <pthread.h>
#include <unordered_map>
static pthread_mutex_t                    led_mu = PTHREAD_MUTEX_INITIALIZER;
static std::unordered_map<void *, size_t> *led_live;
static bool                               led_on = false;
static void *led_malloc(size_t n)
{
  void *p = malloc(n);
  if (p && led_on) {
    pthread_mutex_lock(&led_mu);
    (*led_live)[p] = n;
    pthread_mutex_unlock(&led_mu);
  }
  return p;
}
static void led_free(void *p)
{
  if (p && led_on) {
    pthread_mutex_lock(&led_mu);
    led_live->erase(p);
    pthread_mutex_unlock(&led_mu);
  }
  free(p);
}
static void *led_realloc(void *p, size_t n)
{
  if (p && led_on) {
    pthread_mutex_lock(&led_mu);
    led_live->erase(p);
    pthread_mutex_unlock(&led_mu);
  }
  void *q = realloc(p, n);
  if (led_on) {
    pthread_mutex_lock(&led_mu);
    if (q)
      (*led_live)[q] = n;
    else if (p && n != 0)
      (*led_live)[p] = 0; /* failed realloc keeps the old block */
    pthread_mutex_unlock(&led_mu);
  }
  return q;
}

// ---------------------------------------------------------------- globals
static std::string W;          // work dir
static std::string ETC;        // private etc dir (bind-mounted over /etc in the child)
static bool        etc_private = false;
static bool        uts_private = false;

static std::string subst(const std::string &s)
{
  std::string o;
  for (size_t i = 0; i < s.size(); i++) {
    if (s[i] == '$' && i + 1 < s.size() && s[i + 1] == 'W') {
      o += W;
      i++;
    } else {
      o += s[i];
    }
  }
  return o;
}

static bool write_file(const std::string &path, const std::string &content)
{
  int fd = open(path.c_str(), O_WRONLY | O_CREAT | O_TRUNC, 0644);
  if (fd < 0)
    return false;
  size_t off = 0;
  while (off < content.size()) {
    ssize_t n = write(fd, content.data() + off, content.size() - off);
    if (n <= 0)
      break;
    off += (size_t)n;
  }
  close(fd);
  return off == content.size();
}

static const char *rcname(int rc)
{
  switch (rc) {
    case ARES_SUCCESS:
      return "SUCCESS";
    case ARES_ENODATA:
      return "ENODATA";
    case ARES_EFORMERR:
      return "EFORMERR";
    case ARES_ESERVFAIL:
      return "ESERVFAIL";
    case ARES_ENOTFOUND:
      return "ENOTFOUND";
    case ARES_ENOTIMP:
      return "ENOTIMP";
    case ARES_EREFUSED:
      return "EREFUSED";
    case ARES_EBADQUERY:
      return "EBADQUERY";
    case ARES_EBADNAME:
      return "EBADNAME";
    case ARES_EBADFAMILY:
      return "EBADFAMILY";
    case ARES_EBADRESP:
      return "EBADRESP";
    case ARES_ECONNREFUSED:
      return "ECONNREFUSED";
    case ARES_ETIMEOUT:
      return "ETIMEOUT";
    case ARES_EOF:
      return "EOF";
    case ARES_EFILE:
      return "EFILE";
    case ARES_ENOMEM:
      return "ENOMEM";
    case ARES_EDESTRUCTION:
      return "EDESTRUCTION";
    case ARES_EBADSTR:
      return "EBADSTR";
    case ARES_EBADFLAGS:
      return "EBADFLAGS";
    case ARES_ENONAME:
      return "ENONAME";
    case ARES_EBADHINTS:
      return "EBADHINTS";
    case ARES_ENOTINITIALIZED:
      return "ENOTINITIALIZED";
    case ARES_ECANCELLED:
      return "ECANCELLED";
    case ARES_ESERVICE:
      return "ESERVICE";
    case ARES_ENOSERVER:
      return "ENOSERVER";
    default:
      return "OTHER";
  }
}

static std::string addr_str(const struct ares_addr *a)
{
  char b[INET6_ADDRSTRLEN + 1] = "";
  if (a->family == AF_INET)
    inet_ntop(AF_INET, &a->addr.addr4, b, sizeof(b));
  else if (a->family == AF_INET6)
    inet_ntop(AF_INET6, &a->addr.addr6, b, sizeof(b));
  else
    snprintf(b, sizeof(b), "family%d", a->family);
  return b;
}

static std::string sortlist_json(const struct apattern *sl, size_t n)
{
  std::string o = "[";
  for (size_t i = 0; i < n; i++) {
    if (i)
      o += ",";
    o += jq(addr_str(&sl[i].addr) + "/" + std::to_string((unsigned)sl[i].mask));
  }
  return o + "]";
}

static std::string strlist_json(char **l, size_t n)
{
  std::string o = "[";
  for (size_t i = 0; i < n; i++) {
    if (i)
      o += ",";
    o += l[i] ? jq(l[i]) : "null";
  }
  return o + "]";
}

static std::string unW(const char *p)
{
  if (p == NULL)
    return "null";
  std::string s = p;
  if (s.compare(0, W.size(), W) == 0)
    s = "$W" + s.substr(W.size());
  return jq(s);
}

// ares_save_options() view: only what the public structure reports.
static std::string saved_json(const ares_channel_t *ch)
{
  struct ares_options o;
  int                 mask = 0;
  memset(&o, 0x5a, sizeof(o)); /* fields not covered by the mask stay poisoned */
  int         rc = ares_save_options(ch, &o, &mask);
  std::string s  = "{\"rc\":" + jq(rcname(rc));
  if (rc == ARES_SUCCESS) {
    s += fmt(",\"optmask\":%d", mask);
    if (mask & ARES_OPT_FLAGS)
      s += fmt(",\"flags\":%d", o.flags);
    if (mask & ARES_OPT_TIMEOUTMS)
      s += fmt(",\"timeout\":%d", o.timeout);
    if (mask & ARES_OPT_TRIES)
      s += fmt(",\"tries\":%d", o.tries);
    if (mask & ARES_OPT_NDOTS)
      s += fmt(",\"ndots\":%d", o.ndots);
    if (mask & ARES_OPT_MAXTIMEOUTMS)
      s += fmt(",\"maxtimeout\":%d", o.maxtimeout);
    if (mask & ARES_OPT_UDP_PORT)
      s += fmt(",\"udp_port\":%u", (unsigned)o.udp_port);
    if (mask & ARES_OPT_TCP_PORT)
      s += fmt(",\"tcp_port\":%u", (unsigned)o.tcp_port);
    if (mask & ARES_OPT_SERVERS) {
      s += ",\"servers\":[";
      for (int i = 0; i < o.nservers; i++) {
        char b[32];
        inet_ntop(AF_INET, &o.servers[i], b, sizeof(b));
        s += (i ? "," : "") + jq(b);
      }
      s += "]";
    }
    if (mask & ARES_OPT_DOMAINS)
      s += ",\"domains\":" + strlist_json(o.domains, (size_t)o.ndomains);
    if (mask & ARES_OPT_LOOKUPS)
      s += ",\"lookups\":" + (o.lookups ? jq(o.lookups) : std::string("null"));
    if (mask & ARES_OPT_SORTLIST)
      s += ",\"sortlist\":" + sortlist_json(o.sortlist, (size_t)o.nsort);
    if (mask & ARES_OPT_RESOLVCONF)
      s += ",\"resolvconf_path\":" + unW(o.resolvconf_path);
    if (mask & ARES_OPT_HOSTS_FILE)
      s += ",\"hosts_path\":" + unW(o.hosts_path);
    if (mask & ARES_OPT_SOCK_SNDBUF)
      s += fmt(",\"sndbuf\":%d", o.socket_send_buffer_size);
    if (mask & ARES_OPT_SOCK_RCVBUF)
      s += fmt(",\"rcvbuf\":%d", o.socket_receive_buffer_size);
    if (mask & ARES_OPT_EDNSPSZ)
      s += fmt(",\"ednspsz\":%d", o.ednspsz);
    if (mask & ARES_OPT_UDP_MAX_QUERIES)
      s += fmt(",\"udp_max_queries\":%d", o.udp_max_queries);
    if (mask & ARES_OPT_QUERY_CACHE)
      s += fmt(",\"qcache_max_ttl\":%u", o.qcache_max_ttl);
    if (mask & ARES_OPT_EVENT_THREAD)
      s += fmt(",\"evsys\":%d", (int)o.evsys);
    if (mask & ARES_OPT_SERVER_FAILOVER)
      s += fmt(",\"retry_chance\":%u,\"retry_delay\":%zu", (unsigned)o.server_failover_opts.retry_chance,
               o.server_failover_opts.retry_delay);
  }
  ares_destroy_options(&o);
  return s + "}";
}

// Effective configuration: the channel's own fields + public getters.
static std::string chan_json(ares_channel_t *ch)
{
  std::string s = "{";
  ares_channel_lock(ch);
  s += fmt("\"flags\":%u,\"timeout\":%zu,\"tries\":%zu,\"ndots\":%zu,\"maxtimeout\":%zu,\"rotate\":%d", ch->flags,
           ch->timeout, ch->tries, ch->ndots, ch->maxtimeout, ch->rotate ? 1 : 0);
  s += fmt(",\"udp_port\":%u,\"tcp_port\":%u,\"sndbuf\":%d,\"rcvbuf\":%d", (unsigned)ch->udp_port,
           (unsigned)ch->tcp_port, ch->socket_send_buffer_size, ch->socket_receive_buffer_size);
  s += ",\"domains\":" + strlist_json(ch->domains, ch->ndomains);
  s += ",\"sortlist\":" + sortlist_json(ch->sortlist, ch->nsort);
  s += ",\"lookups\":" + (ch->lookups ? jq(ch->lookups) : std::string("null"));
  s += fmt(",\"ednspsz\":%zu,\"qcache_max_ttl\":%u,\"evsys\":%d,\"optmask\":%u", ch->ednspsz, ch->qcache_max_ttl,
           (int)ch->evsys, ch->optmask);
  s += fmt(",\"udp_max_queries\":%zu,\"retry_chance\":%u,\"retry_delay\":%zu", ch->udp_max_queries,
           (unsigned)ch->server_retry_chance, ch->server_retry_delay);
  s += ",\"resolvconf_path\":" + unW(ch->resolvconf_path) + ",\"hosts_path\":" + unW(ch->hosts_path);
  {
    char ip6[INET6_ADDRSTRLEN] = "";
    inet_ntop(AF_INET6, ch->local_ip6, ip6, sizeof(ip6));
    s += ",\"local_dev\":" + jq(ch->local_dev_name) + fmt(",\"local_ip4\":%u", ch->local_ip4) +
         ",\"local_ip6\":" + jq(ip6);
  }
  s += ",\"servers\":[";
  bool first = true;
  for (ares_slist_node_t *n = ares_slist_node_first(ch->servers); n != NULL; n = ares_slist_node_next(n)) {
    const ares_server_t *sv = (const ares_server_t *)ares_slist_node_val(n);
    if (!first)
      s += ",";
    first  = false;
    s     += "{\"addr\":" + jq(addr_str(&sv->addr)) +
         fmt(",\"udp\":%u,\"tcp\":%u,\"scope\":%u,\"iface\":", (unsigned)sv->udp_port, (unsigned)sv->tcp_port,
             sv->ll_scope) +
         jq(sv->ll_iface) + "}";
  }
  s += "]";
  ares_channel_unlock(ch);

  char *csv = ares_get_servers_csv(ch);
  s += ",\"csv\":" + (csv ? jq(csv) : std::string("null"));
  ares_free_string(csv);

  /* public getter cross-check */
  struct ares_addr_port_node *pn = NULL;
  int                         rc = ares_get_servers_ports(ch, &pn);
  s += ",\"ports_rc\":" + jq(rcname(rc)) + ",\"ports\":[";
  first = true;
  for (struct ares_addr_port_node *n = pn; n != NULL; n = n->next) {
    struct ares_addr a;
    memset(&a, 0, sizeof(a));
    a.family = n->family;
    if (n->family == AF_INET)
      memcpy(&a.addr.addr4, &n->addr.addr4, 4);
    else
      memcpy(&a.addr.addr6, &n->addr.addr6, 16);
    if (!first)
      s += ",";
    first  = false;
    s     += "[" + jq(addr_str(&a)) + fmt(",%d,%d]", n->udp_port, n->tcp_port);
  }
  s += "]";
  ares_free_data(pn);

  s += ",\"saved\":" + saved_json(ch);
  return s + "}";
}

// ---------------------------------------------------------------- scenario
struct Scn {
  std::map<int, ares_channel_t *> ch;
  std::string                     id;
  bool                            virt = false; /* install the virtual interface table on every channel created */
};

// ---------------------------------------------------------------- virtual interfaces
// Scenario flag "virt": every channel the scenario creates gets socket functions (ares_set_socket_functions_ex)
// whose interface lookup knows, besides the real interfaces, "verylongiface01" (15 characters, the longest legal
// name, index 77) and "vif2" (index 78).  The socket calls themselves are the plain system calls.
static const char *VIF_LONG = "verylongiface01";
static ares_socket_t vs_socket(int d, int t, int p, void *u)
{
  (void)u;
  return socket(d, t, p);
}
static int vs_close(ares_socket_t s, void *u)
{
  (void)u;
  return close(s);
}
static int vs_setsockopt(ares_socket_t s, ares_socket_opt_t opt, const void *val, ares_socklen_t len, void *u)
{
  (void)s;
  (void)opt;
  (void)val;
  (void)len;
  (void)u;
  return 0;
}
static int vs_connect(ares_socket_t s, const struct sockaddr *a, ares_socklen_t l, unsigned int flags, void *u)
{
  (void)u;
  (void)flags;
  return connect(s, a, l);
}
static ares_ssize_t vs_recvfrom(ares_socket_t s, void *b, size_t l, int f, struct sockaddr *a, ares_socklen_t *al,
                                void *u)
{
  (void)u;
  return recvfrom(s, b, l, f, a, al);
}
static ares_ssize_t vs_sendto(ares_socket_t s, const void *b, size_t l, int f, const struct sockaddr *a,
                              ares_socklen_t al, void *u)
{
  (void)u;
  return sendto(s, b, l, f, a, al);
}
static unsigned int vs_nametoindex(const char *name, void *u)
{
  (void)u;
  if (name == NULL)
    return 0;
  if (!strcmp(name, VIF_LONG))
    return 77;
  if (!strcmp(name, "vif2"))
    return 78;
  return if_nametoindex(name);
}
static const char *vs_indextoname(unsigned int idx, char *buf, size_t len, void *u)
{
  (void)u;
  const char *n = idx == 77 ? VIF_LONG : idx == 78 ? "vif2" : NULL;
  if (n != NULL) {
    if (len < strlen(n) + 1)
      return NULL;
    strcpy(buf, n);
    return buf;
  }
  if (len < IF_NAMESIZE)
    return NULL;
  return if_indextoname(idx, buf);
}
static void install_virt(ares_channel_t *c)
{
  static struct ares_socket_functions_ex f;
  memset(&f, 0, sizeof(f));
  f.version         = 1;
  f.flags           = 0;
  f.asocket         = vs_socket;
  f.aclose          = vs_close;
  f.asetsockopt     = vs_setsockopt;
  f.aconnect        = vs_connect;
  f.arecvfrom       = vs_recvfrom;
  f.asendto         = vs_sendto;
  f.aif_nametoindex = vs_nametoindex;
  f.aif_indextoname = vs_indextoname;
  ares_set_socket_functions_ex(c, &f, NULL);
}

static ares_channel_t *getch(Scn &S, const J &op, const char *k = "ch")
{
  int  i  = (int)op.num(k, 0);
  auto it = S.ch.find(i);
  return it == S.ch.end() ? NULL : it->second;
}

struct OptHolder {
  struct ares_options      o;
  std::vector<in_addr>     servers;
  std::vector<std::string> dom_s;
  std::vector<char *>      dom_p;
  std::string              lookups, resolv, hosts;
  struct apattern         *sortlist = NULL;
  size_t                   nsort    = 0;
  ~OptHolder()
  {
    ares_free(sortlist);
  }
};

static void fill_options(const J &jo, OptHolder &h)
{
  memset(&h.o, 0, sizeof(h.o));
  h.o.flags                      = (int)jo.num("flags");
  h.o.timeout                    = (int)jo.num("timeout");
  h.o.tries                      = (int)jo.num("tries");
  h.o.ndots                      = (int)jo.num("ndots");
  h.o.udp_port                   = (unsigned short)jo.num("udp_port");
  h.o.tcp_port                   = (unsigned short)jo.num("tcp_port");
  h.o.socket_send_buffer_size    = (int)jo.num("sndbuf");
  h.o.socket_receive_buffer_size = (int)jo.num("rcvbuf");
  h.o.ednspsz                    = (int)jo.num("ednspsz");
  h.o.udp_max_queries            = (int)jo.num("udp_max_queries");
  h.o.maxtimeout                 = (int)jo.num("maxtimeout");
  h.o.qcache_max_ttl             = (unsigned int)jo.num("qcache_max_ttl");
  h.o.evsys                      = (ares_evsys_t)jo.num("evsys");
  h.o.server_failover_opts.retry_chance = (unsigned short)jo.num("retry_chance");
  h.o.server_failover_opts.retry_delay  = (size_t)jo.num("retry_delay");
  JP sv = jo.get("servers");
  if (sv && sv->t == J::ARR) {
    for (auto &e : sv->a) {
      in_addr a;
      a.s_addr = 0;
      inet_pton(AF_INET, e->s.c_str(), &a);
      h.servers.push_back(a);
    }
    h.o.servers  = h.servers.empty() ? NULL : h.servers.data();
    h.o.nservers = (int)h.servers.size();
  }
  JP dm = jo.get("domains");
  if (dm && dm->t == J::ARR) {
    for (auto &e : dm->a)
      h.dom_s.push_back(e->s);
    for (auto &e : h.dom_s)
      h.dom_p.push_back((char *)e.c_str());
    h.o.domains  = h.dom_p.empty() ? NULL : h.dom_p.data();
    h.o.ndomains = (int)h.dom_p.size();
  }
  if (jo.has("lookups")) {
    h.lookups   = jo.str("lookups");
    h.o.lookups = (char *)h.lookups.c_str();
  }
  if (jo.has("resolvconf_path")) {
    h.resolv            = subst(jo.str("resolvconf_path"));
    h.o.resolvconf_path = (char *)h.resolv.c_str();
  }
  if (jo.has("hosts_path")) {
    h.hosts        = subst(jo.str("hosts_path"));
    h.o.hosts_path = (char *)h.hosts.c_str();
  }
  if (jo.has("sortlist")) { /* string form; struct apattern is opaque to applications */
    std::string str = jo.str("sortlist");
    if (ares_parse_sortlist(&h.sortlist, &h.nsort, str.c_str()) == ARES_SUCCESS) {
      h.o.sortlist = h.sortlist;
      h.o.nsort    = (int)h.nsort;
    }
  }
}

static void wait_reinit(ares_channel_t *ch)
{
  for (int i = 0; i < 50000; i++) {
    ares_channel_lock(ch);
    ares_bool_t p = ch->reinit_pending;
    ares_channel_unlock(ch);
    if (!p)
      return;
    usleep(100);
  }
}

static std::string sysconfig_json(const ares_channel_t *ch, ares_sysconfig_t *sc)
{
  /* Render the server list the way a channel would show it, by applying it to
   * a scratch llist walk; ares_sconfig_t is private to ares_update_servers.c,
   * so only the count is taken here. */
  (void)ch;
  std::string s = "{";
  s += fmt("\"nservers\":%zu", sc->sconfig ? ares_llist_len(sc->sconfig) : (size_t)0);
  s += ",\"domains\":" + (sc->domains ? strlist_json(sc->domains, sc->ndomains) : std::string("null"));
  s += ",\"sortlist\":" + (sc->sortlist ? sortlist_json(sc->sortlist, sc->nsortlist) : std::string("null"));
  s += ",\"lookups\":" + (sc->lookups ? jq(sc->lookups) : std::string("null"));
  s += fmt(",\"ndots\":%zu,\"tries\":%zu,\"timeout\":%zu,\"rotate\":%d,\"usevc\":%d", sc->ndots, sc->tries,
           sc->timeout_ms, sc->rotate ? 1 : 0, sc->usevc ? 1 : 0);
  return s + "}";
}

static void run_op(Scn &S, size_t i, const J &op)
{
  std::string name = op.str("op");
  std::string head = "{\"id\":" + jq(S.id) + fmt(",\"i\":%zu,\"op\":", i) + jq(name);

  if (name == "write") {
    bool ok = write_file(subst(op.str("path")), op.str("content"));
    emit(head + fmt(",\"ok\":%d}", ok));
  } else if (name == "unlink") {
    unlink(subst(op.str("path")).c_str());
    emit(head + "}");
  } else if (name == "setenv") {
    if (op.has("value"))
      setenv(op.str("name").c_str(), subst(op.str("value")).c_str(), 1);
    else
      unsetenv(op.str("name").c_str());
    emit(head + "}");
  } else if (name == "init") {
    ares_channel_t *c = NULL;
    int             rc;
    JP              jo = op.get("opts");
    if (jo && jo->t == J::OBJ) {
      OptHolder h;
      fill_options(*jo, h);
      rc = ares_init_options(&c, &h.o, (int)op.num("mask"));
    } else {
      rc = ares_init(&c);
    }
    if (rc == ARES_SUCCESS)
    {
      S.ch[(int)op.num("ch")] = c;
      if (S.virt)
        install_virt(c);
    }
    emit(head + ",\"rc\":" + jq(rcname(rc)) + (rc == ARES_SUCCESS ? ",\"obs\":" + chan_json(c) : std::string()) + "}");
  } else if (name == "set_servers_csv" || name == "set_servers_ports_csv") {
    ares_channel_t *c = getch(S, op);
    int             rc;
    JP              v = op.get("csv");
    const char     *csv = (v && v->t == J::STR) ? v->s.c_str() : NULL;
    rc = name == "set_servers_csv" ? ares_set_servers_csv(c, csv) : ares_set_servers_ports_csv(c, csv);
    emit(head + ",\"rc\":" + jq(rcname(rc)) + (c ? ",\"obs\":" + chan_json(c) : std::string()) + "}");
  } else if (name == "set_servers") {
    ares_channel_t                    *c = getch(S, op);
    std::vector<struct ares_addr_node> nodes;
    JP                                 sv = op.get("servers");
    for (auto &e : sv->a) {
      struct ares_addr_node n;
      memset(&n, 0, sizeof(n));
      if (inet_pton(AF_INET, e->s.c_str(), &n.addr.addr4) == 1)
        n.family = AF_INET;
      else if (inet_pton(AF_INET6, e->s.c_str(), &n.addr.addr6) == 1)
        n.family = AF_INET6;
      nodes.push_back(n);
    }
    for (size_t k = 0; k + 1 < nodes.size(); k++)
      nodes[k].next = &nodes[k + 1];
    int rc = ares_set_servers(c, nodes.empty() ? NULL : nodes.data());
    emit(head + ",\"rc\":" + jq(rcname(rc)) + (c ? ",\"obs\":" + chan_json(c) : std::string()) + "}");
  } else if (name == "set_servers_ports") {
    ares_channel_t                         *c = getch(S, op);
    std::vector<struct ares_addr_port_node> nodes;
    JP                                      sv = op.get("servers");
    for (auto &e : sv->a) {
      struct ares_addr_port_node n;
      memset(&n, 0, sizeof(n));
      std::string a = e->str("addr");
      if (inet_pton(AF_INET, a.c_str(), &n.addr.addr4) == 1)
        n.family = AF_INET;
      else if (inet_pton(AF_INET6, a.c_str(), &n.addr.addr6) == 1)
        n.family = AF_INET6;
      n.udp_port = (int)e->num("udp");
      n.tcp_port = (int)e->num("tcp");
      nodes.push_back(n);
    }
    for (size_t k = 0; k + 1 < nodes.size(); k++)
      nodes[k].next = &nodes[k + 1];
    int rc = ares_set_servers_ports(c, nodes.empty() ? NULL : nodes.data());
    emit(head + ",\"rc\":" + jq(rcname(rc)) + (c ? ",\"obs\":" + chan_json(c) : std::string()) + "}");
  } else if (name == "set_sortlist") {
    ares_channel_t *c  = getch(S, op);
    int             rc = ares_set_sortlist(c, op.str("str").c_str());
    emit(head + ",\"rc\":" + jq(rcname(rc)) + (c ? ",\"obs\":" + chan_json(c) : std::string()) + "}");
  } else if (name == "set_local_dev") {
    ares_channel_t *c = getch(S, op);
    ares_set_local_dev(c, op.str("dev").c_str());
    emit(head + "}");
  } else if (name == "set_local_ip4") {
    ares_channel_t *c = getch(S, op);
    ares_set_local_ip4(c, (unsigned int)op.num("ip"));
    emit(head + "}");
  } else if (name == "set_local_ip6") {
    ares_channel_t *c = getch(S, op);
    unsigned char   a[16];
    memset(a, 0, sizeof(a));
    inet_pton(AF_INET6, op.str("ip").c_str(), a);
    ares_set_local_ip6(c, a);
    emit(head + "}");
  } else if (name == "reinit") {
    ares_channel_t *c  = getch(S, op);
    int             rc = ares_reinit(c);
    if (c)
      wait_reinit(c);
    emit(head + ",\"rc\":" + jq(rcname(rc)) + (c ? ",\"obs\":" + chan_json(c) : std::string()) + "}");
  } else if (name == "save_init") {
    ares_channel_t     *src = getch(S, op, "src");
    struct ares_options o;
    int                 mask = 0;
    memset(&o, 0, sizeof(o));
    int             rc  = ares_save_options(src, &o, &mask);
    int             rc2 = -1;
    ares_channel_t *c   = NULL;
    if (rc == ARES_SUCCESS) {
      rc2 = ares_init_options(&c, &o, mask);
      if (rc2 == ARES_SUCCESS) {
        S.ch[(int)op.num("dst")] = c;
        if (S.virt)
          install_virt(c);
      }
    }
    ares_destroy_options(&o);
    emit(head + ",\"rc\":" + jq(rcname(rc)) + ",\"rc2\":" + jq(rc2 < 0 ? "-" : rcname(rc2)) +
         fmt(",\"mask\":%d", mask) + ",\"src\":" + chan_json(src) +
         (c ? ",\"obs\":" + chan_json(c) : std::string()) + "}");
  } else if (name == "dup") {
    ares_channel_t *src = getch(S, op, "src");
    ares_channel_t *c   = NULL;
    int             rc  = ares_dup(&c, src);
    if (rc == ARES_SUCCESS)
      S.ch[(int)op.num("dst")] = c;
    emit(head + ",\"rc\":" + jq(rcname(rc)) + ",\"src\":" + chan_json(src) +
         (c ? ",\"obs\":" + chan_json(c) : std::string()) + "}");
  } else if (name == "csv_roundtrip") {
    /* text of src's servers fed to the setter of a fresh channel created with
     * the same port options; then rendered again */
    ares_channel_t *src = getch(S, op, "src");
    char           *csv = ares_get_servers_csv(src);
    ares_channel_t *c   = NULL;
    int             rc;
    JP              jo = op.get("opts");
    if (jo && jo->t == J::OBJ) {
      OptHolder h;
      fill_options(*jo, h);
      rc = ares_init_options(&c, &h.o, (int)op.num("mask"));
    } else {
      rc = ares_init(&c);
    }
    int         rc2 = -1;
    std::string csv2 = "null";
    if (rc == ARES_SUCCESS) {
      S.ch[(int)op.num("dst")] = c;
      if (S.virt)
        install_virt(c);
      rc2                      = ares_set_servers_ports_csv(c, csv);
      char *t                  = ares_get_servers_csv(c);
      if (t)
        csv2 = jq(t);
      ares_free_string(t);
    }
    emit(head + ",\"rc\":" + jq(rcname(rc)) + ",\"rc2\":" + jq(rc2 < 0 ? "-" : rcname(rc2)) +
         ",\"csv\":" + (csv ? jq(csv) : std::string("null")) + ",\"csv2\":" + csv2 + ",\"src\":" + chan_json(src) +
         (c ? ",\"obs\":" + chan_json(c) : std::string()) + "}");
    ares_free_string(csv);
  } else if (name == "obs") {
    ares_channel_t *c = getch(S, op);
    emit(head + (c ? ",\"obs\":" + chan_json(c) : std::string(",\"obs\":null")) + "}");
  } else if (name == "hostalias") {
    ares_channel_t *c     = getch(S, op);
    char           *alias = NULL;
    int             rc    = (int)ares_lookup_hostaliases(c, op.str("name").c_str(), &alias);
    emit(head + ",\"rc\":" + jq(rcname(rc)) + ",\"alias\":" + (alias ? jq(alias) : std::string("null")) + "}");
    ares_free(alias);
  } else if (name == "hostsfile") {
    ares_channel_t *c   = getch(S, op);
    struct hostent *he  = NULL;
    int             fam = (int)op.num("family", 4) == 6 ? AF_INET6 : AF_INET;
    int             rc  = ares_gethostbyname_file(c, op.str("name").c_str(), fam, &he);
    std::string     s   = head + ",\"rc\":" + jq(rcname(rc));
    if (rc == ARES_SUCCESS && he) {
      s += ",\"name\":" + jq(he->h_name ? he->h_name : "") + ",\"aliases\":[";
      for (int k = 0; he->h_aliases && he->h_aliases[k]; k++)
        s += (k ? "," : "") + jq(he->h_aliases[k]);
      s += "],\"addrs\":[";
      for (int k = 0; he->h_addr_list && he->h_addr_list[k]; k++) {
        char b[INET6_ADDRSTRLEN] = "";
        inet_ntop(he->h_addrtype, he->h_addr_list[k], b, sizeof(b));
        s += (k ? "," : "") + jq(b);
      }
      s += "]";
    }
    if (he)
      ares_free_hostent(he);
    emit(s + "}");
  } else if (name == "sysparse") {
    /* direct drive of the non-static resolv.conf line parser / option parser */
    ares_channel_t  *c = getch(S, op);
    ares_sysconfig_t sc;
    memset(&sc, 0, sizeof(sc));
    sc.ndots = 1;
    std::string kind = op.str("kind", "resolv");
    std::string text = op.str("text");
    int         rc;
    if (kind == "options") {
      rc = (int)ares_sysconfig_set_options(&sc, text.c_str());
    } else {
      ares_buf_t *buf = ares_buf_create();
      ares_buf_append(buf, (const unsigned char *)text.data(), text.size());
      rc = (int)ares_sysconfig_process_buf(c, &sc, buf, ares_sysconfig_parse_resolv_line);
      ares_buf_destroy(buf);
    }
    emit(head + ",\"rc\":" + jq(rcname(rc)) + ",\"sys\":" + sysconfig_json(c, &sc) + "}");
    ares_llist_destroy(sc.sconfig);
    ares_strsplit_free(sc.domains, sc.ndomains);
    ares_free(sc.sortlist);
    ares_free(sc.lookups);
  } else if (name == "destroy") {
    int  i  = (int)op.num("ch", 0);
    auto it = S.ch.find(i);
    if (it != S.ch.end()) {
      ares_destroy(it->second);
      S.ch.erase(it);
    }
    emit(head + "}");
  } else {
    emit(head + ",\"error\":\"unknown op\"}");
  }
}

static const char *ENVS[] = { "RES_OPTIONS", "LOCALDOMAIN", "HOSTALIASES", "CARES_HOSTS" };
static const char *ETCF[] = { "nsswitch.conf", "netsvc.conf", "svc.conf", "resolv.conf", "hosts", "host.conf" };
static char        orig_host[256];

static void run_scenario(const std::string &line)
{
  JParser P{ line.data(), line.data() + line.size() };
  JP      sc = P.val();
  Scn     S;
  if (!P.ok || sc->t != J::OBJ) {
    emit("{\"id\":null,\"error\":\"bad scenario json\"}");
    return;
  }
  S.id   = sc->str("id");
  S.virt = sc->num("virt", 0) != 0;

  /* clean slate */
  for (const char *e : ENVS)
    unsetenv(e);
  if (etc_private)
    for (const char *f : ETCF)
      unlink((ETC + "/" + f).c_str());

  bool skipped = false;
  JP   etc     = sc->get("etc");
  if (etc && etc->t == J::OBJ) {
    if (!etc_private) {
      skipped = true;
    } else {
      for (auto &kv : etc->o)
        if (kv.second->t == J::STR)
          write_file(ETC + "/" + kv.first, kv.second->s);
    }
  }
  if (sc->has("hostname")) {
    if (!uts_private)
      skipped = true;
    else {
      std::string h = sc->str("hostname");
      sethostname(h.c_str(), h.size());
    }
  } else if (uts_private) {
    sethostname(orig_host, strlen(orig_host));
  }
  if (skipped) {
    emit("{\"id\":" + jq(S.id) + ",\"skipped\":\"no private /etc or hostname\"}");
    return;
  }
  JP env = sc->get("env");
  if (env && env->t == J::OBJ)
    for (auto &kv : env->o)
      if (kv.second->t == J::STR)
        setenv(kv.first.c_str(), subst(kv.second->s).c_str(), 1);

  JP ops = sc->get("ops");
  if (ops && ops->t == J::ARR)
    for (size_t i = 0; i < ops->a.size(); i++)
      run_op(S, i, *ops->a[i]);

  for (auto &kv : S.ch)
    ares_destroy(kv.second);
  S.ch.clear();
  for (const char *e : ENVS)
    unsetenv(e);
}

struct Shared {
  volatile long cur;   /* index of the scenario in progress */
  volatile long done;  /* number completed */
  volatile int  leak;  /* child stopped because of a leak in scenario cur */
  volatile int  etc_private, uts_private;
};

int main(int argc, char **argv)
{
  if (argc < 2) {
    fprintf(stderr, "usage: %s <workdir> [per-scenario-timeout-s] [lsan_each|-] [batch] < scenarios.ndjson\n", argv[0]);
    return 2;
  }
  W            = argv[1];
  int tmo      = argc > 2 ? atoi(argv[2]) : 20;
  ETC          = W + "/etc";
  mkdir(W.c_str(), 0755);
  mkdir(ETC.c_str(), 0755);
  gethostname(orig_host, sizeof(orig_host) - 1);

  std::vector<std::string> lines;
  {
    std::string cur;
    char        buf[65536];
    ssize_t     n;
    while ((n = read(0, buf, sizeof(buf))) > 0) {
      for (ssize_t i = 0; i < n; i++) {
        if (buf[i] == '\n') {
          if (!cur.empty())
            lines.push_back(cur);
          cur.clear();
        } else {
          cur += buf[i];
        }
      }
    }
    if (!cur.empty())
      lines.push_back(cur);
  }

  led_live = new std::unordered_map<void *, size_t>();
  ares_library_init_mem(ARES_LIB_INIT_ALL, led_malloc, led_free, led_realloc);
  bool lsan_each = argc > 3 && !strcmp(argv[3], "lsan_each");
  long batch     = argc > 4 ? atol(argv[4]) : 1000;

  Shared *sh = (Shared *)mmap(NULL, sizeof(Shared), PROT_READ | PROT_WRITE, MAP_SHARED | MAP_ANONYMOUS, -1, 0);
  memset((void *)sh, 0, sizeof(*sh));
  std::string errpath = W + "/child.stderr";

  long start = 0;
  long total = (long)lines.size();
  while (start < total) {
    sh->cur  = start;
    sh->leak = 0;
    pid_t pid = fork();
    if (pid < 0) {
      perror("fork");
      return 2;
    }
    if (pid == 0) {
      int efd = open(errpath.c_str(), O_WRONLY | O_CREAT | O_TRUNC, 0644);
      if (efd >= 0) {
        dup2(efd, 2);
        close(efd);
      }
      /* private /etc and hostname for this child, when permitted */
      if (getenv("VERIF_CFG_NO_NS") == NULL && unshare(CLONE_NEWNS | CLONE_NEWUTS) == 0) {
        uts_private = true;
        if (mount(NULL, "/", NULL, MS_REC | MS_PRIVATE, NULL) == 0 &&
            mount(ETC.c_str(), "/etc", NULL, MS_BIND, NULL) == 0)
          etc_private = true;
      }
      sh->etc_private = etc_private;
      sh->uts_private = uts_private;
      long last = start + batch < total ? start + batch : total;
      for (long i = start; i < last; i++) {
        sh->cur = i;
        alarm((unsigned)tmo);
        led_live->clear();
        led_on = true;
        run_scenario(lines[(size_t)i]);
        led_on = false;
        alarm(0);
        size_t lbytes = 0, lblocks = led_live->size();
        for (auto &kv : *led_live)
          lbytes += kv.second;
        int leak = lblocks != 0;
        if (lsan_each && __lsan_do_recoverable_leak_check())
          leak = 1;
        {
          JParser P{ lines[(size_t)i].data(), lines[(size_t)i].data() + lines[(size_t)i].size() };
          JP      sc = P.val();
          emit("{\"id\":" + jq(sc->str("id")) +
               fmt(",\"end\":true,\"leak\":%s,\"leak_blocks\":%zu,\"leak_bytes\":%zu}", leak ? "true" : "false",
                   lblocks, lbytes));
        }
        sh->done = i + 1;
        if (lblocks != 0 && !lsan_each) {
          /* reported above; release the blocks so that the batch-level LeakSanitizer pass only sees what the
           * ledger could not */
          for (auto &kv : *led_live)
            free(kv.first);
          led_live->clear();
        } else if (leak) {
          sh->leak = 1;
          _exit(0);
        }
      }
      /* batch-level LeakSanitizer backstop (allocations not made through the library allocator) */
      if (!lsan_each && __lsan_do_recoverable_leak_check()) {
        emit(fmt("{\"batch_leak\":true,\"from\":%ld,\"to\":%ld}", start, last));
      }
      _exit(0);
    }
    int st = 0;
    while (waitpid(pid, &st, 0) < 0 && errno == EINTR) {
    }
    long cur  = sh->cur;
    long done = sh->done;
    long last = start + batch < total ? start + batch : total;
    if (WIFEXITED(st) && WEXITSTATUS(st) == 0 && (done >= last || sh->leak)) {
      if (sh->leak) {
        /* attach the leak report of scenario `cur` */
        std::string rep;
        FILE       *f = fopen(errpath.c_str(), "r");
        if (f) {
          char   b[8192];
          size_t n = fread(b, 1, sizeof(b) - 1, f);
          b[n]     = 0;
          rep      = b;
          fclose(f);
        }
        JParser P{ lines[(size_t)cur].data(), lines[(size_t)cur].data() + lines[(size_t)cur].size() };
        JP      sc = P.val();
        if (!rep.empty())
          emit("{\"id\":" + jq(sc->str("id")) + ",\"leak_report\":" + jq(rep) + "}");
      }
      start = done;
      continue;
    }
    /* abnormal end while scenario `cur` was running */
    {
      std::string rep;
      FILE       *f = fopen(errpath.c_str(), "r");
      if (f) {
        char   b[6000];
        size_t n = fread(b, 1, sizeof(b) - 1, f);
        b[n]     = 0;
        rep      = b;
        fclose(f);
      }
      JParser P{ lines[(size_t)cur].data(), lines[(size_t)cur].data() + lines[(size_t)cur].size() };
      JP      sc = P.val();
      std::string id = sc->str("id");
      if (WIFSIGNALED(st) && WTERMSIG(st) == SIGALRM)
        emit("{\"id\":" + jq(id) + ",\"timeout\":true}");
      else if (WIFSIGNALED(st))
        emit("{\"id\":" + jq(id) + fmt(",\"crash\":true,\"sig\":%d,\"report\":", WTERMSIG(st)) + jq(rep) + "}");
      else
        emit("{\"id\":" + jq(id) + fmt(",\"crash\":true,\"exit\":%d,\"report\":", WEXITSTATUS(st)) + jq(rep) + "}");
      start = cur + 1;
    }
  }
  emit(fmt("{\"summary\":true,\"scenarios\":%ld,\"etc_private\":%s,\"uts_private\":%s}", total,
           sh->etc_private ? "true" : "false", sh->uts_private ? "true" : "false"));
  unlink(errpath.c_str());
  ares_library_cleanup();
  return 0;
}
