// Script executor: runs environment steps against the real library and logs
// every observable effect.
#include <arpa/inet.h>
#include <netdb.h>
#include <netinet/in.h>
#include <sys/select.h>
#include <sys/socket.h>
#include <unistd.h>

#include <algorithm>
#include <cstring>

#include "sim.h"

extern "C" {
#include "ares_verif.h"
int sim_reinit_pending(ares_channel_t *channel);
}

ares_channel_t *g_channel = nullptr;
int             g_depth   = 0;
static std::map<int, Tok *> g_toks;
static int                  g_pid      = 0;
static uint64_t             g_rng      = 88172645463325252ULL;
static bool                 g_destroyed = false;
static J                    g_cfg;

static void now_cb(long long *sec, unsigned int *usec) {
  *sec  = 1000000 + g_now_ms / 1000;
  *usec = (unsigned int)((g_now_ms % 1000) * 1000);
}
static void rand_cb(unsigned char *buf, size_t len) {
  for (size_t i = 0; i < len; i++) {
    g_rng ^= g_rng << 13; g_rng ^= g_rng >> 7; g_rng ^= g_rng << 17;
    buf[i] = (unsigned char)(g_rng >> 24);
  }
}

// counting allocator: exact ledger of library allocations per history
long g_live_allocs = 0;
long g_alloc_count = 0;   // allocations requested by the library on behalf of the application (not harness plumbing)
long g_fail_at     = 0;   // fail exactly this allocation (0 = never)
int  g_plumb       = 0;   // >0 while the harness itself uses the library for plumbing (decoding / building packets)
static bool fail_now() {
  if (g_plumb > 0) return false;
  g_alloc_count++;
  if (g_fail_at != 0 && g_alloc_count == g_fail_at) {
    ev("{\"e\":\"oom\",\"n\":%ld}", g_alloc_count);
    return true;
  }
  return false;
}
static void *c_malloc(size_t n) {
  if (fail_now()) return nullptr;
  void *p = malloc(n);
  if (p) g_live_allocs++;
  return p;
}
static void  c_free(void *p) { if (p) g_live_allocs--; free(p); }
static void *c_realloc(void *p, size_t n) {
  if (fail_now()) return nullptr;
  void *q = realloc(p, n);
  if (p == nullptr && q != nullptr) g_live_allocs++;
  return q;
}

static const char *stname(int st) {
  switch (st) {
    case ARES_SUCCESS: return "SUCCESS";
    case ARES_ENODATA: return "ENODATA";
    case ARES_EFORMERR: return "EFORMERR";
    case ARES_ESERVFAIL: return "ESERVFAIL";
    case ARES_ENOTFOUND: return "ENOTFOUND";
    case ARES_ENOTIMP: return "ENOTIMP";
    case ARES_EREFUSED: return "EREFUSED";
    case ARES_EBADQUERY: return "EBADQUERY";
    case ARES_EBADNAME: return "EBADNAME";
    case ARES_EBADFAMILY: return "EBADFAMILY";
    case ARES_EBADRESP: return "EBADRESP";
    case ARES_ECONNREFUSED: return "ECONNREFUSED";
    case ARES_ETIMEOUT: return "ETIMEOUT";
    case ARES_EOF: return "EOF";
    case ARES_EFILE: return "EFILE";
    case ARES_ENOMEM: return "ENOMEM";
    case ARES_EDESTRUCTION: return "EDESTRUCTION";
    case ARES_EBADSTR: return "EBADSTR";
    case ARES_EBADFLAGS: return "EBADFLAGS";
    case ARES_ENONAME: return "ENONAME";
    case ARES_EBADHINTS: return "EBADHINTS";
    case ARES_ENOTINITIALIZED: return "ENOTINITIALIZED";
    case ARES_ECANCELLED: return "ECANCELLED";
    case ARES_ESERVICE: return "ESERVICE";
    case ARES_ENOSERVER: return "ENOSERVER";
    default: return "OTHER";
  }
}

// ---- callbacks ------------------------------------------------------------
static void run_nest(Tok *tok, int status) {
  // documented: no call on the channel may be made from a destruction callback
  if (status == ARES_EDESTRUCTION) return;
  if (tok->nest.t == J::ARR) {
    J steps = tok->nest;  // copy: nested steps may allocate tokens
    tok->nest = J();
    for (auto &s : steps.a) exec_step(s, tok->id);
  } else if (tok->nest.t == J::OBJ) {
    J s = tok->nest;
    tok->nest = J();
    exec_step(s, tok->id);
  }
}

static void cb_begin(Tok *tok, int status, size_t timeouts, const std::string &payload) {
  tok->cbs++;
  ev("{\"e\":\"cbb\",\"t\":%d,\"st\":\"%s\",\"to\":%zu,\"n\":%d,\"dead\":%d,%s}", tok->id, stname(status), timeouts, tok->cbs,
     g_destroyed ? 1 : 0, payload.c_str());
}
static void cb_end(Tok *tok) { ev("{\"e\":\"cbe\",\"t\":%d}", tok->id); }

static void dnsrec_cb(void *arg, ares_status_t status, size_t timeouts, const ares_dns_record_t *rec) {
  Tok *tok = (Tok *)arg;
  g_plumb++;
  std::string d0 = describe_dnsrec(rec);
  g_plumb--;
  cb_begin(tok, status, timeouts, d0);
  run_nest(tok, (int)status);
  cb_end(tok);
}

static void legacy_cb(void *arg, int status, int timeouts, unsigned char *abuf, int alen) {
  Tok               *tok = (Tok *)arg;
  ares_dns_record_t *rec = nullptr;
  std::string        d   = "\"rec\":0";
  g_plumb++;
  if (abuf != nullptr && alen > 0 && ares_dns_parse(abuf, (size_t)alen, 0, &rec) == ARES_SUCCESS) {
    d = describe_dnsrec(rec);
    ares_dns_record_destroy(rec);
  } else if (abuf != nullptr) {
    d = "\"rec\":0,\"unparsable\":1";
  }
  g_plumb--;
  cb_begin(tok, status, (size_t)timeouts, d + ",\"legacy\":1");
  run_nest(tok, (int)status);
  cb_end(tok);
}

// marker carried by an address built by build_reply (192.x.y.z / 2001::x:y:z); other addresses
// (hosts file, literals, loopback) give negative codes: -(last byte) - 1000
static int addr_marker(int family, const void *addr) {
  const unsigned char *b = (const unsigned char *)addr;
  if (family == AF_INET) {
    if (b[0] == 192) return (b[1] << 16) | (b[2] << 8) | b[3];
    return -1000 - b[3];
  }
  if (b[0] == 0x20 && b[1] == 0x01 && ((b[2] == 0 && b[3] == 0) || (b[2] == 0x0d && b[3] == 0xb8 && b[4] == 0)))
    return (b[13] << 16) | (b[14] << 8) | b[15];
  return -1000 - b[15];
}

static void addrinfo_cb(void *arg, int status, int timeouts, struct ares_addrinfo *ai) {
  Tok        *tok = (Tok *)arg;
  std::string d   = "\"ai\":[";
  if (ai) {
    bool first = true;
    for (struct ares_addrinfo_node *n = ai->nodes; n; n = n->ai_next) {
      char b[160];
      int  fam  = n->ai_family;
      int  port = 0, m = 0;
      if (fam == AF_INET) {
        const struct sockaddr_in *sin = (const struct sockaddr_in *)(const void *)n->ai_addr;
        port = ntohs(sin->sin_port);
        m    = addr_marker(AF_INET, &sin->sin_addr);
      } else {
        const struct sockaddr_in6 *sin6 = (const struct sockaddr_in6 *)(const void *)n->ai_addr;
        port = ntohs(sin6->sin6_port);
        m    = addr_marker(AF_INET6, &sin6->sin6_addr);
      }
      snprintf(b, sizeof b, "%s{\"f\":%d,\"a\":%d,\"port\":%d,\"ttl\":%d}", first ? "" : ",", fam == AF_INET ? 4 : 6, m, port, n->ai_ttl);
      d += b;
      first = false;
    }
  }
  d += "],\"cn\":[";
  if (ai) {
    bool first = true;
    for (struct ares_addrinfo_cname *c = ai->cnames; c; c = c->next) {
      d += std::string(first ? "" : ",") + "{\"alias\":" + jstr(c->alias ? c->alias : "") + ",\"name\":" + jstr(c->name ? c->name : "") +
           ",\"ttl\":" + std::to_string(c->ttl) + "}";
      first = false;
    }
  }
  d += "],\"ainame\":" + jstr(ai && ai->name ? ai->name : "");
  cb_begin(tok, status, (size_t)timeouts, d);
  if (ai) ares_freeaddrinfo(ai);
  run_nest(tok, (int)status);
  cb_end(tok);
}

static void host_cb(void *arg, int status, int timeouts, struct hostent *h) {
  Tok        *tok = (Tok *)arg;
  std::string d   = "\"host\":";
  if (h) {
    d += "{\"name\":" + jstr(h->h_name ? h->h_name : "") + ",\"f\":" + std::to_string(h->h_addrtype == AF_INET ? 4 : 6) + ",\"addrs\":[";
    for (int i = 0; h->h_addr_list && h->h_addr_list[i]; i++) d += std::string(i ? "," : "") + std::to_string(addr_marker(h->h_addrtype, h->h_addr_list[i]));
    d += "],\"aliases\":[";
    for (int i = 0; h->h_aliases && h->h_aliases[i]; i++) d += std::string(i ? "," : "") + jstr(h->h_aliases[i]);
    d += "]}";
  } else {
    d += "0";
  }
  cb_begin(tok, status, (size_t)timeouts, d);
  run_nest(tok, (int)status);
  cb_end(tok);
}

static void nameinfo_cb(void *arg, int status, int timeouts, char *node, char *service) {
  Tok *tok = (Tok *)arg;
  cb_begin(tok, status, (size_t)timeouts, "\"node\":" + jstr(node ? node : "") + ",\"service\":" + jstr(service ? service : ""));
  run_nest(tok, (int)status);
  cb_end(tok);
}

static void sock_state_cb(void *, ares_socket_t fd, int r, int w) { ev("{\"e\":\"ann\",\"fd\":%d,\"r\":%d,\"w\":%d}", fd, r, w); }

static void server_state_cb(const char *server_string, ares_bool_t success, int flags, void *) {
  // server strings are "10.0.0.N:53" / "[fd00::N]:53" / dns:// forms: extract N
  int         s = 0;
  std::string str(server_string ? server_string : "");
  size_t      p = str.find("10.0.0.");
  if (p != std::string::npos) s = atoi(str.c_str() + p + 7);
  else if ((p = str.find("fd00::")) != std::string::npos) s = (int)strtol(str.c_str() + p + 6, nullptr, 16);
  ev("{\"e\":\"srv\",\"s\":%d,\"ok\":%d,\"tcp\":%d}", s, success ? 1 : 0, (flags & ARES_SERV_STATE_TCP) ? 1 : 0);
}

static void pending_write_cb(void *) { ev("{\"e\":\"pw\"}"); }

// ---- helpers ----------------------------------------------------------------
static void log_hint() {
  if (g_channel == nullptr || g_depth != 0) return;
  struct timeval tv, maxtv, *r;
  long long      maxms = g_cfg["hintmax"].num(0);
  maxtv.tv_sec  = maxms / 1000;
  maxtv.tv_usec = (maxms % 1000) * 1000;
  r = ares_timeout(g_channel, maxms ? &maxtv : nullptr, &tv);
  long long us = r ? (long long)r->tv_sec * 1000000 + r->tv_usec : -1;
  // legacy descriptor views
  fd_set rf, wf;
  FD_ZERO(&rf);
  FD_ZERO(&wf);
  int           nfds = ares_fds(g_channel, &rf, &wf);
  std::string   fr, fw, gr, gw;
  for (int fd = 0; fd < nfds; fd++) {
    if (FD_ISSET(fd, &rf)) fr += (fr.empty() ? "" : ",") + std::to_string(fd);
    if (FD_ISSET(fd, &wf)) fw += (fw.empty() ? "" : ",") + std::to_string(fd);
  }
  ares_socket_t socks[ARES_GETSOCK_MAXNUM];
  int           bits = ares_getsock(g_channel, socks, ARES_GETSOCK_MAXNUM);
  for (int i = 0; i < ARES_GETSOCK_MAXNUM; i++) {
    if (ARES_GETSOCK_READABLE(bits, i)) gr += (gr.empty() ? "" : ",") + std::to_string(socks[i]);
    if (ARES_GETSOCK_WRITABLE(bits, i)) gw += (gw.empty() ? "" : ",") + std::to_string(socks[i]);
  }
  std::string open;
  for (auto &kv : g_socks)
    if (kv.second.open) open += (open.empty() ? "" : ",") + std::to_string(kv.first);
  ev("{\"e\":\"hint\",\"now\":%lld,\"us\":%lld,\"ms\":%lld,\"max\":%lld,\"nq\":%zu,\"fdr\":[%s],\"fdw\":[%s],\"gsr\":[%s],\"gsw\":[%s],\"open\":[%s]}",
     g_now_ms, us, us < 0 ? -1 : (us + 999) / 1000, maxms, ares_queue_active_queries(g_channel), fr.c_str(), fw.c_str(), gr.c_str(),
     gw.c_str(), open.c_str());
}

static Tok *new_tok(const J &st, const char *api) {
  Tok *t  = new Tok();
  t->id   = (int)st["t"].num();
  t->nest = st["nest"];
  t->api  = api;
  g_toks[t->id] = t;
  return t;
}

static std::string lowered_nodot(std::string n) {
  for (auto &c : n) c = (char)tolower((unsigned char)c);
  if (!n.empty() && n.back() == '.') n.pop_back();
  return n;
}

static const Frame *find_frame(const J &st) {
  std::string tx = st["tx"].str("last");
  if (g_frames.empty()) return nullptr;
  if (tx == "last") return &g_frames.back();
  if (tx[0] == '#') {
    size_t k = (size_t)atoi(tx.c_str() + 1);
    return (k >= 1 && k <= g_frames.size()) ? &g_frames[k - 1] : nullptr;
  }
  if (tx.rfind("name:", 0) == 0) {
    std::string pre = tx.substr(5);
    int         nth = (int)st["nth"].num(0);  // 0 = latest; k>0 = k-th matching
    int         c   = 0;
    const Frame *found = nullptr;
    for (auto &f : g_frames) {
      std::string q = f.qname;
      for (auto &ch : q) ch = (char)tolower((unsigned char)ch);
      bool tm = !st.has("qt") || st["qt"].num() == f.qtype;
      if (q.rfind(pre, 0) == 0 && tm) {
        c++;
        if (nth && c == nth) return &f;
        // default: the latest matching transmission that has not been replied to yet, else the latest
        if (found == nullptr || f.replied == 0 || found->replied != 0) found = &f;
      }
    }
    return nth ? nullptr : found;
  }
  return nullptr;
}

static void do_process(const std::vector<int> &rfds, const std::vector<int> &wfds, const std::string &api) {
  std::string r, w;
  for (int fd : rfds) r += (r.empty() ? "" : ",") + std::to_string(fd);
  for (int fd : wfds) w += (w.empty() ? "" : ",") + std::to_string(fd);
  ev("{\"e\":\"call\",\"api\":\"process\",\"now\":%lld,\"depth\":%d,\"r\":[%s],\"w\":[%s],\"how\":\"%s\"}", g_now_ms, g_depth, r.c_str(),
     w.c_str(), api.c_str());
  g_depth++;
  if (api == "legacy") {
    fd_set rf, wf;
    FD_ZERO(&rf);
    FD_ZERO(&wf);
    for (int fd : rfds) FD_SET(fd, &rf);
    for (int fd : wfds) FD_SET(fd, &wf);
    ares_process(g_channel, &rf, &wf);
  } else if (api == "fd" && rfds.size() <= 1 && wfds.size() <= 1) {
    ares_process_fd(g_channel, rfds.empty() ? ARES_SOCKET_BAD : rfds[0], wfds.empty() ? ARES_SOCKET_BAD : wfds[0]);
  } else {
    std::vector<ares_fd_events_t> evs;
    for (int fd : rfds) { ares_fd_events_t e; e.fd = fd; e.events = ARES_FD_EVENT_READ; evs.push_back(e); }
    for (int fd : wfds) {
      bool found = false;
      for (auto &e : evs) if (e.fd == fd) { e.events |= ARES_FD_EVENT_WRITE; found = true; }
      if (!found) { ares_fd_events_t e; e.fd = fd; e.events = ARES_FD_EVENT_WRITE; evs.push_back(e); }
    }
    ares_process_fds(g_channel, evs.empty() ? nullptr : evs.data(), evs.size(),
                     api == "fdonly" ? ARES_PROCESS_FLAG_SKIP_NON_FD : ARES_PROCESS_FLAG_NONE);
  }
  g_depth--;
  ev("{\"e\":\"ret\",\"api\":\"process\",\"depth\":%d}", g_depth);
}

static std::vector<int> fdlist(const J &j, bool readable) {
  std::vector<int> v;
  if (j.t == J::ARR) {
    for (auto &x : j.a) v.push_back((int)x.num());
  } else if (j.str("none") == "all") {
    for (auto &kv : g_socks) {
      const VSock &s = kv.second;
      if (!s.open) continue;
      if (readable) {
        if (!s.inq.empty() || !s.instream.empty() || s.peer_closed) v.push_back(s.fd);
      } else if (s.tcp) {
        v.push_back(s.fd);
      }
    }
  }
  return v;
}

// ---- step execution -----------------------------------------------------------
void exec_step(const J &st, int incb) {
  std::string op = st["op"].str();
  if (g_channel == nullptr && op != "noop") return;  // destroyed: nothing else is legal
  ares_dns_rec_type_t qt = (ares_dns_rec_type_t)st["qt"].num(ARES_REC_TYPE_A);
  ares_dns_class_t    qc = (ares_dns_class_t)st["qc"].num(ARES_CLASS_IN);
  std::string         name = st["name"].str();

  if (op == "query" || op == "send" || op == "search" || op == "lquery" || op == "lsearch" || op == "lsend") {
    Tok *tok = new_tok(st, op.c_str());
    std::string kname = name;
    for (auto &c : kname) c = (char)tolower((unsigned char)c);
    if (!kname.empty() && kname.back() == '.') kname.pop_back();
    int dots = 0;
    for (char c : name) if (c == '.') dots++;
    ev("{\"e\":\"call\",\"api\":\"%s\",\"t\":%d,\"dots\":%d,\"enddot\":%d,\"wname\":%s,\"name\":%s,\"kname\":%s,\"qt\":%d,\"qc\":%d,\"rd\":%d,\"cd\":%d,\"now\":%lld,\"depth\":%d,\"incb\":%d}", op.c_str(), tok->id,
       dots, (!name.empty() && name.back() == '.') ? 1 : 0, jstr((!name.empty() && name.back() == '.') ? name.substr(0, name.size() - 1) : name).c_str(), jstr(name).c_str(), jstr(kname).c_str(), (int)qt, (int)qc, (int)(st["nord"].num() ? 0 : 1), (int)(st["cd"].num() ? 1 : 0), g_now_ms, g_depth, incb);
    g_depth++;
    int rc = -1;
    unsigned short qid = 0;
    if (op == "query") {
      rc = ares_query_dnsrec(g_channel, name.c_str(), qc, qt, dnsrec_cb, tok, &qid);
    } else if (op == "lquery") {
      ares_query(g_channel, name.c_str(), (int)qc, (int)qt, legacy_cb, tok);
    } else if (op == "lsearch") {
      ares_search(g_channel, name.c_str(), ARES_CLASS_IN, (int)qt, legacy_cb, tok);
    } else {
      ares_dns_record_t *rec = nullptr;
      unsigned short     fl  = st["nord"].num() ? 0 : ARES_FLAG_RD;
      if (st["cd"].num()) fl |= ARES_FLAG_CD;
      ares_status_t s = ares_dns_record_create_query(&rec, name.c_str(), qc, qt, 0, (ares_dns_flags_t)fl,
                                                     g_cfg["edns"].num(0) ? (size_t)g_cfg["ednspsz"].num(1232) : 0);
      if (s != ARES_SUCCESS) {
        rc = (int)s;
        tok->cbs = -1;  // rejected before acceptance
        ev("{\"e\":\"rejected\",\"t\":%d,\"st\":\"%s\"}", tok->id, stname(s));
      } else {
        if (op == "send") rc = ares_send_dnsrec(g_channel, rec, dnsrec_cb, tok, &qid);
        else if (op == "search") rc = ares_search_dnsrec(g_channel, rec, dnsrec_cb, tok);
        else {  // lsend: serialise and use the legacy byte API
          unsigned char *buf = nullptr;
          size_t         len = 0;
          ares_dns_write(rec, &buf, &len);
          ares_send(g_channel, buf, (int)len, legacy_cb, tok);
          ares_free_string(buf);
        }
        ares_dns_record_destroy(rec);
      }
    }
    g_depth--;
    ev("{\"e\":\"ret\",\"api\":\"%s\",\"t\":%d,\"rc\":\"%s\",\"qid\":%d,\"depth\":%d}", op.c_str(), tok->id, rc < 0 ? "VOID" : stname(rc),
       (int)qid, g_depth);
  } else if (op == "gai") {
    Tok *tok = new_tok(st, "gai");
    int litcode = 0;  // address literal given as the node name: its marker code, else 0
    {
      unsigned char ab[16];
      if (inet_pton(AF_INET, name.c_str(), ab) == 1) litcode = addr_marker(AF_INET, ab);
      else if (inet_pton(AF_INET6, name.c_str(), ab) == 1) litcode = addr_marker(AF_INET6, ab);
    }
    struct ares_addrinfo_hints hints;
    memset(&hints, 0, sizeof hints);
    int fam = (int)st["family"].num(0);
    hints.ai_family   = fam == 4 ? AF_INET : (fam == 6 ? AF_INET6 : AF_UNSPEC);
    hints.ai_flags    = (int)st["flags"].num(g_cfg["gaiflags"].num(ARES_AI_NOSORT));
    hints.ai_socktype = SOCK_STREAM;
    std::string service = st["service"].str("");
    int dots = 0;
    for (char c : name) if (c == '.') dots++;
    ev("{\"e\":\"call\",\"api\":\"gai\",\"t\":%d,\"lit\":%d,\"dots\":%d,\"enddot\":%d,\"kname\":%s,\"wname\":%s,\"name\":%s,\"family\":%d,\"flags\":%d,\"service\":%s,\"port\":%d,\"now\":%lld,\"depth\":%d,\"incb\":%d}",
       tok->id, litcode, dots, (!name.empty() && name.back() == '.') ? 1 : 0, jstr(lowered_nodot(name)).c_str(), jstr((!name.empty() && name.back() == '.') ? name.substr(0, name.size() - 1) : name).c_str(), jstr(name).c_str(), fam, hints.ai_flags, jstr(service).c_str(), atoi(service.c_str()), g_now_ms, g_depth, incb);
    g_depth++;
    ares_getaddrinfo(g_channel, name.c_str(), service.empty() ? nullptr : service.c_str(), &hints, addrinfo_cb, tok);
    g_depth--;
    ev("{\"e\":\"ret\",\"api\":\"gai\",\"t\":%d,\"rc\":\"VOID\",\"depth\":%d}", tok->id, g_depth);
  } else if (op == "ghbn") {
    Tok *tok = new_tok(st, "ghbn");
    int  fam = (int)st["family"].num(4);
    int dots = 0;
    for (char c : name) if (c == '.') dots++;
    ev("{\"e\":\"call\",\"api\":\"ghbn\",\"t\":%d,\"dots\":%d,\"enddot\":%d,\"kname\":%s,\"wname\":%s,\"name\":%s,\"family\":%d,\"now\":%lld,\"depth\":%d,\"incb\":%d}", tok->id,
       dots, (!name.empty() && name.back() == '.') ? 1 : 0, jstr(lowered_nodot(name)).c_str(), jstr((!name.empty() && name.back() == '.') ? name.substr(0, name.size() - 1) : name).c_str(), jstr(name).c_str(), fam, g_now_ms, g_depth, incb);
    g_depth++;
    ares_gethostbyname(g_channel, name.c_str(), fam == 4 ? AF_INET : (fam == 6 ? AF_INET6 : AF_UNSPEC), host_cb, tok);
    g_depth--;
    ev("{\"e\":\"ret\",\"api\":\"ghbn\",\"t\":%d,\"rc\":\"VOID\",\"depth\":%d}", tok->id, g_depth);
  } else if (op == "ghba" || op == "gni") {
    Tok *tok = new_tok(st, op.c_str());
    int  fam = (int)st["family"].num(4);
    int  a   = (int)st["addr"].num(1);
    int  lng = (int)st["long"].num(0);   // IPv6 only: an address whose text form is long (2001:db8:1111:2222:3333:4444:5555:<a>)
    ev("{\"e\":\"call\",\"api\":\"%s\",\"t\":%d,\"addr\":%d,\"family\":%d,\"long\":%d,\"now\":%lld,\"depth\":%d,\"incb\":%d}", op.c_str(), tok->id, a,
       fam, lng, g_now_ms, g_depth, incb);
    g_depth++;
    if (fam == 4) {
      struct sockaddr_in sin;
      memset(&sin, 0, sizeof sin);
      sin.sin_family   = AF_INET;
      sin.sin_port     = htons((unsigned short)st["port"].num(0));
      unsigned char *b = (unsigned char *)&sin.sin_addr;
      b[0] = 10; b[1] = 1; b[2] = (unsigned char)(a >> 8); b[3] = (unsigned char)a;
      if (op == "ghba") ares_gethostbyaddr(g_channel, &sin.sin_addr, sizeof sin.sin_addr, AF_INET, host_cb, tok);
      else ares_getnameinfo(g_channel, (struct sockaddr *)&sin, sizeof sin, (int)st["flags"].num(ARES_NI_LOOKUPHOST), nameinfo_cb, tok);
    } else {
      struct sockaddr_in6 sin6;
      memset(&sin6, 0, sizeof sin6);
      sin6.sin6_family = AF_INET6;
      sin6.sin6_port   = htons((unsigned short)st["port"].num(0));
      unsigned char *b = (unsigned char *)&sin6.sin6_addr;
      b[0] = 0x20; b[1] = 0x01; b[14] = (unsigned char)(a >> 8); b[15] = (unsigned char)a;
      if (lng) {
        static const unsigned char mid[12] = {0x0d, 0xb8, 0x11, 0x11, 0x22, 0x22, 0x33, 0x33, 0x44, 0x44, 0x55, 0x55};
        // long == 2: every hexadecimal digit occurs (2001:db8:9abc:def0:1234:5678:fedc:<a>)
        static const unsigned char hexmid[12] = {0x0d, 0xb8, 0x9a, 0xbc, 0xde, 0xf0, 0x12, 0x34, 0x56, 0x78, 0xfe, 0xdc};
        memcpy(b + 2, lng == 2 ? hexmid : mid, 12);
      }
      if (op == "ghba") ares_gethostbyaddr(g_channel, &sin6.sin6_addr, sizeof sin6.sin6_addr, AF_INET6, host_cb, tok);
      else ares_getnameinfo(g_channel, (struct sockaddr *)&sin6, sizeof sin6, (int)st["flags"].num(ARES_NI_LOOKUPHOST), nameinfo_cb, tok);
    }
    g_depth--;
    ev("{\"e\":\"ret\",\"api\":\"%s\",\"t\":%d,\"rc\":\"VOID\",\"depth\":%d}", op.c_str(), tok->id, g_depth);
  } else if (op == "cancel") {
    ev("{\"e\":\"call\",\"api\":\"cancel\",\"now\":%lld,\"depth\":%d,\"incb\":%d}", g_now_ms, g_depth, incb);
    g_depth++;
    ares_cancel(g_channel);
    g_depth--;
    ev("{\"e\":\"ret\",\"api\":\"cancel\",\"depth\":%d}", g_depth);
  } else if (op == "destroy") {
    if (incb != 0) return;  // documented as illegal from a callback: never generated
    ev("{\"e\":\"call\",\"api\":\"destroy\",\"now\":%lld,\"depth\":%d,\"incb\":0}", g_now_ms, g_depth);
    g_depth++;
    ares_channel_t *ch = g_channel;
    ares_destroy(ch);
    g_channel   = nullptr;
    g_destroyed = true;
    g_depth--;
    std::string open;
    for (auto &kv : g_socks)
      if (kv.second.open) open += (open.empty() ? "" : ",") + std::to_string(kv.first);
    ev("{\"e\":\"ret\",\"api\":\"destroy\",\"depth\":%d,\"open\":[%s]}", g_depth, open.c_str());
    return;
  } else if (op == "process") {
    do_process(fdlist(st["r"], true), fdlist(st["w"], false), st["how"].str("fds"));
  } else if (op == "pendwrite") {
    ev("{\"e\":\"call\",\"api\":\"pendwrite\",\"now\":%lld,\"depth\":%d,\"incb\":%d}", g_now_ms, g_depth, incb);
    g_depth++;
    ares_process_pending_write(g_channel);
    g_depth--;
    ev("{\"e\":\"ret\",\"api\":\"pendwrite\",\"depth\":%d}", g_depth);
  } else if (op == "adv") {
    if (incb != 0) return;
    long long ms = st["ms"].num(0);
    if (st["to"].str() == "deadline") {
      struct timeval tv, *r = ares_timeout(g_channel, nullptr, &tv);
      ms = r ? ((long long)r->tv_sec * 1000000 + r->tv_usec + 999) / 1000 : 0;
      ms += st["plus"].num(0);
      if (ms < 0) ms = 0;
    }
    g_now_ms += ms;
    ev("{\"e\":\"adv\",\"ms\":%lld,\"now\":%lld}", ms, g_now_ms);
    return;
  } else if (op == "reply") {
    const Frame *f = find_frame(st);
    if (f == nullptr) return;
    const_cast<Frame *>(f)->replied++;
    int on = (int)st["on"].num(f->fd);
    auto it = g_socks.find(on);
    if (it == g_socks.end() || !it->second.open) return;
    VSock &s = it->second;
    int    copies = (int)st["copies"].num(1);
    for (int c = 0; c < copies; c++) {
      Packet p;
      p.pid       = ++g_pid;
      p.wrongaddr = st["wrongaddr"].num() != 0;
      g_plumb++;
      p.bytes     = build_reply(*f, st, p.pid, p.desc);
      g_plumb--;
      if (s.tcp) {
        std::string fr;
        fr += (char)(p.bytes.size() >> 8);
        fr += (char)(p.bytes.size() & 255);
        fr += p.bytes;
        s.instream += fr;
        ev("{\"e\":\"env\",\"op\":\"stream\",\"fd\":%d,\"pid\":%d,\"slen\":%zu,%s}", on, p.pid, fr.size(), p.desc.c_str());
      } else {
        s.inq.push_back(p);
      }
    }
    if (st["chunks"].t == J::ARR)
      for (auto &x : st["chunks"].a) s.chunks.push_back((int)x.num());
    if (st["deliver"].num(1) && incb == 0) do_process({on}, {}, st["how"].str("fds"));
  } else if (op == "peerclose") {
    int fd = (int)st["fd"].num(0);
    if (fd == 0 && !g_frames.empty()) fd = g_frames.back().fd;
    auto it = g_socks.find(fd);
    if (it == g_socks.end() || !it->second.open || !it->second.tcp) return;
    it->second.peer_closed = true;
    ev("{\"e\":\"env\",\"op\":\"peerclose\",\"fd\":%d}", fd);
    if (st["deliver"].num(1) && incb == 0) do_process({fd}, {}, "fds");
  } else if (op == "failnext") {
    g_failnext[st["what"].str()] = (int)st["errno"].num(ECONNREFUSED);
    return;
  } else if (op == "wscript") {  // write acceptance script for the (tcp) socket of the latest frame / given fd
    int fd = (int)st["fd"].num(0);
    bool udp = st["udp"].num() != 0;
    if (udp && st["default"].num()) {  // script for UDP sockets opened from now on
      g_wscript_default_udp.clear();
      for (auto &x : st["script"].a) g_wscript_default_udp.push_back((int)x.num());
      return;
    }
    if (fd == 0) {  // latest open tcp (or udp) socket
      for (auto &kv : g_socks) if (kv.second.open && kv.second.tcp == !udp) fd = kv.first;
    }
    auto it = g_socks.find(fd);
    if (it == g_socks.end() || st["default"].num()) {
      g_wscript_default.clear();
      for (auto &x : st["script"].a) g_wscript_default.push_back((int)x.num());
      return;
    }
    for (auto &x : st["script"].a) it->second.wscript.push_back((int)x.num());
    return;
  } else if (op == "splitat") {  // first read of the latest open TCP socket returns at most `at` bytes
    for (auto it = g_socks.rbegin(); it != g_socks.rend(); ++it)
      if (it->second.open && it->second.tcp) { it->second.chunks.push_back((int)st["at"].num(1)); break; }
    return;
  } else if (op == "chunking") {
    g_chunk = (int)st["size"].num(0);
    return;
  } else if (op == "drain") {
    // keep reporting readable/writable sockets until a round causes no socket I/O (bounded)
    for (int i = 0; i < (int)st["max"].num(300); i++) {
      long before = g_io_events;
      std::vector<int> r = fdlist(J(), true), w;
      J all; all.t = J::STR; all.s = "all";
      r = fdlist(all, true);
      w = fdlist(all, false);
      if (r.empty() && w.empty()) break;
      do_process(r, w, "fds");
      bool pending = false;
      for (auto &kv : g_socks) if (kv.second.open && (!kv.second.instream.empty() || !kv.second.inq.empty())) pending = true;
      if (g_io_events == before || (!pending && i > 2 && g_io_events - before <= (long)r.size())) break;
    }
  } else if (op == "srcip") {
    g_srcip = (int)st["ip"].num(1);
    return;
  } else if (op == "setservers") {
    std::string csv = st["csv"].str();
    std::string lst;  // server numbers N of the 10.0.0.N / [fd00::N] entries, in order
    for (size_t p = 0; p < csv.size();) {
      size_t a = csv.find("10.0.0.", p), b = csv.find("fd00::", p);
      size_t x = std::min(a, b);
      if (x == std::string::npos) break;
      int n = (x == a) ? atoi(csv.c_str() + x + 7) : (int)strtol(csv.c_str() + x + 6, nullptr, 16);
      lst += (lst.empty() ? "" : ",") + std::to_string(n);
      p = x + 6;
    }
    ev("{\"e\":\"call\",\"api\":\"setservers\",\"csv\":%s,\"list\":[%s],\"now\":%lld,\"depth\":%d,\"incb\":%d}", jstr(csv).c_str(),
       lst.c_str(), g_now_ms, g_depth, incb);
    g_depth++;
    int rc = ares_set_servers_csv(g_channel, csv.c_str());
    g_depth--;
    ev("{\"e\":\"ret\",\"api\":\"setservers\",\"rc\":\"%s\",\"depth\":%d}", stname(rc), g_depth);
  } else if (op == "reinit") {
    ev("{\"e\":\"call\",\"api\":\"reinit\",\"now\":%lld,\"depth\":%d,\"incb\":%d}", g_now_ms, g_depth, incb);
    g_depth++;
    int rc = ares_reinit(g_channel);
    // ares_reinit() reloads in a background thread: wait until it is done so that the history stays sequential
    for (int i = 0; i < 5000 && sim_reinit_pending(g_channel); i++) usleep(1000);
    g_depth--;
    ev("{\"e\":\"ret\",\"api\":\"reinit\",\"rc\":\"%s\",\"depth\":%d}", stname(rc), g_depth);
  } else {
    return;
  }
  log_hint();
}

static std::string servers_csv(int n, bool v6) {
  std::string s;
  for (int i = 1; i <= n; i++) {
    if (i > 1) s += ",";
    s += v6 ? ("[fd00::" + std::to_string(i) + "]") : ("10.0.0." + std::to_string(i));
  }
  return s;
}

void run_history(const J &hist) {
  g_cfg = hist["cfg"];
  if (g_cfg.t != J::OBJ) g_cfg.t = J::OBJ;
  g_now_ms    = 0;
  g_depth     = 0;
  g_pid       = 0;
  g_destroyed = false;
  g_rng       = 88172645463325252ULL ^ ((uint64_t)g_cfg["seed"].num(1) * 0x9E3779B97F4A7C15ULL);
  if (g_rng == 0) g_rng = 1;
  vsock_reset();
  g_toks.clear();
  ares_verif_now_cb  = now_cb;
  ares_verif_rand_cb = rand_cb;
  g_tfo_ok           = g_cfg["tfo"].num(0) != 0;

  g_live_allocs = 0;
  g_alloc_count = 0;
  g_plumb       = 0;
  g_fail_at     = g_cfg["failalloc"].num(0);
  ares_library_init_mem(ARES_LIB_INIT_ALL, c_malloc, c_free, c_realloc);
  struct ares_options opts;
  memset(&opts, 0, sizeof opts);
  int optmask = 0;
  int flags   = 0;
  if (g_cfg["usevc"].num()) flags |= ARES_FLAG_USEVC;
  if (g_cfg["igntc"].num()) flags |= ARES_FLAG_IGNTC;
  if (g_cfg["nocheckresp"].num()) flags |= ARES_FLAG_NOCHECKRESP;
  if (g_cfg["edns"].num()) flags |= ARES_FLAG_EDNS;
  if (g_cfg["dns0x20"].num()) flags |= ARES_FLAG_DNS0x20;
  if (g_cfg["stayopen"].num()) flags |= ARES_FLAG_STAYOPEN;
  if (g_cfg["nosearch"].num()) flags |= ARES_FLAG_NOSEARCH;
  if (g_cfg["noaliases"].num(1)) flags |= ARES_FLAG_NOALIASES;
  if (g_cfg["primary"].num()) flags |= ARES_FLAG_PRIMARY;
  opts.flags = flags; optmask |= ARES_OPT_FLAGS;
  opts.timeout = (int)g_cfg["timeout"].num(2000); optmask |= ARES_OPT_TIMEOUTMS;
  opts.tries = (int)g_cfg["tries"].num(3); optmask |= ARES_OPT_TRIES;
  bool viafile = g_cfg["viafile"].num() != 0;   // ndots and the search list come from a resolv.conf, not from options
  opts.ndots = (int)g_cfg["ndots"].num(1);
  if (!viafile) optmask |= ARES_OPT_NDOTS;
  if (g_cfg.has("maxtimeout")) { opts.maxtimeout = (int)g_cfg["maxtimeout"].num(); optmask |= ARES_OPT_MAXTIMEOUTMS; }
  if (g_cfg.has("udpmax")) { opts.udp_max_queries = (int)g_cfg["udpmax"].num(); optmask |= ARES_OPT_UDP_MAX_QUERIES; }
  opts.qcache_max_ttl = (unsigned int)g_cfg["qcache"].num(0); optmask |= ARES_OPT_QUERY_CACHE;
  if (g_cfg["qcachemax"].num()) opts.qcache_max_ttl = 0xFFFFFFFFu;   // the largest configurable lifetime
  if (g_cfg["rotate"].num()) optmask |= ARES_OPT_ROTATE; else optmask |= ARES_OPT_NOROTATE;
  opts.ednspsz = (int)g_cfg["ednspsz"].num(1232); optmask |= ARES_OPT_EDNSPSZ;
  std::vector<char *> doms;
  std::vector<std::string> domstore;
  for (auto &d : g_cfg["domains"].a) domstore.push_back(d.str());
  for (auto &d : domstore) doms.push_back((char *)d.c_str());
  opts.domains = doms.empty() ? nullptr : doms.data();
  opts.ndomains = (int)doms.size();
  if (!viafile) optmask |= ARES_OPT_DOMAINS;
  std::string lookups = g_cfg["lookups"].str("b");
  opts.lookups = (char *)lookups.c_str(); optmask |= ARES_OPT_LOOKUPS;
  std::string resolv = g_cfg["resolvconf"].str("/dev/null");
  if (viafile) {
    const char *td = getenv("VERIF_TMP");
    resolv = std::string(td ? td : "/tmp") + "/sim_resolv." + std::to_string((long)getpid()) + ".conf";
    FILE *rf = fopen(resolv.c_str(), "w");
    if (rf) {
      if (!domstore.empty()) {
        fprintf(rf, "search");
        for (auto &d : domstore) fprintf(rf, " %s", d.c_str());
        fprintf(rf, "\n");
      }
      fprintf(rf, "options ndots:%d\n", opts.ndots);
      fclose(rf);
    }
  }
  opts.resolvconf_path = (char *)resolv.c_str(); optmask |= ARES_OPT_RESOLVCONF;
  // environment part of resolv.conf(5): LOCALDOMAIN / RES_OPTIONS (only consulted when the configuration is read from files)
  if (g_cfg.has("localdomain")) setenv("LOCALDOMAIN", g_cfg["localdomain"].str().c_str(), 1); else unsetenv("LOCALDOMAIN");
  if (g_cfg.has("resoptions")) setenv("RES_OPTIONS", g_cfg["resoptions"].str().c_str(), 1); else unsetenv("RES_OPTIONS");
  std::string hosts = g_cfg["hosts"].str("/dev/null");
  std::string aliases_tmp;
  if (g_cfg["hostaliases"].num()) {  // fixed HOSTALIASES database (mirrored by AliasDb in Search.tla)
    const char *td = getenv("VERIF_TMP");
    aliases_tmp = std::string(td ? td : "/tmp") + "/sim_aliases." + std::to_string((long)getpid());
    FILE *af = fopen(aliases_tmp.c_str(), "w");
    if (af) {
      fputs("other   x.y.test\nn1      n1alias.target.test\nN2 n2up.target.test\nbad\n", af);
      fclose(af);
    }
    setenv("HOSTALIASES", aliases_tmp.c_str(), 1);
  } else {
    unsetenv("HOSTALIASES");
  }
  if (g_cfg["hostsfile"].num()) {  // fixed hosts database (mirrored by HostsDb in Lookup.tla)
    const char *td = getenv("VERIF_TMP");
    hosts = std::string(td ? td : "/tmp") + "/sim_hosts." + std::to_string((long)getpid());
    FILE *hf = fopen(hosts.c_str(), "w");
    if (hf) {
      fputs("10.1.2.3 h1.test\n10.1.2.4 h1.test\nfd00::7 h1.test\n10.1.2.5 h2.test alias2.test\n"
            "2001:db8:1111:2222:3333:4444:5555:7 long6.test\n2001::6 short6.test\n"
            "10.1.2.6 v4only.localhost\nfd00::8 v6only.localhost\n", hf);
      fclose(hf);
    }
  }
  opts.hosts_path = (char *)hosts.c_str(); optmask |= ARES_OPT_HOSTS_FILE;
  if (g_cfg.has("retrychance") || g_cfg.has("retrydelay")) {
    opts.server_failover_opts.retry_chance = (unsigned short)g_cfg["retrychance"].num(10);
    opts.server_failover_opts.retry_delay  = (size_t)g_cfg["retrydelay"].num(5000);
    optmask |= ARES_OPT_SERVER_FAILOVER;
  }
  opts.sock_state_cb = sock_state_cb; optmask |= ARES_OPT_SOCK_STATE_CB;
  int rc = ares_init_options(&g_channel, &opts, optmask);
  std::string resolv_tmp = viafile ? resolv : "";   // kept until the end of the history: ares_reinit() reads it again
  std::string hosts_tmp = g_cfg["hostsfile"].num() ? hosts : "";
  if (rc != ARES_SUCCESS) {
    ev("{\"e\":\"initfail\",\"rc\":\"%s\"}", stname(rc));
    if (!resolv_tmp.empty()) unlink(resolv_tmp.c_str());
    g_channel = nullptr;
    ares_library_cleanup();
    ev("{\"e\":\"end\",\"nocb\":[],\"frames\":0,\"leaked\":%ld,\"allocs\":%ld}", g_live_allocs, g_alloc_count);
    return;
  }
  vsock_install(g_channel);
  g_nservers = (int)g_cfg["nsrv"].num(1);
  int src = g_cfg.has("servers") ? ares_set_servers_csv(g_channel, g_cfg["servers"].str().c_str())
                                 : ares_set_servers_csv(g_channel, servers_csv(g_nservers, g_cfg["v6"].num() != 0).c_str());
  if (src != ARES_SUCCESS) {  // set-up itself failed (allocation failure injection): treated like a failed initialisation
    ev("{\"e\":\"initfail\",\"rc\":\"%s\"}", stname(src));
    if (!resolv_tmp.empty()) unlink(resolv_tmp.c_str());
    ares_destroy(g_channel);
    g_channel = nullptr;
    ares_library_cleanup();
    ev("{\"e\":\"end\",\"nocb\":[],\"frames\":0,\"leaked\":%ld,\"allocs\":%ld}", g_live_allocs, g_alloc_count);
    return;
  }
  g_v6src_global = g_cfg["v6srcglobal"].num() != 0;
  if (g_cfg["localip"].num()) {  // a configured source address: every new socket is bound to it
    ares_set_local_ip4(g_channel, 0x0a090001u);
    unsigned char ip6[16] = {0xfd, 9, 0, 0, 0, 0, 0, 0, 0, 0, 0, 0, 0, 0, 0, 1};
    ares_set_local_ip6(g_channel, ip6);
  }
  if (g_cfg["localdev"].num()) ares_set_local_dev(g_channel, "lo");
  ares_set_server_state_callback(g_channel, server_state_cb, nullptr);
  if (g_cfg["pendwrite"].num()) ares_set_pending_write_cb(g_channel, pending_write_cb, nullptr);
  if (g_cfg.has("sortlist")) ares_set_sortlist(g_channel, g_cfg["sortlist"].str().c_str());
  std::string ldj;   // LOCALDOMAIN as a list of words
  {
    std::string v = g_cfg["localdomain"].str(""), w;
    for (size_t i = 0; i <= v.size(); i++) {
      if (i == v.size() || v[i] == ' ' || v[i] == ',') {
        if (!w.empty()) ldj += (ldj.empty() ? "" : ",") + jstr(w);
        w.clear();
      } else w += v[i];
    }
  }
  int resndots = -1;  // RES_OPTIONS "ndots:n"
  {
    std::string v = g_cfg["resoptions"].str("");
    size_t      p = v.find("ndots:");
    if (p != std::string::npos) resndots = atoi(v.c_str() + p + 6);
  }
  std::string domj;
  for (auto &d : domstore) domj += (domj.empty() ? "" : ",") + jstr(d);
  ev("{\"e\":\"init\",\"nsrv\":%d,\"tries\":%d,\"timeout\":%d,\"maxtimeout\":%lld,\"rotate\":%lld,\"udpmax\":%lld,\"usevc\":%lld,\"igntc\":%lld,"
     "\"nocheckresp\":%lld,\"edns\":%lld,\"dns0x20\":%lld,\"stayopen\":%lld,\"nosearch\":%lld,\"noaliases\":%lld,\"qcache\":%lld,\"ndots\":%d,"
     "\"domains\":[%s],\"lookups\":%s,\"retrychance\":%lld,\"retrydelay\":%lld,\"pendwrite\":%lld,\"tfo\":%lld,\"hintmax\":%lld,\"hostsfile\":%lld,\"usefile\":%d,\"hostaliases\":%lld,"
     "\"viafile\":%d,\"localdomain\":[%s],\"resndots\":%d}",
     g_nservers, opts.tries, opts.timeout, g_cfg["maxtimeout"].num(0), g_cfg["rotate"].num(0), g_cfg["udpmax"].num(0), g_cfg["usevc"].num(0),
     g_cfg["igntc"].num(0), g_cfg["nocheckresp"].num(0), g_cfg["edns"].num(0), g_cfg["dns0x20"].num(0), g_cfg["stayopen"].num(0),
     g_cfg["nosearch"].num(0), g_cfg["noaliases"].num(1), (long long)(opts.qcache_max_ttl >= (1u << 30) ? (1LL << 30) : (long long)opts.qcache_max_ttl), opts.ndots, domj.c_str(), jstr(lookups).c_str(),
     g_cfg["retrychance"].num(10), g_cfg["retrydelay"].num(5000), g_cfg["pendwrite"].num(0), g_cfg["tfo"].num(0), g_cfg["hintmax"].num(0), g_cfg["hostsfile"].num(0),
     lookups.find('f') != std::string::npos ? 1 : 0, g_cfg["hostaliases"].num(0), viafile ? 1 : 0, ldj.c_str(), resndots);

  for (auto &st : hist["steps"].a) exec_step(st, 0);
  if (g_channel != nullptr) {
    J d;
    d.t = J::OBJ;
    J o; o.t = J::STR; o.s = "destroy";
    d.o["op"] = o;
    exec_step(d, 0);
  }
  ares_library_cleanup();
  if (!hosts_tmp.empty()) unlink(hosts_tmp.c_str());
  if (!resolv_tmp.empty()) unlink(resolv_tmp.c_str());
  if (!aliases_tmp.empty()) { unlink(aliases_tmp.c_str()); unsetenv("HOSTALIASES"); }
  ares_verif_now_cb  = nullptr;
  ares_verif_rand_cb = nullptr;
  std::string pend;
  for (auto &kv : g_toks) {
    if (kv.second->cbs == 0) pend += (pend.empty() ? "" : ",") + std::to_string(kv.first);
    delete kv.second;
  }
  g_toks.clear();
  ev("{\"e\":\"end\",\"nocb\":[%s],\"frames\":%zu,\"leaked\":%ld,\"allocs\":%ld}", pend.c_str(), g_frames.size(), g_live_allocs, g_alloc_count);
}
