/* Access to one private channel field for the harness: is a background reinit still pending? */
#include "ares_private.h"

int sim_reinit_pending(ares_channel_t *channel)
{
  int p;
  ares_channel_lock(channel);
  p = channel->reinit_pending ? 1 : 0;
  ares_channel_unlock(channel);
  return p;
}
