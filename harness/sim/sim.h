// cares_sim: engine simulator harness.  Drives the real c-ares library through
// virtual sockets / virtual time and records every observable effect as ndjson.
#pragma once
#include <cstdarg>
#include <cstdint>
#include <cstdio>
#include <deque>
#include <map>
#include <set>
#include <string>
#include <vector>

#include "vjson.h"

extern "C" {
#include "ares.h"
#include "ares_dns_record.h"
/* internal helper (src/lib/record/ares_dns_private.h) */
ares_status_t ares_dns_record_create_query(ares_dns_record_t **dnsrec, const char *name, ares_dns_class_t dnsclass,
                                           ares_dns_rec_type_t type, unsigned short id, ares_dns_flags_t flags,
                                           size_t max_udp_size);
}

using vj::J;

// ---- logging ------------------------------------------------------------
void        ev(const char *fmt, ...) __attribute__((format(printf, 1, 2)));
extern FILE *g_trace;
extern long long g_now_ms;  // virtual ms since history start
std::string  jstr(const std::string &s);  // quoted+escaped JSON string

// ---- virtual network ------------------------------------------------------
struct Frame {  // a DNS message the library transmitted
  int         seq = 0;  // global transmission number (1-based)
  int         fd = 0, srv = -1;
  bool        tcp = false;
  long long   at = 0;
  bool        parsed = false;
  int         qid = 0, qtype = 0, qclass = 0;
  std::string qname;
  bool        edns = false;
  int         rd = 0, cd = 0;
  std::string cookie;  // raw cookie option bytes (client 8 + server 0..32)
  std::string bytes;
  size_t      mlen = 0;     // length of the message when written again (what one message of this content occupies)
  int         replied = 0;  // number of replies the environment built from this frame
};

struct Packet {  // something the environment queued for the library to read
  int         pid = 0;
  std::string bytes;
  bool        wrongaddr = false;
  std::string desc;  // JSON fields describing the packet (logged on recv)
};

struct VSock {
  int  fd = 0;
  bool tcp = false, open = true, connected = false, tfo = false;
  int  family = 0;
  int  srv = -1;
  std::deque<Packet> inq;          // UDP datagrams waiting
  std::string        instream;     // TCP bytes waiting
  std::deque<int>    chunks;       // TCP read chunk sizes (empty = everything)
  std::deque<std::string> instream_desc;  // descriptions of queued stream packets
  bool               peer_closed = false;
  std::string        outstream;    // TCP bytes accepted from the library
  size_t             outparsed = 0;
  std::deque<int>    wscript;      // write acceptance script: n>0 bytes, -1 would-block, -2 error
  int                nsend = 0;
};

extern std::map<int, VSock> g_socks;
extern std::vector<Frame>   g_frames;
extern std::map<std::string, int> g_failnext;  // op -> errno (one shot)
extern int  g_srcip;     // last octet of the local address reported by getsockname
extern bool g_tfo_ok;    // setsockopt(TFO) succeeds
extern int  g_chunk;     // default TCP read chunk size (0 = everything)
extern std::vector<int> g_wscript_default;  // write acceptance script given to every new TCP socket
extern std::vector<int> g_wscript_default_udp;
extern bool g_v6src_global;
extern long g_io_events; // number of send/recv calls so far
extern int  g_nservers;
void vsock_install(ares_channel_t *ch);
void vsock_reset();
int  token_of_name(const std::string &lowercase_name);

// ---- replies --------------------------------------------------------------
bool decode_frame(const std::string &bytes, Frame &f);
// Build a reply to transmission f according to step (kind + modifiers); returns bytes and a JSON
// description (without braces) of what the packet says.
std::string build_reply(const Frame &f, const J &step, int pid, std::string &desc);
std::string describe_dnsrec(const ares_dns_record_t *rec);

// ---- executor -------------------------------------------------------------
struct Tok {
  int id = 0;
  int cbs = 0;
  J   nest;  // step(s) to run inside the callback
  std::string api;
};
extern ares_channel_t *g_channel;
extern int             g_depth;
void run_history(const J &hist);
void exec_step(const J &st, int incb);
