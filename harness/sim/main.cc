// cares_sim driver.
//   verif_sim run <histories.ndjson> <trace-out.ndjson> [jobs]
// Each input line is one history {"id":..,"cfg":{..},"steps":[..]}.  Each history runs in a forked
// child (a sanitizer abort ends that history only); its events are appended to the trace file after a
// {"e":"reset","id":..} line; an abnormal exit adds a {"e":"crash",...} line with the sanitizer summary.
#include <fcntl.h>
#include <signal.h>
#include <sys/stat.h>
#include <sys/wait.h>
#include <unistd.h>

#include <cstring>
#include <fstream>
#include <iostream>
#include <sstream>

#include "sim.h"

extern "C" int __lsan_do_recoverable_leak_check(void);
extern long g_live_allocs;

static std::string slurp(const std::string &p) {
  std::ifstream     f(p);
  std::stringstream ss;
  ss << f.rdbuf();
  return ss.str();
}

static std::string sanitizer_summary(const std::string &err) {
  // first "ERROR: AddressSanitizer: <kind>" / "runtime error:" / LeakSanitizer line + innermost library frames
  std::istringstream is(err);
  std::string        line, kind, frames;
  int                nfr = 0;
  while (std::getline(is, line)) {
    if (kind.empty()) {
      size_t p = line.find("ERROR: AddressSanitizer: ");
      if (p != std::string::npos) { kind = "asan:" + line.substr(p + 25, line.find(' ', p + 25) - (p + 25)); continue; }
      p = line.find("ERROR: LeakSanitizer");
      if (p != std::string::npos) { kind = "lsan:leak"; continue; }
      p = line.find("runtime error: ");
      if (p != std::string::npos) { kind = "ubsan:" + line.substr(p + 15, 60); continue; }
    } else if (nfr < 4) {
      size_t p = line.find(" in ");
      if (line.find("    #") == 0 && p != std::string::npos) {
        std::string fn = line.substr(p + 4, line.find(' ', p + 4) - (p + 4));
        if (fn.find("ares") != std::string::npos || fn.find("end_query") != std::string::npos || fn.find("read_") != std::string::npos) {
          frames += (frames.empty() ? "" : "<") + fn;
          nfr++;
        }
      }
    }
  }
  if (kind.empty()) return "";
  return kind + "@" + frames;
}

int main(int argc, char **argv) {
  if (argc < 4 || strcmp(argv[1], "run") != 0) {
    fprintf(stderr, "usage: %s run <histories.ndjson> <out.ndjson> [jobs]\n", argv[0]);
    return 2;
  }
  std::string  in = argv[2], out = argv[3];
  int          jobs = argc > 4 ? atoi(argv[4]) : 8;
  std::vector<std::string> lines;
  {
    std::ifstream f(in);
    std::string   l;
    while (std::getline(f, l))
      if (!l.empty()) lines.push_back(l);
  }
  signal(SIGPIPE, SIG_IGN);
  std::vector<pid_t> workers;
  for (int w = 0; w < jobs; w++) {
    pid_t wp = fork();
    if (wp == 0) {
      // worker: runs its share of the histories in batch children; a child that dies is replaced and
      // the history it died in gets a crash record.
      std::string wout = out + ".w" + std::to_string(w);
      std::string terr = wout + ".err";
      std::string prog = wout + ".prog";
      std::vector<size_t> mine;
      for (size_t i = (size_t)w; i < lines.size(); i += (size_t)jobs) mine.push_back(i);
      size_t pos = 0;
      { FILE *t = fopen(wout.c_str(), "w"); if (t) fclose(t); }
      while (pos < mine.size()) {
        { FILE *pf = fopen(prog.c_str(), "w"); if (pf) { fprintf(pf, "%zu\n", pos); fclose(pf); } }
        pid_t cp = fork();
        if (cp == 0) {
          int efd = open(terr.c_str(), O_WRONLY | O_CREAT | O_TRUNC, 0644);
          dup2(efd, 2);
          close(efd);
          g_trace = fopen(wout.c_str(), "a");
          for (size_t k = pos; k < mine.size(); k++) {
            size_t i = mine[k];
            J      hist;
            { FILE *pf = fopen(prog.c_str(), "w"); if (pf) { fprintf(pf, "%zu\n", k); fclose(pf); } }
            if (!vj::parse(lines[i], hist)) {
              fprintf(g_trace, "{\"e\":\"reset\",\"id\":\"bad%zu\",\"line\":%zu}\n{\"e\":\"badscript\"}\n", i, i);
              continue;
            }
            std::string hid = hist.has("id") ? hist["id"].str() : std::to_string(i);
            fprintf(g_trace, "{\"e\":\"reset\",\"id\":\"%s\",\"line\":%zu}\n", vj::esc(hid).c_str(), i);
            alarm(60);
            run_history(hist);
            alarm(0);
            if (getenv("VERIF_LSAN_EACH") != nullptr && __lsan_do_recoverable_leak_check() != 0) {
              fflush(g_trace);
              _exit(24);  // parent records the leak (with LeakSanitizer's stack) for history k
            }
            if (g_live_allocs != 0) {  // the ledger already reported the leak in the "end" event: continue in a fresh process
              fflush(g_trace);
              { FILE *pf = fopen(prog.c_str(), "w"); if (pf) { fprintf(pf, "%zu\n", k + 1); fclose(pf); } }
              _exit(26);
            }
          }
          fflush(g_trace);
          { FILE *pf = fopen(prog.c_str(), "w"); if (pf) { fprintf(pf, "%zu\n", mine.size()); fclose(pf); } }
          _exit(0);
        }
        int status = 0;
        waitpid(cp, &status, 0);
        size_t k = mine.size();
        { FILE *pf = fopen(prog.c_str(), "r"); if (pf) { if (fscanf(pf, "%zu", &k) != 1) k = mine.size(); fclose(pf); } }
        if (WIFEXITED(status) && WEXITSTATUS(status) == 0 && k >= mine.size()) break;
        if (WIFEXITED(status) && WEXITSTATUS(status) == 26) { pos = k; continue; }  // clean restart after a ledger leak
        // child died while running history mine[k]
        if (k >= mine.size()) k = mine.size() - 1;
        std::string err = slurp(terr);
        std::string sum = sanitizer_summary(err);
        if (sum.empty()) {
          if (WIFSIGNALED(status)) sum = "signal:" + std::to_string(WTERMSIG(status));
          else if (WEXITSTATUS(status) == 24) sum = "lsan:leak";
          else sum = "exit:" + std::to_string(WEXITSTATUS(status));
        }
        // make sure the last (possibly partial) line is terminated, then add the crash record
        {
          std::string body = slurp(wout);
          FILE       *wf   = fopen(wout.c_str(), "a");
          if (!body.empty() && body.back() != '\n') {
            // drop the partial line by rewriting the file without it
            fclose(wf);
            size_t nl = body.rfind('\n');
            body      = (nl == std::string::npos) ? "" : body.substr(0, nl + 1);
            wf        = fopen(wout.c_str(), "w");
            fputs(body.c_str(), wf);
          }
          fprintf(wf, "{\"e\":\"crash\",\"sum\":\"%s\"}\n", vj::esc(sum).c_str());
          fclose(wf);
        }
        std::string ef = out + ".crash." + std::to_string(mine[k]) + ".txt";
        FILE       *e  = fopen(ef.c_str(), "w");
        if (e) { fputs(err.substr(0, 20000).c_str(), e); fclose(e); }
        pos = k + 1;
      }
      unlink(terr.c_str());
      unlink(prog.c_str());
      _exit(0);
    }
    workers.push_back(wp);
  }
  for (pid_t wp : workers) { int st; waitpid(wp, &st, 0); }
  FILE *of = fopen(out.c_str(), "w");
  for (int w = 0; w < jobs; w++) {
    std::string wout = out + ".w" + std::to_string(w);
    std::string body = slurp(wout);
    fputs(body.c_str(), of);
    unlink(wout.c_str());
  }
  fclose(of);
  return 0;
}
