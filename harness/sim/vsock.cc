// Virtual socket layer + trace logging.
#include <arpa/inet.h>
#include <errno.h>
#include <netinet/in.h>
#include <sys/socket.h>

#include <cstring>

#include "sim.h"

FILE     *g_trace  = nullptr;
long long g_now_ms = 0;

std::map<int, VSock>       g_socks;
std::vector<Frame>         g_frames;
std::map<std::string, int> g_failnext;
int                        g_srcip    = 1;
bool                       g_tfo_ok   = false;
int                        g_nservers = 1;
int                        g_chunk    = 0;
std::vector<int>           g_wscript_default;
std::vector<int>           g_wscript_default_udp;   // same for new UDP sockets
bool                       g_v6src_global = false;  // IPv6 source addresses are global (2001:db8::) instead of unique-local
long                       g_io_events = 0;
static int                 g_nextfd   = 100;
extern int                 g_plumb;

void ev(const char *fmt, ...) {
  va_list ap;
  va_start(ap, fmt);
  vfprintf(g_trace, fmt, ap);
  va_end(ap);
  fputc('\n', g_trace);
  fflush(g_trace);
}

std::string jstr(const std::string &s) { return "\"" + vj::esc(s) + "\""; }

void vsock_reset() {
  g_socks.clear();
  g_frames.clear();
  g_failnext.clear();
  g_nextfd = 100;
  g_srcip  = 1;
  g_chunk  = 0;
  g_wscript_default.clear();
  g_wscript_default_udp.clear();
  g_io_events = 0;
}

static int take_fail(const char *op) {
  auto it = g_failnext.find(op);
  if (it == g_failnext.end()) return 0;
  int e = it->second;
  g_failnext.erase(it);
  return e;
}

static VSock *lookup(int fd, const char *op) {
  auto it = g_socks.find(fd);
  if (it == g_socks.end()) {
    ev("{\"e\":\"sk\",\"op\":\"%s\",\"fd\":%d,\"res\":\"unknown_fd\"}", op, fd);
    return nullptr;
  }
  if (!it->second.open) {
    // use after close: logged with its own result so that no spec action matches it
    ev("{\"e\":\"sk\",\"op\":\"%s\",\"fd\":%d,\"res\":\"after_close\"}", op, fd);
    return nullptr;
  }
  return &it->second;
}

static ares_socket_t v_socket(int domain, int type, int, void *) {
  int e = take_fail("socket");
  if (e) {
    ev("{\"e\":\"sk\",\"op\":\"open\",\"fd\":0,\"tcp\":%d,\"res\":\"err\"}", type == SOCK_STREAM);
    errno = e;
    return ARES_SOCKET_BAD;
  }
  VSock s;
  s.fd     = g_nextfd++;
  s.tcp    = (type == SOCK_STREAM);
  s.family = domain;
  if (s.tcp) for (int x : g_wscript_default) s.wscript.push_back(x);
  else for (int x : g_wscript_default_udp) s.wscript.push_back(x);
  g_socks[s.fd] = s;
  ev("{\"e\":\"sk\",\"op\":\"open\",\"fd\":%d,\"tcp\":%d,\"fam\":%d,\"res\":\"ok\"}", s.fd, s.tcp ? 1 : 0,
     domain == AF_INET6 ? 6 : 4);
  return s.fd;
}

static int v_close(ares_socket_t fd, void *) {
  VSock *s = lookup(fd, "close");
  if (!s) { errno = EBADF; return -1; }
  s->open = false;
  ev("{\"e\":\"sk\",\"op\":\"close\",\"fd\":%d,\"res\":\"ok\"}", fd);
  return 0;
}

static int v_setsockopt(ares_socket_t fd, ares_socket_opt_t opt, const void *, ares_socklen_t, void *) {
  VSock *s = lookup(fd, "opt");
  if (!s) { errno = EBADF; return -1; }
  int e = take_fail("setsockopt");
  if (opt == ARES_SOCKET_OPT_TCP_FASTOPEN) {
    if (!g_tfo_ok || e) {
      ev("{\"e\":\"sk\",\"op\":\"opt\",\"fd\":%d,\"opt\":\"tfo\",\"res\":\"err\"}", fd);
      errno = ENOSYS;
      return -1;
    }
    s->tfo = true;
    ev("{\"e\":\"sk\",\"op\":\"opt\",\"fd\":%d,\"opt\":\"tfo\",\"res\":\"ok\"}", fd);
    return 0;
  }
  if (e) {
    ev("{\"e\":\"sk\",\"op\":\"opt\",\"fd\":%d,\"opt\":\"o%d\",\"res\":\"err\"}", fd, (int)opt);
    errno = e;
    return -1;
  }
  ev("{\"e\":\"sk\",\"op\":\"opt\",\"fd\":%d,\"opt\":\"o%d\",\"res\":\"ok\"}", fd, (int)opt);
  return 0;
}

static int addr_to_srv(const struct sockaddr *sa) {
  if (sa == nullptr) return -1;
  if (sa->sa_family == AF_INET) {
    const struct sockaddr_in *sin = (const struct sockaddr_in *)(const void *)sa;
    const unsigned char      *b   = (const unsigned char *)&sin->sin_addr;
    if (b[0] == 10 && b[1] == 0 && b[2] == 0) return b[3];  // servers are 10.0.0.1 .. 10.0.0.N => 1..N
    return 0;
  }
  if (sa->sa_family == AF_INET6) {
    const struct sockaddr_in6 *sin6 = (const struct sockaddr_in6 *)(const void *)sa;
    const unsigned char       *b    = (const unsigned char *)&sin6->sin6_addr;
    if (b[0] == 0xfd && b[15] != 0) return b[15];  // fd00::N
    return 0;
  }
  return -1;
}

static int v_connect(ares_socket_t fd, const struct sockaddr *sa, ares_socklen_t, unsigned int flags, void *) {
  VSock *s = lookup(fd, "connect");
  if (!s) { errno = EBADF; return -1; }
  int srv = addr_to_srv(sa);
  int e   = take_fail("connect");
  if (e) {
    ev("{\"e\":\"sk\",\"op\":\"connect\",\"fd\":%d,\"srv\":%d,\"res\":\"err\"}", fd, srv);
    errno = e;
    return -1;
  }
  s->srv = srv;
  if (!s->tcp) {
    s->connected = true;
    ev("{\"e\":\"sk\",\"op\":\"connect\",\"fd\":%d,\"srv\":%d,\"res\":\"ok\"}", fd, srv);
    return 0;
  }
  if (flags & ARES_SOCKET_CONN_TCP_FASTOPEN) {
    ev("{\"e\":\"sk\",\"op\":\"connect\",\"fd\":%d,\"srv\":%d,\"res\":\"tfo\"}", fd, srv);
    return 0;
  }
  ev("{\"e\":\"sk\",\"op\":\"connect\",\"fd\":%d,\"srv\":%d,\"res\":\"inprogress\"}", fd, srv);
  errno = EINPROGRESS;
  return -1;
}

static void fill_from(VSock *s, bool wrong, struct sockaddr *address, ares_socklen_t *address_len) {
  if (address == nullptr || address_len == nullptr) return;
  if (s->family == AF_INET6) {
    struct sockaddr_in6 sin6;
    memset(&sin6, 0, sizeof sin6);
    sin6.sin6_family = AF_INET6;
    sin6.sin6_port   = htons(53);
    unsigned char *b = (unsigned char *)&sin6.sin6_addr;
    b[0]             = 0xfd;
    b[15]            = (unsigned char)(wrong ? 200 : s->srv);
    if (*address_len >= (ares_socklen_t)sizeof sin6) { memcpy(address, &sin6, sizeof sin6); *address_len = sizeof sin6; }
  } else {
    struct sockaddr_in sin;
    memset(&sin, 0, sizeof sin);
    sin.sin_family   = AF_INET;
    sin.sin_port     = htons(53);
    unsigned char *b = (unsigned char *)&sin.sin_addr;
    b[0] = 10; b[1] = wrong ? 66 : 0; b[2] = 0; b[3] = (unsigned char)s->srv;
    if (*address_len >= (ares_socklen_t)sizeof sin) { memcpy(address, &sin, sizeof sin); *address_len = sizeof sin; }
  }
}

static ares_ssize_t v_recvfrom(ares_socket_t fd, void *buffer, size_t length, int, struct sockaddr *address,
                               ares_socklen_t *address_len, void *) {
  VSock *s = lookup(fd, "recv");
  if (!s) { errno = EBADF; return -1; }
  g_io_events++;
  int e = take_fail("recvfrom");
  if (e) {
    ev("{\"e\":\"sk\",\"op\":\"recv\",\"fd\":%d,\"res\":\"err\"}", fd);
    errno = e;
    return -1;
  }
  if (!s->tcp) {
    if (s->inq.empty()) {
      ev("{\"e\":\"sk\",\"op\":\"recv\",\"fd\":%d,\"res\":\"wb\"}", fd);
      errno = EWOULDBLOCK;
      return -1;
    }
    Packet p = s->inq.front();
    s->inq.pop_front();
    size_t n = p.bytes.size() < length ? p.bytes.size() : length;
    memcpy(buffer, p.bytes.data(), n);
    fill_from(s, p.wrongaddr, address, address_len);
    ev("{\"e\":\"sk\",\"op\":\"recv\",\"fd\":%d,\"res\":\"ok\",\"n\":%zu,\"pid\":%d,\"fromok\":%d,%s}", fd, n, p.pid,
       p.wrongaddr ? 0 : 1, p.desc.c_str());
    return (ares_ssize_t)n;
  }
  // TCP
  if (s->instream.empty()) {
    if (s->peer_closed) {
      ev("{\"e\":\"sk\",\"op\":\"recv\",\"fd\":%d,\"res\":\"eof\"}", fd);
      return 0;
    }
    ev("{\"e\":\"sk\",\"op\":\"recv\",\"fd\":%d,\"res\":\"wb\"}", fd);
    errno = EWOULDBLOCK;
    return -1;
  }
  size_t n = s->instream.size();
  if (!s->chunks.empty()) {
    if ((size_t)s->chunks.front() < n) n = (size_t)s->chunks.front();
    s->chunks.pop_front();
  } else if (g_chunk > 0 && (size_t)g_chunk < n) {
    n = (size_t)g_chunk;
  }
  if (n > length) n = length;
  memcpy(buffer, s->instream.data(), n);
  s->instream.erase(0, n);
  ev("{\"e\":\"sk\",\"op\":\"recv\",\"fd\":%d,\"res\":\"ok\",\"n\":%zu,\"cap\":%zu,\"stream\":1}", fd, n, length);
  return (ares_ssize_t)n;
}

// request token from the question name: harness names are "n<t>...." ; reverse names "<a>.<b>.1.10.in-addr.arpa" -> a + 256*b
int token_of_name(const std::string &ln) {
  if (ln.size() > 1 && ln[0] == 'n' && isdigit((unsigned char)ln[1])) return atoi(ln.c_str() + 1);
  size_t p = ln.find(".1.10.in-addr.arpa");
  if (p != std::string::npos) {
    int a = 0, b = 0;
    if (sscanf(ln.c_str(), "%d.%d.", &a, &b) == 2) return a + 256 * b;
  }
  return 0;
}

static std::string frame_json(const Frame &f) {
  char        b[256];
  std::string r;
  if (!f.parsed) {
    snprintf(b, sizeof b, "{\"seq\":%d,\"bad\":1,\"len\":%zu}", f.seq, f.bytes.size());
    return b;
  }
  snprintf(b, sizeof b, "{\"seq\":%d,\"bad\":0,\"qid\":%d,\"qt\":%d,\"qc\":%d,\"edns\":%d,\"clen\":%zu,\"len\":%zu,\"mlen\":%zu,", f.seq, f.qid,
           f.qtype, f.qclass, f.edns ? 1 : 0, f.cookie.size(), f.bytes.size(), f.mlen);
  r = b;
  // cookie identity: small ids for client part and server part so the spec can compare them
  r += "\"ck\":" + jstr(f.cookie.size() >= 8 ? f.cookie.substr(0, 8) : "") + ",";
  r += "\"sk\":" + jstr(f.cookie.size() > 8 ? f.cookie.substr(8) : "") + ",";
  std::string ln = f.qname;
  for (auto &c : ln) c = (char)tolower((unsigned char)c);
  std::string kn = ln;
  if (!kn.empty() && kn.back() == '.') kn.pop_back();
  r += "\"kname\":" + jstr(kn) + ",";
  r += "\"rd\":" + std::to_string(f.rd) + ",\"cd\":" + std::to_string(f.cd) + ",";
  r += "\"t\":" + std::to_string(token_of_name(ln)) + ",\"lname\":" + jstr(ln) + ",";
  r += "\"name\":" + jstr(f.qname) + "}";
  return r;
}

static std::string hexs(const std::string &s) {
  static const char *h = "0123456789abcdef";
  std::string        r;
  for (unsigned char c : s) { r += h[c >> 4]; r += h[c & 15]; }
  return r;
}

static ares_ssize_t v_sendto(ares_socket_t fd, const void *buffer, size_t length, int, const struct sockaddr *address,
                             ares_socklen_t, void *) {
  VSock *s = lookup(fd, "send");
  if (!s) { errno = EBADF; return -1; }
  g_io_events++;
  int e = take_fail("sendto");
  if (e == 0 && !s->wscript.empty() && s->wscript.front() == -2) { s->wscript.pop_front(); e = ECONNRESET; }
  std::string attempted;  // UDP: what the library tried to send (decoded, not counted as a transmission)
  if (!s->tcp) {
    Frame f;
    f.seq = 0; f.fd = fd; f.srv = s->srv;
    f.bytes.assign((const char *)buffer, length);
    g_plumb++; f.parsed = decode_frame(f.bytes, f); g_plumb--;
    attempted = frame_json(f);
  }
  if (e) {
    ev("{\"e\":\"sk\",\"op\":\"send\",\"fd\":%d,\"tcp\":%d,\"srv\":%d,\"res\":\"err\",\"n\":0,\"len\":%zu,\"frames\":[%s]}", fd, s->tcp, s->srv, length, attempted.c_str());
    errno = e;
    return -1;
  }
  if (!s->wscript.empty() && s->wscript.front() == -1) {
    s->wscript.pop_front();
    ev("{\"e\":\"sk\",\"op\":\"send\",\"fd\":%d,\"tcp\":%d,\"srv\":%d,\"res\":\"wb\",\"n\":0,\"len\":%zu,\"frames\":[%s]}", fd, s->tcp, s->srv, length, attempted.c_str());
    errno = EWOULDBLOCK;
    return -1;
  }
  if (address != nullptr && s->srv < 0) s->srv = addr_to_srv(address);  // TFO first write
  s->nsend++;
  if (!s->tcp) {
    Frame f;
    f.seq = (int)g_frames.size() + 1;
    f.fd = fd; f.srv = s->srv; f.tcp = false; f.at = g_now_ms;
    f.bytes.assign((const char *)buffer, length);
    g_plumb++; f.parsed = decode_frame(f.bytes, f); g_plumb--;
    g_frames.push_back(f);
    ev("{\"e\":\"sk\",\"op\":\"send\",\"fd\":%d,\"tcp\":0,\"srv\":%d,\"res\":\"ok\",\"n\":%zu,\"len\":%zu,\"frames\":[%s]}", fd,
       s->srv, length, length, frame_json(f).c_str());
    return (ares_ssize_t)length;
  }
  size_t n = length;
  if (!s->wscript.empty()) {
    if (s->wscript.front() > 0 && (size_t)s->wscript.front() < n) n = (size_t)s->wscript.front();
    s->wscript.pop_front();
  }
  s->outstream.append((const char *)buffer, n);
  // extract completed frames
  std::string fr;
  while (s->outstream.size() - s->outparsed >= 2) {
    size_t l = ((unsigned char)s->outstream[s->outparsed] << 8) | (unsigned char)s->outstream[s->outparsed + 1];
    if (s->outstream.size() - s->outparsed - 2 < l) break;
    Frame f;
    f.seq = (int)g_frames.size() + 1;
    f.fd = fd; f.srv = s->srv; f.tcp = true; f.at = g_now_ms;
    f.bytes = s->outstream.substr(s->outparsed + 2, l);
    g_plumb++; f.parsed = decode_frame(f.bytes, f); g_plumb--;
    g_frames.push_back(f);
    s->outparsed += 2 + l;
    if (!fr.empty()) fr += ",";
    fr += frame_json(f);
  }
  ev("{\"e\":\"sk\",\"op\":\"send\",\"fd\":%d,\"tcp\":1,\"srv\":%d,\"res\":\"ok\",\"n\":%zu,\"len\":%zu,\"hex\":\"%s\",\"frames\":[%s]}",
     fd, s->srv, n, length, n <= 200 ? hexs(std::string((const char *)buffer, n)).c_str() : "", fr.c_str());
  return (ares_ssize_t)n;
}

static int v_getsockname(ares_socket_t fd, struct sockaddr *address, ares_socklen_t *address_len, void *) {
  VSock *s = lookup(fd, "getsockname");
  if (!s) { errno = EBADF; return -1; }
  int e = take_fail("getsockname");
  if (e) {
    ev("{\"e\":\"sk\",\"op\":\"getsockname\",\"fd\":%d,\"res\":\"err\"}", fd);
    errno = e;
    return -1;
  }
  if (s->family == AF_INET6) {
    struct sockaddr_in6 sin6;
    memset(&sin6, 0, sizeof sin6);
    sin6.sin6_family = AF_INET6;
    unsigned char *b = (unsigned char *)&sin6.sin6_addr;
    b[0] = 0xfd; b[1] = 9; b[15] = (unsigned char)g_srcip;
    if (g_v6src_global) { b[0] = 0x20; b[1] = 0x01; b[2] = 0x0d; b[3] = 0xb8; }   // 2001:db8::x: same policy label as the 2001:: answers
    if (*address_len < (ares_socklen_t)sizeof sin6) { errno = EINVAL; return -1; }
    memcpy(address, &sin6, sizeof sin6);
    *address_len = sizeof sin6;
  } else {
    struct sockaddr_in sin;
    memset(&sin, 0, sizeof sin);
    sin.sin_family   = AF_INET;
    unsigned char *b = (unsigned char *)&sin.sin_addr;
    b[0] = 10; b[1] = 9; b[2] = 0; b[3] = (unsigned char)g_srcip;
    if (*address_len < (ares_socklen_t)sizeof sin) { errno = EINVAL; return -1; }
    memcpy(address, &sin, sizeof sin);
    *address_len = sizeof sin;
  }
  ev("{\"e\":\"sk\",\"op\":\"getsockname\",\"fd\":%d,\"res\":\"ok\",\"src\":%d}", fd, g_srcip);
  return 0;
}

static int v_bind(ares_socket_t fd, unsigned int, const struct sockaddr *, socklen_t, void *) {
  VSock *s = lookup(fd, "bind");
  if (!s) { errno = EBADF; return -1; }
  int e = take_fail("bind");
  if (e) {
    ev("{\"e\":\"sk\",\"op\":\"bind\",\"fd\":%d,\"res\":\"err\"}", fd);
    errno = e;
    return -1;
  }
  ev("{\"e\":\"sk\",\"op\":\"bind\",\"fd\":%d,\"res\":\"ok\"}", fd);
  return 0;
}

static unsigned int v_if_nametoindex(const char *, void *) { return 1; }
static const char  *v_if_indextoname(unsigned int, char *buf, size_t len, void *) {
  snprintf(buf, len, "lo");
  return buf;
}

void vsock_install(ares_channel_t *ch) {
  struct ares_socket_functions_ex f;
  memset(&f, 0, sizeof f);
  f.version         = 1;
  f.flags           = ARES_SOCKFUNC_FLAG_NONBLOCKING;
  f.asocket         = v_socket;
  f.aclose          = v_close;
  f.asetsockopt     = v_setsockopt;
  f.aconnect        = v_connect;
  f.arecvfrom       = v_recvfrom;
  f.asendto         = v_sendto;
  f.agetsockname    = v_getsockname;
  f.abind           = v_bind;
  f.aif_nametoindex = v_if_nametoindex;
  f.aif_indextoname = v_if_indextoname;
  ares_set_socket_functions_ex(ch, &f, nullptr);
}
