// Frame decoding and reply construction (plumbing; uses the library's own codec,
// the codec itself is checked separately by C02-C04).
#include <arpa/inet.h>
#include <netinet/in.h>

#include <cstring>

#include "sim.h"

static std::string lower(std::string s) {
  for (auto &c : s) c = (char)tolower((unsigned char)c);
  return s;
}

bool decode_frame(const std::string &bytes, Frame &f) {
  ares_dns_record_t *rec = nullptr;
  if (ares_dns_parse((const unsigned char *)bytes.data(), bytes.size(), 0, &rec) != ARES_SUCCESS) return false;
  f.qid = ares_dns_record_get_id(rec);
  f.rd  = (ares_dns_record_get_flags(rec) & ARES_FLAG_RD) ? 1 : 0;
  f.cd  = (ares_dns_record_get_flags(rec) & ARES_FLAG_CD) ? 1 : 0;
  const char         *name = nullptr;
  ares_dns_rec_type_t qt;
  ares_dns_class_t    qc;
  if (ares_dns_record_query_cnt(rec) != 1 || ares_dns_record_query_get(rec, 0, &name, &qt, &qc) != ARES_SUCCESS) {
    ares_dns_record_destroy(rec);
    return false;
  }
  f.qname  = name ? name : "";
  f.qtype  = (int)qt;
  f.qclass = (int)qc;
  f.edns   = false;
  f.cookie.clear();
  for (size_t i = 0; i < ares_dns_record_rr_cnt(rec, ARES_SECTION_ADDITIONAL); i++) {
    const ares_dns_rr_t *rr = ares_dns_record_rr_get_const(rec, ARES_SECTION_ADDITIONAL, i);
    if (ares_dns_rr_get_type(rr) == ARES_REC_TYPE_OPT) {
      f.edns = true;
      const unsigned char *val = nullptr;
      size_t               len = 0;
      if (ares_dns_rr_get_opt_byid(rr, ARES_RR_OPT_OPTIONS, ARES_OPT_PARAM_COOKIE, &val, &len) && val)
        f.cookie.assign((const char *)val, len);
    }
  }
  {  // a datagram that carries more than one message parses (the parser stops after the counted records)
    unsigned char *wb = nullptr;
    size_t         wl = 0;
    if (ares_dns_write(rec, &wb, &wl) == ARES_SUCCESS) { f.mlen = wl; ares_free_string(wb); }
  }
  ares_dns_record_destroy(rec);
  return true;
}

// TTLs are logged saturated at 2^30: the trace specifications compute in 32-bit integers; a TTL of 2^30 s (34 years)
// or more is "far future" for every rule they state
static std::string ttl_str(unsigned int t) { return std::to_string(t >= (1u << 30) ? (1u << 30) : t); }

static void marker_addr4(int m, struct in_addr *a) {
  unsigned char *b = (unsigned char *)a;
  b[0] = 192; b[1] = (unsigned char)((m >> 16) & 255); b[2] = (unsigned char)((m >> 8) & 255); b[3] = (unsigned char)(m & 255);
}
static void marker_addr6(int m, struct ares_in6_addr *a) {
  memset(a, 0, sizeof *a);
  unsigned char *b = a->_S6_un._S6_u8;
  b[0] = 0x20; b[1] = 0x01; b[13] = (unsigned char)((m >> 16) & 255); b[14] = (unsigned char)((m >> 8) & 255); b[15] = (unsigned char)(m & 255);
}

// step fields: kind ok|nx|nodata|servfail|notimp|refused|formerr|tc|badcookie|garbage|empty|cname
//   mods: wrongid wrongname wrongtype wrongclass flipcase wrongaddr(handled by caller) noopt
//   ttl (default 60), n (number of answer RRs, default 1), soa (0/1 for nx/nodata), soattl, soamin
//   cookie: "none" | "echo" (client part only) | "srv:<tag>" (client part + server part derived from tag)
//           | "wrongclient:<tag>" | "short" (4 bytes) | "long" (41 bytes)
std::string build_reply(const Frame &f, const J &st, int pid, std::string &desc) {
  std::string kind = st["kind"].str("ok");
  char        b[2048];
  if (kind == "garbage") {
    desc = "\"kind\":\"garbage\",\"parse\":0,\"len\":5";
    return std::string("\x12\x34\xff\xff\xff", 5);
  }
  if (kind == "empty") {
    desc = "\"kind\":\"empty\",\"parse\":0,\"len\":0";
    return std::string();
  }
  int         qid   = f.qid;
  std::string qname = f.qname;
  int         qtype = f.qtype, qclass = f.qclass;
  if (st["wrongid"].num()) qid = (qid + 1) & 0xffff;
  if (st["wrongname"].num()) qname = "x" + qname;
  if (st["wrongtype"].num()) qtype = (qtype == ARES_REC_TYPE_A) ? ARES_REC_TYPE_AAAA : ARES_REC_TYPE_A;
  if (st["wrongclass"].num()) qclass = ARES_CLASS_CHAOS;
  if (st["flipcase"].num()) {
    for (auto &c : qname)
      if (isalpha((unsigned char)c)) { c = (char)(c ^ 0x20); break; }
  }
  ares_dns_rcode_t rcode = ARES_RCODE_NOERROR;
  if (kind == "nx") rcode = ARES_RCODE_NXDOMAIN;
  else if (kind == "servfail") rcode = ARES_RCODE_SERVFAIL;
  else if (kind == "notimp") rcode = ARES_RCODE_NOTIMP;
  else if (kind == "refused") rcode = ARES_RCODE_REFUSED;
  else if (kind == "formerr") rcode = ARES_RCODE_FORMERR;
  else if (kind == "badcookie") rcode = ARES_RCODE_BADCOOKIE;
  unsigned short flags = ARES_FLAG_QR | ARES_FLAG_RD | ARES_FLAG_RA;
  if (kind == "tc" || st["tc"].num()) flags |= ARES_FLAG_TC;
  ares_dns_record_t *rec = nullptr;
  ares_dns_record_create(&rec, (unsigned short)qid, flags, ARES_OPCODE_QUERY, rcode);
  ares_dns_record_query_add(rec, qname.c_str(), (ares_dns_rec_type_t)qtype, (ares_dns_class_t)qclass);
  unsigned int ttl = (unsigned int)st["ttl"].num(60);
  if (st["hugettl"].num()) ttl = 3000000000u;   // beyond 2^31 (the generators cannot write such a literal)
  int          n   = (int)st["n"].num(1);
  std::string  ttls, recs;
  int          nans = 0;
  if (kind == "ok" || kind == "tc" || kind == "cname" || kind == "badcookie_ok") {
    std::string owner = qname;
    if (kind == "cname" || st["cname"].num()) {
      ares_dns_rr_t *rr = nullptr;
      ares_dns_record_rr_add(&rr, rec, ARES_SECTION_ANSWER, owner.c_str(), ARES_REC_TYPE_CNAME, ARES_CLASS_IN,
                             (unsigned int)st["cnamettl"].num(ttl));
      owner = "c." + lower(qname);
      ares_dns_rr_set_str(rr, ARES_RR_CNAME_CNAME, owner.c_str());
      ttls += ttl_str((unsigned int)st["cnamettl"].num(ttl));
      nans++;
    }
    for (int i = 0; i < n && kind != "cname_only"; i++) {
      ares_dns_rr_t *rr  = nullptr;
      unsigned int   t_i = st["ttls"].size() > (size_t)i ? (unsigned int)st["ttls"][i].num() : ttl;
      int            m   = pid * 8 + i;
      if (qtype == ARES_REC_TYPE_AAAA) {
        ares_dns_record_rr_add(&rr, rec, ARES_SECTION_ANSWER, owner.c_str(), ARES_REC_TYPE_AAAA, ARES_CLASS_IN, t_i);
        struct ares_in6_addr a6;
        marker_addr6(m, &a6);
        // every other address under 2001:db8::/32 (policy label of ordinary global addresses; the plain markers are
        // under 2001::/32, which RFC 6724 labels as Teredo)
        if (st["alt6"].num() && (i & 1)) { a6._S6_un._S6_u8[2] = 0x0d; a6._S6_un._S6_u8[3] = 0xb8; }
        ares_dns_rr_set_addr6(rr, ARES_RR_AAAA_ADDR, &a6);
      } else if (qtype == ARES_REC_TYPE_PTR) {
        ares_dns_record_rr_add(&rr, rec, ARES_SECTION_ANSWER, owner.c_str(), ARES_REC_TYPE_PTR, ARES_CLASS_IN, t_i);
        snprintf(b, sizeof b, "m%d.ptr.test", m);
        ares_dns_rr_set_str(rr, ARES_RR_PTR_DNAME, b);
      } else if (qtype == ARES_REC_TYPE_A) {
        ares_dns_record_rr_add(&rr, rec, ARES_SECTION_ANSWER, owner.c_str(), ARES_REC_TYPE_A, ARES_CLASS_IN, t_i);
        struct in_addr a4;
        marker_addr4(m, &a4);
        ares_dns_rr_set_addr(rr, ARES_RR_A_ADDR, &a4);
      } else {
        ares_dns_record_rr_add(&rr, rec, ARES_SECTION_ANSWER, owner.c_str(), ARES_REC_TYPE_TXT, ARES_CLASS_IN, t_i);
        snprintf(b, sizeof b, "m%d", m);
        ares_dns_rr_add_abin(rr, ARES_RR_TXT_DATA, (const unsigned char *)b, strlen(b));
      }
      if (!ttls.empty()) ttls += ",";
      ttls += ttl_str(t_i);
      if (qtype == ARES_REC_TYPE_A || qtype == ARES_REC_TYPE_AAAA || qtype == ARES_REC_TYPE_PTR) {
        if (!recs.empty()) recs += ",";
        recs += "{\"m\":" + std::to_string(m) + ",\"ttl\":" + ttl_str(t_i) + ",\"f\":" + (qtype == ARES_REC_TYPE_AAAA ? "6" : (qtype == ARES_REC_TYPE_A ? "4" : "0")) + "}";
      }
      nans++;
    }
    if (st["chaos"].num() && (qtype == ARES_REC_TYPE_A || qtype == ARES_REC_TYPE_AAAA)) {
      // an address record of a foreign class in the answer section: must not be reported
      ares_dns_rr_t *rr = nullptr;
      int            m  = pid * 8 + 7;
      if (qtype == ARES_REC_TYPE_AAAA) {
        ares_dns_record_rr_add(&rr, rec, ARES_SECTION_ANSWER, owner.c_str(), ARES_REC_TYPE_AAAA, ARES_CLASS_CHAOS, ttl);
        struct ares_in6_addr a6;
        marker_addr6(m, &a6);
        ares_dns_rr_set_addr6(rr, ARES_RR_AAAA_ADDR, &a6);
      } else {
        ares_dns_record_rr_add(&rr, rec, ARES_SECTION_ANSWER, owner.c_str(), ARES_REC_TYPE_A, ARES_CLASS_CHAOS, ttl);
        struct in_addr a4;
        marker_addr4(m, &a4);
        ares_dns_rr_set_addr(rr, ARES_RR_A_ADDR, &a4);
      }
      if (!ttls.empty()) ttls += ",";
      ttls += ttl_str(ttl);
      nans++;
    }
  }
  int soa = (int)st["soa"].num((kind == "nx" || kind == "nodata") ? 1 : 0);
  unsigned int soattl = (unsigned int)st["soattl"].num(30), soamin = (unsigned int)st["soamin"].num(20);
  if (soa) {
    ares_dns_rr_t *rr = nullptr;
    ares_dns_record_rr_add(&rr, rec, ARES_SECTION_AUTHORITY, "test", ARES_REC_TYPE_SOA, ARES_CLASS_IN, soattl);
    ares_dns_rr_set_str(rr, ARES_RR_SOA_MNAME, "ns.test");
    ares_dns_rr_set_str(rr, ARES_RR_SOA_RNAME, "root.test");
    ares_dns_rr_set_u32(rr, ARES_RR_SOA_SERIAL, 1);
    ares_dns_rr_set_u32(rr, ARES_RR_SOA_REFRESH, 1);
    ares_dns_rr_set_u32(rr, ARES_RR_SOA_RETRY, 1);
    ares_dns_rr_set_u32(rr, ARES_RR_SOA_EXPIRE, 1);
    ares_dns_rr_set_u32(rr, ARES_RR_SOA_MINIMUM, soamin);
  }
  std::string xttls;
  if (st.has("gluettl")) {  // an NS record in the authority section and its glue in the additional section
    ares_dns_rr_t *rr = nullptr;
    unsigned int   g  = (unsigned int)st["gluettl"].num();
    unsigned int   nt = (unsigned int)st["nsttl"].num(300);
    ares_dns_record_rr_add(&rr, rec, ARES_SECTION_AUTHORITY, "test", ARES_REC_TYPE_NS, ARES_CLASS_IN, nt);
    ares_dns_rr_set_str(rr, ARES_RR_NS_NSDNAME, "ns.test");
    ares_dns_record_rr_add(&rr, rec, ARES_SECTION_ADDITIONAL, "ns.test", ARES_REC_TYPE_A, ARES_CLASS_IN, g);
    struct in_addr a4;
    marker_addr4(0, &a4);
    ares_dns_rr_set_addr(rr, ARES_RR_A_ADDR, &a4);
    xttls = std::to_string(nt) + "," + std::to_string(g);
  }
  // OPT: echoed when the query had one, unless noopt
  bool        opt = f.edns && !st["noopt"].num();
  std::string ck  = st["cookie"].str(f.cookie.empty() ? "none" : "echo");
  std::string cookie;
  if (opt) {
    ares_dns_rr_t *rr = nullptr;
    ares_dns_record_rr_add(&rr, rec, ARES_SECTION_ADDITIONAL, "", ARES_REC_TYPE_OPT, ARES_CLASS_IN, 0);
    ares_dns_rr_set_u16(rr, ARES_RR_OPT_UDP_SIZE, 1232);
    ares_dns_rr_set_u8(rr, ARES_RR_OPT_VERSION, 0);
    ares_dns_rr_set_u16(rr, ARES_RR_OPT_FLAGS, 0);
    std::string client = f.cookie.size() >= 8 ? f.cookie.substr(0, 8) : std::string(8, 'C');
    if (ck == "echo") cookie = client;
    else if (ck.rfind("srv:", 0) == 0) { std::string tag = ck.substr(4); tag.resize(8, '_'); cookie = client + tag; }
    else if (ck.rfind("wrongclient:", 0) == 0) { std::string tag = ck.substr(12); tag.resize(8, '_'); cookie = std::string(8, 'W') + tag; }
    else if (ck == "short") cookie = client.substr(0, 4);
    else if (ck == "long") cookie = client + std::string(33, 'L');
    if (!cookie.empty()) ares_dns_rr_set_opt(rr, ARES_RR_OPT_OPTIONS, ARES_OPT_PARAM_COOKIE, (const unsigned char *)cookie.data(), cookie.size());
  }
  unsigned char *buf = nullptr;
  size_t         len = 0;
  std::string    out;
  if (ares_dns_write(rec, &buf, &len) == ARES_SUCCESS) {
    out.assign((const char *)buf, len);
    ares_free_string(buf);
  }
  ares_dns_record_destroy(rec);
  snprintf(b, sizeof b,
           "\"kind\":\"%s\",\"parse\":1,\"qid\":%d,\"qt\":%d,\"qc\":%d,\"rcode\":%d,\"tc\":%d,\"opt\":%d,\"an\":%d,\"ttls\":[%s],"
           "\"soa\":%d,\"soattl\":%u,\"soamin\":%u,\"clen\":%zu,\"forseq\":%d,\"xttls\":[%s],\"recs\":[%s],",
           kind.c_str(), qid, qtype, qclass, (int)rcode, (flags & ARES_FLAG_TC) ? 1 : 0, opt ? 1 : 0, nans, ttls.c_str(), soa, soattl,
           soamin, cookie.size(), f.seq, xttls.c_str(), recs.c_str());
  desc = b;
  desc += "\"ck\":" + jstr(cookie.size() >= 8 ? cookie.substr(0, 8) : cookie) + ",";
  desc += "\"sk\":" + jstr(cookie.size() > 8 ? cookie.substr(8) : "") + ",";
  desc += "\"lname\":" + jstr(lower(qname)) + ",";
  desc += "\"name\":" + jstr(qname);
  return out;
}

// Summary of a record delivered to a callback: rcode, answer count, markers, ttls.
std::string describe_dnsrec(const ares_dns_record_t *rec) {
  if (rec == nullptr) return "\"rec\":0";
  std::string markers, ttls;
  size_t      an = ares_dns_record_rr_cnt(rec, ARES_SECTION_ANSWER);
  for (size_t i = 0; i < an; i++) {
    const ares_dns_rr_t *rr = ares_dns_record_rr_get_const(rec, ARES_SECTION_ANSWER, i);
    int                  m  = -1;
    ares_dns_rec_type_t  t  = ares_dns_rr_get_type(rr);
    if (t == ARES_REC_TYPE_A) {
      const unsigned char *b = (const unsigned char *)ares_dns_rr_get_addr(rr, ARES_RR_A_ADDR);
      if (b) m = (b[1] << 16) | (b[2] << 8) | b[3];
    } else if (t == ARES_REC_TYPE_AAAA) {
      const struct ares_in6_addr *a = ares_dns_rr_get_addr6(rr, ARES_RR_AAAA_ADDR);
      if (a) m = (a->_S6_un._S6_u8[13] << 16) | (a->_S6_un._S6_u8[14] << 8) | a->_S6_un._S6_u8[15];
    } else if (t == ARES_REC_TYPE_TXT) {
      const unsigned char *d = nullptr;
      size_t               l = 0;
      d = ares_dns_rr_get_abin(rr, ARES_RR_TXT_DATA, 0, &l);
      if (d && l > 1 && d[0] == 'm') m = atoi(std::string((const char *)d + 1, l - 1).c_str());
    } else if (t == ARES_REC_TYPE_PTR) {
      const char *d = ares_dns_rr_get_str(rr, ARES_RR_PTR_DNAME);
      if (d && d[0] == 'm') m = atoi(d + 1);
    } else {
      m = -2;  // CNAME etc: no marker
    }
    if (!ttls.empty()) ttls += ",";
    ttls += ttl_str(ares_dns_rr_get_ttl(rr));
    if (m == -2) continue;
    if (!markers.empty()) markers += ",";
    markers += std::to_string(m);
  }
  char b[256];
  snprintf(b, sizeof b, "\"rec\":1,\"rcode\":%d,\"an\":%zu,\"tcflag\":%d,\"rid\":%d,", (int)ares_dns_record_get_rcode(rec), an,
           (ares_dns_record_get_flags(rec) & ARES_FLAG_TC) ? 1 : 0, (int)ares_dns_record_get_id(rec));
  return std::string(b) + "\"markers\":[" + markers + "],\"ttls\":[" + ttls + "]";
}
