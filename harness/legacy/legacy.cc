// C18 harness: legacy ares_parse_*_reply() vs. the record API on the same bytes.
//
// Pure plumbing: builds messages through the public ares_dns_record setters from a
// line-oriented vector file (produced from TLC's JSON by checks/c18.py), serialises
// them with ares_dns_write, optionally mutates/truncates the bytes, and then for every
// requested call records as ndjson
//   * what ares_dns_parse + the record getters report for the bytes ("rec"), and
//   * what the legacy parser did ("out": status, items with all fields, number of
//     array elements written, guard elements after the caller's array, hostent,
//     allocation balance after the matching free function).
// No expected value is computed here; specs/Legacy/LegacyTrace.tla is the oracle.
//
// usage: verif_legacy <vectors.txt> <out.ndjson> [seed]
//
// vector file grammar (tokens separated by single spaces, '-' = empty string):
//   V <id>
//   Q <name> <TYPE>
//   R <an|ns|ar> <name> <TYPE> <class> <ttl> [key=value ...]
//   B <hex>                                     raw message bytes instead of Q/R (hand-written wire cases, replays)
//   C <fn> <mode> <cap>                         call on the intact message
//   M <fn> <mode> <cap> <trunc:0|1> <nflips>    calls on truncated / byte-mutated copies
//   O <fn> <mode> <cap>                         allocation-failure sweep of this call on the intact message: the call is
//                                               repeated with exactly the n-th allocation *of the call* failing, n = 1, 2, ...
//                                               until a run does not reach its fault index; one line (mut = "oom") whose calls
//                                               carry "oom": n and "hit": 1 (the n-th allocation was requested and failed) / 0
//   E
// values: a=<presentation address>  t/mname/rname/repl=<name>  numbers decimal
//         hex-encoded: flags svc re tag val uri ; chunks=<hex>,<hex>,... ('-' = empty chunk)

#include <arpa/inet.h>
#include <netdb.h>
#include <netinet/in.h>
#include <sys/socket.h>

#include <cstdint>
#include <cstdio>
#include <cstdlib>
#include <cstring>
#include <map>
#include <sstream>
#include <string>
#include <unordered_set>
#include <vector>

#include "ares.h"
#include "ares_dns_record.h"

#if defined(__has_feature)
#  if __has_feature(address_sanitizer)
#    include <sanitizer/lsan_interface.h>
#    define HAVE_LSAN 1
#  endif
#endif

// ---------------------------------------------------------------- allocation ledger + single-fault injection
// Only allocation requests made while a legacy parser call is running (PARSE() below) are counted and can be
// failed: the harness's own use of the library (building / serialising the message, the reference
// ares_dns_parse, the free functions) is plumbing and never counted.
static long g_live    = 0;
static int  g_in_call = 0;   // 1 while a legacy parser call is executing
static long g_count   = 0;   // allocation requests of the current call
static long g_fail_at = 0;   // fail exactly this allocation request of the current call (0 = never)
static int  g_hit     = 0;   // the fault was injected
static long g_arm     = 0;   // fault index for the next PARSE() (set by the sweep)
static const char *g_cur_fn = NULL;   // legacy function of the call being executed (for the crash event)
// The blocks allocated by a legacy call are tracked: what is still allocated after the matching free function
// is reported with the call ("leak") and then released by the harness, so that the process-level signals (ledger
// at exit, LeakSanitizer) only speak about allocations that no call record accounts for.
static int                       g_track = 0;
static std::unordered_set<void *> g_blocks;
static bool fail_now()
{
  if (!g_in_call) return false;
  g_count++;
  if (g_fail_at != 0 && g_count == g_fail_at) { g_hit = 1; return true; }
  return false;
}
static void *cnt_malloc(size_t n)
{
  if (fail_now()) return NULL;
  void *p = malloc(n ? n : 1);
  if (p) g_live++;
  if (p && g_track) g_blocks.insert(p);
  return p;
}
static void cnt_free(void *p)
{
  if (p) g_live--;
  if (p && g_track) g_blocks.erase(p);
  free(p);
}
static void *cnt_realloc(void *p, size_t n)
{
  if (p == NULL) return cnt_malloc(n);
  if (n == 0) { cnt_free(p); return NULL; }
  if (fail_now()) return NULL;       // the old block stays valid and counted
  void *q = realloc(p, n);
  if (q && q != p && g_track && g_blocks.erase(p)) g_blocks.insert(q);
  return q;
}
// the legacy call proper: allocation requests are counted from 1, request g_arm fails
#define PARSE(expr) do { g_count = 0; g_hit = 0; g_fail_at = g_arm; g_track = 1; g_in_call = 1; st = (expr); g_in_call = 0; g_fail_at = 0; } while (0)

// ---------------------------------------------------------------- small helpers
static FILE *g_out = NULL;
static long  g_cur = -1;   // vector being executed (reported by the sanitizer death callback)

extern "C" void __sanitizer_set_death_callback(void (*cb)(void));
static void on_sanitizer_death(void)
{
  if (g_out) {
    if (g_arm > 0 && g_cur_fn)
      fprintf(g_out, "{\"e\":\"crash\",\"id\":%ld,\"fn\":\"%s\",\"oom\":%ld}\n", g_cur, g_cur_fn, g_arm);
    else
      fprintf(g_out, "{\"e\":\"crash\",\"id\":%ld}\n", g_cur);
    fflush(g_out);
  }
}

static std::string jstr(const char *s, size_t n)
{
  std::string o = "\"";
  for (size_t i = 0; i < n; i++) {
    unsigned char c = (unsigned char)s[i];
    if (c == '"' || c == '\\') { o += '\\'; o += (char)c; }
    else if (c < 0x20 || c >= 0x7f) { char b[8]; snprintf(b, sizeof b, "\\u%04x", c); o += b; }
    else o += (char)c;
  }
  o += "\"";
  return o;
}
static std::string jstr(const char *s) { return s ? jstr(s, strlen(s)) : std::string("\"<null>\""); }
static std::string jstr(const std::string &s) { return jstr(s.data(), s.size()); }

static std::string hexs(const unsigned char *p, size_t n)
{
  static const char *d = "0123456789abcdef";
  std::string o;
  for (size_t i = 0; i < n; i++) { o += d[p[i] >> 4]; o += d[p[i] & 15]; }
  return o;
}
static std::string unhex(const std::string &h)
{
  std::string o;
  if (h == "-") return o;
  for (size_t i = 0; i + 1 < h.size(); i += 2) o += (char)strtol(h.substr(i, 2).c_str(), NULL, 16);
  return o;
}
static std::string num(long long v) { return std::to_string(v); }
// 32-bit quantities are reported as their signed 32-bit reinterpretation (TLC integers are 32-bit)
static std::string s32(unsigned int v) { return std::to_string((long long)(int32_t)v); }

static std::string ip4(const void *p) { char b[64]; return inet_ntop(AF_INET, p, b, sizeof b) ? b : "?"; }
static std::string ip6(const void *p) { char b[64]; return inet_ntop(AF_INET6, p, b, sizeof b) ? b : "?"; }

static const char *stname(int st)
{
  switch (st) {
    case ARES_SUCCESS: return "SUCCESS";
    case ARES_ENODATA: return "ENODATA";
    case ARES_EFORMERR: return "EFORMERR";
    case ARES_ESERVFAIL: return "ESERVFAIL";
    case ARES_ENOTFOUND: return "ENOTFOUND";
    case ARES_ENOTIMP: return "ENOTIMP";
    case ARES_EREFUSED: return "EREFUSED";
    case ARES_EBADQUERY: return "EBADQUERY";
    case ARES_EBADNAME: return "EBADNAME";
    case ARES_EBADFAMILY: return "EBADFAMILY";
    case ARES_EBADRESP: return "EBADRESP";
    case ARES_ENOMEM: return "ENOMEM";
    case ARES_EBADSTR: return "EBADSTR";
    default: break;
  }
  static char b[32];
  snprintf(b, sizeof b, "ST%d", st);
  return b;
}

static std::string tyname(ares_dns_rec_type_t t)
{
  switch (t) {
    case ARES_REC_TYPE_A: return "A";
    case ARES_REC_TYPE_NS: return "NS";
    case ARES_REC_TYPE_CNAME: return "CNAME";
    case ARES_REC_TYPE_SOA: return "SOA";
    case ARES_REC_TYPE_PTR: return "PTR";
    case ARES_REC_TYPE_HINFO: return "HINFO";
    case ARES_REC_TYPE_MX: return "MX";
    case ARES_REC_TYPE_TXT: return "TXT";
    case ARES_REC_TYPE_AAAA: return "AAAA";
    case ARES_REC_TYPE_SRV: return "SRV";
    case ARES_REC_TYPE_NAPTR: return "NAPTR";
    case ARES_REC_TYPE_URI: return "URI";
    case ARES_REC_TYPE_CAA: return "CAA";
    default: break;
  }
  return "T" + std::to_string((int)t);
}
static ares_dns_rec_type_t tynum(const std::string &s)
{
  static const std::map<std::string, ares_dns_rec_type_t> m = {
    {"A", ARES_REC_TYPE_A}, {"NS", ARES_REC_TYPE_NS}, {"CNAME", ARES_REC_TYPE_CNAME},
    {"SOA", ARES_REC_TYPE_SOA}, {"PTR", ARES_REC_TYPE_PTR}, {"HINFO", ARES_REC_TYPE_HINFO},
    {"MX", ARES_REC_TYPE_MX}, {"TXT", ARES_REC_TYPE_TXT}, {"AAAA", ARES_REC_TYPE_AAAA},
    {"SRV", ARES_REC_TYPE_SRV}, {"NAPTR", ARES_REC_TYPE_NAPTR}, {"URI", ARES_REC_TYPE_URI},
    {"CAA", ARES_REC_TYPE_CAA}};
  auto it = m.find(s);
  if (it == m.end()) { fprintf(stderr, "harness: unknown type %s\n", s.c_str()); exit(3); }
  return it->second;
}

// ---------------------------------------------------------------- vectors
struct RRv {
  std::string sect, name, type;
  int         cls;
  long long   ttl;
  std::map<std::string, std::string> kv;
};
struct Callv { std::string fn, mode; int cap; bool mut; int trunc; int nflips; bool oom = false; };
struct Vec {
  long        id = 0;
  std::string qname, qtype;
  std::vector<RRv>   rrs;
  std::vector<Callv> calls;
  std::string        raw;      // "B <hex>": use these bytes instead of building a message
  bool               has_raw = false;
};

#define CK(x) do { ares_status_t s_ = (x); if (s_ != ARES_SUCCESS) { why = std::string(#x) + ":" + stname((int)s_); goto fail; } } while (0)

static bool build(const Vec &v, std::vector<unsigned char> &bytes, std::string &why)
{
  ares_dns_record_t *rec = NULL;
  unsigned char     *buf = NULL;
  size_t             len = 0;
  CK(ares_dns_record_create(&rec, 0x1234, ARES_FLAG_QR | ARES_FLAG_RD | ARES_FLAG_RA, ARES_OPCODE_QUERY,
                            ARES_RCODE_NOERROR));
  CK(ares_dns_record_query_add(rec, v.qname.c_str(), tynum(v.qtype), ARES_CLASS_IN));
  for (const RRv &r : v.rrs) {
    ares_dns_rr_t     *rr = NULL;
    ares_dns_section_t sect =
      r.sect == "an" ? ARES_SECTION_ANSWER : (r.sect == "ns" ? ARES_SECTION_AUTHORITY : ARES_SECTION_ADDITIONAL);
    ares_dns_rec_type_t t = tynum(r.type);
    auto S = [&](const char *k) -> std::string { auto it = r.kv.find(k); return it == r.kv.end() ? "" : it->second; };
    auto U = [&](const char *k) -> unsigned long { return strtoul(S(k).c_str(), NULL, 10); };
    CK(ares_dns_record_rr_add(&rr, rec, sect, r.name.c_str(), t, (ares_dns_class_t)r.cls, (unsigned int)r.ttl));
    switch (t) {
      case ARES_REC_TYPE_A: {
        struct in_addr a;
        if (inet_pton(AF_INET, S("a").c_str(), &a) != 1) { why = "bad a"; goto fail; }
        CK(ares_dns_rr_set_addr(rr, ARES_RR_A_ADDR, &a));
        break;
      }
      case ARES_REC_TYPE_AAAA: {
        struct ares_in6_addr a;
        if (inet_pton(AF_INET6, S("a").c_str(), &a) != 1) { why = "bad aaaa"; goto fail; }
        CK(ares_dns_rr_set_addr6(rr, ARES_RR_AAAA_ADDR, &a));
        break;
      }
      case ARES_REC_TYPE_CNAME: CK(ares_dns_rr_set_str(rr, ARES_RR_CNAME_CNAME, S("t").c_str())); break;
      case ARES_REC_TYPE_NS: CK(ares_dns_rr_set_str(rr, ARES_RR_NS_NSDNAME, S("t").c_str())); break;
      case ARES_REC_TYPE_PTR: CK(ares_dns_rr_set_str(rr, ARES_RR_PTR_DNAME, S("t").c_str())); break;
      case ARES_REC_TYPE_MX:
        CK(ares_dns_rr_set_u16(rr, ARES_RR_MX_PREFERENCE, (unsigned short)U("pref")));
        CK(ares_dns_rr_set_str(rr, ARES_RR_MX_EXCHANGE, S("t").c_str()));
        break;
      case ARES_REC_TYPE_SRV:
        CK(ares_dns_rr_set_u16(rr, ARES_RR_SRV_PRIORITY, (unsigned short)U("prio")));
        CK(ares_dns_rr_set_u16(rr, ARES_RR_SRV_WEIGHT, (unsigned short)U("weight")));
        CK(ares_dns_rr_set_u16(rr, ARES_RR_SRV_PORT, (unsigned short)U("port")));
        CK(ares_dns_rr_set_str(rr, ARES_RR_SRV_TARGET, S("t").c_str()));
        break;
      case ARES_REC_TYPE_NAPTR:
        CK(ares_dns_rr_set_u16(rr, ARES_RR_NAPTR_ORDER, (unsigned short)U("order")));
        CK(ares_dns_rr_set_u16(rr, ARES_RR_NAPTR_PREFERENCE, (unsigned short)U("pref")));
        CK(ares_dns_rr_set_str(rr, ARES_RR_NAPTR_FLAGS, unhex(S("flags")).c_str()));
        CK(ares_dns_rr_set_str(rr, ARES_RR_NAPTR_SERVICES, unhex(S("svc")).c_str()));
        CK(ares_dns_rr_set_str(rr, ARES_RR_NAPTR_REGEXP, unhex(S("re")).c_str()));
        CK(ares_dns_rr_set_str(rr, ARES_RR_NAPTR_REPLACEMENT, S("repl").c_str()));
        break;
      case ARES_REC_TYPE_CAA: {
        std::string val = unhex(S("val"));
        CK(ares_dns_rr_set_u8(rr, ARES_RR_CAA_CRITICAL, (unsigned char)U("crit")));
        CK(ares_dns_rr_set_str(rr, ARES_RR_CAA_TAG, unhex(S("tag")).c_str()));
        CK(ares_dns_rr_set_bin(rr, ARES_RR_CAA_VALUE, (const unsigned char *)val.data(), val.size()));
        break;
      }
      case ARES_REC_TYPE_URI:
        CK(ares_dns_rr_set_u16(rr, ARES_RR_URI_PRIORITY, (unsigned short)U("prio")));
        CK(ares_dns_rr_set_u16(rr, ARES_RR_URI_WEIGHT, (unsigned short)U("weight")));
        CK(ares_dns_rr_set_str(rr, ARES_RR_URI_TARGET, unhex(S("uri")).c_str()));
        break;
      case ARES_REC_TYPE_TXT: {
        std::stringstream ss(S("chunks"));
        std::string       tok;
        while (std::getline(ss, tok, ',')) {
          std::string b = unhex(tok);
          CK(ares_dns_rr_add_abin(rr, ARES_RR_TXT_DATA, (const unsigned char *)b.data(), b.size()));
        }
        break;
      }
      case ARES_REC_TYPE_SOA:
        CK(ares_dns_rr_set_str(rr, ARES_RR_SOA_MNAME, S("mname").c_str()));
        CK(ares_dns_rr_set_str(rr, ARES_RR_SOA_RNAME, S("rname").c_str()));
        CK(ares_dns_rr_set_u32(rr, ARES_RR_SOA_SERIAL, (unsigned int)strtoll(S("serial").c_str(), NULL, 10)));
        CK(ares_dns_rr_set_u32(rr, ARES_RR_SOA_REFRESH, (unsigned int)strtoll(S("refresh").c_str(), NULL, 10)));
        CK(ares_dns_rr_set_u32(rr, ARES_RR_SOA_RETRY, (unsigned int)strtoll(S("retry").c_str(), NULL, 10)));
        CK(ares_dns_rr_set_u32(rr, ARES_RR_SOA_EXPIRE, (unsigned int)strtoll(S("expire").c_str(), NULL, 10)));
        CK(ares_dns_rr_set_u32(rr, ARES_RR_SOA_MINIMUM, (unsigned int)strtoll(S("minimum").c_str(), NULL, 10)));
        break;
      case ARES_REC_TYPE_HINFO:
        CK(ares_dns_rr_set_str(rr, ARES_RR_HINFO_CPU, "c"));
        CK(ares_dns_rr_set_str(rr, ARES_RR_HINFO_OS, "o"));
        break;
      default: why = "type not supported by the harness: " + r.type; goto fail;
    }
  }
  CK(ares_dns_write(rec, &buf, &len));
  bytes.assign(buf, buf + len);
  ares_free_string(buf);
  ares_dns_record_destroy(rec);
  return true;
fail:
  if (buf) ares_free_string(buf);
  ares_dns_record_destroy(rec);
  return false;
}

// ---------------------------------------------------------------- record API dump
static std::string dump_rr(const ares_dns_rr_t *rr)
{
  ares_dns_rec_type_t t = ares_dns_rr_get_type(rr);
  std::string         o = "{\"name\":" + jstr(ares_dns_rr_get_name(rr)) + ",\"type\":" + jstr(tyname(t)) +
                  ",\"cls\":" + num((int)ares_dns_rr_get_class(rr)) + ",\"ttl\":" + s32(ares_dns_rr_get_ttl(rr));
  size_t len = 0;
  switch (t) {
    case ARES_REC_TYPE_A: o += ",\"a\":" + jstr(ip4(ares_dns_rr_get_addr(rr, ARES_RR_A_ADDR))); break;
    case ARES_REC_TYPE_AAAA: o += ",\"a\":" + jstr(ip6(ares_dns_rr_get_addr6(rr, ARES_RR_AAAA_ADDR))); break;
    case ARES_REC_TYPE_CNAME: o += ",\"t\":" + jstr(ares_dns_rr_get_str(rr, ARES_RR_CNAME_CNAME)); break;
    case ARES_REC_TYPE_NS: o += ",\"t\":" + jstr(ares_dns_rr_get_str(rr, ARES_RR_NS_NSDNAME)); break;
    case ARES_REC_TYPE_PTR: o += ",\"t\":" + jstr(ares_dns_rr_get_str(rr, ARES_RR_PTR_DNAME)); break;
    case ARES_REC_TYPE_MX:
      o += ",\"pref\":" + num(ares_dns_rr_get_u16(rr, ARES_RR_MX_PREFERENCE)) +
           ",\"t\":" + jstr(ares_dns_rr_get_str(rr, ARES_RR_MX_EXCHANGE));
      break;
    case ARES_REC_TYPE_SRV:
      o += ",\"prio\":" + num(ares_dns_rr_get_u16(rr, ARES_RR_SRV_PRIORITY)) +
           ",\"weight\":" + num(ares_dns_rr_get_u16(rr, ARES_RR_SRV_WEIGHT)) +
           ",\"port\":" + num(ares_dns_rr_get_u16(rr, ARES_RR_SRV_PORT)) +
           ",\"t\":" + jstr(ares_dns_rr_get_str(rr, ARES_RR_SRV_TARGET));
      break;
    case ARES_REC_TYPE_NAPTR:
      o += ",\"order\":" + num(ares_dns_rr_get_u16(rr, ARES_RR_NAPTR_ORDER)) +
           ",\"pref\":" + num(ares_dns_rr_get_u16(rr, ARES_RR_NAPTR_PREFERENCE)) +
           ",\"flags\":" + jstr(ares_dns_rr_get_str(rr, ARES_RR_NAPTR_FLAGS)) +
           ",\"svc\":" + jstr(ares_dns_rr_get_str(rr, ARES_RR_NAPTR_SERVICES)) +
           ",\"re\":" + jstr(ares_dns_rr_get_str(rr, ARES_RR_NAPTR_REGEXP)) +
           ",\"repl\":" + jstr(ares_dns_rr_get_str(rr, ARES_RR_NAPTR_REPLACEMENT));
      break;
    case ARES_REC_TYPE_CAA: {
      const unsigned char *p = ares_dns_rr_get_bin(rr, ARES_RR_CAA_VALUE, &len);
      o += ",\"crit\":" + num(ares_dns_rr_get_u8(rr, ARES_RR_CAA_CRITICAL)) +
           ",\"tag\":" + jstr(ares_dns_rr_get_str(rr, ARES_RR_CAA_TAG)) +
           ",\"val\":" + jstr(p ? hexs(p, len) : std::string(""));
      break;
    }
    case ARES_REC_TYPE_URI:
      o += ",\"prio\":" + num(ares_dns_rr_get_u16(rr, ARES_RR_URI_PRIORITY)) +
           ",\"weight\":" + num(ares_dns_rr_get_u16(rr, ARES_RR_URI_WEIGHT)) +
           ",\"uri\":" + jstr(ares_dns_rr_get_str(rr, ARES_RR_URI_TARGET));
      break;
    case ARES_REC_TYPE_TXT: {
      size_t cnt = ares_dns_rr_get_abin_cnt(rr, ARES_RR_TXT_DATA);
      o += ",\"chunks\":[";
      for (size_t i = 0; i < cnt; i++) {
        const unsigned char *p = ares_dns_rr_get_abin(rr, ARES_RR_TXT_DATA, i, &len);
        if (i) o += ",";
        o += jstr(p ? hexs(p, len) : std::string(""));
      }
      o += "]";
      break;
    }
    case ARES_REC_TYPE_SOA:
      o += ",\"mname\":" + jstr(ares_dns_rr_get_str(rr, ARES_RR_SOA_MNAME)) +
           ",\"rname\":" + jstr(ares_dns_rr_get_str(rr, ARES_RR_SOA_RNAME)) +
           ",\"serial\":" + s32(ares_dns_rr_get_u32(rr, ARES_RR_SOA_SERIAL)) +
           ",\"refresh\":" + s32(ares_dns_rr_get_u32(rr, ARES_RR_SOA_REFRESH)) +
           ",\"retry\":" + s32(ares_dns_rr_get_u32(rr, ARES_RR_SOA_RETRY)) +
           ",\"expire\":" + s32(ares_dns_rr_get_u32(rr, ARES_RR_SOA_EXPIRE)) +
           ",\"minimum\":" + s32(ares_dns_rr_get_u32(rr, ARES_RR_SOA_MINIMUM));
      break;
    default: break;
  }
  return o + "}";
}

static std::string dump_rec(const ares_dns_record_t *rec)
{
  const char         *qn = NULL;
  ares_dns_rec_type_t qt = ARES_REC_TYPE_A;
  ares_dns_class_t    qc = ARES_CLASS_IN;
  ares_dns_record_query_get(rec, 0, &qn, &qt, &qc);
  std::string o = "{\"q\":{\"name\":" + jstr(qn) + ",\"type\":" + jstr(tyname(qt)) + "}";
  static const struct { ares_dns_section_t s; const char *n; } sects[] = {
    {ARES_SECTION_ANSWER, "an"}, {ARES_SECTION_AUTHORITY, "ns"}, {ARES_SECTION_ADDITIONAL, "ar"}};
  for (auto &sc : sects) {
    o += std::string(",\"") + sc.n + "\":[";
    size_t cnt = ares_dns_record_rr_cnt(rec, sc.s);
    for (size_t i = 0; i < cnt; i++) {
      if (i) o += ",";
      o += dump_rr(ares_dns_record_rr_get_const(rec, sc.s, i));
    }
    o += "]";
  }
  return o + "}";
}

// ---------------------------------------------------------------- legacy calls
static const int    GUARD = 4;
static const unsigned char FILL = 0xA5;

static std::string dump_hostent(const struct hostent *h)
{
  if (h == NULL) return "{\"present\":0}";
  std::string o = "{\"present\":1,\"name\":" + jstr(h->h_name) + ",\"aliases\":[";
  for (size_t i = 0; h->h_aliases && h->h_aliases[i]; i++) { if (i) o += ","; o += jstr(h->h_aliases[i]); }
  o += "],\"addrs\":[";
  for (size_t i = 0; h->h_addr_list && h->h_addr_list[i]; i++) {
    if (i) o += ",";
    if (h->h_addrtype == AF_INET && h->h_length == 4) o += jstr(ip4(h->h_addr_list[i]));
    else if (h->h_addrtype == AF_INET6 && h->h_length == 16) o += jstr(ip6(h->h_addr_list[i]));
    else o += jstr(hexs((const unsigned char *)h->h_addr_list[i], h->h_length > 0 ? (size_t)h->h_length : 0));
  }
  o += "],\"addrtype\":";
  o += h->h_addrtype == AF_INET ? "\"INET\"" : (h->h_addrtype == AF_INET6 ? "\"INET6\"" : jstr("AF" + num(h->h_addrtype)));
  o += ",\"length\":" + num(h->h_length) + "}";
  return o;
}

static bool all_fill(const unsigned char *p, size_t n)
{
  for (size_t i = 0; i < n; i++) if (p[i] != FILL) return false;
  return true;
}

// one legacy call on `buf`; returns the JSON "out" object
static std::string call_legacy(const std::string &fn, const std::string &mode, int cap, const unsigned char *buf, int len)
{
  long        live0 = g_live;
  int         st    = -1;
  g_cur_fn          = fn.c_str();
  std::string items = "[]";
  std::string host  = "{\"present\":0}";
  long        n     = 0;
  int         guard = 1;
  std::string o;

  if (fn == "a" || fn == "aaaa") {
    bool            want_host = (mode == "both" || mode == "host");
    bool            want_ttls = (mode == "both" || mode == "ttls");
    struct hostent *h         = NULL;
    int             cnt       = cap;
    size_t          esz       = fn == "a" ? sizeof(struct ares_addrttl) : sizeof(struct ares_addr6ttl);
    size_t          total     = (size_t)(cap + GUARD);
    unsigned char  *arr       = (unsigned char *)malloc(total * esz);
    memset(arr, FILL, total * esz);
    if (fn == "a")
      PARSE(ares_parse_a_reply(buf, len, want_host ? &h : NULL, want_ttls ? (struct ares_addrttl *)arr : NULL,
                              want_ttls ? &cnt : NULL));
    else
      PARSE(ares_parse_aaaa_reply(buf, len, want_host ? &h : NULL, want_ttls ? (struct ares_addr6ttl *)arr : NULL,
                                 want_ttls ? &cnt : NULL));
    if (want_ttls) {
      n     = cnt;
      guard = all_fill(arr + (size_t)cap * esz, (size_t)GUARD * esz) ? 1 : 0;
      long show = n < 0 ? 0 : (n > (long)total ? (long)total : n);
      items = "[";
      for (long i = 0; i < show; i++) {
        if (i) items += ",";
        if (fn == "a") {
          struct ares_addrttl *e = (struct ares_addrttl *)arr + i;
          items += "{\"ip\":" + jstr(ip4(&e->ipaddr)) + ",\"ttl\":" + num(e->ttl) + "}";
        } else {
          struct ares_addr6ttl *e = (struct ares_addr6ttl *)arr + i;
          items += "{\"ip\":" + jstr(ip6(&e->ip6addr)) + ",\"ttl\":" + num(e->ttl) + "}";
        }
      }
      items += "]";
    }
    if (want_host) host = dump_hostent(h);
    if (h) ares_free_hostent(h);
    free(arr);
  } else if (fn == "ns") {
    struct hostent *h = NULL;
    PARSE(ares_parse_ns_reply(buf, len, &h));
    host              = dump_hostent(h);
    if (h) ares_free_hostent(h);
  } else if (fn == "ptr") {
    struct hostent *h = NULL;
    struct in_addr  a;
    inet_pton(AF_INET, "10.9.8.7", &a);
    if (mode == "addr") PARSE(ares_parse_ptr_reply(buf, len, &a, (int)sizeof(a), AF_INET, &h));
    else PARSE(ares_parse_ptr_reply(buf, len, NULL, 0, AF_INET, &h));
    host = dump_hostent(h);
    if (h) ares_free_hostent(h);
  } else if (fn == "mx") {
    struct ares_mx_reply *l = NULL;
    PARSE(ares_parse_mx_reply(buf, len, &l));
    items                   = "[";
    for (struct ares_mx_reply *p = l; p; p = p->next, n++) {
      if (n) items += ",";
      items += "{\"host\":" + jstr(p->host) + ",\"priority\":" + num(p->priority) + "}";
    }
    items += "]";
    if (l) ares_free_data(l);
  } else if (fn == "srv") {
    struct ares_srv_reply *l = NULL;
    PARSE(ares_parse_srv_reply(buf, len, &l));
    items                    = "[";
    for (struct ares_srv_reply *p = l; p; p = p->next, n++) {
      if (n) items += ",";
      items += "{\"host\":" + jstr(p->host) + ",\"priority\":" + num(p->priority) + ",\"weight\":" + num(p->weight) +
               ",\"port\":" + num(p->port) + "}";
    }
    items += "]";
    if (l) ares_free_data(l);
  } else if (fn == "uri") {
    struct ares_uri_reply *l = NULL;
    PARSE(ares_parse_uri_reply(buf, len, &l));
    items                    = "[";
    for (struct ares_uri_reply *p = l; p; p = p->next, n++) {
      if (n) items += ",";
      items += "{\"priority\":" + num(p->priority) + ",\"weight\":" + num(p->weight) + ",\"uri\":" + jstr(p->uri) +
               ",\"ttl\":" + num(p->ttl) + "}";
    }
    items += "]";
    if (l) ares_free_data(l);
  } else if (fn == "naptr") {
    struct ares_naptr_reply *l = NULL;
    PARSE(ares_parse_naptr_reply(buf, len, &l));
    items                      = "[";
    for (struct ares_naptr_reply *p = l; p; p = p->next, n++) {
      if (n) items += ",";
      items += "{\"flags\":" + jstr((const char *)p->flags) + ",\"service\":" + jstr((const char *)p->service) +
               ",\"regexp\":" + jstr((const char *)p->regexp) + ",\"replacement\":" + jstr(p->replacement) +
               ",\"order\":" + num(p->order) + ",\"preference\":" + num(p->preference) + "}";
    }
    items += "]";
    if (l) ares_free_data(l);
  } else if (fn == "caa") {
    struct ares_caa_reply *l = NULL;
    PARSE(ares_parse_caa_reply(buf, len, &l));
    items                    = "[";
    for (struct ares_caa_reply *p = l; p; p = p->next, n++) {
      if (n) items += ",";
      items += "{\"critical\":" + num(p->critical) + ",\"property\":" + jstr((const char *)p->property) +
               ",\"plength\":" + num((long long)p->plength) +
               ",\"value\":" + jstr(p->value ? hexs(p->value, p->length) : std::string("<null>")) +
               ",\"length\":" + num((long long)p->length) + "}";
    }
    items += "]";
    if (l) ares_free_data(l);
  } else if (fn == "txt") {
    struct ares_txt_reply *l = NULL;
    PARSE(ares_parse_txt_reply(buf, len, &l));
    items                    = "[";
    for (struct ares_txt_reply *p = l; p; p = p->next, n++) {
      if (n) items += ",";
      items += "{\"txt\":" + jstr(p->txt ? hexs(p->txt, p->length) : std::string("<null>")) +
               ",\"length\":" + num((long long)p->length) + "}";
    }
    items += "]";
    if (l) ares_free_data(l);
  } else if (fn == "txt_ext") {
    struct ares_txt_ext *l = NULL;
    PARSE(ares_parse_txt_reply_ext(buf, len, &l));
    items                  = "[";
    for (struct ares_txt_ext *p = l; p; p = p->next, n++) {
      if (n) items += ",";
      items += "{\"txt\":" + jstr(p->txt ? hexs(p->txt, p->length) : std::string("<null>")) +
               ",\"length\":" + num((long long)p->length) +
               ",\"record_start\":" + num(p->record_start) + "}";
    }
    items += "]";
    if (l) ares_free_data(l);
  } else if (fn == "soa") {
    struct ares_soa_reply *s = NULL;
    PARSE(ares_parse_soa_reply(buf, len, &s));
    items                    = "[";
    if (s) {
      n = 1;
      items += "{\"nsname\":" + jstr(s->nsname) + ",\"hostmaster\":" + jstr(s->hostmaster) +
               ",\"serial\":" + s32(s->serial) + ",\"refresh\":" + s32(s->refresh) + ",\"retry\":" + s32(s->retry) +
               ",\"expire\":" + s32(s->expire) + ",\"minttl\":" + s32(s->minttl) + "}";
    }
    items += "]";
    if (s) ares_free_data(s);
  } else {
    fprintf(stderr, "harness: unknown function %s\n", fn.c_str());
    exit(3);
  }
  o = "{\"fn\":" + jstr(fn) + ",\"mode\":" + jstr(mode) + ",\"cap\":" + num(cap) + ",\"st\":" + jstr(stname(st)) +
      ",\"items\":" + items + ",\"n\":" + num(n) + ",\"guard\":" + num(guard) + ",\"host\":" + host +
      ",\"leak\":" + num(g_live - live0);
  if (g_arm > 0) o += ",\"oom\":" + num(g_arm) + ",\"hit\":" + num(g_hit) + ",\"allocs\":" + num(g_count);
  g_track = 0;
  if (!g_blocks.empty()) {
    std::vector<void *> left(g_blocks.begin(), g_blocks.end());
    g_blocks.clear();
    for (void *p : left) cnt_free(p);      // reported above as "leak"; released here
  }
  o += "}";
  g_cur_fn = NULL;
  return o;
}

// one ndjson line: the bytes, what the record API says, and the legacy calls on them
static void run_bytes(const Vec &v, const std::string &mut, const std::vector<unsigned char> &b,
                      const std::vector<Callv> &calls, bool mutated)
{
  // exact-size heap copy so that any over-read of the message is an ASan error
  unsigned char *buf = (unsigned char *)malloc(b.size() ? b.size() : 1);
  if (!b.empty()) memcpy(buf, b.data(), b.size());
  ares_dns_record_t *rec = NULL;
  ares_status_t      pst = ares_dns_parse(buf, b.size(), 0, &rec);
  std::string        line = "{\"e\":\"msg\",\"id\":" + num(v.id) + ",\"mut\":" + jstr(mut) +
                     ",\"len\":" + num((long long)b.size()) + ",\"ok\":" + num(pst == ARES_SUCCESS ? 1 : 0) +
                     ",\"pst\":" + jstr(stname((int)pst));
  if (pst == ARES_SUCCESS) line += ",\"rec\":" + dump_rec(rec);
  ares_dns_record_destroy(rec);
  line += ",\"calls\":[";
  bool first = true;
  for (const Callv &c : calls) {
    if (c.mut != mutated || c.oom) continue;
    if (!first) line += ",";
    first = false;
    line += call_legacy(c.fn, c.mode, c.cap, buf, (int)b.size());
  }
  line += "]}\n";
  fputs(line.c_str(), g_out);
  free(buf);
}

// allocation-failure sweep of one call on the intact bytes: one ndjson line, one call entry per fault index
static const long OOM_MAX_INDEX = 20000;
static void run_oom(const Vec &v, const std::vector<unsigned char> &b, const Callv &c)
{
  unsigned char *buf = (unsigned char *)malloc(b.size() ? b.size() : 1);
  if (!b.empty()) memcpy(buf, b.data(), b.size());
  ares_dns_record_t *rec = NULL;
  ares_status_t      pst = ares_dns_parse(buf, b.size(), 0, &rec);
  std::string        line = "{\"e\":\"msg\",\"id\":" + num(v.id) + ",\"mut\":\"oom\",\"len\":" + num((long long)b.size()) +
                     ",\"ok\":" + num(pst == ARES_SUCCESS ? 1 : 0) + ",\"pst\":" + jstr(stname((int)pst));
  if (pst == ARES_SUCCESS) line += ",\"rec\":" + dump_rec(rec);
  ares_dns_record_destroy(rec);
  line += ",\"calls\":[";
  for (long n = 1;; n++) {
    if (n > OOM_MAX_INDEX) { fprintf(stderr, "harness: allocation sweep of vector %ld does not end\n", v.id); exit(3); }
    g_arm = n;
    std::string out = call_legacy(c.fn, c.mode, c.cap, buf, (int)b.size());
    int hit = g_hit;
    g_arm = 0;
    if (n > 1) line += ",";
    line += out;
    if (!hit) break;        // the call made fewer than n allocation requests: every index has been failed
  }
  line += "]}\n";
  fputs(line.c_str(), g_out);
  free(buf);
}

static uint64_t g_rng = 88172645463325252ULL;
static uint32_t rnd()
{
  g_rng ^= g_rng << 13; g_rng ^= g_rng >> 7; g_rng ^= g_rng << 17;
  return (uint32_t)(g_rng >> 16);
}

static void run_vec(const Vec &v, uint64_t seed)
{
  std::vector<unsigned char> bytes;
  std::string                why;
  if (v.has_raw) {
    bytes.assign(v.raw.begin(), v.raw.end());
  } else if (!build(v, bytes, why)) {
    fprintf(g_out, "{\"e\":\"skip\",\"id\":%ld,\"why\":%s}\n", v.id, jstr(why).c_str());
    return;
  }
  bool any_plain = false, any_mut = false, trunc = false;
  int  nflips = 0;
  for (const Callv &c : v.calls) {
    if (c.oom) continue;
    if (c.mut) { any_mut = true; trunc = trunc || c.trunc; if (c.nflips > nflips) nflips = c.nflips; }
    else any_plain = true;
  }
  if (any_plain) run_bytes(v, "none", bytes, v.calls, false);
  for (const Callv &c : v.calls)
    if (c.oom) run_oom(v, bytes, c);
  if (any_mut) {
    if (trunc) {
      for (size_t l = 0; l < bytes.size(); l++) {
        std::vector<unsigned char> t(bytes.begin(), bytes.begin() + (long)l);
        run_bytes(v, "trunc", t, v.calls, true);
      }
    }
    g_rng = 88172645463325252ULL ^ (seed * 0x9E3779B97F4A7C15ULL) ^ ((uint64_t)v.id * 0xD1B54A32D192ED03ULL);
    if (g_rng == 0) g_rng = 1;
    static const unsigned char interesting[] = {0x00, 0x01, 0x03, 0x05, 0x0c, 0x0f, 0x10, 0x1c, 0x21, 0x23,
                                                0x3f, 0x40, 0x7f, 0x80, 0xc0, 0xc1, 0xff};
    for (int i = 0; i < nflips; i++) {
      std::vector<unsigned char> m = bytes;
      size_t                     pos = rnd() % m.size();
      unsigned                   how = rnd() % 4;
      unsigned char              old = m[pos];
      if (how == 0) m[pos] = (unsigned char)(old ^ (1u << (rnd() % 8)));
      else if (how == 1) m[pos] = interesting[rnd() % sizeof(interesting)];
      else if (how == 2) m[pos] = (unsigned char)(old + 1);
      else m[pos] = (unsigned char)rnd();
      if (m[pos] == old) m[pos] = (unsigned char)(old ^ 0x01);
      // sometimes add a second mutation or trailing garbage
      unsigned extra = rnd() % 8;
      if (extra == 0) { size_t p2 = rnd() % m.size(); m[p2] = (unsigned char)rnd(); }
      else if (extra == 1) { m.push_back((unsigned char)rnd()); }
      run_bytes(v, "flip", m, v.calls, true);
    }
  }
}

int main(int argc, char **argv)
{
  if (argc < 3) { fprintf(stderr, "usage: %s vectors.txt out.ndjson [seed]\n", argv[0]); return 3; }
  uint64_t seed = argc > 3 ? strtoull(argv[3], NULL, 10) : 1;
  if (ares_library_init_mem(ARES_LIB_INIT_ALL, cnt_malloc, cnt_free, cnt_realloc) != ARES_SUCCESS) {
    fprintf(stderr, "harness: ares_library_init_mem failed\n");
    return 3;
  }
#ifdef HAVE_LSAN
  __sanitizer_set_death_callback(on_sanitizer_death);
#endif
  FILE *in = fopen(argv[1], "r");
  g_out    = fopen(argv[2], "w");
  if (!in || !g_out) { fprintf(stderr, "harness: cannot open files\n"); return 3; }
  char  *line = NULL;
  size_t cap  = 0;
  Vec    v;
  long   nvec = 0;
  while (getline(&line, &cap, in) > 0) {
    std::vector<std::string> tok;
    {
      std::stringstream ss(line);
      std::string       t;
      while (ss >> t) tok.push_back(t);
    }
    if (tok.empty()) continue;
    if (tok[0] == "V" && tok.size() >= 2) { v = Vec(); v.id = strtol(tok[1].c_str(), NULL, 10); }
    else if (tok[0] == "Q" && tok.size() >= 3) { v.qname = tok[1]; v.qtype = tok[2]; }
    else if (tok[0] == "B" && tok.size() >= 2) { v.raw = unhex(tok[1]); v.has_raw = true; }
    else if (tok[0] == "R" && tok.size() >= 6) {
      RRv r;
      r.sect = tok[1]; r.name = tok[2]; r.type = tok[3];
      r.cls  = atoi(tok[4].c_str());
      r.ttl  = strtoll(tok[5].c_str(), NULL, 10);
      for (size_t i = 6; i < tok.size(); i++) {
        size_t eq = tok[i].find('=');
        if (eq == std::string::npos) continue;
        r.kv[tok[i].substr(0, eq)] = tok[i].substr(eq + 1);
      }
      v.rrs.push_back(r);
    } else if (tok[0] == "C" && tok.size() >= 4) {
      v.calls.push_back(Callv{tok[1], tok[2], atoi(tok[3].c_str()), false, 0, 0});
    } else if (tok[0] == "O" && tok.size() >= 4) {
      Callv c{tok[1], tok[2], atoi(tok[3].c_str()), false, 0, 0};
      c.oom = true;
      v.calls.push_back(c);
    } else if (tok[0] == "M" && tok.size() >= 6) {
      v.calls.push_back(Callv{tok[1], tok[2], atoi(tok[3].c_str()), true, atoi(tok[4].c_str()), atoi(tok[5].c_str())});
    } else if (tok[0] == "E") {
      g_cur = v.id;
      run_vec(v, seed);
      nvec++;
    } else {
      fprintf(stderr, "harness: bad line: %s", line);
      return 3;
    }
  }
  free(line);
  fclose(in);
  int leaks = 0;
#ifdef HAVE_LSAN
  leaks = __lsan_do_recoverable_leak_check();
#endif
  fprintf(g_out, "{\"e\":\"end\",\"vectors\":%ld,\"live\":%ld,\"lsan\":%d}\n", nvec, g_live, leaks);
  fclose(g_out);
  ares_library_cleanup();
  return 0;
}
