// cares_thr -- threaded harness for C11 and the event-thread half of C07.
//
// Real loopback sockets, an in-process DNS server thread (UDP on two ports and
// TCP) that answers names starting with 'a' and stays silent for every other
// name, a channel with ARES_OPT_EVENT_THREAD on a chosen backend, client
// threads running operation programs, H4 phase gates to place an operation at a
// chosen phase of the event loop, H3 synchronisation-event log (ndjson), callback
// counters and a watchdog.
//
// Modes (first argument):
//   c07    --backend B --reuse R --phase P [--trace F]       one C07b scenario
//   sched  --file schedules.json [--trace F]                 TLC derived schedules
//   stress --backend B --seed N --threads K --ops M [--trace F]
//   d11    --backend B [--trace F]                           concurrent reinit callers
// Every mode prints one JSON object per scenario on stdout ("result" lines).
//
// The event log is a preallocated array indexed by a relaxed atomic counter that
// is incremented inside the hook, i.e. while the lock concerned is held.  Relaxed
// atomics add no happens-before edges, so ThreadSanitizer's view of the library
// is not changed by the logging.

#include <arpa/inet.h>
#include <fcntl.h>
#include <netinet/in.h>
#include <poll.h>
#include <pthread.h>
#include <sched.h>
#include <sys/socket.h>
#include <sys/time.h>
#include <time.h>
#include <unistd.h>

#include <atomic>
#include <condition_variable>
#include <cstdarg>
#include <cstdint>
#include <cstdio>
#include <cstdlib>
#include <cstring>
#include <functional>
#include <map>
#include <mutex>
#include <string>
#include <thread>
#include <vector>

#include "vjson.h"

extern "C" {
#include "ares_private.h"
#include "event/ares_event.h"
#include "ares_verif.h"
}

// ---------------------------------------------------------------------------
// time, thread ids, event log
// ---------------------------------------------------------------------------
static struct timespec g_t0;
static inline int32_t  now_ms()
{
  struct timespec ts;
  clock_gettime(CLOCK_MONOTONIC, &ts);
  return (int32_t)((ts.tv_sec - g_t0.tv_sec) * 1000 + (ts.tv_nsec - g_t0.tv_nsec) / 1000000);
}

static std::atomic<int> g_next_tid{1};
static thread_local int tl_tid = -1;
static inline int       my_tid()
{
  if (tl_tid < 0) tl_tid = g_next_tid.fetch_add(1, std::memory_order_relaxed);
  return tl_tid;
}

enum {
  K_CALL = 32, K_RET, K_CB, K_PHASE, K_DL, K_KICK, K_END, K_OPDONE
};
enum { API_SEND = 1, API_CANCEL, API_SETSRV, API_REINIT, API_WAIT, API_DESTROY, API_ACTIVE, API_TIMEOUT };
static const char *api_name(int a)
{
  switch (a) {
    case API_SEND: return "send";
    case API_CANCEL: return "cancel";
    case API_SETSRV: return "setsrv";
    case API_REINIT: return "reinit";
    case API_WAIT: return "wait";
    case API_DESTROY: return "destroy";
    case API_ACTIVE: return "active";
    case API_TIMEOUT: return "timeout";
  }
  return "?";
}

struct Ev {
  uint8_t     k;
  int16_t     t;
  int32_t     ms;
  const void *obj;
  const void *aux;
  int32_t     a, b;
};
static const uint32_t        MAXEV = 1u << 19;
static Ev                   *g_ev;
static std::atomic<uint32_t> g_nev{0};
static std::atomic<int>      g_log_on{0};

static inline void logev(int k, const void *obj, const void *aux, int32_t a, int32_t b)
{
  if (!g_log_on.load(std::memory_order_relaxed)) return;
  uint32_t i = g_nev.fetch_add(1, std::memory_order_relaxed);
  if (i >= MAXEV) return;
  Ev &e = g_ev[i];
  e.k   = (uint8_t)k;
  e.t   = (int16_t)my_tid();
  e.ms  = now_ms();
  e.obj = obj;
  e.aux = aux;
  e.a   = a;
  e.b   = b;
}

// ---------------------------------------------------------------------------
// DNS server thread
// ---------------------------------------------------------------------------
struct Pkt {
  int32_t     ms;
  std::string name;
  int         srcport;
  int         tcp;
  int         idx;
};

struct Server {
  int               udp[2] = { -1, -1 };
  int               tcp    = -1;
  int               port[2] = { 0, 0 };
  int               tport   = 0;
  std::atomic<bool> stop{false};
  std::thread       th;
  std::mutex        m;
  std::vector<Pkt>  pkts;

  static int bind_sock(int type, int *port)
  {
    int fd = socket(AF_INET, type, 0);
    if (fd < 0) return -1;
    int one = 1;
    setsockopt(fd, SOL_SOCKET, SO_REUSEADDR, &one, sizeof(one));
    struct sockaddr_in sa;
    memset(&sa, 0, sizeof(sa));
    sa.sin_family      = AF_INET;
    sa.sin_addr.s_addr = htonl(INADDR_LOOPBACK);
    sa.sin_port        = htons((uint16_t)*port);
    if (bind(fd, (struct sockaddr *)&sa, sizeof(sa)) != 0) {
      close(fd);
      return -1;
    }
    socklen_t sl = sizeof(sa);
    getsockname(fd, (struct sockaddr *)&sa, &sl);
    *port = ntohs(sa.sin_port);
    fcntl(fd, F_SETFL, fcntl(fd, F_GETFL, 0) | O_NONBLOCK);
    return fd;
  }

  bool start()
  {
    // the TCP listener shares the number of the first UDP port (c-ares uses one
    // port number per server for both transports when given "ip:port")
    for (int attempt = 0; attempt < 20; attempt++) {
      port[0] = 0;
      udp[0]  = bind_sock(SOCK_DGRAM, &port[0]);
      tport   = port[0];
      tcp     = udp[0] >= 0 ? bind_sock(SOCK_STREAM, &tport) : -1;
      if (tcp >= 0) break;
      if (udp[0] >= 0) close(udp[0]);
      udp[0] = -1;
    }
    udp[1] = bind_sock(SOCK_DGRAM, &port[1]);
    if (udp[0] < 0 || udp[1] < 0 || tcp < 0) return false;
    listen(tcp, 16);
    th = std::thread([this] { run(); });
    return true;
  }

  void shutdown()
  {
    stop.store(true);
    if (th.joinable()) th.join();
    for (int i = 0; i < 2; i++)
      if (udp[i] >= 0) close(udp[i]);
    if (tcp >= 0) close(tcp);
  }

  static std::string qname(const unsigned char *b, size_t n)
  {
    std::string s;
    size_t      i = 12;
    while (i < n && b[i] != 0) {
      size_t l = b[i++];
      if (l > 63 || i + l > n) return "?";
      if (!s.empty()) s += '.';
      for (size_t j = 0; j < l; j++) {
        char c = (char)b[i + j];
        if (c >= 'A' && c <= 'Z') c = (char)(c - 'A' + 'a');
        s += c;
      }
      i += l;
    }
    return s;
  }

  void record(const std::string &nm, int srcport, int istcp, int idx)
  {
    std::lock_guard<std::mutex> g(m);
    pkts.push_back(Pkt{ now_ms(), nm, srcport, istcp, idx });
  }

  int count(const std::string &nm)
  {
    std::lock_guard<std::mutex> g(m);
    int                         c = 0;
    for (auto &p : pkts)
      if (p.name == nm) c++;
    return c;
  }

  std::vector<Pkt> packets(const std::string &nm)
  {
    std::lock_guard<std::mutex> g(m);
    std::vector<Pkt>            v;
    for (auto &p : pkts)
      if (p.name == nm) v.push_back(p);
    return v;
  }

  // reply = query with QR set, one A record (TTL 100), additional section dropped.
  // The buffer must have room for 16 more bytes.
  static size_t mkreply(unsigned char *b, size_t n)
  {
    static const unsigned char rr[16] = { 0xc0, 0x0c, 0, 1, 0, 1, 0, 0, 0, 100, 0, 4, 127, 0, 0, 1 };
    if (n < 12) return 0;
    b[2] = (unsigned char)(b[2] | 0x80);
    b[3] = 0x80;
    size_t i = 12;
    while (i < n && b[i] != 0) i += (size_t)b[i] + 1;
    i += 5;
    if (i > n) return 0;
    b[6] = 0;
    b[7] = 1;
    b[8] = b[9] = b[10] = b[11] = 0;
    memcpy(b + i, rr, sizeof(rr));
    return i + sizeof(rr);
  }

  void run()
  {
    struct Conn {
      int                        fd;
      std::vector<unsigned char> in;
    };
    std::vector<Conn> conns;
    while (!stop.load()) {
      std::vector<struct pollfd> pf;
      pf.push_back({ udp[0], POLLIN, 0 });
      pf.push_back({ udp[1], POLLIN, 0 });
      pf.push_back({ tcp, POLLIN, 0 });
      for (auto &c : conns) pf.push_back({ c.fd, POLLIN, 0 });
      int rv = poll(pf.data(), (nfds_t)pf.size(), 20);
      if (rv <= 0) continue;
      for (int i = 0; i < 2; i++) {
        if (!(pf[(size_t)i].revents & POLLIN)) continue;
        for (;;) {
          unsigned char      buf[1500 + 16];
          struct sockaddr_in from;
          socklen_t          fl = sizeof(from);
          ssize_t            n  = recvfrom(udp[i], buf, 1500, 0, (struct sockaddr *)&from, &fl);
          if (n <= 0) break;
          std::string nm = qname(buf, (size_t)n);
          record(nm, ntohs(from.sin_port), 0, i);
          if (!nm.empty() && nm[0] == 'a') {
            size_t rl = mkreply(buf, (size_t)n);
            if (rl) sendto(udp[i], buf, rl, 0, (struct sockaddr *)&from, fl);
          }
        }
      }
      if (pf[2].revents & POLLIN) {
        int fd = accept(tcp, NULL, NULL);
        if (fd >= 0) {
          fcntl(fd, F_SETFL, fcntl(fd, F_GETFL, 0) | O_NONBLOCK);
          conns.push_back(Conn{ fd, {} });
        }
      }
      for (size_t ci = 0; ci < conns.size();) {
        size_t pi = 3 + ci;
        bool   dead = false;
        if (pi < pf.size() && pf[pi].fd == conns[ci].fd && (pf[pi].revents & (POLLIN | POLLHUP | POLLERR))) {
          unsigned char buf[4096];
          ssize_t       n = read(conns[ci].fd, buf, sizeof(buf));
          if (n == 0 || (n < 0 && errno != EAGAIN && errno != EWOULDBLOCK)) {
            dead = true;
          } else if (n > 0) {
            auto &in = conns[ci].in;
            in.insert(in.end(), buf, buf + n);
            while (in.size() >= 2) {
              size_t l = ((size_t)in[0] << 8) | in[1];
              if (in.size() < 2 + l) break;
              std::vector<unsigned char> q(in.begin() + 2, in.begin() + 2 + (long)l);
              in.erase(in.begin(), in.begin() + 2 + (long)l);
              size_t ql = q.size();
              q.resize(ql + 16);
              std::string nm = qname(q.data(), ql);
              record(nm, 0, 1, 0);
              if (!nm.empty() && nm[0] == 'a') {
                size_t rl = mkreply(q.data(), ql);
                if (rl) {
                  unsigned char hdr[2] = { (unsigned char)(rl >> 8), (unsigned char)(rl & 0xff) };
                  (void)!write(conns[ci].fd, hdr, 2);
                  (void)!write(conns[ci].fd, q.data(), rl);
                }
              }
            }
          }
        }
        if (dead) {
          close(conns[ci].fd);
          conns.erase(conns.begin() + (long)ci);
          // pf indexes are now shifted; handle the remaining ones next round
          break;
        } else {
          ci++;
        }
      }
    }
    for (auto &c : conns) close(c.fd);
  }
};

// ---------------------------------------------------------------------------
// requests
// ---------------------------------------------------------------------------
struct Req {
  std::atomic<int>     cbcount{0};
  std::atomic<int>     status{-1};
  std::atomic<int>     timeouts{0};
  std::atomic<int32_t> t_call{0}, t_cb{0};
  std::atomic<int>     rc{-1};
  char                 name[48];
};
static const int MAXREQ = 8192;
static Req      *g_req;
static std::atomic<int> g_nreq{0};

static void req_cb(void *arg, ares_status_t status, size_t timeouts, const ares_dns_record_t *rec)
{
  (void)rec;
  Req *r  = (Req *)arg;
  int  id = (int)(r - g_req);
  logev(K_CB, NULL, NULL, id, (int)status);
  r->status.store((int)status, std::memory_order_relaxed);
  r->timeouts.store((int)timeouts, std::memory_order_relaxed);
  r->t_cb.store(now_ms(), std::memory_order_relaxed);
  r->cbcount.fetch_add(1, std::memory_order_release);
}

// ---------------------------------------------------------------------------
// world: channel + gate
// ---------------------------------------------------------------------------
struct World {
  ares_channel_t      *ch = NULL;
  ares_event_thread_t *e  = NULL;
  // saved pointers for symbol mapping at dump time
  const void *p_chanlock = NULL, *p_evmutex = NULL, *p_cond = NULL, *p_slot_reinit = NULL, *p_slot_ev = NULL;
  Server      srv;
  std::string csv[2];
  int         backend = 0;
};
static World *W;

// phase gate
static std::atomic<int>           g_ev_tid{-1};
static std::atomic<int>           g_evphase{0};
static std::atomic<unsigned long> g_wait_tmo{0};
static std::atomic<int32_t>       g_wait_ms{0};
static std::atomic<int>           g_armed{0};     // phase to hold at (0 = none)
static std::mutex                 g_gate_m;
static std::condition_variable    g_gate_cv;
static bool                       g_held = false;
static unsigned long              g_gate_gen = 0;   // incremented by every release

static void phase_cb(int phase, unsigned long arg)
{
  if (g_ev_tid.load(std::memory_order_relaxed) < 0) g_ev_tid.store(my_tid(), std::memory_order_relaxed);
  if (phase == ARES_VERIF_PHASE_WAIT) {
    g_wait_tmo.store(arg, std::memory_order_relaxed);
    g_wait_ms.store(now_ms(), std::memory_order_relaxed);
  }
  logev(K_PHASE, NULL, NULL, phase, (int32_t)arg);
  g_evphase.store(phase, std::memory_order_release);
  if (g_armed.load(std::memory_order_acquire) == phase) {
    std::unique_lock<std::mutex> lk(g_gate_m);
    if (g_armed.load() == phase) {
      unsigned long my = g_gate_gen;
      g_held           = true;
      g_gate_cv.notify_all();
      g_gate_cv.wait(lk, [my] { return g_gate_gen != my; });
      g_held = false;
      g_gate_cv.notify_all();
    }
  }
}

static void kick_ev()
{
  ares_event_thread_t *e = W->e;
  logev(K_KICK, NULL, NULL, 0, 0);
  if (e && e->ev_signal && e->ev_signal->signal_cb) e->ev_signal->signal_cb(e->ev_signal);
}

[[noreturn]] static void machinery(const char *fmt, ...)
{
  va_list ap;
  va_start(ap, fmt);
  fprintf(stdout, "{\"machinery\":\"");
  vfprintf(stdout, fmt, ap);
  fprintf(stdout, "\"}\n");
  va_end(ap);
  fflush(stdout);
  _exit(2);
}

// The event thread does not get where every correct implementation gets within 5 s
// (deadlock, lost wake-up): reported like a watchdog hang, with the trace so far.
static std::string g_wd_label;
static void        dump_trace(const char *label);
[[noreturn]] static void stuck(const char *why)
{
  printf("{\"result\":\"hang\",\"label\":\"%s\",\"why\":\"%s\",\"evphase\":%d}\n", g_wd_label.c_str(), why,
         g_evphase.load());
  fflush(stdout);
  g_log_on.store(0);
  if (W) dump_trace((g_wd_label + ".hang").c_str());
  _exit(4);
}

// hold the event thread at `phase` (one of the four hook phases).  It is kicked
// out of its wait if necessary.
static void hold_ev_at(int phase)
{
  {
    // the event thread may not yet have left the previous gate
    std::unique_lock<std::mutex> lk(g_gate_m);
    g_gate_cv.wait(lk, [] { return !g_held; });
    g_armed.store(phase, std::memory_order_release);
  }
  int32_t t0     = now_ms();
  bool    kicked = false;
  for (;;) {
    {
      std::unique_lock<std::mutex> lk(g_gate_m);
      if (g_gate_cv.wait_for(lk, std::chrono::milliseconds(5), [] { return g_held; })) return;
    }
    // not there yet: if it has been sleeping for a while, kick it once (a spurious
    // wake-up of the wait); exactly one byte, consumed by the wake-up it causes
    if (!kicked && g_evphase.load(std::memory_order_acquire) == ARES_VERIF_PHASE_WAIT &&
        now_ms() - g_wait_ms.load(std::memory_order_relaxed) >= 20) {
      kick_ev();
      kicked = true;
    }
    if (now_ms() - t0 > 5000) stuck("event thread did not reach the requested phase");
  }
}
static void release_ev()
{
  std::lock_guard<std::mutex> lk(g_gate_m);
  g_armed.store(0);
  g_gate_gen++;
  g_gate_cv.notify_all();
}
// wait until the event thread sleeps in its wait (entered the wait phase some ms ago)
static void wait_ev_sleeping(int settle_ms)
{
  int32_t t0 = now_ms();
  for (;;) {
    if (g_evphase.load(std::memory_order_acquire) == ARES_VERIF_PHASE_WAIT &&
        now_ms() - g_wait_ms.load(std::memory_order_relaxed) >= settle_ms)
      return;
    if (now_ms() - t0 > 5000) stuck("event thread did not go to sleep");
    usleep(2000);
  }
}

// sync hook -----------------------------------------------------------------
static std::atomic<int>                                g_yield{0};
static std::atomic<int>                                g_blocked[64];  // per thread id: inside a condition wait
static thread_local uint32_t                           tl_rng = 0;
static std::function<void(const void *, const void *)> g_tcreate_hook;
static std::atomic<int>                                g_tcreate_hook_on{0};

static void sync_cb(int kind, const void *obj, const void *aux)
{
  logev(kind, obj, aux, 0, 0);
  if (kind == ARES_VERIF_SYNC_CWAIT) g_blocked[my_tid() & 63].store(1, std::memory_order_relaxed);
  else if (kind == ARES_VERIF_SYNC_CWAKE || kind == ARES_VERIF_SYNC_CWAKE_TMO)
    g_blocked[my_tid() & 63].store(0, std::memory_order_relaxed);
  if (kind == ARES_VERIF_SYNC_TCREATE && g_tcreate_hook_on.load(std::memory_order_acquire)) g_tcreate_hook(obj, aux);
  int y = g_yield.load(std::memory_order_relaxed);
  if (y && (kind == ARES_VERIF_SYNC_LOCK || kind == ARES_VERIF_SYNC_UNLOCK)) {
    if (tl_rng == 0) tl_rng = (uint32_t)(my_tid() * 2654435761u + (uint32_t)y);
    tl_rng = tl_rng * 1664525u + 1013904223u;
    uint32_t r = tl_rng >> 24;
    if (r < 24) sched_yield();
    else if (r < 28) usleep(50 + (r & 3) * 100);
  }
}

// ---------------------------------------------------------------------------
// channel set-up / tear-down
// ---------------------------------------------------------------------------
struct ChanCfg {
  int         backend   = ARES_EVSYS_EPOLL;
  bool        stayopen  = false;
  bool        usevc     = false;
  int         tries     = 2;
  int         timeoutms = 200;
  int         udpmax    = 0;
  int         qcache    = 0;
  std::string resolvconf;
};

static int backend_of(const std::string &s)
{
  if (s == "epoll") return ARES_EVSYS_EPOLL;
  if (s == "poll") return ARES_EVSYS_POLL;
  if (s == "select") return ARES_EVSYS_SELECT;
  machinery("bad backend %s", s.c_str());
}
static const char *backend_name(int b)
{
  return b == ARES_EVSYS_EPOLL ? "epoll" : b == ARES_EVSYS_POLL ? "poll" : "select";
}

static std::string g_tmpdir = ".";

static void world_up(const ChanCfg &c)
{
  W = new World();
  if (!W->srv.start()) machinery("server start failed");
  char buf[128];
  snprintf(buf, sizeof(buf), "127.0.0.1:%d", W->srv.port[0]);
  W->csv[0] = buf;
  snprintf(buf, sizeof(buf), "127.0.0.1:%d", W->srv.port[1]);
  W->csv[1] = buf;

  std::string rc = g_tmpdir + "/thr_resolv.conf";
  FILE       *f  = fopen(rc.c_str(), "w");
  if (f) {
    fprintf(f, "nameserver 127.0.0.1\n");
    fclose(f);
  }
  std::string hosts = g_tmpdir + "/thr_hosts";
  f                 = fopen(hosts.c_str(), "w");
  if (f) {
    fprintf(f, "127.0.0.1 localhost\n");
    fclose(f);
  }

  struct ares_options o;
  memset(&o, 0, sizeof(o));
  int mask = 0;
  o.flags  = ARES_FLAG_NOSEARCH | ARES_FLAG_NOALIASES;
  if (c.stayopen) o.flags |= ARES_FLAG_STAYOPEN;
  if (c.usevc) o.flags |= ARES_FLAG_USEVC;
  mask |= ARES_OPT_FLAGS;
  o.timeout = c.timeoutms;
  mask |= ARES_OPT_TIMEOUTMS;
  o.tries = c.tries;
  mask |= ARES_OPT_TRIES;
  o.evsys = (ares_evsys_t)c.backend;
  mask |= ARES_OPT_EVENT_THREAD;
  o.resolvconf_path = (char *)rc.c_str();
  mask |= ARES_OPT_RESOLVCONF;
  o.hosts_path = (char *)hosts.c_str();
  mask |= ARES_OPT_HOSTS_FILE;
  o.lookups = (char *)"b";
  mask |= ARES_OPT_LOOKUPS;
  o.qcache_max_ttl = (unsigned int)c.qcache;
  mask |= ARES_OPT_QUERY_CACHE;
  o.server_failover_opts.retry_chance = 0;
  o.server_failover_opts.retry_delay  = 60000;
  mask |= ARES_OPT_SERVER_FAILOVER;
  if (c.udpmax) {
    o.udp_max_queries = c.udpmax;
    mask |= ARES_OPT_UDP_MAX_QUERIES;
  }
  ares_channel_t *ch = NULL;
  int             rv = ares_init_options(&ch, &o, mask);
  if (rv != ARES_SUCCESS) machinery("ares_init_options: %s", ares_strerror(rv));
  W->ch      = ch;
  W->backend = c.backend;
  rv         = ares_set_servers_ports_csv(ch, W->csv[0].c_str());
  if (rv != ARES_SUCCESS) machinery("set servers: %s", ares_strerror(rv));
  W->e             = (ares_event_thread_t *)ch->sock_state_cb_data;
  W->p_chanlock    = ch->lock;
  W->p_cond        = ch->cond_empty;
  W->p_evmutex     = W->e ? W->e->mutex : NULL;
  W->p_slot_reinit = &ch->reinit_thread;
  W->p_slot_ev     = W->e ? &W->e->thread : NULL;
}

// ---------------------------------------------------------------------------
// trace dump
// ---------------------------------------------------------------------------
static FILE            *g_trace = NULL;
static std::atomic<int> dumping{0};

static void dump_trace(const char *label)
{
  if (dumping.exchange(1)) return;   // watchdog and director at the same time
  if (!g_trace) return;
  uint32_t n = g_nev.load(std::memory_order_acquire);
  if (n > MAXEV) n = MAXEV;
  std::map<const void *, int> hid;
  std::map<int, int>          lastcreated;
  int                         nexth = 1;
  int                         evtid = g_ev_tid.load();
  fprintf(g_trace, "{\"k\":\"begin\",\"label\":\"%s\",\"ev\":%d,\"n\":%u,\"trunc\":%d}\n", label, evtid, n,
          g_nev.load() > MAXEV ? 1 : 0);
  auto mname = [&](const void *p) -> const char * {
    if (p == W->p_chanlock) return "chan";
    if (p == W->p_evmutex) return "ev";
    return "other";
  };
  for (uint32_t i = 0; i < n; i++) {
    const Ev &e = g_ev[i];
    switch (e.k) {
      case ARES_VERIF_SYNC_LOCK:
        fprintf(g_trace, "{\"k\":\"lock\",\"t\":%d,\"ms\":%d,\"m\":\"%s\"}\n", e.t, e.ms, mname(e.obj));
        break;
      case ARES_VERIF_SYNC_UNLOCK:
        fprintf(g_trace, "{\"k\":\"unlock\",\"t\":%d,\"ms\":%d,\"m\":\"%s\"}\n", e.t, e.ms, mname(e.obj));
        break;
      case ARES_VERIF_SYNC_CWAIT:
        fprintf(g_trace, "{\"k\":\"cwait\",\"t\":%d,\"ms\":%d,\"m\":\"%s\"}\n", e.t, e.ms, mname(e.aux));
        break;
      case ARES_VERIF_SYNC_CWAKE:
      case ARES_VERIF_SYNC_CWAKE_TMO:
        fprintf(g_trace, "{\"k\":\"cwake\",\"t\":%d,\"ms\":%d,\"m\":\"%s\",\"tmo\":%d}\n", e.t, e.ms, mname(e.aux),
                e.k == ARES_VERIF_SYNC_CWAKE_TMO ? 1 : 0);
        break;
      case ARES_VERIF_SYNC_CSIGNAL:
        fprintf(g_trace, "{\"k\":\"signal\",\"t\":%d,\"ms\":%d}\n", e.t, e.ms);
        break;
      case ARES_VERIF_SYNC_CBROADCAST:
        fprintf(g_trace, "{\"k\":\"bcast\",\"t\":%d,\"ms\":%d}\n", e.t, e.ms);
        break;
      case ARES_VERIF_SYNC_TCREATE: {
        int h       = nexth++;
        hid[e.obj]  = h;
        lastcreated[e.t] = h;
        const char *slot = e.aux == W->p_slot_reinit ? "reinit" : e.aux == W->p_slot_ev ? "ev" : "other";
        fprintf(g_trace, "{\"k\":\"tcreate\",\"t\":%d,\"ms\":%d,\"h\":%d,\"slot\":\"%s\"}\n", e.t, e.ms, h, slot);
        break;
      }
      case ARES_VERIF_SYNC_TJOIN:
        fprintf(g_trace, "{\"k\":\"tjoin\",\"t\":%d,\"ms\":%d,\"h\":%d}\n", e.t, e.ms, hid.count(e.obj) ? hid[e.obj] : -1);
        break;
      case ARES_VERIF_SYNC_ACCESS:
        fprintf(g_trace, "{\"k\":\"access\",\"t\":%d,\"ms\":%d,\"n\":%d}\n", e.t, e.ms, (int)(uintptr_t)e.aux);
        break;
      case ARES_VERIF_SYNC_WAKE:
        fprintf(g_trace, "{\"k\":\"wake\",\"t\":%d,\"ms\":%d}\n", e.t, e.ms);
        break;
      case ARES_VERIF_SYNC_SHARED_READ:
      case ARES_VERIF_SYNC_SHARED_WRITE:
        // the hooks do not read the variable: a write is either NULL (0) or the
        // handle this thread created last; the value of a read is not known (-1)
        fprintf(g_trace, "{\"k\":\"%s\",\"t\":%d,\"ms\":%d,\"h\":%d}\n",
                e.k == ARES_VERIF_SYNC_SHARED_READ ? "hread" : "hwrite", e.t, e.ms,
                e.k == ARES_VERIF_SYNC_SHARED_READ ? -1
                : e.aux == NULL                    ? 0
                                                   : (lastcreated.count(e.t) ? lastcreated[e.t] : -1));
        break;
      case K_CALL:
        fprintf(g_trace, "{\"k\":\"call\",\"t\":%d,\"ms\":%d,\"api\":\"%s\",\"id\":%d}\n", e.t, e.ms, api_name(e.a), e.b);
        break;
      case K_RET:
        fprintf(g_trace, "{\"k\":\"ret\",\"t\":%d,\"ms\":%d,\"api\":\"%s\",\"rc\":%d}\n", e.t, e.ms, api_name(e.a), e.b);
        break;
      case K_CB:
        fprintf(g_trace, "{\"k\":\"cb\",\"t\":%d,\"ms\":%d,\"id\":%d,\"st\":%d}\n", e.t, e.ms, e.a, e.b);
        break;
      case K_PHASE:
        fprintf(g_trace, "{\"k\":\"phase\",\"t\":%d,\"ms\":%d,\"p\":%d,\"tmo\":%d}\n", e.t, e.ms, e.a, e.b);
        break;
      case K_DL:
        fprintf(g_trace, "{\"k\":\"dl\",\"t\":%d,\"ms\":%d,\"id\":%d,\"d\":%d}\n", e.t, e.ms, e.a, e.b);
        break;
      case K_KICK:
        fprintf(g_trace, "{\"k\":\"kick\",\"t\":%d,\"ms\":%d}\n", e.t, e.ms);
        break;
      case K_END:
        fprintf(g_trace, "{\"k\":\"end\",\"t\":%d,\"ms\":%d}\n", e.t, e.ms);
        break;
      default: break;
    }
  }
  fprintf(g_trace, "{\"k\":\"reset\"}\n");
  fflush(g_trace);
  dumping.store(0);
}

// ---------------------------------------------------------------------------
// operations
// ---------------------------------------------------------------------------
static int new_req(const char *prefix)
{
  int id = g_nreq.fetch_add(1, std::memory_order_relaxed);
  if (id >= MAXREQ) machinery("too many requests");
  snprintf(g_req[id].name, sizeof(g_req[id].name), "%s%d.test", prefix, id);
  return id;
}

static int op_send(const char *prefix, const char *fixed_name = NULL)
{
  int id = new_req(prefix);
  if (fixed_name) snprintf(g_req[id].name, sizeof(g_req[id].name), "%s", fixed_name);
  g_req[id].t_call.store(now_ms(), std::memory_order_relaxed);
  logev(K_CALL, NULL, NULL, API_SEND, id);
  ares_status_t rc = ares_query_dnsrec(W->ch, g_req[id].name, ARES_CLASS_IN, ARES_REC_TYPE_A, req_cb, &g_req[id], NULL);
  g_req[id].rc.store((int)rc, std::memory_order_relaxed);
  logev(K_RET, NULL, NULL, API_SEND, (int)rc);
  // earliest pending deadline as seen through the public API right now
  struct timeval tv;
  if (ares_timeout(W->ch, NULL, &tv) != NULL) {
    int32_t d = now_ms() + (int32_t)(tv.tv_sec * 1000 + tv.tv_usec / 1000);
    logev(K_DL, NULL, NULL, id, d);
  }
  return id;
}
static void op_cancel()
{
  logev(K_CALL, NULL, NULL, API_CANCEL, 0);
  ares_cancel(W->ch);
  logev(K_RET, NULL, NULL, API_CANCEL, 0);
}
static void op_setsrv(int which)
{
  logev(K_CALL, NULL, NULL, API_SETSRV, which);
  int rc = ares_set_servers_ports_csv(W->ch, W->csv[which & 1].c_str());
  logev(K_RET, NULL, NULL, API_SETSRV, rc);
}
static void op_reinit()
{
  logev(K_CALL, NULL, NULL, API_REINIT, 0);
  int rc = (int)ares_reinit(W->ch);
  logev(K_RET, NULL, NULL, API_REINIT, rc);
}
static int op_wait(int tmo)
{
  logev(K_CALL, NULL, NULL, API_WAIT, tmo);
  int rc = (int)ares_queue_wait_empty(W->ch, tmo);
  logev(K_RET, NULL, NULL, API_WAIT, rc);
  return rc;
}
static void op_active()
{
  logev(K_CALL, NULL, NULL, API_ACTIVE, 0);
  size_t n = ares_queue_active_queries(W->ch);
  logev(K_RET, NULL, NULL, API_ACTIVE, (int)n);
}
static void op_destroy()
{
  logev(K_CALL, NULL, NULL, API_DESTROY, 0);
  ares_destroy(W->ch);
  logev(K_RET, NULL, NULL, API_DESTROY, 0);
  W->ch = NULL;
  W->e  = NULL;
}

static void world_down(const char *label)
{
  if (W->ch) op_destroy();
  logev(K_END, NULL, NULL, 0, 0);
  W->srv.shutdown();
  g_log_on.store(0);
  dump_trace(label);
  delete W;
  W = NULL;
}

static void reset_state()
{
  g_nev.store(0);
  g_nreq.store(0);
  for (int i = 0; i < MAXREQ; i++) {
    g_req[i].cbcount.store(0);
    g_req[i].status.store(-1);
    g_req[i].rc.store(-1);
    g_req[i].t_cb.store(0);
    g_req[i].t_call.store(0);
  }
  g_ev_tid.store(-1);
  g_evphase.store(0);
  g_armed.store(0);
  g_held = false;
  g_log_on.store(1);
}

static bool wait_cb(int id, int limit_ms)
{
  int32_t t0 = now_ms();
  while (g_req[id].cbcount.load(std::memory_order_acquire) == 0) {
    if (now_ms() - t0 > limit_ms) return false;
    usleep(1000);
  }
  return true;
}

// watchdog ------------------------------------------------------------------
static std::atomic<int32_t> g_wd_deadline{0};
static void                 watchdog_thread()
{
  for (;;) {
    usleep(20000);
    int32_t d = g_wd_deadline.load();
    if (d > 0 && now_ms() > d) {
      printf("{\"result\":\"hang\",\"label\":\"%s\",\"evphase\":%d,\"wait_tmo\":%lu}\n", g_wd_label.c_str(),
             g_evphase.load(), g_wait_tmo.load());
      fflush(stdout);
      g_log_on.store(0);
      if (W) dump_trace((g_wd_label + ".hang").c_str());
      _exit(4);
    }
  }
}
static void wd_arm(const std::string &label, int ms)
{
  g_wd_label = label;
  g_wd_deadline.store(now_ms() + ms);
}
static void wd_off()
{
  g_wd_deadline.store(0);
}

// ---------------------------------------------------------------------------
// C07b scenario
// ---------------------------------------------------------------------------
static int phase_of(const std::string &s)
{
  if (s == "timeout") return ARES_VERIF_PHASE_TIMEOUT;
  if (s == "wait") return ARES_VERIF_PHASE_WAIT;
  if (s == "woken") return ARES_VERIF_PHASE_WOKEN;
  if (s == "process") return ARES_VERIF_PHASE_PROCESS;
  if (s == "inwait") return 100;
  if (s == "any") return 0;
  machinery("bad phase %s", s.c_str());
}

static int run_c07(const std::string &backend, const std::string &reuse, const std::string &phase)
{
  ChanCfg c;
  c.backend  = backend_of(backend);
  c.stayopen = (reuse == "idle" || reuse == "tcp_idle");
  c.usevc    = (reuse == "tcp_idle");
  c.tries    = (reuse == "busy_later") ? 3 : 2;
  // longsleep<ms>: one request with a base timeout of <ms> (>= 1000), a single try, nothing else
  // happening: the event thread plans one long sleep (whole seconds + a sub-second part)
  bool longsleep = reuse.compare(0, 9, "longsleep") == 0;
  if (longsleep) {
    c.timeoutms = atoi(reuse.c_str() + 9);
    c.tries     = 1;
    if (c.timeoutms < 1000) machinery("longsleep needs a timeout >= 1000 ms");
  }
  std::string label = "c07." + backend + "." + reuse + "." + phase;
  reset_state();
  wd_arm(label, 20000);
  world_up(c);
  int  budget = (c.tries == 3) ? 250 + 500 + 1000 : 250 + 500;
  if (longsleep) budget = c.timeoutms;
  int  q0     = -1;
  bool setup_ok = true;
  std::string why;

  if (reuse == "idle" || reuse == "tcp_idle") {
    q0 = op_send("a");  // answered: leaves an idle kept-open connection
    if (!wait_cb(q0, 3000)) {
      setup_ok = false;
      why      = "warm-up query not answered";
    }
  } else if (reuse == "busy_earlier") {
    q0 = op_send("s");  // pending, first try: its deadline is earlier than the new one's
    usleep(30000);
  } else if (reuse == "busy_later") {
    q0 = op_send("s");  // wait until its third transmission: deadline now 500..1000 ms ahead
    int32_t t0 = now_ms();
    while (W->srv.count(g_req[q0].name) < 3) {
      if (now_ms() - t0 > 4000) {
        setup_ok = false;
        why      = "third transmission of q0 not seen";
        break;
      }
      usleep(1000);
    }
  } else if (reuse == "overdue") {
    // q1 itself is sent first; the event thread is then held before ares_timeout() until q1's
    // first deadline has passed, so the loop computes its sleep from an already expired deadline
  } else if (reuse != "fresh" && !longsleep) {
    machinery("bad reuse %s", reuse.c_str());
  }

  int ph = phase_of(phase);
  if (setup_ok) {
    if (ph == 100) {
      wait_ev_sleeping(30);
    } else if (ph != 0) {
      hold_ev_at(ph);
    }
  }
  unsigned long tmo_at_send = g_wait_tmo.load();
  int           evph_at_send = g_evphase.load();
  int32_t       t_send = now_ms();
  int           q1;
  if (reuse == "overdue" && setup_ok) {
    if (ph != 0 && ph != 100) release_ev();
    t_send = now_ms();
    q1     = op_send("s");
    wait_ev_sleeping(20);                       // it sleeps until q1's first deadline (250 ms)
    hold_ev_at(ARES_VERIF_PHASE_TIMEOUT);       // kicked, caught before ares_timeout()
    while (now_ms() - t_send < 320) usleep(2000);  // the deadline passes while it is held
    release_ev();
  } else {
    q1 = op_send("s");
    if (ph != 0 && ph != 100) release_ev();
  }

  int  limit  = budget * 2 + 2000;
  bool got    = wait_cb(q1, limit);
  bool after_kick = false;
  if (!got) {
    // "never": confirm that only a wake-up was missing
    kick_ev();
    after_kick = wait_cb(q1, 2000);
  }
  int32_t t_done = g_req[q1].t_cb.load();
  // was the connection reused as the scenario intends?
  std::vector<Pkt> p0, p1 = W->srv.packets(g_req[q1].name);
  if (q0 >= 0) p0 = W->srv.packets(g_req[q0].name);
  int reused = -1;
  if (!p1.empty() && !p0.empty()) {
    if (c.usevc) reused = (p1[0].tcp && p0[0].tcp) ? 1 : 0;
    else reused = (p1[0].srcport == p0.back().srcport) ? 1 : 0;
  }
  if (setup_ok && (reuse != "fresh") && (reuse != "overdue") && !longsleep && reused != 1 && reuse != "tcp_idle") {
    setup_ok = false;
    why      = "connection was not reused";
  }
  if (q0 >= 0 && reuse != "idle" && reuse != "tcp_idle") wait_cb(q0, 4000);
  wd_arm(label + ".teardown", 10000);
  int q0st = q0 >= 0 ? g_req[q0].status.load() : -1;
  int st   = g_req[q1].status.load();
  int cbs  = g_req[q1].cbcount.load();
  int tx   = (int)p1.size();
  int32_t first_retx = p1.size() >= 2 ? p1[1].ms - t_send : -1;
  world_down(label.c_str());
  wd_off();
  printf("{\"result\":\"c07\",\"label\":\"%s\",\"backend\":\"%s\",\"reuse\":\"%s\",\"phase\":\"%s\",\"setup_ok\":%d,"
         "\"why\":\"%s\",\"completed\":%d,\"after_kick\":%d,\"status\":%d,\"elapsed_ms\":%d,\"budget_ms\":%d,"
         "\"limit_ms\":%d,\"cbcount\":%d,\"reused\":%d,\"tx\":%d,\"first_retx_ms\":%d,\"evphase_at_send\":%d,"
         "\"wait_tmo_at_send\":%lu,\"q0_status\":%d}\n",
         label.c_str(), backend.c_str(), reuse.c_str(), phase.c_str(), setup_ok ? 1 : 0, why.c_str(), got ? 1 : 0,
         after_kick ? 1 : 0, st, got || after_kick ? t_done - t_send : -1, budget, limit, cbs, reused, tx, first_retx,
         evph_at_send, tmo_at_send, q0st);
  fflush(stdout);
  return 0;
}

// ---------------------------------------------------------------------------
// client workers (sched / stress)
// ---------------------------------------------------------------------------
struct Step {
  int              t;
  std::string      op;
  int              arg = 0;
  std::string      ph  = "any";
  std::vector<int> after;
};

struct Worker {
  int                     tid;
  std::thread             th;
  std::mutex              m;
  std::condition_variable cv;
  std::vector<int>        queue;  // step indexes
  bool                    quit = false;
};

static std::vector<Step>              g_steps;
static std::vector<std::atomic<int> > *g_done;     // per step: 0 not started, 1 running, 2 returned

static void exec_op(const Step &s)
{
  if (s.op == "send") op_send("s");
  else if (s.op == "senda") op_send("a");
  else if (s.op == "cancel") op_cancel();
  else if (s.op == "setsrv") op_setsrv(s.arg);
  else if (s.op == "reinit") op_reinit();
  else if (s.op == "wait") op_wait(s.arg);
  else if (s.op == "active") op_active();
  else machinery("bad op %s", s.op.c_str());
}

static void worker_main(Worker *w)
{
  tl_tid = w->tid;
  for (;;) {
    int idx;
    {
      std::unique_lock<std::mutex> lk(w->m);
      w->cv.wait(lk, [w] { return w->quit || !w->queue.empty(); });
      if (w->queue.empty()) return;
      idx = w->queue.front();
      w->queue.erase(w->queue.begin());
    }
    exec_op(g_steps[(size_t)idx]);
    (*g_done)[(size_t)idx].store(2, std::memory_order_release);
  }
}

// is worker `tid` currently blocked inside a condition wait?
static bool worker_in_cwait(int tid)
{
  return g_blocked[tid & 63].load(std::memory_order_relaxed) != 0;
}

static int run_schedule(const vj::J &sc, int index)
{
  ChanCfg c;
  c.backend  = backend_of(sc["backend"].str("epoll"));
  c.stayopen = sc["stayopen"].num(0) != 0;
  int nclients = (int)sc["clients"].num(2);
  std::string label = sc["label"].str("sched" + std::to_string(index));
  g_steps.clear();
  for (size_t i = 0; i < sc["steps"].size(); i++) {
    const vj::J &j = sc["steps"][i];
    Step         s;
    s.t   = (int)j["t"].num(1);
    s.op  = j["op"].str();
    s.arg = (int)j["arg"].num(0);
    s.ph  = j["ph"].str("any");
    for (size_t k = 0; k < j["after"].size(); k++) s.after.push_back((int)j["after"][k].num());
    g_steps.push_back(s);
  }
  std::vector<std::atomic<int> > done(g_steps.size());
  for (auto &d : done) d.store(0);
  g_done = &done;

  fprintf(stderr, "## begin %s\n", label.c_str());
  reset_state();
  g_next_tid.store(nclients + 1);
  tl_tid = 0;
  wd_arm(label, 15000);
  world_up(c);
  std::vector<Worker *> ws;
  for (int i = 1; i <= nclients; i++) {
    Worker *w = new Worker();
    w->tid    = i;
    w->th     = std::thread(worker_main, w);
    ws.push_back(w);
  }
  for (size_t i = 0; i < g_steps.size(); i++) {
    const Step &s = g_steps[i];
    // wait for the steps that had returned before this one began
    for (int a : s.after) {
      int32_t t0 = now_ms();
      while (done[(size_t)a].load(std::memory_order_acquire) != 2) {
        if (now_ms() - t0 > 8000) break;  // the watchdog decides
        usleep(500);
      }
    }
    int ph = phase_of(s.ph);
    if (ph == 100) wait_ev_sleeping(10);
    else if (ph != 0) hold_ev_at(ph);
    done[i].store(1);
    Worker *w = ws[(size_t)(s.t - 1)];
    {
      std::lock_guard<std::mutex> lk(w->m);
      w->queue.push_back((int)i);
    }
    w->cv.notify_all();
    if (ph != 0 && ph != 100) {
      // keep the event thread at the phase until the operation returned or blocked
      int32_t t0 = now_ms();
      while (done[i].load(std::memory_order_acquire) != 2 && !worker_in_cwait(s.t)) {
        if (now_ms() - t0 > 3000) break;
        usleep(300);
      }
      release_ev();
    }
  }
  // all clients finish their programs (pending requests complete by timeout at the latest)
  for (Worker *w : ws) {
    {
      std::lock_guard<std::mutex> lk(w->m);
      w->quit = true;
    }
    w->cv.notify_all();
  }
  for (Worker *w : ws) {
    w->th.join();
    delete w;
  }
  int nreq = g_nreq.load();
  wd_arm(label + ".teardown", 10000);
  world_down(label.c_str());
  wd_off();
  int bad = 0;
  for (int i = 0; i < nreq; i++)
    if (g_req[i].cbcount.load() != 1) bad++;
  printf("{\"result\":\"sched\",\"label\":\"%s\",\"steps\":%zu,\"requests\":%d,\"cb_not_once\":%d}\n", label.c_str(),
         g_steps.size(), nreq, bad);
  fflush(stdout);
  fprintf(stderr, "## end %s\n", label.c_str());
  return 0;
}

// ---------------------------------------------------------------------------
// stress: free running client threads, seeded programs
// ---------------------------------------------------------------------------
static int run_stress(const std::string &backend, unsigned seed, int nthreads, int nops, bool with_reinit)
{
  ChanCfg c;
  c.backend  = backend_of(backend);
  // odd seeds keep idle connections open (ARES_FLAG_STAYOPEN): requests are then also sent on
  // idle kept-open connections (the situation of the former KF-C07-1: the queue must still drain)
  c.stayopen = (seed & 1) != 0;
  c.udpmax   = (seed & 2) ? 3 : 0;
  std::string label = "stress." + backend + "." + std::to_string(seed);
  fprintf(stderr, "## begin %s\n", label.c_str());
  reset_state();
  g_next_tid.store(nthreads + 1);
  tl_tid = 0;
  wd_arm(label, 30000);
  world_up(c);
  g_yield.store((int)(seed | 1));
  std::atomic<int>         go{0};
  std::vector<std::thread> ths;
  for (int t = 1; t <= nthreads; t++) {
    ths.emplace_back([&, t] {
      tl_tid       = t;
      uint32_t rng = seed * 7919u + (uint32_t)t * 104729u;
      while (!go.load(std::memory_order_relaxed)) sched_yield();
      for (int i = 0; i < nops; i++) {
        rng        = rng * 1664525u + 1013904223u;
        uint32_t r = (rng >> 16) % 100;
        if (r < 40) op_send((rng & 0x100) ? "a" : "s");
        else if (r < 50) op_cancel();
        else if (r < 60) op_setsrv((int)((rng >> 9) & 1));
        else if (r < 70) {
          if (with_reinit) op_reinit();
          else op_active();
        } else if (r < 85) op_wait((int)((rng >> 10) % 20));
        else if (r < 92) op_active();
        else usleep(200 + (rng >> 20) % 2000);
      }
    });
  }
  go.store(1);
  for (auto &t : ths) t.join();
  g_yield.store(0);
  // let the queue drain: bounded by the retry budget
  int rc   = op_wait(5000);
  int nreq = g_nreq.load();
  wd_arm(label + ".teardown", 10000);
  world_down(label.c_str());
  wd_off();
  int bad = 0;
  for (int i = 0; i < nreq; i++)
    if (g_req[i].cbcount.load() != 1) bad++;
  printf("{\"result\":\"stress\",\"label\":\"%s\",\"requests\":%d,\"cb_not_once\":%d,\"drain_rc\":%d,\"events\":%u}\n",
         label.c_str(), nreq, bad, rc, g_nev.load());
  fflush(stdout);
  fprintf(stderr, "## end %s\n", label.c_str());
  return 0;
}

// ---------------------------------------------------------------------------
// D11: two concurrent ares_reinit callers.  Caller A is held inside
// ares_thread_create() (H3 TCREATE, i.e. after the reload thread exists and before
// its handle is stored) until caller B has run a complete ares_reinit() of its own.
// ---------------------------------------------------------------------------
static int run_d11(const std::string &backend, bool gated)
{
  ChanCfg c;
  c.backend = backend_of(backend);
  std::string label = std::string("d11.") + backend + (gated ? ".gated" : ".free");
  fprintf(stderr, "## begin %s\n", label.c_str());
  reset_state();
  g_next_tid.store(3);
  tl_tid = 0;
  wd_arm(label, 20000);
  world_up(c);

  std::mutex              m;
  std::condition_variable cv;
  bool                    a_in_create = false, b_done = false;
  std::atomic<int>        b_created{0};
  if (gated) {
    g_tcreate_hook = [&](const void *, const void *slot) {
      if (slot != W->p_slot_reinit) return;
      if (tl_tid == 1) {
        std::unique_lock<std::mutex> lk(m);
        a_in_create = true;
        cv.notify_all();
        cv.wait_for(lk, std::chrono::seconds(5), [&] { return b_done; });
      } else if (tl_tid == 2) {
        b_created.store(1);
      }
    };
    g_tcreate_hook_on.store(1, std::memory_order_release);
  }
  std::thread A([&] {
    tl_tid = 1;
    if (gated) {
      op_reinit();
    } else {
      uint32_t r  = 12345;
      int32_t  t0 = now_ms();
      while (now_ms() - t0 < 400) {
        op_reinit();
        r = r * 1664525u + 1013904223u;
        usleep((r >> 24) * 2);
      }
    }
  });
  std::thread B([&] {
    tl_tid = 2;
    if (gated) {
      {
        std::unique_lock<std::mutex> lk(m);
        cv.wait_for(lk, std::chrono::seconds(5), [&] { return a_in_create; });
      }
      // A's reload thread clears the pending flag when it is done; until then
      // ares_reinit() is a no-op.  Try until this caller created a thread itself.
      int32_t t0 = now_ms();
      while (!b_created.load() && now_ms() - t0 < 4000) {
        op_reinit();
        if (!b_created.load()) usleep(2000);
      }
      std::lock_guard<std::mutex> lk(m);
      b_done = true;
      cv.notify_all();
    } else {
      uint32_t r  = 54321;
      int32_t  t0 = now_ms();
      while (now_ms() - t0 < 400) {
        op_reinit();
        r = r * 1664525u + 1013904223u;
        usleep((r >> 24) * 2);
      }
    }
  });
  A.join();
  B.join();
  g_tcreate_hook_on.store(0);
  usleep(50000);
  wd_arm(label + ".teardown", 10000);
  int bc = b_created.load();
  world_down(label.c_str());
  wd_off();
  printf("{\"result\":\"d11\",\"label\":\"%s\",\"gated\":%d,\"b_created\":%d}\n", label.c_str(), gated ? 1 : 0, bc);
  fflush(stdout);
  fprintf(stderr, "## end %s\n", label.c_str());
  return 0;
}

// ---------------------------------------------------------------------------
// waiters: N threads in ares_queue_wait_empty(4000) while one silent request is pending.
// When the request times out the queue is empty: every waiter must return SUCCESS soon.
// ---------------------------------------------------------------------------
static int run_waiters(const std::string &backend, int nwaiters, const std::string &how)
{
  ChanCfg c;
  c.backend = backend_of(backend);
  std::string label = "waiters." + backend + "." + how;
  fprintf(stderr, "## begin %s\n", label.c_str());
  reset_state();
  g_next_tid.store(nwaiters + 1);
  tl_tid = 0;
  wd_arm(label, 20000);
  world_up(c);
  int q = op_send("s");
  std::vector<std::thread> ths;
  std::vector<int>         rcs((size_t)nwaiters, -1), el((size_t)nwaiters, -1);
  for (int i = 1; i <= nwaiters; i++) {
    ths.emplace_back([&, i] {
      tl_tid     = i;
      int32_t t0 = now_ms();
      rcs[(size_t)i - 1] = op_wait(4000);
      el[(size_t)i - 1]  = now_ms() - t0;
    });
  }
  // all waiters asleep on cond_empty
  int32_t t0 = now_ms();
  for (;;) {
    int n = 0;
    for (int i = 1; i <= nwaiters; i++) n += worker_in_cwait(i) ? 1 : 0;
    if (n == nwaiters || now_ms() - t0 > 3000) break;
    usleep(1000);
  }
  int32_t t_drain = -1;
  if (how == "cancel") {
    op_cancel();
    t_drain = now_ms();
  } else {
    wait_cb(q, 6000);   // the request times out through the event thread
    t_drain = g_req[q].t_cb.load();
  }
  for (auto &t : ths) t.join();
  wd_arm(label + ".teardown", 10000);
  world_down(label.c_str());
  wd_off();
  printf("{\"result\":\"waiters\",\"label\":\"%s\",\"n\":%d,\"rc\":[", label.c_str(), nwaiters);
  for (int i = 0; i < nwaiters; i++) printf("%s%d", i ? "," : "", rcs[(size_t)i]);
  printf("],\"elapsed_ms\":[");
  for (int i = 0; i < nwaiters; i++) printf("%s%d", i ? "," : "", el[(size_t)i]);
  printf("],\"drained_at_ms\":%d}\n", t_drain);
  fflush(stdout);
  fprintf(stderr, "## end %s\n", label.c_str());
  return 0;
}

// ---------------------------------------------------------------------------
// qcflush: query cache on, one cached answer; ares_reinit() -> the reload thread flushes the
// cache.  The flush frees the cache key ("QUERY|..."): the allocator hook stalls the reload
// thread there for a moment while a client thread looks the same name up.  The flush has to be
// serialised with the lookup by the channel lock (ThreadSanitizer is the observer).
// ---------------------------------------------------------------------------
static std::atomic<int> g_qc_armed{0}, g_qc_in_flush{0}, g_qc_client_done{0};
static void            *qc_malloc(size_t n) { return malloc(n); }
static void            *qc_realloc(void *p, size_t n) { return realloc(p, n); }
static void             qc_free(void *p)
{
  if (p != NULL && g_qc_armed.load(std::memory_order_relaxed) && tl_tid != 0 && tl_tid != 1 && tl_tid != 2 &&
      tl_tid != g_ev_tid.load(std::memory_order_relaxed) && memcmp(p, "QUERY|", 6) == 0) {
    g_qc_armed.store(0, std::memory_order_relaxed);
    g_qc_in_flush.store(1, std::memory_order_relaxed);
    int32_t t0 = now_ms();
    while (!g_qc_client_done.load(std::memory_order_relaxed) && now_ms() - t0 < 300) usleep(500);
  }
  free(p);
}

static int run_qcflush(const std::string &backend)
{
  ChanCfg c;
  c.backend = backend_of(backend);
  c.qcache  = 300;
  std::string label = "qcflush." + backend;
  fprintf(stderr, "## begin %s\n", label.c_str());
  reset_state();
  g_next_tid.store(3);
  tl_tid = 0;
  wd_arm(label, 20000);
  world_up(c);
  int q0 = op_send("a", "acached.test");   // answered and cached
  bool ok = wait_cb(q0, 3000);
  usleep(20000);
  g_qc_in_flush.store(0);
  g_qc_client_done.store(0);
  g_qc_armed.store(1);
  int         q1 = -1;
  std::thread A([&] {
    tl_tid = 1;
    op_reinit();
  });
  std::thread B([&] {
    tl_tid     = 2;
    int32_t t0 = now_ms();
    while (!g_qc_in_flush.load(std::memory_order_relaxed) && now_ms() - t0 < 2000) usleep(200);
    q1 = op_send("a", "acached.test");      // cache lookup while the reload thread is in the flush
    g_qc_client_done.store(1, std::memory_order_relaxed);
  });
  A.join();
  B.join();
  int saw_flush = g_qc_in_flush.load();
  g_qc_armed.store(0);
  if (q1 >= 0) wait_cb(q1, 3000);
  usleep(50000);
  wd_arm(label + ".teardown", 10000);
  int st1 = q1 >= 0 ? g_req[q1].status.load() : -1;
  world_down(label.c_str());
  wd_off();
  printf("{\"result\":\"qcflush\",\"label\":\"%s\",\"warm_ok\":%d,\"flush_seen\":%d,\"status\":%d}\n", label.c_str(),
         ok ? 1 : 0, saw_flush, st1);
  fflush(stdout);
  fprintf(stderr, "## end %s\n", label.c_str());
  return 0;
}

// ---------------------------------------------------------------------------
static std::string arg_of(int argc, char **argv, const char *name, const char *def)
{
  for (int i = 2; i + 1 < argc; i++)
    if (!strcmp(argv[i], name)) return argv[i + 1];
  return def;
}

int main(int argc, char **argv)
{
  if (argc < 2) {
    fprintf(stderr, "usage: %s c07|sched|stress|d11 ...\n", argv[0]);
    return 2;
  }
  setvbuf(stdout, NULL, _IOLBF, 0);
  clock_gettime(CLOCK_MONOTONIC, &g_t0);
  g_ev  = (Ev *)calloc(MAXEV, sizeof(Ev));
  g_req = new Req[MAXREQ];
  tl_tid = 0;
  std::string mode  = argv[1];
  std::string trace = arg_of(argc, argv, "--trace", "");
  g_tmpdir          = arg_of(argc, argv, "--tmp", ".");
  if (!trace.empty()) {
    g_trace = fopen(trace.c_str(), "w");
    if (!g_trace) machinery("cannot open trace file");
  }
  if (mode == "qcflush") ares_library_init_mem(ARES_LIB_INIT_ALL, qc_malloc, qc_free, qc_realloc);
  else ares_library_init(ARES_LIB_INIT_ALL);
  if (!ares_threadsafety()) machinery("library built without thread support");
  ares_verif_sync_cb  = sync_cb;
  ares_verif_phase_cb = phase_cb;
  std::thread wd(watchdog_thread);
  wd.detach();

  int rc = 0;
  if (mode == "c07") {
    rc = run_c07(arg_of(argc, argv, "--backend", "epoll"), arg_of(argc, argv, "--reuse", "fresh"),
                 arg_of(argc, argv, "--phase", "inwait"));
  } else if (mode == "sched") {
    std::string file = arg_of(argc, argv, "--file", "");
    FILE       *f    = fopen(file.c_str(), "r");
    if (!f) machinery("cannot open schedule file");
    std::string s;
    char        buf[65536];
    size_t      n;
    while ((n = fread(buf, 1, sizeof(buf), f)) > 0) s.append(buf, n);
    fclose(f);
    vj::J j;
    if (!vj::parse(s, j)) machinery("bad schedule json");
    for (size_t i = 0; i < j.size(); i++) run_schedule(j[i], (int)i);
  } else if (mode == "stress") {
    rc = run_stress(arg_of(argc, argv, "--backend", "epoll"), (unsigned)atoi(arg_of(argc, argv, "--seed", "1").c_str()),
                    atoi(arg_of(argc, argv, "--threads", "3").c_str()), atoi(arg_of(argc, argv, "--ops", "60").c_str()),
                    arg_of(argc, argv, "--reinit", "0") == "1");
  } else if (mode == "waiters") {
    rc = run_waiters(arg_of(argc, argv, "--backend", "epoll"), atoi(arg_of(argc, argv, "--n", "2").c_str()),
                     arg_of(argc, argv, "--how", "timeout"));
  } else if (mode == "qcflush") {
    rc = run_qcflush(arg_of(argc, argv, "--backend", "epoll"));
  } else if (mode == "d11") {
    rc = run_d11(arg_of(argc, argv, "--backend", "epoll"), arg_of(argc, argv, "--gated", "1") == "1");
  } else {
    machinery("bad mode");
  }
  if (g_trace) fclose(g_trace);
  fflush(stdout);
  // no ares_library_cleanup(): a leaked reload thread may still be running.
  // Normal exit so that the sanitizer's end-of-process reports (thread leak,
  // memory leak) are produced.
  return rc;
}
