#!/usr/bin/env python3
"""Mutation self-test of the C02/C03/C04 checks.

usage: run_mutants.py C03 [C04 ...]     (from /verif)
For every selftest/<ID>/*.patch: fresh scratch copy of /repo under /tmp/c234mut/repo, apply the
patch, run `VERIF_REPO=<copy> ./check <ID> --tier quick`; the check must exit 1 and print VIOLATION.
Results are appended to selftest/<ID>/results.txt.  Scratch copy and build/alt-c234* are removed.
"""
import glob
import os
import shutil
import subprocess
import sys
import time

ROOT = os.path.dirname(os.path.dirname(os.path.dirname(os.path.abspath(__file__))))
SCR = "/tmp/c234mut"
ALT = os.path.join(ROOT, "build", "alt-c234")


def sh(cmd, **kw):
    return subprocess.run(cmd, shell=True, stdout=subprocess.PIPE, stderr=subprocess.STDOUT, text=True, **kw)


def main(ids):
    os.makedirs(SCR, exist_ok=True)
    for pid in ids:
        res = []
        flt = [x for x in os.environ.get("MUT_FILTER", "").split(",") if x]
        for patch in sorted(glob.glob(os.path.join(ROOT, "selftest", pid, "*.patch"))):
            if flt and not any(x in os.path.basename(patch) for x in flt):
                continue
            sh("rsync -a --delete --exclude _build --exclude .git /repo/ %s/repo/" % SCR)
            r = sh("patch -p1 < %s" % patch, cwd=SCR + "/repo")
            if r.returncode != 0:
                res.append((os.path.basename(patch), "PATCH-FAILED", 0, r.stdout[-300:]))
                continue
            sh("touch src/lib/record/*.c src/lib/str/*.c src/lib/legacy/*.c", cwd=SCR + "/repo")
            t0 = time.time()
            env = dict(os.environ, VERIF_REPO=SCR + "/repo", VERIF_BUILD=ALT)
            r = sh("./check %s --tier quick" % pid, cwd=ROOT, env=env, timeout=3000)
            lines = [l for l in r.stdout.splitlines() if l.startswith("--- violation") or l.startswith("MACHINERY")]
            verdict = "CAUGHT" if (r.returncode == 1 and "VIOLATION property=%s" % pid in r.stdout) else \
                ("MACHINERY" if r.returncode == 2 else "MISSED")
            res.append((os.path.basename(patch), verdict, time.time() - t0, "; ".join(lines[:4])))
            print(pid, res[-1], flush=True)
            for f in glob.glob(os.path.join(ROOT, "replays", pid + "-*.json")):
                os.remove(f)
        with open(os.path.join(ROOT, "selftest", pid, "results.txt"), "a" if flt else "w") as f:
            for name, verdict, secs, what in res:
                f.write("%-50s %-10s %5.0fs  %s\n" % (name, verdict, secs, what))
    shutil.rmtree(SCR, ignore_errors=True)
    for d in glob.glob(ALT + "*"):
        shutil.rmtree(d, ignore_errors=True)


if __name__ == "__main__":
    main(sys.argv[1:])
