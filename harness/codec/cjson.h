// Minimal JSON reader used by cares_codec (plumbing only, no DNS knowledge).
#pragma once
#include <cstdio>
#include <cstdlib>
#include <cstring>
#include <map>
#include <string>
#include <vector>

namespace cj {

struct J {
  enum T { NUL, BOOL, NUM, STR, ARR, OBJ } t = NUL;
  bool                     b = false;
  long long                n = 0;
  std::string              s;
  std::vector<J>           a;
  std::map<std::string, J> o;

  bool     has(const std::string &k) const { return t == OBJ && o.count(k); }
  const J &operator[](const std::string &k) const {
    static J nul;
    if (t != OBJ) return nul;
    auto it = o.find(k);
    return it == o.end() ? nul : it->second;
  }
  const J &operator[](size_t i) const {
    static J nul;
    return (t == ARR && i < a.size()) ? a[i] : nul;
  }
  long long num(long long d = 0) const { return t == NUM ? n : (t == BOOL ? (b ? 1 : 0) : d); }
  bool      isnull() const { return t == NUL; }
  size_t    size() const { return t == ARR ? a.size() : (t == OBJ ? o.size() : 0); }
};

struct Parser {
  const char *p, *e;
  bool        ok = true;
  explicit Parser(const std::string &s) : p(s.data()), e(s.data() + s.size()) {}
  void ws() { while (p < e && (*p == ' ' || *p == '\t' || *p == '\n' || *p == '\r')) p++; }
  J    val() {
    J j;
    ws();
    if (p >= e) { ok = false; return j; }
    if (*p == '{') {
      j.t = J::OBJ; p++; ws();
      if (p < e && *p == '}') { p++; return j; }
      while (ok) {
        J k = val();
        if (k.t != J::STR) { ok = false; break; }
        ws();
        if (p >= e || *p != ':') { ok = false; break; }
        p++;
        j.o[k.s] = val();
        ws();
        if (p < e && *p == ',') { p++; continue; }
        if (p < e && *p == '}') { p++; break; }
        ok = false;
      }
    } else if (*p == '[') {
      j.t = J::ARR; p++; ws();
      if (p < e && *p == ']') { p++; return j; }
      while (ok) {
        j.a.push_back(val());
        ws();
        if (p < e && *p == ',') { p++; continue; }
        if (p < e && *p == ']') { p++; break; }
        ok = false;
      }
    } else if (*p == '"') {
      j.t = J::STR; p++;
      while (p < e && *p != '"') {
        if (*p == '\\' && p + 1 < e) { p++; j.s += *p++; }   // only \" and \\ occur in our inputs
        else j.s += *p++;
      }
      if (p < e) p++; else ok = false;
    } else if (e - p >= 4 && !strncmp(p, "true", 4)) { j.t = J::BOOL; j.b = true; p += 4; }
    else if (e - p >= 5 && !strncmp(p, "false", 5)) { j.t = J::BOOL; j.b = false; p += 5; }
    else if (e - p >= 4 && !strncmp(p, "null", 4)) { p += 4; }
    else {
      char *end = nullptr;
      j.t = J::NUM;
      j.n = strtoll(p, &end, 10);
      if (end == p) { ok = false; return j; }
      p = end;
    }
    return j;
  }
};

inline bool parse(const std::string &s, J &out) {
  Parser ps(s);
  out = ps.val();
  return ps.ok;
}

}  // namespace cj
