// cares_codec: drives the real c-ares DNS message codec with test vectors that
// the TLA+ reference codec (specs/DnsWire) generated, and reports what the real
// code did.  Properties C02, C03, C04.
//
//   verif_codec run <vectors.ndjson> <results.ndjson>
//
// The harness contains NO DNS decoder of its own: it calls the library
// (ares_dns_parse, the public getters/setters, ares_dns_write,
// ares_dns_write_buf_tcp, ares_dns_name_parse, ares_expand_name,
// ares_expand_string, ares_create_query/ares_mkquery, legacy ares_parse_*_reply)
// and prints results as canonical JSON (hex strings / numbers).  Comparison with
// the reference is done by checks/c0[234].py and by TLC (DnsWireTrace.tla).
//
// Vector kinds ("op"):
//   parse     {"id","hex","flags":[..],"wb":[..],"names":0|1,"legacy":0|1}
//   build     {"id","rec":{canonical record},"prefixes":[0,1,2,37,-1]}
//   mkquery   {"id","name":hex,"class","type","qid","rd","udp"}
//   namebox   {"id","maxlen","alphabet":[..],"report"}   (enumerates the box itself)
//   legacylen {"id"}                                    (int-length entry points)
//
// Vectors run in a forked child; when the child dies (sanitizer report, signal,
// watchdog) the vector in progress gets a {"id",...,"crash":...} result with the
// captured report and the run continues after it.  LeakSanitizer is invoked
// after every CODEC_LEAK_EVERY vectors (recoverable check); a leaking batch is
// re-run one vector at a time to attribute the leak.
#include <arpa/inet.h>
#include <fcntl.h>
#include <limits.h>
#include <netdb.h>
#include <sanitizer/lsan_interface.h>
#include <signal.h>
#include <sys/mman.h>
#include <sys/stat.h>
#include <sys/wait.h>
#include <unistd.h>

#include <fstream>
#include <string>
#include <vector>

#include "cjson.h"

extern "C" {
#include "ares_private.h"
#include "ares_buf.h"
#include "record/ares_dns_private.h"
}

using cj::J;

extern "C" const char *__asan_default_options() {
  return "detect_leaks=1:abort_on_error=0:exitcode=77:allocator_may_return_null=1:"
         "malloc_context_size=12:print_summary=1:handle_abort=1";
}
extern "C" const char *__ubsan_default_options() { return "print_stacktrace=1:halt_on_error=1"; }

static char g_hang_ctx[400];   // watchdog context: optional JSON fragment, e.g. "hex":"c000c000c002","off":4

// --------------------------------------------------------------------------
// plumbing
static std::string hex(const unsigned char *p, size_t n) {
  static const char *d = "0123456789abcdef";
  std::string        r;
  r.reserve(n * 2);
  for (size_t i = 0; i < n; i++) { r += d[p[i] >> 4]; r += d[p[i] & 15]; }
  return r;
}
static std::vector<unsigned char> unhex(const std::string &s) {
  std::vector<unsigned char> r;
  r.reserve(s.size() / 2);
  auto v = [](char c) { return c <= '9' ? c - '0' : (c | 0x20) - 'a' + 10; };
  for (size_t i = 0; i + 1 < s.size(); i += 2) r.push_back((unsigned char)(v(s[i]) * 16 + v(s[i + 1])));
  return r;
}
static std::string q(const std::string &s) { return "\"" + s + "\""; }
static std::string hexq(const unsigned char *p, size_t n) { return q(hex(p, n)); }
static std::string cstrq(const char *s) { return s ? hexq((const unsigned char *)s, strlen(s)) : "null"; }
static std::string num(long long v) { return std::to_string(v); }

// --------------------------------------------------------------------------
// canonical dump of a record through the public getters only
static std::string dump_rr(const ares_dns_rr_t *rr) {
  std::string s = "{\"name\":" + cstrq(ares_dns_rr_get_name(rr));
  ares_dns_rec_type_t type = ares_dns_rr_get_type(rr);
  s += ",\"type\":" + num(type) + ",\"class\":" + num(ares_dns_rr_get_class(rr)) +
       ",\"ttl\":" + num(ares_dns_rr_get_ttl(rr)) + ",\"keys\":[";
  size_t                   cnt  = 0;
  const ares_dns_rr_key_t *keys = ares_dns_rr_get_keys(type, &cnt);
  for (size_t i = 0; keys != NULL && i < cnt; i++) {
    ares_dns_rr_key_t   key = keys[i];
    ares_dns_datatype_t dt  = ares_dns_rr_key_datatype(key);
    if (i) s += ",";
    s += "[" + num(key) + "," + num(dt) + ",";
    switch (dt) {
      case ARES_DATATYPE_INADDR: {
        const struct in_addr *a = ares_dns_rr_get_addr(rr, key);
        s += a ? hexq((const unsigned char *)a, 4) : "null";
        break;
      }
      case ARES_DATATYPE_INADDR6: {
        const struct ares_in6_addr *a = ares_dns_rr_get_addr6(rr, key);
        s += a ? hexq((const unsigned char *)a, 16) : "null";
        break;
      }
      case ARES_DATATYPE_U8: s += num(ares_dns_rr_get_u8(rr, key)); break;
      case ARES_DATATYPE_U16: s += num(ares_dns_rr_get_u16(rr, key)); break;
      case ARES_DATATYPE_U32: s += num(ares_dns_rr_get_u32(rr, key)); break;
      case ARES_DATATYPE_NAME:
      case ARES_DATATYPE_STR: s += cstrq(ares_dns_rr_get_str(rr, key)); break;
      case ARES_DATATYPE_BIN:
      case ARES_DATATYPE_BINP: {
        size_t               len = 0;
        const unsigned char *b   = ares_dns_rr_get_bin(rr, key, &len);
        s += b ? hexq(b, len) : "null";
        break;
      }
      case ARES_DATATYPE_ABINP: {
        size_t n = ares_dns_rr_get_abin_cnt(rr, key);
        s += "[";
        for (size_t k = 0; k < n; k++) {
          size_t               len = 0;
          const unsigned char *b   = ares_dns_rr_get_abin(rr, key, k, &len);
          if (k) s += ",";
          s += b ? hexq(b, len) : "null";
        }
        s += "]";
        break;
      }
      case ARES_DATATYPE_OPT: {
        size_t n = ares_dns_rr_get_opt_cnt(rr, key);
        s += "[";
        for (size_t k = 0; k < n; k++) {
          const unsigned char *val = NULL;
          size_t               len = 0;
          unsigned short       id  = ares_dns_rr_get_opt(rr, key, k, &val, &len);
          if (k) s += ",";
          s += "[" + num(id) + "," + (val ? hexq(val, len) : (len == 0 ? q("") : "null")) + "]";
        }
        s += "]";
        break;
      }
      default: s += "null";
    }
    s += "]";
  }
  return s + "]}";
}

static std::string dump_record(const ares_dns_record_t *rec) {
  unsigned short fl = ares_dns_record_get_flags(rec);
  std::string    s  = "{\"id\":" + num(ares_dns_record_get_id(rec));
  s += ",\"qr\":" + num(!!(fl & ARES_FLAG_QR)) + ",\"opcode\":" + num(ares_dns_record_get_opcode(rec));
  s += ",\"aa\":" + num(!!(fl & ARES_FLAG_AA)) + ",\"tc\":" + num(!!(fl & ARES_FLAG_TC));
  s += ",\"rd\":" + num(!!(fl & ARES_FLAG_RD)) + ",\"ra\":" + num(!!(fl & ARES_FLAG_RA));
  s += ",\"ad\":" + num(!!(fl & ARES_FLAG_AD)) + ",\"cd\":" + num(!!(fl & ARES_FLAG_CD));
  s += ",\"rcode\":" + num(ares_dns_record_get_rcode(rec)) + ",\"qd\":[";
  for (size_t i = 0; i < ares_dns_record_query_cnt(rec); i++) {
    const char         *name = NULL;
    ares_dns_rec_type_t qt   = (ares_dns_rec_type_t)0;
    ares_dns_class_t    qc   = (ares_dns_class_t)0;
    ares_dns_record_query_get(rec, i, &name, &qt, &qc);
    if (i) s += ",";
    s += "{\"name\":" + cstrq(name) + ",\"qtype\":" + num(qt) + ",\"qclass\":" + num(qc) + "}";
  }
  s += "]";
  static const char *sn[] = {"", "an", "ns", "ar"};
  for (int sect = 1; sect <= 3; sect++) {
    s += std::string(",\"") + sn[sect] + "\":[";
    size_t n = ares_dns_record_rr_cnt(rec, (ares_dns_section_t)sect);
    for (size_t i = 0; i < n; i++) {
      if (i) s += ",";
      s += dump_rr(ares_dns_record_rr_get_const(rec, (ares_dns_section_t)sect, i));
    }
    s += "]";
  }
  return s + "}";
}

// --------------------------------------------------------------------------
// building a record from its canonical form through the public setters only
struct Built {
  ares_dns_record_t *rec = NULL;
  std::string        where;
  int                st = 0;
};

static std::string hexstr_to_c(const J &v) {   // hex -> raw bytes in a std::string
  std::vector<unsigned char> b = unhex(v.s);
  return std::string((const char *)b.data(), b.size());
}

static Built build_record(const J &r) {
  Built          b;
  unsigned short fl = 0;
  if (r["qr"].num()) fl |= ARES_FLAG_QR;
  if (r["aa"].num()) fl |= ARES_FLAG_AA;
  if (r["tc"].num()) fl |= ARES_FLAG_TC;
  if (r["rd"].num()) fl |= ARES_FLAG_RD;
  if (r["ra"].num()) fl |= ARES_FLAG_RA;
  if (r["ad"].num()) fl |= ARES_FLAG_AD;
  if (r["cd"].num()) fl |= ARES_FLAG_CD;
  ares_status_t st = ares_dns_record_create(&b.rec, (unsigned short)r["id"].num(), fl,
                                            (ares_dns_opcode_t)r["opcode"].num(),
                                            (ares_dns_rcode_t)r["rcode"].num());
  if (st != ARES_SUCCESS) { b.where = "record_create"; b.st = st; b.rec = NULL; return b; }
  auto fail = [&](const std::string &w, ares_status_t s) {
    ares_dns_record_destroy(b.rec);
    b.rec = NULL; b.where = w; b.st = s;
    return b;
  };
  for (size_t i = 0; i < r["qd"].size(); i++) {
    const J    &qd = r["qd"][i];
    std::string nm = hexstr_to_c(qd["name"]);
    st = ares_dns_record_query_add(b.rec, nm.c_str(), (ares_dns_rec_type_t)qd["qtype"].num(),
                                   (ares_dns_class_t)qd["qclass"].num());
    if (st != ARES_SUCCESS) return fail("query_add", st);
  }
  static const char *sn[] = {"", "an", "ns", "ar"};
  for (int sect = 1; sect <= 3; sect++) {
    const J &rrs = r[sn[sect]];
    for (size_t i = 0; i < rrs.size(); i++) {
      const J       &jr = rrs[i];
      ares_dns_rr_t *rr = NULL;
      std::string    nm = hexstr_to_c(jr["name"]);
      st = ares_dns_record_rr_add(&rr, b.rec, (ares_dns_section_t)sect, nm.c_str(),
                                  (ares_dns_rec_type_t)jr["type"].num(),
                                  (ares_dns_class_t)jr["class"].num(), (unsigned int)jr["ttl"].num());
      if (st != ARES_SUCCESS) return fail("rr_add", st);
      const J &keys = jr["keys"];
      for (size_t k = 0; k < keys.size(); k++) {
        ares_dns_rr_key_t   key = (ares_dns_rr_key_t)keys[k][0].num();
        ares_dns_datatype_t dt  = (ares_dns_datatype_t)keys[k][1].num();
        const J            &v   = keys[k][2];
        if (v.isnull()) continue;   // leave unset
        switch (dt) {
          case ARES_DATATYPE_INADDR: {
            std::string a = hexstr_to_c(v);
            struct in_addr ia;
            memset(&ia, 0, sizeof ia);
            memcpy(&ia, a.data(), a.size() < 4 ? a.size() : 4);
            st = ares_dns_rr_set_addr(rr, key, &ia);
            break;
          }
          case ARES_DATATYPE_INADDR6: {
            std::string a = hexstr_to_c(v);
            struct ares_in6_addr ia;
            memset(&ia, 0, sizeof ia);
            memcpy(&ia, a.data(), a.size() < 16 ? a.size() : 16);
            st = ares_dns_rr_set_addr6(rr, key, &ia);
            break;
          }
          case ARES_DATATYPE_U8: st = ares_dns_rr_set_u8(rr, key, (unsigned char)v.num()); break;
          case ARES_DATATYPE_U16: st = ares_dns_rr_set_u16(rr, key, (unsigned short)v.num()); break;
          case ARES_DATATYPE_U32: st = ares_dns_rr_set_u32(rr, key, (unsigned int)v.num()); break;
          case ARES_DATATYPE_NAME:
          case ARES_DATATYPE_STR: {
            std::string sv = hexstr_to_c(v);
            st = ares_dns_rr_set_str(rr, key, sv.c_str());
            break;
          }
          case ARES_DATATYPE_BIN:
          case ARES_DATATYPE_BINP: {
            std::string sv = hexstr_to_c(v);
            st = ares_dns_rr_set_bin(rr, key, (const unsigned char *)sv.data(), sv.size());
            break;
          }
          case ARES_DATATYPE_ABINP:
            for (size_t c = 0; c < v.size() && st == ARES_SUCCESS; c++) {
              std::string sv = hexstr_to_c(v[c]);
              st = ares_dns_rr_add_abin(rr, key, (const unsigned char *)sv.data(), sv.size());
            }
            break;
          case ARES_DATATYPE_OPT:
            for (size_t c = 0; c < v.size() && st == ARES_SUCCESS; c++) {
              std::string sv = hexstr_to_c(v[c][1]);
              st = ares_dns_rr_set_opt(rr, key, (unsigned short)v[c][0].num(),
                                       (const unsigned char *)sv.data(), sv.size());
            }
            break;
          default: break;
        }
        if (st != ARES_SUCCESS) return fail("set_key_" + num(key), st);
      }
    }
  }
  return b;
}

// --------------------------------------------------------------------------
// write -> parse -> write again; everything reported, nothing judged here
static std::string write_roundtrip(const ares_dns_record_t *rec, unsigned int flags, bool with_dump) {
  unsigned char *buf = NULL;
  size_t         len = 0;
  std::string    orig = dump_record(rec);
  ares_status_t  st   = ares_dns_write(rec, &buf, &len);
  std::string    s    = "{\"st\":" + num(st) + ",\"null\":" + num(buf == NULL) + ",\"len\":" + num(len);
  if (with_dump) s += ",\"orig\":" + orig;
  if (st == ARES_SUCCESS && buf != NULL) {
    s += ",\"hex\":" + hexq(buf, len);
    // the same record must serialise to the same bytes again
    unsigned char *buf1 = NULL;
    size_t         len1 = 0;
    ares_status_t  st1  = ares_dns_write(rec, &buf1, &len1);
    s += ",\"w2_st\":" + num(st1) + ",\"w2_eq\":" +
         num(st1 == ARES_SUCCESS && len1 == len && memcmp(buf, buf1, len) == 0);
    ares_free_string(buf1);
    ares_dns_record_t *rp  = NULL;
    ares_status_t      st2 = ares_dns_parse(buf, len, flags, &rp);
    s += ",\"rp_st\":" + num(st2) + ",\"rp_null\":" + num(rp == NULL);
    if (st2 == ARES_SUCCESS && rp != NULL) {
      std::string d2 = dump_record(rp);
      s += ",\"rp_eq\":" + num(d2 == orig);
      if (d2 != orig) s += ",\"rp\":" + d2;
      unsigned char *buf2 = NULL;
      size_t         len2 = 0;
      ares_status_t  st3  = ares_dns_write(rp, &buf2, &len2);
      s += ",\"rw_st\":" + num(st3) + ",\"rw_eq\":" +
           num(st3 == ARES_SUCCESS && len2 == len && memcmp(buf, buf2, len) == 0);
      if (st3 == ARES_SUCCESS && !(len2 == len && memcmp(buf, buf2, len) == 0)) s += ",\"rw_hex\":" + hexq(buf2, len2);
      ares_free_string(buf2);
    }
    ares_dns_record_destroy(rp);
  }
  ares_free_string(buf);
  return s + "}";
}

// length-prefixed frame appended to an output buffer that already holds `prefix`
static std::string write_tcp(const ares_dns_record_t *rec, long long prefix, const std::string &orig) {
  ares_buf_t *b = ares_buf_create();
  std::string s = "{\"prefix\":" + num(prefix);
  if (b == NULL) return s + ",\"st\":-1}";
  size_t        plen = 0;
  ares_status_t st;
  if (prefix < 0) {   // one earlier frame of the same record
    st = ares_dns_write_buf_tcp(rec, b);
    if (st != ARES_SUCCESS) { ares_buf_destroy(b); return s + ",\"st\":" + num(st) + ",\"stage\":\"first\"}"; }
    plen = ares_buf_len(b);
  } else {
    for (long long i = 0; i < prefix; i++) ares_buf_append_byte(b, (unsigned char)(0xE0 + (i % 16)));
    plen = (size_t)prefix;
  }
  std::vector<unsigned char> before;
  {
    size_t               l = 0;
    const unsigned char *p = ares_buf_peek(b, &l);
    if (p) before.assign(p, p + l);
  }
  st = ares_dns_write_buf_tcp(rec, b);
  size_t               total = 0;
  const unsigned char *p     = ares_buf_peek(b, &total);
  s += ",\"st\":" + num(st) + ",\"plen\":" + num(plen) + ",\"total\":" + num(total);
  if (p != NULL && total >= plen) {
    s += ",\"prefix_intact\":" + num(before.size() == plen && (plen == 0 || memcmp(p, before.data(), plen) == 0));
    s += ",\"frame\":" + hexq(p + plen, total - plen);
    if (st == ARES_SUCCESS && total >= plen + 2) {
      ares_dns_record_t *rp  = NULL;
      ares_status_t      st2 = ares_dns_parse(p + plen + 2, total - plen - 2, 0, &rp);
      s += ",\"rp_st\":" + num(st2);
      if (st2 == ARES_SUCCESS && rp) {
        std::string d2 = dump_record(rp);
        s += ",\"rp_eq\":" + num(d2 == orig);
        if (d2 != orig) s += ",\"rp\":" + d2;
      }
      ares_dns_record_destroy(rp);
    }
  }
  ares_buf_destroy(b);
  return s + "}";
}

// --------------------------------------------------------------------------
// name / string level entry points at one offset
static std::string name_at(const unsigned char *buf, size_t len, size_t off, bool *accepted) {
  char *s1  = NULL;
  long  enc = -1;
  int   st1 = ares_expand_name(buf + off, buf, (int)len, &s1, &enc);
  // the internal parser on a const buffer positioned at off
  char       *s2   = NULL;
  int         st2  = -1;
  long long   used = -1;
  ares_buf_t *b    = ares_buf_create_const(buf, len);
  if (b != NULL && ares_buf_set_position(b, off) == ARES_SUCCESS) {
    st2 = ares_dns_name_parse(b, &s2, ARES_FALSE);
    if (st2 == ARES_SUCCESS) used = (long long)ares_buf_get_position(b) - (long long)off;
  }
  ares_buf_destroy(b);
  *accepted = (st1 == ARES_SUCCESS) || (st2 == ARES_SUCCESS);
  std::string r = "[" + num(off) + "," + num(st1) + "," + num(enc) + "," + cstrq(s1) + "," + num(st2) + "," +
                  num(used) + "," + cstrq(s2) + "]";
  ares_free_string(s1);
  ares_free_string(s2);
  return r;
}

static std::string string_at(const unsigned char *buf, size_t len, size_t off, bool *accepted) {
  unsigned char *s   = NULL;
  long           enc = -1;
  int            st  = ares_expand_string(buf + off, buf, (int)len, &s, &enc);
  *accepted          = st == ARES_SUCCESS;
  std::string r = "[" + num(off) + "," + num(st) + "," + num(enc) + "," + num(s != NULL) + "]";
  ares_free_string(s);
  return r;
}

// legacy reply parsers: only "returns; success => result, failure => no result"
static std::string legacy_parsers(const unsigned char *buf, int len) {
  std::string s = "[";
  auto add = [&](const char *fn, int st, bool nonnull) {
    if (s.size() > 1) s += ",";
    s += std::string("[\"") + fn + "\"," + num(st) + "," + num(nonnull) + "]";
  };
  {
    struct hostent     *h = NULL;
    struct ares_addrttl t[4];
    int                 n  = 4;
    int                 st = ares_parse_a_reply(buf, len, &h, t, &n);
    add("a", st, h != NULL);
    if (h) ares_free_hostent(h);
  }
  {
    struct hostent      *h = NULL;
    struct ares_addr6ttl t[4];
    int                  n  = 4;
    int                  st = ares_parse_aaaa_reply(buf, len, &h, t, &n);
    add("aaaa", st, h != NULL);
    if (h) ares_free_hostent(h);
  }
  {
    struct hostent *h       = NULL;
    unsigned char   addr[4] = {10, 0, 0, 1};
    int             st      = ares_parse_ptr_reply(buf, len, addr, 4, AF_INET, &h);
    add("ptr", st, h != NULL);
    if (h) ares_free_hostent(h);
  }
  {
    struct hostent *h  = NULL;
    int             st = ares_parse_ns_reply(buf, len, &h);
    add("ns", st, h != NULL);
    if (h) ares_free_hostent(h);
  }
#define LEG(fn, T)                                  \
  {                                                 \
    struct T *o  = NULL;                            \
    int       st = ares_parse_##fn##_reply(buf, len, &o); \
    add(#fn, st, o != NULL);                        \
    if (o) ares_free_data(o);                       \
  }
  LEG(caa, ares_caa_reply)
  LEG(srv, ares_srv_reply)
  LEG(mx, ares_mx_reply)
  LEG(txt, ares_txt_reply)
  LEG(naptr, ares_naptr_reply)
  LEG(soa, ares_soa_reply)
  LEG(uri, ares_uri_reply)
#undef LEG
  {
    struct ares_txt_ext *o  = NULL;
    int                  st = ares_parse_txt_reply_ext(buf, len, &o);
    add("txt_ext", st, o != NULL);
    if (o) ares_free_data(o);
  }
  return s + "]";
}

// --------------------------------------------------------------------------
static std::string op_parse(const J &v) {
  std::vector<unsigned char> in = unhex(v["hex"].s);
  // exact-size heap copy so that any read past the end is seen by ASan
  unsigned char *buf = (unsigned char *)malloc(in.size() ? in.size() : 1);
  if (!in.empty()) memcpy(buf, in.data(), in.size());
  size_t      len = in.size();
  std::string s   = "\"p\":[";
  const J    &fls = v["flags"];
  const J    &wb  = v["wb"];
  for (size_t i = 0; i < fls.size(); i++) {
    unsigned int       fl  = (unsigned int)fls[i].num();
    ares_dns_record_t *rec = NULL;   // an untouched out-parameter counts as "no result"
    ares_status_t      st  = ares_dns_parse(buf, len, fl, &rec);
    if (i) s += ",";
    s += "{\"fl\":" + num(fl) + ",\"st\":" + num(st) + ",\"null\":" + num(rec == NULL);
    if (st == ARES_SUCCESS && rec != NULL) {
      s += ",\"rec\":" + dump_record(rec);
      bool dowb = false;
      for (size_t k = 0; k < wb.size(); k++) dowb |= (unsigned int)wb[k].num() == fl;
      if (dowb) s += ",\"wb\":" + write_roundtrip(rec, fl, false);
    }
    if (rec != NULL) ares_dns_record_destroy(rec);
    s += "}";
  }
  s += "]";
  if (v["names"].num() && len > 0) {
    size_t      lim = len < 80 ? len : 80;
    std::string ns, ss;
    for (size_t off = 0; off < lim; off++) {
      bool        acc = false;
      std::string e   = name_at(buf, len, off, &acc);
      if (acc) { if (!ns.empty()) ns += ","; ns += e; }
      e = string_at(buf, len, off, &acc);
      if (acc) { if (!ss.empty()) ss += ","; ss += e; }
    }
    s += ",\"noffs\":" + num(lim) + ",\"names\":[" + ns + "],\"strs\":[" + ss + "]";
  }
  if (v["legacy"].num() && len > 0) s += ",\"legacy\":" + legacy_parsers(buf, (int)len);
  free(buf);
  return s;
}

static std::string op_build(const J &v) {
  Built b = build_record(v["rec"]);
  if (b.rec == NULL) return "\"built\":0,\"where\":" + q(b.where) + ",\"st\":" + num(b.st);
  std::string orig = dump_record(b.rec);
  std::string s    = "\"built\":1,\"w\":" + write_roundtrip(b.rec, 0, true) + ",\"tcp\":[";
  const J    &pf   = v["prefixes"];
  for (size_t i = 0; i < pf.size(); i++) {
    if (i) s += ",";
    s += write_tcp(b.rec, pf[i].num(), orig);
  }
  s += "]";
  ares_dns_record_destroy(b.rec);
  return s;
}

static std::string op_mkquery(const J &v) {
  std::string    name = hexstr_to_c(v["name"]);
  unsigned char *buf  = NULL;
  int            len  = -1;
  int st = ares_create_query(name.c_str(), (int)v["class"].num(), (int)v["type"].num(),
                             (unsigned short)v["qid"].num(), (int)v["rd"].num(), &buf, &len, (int)v["udp"].num());
  std::string s = "\"cq\":{\"st\":" + num(st) + ",\"null\":" + num(buf == NULL) + ",\"len\":" + num(len);
  if (st == ARES_SUCCESS && buf) s += ",\"hex\":" + hexq(buf, (size_t)len);
  s += "}";
  ares_free_string(buf);
  if (v["udp"].num() == 0) {
    buf = NULL; len = -1;
    st  = ares_mkquery(name.c_str(), (int)v["class"].num(), (int)v["type"].num(),
                       (unsigned short)v["qid"].num(), (int)v["rd"].num(), &buf, &len);
    s += ",\"mk\":{\"st\":" + num(st) + ",\"null\":" + num(buf == NULL) + ",\"len\":" + num(len);
    if (st == ARES_SUCCESS && buf) s += ",\"hex\":" + hexq(buf, (size_t)len);
    s += "}";
    ares_free_string(buf);
  }
  return s;
}

// every string of length 1..maxlen over the alphabet, every start offset
static std::string op_namebox(const J &v, FILE *out) {
  size_t                     maxlen = (size_t)v["maxlen"].num();
  size_t                     report = (size_t)v["report"].num();
  std::vector<unsigned char> al;
  for (size_t i = 0; i < v["alphabet"].size(); i++) al.push_back((unsigned char)v["alphabet"][i].num());
  unsigned long long strings = 0, calls = 0, accepted = 0, disagree = 0;
  std::string        first_disagree;
  for (size_t len = 1; len <= maxlen; len++) {
    std::vector<size_t> idx(len, 0);
    unsigned char      *buf = (unsigned char *)malloc(len);
    while (true) {
      for (size_t i = 0; i < len; i++) buf[i] = al[idx[i]];
      strings++;
      std::string line;
      std::string hx = hex(buf, len);
      alarm(5);   // per string: a decoder that loops is reported with the string it loops on
      for (size_t off = 0; off < len; off++) {
        snprintf(g_hang_ctx, sizeof g_hang_ctx, "\"hex\":\"%s\",\"off\":%zu", hx.c_str(), off);
        char *s1  = NULL;
        long  enc = -1;
        int   st1 = ares_expand_name(buf + off, buf, (int)len, &s1, &enc);
        char *s2  = NULL;
        int   st2 = -1;
        long long   used = -1;
        ares_buf_t *b    = ares_buf_create_const(buf, len);
        if (b != NULL && ares_buf_set_position(b, off) == ARES_SUCCESS) {
          st2 = ares_dns_name_parse(b, &s2, ARES_FALSE);
          if (st2 == ARES_SUCCESS) used = (long long)ares_buf_get_position(b) - (long long)off;
        }
        ares_buf_destroy(b);
        calls += 2;
        bool ok1 = st1 == ARES_SUCCESS, ok2 = st2 == ARES_SUCCESS;
        if (ok1) accepted++;
        bool consistent = ok1 == ok2 && (!ok1 || (s1 && s2 && !strcmp(s1, s2) && enc == used)) &&
                          (ok1 || (s1 == NULL && s2 == NULL));
        if (!consistent) {
          disagree++;
          if (first_disagree.empty()) first_disagree = hex(buf, len) + "@" + num(off);
        }
        if (len <= report) {
          if (off) line += ",";
          line += ok1 ? "[1," + num(enc) + "," + cstrq(s1) + "]" : "[0]";
        }
        ares_free_string(s1);
        ares_free_string(s2);
      }
      if (len <= report) fprintf(out, "{\"id\":%s,\"box\":\"%s\",\"r\":[%s]}\n", q(v["id"].s).c_str(), hex(buf, len).c_str(), line.c_str());
      size_t k = len;
      while (k > 0) {
        k--;
        if (++idx[k] < al.size()) break;
        idx[k] = 0;
        if (k == 0) { k = (size_t)-1; break; }
      }
      if (k == (size_t)-1) break;
    }
    free(buf);
  }
  g_hang_ctx[0] = 0;
  return "\"strings\":" + num((long long)strings) + ",\"calls\":" + num((long long)calls) + ",\"accepted\":" +
         num((long long)accepted) + ",\"disagree\":" + num((long long)disagree) + ",\"first_disagree\":" + q(first_disagree);
}

// legacy int-length entry points.  A length the function rejects before
// reading (<= 0) may be passed with a short real buffer; any other length is
// passed only together with a real buffer of that size (INT_MAX: anonymous
// NORESERVE mapping), because for those the caller's contract is "alen is the
// size of abuf".
static std::string op_legacylen(const J &) {
  std::string s = "\"cases\":[";
  bool        first = true;
  auto emit = [&](const std::string &what, long long alen, int st, bool nonnull, long enc) {
    if (!first) s += ",";
    first = false;
    s += "[" + q(what) + "," + num(alen) + "," + num(st) + "," + num(nonnull) + "," + num(enc) + "]";
  };
  static const unsigned char msg[] = {0x12, 0x34, 0x81, 0x80, 0, 1, 0, 1, 0, 0, 0, 0, 1, 'a', 0, 0, 1, 0, 1,
                                      0xC0, 12, 0, 1, 0, 1, 0, 0, 0, 60, 0, 4, 1, 2, 3, 4};
  const int   lens[] = {-1, 0, 1, 11, 12, (int)sizeof(msg), 65535, 65536, INT_MAX};
  for (int L : lens) {
    unsigned char *buf;
    size_t         real;
    bool           mapped = false;
    if (L <= 0) {
      real = sizeof(msg);
      buf  = (unsigned char *)malloc(real);
    } else if (L == INT_MAX) {
      real = (size_t)INT_MAX;
      buf  = (unsigned char *)mmap(NULL, real, PROT_READ | PROT_WRITE, MAP_PRIVATE | MAP_ANONYMOUS | MAP_NORESERVE, -1, 0);
      if (buf == MAP_FAILED) { emit("mmap_failed", L, -1, false, -1); continue; }
      mapped = true;
    } else {
      real = (size_t)L;
      buf  = (unsigned char *)calloc(1, real);
    }
    memcpy(buf, msg, real < sizeof(msg) ? real : sizeof(msg));
    if (L > 64) {   // adversarial tail: label running into the end, pointer as last byte
      buf[real - 1] = 0xC0;
      buf[real - 3] = 0x3F;
      buf[real - 2] = 'x';
    }
    // name / string expansion at the start, inside, and at the last bytes
    size_t offs[] = {0, 12, 19, real > 3 ? real - 3 : 0, real > 1 ? real - 1 : 0};
    for (size_t off : offs) {
      if (off >= real) continue;
      char *n   = NULL;
      long  enc = -7;
      int   st  = ares_expand_name(buf + off, buf, L, &n, &enc);
      emit("expand_name@" + num((long long)off), L, st, n != NULL, enc);
      ares_free_string(n);
      unsigned char *str = NULL;
      enc                = -7;
      st                 = ares_expand_string(buf + off, buf, L, &str, &enc);
      emit("expand_string@" + num((long long)off), L, st, str != NULL, enc);
      ares_free_string(str);
    }
    {
      struct hostent     *h = NULL;
      struct ares_addrttl t[2];
      int                 n  = 2;
      int                 st = ares_parse_a_reply(buf, L, &h, t, &n);
      emit("parse_a_reply", L, st, h != NULL, n);
      if (h) ares_free_hostent(h);
      struct ares_txt_reply *txt = NULL;
      st                         = ares_parse_txt_reply(buf, L, &txt);
      emit("parse_txt_reply", L, st, txt != NULL, 0);
      if (txt) ares_free_data(txt);
      struct ares_soa_reply *soa = NULL;
      st                         = ares_parse_soa_reply(buf, L, &soa);
      emit("parse_soa_reply", L, st, soa != NULL, 0);
      if (soa) ares_free_data(soa);
      struct hostent *hp      = NULL;
      unsigned char   addr[4] = {1, 2, 3, 4};
      st                      = ares_parse_ptr_reply(buf, L, addr, 4, AF_INET, &hp);
      emit("parse_ptr_reply", L, st, hp != NULL, 0);
      if (hp) ares_free_hostent(hp);
      if (L > 0) {
        ares_dns_record_t *rec = NULL;
        ares_status_t      ps  = ares_dns_parse(buf, (size_t)L, 0, &rec);
        emit("dns_parse", L, ps, rec != NULL, 0);
        ares_dns_record_destroy(rec);
      }
    }
    if (mapped) munmap(buf, real); else free(buf);
  }
  return s + "]";
}

// --------------------------------------------------------------------------
static std::vector<std::string> g_lines;
// watchdog ("the call terminates"): on expiry the child itself reports which input was being decoded
static int           g_outfd = -1;
static char          g_hang_id[128];
static void on_alarm(int) {
  char   buf[700];
  size_t n = 0;
  auto   put = [&](const char *t) { while (*t && n + 1 < sizeof buf) buf[n++] = *t++; };
  put("\n{\"id\":\""); put(g_hang_id); put("\",\"crash\":1,\"exit\":-1,\"sig\":14,\"report\":\"watchdog: the call did not return\"");
  if (g_hang_ctx[0]) { put(",\"hang\":{"); put(g_hang_ctx); put("}"); }
  put("}\n");
  if (g_outfd >= 0) { ssize_t w = write(g_outfd, buf, n); (void)w; }
  _exit(81);
}
static int                      g_reports = 0;   // crash / leak result lines written so far

static std::string get_id(const std::string &line) {
  size_t p = line.find("\"id\":\"");
  if (p == std::string::npos) return "";
  size_t e = line.find('"', p + 6);
  return line.substr(p + 6, e - p - 6);
}

static void run_child(size_t from, size_t to, int progress_fd, const char *outpath, size_t leak_every) {
  FILE *out = fopen(outpath, "a");
  if (!out) _exit(3);
  g_outfd = open(outpath, O_WRONLY | O_APPEND);
  signal(SIGALRM, on_alarm);
  size_t since = 0, batch_start = from;
  for (size_t i = from; i < to; i++) {
    unsigned int idx = (unsigned int)i;
    if (write(progress_fd, &idx, sizeof idx) != sizeof idx) _exit(4);
    J v;
    bool parsed = cj::parse(g_lines[i], v);
    snprintf(g_hang_id, sizeof g_hang_id, "%s", get_id(g_lines[i]).c_str());
    g_hang_ctx[0] = 0;
    fflush(out);
    alarm(parsed && v["alarm"].num() > 0 ? (unsigned)v["alarm"].num() : 8);   // watchdog: "the call terminates"
    if (!parsed) { fprintf(out, "{\"id\":\"%s\",\"badvector\":1}\n", get_id(g_lines[i]).c_str()); continue; }
    std::string op = v["op"].s, body;
    if (op == "parse") body = op_parse(v);
    else if (op == "build") body = op_build(v);
    else if (op == "mkquery") body = op_mkquery(v);
    else if (op == "namebox") body = op_namebox(v, out);
    else if (op == "legacylen") body = op_legacylen(v);
    else body = "\"unknown_op\":1";
    fprintf(out, "{\"id\":\"%s\",\"op\":\"%s\",%s}\n", v["id"].s.c_str(), op.c_str(), body.c_str());
    fflush(out);
    alarm(0);
    since++;
    if (since >= leak_every || i + 1 == to) {
      if (__lsan_do_recoverable_leak_check()) {
        fflush(out);
        if (leak_every == 1) _exit(78);          // attributed to vector i
        fprintf(out, "{\"leak_range\":[%zu,%zu]}\n", batch_start, i + 1);
        fflush(out);
        _exit(79);
      }
      since = 0;
      batch_start = i + 1;
    }
  }
  fclose(out);
  _exit(0);
}

static std::string slurp(const std::string &p, size_t max) {
  std::ifstream f(p, std::ios::binary);
  std::string   s((std::istreambuf_iterator<char>(f)), std::istreambuf_iterator<char>());
  if (s.size() > max) s = s.substr(0, max);
  return s;
}
static std::string jesc(const std::string &s) {
  std::string r;
  for (unsigned char c : s) {
    if (c == '"' || c == '\\') { r += '\\'; r += (char)c; }
    else if (c == '\n') r += "\\n";
    else if (c < 0x20 || c >= 0x7f) r += ' ';
    else r += (char)c;
  }
  return r;
}

// runs [from,to); returns when all done.  Crashes are written as result lines.
static void drive(size_t from, size_t to, const char *outpath, size_t leak_every) {
  size_t     next = from;
  int        round = 0;
  static int deaths = 0;
  while (next < to) {
    if (deaths >= 25) {   // a broken library: do not spend the budget on thousands of identical crashes
      FILE *o = fopen(outpath, "a");
      fprintf(o, "{\"too_many_crashes\":%d,\"skipped_from\":%zu,\"skipped_to\":%zu}\n", deaths, next, to);
      fclose(o);
      return;
    }
    int pfd[2];
    if (pipe(pfd) != 0) { perror("pipe"); exit(2); }
    std::string errpath = std::string(outpath) + ".stderr";
    pid_t       pid     = fork();
    if (pid < 0) { perror("fork"); exit(2); }
    if (pid == 0) {
      close(pfd[0]);
      int efd = open(errpath.c_str(), O_WRONLY | O_CREAT | O_TRUNC, 0644);
      if (efd >= 0) { dup2(efd, 2); close(efd); }
      run_child(next, to, pfd[1], outpath, leak_every);
    }
    close(pfd[1]);
    unsigned int idx = (unsigned int)next, last = (unsigned int)next;
    bool         any = false;
    while (read(pfd[0], &idx, sizeof idx) == (ssize_t)sizeof idx) { last = idx; any = true; }
    close(pfd[0]);
    int status = 0;
    waitpid(pid, &status, 0);
    round++;
    if (WIFEXITED(status) && WEXITSTATUS(status) == 0) return;
    FILE *out = fopen(outpath, "a");
    if (WIFEXITED(status) && WEXITSTATUS(status) == 79) {
      // a batch leaked: find its range in the output, re-run it vector by vector
      std::string all = slurp(outpath, (size_t)-1);
      size_t      p   = all.rfind("{\"leak_range\":[");
      size_t      a = next, b = (size_t)last + 1;
      if (p != std::string::npos) sscanf(all.c_str() + p, "{\"leak_range\":[%zu,%zu]}", &a, &b);
      fprintf(out, "{\"rerun_range\":[%zu,%zu]}\n", a, b);
      fclose(out);
      int before = g_reports;
      drive(a, b, outpath, 1);
      if (g_reports == before) {   // the batch leaked but no single vector did when re-run alone: still a leak
        out = fopen(outpath, "a");
        fprintf(out, "{\"id\":\"%s\",\"leak\":1,\"report\":\"%s\"}\n", get_id(g_lines[a]).c_str(),
                jesc("LeakSanitizer reported a leak for the batch starting at this vector; not reproduced vector by vector\n" +
                     slurp(errpath, 4000)).c_str());
        fclose(out);
        g_reports++;
      }
      next = b;
      continue;
    }
    deaths++;
    g_reports++;
    if (WIFEXITED(status) && WEXITSTATUS(status) == 81) {   // watchdog: the child wrote the result line itself
      fclose(out);
      next = (size_t)last + 1;
      continue;
    }
    std::string id = any ? get_id(g_lines[last]) : "";
    std::string report = slurp(errpath, 6000);
    if (WIFEXITED(status) && WEXITSTATUS(status) == 78) {
      fprintf(out, "\n{\"id\":\"%s\",\"leak\":1,\"report\":\"%s\"}\n", id.c_str(), jesc(report).c_str());
    } else {
      fprintf(out, "\n{\"id\":\"%s\",\"crash\":1,\"exit\":%d,\"sig\":%d,\"report\":\"%s\"}\n", id.c_str(),
              WIFEXITED(status) ? WEXITSTATUS(status) : -1, WIFSIGNALED(status) ? WTERMSIG(status) : 0,
              jesc(report).c_str());
    }
    fclose(out);
    next = (size_t)last + 1;
    if (!any) next++;   // child died before starting anything: skip one to guarantee progress
  }
}

int main(int argc, char **argv) {
  if (argc < 4 || strcmp(argv[1], "run") != 0) {
    fprintf(stderr, "usage: %s run <vectors.ndjson> <results.ndjson>\n", argv[0]);
    return 2;
  }
  std::ifstream in(argv[2]);
  if (!in) { fprintf(stderr, "cannot read %s\n", argv[2]); return 2; }
  std::string line;
  while (std::getline(in, line)) if (!line.empty()) g_lines.push_back(line);
  FILE *out = fopen(argv[3], "w");
  if (!out) { fprintf(stderr, "cannot write %s\n", argv[3]); return 2; }
  fclose(out);
  size_t      leak_every = 200;
  const char *e          = getenv("CODEC_LEAK_EVERY");
  if (e && atoi(e) > 0) leak_every = (size_t)atoi(e);
  drive(0, g_lines.size(), argv[3], leak_every);
  out = fopen(argv[3], "a");
  fprintf(out, "{\"done\":%zu}\n", g_lines.size());
  fclose(out);
  return 0;
}
