"""Shared machinery of the C02 / C03 / C04 checks (DNS wire codec).

Plumbing only: runs TLC on specs/DnsWire (generation, self-checks, trace
validation), runs the cares_codec harness, converts between the shape in which
the TLA+ reference prints records and the canonical dump of the harness
(field <-> key-id table, integers <-> hex), and compares JSON structures.
No DNS decoding is done here: the reference verdicts and records come from
TLC, the implementation's from the public c-ares getters.
"""
import hashlib
import json
import os
import re
import subprocess
import sys
import time

ROOT = os.path.dirname(os.path.dirname(os.path.dirname(os.path.abspath(__file__))))
sys.path.insert(0, os.path.join(ROOT, "tools"))
import vlib  # noqa: E402

SPECDIR = os.path.join(ROOT, "specs", "DnsWire")
CACHE = os.path.join(ROOT, "build", "codec-cache")
JVM = ["-Xss64m"]
EXTRA = ["-noGenerateSpecTE"]
ALPHABET = [0, 1, 2, 97, 64, 128, 192, 193, 255]
ARES_SUCCESS = 0
RAW_RR = 65536

# ---------------------------------------------------------------------------
# binding table: RDATA tag of the reference -> [(field, c-ares key id, datatype, kind)]
# datatype numbers are ares_dns_datatype_t; kind says how the value is converted
DT_INADDR, DT_INADDR6, DT_U8, DT_U16, DT_U32, DT_NAME, DT_STR, DT_BIN, DT_BINP, DT_OPT, DT_ABINP = range(1, 12)
BIND = {
    "A": (1, [("addr", 101, DT_INADDR, "bytes")]),
    "NS": (2, [("name", 201, DT_NAME, "name")]),
    "CNAME": (5, [("name", 501, DT_NAME, "name")]),
    "SOA": (6, [("mname", 601, DT_NAME, "name"), ("rname", 602, DT_NAME, "name"),
                ("serial", 603, DT_U32, "u32"), ("refresh", 604, DT_U32, "u32"),
                ("retry", 605, DT_U32, "u32"), ("expire", 606, DT_U32, "u32"),
                ("minimum", 607, DT_U32, "u32")]),
    "PTR": (12, [("name", 1201, DT_NAME, "name")]),
    "HINFO": (13, [("cpu", 1301, DT_STR, "bytes"), ("os", 1302, DT_STR, "bytes")]),
    "MX": (15, [("preference", 1501, DT_U16, "int"), ("exchange", 1502, DT_NAME, "name")]),
    "TXT": (16, [("chunks", 1601, DT_ABINP, "chunks")]),
    "SIG": (24, [("type_covered", 2401, DT_U16, "int"), ("algorithm", 2402, DT_U8, "int"),
                 ("labels", 2403, DT_U8, "int"), ("original_ttl", 2404, DT_U32, "u32"),
                 ("expiration", 2405, DT_U32, "u32"), ("inception", 2406, DT_U32, "u32"),
                 ("key_tag", 2407, DT_U16, "int"), ("signers_name", 2408, DT_NAME, "name"),
                 ("signature", 2409, DT_BIN, "bytes")]),
    "AAAA": (28, [("addr", 2801, DT_INADDR6, "bytes")]),
    "SRV": (33, [("priority", 3302, DT_U16, "int"), ("weight", 3303, DT_U16, "int"),
                 ("port", 3304, DT_U16, "int"), ("target", 3305, DT_NAME, "name")]),
    "NAPTR": (35, [("order", 3501, DT_U16, "int"), ("preference", 3502, DT_U16, "int"),
                   ("flags", 3503, DT_STR, "bytes"), ("services", 3504, DT_STR, "bytes"),
                   ("regexp", 3505, DT_STR, "bytes"), ("replacement", 3506, DT_NAME, "name")]),
    "OPT": (41, [("udp_size", 4101, DT_U16, "int"), ("version", 4103, DT_U8, "int"),
                 ("flags", 4104, DT_U16, "int"), ("options", 4105, DT_OPT, "tlvs")]),
    "TLSA": (52, [("cert_usage", 5201, DT_U8, "int"), ("selector", 5202, DT_U8, "int"),
                  ("match", 5203, DT_U8, "int"), ("data", 5204, DT_BIN, "bytes")]),
    "SVCB": (64, [("priority", 6401, DT_U16, "int"), ("target", 6402, DT_NAME, "name"),
                  ("params", 6403, DT_OPT, "tlvs")]),
    "HTTPS": (65, [("priority", 6501, DT_U16, "int"), ("target", 6502, DT_NAME, "name"),
                   ("params", 6503, DT_OPT, "tlvs")]),
    "URI": (256, [("priority", 25601, DT_U16, "int"), ("weight", 25602, DT_U16, "int"),
                  ("target", 25603, DT_NAME, "bytes")]),
    "CAA": (257, [("critical", 25701, DT_U8, "int"), ("tag", 25702, DT_STR, "bytes"),
                  ("value", 25703, DT_BINP, "bytes")]),
    "RAW": (RAW_RR, [("rtype", 6553601, DT_U16, "int"), ("data", 6553602, DT_BIN, "bytes")]),
}
TYPE_TO_TAG = {v[0]: k for k, v in BIND.items()}
RCODES_KNOWN = set(range(0, 12)) | set(range(16, 24))


def hx(ints):
    return bytes(ints).hex()


def unhx(s):
    return list(bytes.fromhex(s))


def u32(p):
    return p[0] * 65536 + p[1]


def pair(n):
    return [n // 65536, n % 65536]


def _to_canon_val(kind, v):
    if kind == "int":
        return v
    if kind == "u32":
        return u32(v)
    if kind in ("bytes", "name"):
        return hx(v)
    if kind == "chunks":
        return [hx(c) for c in v]
    if kind == "tlvs":
        return [[t[0], hx(t[1])] for t in v]
    raise ValueError(kind)


def _from_canon_val(kind, v):
    if kind == "int":
        return v
    if kind == "u32":
        return pair(v)
    if kind in ("bytes", "name"):
        return unhx(v) if v is not None else []
    if kind == "chunks":
        return [unhx(c) if c is not None else [] for c in v]
    if kind == "tlvs":
        return [[t[0], unhx(t[1]) if t[1] is not None else []] for t in v]
    raise ValueError(kind)


def ref_to_canon(rec):
    """reference record (names in presentation form, as printed by TLC) -> harness canonical form"""
    out = {k: rec[k] for k in ("id", "qr", "opcode", "aa", "tc", "rd", "ra", "ad", "cd", "rcode")}
    out["qd"] = [{"name": hx(q["name"]), "qtype": q["qtype"], "qclass": q["qclass"]} for q in rec["qd"]]
    for sect in ("an", "ns", "ar"):
        rrs = []
        for rr in rec[sect]:
            tag = rr["rd"]["k"]
            ctype, fields = BIND[tag]
            keys = [[key, dt, _to_canon_val(kind, rr["rd"][f])] for (f, key, dt, kind) in fields]
            if tag == "OPT":      # API convention: class/ttl of the OPT pseudo-RR are not exposed
                cls, ttl = 1, 0
            else:
                cls, ttl = rr["class"], u32(rr["ttl"])
            rrs.append({"name": hx(rr["name"]), "type": ctype if tag == "RAW" else rr["type"],
                        "class": cls, "ttl": ttl, "keys": keys})
        out[sect] = rrs
    return out


def canon_to_ref(d):
    """harness dump -> reference shape with names as presentation strings (char codes)"""
    out = {k: d[k] for k in ("id", "qr", "opcode", "aa", "tc", "rd", "ra", "ad", "cd", "rcode")}
    out["z"] = 0
    out["qd"] = [{"name": unhx(q["name"] or ""), "qtype": q["qtype"], "qclass": q["qclass"]} for q in d["qd"]]
    for sect in ("an", "ns", "ar"):
        rrs = []
        for rr in d[sect]:
            tag = TYPE_TO_TAG.get(rr["type"])
            if tag is None:
                raise ValueError("dump with type %r" % rr["type"])
            vals = {k[0]: k[2] for k in rr["keys"]}
            rd = {"k": tag}
            for (f, key, dt, kind) in BIND[tag][1]:
                rd[f] = _from_canon_val(kind, vals.get(key))
            if tag == "OPT":
                cls = rd["udp_size"]
                ttl = [(d["rcode"] // 16) * 256 + rd["version"], rd["flags"]]
                typ = 41
            elif tag == "RAW":
                cls, ttl, typ = rr["class"], pair(rr["ttl"]), rd["rtype"]
            else:
                cls, ttl, typ = rr["class"], pair(rr["ttl"]), rr["type"]
            rrs.append({"name": unhx(rr["name"] or ""), "type": typ, "class": cls, "ttl": ttl, "rd": rd})
        out[sect] = rrs
    return out


def diff_canon(exp, act):
    """list of (path, expected, actual); empty = equal field by field"""
    out = []
    for k in ("id", "qr", "opcode", "aa", "tc", "rd", "ra", "ad", "cd", "rcode"):
        if exp[k] != act[k]:
            out.append((k, exp[k], act[k]))
    if len(exp["qd"]) != len(act["qd"]):
        out.append(("qd.count", len(exp["qd"]), len(act["qd"])))
    for e, a in zip(exp["qd"], act["qd"]):
        for k in ("name", "qtype", "qclass"):
            if e[k] != a[k]:
                out.append(("qd." + k, e[k], a[k]))
    for sect in ("an", "ns", "ar"):
        if len(exp[sect]) != len(act[sect]):
            out.append((sect + ".count", len(exp[sect]), len(act[sect])))
        for i, (e, a) in enumerate(zip(exp[sect], act[sect])):
            for k in ("name", "type", "class", "ttl"):
                if e[k] != a[k]:
                    out.append(("%s.%s" % (sect, k), e[k], a[k]))
            ek = {x[0]: x[2] for x in e["keys"]}
            ak = {x[0]: x[2] for x in a["keys"]}
            for key in sorted(set(ek) | set(ak)):
                if ek.get(key, "<absent>") != ak.get(key, "<absent>"):
                    out.append(("%s.keys.%d" % (sect, key), ek.get(key, "<absent>"), ak.get(key, "<absent>")))
    return out


# ---------------------------------------------------------------------------
# TLC
def _spec_hash():
    h = hashlib.sha1()
    for f in sorted(os.listdir(SPECDIR)):
        if f.endswith(".tla"):
            h.update(open(os.path.join(SPECDIR, f), "rb").read())
    return h


def write_cfg(path, spec, consts, invariants=(), extra_lines=()):
    lines = ["SPECIFICATION %s" % spec, "CONSTANTS"]
    for k, v in consts.items():
        lines.append("  %s = %s" % (k, v))
    if invariants:
        lines.append("INVARIANTS " + " ".join(invariants))
    lines.append("CHECK_DEADLOCK FALSE")
    lines += list(extra_lines)
    with open(path, "w") as f:
        f.write("\n".join(lines) + "\n")
    return "\n".join(lines)


def tla_set(xs, quote=False):
    return "{" + ", ".join(('"%s"' % x) if quote else str(x) for x in xs) + "}"


def printed(out):
    """JSON values printed by PrintT(ToJson(..)) in a TLC run"""
    for line in out.splitlines():
        if line.startswith('"{'):
            try:
                yield json.loads(json.loads(line))
            except ValueError:
                raise vlib.MachineryError("unparsable TLC output line: %s" % line[:300])


def run_tlc(ctx, specfile, cfgpath, workers=8, timeout=900, env=None, account=True):
    r = vlib.tlc(os.path.join(SPECDIR, specfile), cfgpath, workers=workers, timeout=timeout,
                 jvm=JVM, extra=EXTRA, env=env)
    if r.rc == 124:
        raise vlib.MachineryError("TLC timeout on %s (%s)" % (specfile, cfgpath))
    if r.violation is None and re.search(r"Postcondition \w+ .* is false", r.out):
        r.violation = "postcondition"
    if r.error or (r.rc != 0 and r.violation is None):
        raise vlib.MachineryError("TLC failed on %s/%s rc=%s:\n%s" % (specfile, cfgpath, r.rc, r.out[-4000:]))
    if account:
        ctx.cov["states"] += r.distinct
        ctx.cov["transitions"] += r.generated
        ctx.notes.setdefault("tlc_runs", []).append(
            {"spec": specfile, "cfg": os.path.basename(cfgpath), "distinct": r.distinct,
             "generated": r.generated, "wall_s": round(r.wall, 1), "violation": r.violation})
    return r


def model_check(ctx, specfile, name, consts, invariants, workers=8, timeout=900, spec="Spec"):
    """TLC run on the model itself; a violation here is a machinery error"""
    cfg = os.path.join(ctx.out, name + ".cfg")
    write_cfg(cfg, spec, consts, invariants)
    r = run_tlc(ctx, specfile, cfg, workers=workers, timeout=timeout)
    if r.violation:
        raise vlib.MachineryError("model %s violates its own invariant %s:\n%s" % (name, r.violation, r.out[-3000:]))
    ctx.log("TLC %s: %d states in %.1fs, invariants %s hold" % (name, r.distinct, r.wall, ",".join(invariants)))
    return r


def generate(ctx, name, consts, timeout=900, specfile="DnsWireGen.tla", idfn=None):
    """run a generator spec with EmitVec, cached under build/codec-cache by spec+constants"""
    consts = dict(consts)
    consts["Emit"] = "TRUE"
    cfg = os.path.join(ctx.out, name + ".cfg")
    text = write_cfg(cfg, "Spec", consts, ["EmitVec"])
    h = _spec_hash()
    h.update((specfile + text).encode())
    key = h.hexdigest()[:20]
    os.makedirs(CACHE, exist_ok=True)
    cpath = os.path.join(CACHE, "gen-%s.ndjson" % key)
    if os.path.exists(cpath):
        os.utime(cpath, None)
        vecs = [json.loads(l) for l in open(cpath)]
        ctx.log("generator %s: %d vectors (cached %s)" % (name, len(vecs), os.path.basename(cpath)))
        ctx.notes.setdefault("tlc_runs", []).append({"spec": specfile, "cfg": name, "cached": True,
                                                     "vectors": len(vecs)})
        ctx.cov["states"] += len(vecs)
        return vecs
    r = run_tlc(ctx, specfile, cfg, workers=8, timeout=timeout)
    if r.violation:
        raise vlib.MachineryError("generator %s: unexpected violation %s\n%s" % (name, r.violation, r.out[-3000:]))
    vecs = list(printed(r.out))
    if len(vecs) != r.distinct:
        raise vlib.MachineryError("generator %s: %d states but %d printed vectors" % (name, r.distinct, len(vecs)))
    vecs = [v for v in vecs if "root" not in v]      # DnsWireGen: initial states carry no vector
    if idfn is None:
        def idfn(v):
            m = v["mut"]
            return "%s.%d.%d.%s.%d.%d" % (v["fam"], v["idx"], v["lid"], m["k"], m["pos"], m["val"])
    for v in vecs:
        v["id"] = idfn(v)
    vecs.sort(key=lambda v: v["id"])
    tmp = cpath + ".tmp%d" % os.getpid()
    with open(tmp, "w") as f:
        for v in vecs:
            f.write(json.dumps(v, separators=(",", ":")) + "\n")
    os.replace(tmp, cpath)
    # keep the cache small: the 8 most recently used entries
    ents = sorted((os.path.join(CACHE, f) for f in os.listdir(CACHE) if f.startswith("gen-") and f.endswith(".ndjson")),
                  key=os.path.getmtime)
    for old in ents[:-8]:
        try:
            os.remove(old)
        except OSError:
            pass
    ctx.log("generator %s: %d vectors in %.1fs" % (name, len(vecs), r.wall))
    return vecs


MAIN_FAMS = ["types", "multi", "hdr", "names", "optend", "combo", "api", "sfx"]
ALL_MUTS = ["trunc", "len", "rdlen", "ptr", "subst"]
ALL_FLAGS = tuple(range(64))      # every combination of the six ARES_DNS_PARSE_*_RAW bits


def gen_consts(tier, seed, fams=None, muts=None, flags=None, stride=None, combo=None):
    quick = tier == "quick"
    if fams is None:
        fams = MAIN_FAMS
    if muts is None:
        muts = ALL_MUTS
    if flags is None:
        flags = (0, 63) if quick else (0, 7, 56, 63)
    if stride is None:
        stride = 11 if quick else 1
    if combo is None:
        combo = 150 if quick else 1000
    # the parse-flag dimension (DnsWireGen!FlagsOf / FlagsSound): all 64 flag values on the unmutated vectors of
    # the families below in the layouts XFlagLays; quick: every RR type x section, multi-RR messages, header /
    # extended-rcode / OPT variants in the all-compressed layout; thorough: also the random multi-RR records and the
    # name pool, in the same layout
    xfams = ["types", "multi", "hdr", "optend"] if quick else ["types", "multi", "hdr", "optend", "names", "combo"]
    return {"Fams": tla_set(fams, True), "MutKinds": tla_set(muts, True), "ComboN": combo, "Seed": seed % 1000,
            "SfxLen": 2 if quick else 3,
            "Stride": stride, "Phase": seed % stride, "FlagSet": tla_set(flags),
            "XFlagSet": tla_set(ALL_FLAGS), "XFlagFams": tla_set([f for f in xfams if f in fams], True),
            "XFlagLays": "{2}",
            "MutLays": "{3}" if quick else "{3, 5}", "AsCoded": "FALSE"}


def main_vectors(ctx):
    """the vector set shared by C02/C03/C04 (same constants => same cache entry)"""
    vecs = generate(ctx, "gen_main", gen_consts(ctx.tier, ctx.seed), timeout=1500)
    # vacuity: every mutation kind, every family and every reference verdict must actually occur
    kinds, fams, verdicts = {}, {}, {}
    for v in vecs:
        kinds[v["mut"]["k"]] = kinds.get(v["mut"]["k"], 0) + 1
        fams[v["fam"]] = fams.get(v["fam"], 0) + 1
        k = v["dec"][0]["k"]
        verdicts[k] = verdicts.get(k, 0) + 1
    missing = [x for x in ["none"] + ALL_MUTS if not kinds.get(x)] + [x for x in MAIN_FAMS if not fams.get(x)] + \
              [x for x in ("WF", "Lenient", "Malformed") if not verdicts.get(x)]
    if missing:
        raise vlib.MachineryError("generated vector set is vacuous for: %s" % missing)
    # the parse-flag dimension must be present: vectors judged under all 64 flag values, among them messages with
    # an interpreted-type RR (OPT and others) in each section
    allfl = [v for v in vecs if len(v["dec"]) == len(ALL_FLAGS)]
    sects = {s for v in allfl for s in ("an", "ns", "ar") if v["dec"][0]["k"] != "Malformed" and v["dec"][0]["rec"][s]}
    if len(allfl) < 100 or sects != {"an", "ns", "ar"}:
        raise vlib.MachineryError("parse-flag dimension is vacuous: %d vectors with all 64 flag values, sections %s" %
                                  (len(allfl), sorted(sects)))
    ctx.notes["vectors"] = {"by_mutation": kinds, "by_family": fams, "by_reference_verdict_flags0": verdicts,
                            "with_all_64_parse_flag_values": len(allfl)}
    return vecs


def big_vectors(ctx):
    vecs = generate(ctx, "gen_big", gen_consts(ctx.tier, ctx.seed, fams=["big"], muts=[], flags=(0,), stride=1, combo=1),
                    timeout=900)
    # vacuity: the message-size boundary must be present with the reference's verdicts on both sides of it
    at = {}
    for v in vecs:
        at.setdefault(len(v["nb"]), set()).add(v["dec"][0]["k"])
    want = {65534: {"WF"}, 65535: {"WF"}, 65536: {"Malformed"}}
    if any(at.get(n) != k for n, k in want.items()):
        raise vlib.MachineryError("big family: message-size boundary vectors missing or misjudged: %s" %
                                  {n: sorted(at.get(n, [])) for n in want})
    ctx.notes["big_vector_lengths"] = sorted(at)
    return vecs


def base_records(vecs):
    """one base vector per distinct abstract record (family, index)"""
    seen, out = set(), []
    for v in vecs:
        if v["mut"]["k"] != "none":
            continue
        key = (v["fam"], v["idx"])
        if key in seen:
            continue
        seen.add(key)
        out.append(v)
    return out


# ---------------------------------------------------------------------------
# harness
def run_harness(ctx, exe, name, vectors, timeout=900, leak_every=200, procs=None):
    """run the harness (up to 4 processes over contiguous chunks); returns ({id: result}, [box lines])"""
    if procs is None:
        procs = 4 if len(vectors) >= 4000 else 1
    n = len(vectors)
    bounds = [(i * n // procs, (i + 1) * n // procs) for i in range(procs)]
    t0 = time.time()
    jobs = []
    for k, (a, b) in enumerate(bounds):
        vpath = os.path.join(ctx.out, "%s.%d.vectors.ndjson" % (name, k))
        rpath = os.path.join(ctx.out, "%s.%d.results.ndjson" % (name, k))
        with open(vpath, "w") as f:
            for v in vectors[a:b]:
                f.write(json.dumps(v, separators=(",", ":")) + "\n")
        env = dict(os.environ)
        env["CODEC_LEAK_EVERY"] = str(leak_every)
        p = subprocess.Popen([exe, "run", vpath, rpath], stdout=subprocess.PIPE, stderr=subprocess.STDOUT, env=env)
        jobs.append((p, rpath))
    res, box = {}, []
    for p, rpath in jobs:
        try:
            out = p.communicate(timeout=max(1, timeout - (time.time() - t0)))[0]
        except subprocess.TimeoutExpired:
            for q, _ in jobs:
                q.kill()
            raise vlib.MachineryError("harness %s timed out after %ds" % (name, timeout))
        if p.returncode != 0:
            raise vlib.MachineryError("harness %s failed rc=%s: %s" % (name, p.returncode, out.decode("utf-8", "replace")[-2000:]))
        done = False
        garbled = []
        for line in open(rpath, errors="replace"):
            if not line.strip():
                continue
            try:
                j = json.loads(line)
            except ValueError:
                # a child killed in the middle of a line: keep what follows the last complete start, if any
                k = line.rfind('{"id"')
                j = None
                if k > 0:
                    try:
                        j = json.loads(line[k:])
                    except ValueError:
                        j = None
                if j is None:
                    garbled.append(line[:200])
                    continue
            if "done" in j:
                done = True
            elif "too_many_crashes" in j:
                res.setdefault("__too_many_crashes__", {"crash": 1, "exit": -1, "sig": 0,
                                                        "report": "harness stopped after %d dead children; vectors %d..%d "
                                                        "of this chunk were not run" % (j["too_many_crashes"], j["skipped_from"], j["skipped_to"])})
            elif "box" in j:
                box.append(j)
            elif "id" in j:
                res.setdefault(j["id"], {}).update(j)
        if not done:
            raise vlib.MachineryError("harness %s did not finish" % name)
        if garbled and not any(r.get("crash") or r.get("leak") for r in res.values()):
            raise vlib.MachineryError("harness %s: unparsable result line %s" % (name, garbled[0]))
    ctx.log("harness %s: %d vectors in %.1fs (%d process%s)" % (name, n, time.time() - t0, procs, "es" if procs > 1 else ""))
    return res, box


def sanitizer_signature(report):
    """short stable signature of a sanitizer report: kind + innermost library frames"""
    kind = "crash"
    m = re.search(r"ERROR: (AddressSanitizer|LeakSanitizer): ([a-zA-Z0-9_-]+)", report)
    if m:
        kind = "%s.%s" % ("asan" if m.group(1) == "AddressSanitizer" else "lsan", m.group(2))
    else:
        m = re.search(r"runtime error: ([a-z -]+)", report)
        if m:
            kind = "ubsan." + m.group(1).strip().replace(" ", "_")[:40]
    frames = [f for f in re.findall(r"#\d+ 0x[0-9a-f]+ in (ares_[A-Za-z0-9_]+)", report)
              if not f.startswith("ares_malloc") and not f.startswith("ares_free")][:2]
    return kind + ("." + ".".join(frames) if frames else "")


class Finding(tuple):
    """(id, signature, text) with optional attributes .hang (input the decoder hung on) and .replay"""
    hang = None
    replay = None


def safety_findings(res_by_id):
    """(id, signature, text) for crashes / leaks / watchdog expiries"""
    out = []
    for vid, r in res_by_id.items():
        if r.get("crash"):
            rep = r.get("report", "")
            sig = "decoder_does_not_terminate" if r.get("sig") == 14 else sanitizer_signature(rep)
            f = Finding((vid, "safety." + sig, "vector %s: child died exit=%s sig=%s %s\n%s" %
                         (vid, r.get("exit"), r.get("sig"), r.get("hang") or "", rep[:3000])))
            f.hang = r.get("hang")
            out.append(f)
        elif r.get("leak"):
            rep = r.get("report", "")
            out.append(Finding((vid, "safety." + sanitizer_signature(rep), "vector %s leaked\n%s" % (vid, rep[:3000]))))
    return out


def confirmed_safety(ctx, exe, vectors, res_by_id, limit=12):
    """safety findings that reproduce when the vector is re-run ALONE (fresh process, leak check after
    the vector, generous watchdog).  An event that does not reproduce (e.g. a watchdog expiry on a loaded
    machine) is recorded in the evidence notes and not reported as a violation."""
    found = safety_findings(res_by_id)
    if not found:
        return []
    byid = {v["id"]: v for v in vectors}
    out, nsig = [], {}
    for f in sorted(found, key=lambda x: tuple(x)):
        vid, sig, text = f
        nsig[sig] = nsig.get(sig, 0) + 1
        if nsig[sig] > 2 or len(out) >= limit:       # same signature: two witnesses are enough
            continue
        v = byid.get(vid)
        if v is None:                                # e.g. the too-many-crashes marker
            out.append(f)
            continue
        if f.hang and f.hang.get("hex"):
            # the decoder hung on one byte string inside a larger vector: re-run exactly that string alone
            v2 = {"id": vid, "op": "parse", "hex": f.hang["hex"], "flags": [0], "wb": [], "names": 1, "legacy": 0,
                  "alarm": 20}
        else:
            v2 = dict(v)
            v2["alarm"] = max(60, int(v.get("alarm", 0)))
        r2, _ = run_harness(ctx, exe, "confirm", [v2], timeout=1800, leak_every=1, procs=1)
        again = safety_findings(r2)
        if again:
            g = Finding((vid, again[0][1], again[0][2]))
            g.hang = f.hang
            if f.hang and f.hang.get("hex"):
                g.replay = json.dumps({"signature": again[0][1], "box": f.hang["hex"], "off": f.hang.get("off"),
                                       "op": "parse", "hex": f.hang["hex"]})
            out.append(g)
        else:
            ctx.notes.setdefault("unreproduced_safety_events", []).append({"id": vid, "signature": sig})
            ctx.log("safety event %s on %s did not reproduce alone: not reported" % (sig, vid))
    return out


# ---------------------------------------------------------------------------
# trace validation
def validate_trace(ctx, name, events, timeout=900):
    """events: list of dicts with id, e, ...; returns {id: verdict} of unexplained events"""
    if not events:
        return {}
    tpath = os.path.join(ctx.out, name + ".trace.ndjson")
    with open(tpath, "w") as f:
        for e in events:
            f.write(json.dumps(e, separators=(",", ":")) + "\n")
    r = run_tlc(ctx, "DnsWireTrace.tla", os.path.join(SPECDIR, "DnsWireTrace_collect.cfg"), workers=1,
                timeout=timeout, env={"TRACE": tpath})
    if r.violation:
        raise vlib.MachineryError("trace run %s did not reach the end of the file:\n%s" % (name, r.out[-3000:]))
    bad = {}
    for j in printed(r.out):
        if "unexplained" in j:
            bad[j["unexplained"]] = j["verdict"]
    ctx.log("trace %s: %d events, %d unexplained (%.1fs)" % (name, len(events), len(bad), r.wall))
    # confirm each unexplained event alone with the strict idiom (at most a few)
    confirmed = {}
    byid = {e["id"]: e for e in events}
    for i, (eid, verdict) in enumerate(sorted(bad.items())):
        if i >= 12:
            confirmed[eid] = verdict      # same machinery, not re-run to bound the cost
            continue
        spath = os.path.join(ctx.out, "%s.single.%d.ndjson" % (name, i))
        with open(spath, "w") as f:
            f.write(json.dumps(byid[eid], separators=(",", ":")) + "\n")
        r1 = run_tlc(ctx, "DnsWireTrace.tla", os.path.join(SPECDIR, "DnsWireTrace.cfg"), workers=1,
                     timeout=300, env={"TRACE": spath}, account=False)
        if r1.violation:
            confirmed[eid] = verdict
        else:
            raise vlib.MachineryError("trace event %s rejected in the campaign but accepted alone" % eid)
    return confirmed


def corrupted_trace_selftest(ctx, name, event):
    """flip one field of an accepted event: TLC must reject"""
    import copy
    e = copy.deepcopy(event)
    if e["e"] == "pres":
        e["labels"] = e["labels"] + [[120]]
    else:
        e["rec"]["id"] = (e["rec"]["id"] + 1) % 65536
    spath = os.path.join(ctx.out, name + ".corrupt.ndjson")
    with open(spath, "w") as f:
        f.write(json.dumps(e, separators=(",", ":")) + "\n")
    r = run_tlc(ctx, "DnsWireTrace.tla", os.path.join(SPECDIR, "DnsWireTrace.cfg"), workers=1, timeout=300,
                env={"TRACE": spath}, account=False)
    rejected = bool(r.violation)
    if not rejected:
        raise vlib.MachineryError("corrupted trace was accepted by DnsWireTrace (self-test failed)")
    ctx.notes["corrupted_trace_rejected"] = True
    return True
