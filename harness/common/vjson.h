// Minimal JSON reader/writer used by the harnesses (plumbing only).
#pragma once
#include <cstdio>
#include <cstdlib>
#include <cstring>
#include <map>
#include <memory>
#include <string>
#include <vector>

namespace vj {

struct J {
  enum T { NUL, BOOL, NUM, STR, ARR, OBJ } t = NUL;
  bool                       b = false;
  long long                  n = 0;
  std::string                s;
  std::vector<J>             a;
  std::map<std::string, J>   o;

  bool has(const std::string &k) const { return t == OBJ && o.count(k); }
  const J &operator[](const std::string &k) const {
    static J nul;
    if (t != OBJ) return nul;
    auto it = o.find(k);
    return it == o.end() ? nul : it->second;
  }
  const J &operator[](size_t i) const {
    static J nul;
    return (t == ARR && i < a.size()) ? a[i] : nul;
  }
  long long num(long long d = 0) const {
    if (t == NUM) return n;
    if (t == BOOL) return b ? 1 : 0;
    if (t == STR) return atoll(s.c_str());
    return d;
  }
  std::string str(const std::string &d = "") const {
    if (t == STR) return s;
    if (t == NUM) return std::to_string(n);
    return d;
  }
  size_t size() const { return t == ARR ? a.size() : (t == OBJ ? o.size() : 0); }
};

struct Parser {
  const char *p;
  const char *e;
  bool        ok = true;
  explicit Parser(const std::string &s) : p(s.data()), e(s.data() + s.size()) {}
  void ws() { while (p < e && (*p == ' ' || *p == '\t' || *p == '\n' || *p == '\r')) p++; }
  J    val() {
    J j;
    ws();
    if (p >= e) { ok = false; return j; }
    if (*p == '{') {
      j.t = J::OBJ; p++; ws();
      if (p < e && *p == '}') { p++; return j; }
      while (ok) {
        ws();
        J k = val();
        if (k.t != J::STR) { ok = false; break; }
        ws();
        if (p >= e || *p != ':') { ok = false; break; }
        p++;
        j.o[k.s] = val();
        ws();
        if (p < e && *p == ',') { p++; continue; }
        if (p < e && *p == '}') { p++; break; }
        ok = false;
      }
    } else if (*p == '[') {
      j.t = J::ARR; p++; ws();
      if (p < e && *p == ']') { p++; return j; }
      while (ok) {
        j.a.push_back(val());
        ws();
        if (p < e && *p == ',') { p++; continue; }
        if (p < e && *p == ']') { p++; break; }
        ok = false;
      }
    } else if (*p == '"') {
      j.t = J::STR; p++;
      while (p < e && *p != '"') {
        if (*p == '\\' && p + 1 < e) {
          p++;
          switch (*p) {
            case 'n': j.s += '\n'; break;
            case 't': j.s += '\t'; break;
            case 'r': j.s += '\r'; break;
            case 'u': {
              unsigned v = 0;
              for (int i = 1; i <= 4 && p + i < e; i++) {
                char c = p[i];
                v = v * 16 + (c <= '9' ? c - '0' : (c | 0x20) - 'a' + 10);
              }
              p += 4;
              j.s += (char)v;
              break;
            }
            default: j.s += *p;
          }
          p++;
        } else {
          j.s += *p++;
        }
      }
      if (p < e) p++; else ok = false;
    } else if (!strncmp(p, "true", 4)) { j.t = J::BOOL; j.b = true; p += 4; }
    else if (!strncmp(p, "false", 5)) { j.t = J::BOOL; j.b = false; p += 5; }
    else if (!strncmp(p, "null", 4)) { p += 4; }
    else {
      char *end = nullptr;
      j.t = J::NUM;
      j.n = strtoll(p, &end, 10);
      if (end == p) { ok = false; return j; }
      p = end;
      if (p < e && (*p == '.' || *p == 'e' || *p == 'E')) {  // tolerate floats: truncate
        while (p < e && (strchr("0123456789.eE+-", *p))) p++;
      }
    }
    return j;
  }
};

inline bool parse(const std::string &s, J &out) {
  Parser ps(s);
  out = ps.val();
  return ps.ok;
}

inline std::string esc(const std::string &s) {
  std::string r;
  for (unsigned char c : s) {
    if (c == '"' || c == '\\') { r += '\\'; r += (char)c; }
    else if (c < 0x20 || c >= 0x7f) { char b[8]; snprintf(b, sizeof b, "\\u%04x", c); r += b; }
    else r += (char)c;
  }
  return r;
}

inline std::string dump(const J &j) {
  switch (j.t) {
    case J::NUL: return "null";
    case J::BOOL: return j.b ? "true" : "false";
    case J::NUM: return std::to_string(j.n);
    case J::STR: return "\"" + esc(j.s) + "\"";
    case J::ARR: { std::string r = "["; for (size_t i = 0; i < j.a.size(); i++) { if (i) r += ","; r += dump(j.a[i]); } return r + "]"; }
    case J::OBJ: { std::string r = "{"; bool f = true; for (auto &kv : j.o) { if (!f) r += ","; f = false; r += "\"" + esc(kv.first) + "\":" + dump(kv.second); } return r + "}"; }
  }
  return "null";
}

}  // namespace vj
