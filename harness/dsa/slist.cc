// ares_slist_t driver.  Values are heap objects {id,key}; the comparison
// callback orders by key.  Coin flips of the skip list come from a seeded
// generator through hook H2 (ares_verif_rand_cb), so a history is reproducible.
#include "dsa.h"

#include <map>

struct SV { long id; long key; };

static std::vector<long> *g_sl_d;
static Rng               *g_sl_rng;
static void sl_destruct(void *p) { SV *v = (SV *)p; if (g_sl_d) g_sl_d->push_back(v->id); delete v; }
static int  sl_cmp(const void *a, const void *b) {
  const SV *x = (const SV *)a, *y = (const SV *)b;
  return x->key < y->key ? -1 : (x->key > y->key ? 1 : 0);
}
static void sl_rand(unsigned char *buf, size_t len) {
  for (size_t k = 0; k < len; k++) buf[k] = (unsigned char)(g_sl_rng ? g_sl_rng->next() >> 24 : 0);
}

struct SListCtr : Ctr {
  ares_slist_t                      *list = nullptr;
  ares_rand_state                   *rs   = nullptr;
  std::map<long, ares_slist_node_t *> nodes;  // handles returned by insert, by value id
  std::vector<long>                   d;
  Rng                                *rng   = nullptr;
  long                                nextid = 1;
  int                                 phase  = 0;

  ~SListCtr() override {
    if (rs) ares_destroy_rand_state(rs);
    ares_verif_rand_cb = nullptr;
    g_sl_rng           = nullptr;
    delete rng;
  }
  J res(long out) { J r = J::Obj(); r.set("out", J::Int(out)); r.set("d", J::Ints(d)); return r; }
  static long vid(void *v) { return v ? ((SV *)v)->id : -1; }
  J create(const J &op, long h) override {
    rng                = new Rng((unsigned long long)(op.at_int(1, 1) * 7919 + h));
    g_sl_rng           = rng;
    ares_verif_rand_cb = sl_rand;
    g_sl_d             = &d;
    d.clear();
    rs   = ares_init_rand_state();
    list = rs ? ares_slist_create(rs, sl_cmp, sl_destruct) : nullptr;
    return res(-1);
  }
  bool alive() override { return list != nullptr; }
  J destroy() override {
    d.clear();
    ares_slist_destroy(list);
    list = nullptr;
    nodes.clear();
    return res(-1);
  }
  ares_slist_node_t *node(long id) { auto it = nodes.find(id); return it == nodes.end() ? nullptr : it->second; }
  J exec(const J &op) override {
    const std::string &e = op.a[0].s;
    long               a = op.at_int(1), b = op.at_int(2);
    d.clear();
    if (e == "insert") {  // [key, id]
      if (node(b)) return J();
      SV                *v = new SV{b, a};
      ares_slist_node_t *n = ares_slist_insert(list, v);
      if (!n) { delete v; return res(-1); }
      nodes[b] = n;
      return res(vid(ares_slist_node_val(n)));
    }
    if (e == "find") {
      SV probe{-1, a};
      return res(vid(ares_slist_node_val(ares_slist_node_find(list, &probe))));
    }
    if (e == "first") return res(vid(ares_slist_first_val(list)));
    if (e == "last") return res(vid(ares_slist_last_val(list)));
    if (e == "len") return res((long)ares_slist_len(list));
    ares_slist_node_t *n = node(a);
    if (!n) return J();
    if (e == "claim") {
      SV  *v  = (SV *)ares_slist_node_claim(n);
      long id = vid(v);
      delete v;
      nodes.erase(a);
      return res(id);
    }
    if (e == "destroy_node") {
      ares_slist_node_destroy(n);
      nodes.erase(a);
      return res(-1);
    }
    if (e == "reinsert") {  // [id, newkey]
      ((SV *)ares_slist_node_val(n))->key = b;
      ares_slist_node_reinsert(n);
      return res(-1);
    }
    if (e == "next") return res(vid(ares_slist_node_val(ares_slist_node_next(n))));
    if (e == "prev") return res(vid(ares_slist_node_val(ares_slist_node_prev(n))));
    return J();
  }
  J dump() override {
    J s = J::Obj(), ids = J::Arr(), keys = J::Arr(), back = J::Arr();
    long len = 0;
    if (list) {
      len         = (long)ares_slist_len(list);
      long bound  = (long)nodes.size() + len + 8;
      long cnt    = 0;
      for (ares_slist_node_t *n = ares_slist_node_first(list); n && cnt < bound; n = ares_slist_node_next(n), cnt++) {
        SV *v = (SV *)ares_slist_node_val(n);
        ids.push(J::Int(v ? v->id : -1));
        keys.push(J::Int(v ? v->key : -1));
      }
      cnt = 0;
      for (ares_slist_node_t *n = ares_slist_node_last(list); n && cnt < bound; n = ares_slist_node_prev(n), cnt++)
        back.push(J::Int(vid(ares_slist_node_val(n))));
    }
    s.set("ids", ids); s.set("keys", keys); s.set("back", back); s.set("len", J::Int(len));
    return s;
  }
  J randcreate(Rng &r, long) override { return op_make("create", r.below(1000)); }
  long pick(Rng &r) {
    if (nodes.empty()) return 0;
    auto it = nodes.begin();
    std::advance(it, r.below((long)nodes.size()));
    return it->first;
  }
  J randop(Rng &r, long nkeys, long, long) override {
    long n = (long)nodes.size();
    // the list holds up to 4*nkeys nodes over nkeys distinct keys (so equal keys are common)
    long cap = 4 * nkeys;
    if (n == 0) phase = 0;
    if (n >= cap) phase = 1;
    long x = r.below(100);
    if (n == 0 || (x < (phase == 0 ? 55 : 15) && n < cap)) return op_make("insert", r.below(nkeys), nextid++);
    x = r.below(100);
    if (x < 25) return op_make("reinsert", pick(r), r.below(nkeys));
    if (x < 40) return op_make("find", r.below(nkeys + 1));
    if (x < 60) return op_make("claim", pick(r));
    if (x < 80) return op_make("destroy_node", pick(r));
    if (x < 85) return op_make("next", pick(r));
    if (x < 90) return op_make("prev", pick(r));
    if (x < 94) return op_make("first");
    if (x < 98) return op_make("last");
    return op_make("len");
  }
};

Ctr *make_slist() { return new SListCtr(); }
