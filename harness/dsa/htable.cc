// Hash table drivers: the generic ares_htable_t (with a deliberately weak hash
// function, so that collision chains, chain splits on growth and the collision
// counter really get exercised) and the six typed wrappers.
// Keys are small integers mapped to the wrapper's key type; values are heap
// integers (pointer kinds) or strings "v<N>" (string kinds).
#include "dsa.h"

#include <algorithm>
#include <map>
#include <set>

static std::vector<long> *g_ht_d, *g_ht_dk;

static void val_free(void *p) {
  if (!p) return;  // strvp claim leaves a NULL value behind
  if (g_ht_d) g_ht_d->push_back(*(long *)p);
  delete (long *)p;
}
// pointer keys of the "wide" embedding (see HTableCtr::pkey) are decoded through this table
static std::map<uintptr_t, long> g_pk_inv;
static void key_free(void *p) {
  if (!g_ht_dk) return;
  auto it = g_pk_inv.find((uintptr_t)p);
  g_ht_dk->push_back(it != g_pk_inv.end() ? it->second : ((long)(uintptr_t)p - 0x10000) / 16);
}

// generic table
struct GB { long key; long *val; };
static unsigned int g_hash(const void *key, unsigned int) {
  long k = *(const long *)key;
  return (unsigned int)((k % 5) + 16 * (k % 3) + 64 * (k % 2) + 128 * ((k / 7) % 2));
}
static const void *g_bucket_key(const void *b) { return &((const GB *)b)->key; }
static void        g_bucket_free(void *b) { GB *g = (GB *)b; val_free(g->val); delete g; }
static ares_bool_t g_key_eq(const void *a, const void *b) { return *(const long *)a == *(const long *)b ? ARES_TRUE : ARES_FALSE; }

struct HTableCtr : Ctr {
  std::string          kind;
  long                 nkeys = 0;
  ares_htable_t       *gen = nullptr;
  ares_htable_strvp_t *strvp = nullptr;
  ares_htable_szvp_t  *szvp = nullptr;
  ares_htable_asvp_t  *asvp = nullptr;
  ares_htable_vpvp_t  *vpvp = nullptr;
  ares_htable_vpstr_t *vpstr = nullptr;
  ares_htable_dict_t  *dict = nullptr;
  bool                 live = false;
  std::vector<long>    d, dk;
  long                 nextv = 1;
  int                  phase = 0;

  J res(long ok, long out) {
    J r = J::Obj();
    r.set("ok", J::Int(ok)); r.set("out", J::Int(out)); r.set("d", J::Ints(d)); r.set("dk", J::Ints(dk));
    return r;
  }
  // string keys: ids 2n and 2n+1 are two SPELLINGS of the same key n, differing only in letter case
  // ("key7" / "KEY7", "key8" / "kEy8"): strvp and dict compare keys case-insensitively
  static std::string skey(long k) {
    long n = k / 2;
    return (k % 2 == 0 ? "key" : (n % 2 ? "KEY" : "kEy")) + std::to_string(n);
  }
  static long skey_inv(const char *s) {
    if (!s || strlen(s) < 4) return -3;
    long base = atol(s + 3);
    return base * 2 + ((s[0] == 'k' && s[1] == 'e' && s[2] == 'y') ? 0 : 1);
  }
  bool ci() const { return strvp || dict; }
  static std::string sval(long v) { return "v" + std::to_string(v); }
  static long        sval_inv(const char *s) { return (s && s[0] == 'v') ? atol(s + 1) : -1; }
  // Embedding of the key ids into the key type.  emb 0: small distinct words.  emb 1 ("wide"): every key has the
  // same low 32 bits and a different, arbitrary high word -- keys of a word-sized key type must be told apart by
  // all of their bits (size_t and pointer keys only; socket keys are 32 bits wide).
  long emb = 0;
  static size_t hi(long k) { return (size_t)(uint32_t)((uint32_t)(k + 1) * 2654435761u); }   // distinct for distinct k
  size_t zkey(long k) const { return emb == 1 ? ((hi(k) << 32) | 0x11u) : (size_t)k * 1000003u + 17u; }
  void  *pkey(long k) const {
    if (emb != 1) return (void *)(uintptr_t)(0x10000 + k * 16);
    uintptr_t p = (uintptr_t)((hi(k) << 32) | 0x10000u);
    g_pk_inv[p] = k;
    return (void *)p;
  }

  J create(const J &op, long) override {
    kind  = op.at_str(1);
    nkeys = op.at_int(2, 4);
    emb   = op.at_int(4, 0);
    g_ht_d = &d; g_ht_dk = &dk;
    d.clear(); dk.clear();
    if (kind == "gen") live = (gen = ares_htable_create(g_hash, g_bucket_key, g_bucket_free, g_key_eq)) != nullptr;
    else if (kind == "strvp") live = (strvp = ares_htable_strvp_create(val_free)) != nullptr;
    else if (kind == "szvp") live = (szvp = ares_htable_szvp_create(val_free)) != nullptr;
    else if (kind == "asvp") live = (asvp = ares_htable_asvp_create(val_free)) != nullptr;
    else if (kind == "vpvp") live = (vpvp = ares_htable_vpvp_create(key_free, val_free)) != nullptr;
    else if (kind == "vpstr") live = (vpstr = ares_htable_vpstr_create()) != nullptr;
    else if (kind == "dict") live = (dict = ares_htable_dict_create()) != nullptr;
    // create [kind, nkeys, prefill]: prefill filler entries (key ids 2*nkeys + 2i, values 100000 + i) are put in
    // first, so that a short script runs on a table that has already grown (13th key: 32 buckets, 25th: 64)
    long prefill = op.at_int(3, 0);
    for (long i = 0; live && i < prefill; i++) {
      J ins = op_make("insert", 2 * nkeys + 2 * i, 100000 + i);
      exec(ins);
    }
    d.clear(); dk.clear();
    return res(-1, -1);
  }
  bool alive() override { return live; }
  J destroy() override {
    d.clear(); dk.clear();
    if (gen) ares_htable_destroy(gen);
    if (strvp) ares_htable_strvp_destroy(strvp);
    if (szvp) ares_htable_szvp_destroy(szvp);
    if (asvp) ares_htable_asvp_destroy(asvp);
    if (vpvp) ares_htable_vpvp_destroy(vpvp);
    if (vpstr) ares_htable_vpstr_destroy(vpstr);
    if (dict) ares_htable_dict_destroy(dict);
    gen = nullptr; strvp = nullptr; szvp = nullptr; asvp = nullptr; vpvp = nullptr; vpstr = nullptr; dict = nullptr;
    live = false;
    return res(-1, -1);
  }
  long pv(void *p) { return p ? *(long *)p : -1; }
  // get through the boolean API: returns ok, *out
  long do_get(long k, long *out) {
    void       *v  = nullptr;
    const char *sv = nullptr;
    ares_bool_t ok = ARES_FALSE;
    if (gen) { GB *b = (GB *)ares_htable_get(gen, &k); ok = b ? ARES_TRUE : ARES_FALSE; *out = b ? pv(b->val) : -1; return ok; }
    if (strvp) { ok = ares_htable_strvp_get(strvp, skey(k).c_str(), &v); *out = pv(v); return ok; }
    if (szvp) { ok = ares_htable_szvp_get(szvp, zkey(k), &v); *out = pv(v); return ok; }
    if (asvp) { ok = ares_htable_asvp_get(asvp, (ares_socket_t)k, &v); *out = pv(v); return ok; }
    if (vpvp) { ok = ares_htable_vpvp_get(vpvp, pkey(k), &v); *out = pv(v); return ok; }
    if (vpstr) { ok = ares_htable_vpstr_get(vpstr, pkey(k), &sv); *out = sval_inv(sv); return ok; }
    if (dict) { ok = ares_htable_dict_get(dict, skey(k).c_str(), &sv); *out = sval_inv(sv); return ok; }
    return 0;
  }
  long do_get_direct(long k) {
    if (gen) { GB *b = (GB *)ares_htable_get(gen, &k); return b ? pv(b->val) : -1; }
    if (strvp) return pv(ares_htable_strvp_get_direct(strvp, skey(k).c_str()));
    if (szvp) return pv(ares_htable_szvp_get_direct(szvp, zkey(k)));
    if (asvp) return pv(ares_htable_asvp_get_direct(asvp, (ares_socket_t)k));
    if (vpvp) return pv(ares_htable_vpvp_get_direct(vpvp, pkey(k)));
    if (vpstr) return sval_inv(ares_htable_vpstr_get_direct(vpstr, pkey(k)));
    if (dict) return sval_inv(ares_htable_dict_get_direct(dict, skey(k).c_str()));
    return -1;
  }
  size_t do_num() {
    if (gen) return ares_htable_num_keys(gen);
    if (strvp) return ares_htable_strvp_num_keys(strvp);
    if (szvp) return ares_htable_szvp_num_keys(szvp);
    if (asvp) return ares_htable_asvp_num_keys(asvp);
    if (vpvp) return ares_htable_vpvp_num_keys(vpvp);
    if (vpstr) return ares_htable_vpstr_num_keys(vpstr);
    if (dict) return ares_htable_dict_num_keys(dict);
    return 0;
  }
  J exec(const J &op) override {
    const std::string &e = op.a[0].s;
    long               k = op.at_int(1), v = op.at_int(2);
    d.clear(); dk.clear();
    if (e == "insert") {
      ares_bool_t ok = ARES_FALSE;
      if (gen) {
        GB *b = new GB{k, new long(v)};
        ok    = ares_htable_insert(gen, b);
        if (!ok) { delete b->val; delete b; }
      } else if (vpstr) ok = ares_htable_vpstr_insert(vpstr, pkey(k), sval(v).c_str());
      else if (dict) ok = ares_htable_dict_insert(dict, skey(k).c_str(), sval(v).c_str());
      else {
        long *pvv = new long(v);
        if (strvp) ok = ares_htable_strvp_insert(strvp, skey(k).c_str(), pvv);
        else if (szvp) ok = ares_htable_szvp_insert(szvp, zkey(k), pvv);
        else if (asvp) ok = ares_htable_asvp_insert(asvp, (ares_socket_t)k, pvv);
        else if (vpvp) ok = ares_htable_vpvp_insert(vpvp, pkey(k), pvv);
        if (!ok) delete pvv;
      }
      return res(ok ? 1 : 0, -1);
    }
    if (e == "get") { long out = -1; long ok = do_get(k, &out); return res(ok ? 1 : 0, out); }
    if (e == "get_direct") return res(-1, do_get_direct(k));
    if (e == "remove") {
      ares_bool_t ok = ARES_FALSE;
      if (gen) ok = ares_htable_remove(gen, &k);
      else if (strvp) ok = ares_htable_strvp_remove(strvp, skey(k).c_str());
      else if (szvp) ok = ares_htable_szvp_remove(szvp, zkey(k));
      else if (asvp) ok = ares_htable_asvp_remove(asvp, (ares_socket_t)k);
      else if (vpvp) ok = ares_htable_vpvp_remove(vpvp, pkey(k));
      else if (vpstr) ok = ares_htable_vpstr_remove(vpstr, pkey(k));
      else if (dict) ok = ares_htable_dict_remove(dict, skey(k).c_str());
      return res(ok ? 1 : 0, -1);
    }
    if (e == "claim") {
      if (!strvp) return J();
      long *p   = (long *)ares_htable_strvp_claim(strvp, skey(k).c_str());
      long  out = pv(p);
      delete p;
      return res(-1, out);
    }
    if (e == "num_keys") return res(-1, (long)do_num());
    if (e == "keys") {  // enumeration (generic table: all_buckets; asvp, dict: keys), whatever the content
      if (!gen && !asvp && !dict) return J();
      J r = res(-1, -1);
      J keys = enumerate(true);
      r.o[1].second = J::Int((long)keys.a.size());
      r.set("keys", keys);
      return r;
    }
    return J();
  }
  J enumerate(bool even_if_empty) {
    J keys = J::Arr();
    if (!even_if_empty && do_num() == 0) return keys;
    if (gen) {
      size_t       n = 0;
      const void **b = ares_htable_all_buckets(gen, &n);
      for (size_t i = 0; b && i < n; i++) keys.push(J::Int(((const GB *)b[i])->key));
      ares_free(b);
    } else if (asvp) {
      size_t         n = 0;
      ares_socket_t *k = ares_htable_asvp_keys(asvp, &n);
      for (size_t i = 0; k && i < n; i++) keys.push(J::Int((long)k[i]));
      ares_free(k);
    } else if (dict) {
      size_t n = 0;
      char **k = ares_htable_dict_keys(dict, &n);
      for (size_t i = 0; k && i < n; i++) keys.push(J::Int(skey_inv(k[i])));
      ares_free_array(k, n, ares_free);
    }
    return keys;
  }
  J dump() override {
    J s = J::Obj(), vals = J::Arr(), keys = J::Arr();
    if (live) {
      for (long k = 0; k < nkeys; k++) vals.push(J::Int(do_get_direct(k)));
      keys = enumerate(false);  // the state dump enumerates non-empty tables only; "keys" is also a call of its own
    } else for (long k = 0; k < nkeys; k++) vals.push(J::Int(-1));
    s.set("vals", vals);
    s.set("n", J::Int(live ? (long)do_num() : 0));
    s.set("keys", keys);
    return s;
  }
  J randcreate(Rng &r, long nk) override {
    static const char *kinds[] = {"gen", "gen", "strvp", "szvp", "asvp", "vpvp", "vpstr", "dict"};
    J                  op      = op_make("create");
    std::string k = kinds[r.below(8)];
    op.push(J::Str(k));
    // case-insensitive kinds: twice the ids (two spellings per key), so that nk distinct keys can be live
    op.push(J::Int(k == "strvp" || k == "dict" ? 2 * nk : nk));
    op.push(J::Int(0));
    op.push(J::Int((k == "szvp" || k == "vpvp" || k == "vpstr") && r.chance(50) ? 1 : 0));   // key embedding
    return op;
  }
  J randop(Rng &r, long nk0, long, long) override {
    long n  = (long)do_num();
    long nk = nk0;          // distinct keys that can be live
    long ids = nkeys;       // key ids of this table (2 * nk for the case-insensitive kinds)
    // phases: fill (so the table grows/rehashes several times), drain, mixed
    if (n == 0) phase = r.chance(70) ? 0 : 2;
    if (n >= nk - nk / 8) phase = 1 + (int)r.below(2);
    long pins = phase == 0 ? 75 : phase == 1 ? 10 : 40;
    long x    = r.below(100);
    long k    = r.below(ids);
    if (x < pins) return op_make("insert", k, nextv++);
    x = r.below(100);
    if (x < 50) return op_make("remove", k);
    if (x < 62 && strvp) return op_make("claim", k);
    if (x < 75) return op_make("get", k);
    if (x < 85) return op_make("get_direct", k);
    if (x < 88) return op_make("num_keys");
    if (x < 92 && (gen || asvp || dict)) return op_make("keys");
    return op_make("remove", k);
  }
};

Ctr *make_htable() { return new HTableCtr(); }
