// ares_array_t driver.
#include "dsa.h"

static std::vector<long> *g_arr_d;     // destructor log of the current call
static size_t             g_arr_msz;   // member size of the current array

static long member_val(const void *p, size_t msz) {
  // a member is msz/4 copies of the 32 bit value; -2 = copies disagree (corrupted member)
  const unsigned char *b = (const unsigned char *)p;
  int                  v0;
  memcpy(&v0, b, 4);
  for (size_t k = 4; k + 4 <= msz; k += 4) {
    int v;
    memcpy(&v, b + k, 4);
    if (v != v0) return -2;
  }
  return v0;
}
static void member_set(void *p, size_t msz, long v) {
  int iv = (int)v;
  for (size_t k = 0; k + 4 <= msz; k += 4) memcpy((unsigned char *)p + k, &iv, 4);
}
static void arr_destruct(void *p) { if (g_arr_d) g_arr_d->push_back(member_val(p, g_arr_msz)); }
static int  arr_cmp(const void *a, const void *b) {
  int x, y;
  memcpy(&x, a, 4);
  memcpy(&y, b, 4);
  return x < y ? -1 : (x > y ? 1 : 0);
}

struct ArrayCtr : Ctr {
  ares_array_t     *arr = nullptr;
  size_t            msz = 4;
  std::vector<long> d;
  long              nextv = 1;
  int               phase = 0;  // random driver: 0 grow, 1 drain front, 2 drain back, 3 drain anywhere, 4 mixed

  J res(int st, long out) {
    J r = J::Obj();
    r.set("rc", J::Str(status_name(st)));
    r.set("out", J::Int(out));
    r.set("d", J::Ints(d));
    return r;
  }
  J create(const J &op, long) override {
    msz = (size_t)op.at_int(1, 4);
    if (msz < 4) msz = 4;
    g_arr_msz = msz;
    g_arr_d   = &d;
    d.clear();
    arr = ares_array_create(msz, arr_destruct);
    return res(arr ? ARES_SUCCESS : ARES_ENOMEM, -1);
  }
  bool alive() override { return arr != nullptr; }
  J destroy() override {
    d.clear();
    ares_array_destroy(arr);
    arr = nullptr;
    return res(ARES_SUCCESS, -1);
  }
  long pval(const void *p) { return p ? member_val(p, msz) : -1; }
  J exec(const J &op) override {
    const std::string &e = op.a[0].s;
    long               a = op.at_int(1), b = op.at_int(2);
    std::vector<unsigned char> tmp(msz);
    d.clear();
    if (e == "insert_at" || e == "insert_first" || e == "insert_last") {
      void         *ptr = nullptr;
      ares_status_t st  = e == "insert_at"      ? ares_array_insert_at(&ptr, arr, (size_t)a)
                          : e == "insert_first" ? ares_array_insert_first(&ptr, arr)
                                                : ares_array_insert_last(&ptr, arr);
      if (st == ARES_SUCCESS && ptr) member_set(ptr, msz, b);
      return res(st, -1);
    }
    if (e == "insertdata_at" || e == "insertdata_first" || e == "insertdata_last") {
      member_set(tmp.data(), msz, b);
      ares_status_t st = e == "insertdata_at"      ? ares_array_insertdata_at(arr, (size_t)a, tmp.data())
                         : e == "insertdata_first" ? ares_array_insertdata_first(arr, tmp.data())
                                                   : ares_array_insertdata_last(arr, tmp.data());
      return res(st, -1);
    }
    if (e == "remove_at") return res(ares_array_remove_at(arr, (size_t)a), -1);
    if (e == "remove_first") return res(ares_array_remove_first(arr), -1);
    if (e == "remove_last") return res(ares_array_remove_last(arr), -1);
    if (e == "claim_at") {
      ares_status_t st = ares_array_claim_at(tmp.data(), msz, arr, (size_t)a);
      return res(st, st == ARES_SUCCESS ? member_val(tmp.data(), msz) : -1);
    }
    if (e == "at") return res(ARES_SUCCESS, pval(ares_array_at(arr, (size_t)a)));
    if (e == "first") return res(ARES_SUCCESS, pval(ares_array_first(arr)));
    if (e == "last") return res(ARES_SUCCESS, pval(ares_array_last(arr)));
    if (e == "len") return res(ARES_SUCCESS, (long)ares_array_len(arr));
    if (e == "set_size") return res(ares_array_set_size(arr, (size_t)a), -1);
    if (e == "sort") return res(ares_array_sort(arr, arr_cmp), -1);
    if (e == "finish") {
      size_t n   = (size_t)-1;
      void  *ptr = ares_array_finish(arr, &n);
      if (n == (size_t)-1) return res(ARES_EFORMERR, -1);  // refused: the container still exists
      arr = nullptr;
      for (size_t k = 0; k < n && k < 100000; k++) d.push_back(member_val((unsigned char *)ptr + k * msz, msz));
      ares_free(ptr);
      return res(ARES_SUCCESS, (long)n);
    }
    return J();
  }
  J dump() override {
    J s = J::Obj();
    if (!arr) {
      s.set("items", J::Arr()); s.set("len", J::Int(0)); s.set("first", J::Int(-1)); s.set("last", J::Int(-1));
      return s;
    }
    size_t n = ares_array_len(arr);
    J      items = J::Arr();
    for (size_t k = 0; k < n && k < 100000; k++) items.push(J::Int(pval(ares_array_at(arr, k))));
    s.set("items", items);
    s.set("len", J::Int((long)n));
    s.set("first", J::Int(pval(ares_array_first_const(arr))));
    s.set("last", J::Int(pval(ares_array_last_const(arr))));
    return s;
  }
  J randcreate(Rng &r, long) override {
    static const long sizes[] = {4, 8, 24};
    return op_make("create", sizes[r.below(3)]);
  }
  J randop(Rng &r, long nkeys, long step, long nops) override {
    long n = (long)ares_array_len(arr);
    // phases make the array fill up and drain completely several times
    if (n == 0 && phase != 0 && r.chance(70)) phase = r.chance(30) ? 4 : 0;
    if (n >= nkeys) phase = 1 + (int)r.below(4);
    if (step == nops - 1 && r.chance(30)) return op_make("finish");
    bool ins;
    switch (phase) {
      case 0: ins = r.chance(85); break;
      case 4: ins = r.chance(50); break;
      default: ins = r.chance(8); break;
    }
    if (n >= nkeys) ins = false;
    long x = r.below(100);
    if (x < 6) {
      static const char *obs[] = {"at", "first", "last", "len", "sort", "set_size"};
      const char        *o     = obs[r.below(6)];
      if (!strcmp(o, "at")) return op_make("at", r.below(n + 2));
      if (!strcmp(o, "set_size")) return op_make("set_size", r.below(2 * nkeys + 2));
      return op_make(o);
    }
    if (ins) {
      long v = nextv++;
      switch (r.below(8)) {
        case 0: return op_make("insert_first", 0, v);
        case 1: return op_make("insert_last", 0, v);
        case 2: return op_make("insertdata_first", 0, v);
        case 3: return op_make("insertdata_last", 0, v);
        case 4: case 5: return op_make("insert_at", r.chance(3) ? n + 1 : r.below(n + 1), v);
        default: return op_make("insertdata_at", r.chance(3) ? n + 1 : r.below(n + 1), v);
      }
    }
    int how = phase == 1 ? 0 : phase == 2 ? 1 : (int)r.below(4);
    switch (how) {
      case 0: return r.chance(50) ? op_make("remove_first") : (r.chance(50) ? op_make("remove_at", 0) : op_make("claim_at", 0));
      case 1: return r.chance(60) ? op_make("remove_last") : op_make("remove_at", n > 0 ? n - 1 : 0);
      case 2: return op_make("remove_at", r.chance(3) ? n : r.below(n > 0 ? n : 1));
      default: return op_make("claim_at", r.chance(3) ? n : r.below(n > 0 ? n : 1));
    }
  }
};

Ctr *make_array() { return new ArrayCtr(); }
