// ares_llist_t driver: two lists, values are heap integers (the node id).
#include "dsa.h"

#include <map>

static std::vector<long> *g_ll_d;
static void ll_destruct(void *p) { if (g_ll_d) g_ll_d->push_back(*(long *)p); delete (long *)p; }

struct LListCtr : Ctr {
  ares_llist_t                       *L[2] = {nullptr, nullptr};
  std::map<long, ares_llist_node_t *> nodes;  // node handles returned by the insert calls, by current value id
  std::vector<long>                   d;
  long                                nextid = 1;

  J res(long out) { J r = J::Obj(); r.set("out", J::Int(out)); r.set("d", J::Ints(d)); return r; }
  static long vid(void *v) { return v ? *(long *)v : -1; }
  J create(const J &, long) override {
    g_ll_d = &d;
    d.clear();
    L[0] = ares_llist_create(ll_destruct);
    L[1] = ares_llist_create(ll_destruct);
    return res(-1);
  }
  bool alive() override { return L[0] != nullptr; }
  J destroy() override {
    d.clear();
    ares_llist_destroy(L[0]);
    ares_llist_destroy(L[1]);
    L[0] = L[1] = nullptr;
    nodes.clear();
    return res(-1);
  }
  ares_llist_node_t *node(long id) { auto it = nodes.find(id); return it == nodes.end() ? nullptr : it->second; }
  J inserted(ares_llist_node_t *n, long *v, long id) {
    if (!n) { delete v; return res(-1); }
    nodes[id] = n;
    return res(vid(ares_llist_node_val(n)));
  }
  J exec(const J &op) override {
    const std::string &e = op.a[0].s;
    long               a = op.at_int(1), b = op.at_int(2);
    d.clear();
    if (e == "insert_first" || e == "insert_last") {  // [L, id]
      if (a < 0 || a > 1 || node(b)) return J();
      long *v = new long(b);
      return inserted(e == "insert_first" ? ares_llist_insert_first(L[a], v) : ares_llist_insert_last(L[a], v), v, b);
    }
    if (e == "clear") { if (a < 0 || a > 1) return J(); ares_llist_clear(L[a]); drop_dead(); return res(-1); }
    if (e == "idx") { if (a < 0 || a > 1) return J(); return res(vid(ares_llist_node_val(ares_llist_node_idx(L[a], (size_t)b)))); }
    if (e == "first_val") { if (a < 0 || a > 1) return J(); return res(vid(ares_llist_first_val(L[a]))); }
    if (e == "last_val") { if (a < 0 || a > 1) return J(); return res(vid(ares_llist_last_val(L[a]))); }
    if (e == "len") { if (a < 0 || a > 1) return J(); return res((long)ares_llist_len(L[a])); }
    ares_llist_node_t *n = node(a);
    if (!n) return J();
    if (e == "insert_before" || e == "insert_after") {  // [node, id]
      if (node(b)) return J();
      long *v = new long(b);
      return inserted(e == "insert_before" ? ares_llist_insert_before(n, v) : ares_llist_insert_after(n, v), v, b);
    }
    if (e == "claim") {
      long *v  = (long *)ares_llist_node_claim(n);
      long  id = vid(v);
      delete v;
      nodes.erase(a);
      return res(id);
    }
    if (e == "destroy_node") { ares_llist_node_destroy(n); nodes.erase(a); return res(-1); }
    if (e == "replace") {  // [node, newid]
      if (node(b)) return J();
      ares_llist_node_replace(n, new long(b));
      nodes.erase(a);
      nodes[b] = n;
      return res(-1);
    }
    if (e == "mv_first" || e == "mv_last") {  // [node, L]
      if (b < 0 || b > 1) return J();
      if (e == "mv_first") ares_llist_node_mvparent_first(n, L[b]); else ares_llist_node_mvparent_last(n, L[b]);
      return res(-1);
    }
    return J();
  }
  // after clear: the handles of the nodes that the destructor saw are gone
  void drop_dead() { for (long id : d) nodes.erase(id); }
  J dump() override {
    J s = J::Obj();
    for (int k = 0; k < 2; k++) {
      J    f = J::Arr(), b = J::Arr();
      long len = 0;
      if (L[k]) {
        len        = (long)ares_llist_len(L[k]);
        long bound = (long)nodes.size() + len + 8, cnt = 0;
        for (ares_llist_node_t *n = ares_llist_node_first(L[k]); n && cnt < bound; n = ares_llist_node_next(n), cnt++)
          f.push(J::Int(vid(ares_llist_node_val(n))));
        cnt = 0;
        for (ares_llist_node_t *n = ares_llist_node_last(L[k]); n && cnt < bound; n = ares_llist_node_prev(n), cnt++)
          b.push(J::Int(vid(ares_llist_node_val(n))));
      }
      s.set(k ? "f1" : "f0", f); s.set(k ? "b1" : "b0", b); s.set(k ? "n1" : "n0", J::Int(len));
    }
    J ids = J::Arr(), par = J::Arr();
    if (L[0]) for (auto &kv : nodes) {
      ares_llist_t *p = ares_llist_node_parent(kv.second);
      ids.push(J::Int(kv.first));
      par.push(J::Int(p == L[0] ? 0 : p == L[1] ? 1 : -1));
    }
    s.set("ids", ids); s.set("par", par);
    return s;
  }
  J randcreate(Rng &, long) override { return op_make("create"); }
  long pick(Rng &r) {
    if (nodes.empty()) return 0;
    auto it = nodes.begin();
    std::advance(it, r.below((long)nodes.size()));
    return it->first;
  }
  J randop(Rng &r, long nkeys, long, long) override {
    long n = (long)nodes.size();
    long x = r.below(100);
    if (n == 0 || (n < nkeys && x < 40)) {
      switch (n == 0 ? r.below(2) : r.below(4)) {
        case 0: return op_make("insert_first", r.below(2), nextid++);
        case 1: return op_make("insert_last", r.below(2), nextid++);
        case 2: return op_make("insert_before", pick(r), nextid++);
        default: return op_make("insert_after", pick(r), nextid++);
      }
    }
    x = r.below(100);
    if (x < 22) return op_make("mv_first", pick(r), r.below(2));
    if (x < 44) return op_make("mv_last", pick(r), r.below(2));
    if (x < 56) return op_make("claim", pick(r));
    if (x < 68) return op_make("destroy_node", pick(r));
    if (x < 78) return op_make("replace", pick(r), nextid++);
    if (x < 80) return op_make("clear", r.below(2));
    if (x < 90) return op_make("idx", r.below(2), r.below(n + 1));
    if (x < 93) return op_make("first_val", r.below(2));
    if (x < 96) return op_make("last_val", r.below(2));
    return op_make("len", r.below(2));
  }
};

Ctr *make_llist() { return new LListCtr(); }
