// Minimal JSON value / parser / writer for the dsa harness (C19).
#pragma once
#include <cstdio>
#include <cstdlib>
#include <cstring>
#include <string>
#include <utility>
#include <vector>

struct J {
  enum T { NUL, INT, STR, ARR, OBJ } t = NUL;
  long                                   i = 0;
  std::string                            s;
  std::vector<J>                         a;
  std::vector<std::pair<std::string, J>> o;

  J() {}
  static J Int(long v) { J j; j.t = INT; j.i = v; return j; }
  static J Str(const std::string &v) { J j; j.t = STR; j.s = v; return j; }
  static J Arr() { J j; j.t = ARR; return j; }
  static J Obj() { J j; j.t = OBJ; return j; }
  static J Ints(const std::vector<long> &v) { J j; j.t = ARR; for (long x : v) j.a.push_back(Int(x)); return j; }
  J &push(const J &v) { a.push_back(v); return *this; }
  J &set(const std::string &k, const J &v) { o.emplace_back(k, v); return *this; }
  const J *get(const char *k) const {
    for (auto &kv : o) if (kv.first == k) return &kv.second;
    return nullptr;
  }
  long at_int(size_t idx, long dflt = 0) const { return (t == ARR && idx < a.size() && a[idx].t == INT) ? a[idx].i : dflt; }
  std::string at_str(size_t idx) const { return (t == ARR && idx < a.size() && a[idx].t == STR) ? a[idx].s : std::string(); }
  std::vector<long> at_ints(size_t idx) const {
    std::vector<long> r;
    if (t == ARR && idx < a.size() && a[idx].t == ARR) for (auto &x : a[idx].a) r.push_back(x.i);
    return r;
  }
  void write(std::string &out) const {
    char tmp[32];
    switch (t) {
      case NUL: out += "null"; break;
      case INT: snprintf(tmp, sizeof tmp, "%ld", i); out += tmp; break;
      case STR:
        out += '"';
        for (char c : s) {
          if (c == '"' || c == '\\') { out += '\\'; out += c; }
          else if ((unsigned char)c < 0x20) { snprintf(tmp, sizeof tmp, "\\u%04x", c); out += tmp; }
          else out += c;
        }
        out += '"';
        break;
      case ARR:
        out += '[';
        for (size_t k = 0; k < a.size(); k++) { if (k) out += ','; a[k].write(out); }
        out += ']';
        break;
      case OBJ:
        out += '{';
        for (size_t k = 0; k < o.size(); k++) {
          if (k) out += ',';
          out += '"'; out += o[k].first; out += "\":";
          o[k].second.write(out);
        }
        out += '}';
        break;
    }
  }
  std::string str() const { std::string s2; write(s2); return s2; }
};

struct JParser {
  const char *p, *e;
  bool        ok = true;
  JParser(const std::string &s) : p(s.data()), e(s.data() + s.size()) {}
  void ws() { while (p < e && (*p == ' ' || *p == '\t' || *p == '\n' || *p == '\r')) p++; }
  J parse() {
    ws();
    J j;
    if (p >= e) { ok = false; return j; }
    if (*p == '{') {
      j.t = J::OBJ; p++; ws();
      if (p < e && *p == '}') { p++; return j; }
      while (ok) {
        ws();
        J k = parse();
        if (k.t != J::STR) { ok = false; break; }
        ws();
        if (p >= e || *p != ':') { ok = false; break; }
        p++;
        J v = parse();
        j.o.emplace_back(k.s, v);
        ws();
        if (p < e && *p == ',') { p++; continue; }
        if (p < e && *p == '}') { p++; break; }
        ok = false;
      }
    } else if (*p == '[') {
      j.t = J::ARR; p++; ws();
      if (p < e && *p == ']') { p++; return j; }
      while (ok) {
        j.a.push_back(parse());
        ws();
        if (p < e && *p == ',') { p++; continue; }
        if (p < e && *p == ']') { p++; break; }
        ok = false;
      }
    } else if (*p == '"') {
      j.t = J::STR; p++;
      while (p < e && *p != '"') {
        if (*p == '\\' && p + 1 < e) {
          p++;
          switch (*p) {
            case 'n': j.s += '\n'; break;
            case 't': j.s += '\t'; break;
            case 'r': j.s += '\r'; break;
            case 'u': if (p + 4 < e) { j.s += (char)strtol(std::string(p + 1, p + 5).c_str(), nullptr, 16); p += 4; } break;
            default: j.s += *p;
          }
          p++;
        } else j.s += *p++;
      }
      if (p < e) p++; else ok = false;
    } else if (*p == '-' || (*p >= '0' && *p <= '9')) {
      char *end = nullptr;
      j.t = J::INT; j.i = strtol(p, &end, 10); p = end;
    } else if (e - p >= 4 && !strncmp(p, "null", 4)) { p += 4;
    } else if (e - p >= 4 && !strncmp(p, "true", 4)) { p += 4; j = J::Int(1);
    } else if (e - p >= 5 && !strncmp(p, "false", 5)) { p += 5; j = J::Int(0);
    } else ok = false;
    return j;
  }
};

// deterministic PRNG (xorshift64*)
struct Rng {
  unsigned long long s;
  explicit Rng(unsigned long long seed) : s(seed * 0x9E3779B97F4A7C15ULL + 0x1234567ULL) { if (!s) s = 1; next(); next(); }
  unsigned long long next() { s ^= s >> 12; s ^= s << 25; s ^= s >> 27; return s * 0x2545F4914F6CDD1DULL; }
  long below(long n) { return n <= 0 ? 0 : (long)((next() >> 11) % (unsigned long long)n); }
  bool chance(int pct) { return below(100) < pct; }
};
