// Common interface of the container drivers (harness for property C19).
//
// A driver only *executes* API calls on the real c-ares container and *reports*
// what it saw (return values, callback invocations, and the observable content
// obtained through the container's own read API).  It contains no reference
// model and makes no verdict: traces are judged by TLC (specs/Containers/*Trace.tla).
#pragma once
#include "json.h"

extern "C" {
#include "ares_private.h"
#include "ares_buf.h"
#include "ares_array.h"
#include "ares_llist.h"
#include "dsa/ares_htable.h"
#include "ares_htable_strvp.h"
#include "ares_htable_szvp.h"
#include "ares_htable_asvp.h"
#include "ares_htable_vpvp.h"
#include "ares_htable_vpstr.h"
#include "ares_htable_dict.h"
#include "dsa/ares_slist.h"
#include "ares_verif.h"
}

struct Ctr {
  virtual ~Ctr() {}
  // op = ["create", args...]; returns the result record
  virtual J create(const J &op, long h) = 0;
  // op = [name, args...]; returns the result record (J::NUL type = unknown op / not applicable: skipped)
  virtual J exec(const J &op) = 0;
  // the observable state through the read API
  virtual J dump() = 0;
  virtual bool alive() = 0;
  // final destroy (only when alive); returns result record
  virtual J destroy() = 0;
  // random driver: choose the next call from what the read API shows now
  virtual J randop(Rng &r, long nkeys, long step, long nops) = 0;
  // random driver: the create op
  virtual J randcreate(Rng &r, long nkeys) = 0;
};

Ctr *make_array();
Ctr *make_slist();
Ctr *make_htable();
Ctr *make_llist();
Ctr *make_buf();

const char *status_name(int st);
inline J    op_make(const char *name) { J j = J::Arr(); j.push(J::Str(name)); return j; }
inline J    op_make(const char *name, long a) { J j = op_make(name); j.push(J::Int(a)); return j; }
inline J    op_make(const char *name, long a, long b) { J j = op_make(name, a); j.push(J::Int(b)); return j; }
inline J    op_make(const char *name, long a, long b, long c) { J j = op_make(name, a, b); j.push(J::Int(c)); return j; }
