// cares_dsa: drives the real c-ares containers (array, skip list, hash tables,
// linked list, byte buffer) with operation scripts and records, per call, the
// real return values, the callback invocations and the content that the
// container's own read API shows.  Property C19.
//
//   verif_dsa replay <scripts.ndjson> <out.ndjson>
//       scripts: one history per line {"h":N,"c":"array","create":[...],"ops":[[name,args...],...]}
//   verif_dsa random <container> <seed> <nops> <nkeys> <out.ndjson> [nhist]
//       seeded random histories of nops calls each, same output format
//
// Output: one event per line {"e":name,"a":[args],"r":{result},"s":{state}};
// a history starts with a "create" event (carrying "h") and ends with "destroy"
// (or "finish").  Histories run in forked children (batches); when a child dies
// (sanitizer report, signal, timeout) the history in progress is reported in
// <out>.crashes ({"h":N,"kind":...,"report":...,"script":{...}}) and the
// campaign continues with the next history.  Leaks found at child exit are
// attributed by re-running the batch with a leak check after every history.
#include "dsa.h"

#include <fcntl.h>
#include <signal.h>
#include <sys/mman.h>
#include <sys/stat.h>
#include <sys/wait.h>
#include <unistd.h>

#include <fstream>
#include <iostream>

extern "C" int  __lsan_do_recoverable_leak_check(void);
extern "C" const char *__asan_default_options() {
  return "detect_leaks=1:exitcode=77:abort_on_error=0:allocator_may_return_null=1:detect_stack_use_after_return=0";
}
extern "C" const char *__ubsan_default_options() { return "print_stacktrace=1:halt_on_error=1"; }

const char *status_name(int st) {
  switch (st) {
    case ARES_SUCCESS: return "SUCCESS";
    case ARES_ENODATA: return "ENODATA";
    case ARES_EFORMERR: return "EFORMERR";
    case ARES_ESERVFAIL: return "ESERVFAIL";
    case ARES_ENOTFOUND: return "ENOTFOUND";
    case ARES_ENOTIMP: return "ENOTIMP";
    case ARES_EREFUSED: return "EREFUSED";
    case ARES_EBADQUERY: return "EBADQUERY";
    case ARES_EBADNAME: return "EBADNAME";
    case ARES_EBADFAMILY: return "EBADFAMILY";
    case ARES_EBADRESP: return "EBADRESP";
    case ARES_ENOMEM: return "ENOMEM";
    case ARES_EBADSTR: return "EBADSTR";
    default: return "EOTHER";
  }
}

static Ctr *make(const std::string &c) {
  if (c == "array") return make_array();
  if (c == "slist") return make_slist();
  if (c == "htable") return make_htable();
  if (c == "llist") return make_llist();
  if (c == "buf") return make_buf();
  return nullptr;
}

#define EVBUF_SIZE (48L << 20)
struct Shared {
  volatile long cur;      // index (in the job list) of the history in progress
  volatile long stage;    // 0 running, 1 all done
  volatile long leak_at;  // leak-check mode: index of the first history after which a leak was seen (-1 none)
  volatile long counted_leaks;  // histories of this child whose final event reported leak > 0
  char          pending[8192];  // the call being executed (JSON), so that a crash record can name it
  volatile long evlen;    // bytes of events of the history in progress (kept here so that the parent
                          // can save the prefix of a history whose child died)
  char          ev[EVBUF_SIZE];
};
static Shared *g_sh;
static int     g_ofd = -1;
static bool    g_discard = false;  // leak-attribution re-runs: no output

// ---- allocation ledger: the library allocates through these, so that the final
// event of a history can report how many library allocations made during the
// history are still live after the container was destroyed (the specification says 0)
static long g_live_allocs = 0;
static void *led_malloc(size_t n) { void *p = malloc(n); if (p) g_live_allocs++; return p; }
static void  led_free(void *p) { if (p) g_live_allocs--; free(p); }
static void *led_realloc(void *p, size_t n) {
  if (p == nullptr) return led_malloc(n);
  if (n == 0) { led_free(p); return nullptr; }
  return realloc(p, n);
}

struct Job {  // one history to run
  long        h = 0;
  std::string c;
  bool        random = false;
  J           script;  // replay: parsed script line
  long        seed = 0, nops = 0, nkeys = 0;
};

// replay mode: the parent only keeps the offsets of the script lines (a big
// parsed script set in the parent would make every fork and every leak check
// at child exit slow); a job is parsed when it is needed.
static std::string       g_scripts_path;
static std::vector<long> g_offsets;
static Job               g_random_proto;
static bool              g_random = false;
static long              g_njobs  = 0;

static bool parse_job(const std::string &line, long idx, Job *job) {
  JParser p(line);
  J       j = p.parse();
  if (!p.ok || j.t != J::OBJ || !j.get("c")) return false;
  job->h      = j.get("h") ? j.get("h")->i : idx;
  job->c      = j.get("c")->s;
  job->script = j;
  return true;
}
static Job load_job(long idx) {
  Job job;
  if (g_random) { job = g_random_proto; job.h = idx; return job; }
  FILE *f = fopen(g_scripts_path.c_str(), "r");
  if (!f) { perror("scripts"); exit(2); }
  fseek(f, g_offsets[idx], SEEK_SET);
  char  *line = nullptr;
  size_t cap  = 0;
  if (getline(&line, &cap, f) < 0 || !parse_job(line, idx, &job)) { fprintf(stderr, "bad script line %ld\n", idx); exit(2); }
  free(line);
  fclose(f);
  return job;
}

static void write_all(int fd, const char *p, size_t n);
static void flush_events() {
  if (g_sh->evlen > 0 && !g_discard) write_all(g_ofd, g_sh->ev, (size_t)g_sh->evlen);
  g_sh->evlen = 0;
}
static void emit(const J &op, const J &r, const J &s, long h, bool withh) {
  std::string out;
  J e = J::Obj();
  e.set("e", op.a[0]);
  if (withh) e.set("h", J::Int(h));
  J args = J::Arr();
  for (size_t k = 1; k < op.a.size(); k++) args.push(op.a[k]);
  e.set("a", args);
  e.set("r", r);
  e.set("s", s);
  e.write(out);
  out += '\n';
  if (g_sh->evlen + (long)out.size() > EVBUF_SIZE) flush_events();
  if ((long)out.size() > EVBUF_SIZE) return;
  memcpy(g_sh->ev + g_sh->evlen, out.data(), out.size());
  g_sh->evlen += (long)out.size();
}

static std::vector<std::string> g_exclude;  // DSA_EXCLUDE=op,op: calls the random driver must not make
static bool excluded(const J &op) {
  for (auto &x : g_exclude) if (op.a[0].s == x) return true;
  return false;
}

// runs one history; its events go to the shared buffer and, when complete, to the output
static void run_history(const Job &job) {
  long base = g_live_allocs;
  Ctr *c    = make(job.c);
  if (!c) { fprintf(stderr, "unknown container %s\n", job.c.c_str()); exit(3); }
  J createop;
  J lastop, lastr;  // terminal event (destroy / finish): emitted after the driver is gone, with the ledger
  auto pend = [&](const J &op) {
    std::string t = op.str();
    if (t.size() >= sizeof(g_sh->pending)) t = "[\"" + op.a[0].s + "\"]";
    memcpy(g_sh->pending, t.c_str(), t.size() + 1);
  };
  auto step = [&](const J &op) {
    pend(op);
    J r2 = c->exec(op);
    if (r2.t == J::NUL) { g_sh->pending[0] = 0; return; }  // not applicable (e.g. handle no longer live)
    if (!c->alive()) { lastop = op; lastr = r2; return; }
    emit(op, r2, c->dump(), job.h, false);
    g_sh->pending[0] = 0;
  };
  if (!job.random) {
    // "create": [args...]; a leading string "create..." names the create call (e.g. create_const)
    const J *cr = job.script.get("create");
    size_t   k0 = 0;
    if (cr && !cr->a.empty() && cr->a[0].t == J::STR && cr->a[0].s.rfind("create", 0) == 0) { createop = op_make(cr->a[0].s.c_str()); k0 = 1; }
    else createop = op_make("create");
    if (cr) for (size_t k = k0; k < cr->a.size(); k++) createop.push(cr->a[k]);
    pend(createop);
    J r = c->create(createop, job.h);
    emit(createop, r, c->dump(), job.h, true);
    g_sh->pending[0] = 0;
    const J *sops = job.script.get("ops");
    if (sops) {
      for (auto &op : sops->a) {
        if (!c->alive()) break;
        if (op.t != J::ARR || op.a.empty() || op.a[0].t != J::STR) continue;
        step(op);
      }
    }
  } else {
    Rng rng((unsigned long long)job.seed * 1000003ULL + (unsigned long long)job.h);
    createop = c->randcreate(rng, job.nkeys);
    pend(createop);
    J r = c->create(createop, job.h);
    emit(createop, r, c->dump(), job.h, true);
    g_sh->pending[0] = 0;
    for (long st = 0; st < job.nops && c->alive(); st++) {
      J op = c->randop(rng, job.nkeys, st, job.nops);
      if (op.t != J::ARR || op.a.empty() || excluded(op)) continue;
      step(op);
    }
  }
  if (c->alive()) {
    lastop = op_make("destroy");
    pend(lastop);
    lastr = c->destroy();
  }
  J fin = c->dump();
  delete c;
  long leak = g_live_allocs - base;
  lastr.set("leak", J::Int(leak));
  if (leak != 0) g_sh->counted_leaks++;
  emit(lastop, lastr, fin, job.h, false);
  g_sh->pending[0] = 0;
  flush_events();
}

static std::string read_file(const std::string &p, size_t max) {
  std::ifstream f(p);
  std::string   s((std::istreambuf_iterator<char>(f)), std::istreambuf_iterator<char>());
  if (s.size() > max) s.resize(max);
  return s;
}

static void write_all(int fd, const char *p, size_t len) {
  size_t off = 0;
  while (off < len) {
    ssize_t n = write(fd, p + off, len - off);
    if (n <= 0) { perror("write"); _exit(4); }
    off += (size_t)n;
  }
}
static void write_all(int fd, const std::string &s) { write_all(fd, s.data(), s.size()); }

static std::string classify(const std::string &rep, int status) {
  const char *pats[] = {"heap-use-after-free", "heap-buffer-overflow", "stack-buffer-overflow", "global-buffer-overflow",
                        "attempting double-free", "attempting free on address", "SEGV", "runtime error",
                        "detected memory leaks", "stack-overflow", "memcpy-param-overlap", "negative-size-param",
                        "allocation-size-too-big", "out-of-memory"};
  for (const char *p : pats)
    if (rep.find(p) != std::string::npos) {
      std::string k = p;
      for (auto &ch : k) if (ch == ' ') ch = '-';
      return k;
    }
  if (WIFSIGNALED(status)) {
    if (WTERMSIG(status) == SIGALRM) return "timeout";
    return "signal-" + std::to_string(WTERMSIG(status));
  }
  return "exit-" + std::to_string(WIFEXITED(status) ? WEXITSTATUS(status) : -1);
}

// innermost c-ares frames of a sanitizer report ("in ares_xxx"), for signatures
static std::string frames(const std::string &rep) {
  std::string res;
  size_t      pos = 0;
  int         n   = 0;
  while (n < 2 && (pos = rep.find(" in ares_", pos)) != std::string::npos) {
    size_t b = pos + 4, e = b;
    while (e < rep.size() && (isalnum((unsigned char)rep[e]) || rep[e] == '_')) e++;
    std::string f = rep.substr(b, e - b);
    if (res.find(f) == std::string::npos) { if (n) res += "<"; res += f; n++; }
    pos = e;
  }
  return res;
}

int main(int argc, char **argv) {
  if (argc < 2) { fprintf(stderr, "usage: %s replay <scripts> <out> | random <container> <seed> <nops> <nkeys> <out> [nhist]\n", argv[0]); return 2; }
  std::string       mode = argv[1];
  std::string       outp;
  long              batch = 2000;
  if (mode == "replay" && argc >= 4) {
    g_scripts_path = argv[2];
    FILE *f = fopen(argv[2], "r");
    if (!f) { fprintf(stderr, "cannot read %s\n", argv[2]); return 2; }
    char  *line = nullptr;
    size_t cap  = 0;
    long   off  = 0;
    ssize_t n;
    while ((n = getline(&line, &cap, f)) >= 0) {
      if (n > 1) g_offsets.push_back(off);
      off += n;
    }
    free(line);
    fclose(f);
    g_njobs = (long)g_offsets.size();
    outp    = argv[3];
  } else if (mode == "random" && argc >= 7) {
    g_random             = true;
    g_njobs              = argc >= 8 ? atol(argv[7]) : 1;
    g_random_proto.c      = argv[2];
    g_random_proto.random = true;
    g_random_proto.seed   = atol(argv[3]);
    g_random_proto.nops   = atol(argv[4]);
    g_random_proto.nkeys  = atol(argv[5]);
    outp  = argv[6];
    batch = 8;
  } else { fprintf(stderr, "bad arguments\n"); return 2; }
  if (getenv("DSA_BATCH")) batch = atol(getenv("DSA_BATCH"));

  g_sh = (Shared *)mmap(nullptr, sizeof(Shared), PROT_READ | PROT_WRITE, MAP_SHARED | MAP_ANONYMOUS, -1, 0);
  if (g_sh == MAP_FAILED) { perror("mmap"); return 2; }
  if (getenv("DSA_EXCLUDE")) {
    std::string x = getenv("DSA_EXCLUDE"), cur;
    for (char ch : x + ",") { if (ch == ',') { if (!cur.empty()) g_exclude.push_back(cur); cur.clear(); } else cur += ch; }
  }
  ares_library_init_mem(ARES_LIB_INIT_ALL, led_malloc, led_free, led_realloc);
  std::string errp = outp + ".err", crashp = outp + ".crashes";
  int         ofd  = open(outp.c_str(), O_WRONLY | O_CREAT | O_TRUNC | O_APPEND, 0644);
  int         cfd  = open(crashp.c_str(), O_WRONLY | O_CREAT | O_TRUNC | O_APPEND, 0644);
  if (ofd < 0 || cfd < 0) { perror("open out"); return 2; }
  g_ofd = ofd;
  long per_history_timeout = getenv("DSA_TIMEOUT") ? atol(getenv("DSA_TIMEOUT")) : (g_random ? 60 : 10);
  long ncrash = 0, ntimeouts = 0, skipped = 0;
  const long max_timeouts = 4;  // a tree on which histories hang: do not wait a timeout for each of them
  const long max_crashes  = getenv("DSA_MAX_CRASHES") ? atol(getenv("DSA_MAX_CRASHES")) : 6000;  // ~20 ms each

  auto crash_record = [&](const Job &job, const std::string &kind, const std::string &rep) {
    J rec = J::Obj();
    rec.set("h", J::Int(job.h));
    rec.set("c", J::Str(job.c));
    rec.set("kind", J::Str(kind));
    rec.set("frames", J::Str(frames(rep)));
    rec.set("report", J::Str(rep));
    {
      std::string ptxt(g_sh->pending);
      JParser     pp(ptxt);
      J           pj = pp.parse();
      if (pp.ok && pj.t == J::ARR) rec.set("pending", pj);
    }
    if (!job.random) rec.set("script", job.script);
    else {
      J s = J::Obj();
      s.set("random", J::Ints({job.seed, job.nops, job.nkeys, job.h}));
      rec.set("script", s);
    }
    std::string line = rec.str() + "\n";
    write_all(cfd, line);
    ncrash++;
  };

  // run jobs[from, to) in a child; leakmode: no output, leak check after each history
  auto run_child = [&](long from, long to, bool leakmode, int *status) {
    g_sh->cur = from; g_sh->stage = 0; g_sh->leak_at = -1; g_sh->counted_leaks = 0; g_sh->evlen = 0;
    g_sh->pending[0] = 0;
    fflush(nullptr);
    pid_t pid = fork();
    if (pid < 0) { perror("fork"); exit(2); }
    if (pid == 0) {
      int efd = open(errp.c_str(), O_WRONLY | O_CREAT | O_TRUNC, 0644);
      if (efd >= 0) { dup2(efd, 2); close(efd); }
      for (long k = from; k < to; k++) {
        g_sh->cur = k;
        alarm((unsigned)per_history_timeout);
        g_discard = leakmode;
        Job job   = load_job(k);
        run_history(job);
        alarm(0);
        if (leakmode && __lsan_do_recoverable_leak_check()) { g_sh->leak_at = k; _exit(0); }
      }
      g_sh->stage = 1;
      if (leakmode) _exit(0);
      exit(0);  // runs the leak check of the sanitizer runtime
    }
    while (waitpid(pid, status, 0) < 0 && errno == EINTR) {}
  };

  long pos = 0;
  while (pos < g_njobs) {
    long end = pos + batch < g_njobs ? pos + batch : g_njobs;
    long from = pos;
    while (from < end) {
      int status = 0;
      run_child(from, end, false, &status);
      if (WIFEXITED(status) && WEXITSTATUS(status) == 0) { from = end; break; }
      std::string rep = read_file(errp, 6000);
      if (g_sh->stage == 1 && g_sh->counted_leaks > 0) {
        // every history completed and the leak report at exit is explained by histories whose
        // final event already says leak > 0 (judged by the trace specification)
        from = end;
        break;
      }
      if (g_sh->stage == 1) {
        // every history completed, the runtime complained at exit: leaks.  Attribute them.
        long lf = from;
        bool any = false;
        while (lf < end) {
          int st2 = 0;
          run_child(lf, end, true, &st2);
          if (g_sh->leak_at >= 0) {
            crash_record(load_job(g_sh->leak_at), "detected-memory-leaks", read_file(errp, 6000));
            any = true;
            lf  = g_sh->leak_at + 1;
          } else if (g_sh->stage == 1) break;
          else lf = g_sh->cur + 1;  // crashed only in leak mode: skip
        }
        if (!any) crash_record(load_job(from), classify(rep, status) + "-unattributed", rep);
        from = end;
        break;
      }
      long bad = g_sh->cur;
      if (classify(rep, status) == "timeout") ntimeouts++;
      // keep the events of the history up to the call that killed the child
      if (g_sh->evlen > 0) write_all(ofd, g_sh->ev, (size_t)g_sh->evlen);
      g_sh->evlen = 0;
      crash_record(load_job(bad), classify(rep, status), rep);
      from = bad + 1;
      if (ntimeouts >= max_timeouts || ncrash >= max_crashes) break;
    }
    pos = end;
    if (ntimeouts >= max_timeouts || ncrash >= max_crashes) { skipped = g_njobs - pos; break; }
  }
  unlink(errp.c_str());
  close(ofd);
  close(cfd);
  fprintf(stdout, "histories=%ld crashes=%ld timeouts=%ld skipped_after_timeouts=%ld\n", g_njobs, ncrash, ntimeouts, skipped);
  return 0;
}
